// C06: the tip is the most-work valid chain and the UTXO set equals its replay.
// Explicit-state exploration: every arrival order of the blocks of each tree
// template is executed on the real chain.Chain (fresh copy of a pre-built prefix
// directory per history); after every delivery tip and UTXO dump are compared with
// the reference model (refchain).
package main

import (
	"bytes"
	"context"
	"crypto/sha256"
	"encoding/json"
	"flag"
	"fmt"
	"github.com/piotrnar/gocoin/lib/btc"
	"github.com/piotrnar/gocoin/lib/chain"
	"math/big"
	"os"
	"os/exec"
	"regexp"
	"runtime"
	"runtime/debug"
	"runtime/pprof"
	"sort"
	"strings"
	"sync"
	"sync/atomic"
	"time"

	"verif/internal/ev"
	"verif/internal/minichain"
	"verif/ref/refchain"
	"verif/ref/reftx"
)

var wsOP1 = func() []byte { h := sha256.Sum256([]byte{0x51}); return append([]byte{0x00, 0x20}, h[:]...) }()

// verify: the trivial language plus P2WSH(OP_1), which is valid iff spent with witness [0x51]
// and an empty scriptSig once the witness rules are active (they are, from height 6).
func verify(tx *reftx.Tx, idx int, spent []refchain.Coin, f refchain.Flags) bool {
	if bytes.Equal(spent[idx].Script, wsOP1) {
		in := &tx.In[idx]
		if !f.Witness {
			return len(in.Script) == 0
		}
		return len(in.Script) == 0 && len(in.Witness) == 1 && bytes.Equal(in.Witness[0], []byte{0x51})
	}
	return refchain.Trivial(tx, idx, spent, f)
}

var params = func() refchain.Params {
	p := refchain.DefaultParams()
	p.Verify = verify
	return p
}()

const fanOut = 70

const vouchedLockTime = 777

var watchdog = 120 * time.Second

type tmpl struct {
	pre    *prefix // the prefix this template grows from (nil: the default one)
	name   string
	blocks []*reftx.Block
	names  []string
	inSeq  int  // restricted enumeration: the first inSeq blocks arrive in their listed order
	always bool // the restriction applies in the thorough tier too
}

type prefix struct {
	dir    string
	blocks []*reftx.Block
	tip    [32]byte
	cb     []refchain.Outpoint // cb[h] = coinbase outpoint of height h
	M      [32]byte            // 4-output tx (OP_1,OP_1,OP_1,OP_0) confirmed in the prefix
	N      [32]byte            // 2-output tx
	W      [32]byte            // output 0: P2WSH(OP_1), output 1: OP_1
	T      [][32]byte          // fanOut one-output transactions (distinct txids), confirmed in block 105
	model  *refchain.Model
	height uint32
}

const prefixLen = 105

func op(tx [32]byte, v uint32) refchain.Outpoint { return refchain.Outpoint{Tx: tx, Vout: v} }
func o1(v uint64) reftx.Out                      { return reftx.Out{Value: v, Script: []byte{0x51}} }

func buildPrefix() *prefix {
	p := &prefix{dir: ev.Scratch("c06-prefix")}
	e := minichain.Open(p.dir, &minichain.Opts{Params: params})
	prev := minichain.GenesisHash
	p.cb = make([]refchain.Outpoint, prefixLen+1)
	var fan [32]byte
	for h := uint32(1); h <= prefixLen; h++ {
		s := minichain.Spec{Prev: prev, Height: h, CbValue: -1}
		if h == 102 {
			m := minichain.Spend([]refchain.Outpoint{p.cb[1]}, []reftx.Out{o1(10e8), o1(10e8), o1(10e8), {Value: 10e8, Script: []byte{0x00}}})
			p.M = m.TxID()
			s.Txs = append(s.Txs, m)
			s.Fees = 10e8
		}
		if h == 103 {
			n := minichain.Spend([]refchain.Outpoint{p.cb[2]}, []reftx.Out{o1(25e8), o1(25e8)})
			p.N = n.TxID()
			s.Txs = append(s.Txs, n)
		}
		if h == 104 {
			w := minichain.Spend([]refchain.Outpoint{p.cb[3]}, []reftx.Out{{Value: 25e8, Script: wsOP1}, o1(25e8)})
			p.W = w.TxID()
			var fo []reftx.Out
			for i := 0; i < fanOut; i++ {
				fo = append(fo, o1(7e7))
			}
			f := minichain.Spend([]refchain.Outpoint{p.cb[4]}, fo)
			fan = f.TxID()
			s.Txs = append(s.Txs, w, f)
			s.Fees = 50e8 - fanOut*7e7
		}
		if h == 105 {
			for i := 0; i < fanOut; i++ {
				t := minichain.Spend([]refchain.Outpoint{op(fan, uint32(i))}, []reftx.Out{o1(7e7)})
				p.T = append(p.T, t.TxID())
				s.Txs = append(s.Txs, t)
			}
		}
		b := minichain.Build(s)
		if r := e.Deliver(b.Bytes()); r != "ok" {
			ev.HarnessError("prefix block %d: %s", h, r)
		}
		p.cb[h] = op(b.Txs[0].TxID(), 0)
		p.blocks = append(p.blocks, b)
		prev = b.Hash()
	}
	p.tip = prev
	p.height = prefixLen
	e.Close()
	p.model = refchain.New(params, minichain.GenesisHash, minichain.GenesisTime, minichain.PowBits)
	for _, b := range p.blocks {
		if n := p.model.Add(b); n == nil || !p.model.Valid(n) {
			ev.HarnessError("reference model refuses prefix block")
		}
	}
	p.model.Compact(8)
	return p
}

// buildRetargetPrefix: 2014 blocks 150 s apart (plus a funding tx), so that the block
// at height 2015 decides the next period's difficulty: stamped two weeks after genesis
// the target stays at the limit, stamped 150 s after its parent it drops to a quarter.
func buildRetargetPrefix() *prefix {
	const n = 2014
	p := &prefix{dir: ev.Scratch("c06-retarget-prefix"), height: n}
	e := minichain.Open(p.dir, &minichain.Opts{Params: params})
	p.model = refchain.New(params, minichain.GenesisHash, minichain.GenesisTime, minichain.PowBits)
	prev := minichain.GenesisHash
	p.cb = make([]refchain.Outpoint, n+1)
	for h := uint32(1); h <= n; h++ {
		s := minichain.Spec{Prev: prev, Height: h, CbValue: -1, Time: minichain.GenesisTime + 150*h}
		if h == 102 {
			m := minichain.Spend([]refchain.Outpoint{p.cb[1]}, []reftx.Out{o1(10e8), o1(10e8), o1(10e8), o1(10e8), o1(10e8)})
			p.M = m.TxID()
			s.Txs = append(s.Txs, m)
		}
		b := minichain.Build(s)
		if r := e.Deliver(b.Bytes()); r != "ok" {
			ev.HarnessError("retarget prefix block %d: %s", h, r)
		}
		if nd := p.model.Add(b); nd == nil || !p.model.Valid(nd) {
			ev.HarnessError("reference model refuses retarget prefix block %d", h)
		}
		if h%64 == 0 {
			p.model.Compact(8)
		}
		p.cb[h] = op(b.Txs[0].TxID(), 0)
		p.blocks = append(p.blocks, b)
		prev = b.Hash()
	}
	p.tip = prev
	e.Close()
	return p
}

// retargetTemplate: branch A keeps the difficulty (5 blocks of work 1 each), branch B
// quadruples it (work 1, 4, 4): B is shorter but heavier from its third block on, and
// B2016 ties with A2019.
func retargetTemplate(p *prefix) *tmpl {
	t := &tmpl{pre: p, name: "shorter-but-heavier-across-retarget", inSeq: 4}
	m := p.model.Clone()
	add := func(name string, parent *refchain.Node, tm uint32, tag byte, txs ...*reftx.Tx) *refchain.Node {
		b := minichain.Build(minichain.Spec{Prev: parent.Hash, Height: parent.Height + 1, Time: tm, Tag: tag, Txs: txs, CbValue: -1,
			Bits: refchain.RequiredBits(parent, minichain.PowBits)})
		nd := m.Add(b)
		if nd == nil || m.CheckBlock(parent, b, minichain.PowBits, 1<<40) != "" {
			ev.HarnessError("retarget template: block %s is not valid: %s", name, m.CheckBlock(parent, b, minichain.PowBits, 1<<40))
		}
		t.blocks = append(t.blocks, b)
		t.names = append(t.names, name)
		return nd
	}
	tip := m.Nodes[p.tip]
	sp := minichain.Spend
	// branch A: block 2015 two weeks after genesis -> next period stays at the limit
	a := add("A2015", tip, minichain.GenesisTime+14*24*3600, 1, sp([]refchain.Outpoint{op(p.M, 0)}, []reftx.Out{o1(10e8)}))
	for i := 0; i < 3; i++ {
		a = add(fmt.Sprint("A", 2016+i), a, a.Time+600, 1)
	}
	// branch B: block 2015 right after its parent -> next period is four times harder
	b := add("B2015", tip, tip.Time+150, 2, sp([]refchain.Outpoint{op(p.M, 0), op(p.M, 1)}, []reftx.Out{o1(20e8)}))
	b = add("B2016", b, b.Time+150, 2)
	b = add("B2017", b, b.Time+150, 2, sp([]refchain.Outpoint{op(p.M, 2)}, []reftx.Out{o1(10e8)}))
	if refchain.Work(b.Bits).Cmp(refchain.Work(a.Bits)) <= 0 {
		ev.HarnessError("retarget template: branch B is not harder than branch A (bits %x vs %x)", b.Bits, a.Bits)
	}
	return t
}

// retargetTieTemplate: branch A has five blocks of work 1, branch B two blocks of work
// 1 and 4: A2019 and B2016 have exactly the same work at different heights.
func retargetTieTemplate(p *prefix) *tmpl {
	t := &tmpl{pre: p, name: "equal-work-at-different-heights-across-retarget", inSeq: 5, always: true}
	m := p.model.Clone()
	add := func(name string, parent *refchain.Node, tm uint32, tag byte, txs ...*reftx.Tx) *refchain.Node {
		b := minichain.Build(minichain.Spec{Prev: parent.Hash, Height: parent.Height + 1, Time: tm, Tag: tag, Txs: txs, CbValue: -1,
			Bits: refchain.RequiredBits(parent, minichain.PowBits)})
		nd := m.Add(b)
		if nd == nil || m.CheckBlock(parent, b, minichain.PowBits, 1<<40) != "" {
			ev.HarnessError("retarget tie template: block %s is not valid: %s", name, m.CheckBlock(parent, b, minichain.PowBits, 1<<40))
		}
		t.blocks = append(t.blocks, b)
		t.names = append(t.names, name)
		return nd
	}
	tip := m.Nodes[p.tip]
	sp := minichain.Spend
	a := add("A2015", tip, minichain.GenesisTime+14*24*3600, 3, sp([]refchain.Outpoint{op(p.M, 0)}, []reftx.Out{o1(10e8)}))
	for i := 0; i < 4; i++ {
		a = add(fmt.Sprint("A", 2016+i), a, a.Time+600, 3)
	}
	b := add("B2015", tip, tip.Time+150, 4, sp([]refchain.Outpoint{op(p.M, 0), op(p.M, 1)}, []reftx.Out{o1(20e8)}))
	b = add("B2016", b, b.Time+150, 4, sp([]refchain.Outpoint{op(p.M, 2)}, []reftx.Out{o1(10e8)}))
	wa, wb := a.CumWork, b.CumWork
	if wa.Cmp(wb) != 0 {
		ev.HarnessError("retarget tie template: branch works differ (%v vs %v)", wa, wb)
	}
	return t
}

type bspec struct {
	name, parent string
	tag          byte
	txs          []*reftx.Tx
	fees         uint64
	cbExtra      uint64 // claim more than allowed
	witness      bool   // add the witness commitment
}

func (p *prefix) mk(name string, specs []bspec) *tmpl {
	t := &tmpl{name: name}
	byName := map[string]*reftx.Block{}
	height := map[string]uint32{"P": prefixLen}
	hash := map[string][32]byte{"P": p.tip}
	for _, s := range specs {
		h := height[s.parent] + 1
		sp := minichain.Spec{Prev: hash[s.parent], Height: h, Tag: s.tag, Txs: s.txs, Fees: s.fees, CbValue: -1, Witness: s.witness}
		if s.cbExtra > 0 {
			sp.CbValue = int64(refchain.Subsidy(h) + s.fees + s.cbExtra)
		}
		b := minichain.Build(sp)
		byName[s.name] = b
		height[s.name] = h
		hash[s.name] = b.Hash()
		t.blocks = append(t.blocks, b)
		t.names = append(t.names, s.name)
	}
	return t
}

// mustBeValid is a vacuity guard for templates whose blocks are all meant to be valid on their own
// branch (the prefix was once extended with transactions that spent what a template spends, which
// silently turned two of its blocks into double spends).
func (p *prefix) mustBeValid(t *tmpl) *tmpl {
	m := p.model.Clone()
	for i, b := range t.blocks {
		n := m.Add(b)
		if n == nil || !m.Valid(n) {
			why := "not added (parent unknown: list parents first)"
			if n != nil {
				why = m.Why(n)
			}
			ev.HarnessError("template %s: block %s is meant to be valid on its branch: %s", t.name, t.names[i], why)
		}
	}
	return t
}

func templates(p *prefix, thorough bool) []*tmpl {
	sp := minichain.Spend
	ops := func(o ...refchain.Outpoint) []refchain.Outpoint { return o }
	outs := func(o ...reftx.Out) []reftx.Out { return o }
	var ts []*tmpl

	// T1: two branches of depth 3 with spend graphs crossing the fork.
	{
		// (A1 spends the coinbase of height 5 and the B branch leaves it alone, A3 and B3 spend one each: blocks that spend a coinbase
		// are disconnected in many orders, and what comes back must again be a coinbase output)
		a1 := sp(ops(op(p.M, 0), p.cb[5]), outs(o1(4e8), o1(5e8), o1(50e8)))
		a2 := sp(ops(op(a1.TxID(), 0), op(p.M, 1)), outs(o1(14e8)))
		a3 := sp(ops(p.cb[6]), outs(o1(50e8)))
		b1 := sp(ops(op(p.M, 0)), outs(o1(9e8)))
		b2 := sp(ops(op(p.M, 2), op(b1.TxID(), 0)), outs(o1(1e8), o1(2e8), o1(3e8)))
		x := sp(ops(p.cb[7]), outs(o1(20e8), o1(30e8)))
		y := sp(ops(op(x.TxID(), 0)), outs(o1(19e8)))
		ts = append(ts, p.mustBeValid(p.mk("two-branches-cross-spends", []bspec{
			{name: "A1", parent: "P", tag: 1, txs: []*reftx.Tx{a1}, fees: 1e8},
			{name: "A2", parent: "A1", tag: 1, txs: []*reftx.Tx{a2}},
			{name: "A3", parent: "A2", tag: 1, txs: []*reftx.Tx{a3}},
			{name: "B1", parent: "P", tag: 2, txs: []*reftx.Tx{b1}, fees: 1e8},
			{name: "B2", parent: "B1", tag: 2, txs: []*reftx.Tx{b2}, fees: 13e8},
			{name: "B3", parent: "B2", tag: 2, txs: []*reftx.Tx{x, y}, fees: 1e8},
		})))
	}
	// T2: three-way fork with ties; C3 double-spends what C1 spent (invalid only on connect).
	{
		c1 := sp(ops(op(p.M, 0)), outs(o1(10e8)))
		c3 := sp(ops(op(p.M, 0)), outs(o1(9e8)))
		a1 := sp(ops(op(p.N, 0)), outs(o1(25e8)))
		b2 := sp(ops(op(p.N, 0), op(p.N, 1)), outs(o1(50e8)))
		ts = append(ts, p.mk("three-way-fork-invalid-heavier", []bspec{
			{name: "A1", parent: "P", tag: 1, txs: []*reftx.Tx{a1}},
			{name: "A2", parent: "A1", tag: 1},
			{name: "B1", parent: "P", tag: 2},
			{name: "B2", parent: "B1", tag: 2, txs: []*reftx.Tx{b2}},
			{name: "C1", parent: "P", tag: 3, txs: []*reftx.Tx{c1}},
			{name: "C2", parent: "C1", tag: 3},
			{name: "C3", parent: "C2", tag: 3, txs: []*reftx.Tx{c3}, fees: 1e8},
		}))
	}
	// T3: heavier branch whose n-th block is invalid, for each kind of invalidity.
	kinds := []struct {
		kind string
		mk   func() (txs []*reftx.Tx, fees, cbExtra uint64)
	}{
		{"missing-input", func() ([]*reftx.Tx, uint64, uint64) {
			return []*reftx.Tx{sp(ops(op([32]byte{7, 7, 7}, 0)), outs(o1(1)))}, 0, 0
		}},
		{"script-fails", func() ([]*reftx.Tx, uint64, uint64) {
			return []*reftx.Tx{sp(ops(op(p.M, 3)), outs(o1(10e8)))}, 0, 0
		}},
		{"coinbase-overclaims", func() ([]*reftx.Tx, uint64, uint64) { return nil, 0, 1 }},
		{"double-spend-in-block", func() ([]*reftx.Tx, uint64, uint64) {
			return []*reftx.Tx{sp(ops(op(p.M, 1)), outs(o1(10e8))), sp(ops(op(p.M, 1)), outs(o1(9e8)))}, 1e8, 0
		}},
	}
	for pos := 1; pos <= 3; pos++ {
		for ki, k := range kinds {
			if !thorough && !(pos == 2 || ki == 1) {
				continue
			}
			good := sp(ops(op(p.M, 0)), outs(o1(3e8), o1(7e8)))
			good2 := sp(ops(op(good.TxID(), 1), op(p.M, 2)), outs(o1(17e8)))
			specs := []bspec{
				{name: "A1", parent: "P", tag: 1, txs: []*reftx.Tx{sp(ops(op(p.M, 0), op(p.M, 2)), outs(o1(20e8)))}},
				{name: "A2", parent: "A1", tag: 1},
			}
			bn := []string{"B1", "B2", "B3"}
			par := "P"
			for i := 1; i <= 3; i++ {
				s := bspec{name: bn[i-1], parent: par, tag: 2}
				if i == pos {
					s.txs, s.fees, s.cbExtra = k.mk()
				} else if i == 1 || (i == 2 && pos == 1) {
					s.txs = []*reftx.Tx{good}
				} else if pos != 1 || i == 3 {
					s.txs = []*reftx.Tx{good2}
				}
				specs = append(specs, s)
				par = s.name
			}
			ts = append(ts, p.mk(fmt.Sprintf("heavier-branch-invalid-at-%d-%s", pos, k.kind), specs))
		}
	}
	// T5: a heavier branch that is invalid only under a height-gated script rule (a witness
	// program spent without its witness), and its valid counterpart.
	{
		bad := sp(ops(op(p.W, 0)), outs(o1(25e8)))
		good := sp(ops(op(p.W, 0)), outs(o1(25e8)))
		good.In[0].Witness = [][]byte{{0x51}}
		later := sp(ops(op(p.W, 1)), outs(o1(25e8)))
		for _, v := range []struct {
			name string
			tx   *reftx.Tx
			wit  bool
		}{{"heavier-branch-invalid-only-under-height-gated-script-rules", bad, false}, {"heavier-branch-spends-witness-program-with-witness", good, true}} {
			ts = append(ts, p.mk(v.name, []bspec{
				{name: "A1", parent: "P", tag: 1, txs: []*reftx.Tx{later}},
				{name: "A2", parent: "A1", tag: 1},
				{name: "B1", parent: "P", tag: 2, txs: []*reftx.Tx{v.tx}, witness: v.wit},
				{name: "B2", parent: "B1", tag: 2, txs: []*reftx.Tx{later}},
				{name: "B3", parent: "B2", tag: 2},
			}))
		}
	}
	// T6: blocks whose inputs come from 32/33/34 and 64/65/66 distinct confirmed transactions
	// (the UTXO commit deletes spent records in batches), on competing branches.
	for _, n := range [][2]int{{33, 66}, {32, 65}, {34, 64}} {
		many := func(from, cnt int) *reftx.Tx {
			var in []refchain.Outpoint
			for i := 0; i < cnt; i++ {
				in = append(in, op(p.T[from+i], 0))
			}
			return sp(in, outs(o1(uint64(cnt)*7e7)))
		}
		if !thorough && n[0] != 33 {
			continue
		}
		ts = append(ts, p.mk(fmt.Sprintf("blocks-spending-%d-and-%d-distinct-transactions", n[0], n[1]), []bspec{
			{name: "A1", parent: "P", tag: 1, txs: []*reftx.Tx{many(2, n[0])}},
			{name: "A2", parent: "A1", tag: 1},
			{name: "B1", parent: "P", tag: 2, txs: []*reftx.Tx{many(0, n[1])}},
			{name: "B2", parent: "B1", tag: 2},
			{name: "B3", parent: "B2", tag: 2, txs: []*reftx.Tx{many(n[1], fanOut-n[1])}},
		}))
	}
	// T7: the heavier branch's first block holds a transaction the memory pool vouches for (chain.TrustedTxChecker,
	// installed as the client does) followed by one whose script fails: invalid only when connected.
	{
		okTx := sp(ops(op(p.M, 0)), outs(o1(10e8)))
		okTx.LockTime = vouchedLockTime
		badTx := sp(ops(op(p.M, 3)), outs(o1(10e8)))
		ts = append(ts, p.mk("heavier-branch-pool-verified-tx-then-script-failure", []bspec{
			{name: "A1", parent: "P", tag: 1, txs: []*reftx.Tx{sp(ops(op(p.M, 1)), outs(o1(10e8)))}},
			{name: "A2", parent: "A1", tag: 1},
			{name: "B1", parent: "P", tag: 2, txs: []*reftx.Tx{okTx, badTx}},
			{name: "B2", parent: "B1", tag: 2},
			{name: "B3", parent: "B2", tag: 2},
		}))
	}
	// T8: a fork point that is itself on a side branch gets three children; the first arrived one is invalid
	// when connected, the other two tie. When an extension of the invalid child triggers a reorganisation
	// that fails, what the node falls back to depends on the order of the remaining children.
	{
		x1 := sp(ops(op([32]byte{9, 9, 9}, 0)), outs(o1(1)))
		t := p.mk("three-children-first-invalid-two-tied", []bspec{
			{name: "R1", parent: "P", tag: 4},
			{name: "R2", parent: "R1", tag: 4},
			{name: "Q1", parent: "P", tag: 5},
			{name: "X1", parent: "Q1", tag: 1, txs: []*reftx.Tx{x1}},
			{name: "C1", parent: "Q1", tag: 2},
			{name: "D1", parent: "Q1", tag: 3},
			{name: "C2", parent: "C1", tag: 2},
			{name: "D2", parent: "D1", tag: 3},
			{name: "X2", parent: "X1", tag: 1},
			{name: "X3", parent: "X2", tag: 1},
		})
		t.inSeq, t.always = 8, true // the first eight in this order (a scripted prelude), X2 / X3 anywhere
		ts = append(ts, t)
	}
	// T9: blocks without any spend on branches that are connected and disconnected again, at heights
	// where an earlier, meanwhile disconnected block did spend. Undo data is kept per height: what a
	// coinbase-only block leaves (or does not leave) there decides what its own disconnection restores.
	// X2 spends M:1 at height +2; the Y branch spends M:1 at +1 and is empty at +2, +3; the Z branch
	// forks off Y1 and makes the node disconnect the empty Y3, Y2.
	{
		x2 := sp(ops(op(p.M, 1)), outs(o1(10e8)))
		y1 := sp(ops(op(p.M, 1)), outs(o1(9e8)))
		t := p.mk("empty-blocks-disconnected-at-heights-of-earlier-spends", []bspec{
			{name: "X1", parent: "P", tag: 1},
			{name: "X2", parent: "X1", tag: 1, txs: []*reftx.Tx{x2}},
			{name: "Y1", parent: "P", tag: 2, txs: []*reftx.Tx{y1}, fees: 1e8},
			{name: "Y2", parent: "Y1", tag: 2},
			{name: "Y3", parent: "Y2", tag: 2},
			{name: "Z2", parent: "Y1", tag: 3},
			{name: "Z3", parent: "Z2", tag: 3},
			{name: "Z4", parent: "Z3", tag: 3},
		})
		t.inSeq, t.always = 5, true // X1 X2 Y1 Y2 Y3 in this order, the Z blocks anywhere
		ts = append(ts, t)
	}
	// T10: the best known header is a block that turns out invalid when connected, its valid sibling then
	// becomes the tip, the chain goes on, and a third branch makes the node disconnect all of it. What the
	// node believed about the best header at each commit (LocalAcceptBlock passes it as LastKnownHeight)
	// differs between the header schedules.
	{
		x1 := sp(ops(op([32]byte{8, 8, 8}, 0)), outs(o1(1)))
		a1 := sp(ops(op(p.N, 0)), outs(o1(25e8)))
		a2 := sp(ops(op(a1.TxID(), 0)), outs(o1(24e8)))
		b1 := sp(ops(op(p.N, 0)), outs(o1(20e8), o1(5e8)))
		ts = append(ts, p.mk("best-header-refused-then-sibling-extended-then-reorganised", []bspec{
			{name: "X1", parent: "P", tag: 9, txs: []*reftx.Tx{x1}},
			{name: "A1", parent: "P", tag: 1, txs: []*reftx.Tx{a1}},
			{name: "A2", parent: "A1", tag: 1, txs: []*reftx.Tx{a2}, fees: 1e8},
			{name: "B1", parent: "P", tag: 2, txs: []*reftx.Tx{b1}},
			{name: "B2", parent: "B1", tag: 2},
			{name: "B3", parent: "B2", tag: 2},
		}))
	}
	// T4: equal-work ties at depth 2 and a late tie-breaker.
	{
		a1 := sp(ops(op(p.N, 1)), outs(o1(5e8), o1(20e8)))
		b1 := sp(ops(op(p.N, 1)), outs(o1(25e8)))
		a3 := sp(ops(op(a1.TxID(), 1)), outs(o1(20e8)))
		ts = append(ts, p.mk("equal-work-ties", []bspec{
			{name: "A1", parent: "P", tag: 1, txs: []*reftx.Tx{a1}},
			{name: "A2", parent: "A1", tag: 1},
			{name: "B1", parent: "P", tag: 2, txs: []*reftx.Tx{b1}},
			{name: "B2", parent: "B1", tag: 2},
			{name: "A3", parent: "A2", tag: 1, txs: []*reftx.Tx{a3}},
			{name: "B3", parent: "B2", tag: 2},
		}))
	}
	return ts
}

func cpdir(src, dst string) { ev.CopyDir(src, dst) }

type step struct {
	Ev     string `json:"ev"`
	Result string `json:"result,omitempty"`
}

type outcome struct {
	key, what string
	trace     []step
	global    bool // key is not template-specific
}

// runHistory executes one history on a fresh copy of the prefix directory.
// events: block index >= 0, -1 = Idle, -2 = close+reopen.
func runHistory(p *prefix, t *tmpl, events []int, states map[string]bool, mu *sync.Mutex, trans *int64) (res *outcome) {
	if t.pre != nil {
		p = t.pre
	}
	dir := ev.Scratch("c06")
	defer os.RemoveAll(dir)
	cpdir(p.dir, dir+"/d")
	e := minichain.Open(dir+"/d", &minichain.Opts{Params: params})
	closed := false
	defer func() {
		if !closed {
			e.Close()
		}
	}()
	m := p.model.Clone()
	var trace []step
	fail := func(key, what string) *outcome {
		return &outcome{key: key, what: what, trace: trace}
	}
	defer func() {
		if r := recover(); r != nil {
			closed = true // the instance may hold poisoned locks: abandon it
			msg := fmt.Sprint(r)
			if os.Getenv("VERIF_STACK") != "" {
				os.Stderr.Write(debug.Stack())
			}
			msg = hexRun.ReplaceAllString(msg, "<hash>") // block hashes depend on mined nonces: keep keys stable
			msg = scratchDir.ReplaceAllString(msg, "<dir>/")
			if len(msg) > 60 {
				msg = msg[:60]
			}
			res = fail("panic:"+msg, fmt.Sprint("panic: ", r))
		}
	}()
	hf := false // headers-first history: some header is announced before its data
	cbs := false // the wallet's UTXO callbacks are installed
	for _, x := range events {
		if x <= -100 {
			hf = true
		}
		if x == -4 {
			cbs = true
		}
	}
	if cbs {
		e.Shadow()
	}
	failedReorg := false // a reorganisation has failed earlier in this history
	reopened := false    // the chain was closed and reopened earlier in this history
	var orphans []int
	okHashes := map[[32]byte]bool{p.tip: true}
	delivered := map[int]bool{}
	var acceptedOrder []string
	check := func(evname string) *outcome {
		best := m.BestTips()
		tip, _ := e.Tip()
		if tip != best[0].Hash {
			name := func(h [32]byte) string {
				for i, b := range t.blocks {
					if b.Hash() == h {
						return t.names[i]
					}
				}
				if h == p.tip {
					return "P"
				}
				return fmt.Sprintf("%x", h[:4])
			}
			// Classification of one specific, listed defect: right after a failed
			// reorganisation gocoin falls back to the heaviest leaf by child order
			// (ParseTillBlock -> FindFarthestNode) instead of returning to the tip it
			// had; with equal-work leaves that may not be the first seen one.
			isTie := false
			for _, b := range best[1:] {
				if b.Hash == tip {
					isTie = true
				}
			}
			// Equal work under the consensus definition floor(2^256/(target+1)) but not under the
			// exact quotient (only constructible at the trivial test difficulty, where one block's work
			// is the integer 2): "greatest cumulative proof-of-work" does not say which of the
			// two measures breaks such a tie, so either leaf is accepted and the history goes on
			// with the one the node chose.
			if isTie && !failedReorg {
				var tn *refchain.Node
				for _, b := range best[1:] {
					if b.Hash == tip {
						tn = b
					}
				}
				if exactWork(tn).Cmp(exactWork(best[0])) != 0 {
					atomic.AddInt64(&ambiguousTies, 1)
					best = []*refchain.Node{tn}
					goto utxo
				}
			}
			if isTie && failedReorg {
				// The listed finding is exactly this: the fallback takes the heaviest leaf with ties broken by
				// the order in which the competing children ARRIVED at their fork point. A tied tip that this
				// rule does not produce is something else and is reported under its own key.
				// (after a restart the children of a node are in map order, any tied leaf may come out; with
				// announced headers the children are in announcement order)
				if pick := arrivalOrderPick(m, m.Nodes[p.tip]); !reopened && !hf && pick != nil && pick.Hash != tip {
					return fail("tip-tie-after-failed-reorg-not-by-arrival-order", fmt.Sprintf("after %s: tip is %s; first seen is %s, the arrival-order fallback of the listed finding would give %s", evname, name(tip), name(best[0].Hash), name(pick.Hash)))
				}
				return &outcome{key: "tip-tie-not-first-seen-after-failed-reorg", global: true, trace: trace,
					what: fmt.Sprintf("after %s: tip is %s, first-seen best valid tip is %s (equal work)", evname, name(tip), name(best[0].Hash))}
			}
			return fail("tip-mismatch", fmt.Sprintf("after %s: tip is %s, reference best valid tip is %s", evname, name(tip), name(best[0].Hash)))
		}
	utxo:
		want := m.UTXOAt(best[0])
		_, wh := refchain.Dump(want)
		got := e.UTXO()
		if os.Getenv("C06_DEBUG") != "" {
			fmt.Fprintln(os.Stderr, "DEBUG", evname, "want", len(want), "got", len(got))
		}
		gs, gh := refchain.Dump(got)
		if gh != wh {
			ws, _ := refchain.Dump(want)
			return fail("utxo-mismatch", fmt.Sprintf("after %s: UTXO set differs from replay of tip\n%s", evname, diff(ws, gs)))
		}
		if sh := e.ShadowUTXO(); sh != nil {
			if ss, shh := refchain.Dump(sh); shh != gh {
				return fail("wallet-notifications-disagree-with-utxo", fmt.Sprintf("after %s: the set kept from NotifyTxAdd/NotifyTxDel differs from the unspent set\n%s", evname, diff(gs, ss)))
			}
		}
		k := fmt.Sprint(t.name, "|", hf, cbs, e.Cached(), "|", keyOf(delivered), "|", strings.Join(acceptedOrder, ","), "|", fmt.Sprintf("%x", tip[:4]), "|", gh, "|", orphans)
		mu.Lock()
		states[k] = true
		mu.Unlock()
		return nil
	}
	note := func(i int, evn, r string) {
		if strings.Contains(r, "MoveToBlock failed") {
			failedReorg = true
		}
		atomic.AddInt64(trans, 1)
		trace = append(trace, step{Ev: evn + " " + t.names[i], Result: r})
		if r == "ok" {
			okHashes[t.blocks[i].Hash()] = true
		}
		if r == "ok" || (strings.HasPrefix(r, "refused: accept") && !strings.Contains(r, "parent discarded")) {
			if m.Add(t.blocks[i]) != nil {
				acceptedOrder = append(acceptedOrder, t.names[i])
			}
		}
	}
	var heldBack []int // headers-first: delivered, waiting in the node's cache for an ancestor's data
	offer := func(i int) string {
		if hf {
			// the client's own route: data of an announced block; blocks held back for a missing
			// ancestor are committed by the delivery that completes their ancestry
			r, drained := e.DeliverData(t.blocks[i].Bytes())
			note(i, "data", r)
			for _, d := range drained {
				for k, b := range t.blocks {
					if b.Hash() == d.Hash {
						note(k, "  from-cache", d.Result)
						for x, hb := range heldBack {
							if hb == k {
								heldBack = append(heldBack[:x:x], heldBack[x+1:]...)
								break
							}
						}
					}
				}
			}
			if r == "cached" {
				heldBack = append(heldBack, i)
				return "ok-cached"
			}
			return r
		}
		r := e.Deliver(t.blocks[i].Bytes())
		note(i, "deliver", r)
		return r
	}
	for _, evn := range events {
		switch {
		case evn >= 0:
			delivered[evn] = true
			r := offer(evn)
			if r == "later" {
				orphans = append(orphans, evn)
			}
			if o := check("deliver " + t.names[evn]); o != nil {
				return o
			}
			// a node re-offers its orphans after every accepted block (one pass per
			// accepted block over those whose parent has been accepted at some point)
			for progress := r == "ok"; progress; {
				progress = false
				cur := orphans
				orphans = nil
				for _, i := range cur {
					if !okHashes[t.blocks[i].Prev] {
						orphans = append(orphans, i)
						continue
					}
					rr := offer(i)
					if rr == "later" {
						orphans = append(orphans, i)
					}
					if o := check("re-offer " + t.names[i]); o != nil {
						return o
					}
					if rr == "ok" {
						progress = true
					}
				}
			}
		case evn <= -100:
			k := -100 - evn
			r := e.Announce(t.blocks[k].Bytes()[:80])
			atomic.AddInt64(trans, 1)
			trace = append(trace, step{Ev: "header " + t.names[k], Result: r})
		case evn == -4:
			// marker: callbacks installed at open
		case evn == -1:
			e.Ch.Idle()
			atomic.AddInt64(trans, 1)
			trace = append(trace, step{Ev: "idle"})
			if o := check("idle"); o != nil {
				return o
			}
		case evn == -2:
			e.Close()
			if hf {
				// the client's way: no re-apply inside NewChainExt, its own catch-up afterwards
				o := &minichain.Opts{Params: params}
				o.ChainOpts.DoNotRescan = true
				e = minichain.Open(dir+"/d", o)
			} else {
				e = minichain.Open(dir+"/d", &minichain.Opts{Params: params})
			}
			if cbs {
				e.Shadow()
			}
			reopened = true
			atomic.AddInt64(trans, 1)
			trace = append(trace, step{Ev: "close+reopen"})
			if hf {
				for _, d := range e.CatchUp() {
					for k, b := range t.blocks {
						if b.Hash() == d.Hash {
							trace = append(trace, step{Ev: "  catch-up " + t.names[k], Result: d.Result})
						}
					}
				}
			}
			// After a restart the first-seen order among equal-work leaves is not
			// recoverable from disk; only the UTXO/tip consistency is judged here.
			tip, _ := e.Tip()
			n := m.Nodes[tip]
			if n == nil || !m.Valid(n) {
				tn := fmt.Sprintf("%x (unknown to the reference)", tip[:6])
				for i, b := range t.blocks {
					if b.Hash() == tip {
						tn = t.names[i]
						if n != nil {
							tn += " [" + m.Why(n) + "]"
						} else {
							tn += " (delivered, never committed)"
						}
					}
				}
				return fail("reopen-tip-invalid", "after reopen the tip is not a known valid block: "+tn)
			}
			want := m.UTXOAt(n)
			_, wh := refchain.Dump(want)
			_, gh := refchain.Dump(e.UTXO())
			if wh != gh {
				return fail("reopen-utxo-mismatch", "after reopen UTXO differs from replay of tip")
			}
			if n.CumWork.Cmp(m.BestTips()[0].CumWork) != 0 {
				return fail("reopen-tip-not-best", "after reopen the tip has less work than the best valid known tip")
			}
			if n != m.BestTips()[0] {
				return nil // tie resolved differently after restart: history ends here (not judged)
			}
			if hf {
				// the restarted node learns the headers again from its peers, and the blocks it had only
				// held in memory (not committed, hence not stored) are delivered again
				for _, h := range t.hdrOrder() {
					k := -100 - h
					r := e.Announce(t.blocks[k].Bytes()[:80])
					trace = append(trace, step{Ev: "header " + t.names[k] + " (again)", Result: r})
				}
				lost := heldBack
				heldBack = nil
				for _, i := range lost {
					offer(i)
				}
				if len(lost) > 0 {
					if o := check("re-delivery of held-back blocks after the restart"); o != nil {
						return o
					}
				}
			}
		}
	}
	e.Close()
	closed = true
	return nil
}

// runWatched bounds one history by a generous watchdog: a history normally takes
// milliseconds; 120 s without an answer is reported as a hang.
func runWatched(p *prefix, t *tmpl, events []int, states map[string]bool, mu *sync.Mutex, trans *int64) *outcome {
	ch := make(chan *outcome, 1)
	go func() { ch <- runHistory(p, t, events, states, mu, trans) }()
	select {
	case o := <-ch:
		return o
	case <-time.After(watchdog):
		return &outcome{key: "hang", what: fmt.Sprintf("history did not finish within %v (deadlock or livelock)", watchdog)}
	}
}

// arrivalOrderPick emulates the documented fallback of the listed finding on the reference tree: from
// root, descend into the child whose subtree carries the most work, the EARLIEST ARRIVED child winning
// ties; only valid blocks are in the tree (the failed reorganisation removed the invalid ones).
func arrivalOrderPick(m *refchain.Model, root *refchain.Node) *refchain.Node {
	if root == nil {
		return nil
	}
	kids := map[*refchain.Node][]*refchain.Node{}
	for _, n := range m.Nodes {
		if n.Parent != nil && m.Valid(n) {
			kids[n.Parent] = append(kids[n.Parent], n)
		}
	}
	var rec func(n *refchain.Node) (*refchain.Node, *big.Int)
	rec = func(n *refchain.Node) (*refchain.Node, *big.Int) {
		l := kids[n]
		sort.Slice(l, func(i, j int) bool { return l[i].Seq < l[j].Seq })
		best, bw := n, new(big.Int)
		for i, c := range l {
			leaf, w := rec(c)
			if i == 0 || w.Cmp(bw) > 0 {
				best, bw = leaf, w
			}
		}
		return best, new(big.Int).Add(bw, refchain.Work(n.Bits))
	}
	leaf, _ := rec(root)
	return leaf
}

var hexRun = regexp.MustCompile(`[0-9a-f]{16,}`)

var ambiguousTies, hangsNotReproduced int64

// confirmHang re-executes a history that hit the watchdog in a fresh process (this one may be
// short of CPU, or carry locks poisoned by an earlier panic of another instance); only a
// history that does not finish there either is reported as a hang.
func confirmHang(t *tmpl, events []int) bool {
	f, err := os.CreateTemp("", "c06-hang-*.json")
	if err != nil {
		return true
	}
	defer os.Remove(f.Name())
	json.NewEncoder(f).Encode(map[string]interface{}{"replay": map[string]interface{}{"template": t.name, "events": evNames(t, events)}})
	f.Close()
	exe, _ := os.Executable()
	ctx, cancel := context.WithTimeout(context.Background(), 10*time.Minute)
	defer cancel()
	out, _ := exec.CommandContext(ctx, exe, "--replay", f.Name(), "--replay-wait", "5m").CombinedOutput()
	if strings.Contains(string(out), "replay: history passes") {
		atomic.AddInt64(&hangsNotReproduced, 1)
		return false
	}
	return true
}

// exactWork is the sum of 2^256/(target+1) as an exact fraction over the blocks above the
// (long) common prefix; the integer parts are what refchain and Bitcoin Core add up.
func exactWork(n *refchain.Node) *big.Rat {
	sum := new(big.Rat)
	two256 := new(big.Int).Lsh(big.NewInt(1), 256)
	for ; n != nil && n.Parent != nil && n.Height > prefixLen; n = n.Parent {
		t := refchain.Target(n.Bits)
		sum.Add(sum, new(big.Rat).SetFrac(two256, t.Add(t, big.NewInt(1))))
	}
	return sum
}

func keyOf(m map[int]bool) string {
	var l []int
	for k := range m {
		l = append(l, k)
	}
	sort.Ints(l)
	return fmt.Sprint(l)
}

func diff(want, got string) string {
	w := map[string]bool{}
	for _, l := range strings.Split(want, "\n") {
		w[l] = true
	}
	g := map[string]bool{}
	var out []string
	for _, l := range strings.Split(got, "\n") {
		g[l] = true
		if !w[l] {
			out = append(out, "unexpected: "+l)
		}
	}
	for l := range w {
		if !g[l] {
			out = append(out, "missing: "+l)
		}
	}
	sort.Strings(out)
	if len(out) > 8 {
		out = out[:8]
	}
	return strings.Join(out, "\n")
}

func perms(n int, f func([]int)) {
	a := make([]int, n)
	for i := range a {
		a[i] = i
	}
	var rec func(k int)
	rec = func(k int) {
		if k == n {
			f(append([]int{}, a...))
			return
		}
		for i := k; i < n; i++ {
			a[k], a[i] = a[i], a[k]
			rec(k + 1)
			a[k], a[i] = a[i], a[k]
		}
	}
	rec(0)
}

var replayWait = flag.Duration("replay-wait", 20*time.Second, "how long --replay waits before calling the history hung")
var replayFile = flag.String("replay", "", "replay one recorded history (no explorer)")

// replay re-executes one recorded history and prints the outcome.
func replay(r *ev.Run, p *prefix, ts []*tmpl, file string) {
	b, err := os.ReadFile(file)
	if err != nil {
		ev.HarnessError("%v", err)
	}
	var rec struct {
		Replay struct {
			Template string   `json:"template"`
			Events   []string `json:"events"`
		} `json:"replay"`
	}
	if err := json.Unmarshal(b, &rec); err != nil {
		ev.HarnessError("%v", err)
	}
	for _, t := range ts {
		if t.name != rec.Replay.Template {
			continue
		}
		var evs []int
		for _, n := range rec.Replay.Events {
			x := -3
			if strings.HasPrefix(n, "hdr:") {
				for i, bn := range t.names {
					if "hdr:"+bn == n {
						x = -100 - i
					}
				}
				evs = append(evs, x)
				continue
			}
			switch n {
			case "callbacks":
				x = -4
			case "idle":
				x = -1
			case "reopen":
				x = -2
			}
			for i, bn := range t.names {
				if bn == n {
					x = i
				}
			}
			evs = append(evs, x)
		}
		states := map[string]bool{}
		var mu sync.Mutex
		var trans int64
		done := make(chan *outcome, 1)
		go func() { done <- runHistory(p, t, evs, states, &mu, &trans) }()
		select {
		case o := <-done:
			if o == nil {
				fmt.Fprintln(ev.Out, "replay: history passes")
				os.Exit(0)
			}
			fmt.Fprintf(ev.Out, "replay: %s: %s\n", o.key, o.what)
			for _, st := range o.trace {
				fmt.Fprintf(ev.Out, "  %s -> %s\n", st.Ev, st.Result)
			}
			os.Exit(1)
		case <-time.After(*replayWait):
			fmt.Fprintln(ev.Out, "replay: hang; goroutine dump on stderr")
			pprof.Lookup("goroutine").WriteTo(os.Stderr, 2)
			os.Exit(1)
		}
	}
	ev.HarnessError("template %q not found", rec.Replay.Template)
}

func main() {
	r := ev.Start("C06", "model_checking")
	minichain.Quiet()
	// as the client does: transactions the memory pool has verified are not script-checked again in a block
	chain.TrustedTxChecker = func(tx *btc.Tx) bool { return tx.Lock_time == vouchedLockTime }
	debug.SetGCPercent(400)
	if pf := os.Getenv("VERIF_PPROF"); pf != "" {
		f, _ := os.Create(pf)
		pprof.StartCPUProfile(f)
		defer pprof.StopCPUProfile()
	}
	p := buildPrefix()
	defer os.RemoveAll(p.dir)
	ts := templates(p, r.Thorough())
	rp := buildRetargetPrefix()
	defer os.RemoveAll(rp.dir)
	ts = append(ts, retargetTieTemplate(rp), retargetTemplate(rp))

	if *replayFile != "" {
		replay(r, p, append(templates(p, true), ts[len(ts)-2:]...), *replayFile)
		return
	}
	type job struct {
		t  *tmpl
		ev []int
	}
	jobs := make(chan job, 1024)
	states := map[string]bool{}
	var mu sync.Mutex
	var trans, hist int64
	var wg sync.WaitGroup
	samples := &ev.Samples{N: 3}
	perTemplate := map[string]*int64{}
	for _, t := range ts {
		perTemplate[t.name] = new(int64)
	}
	for w := 0; w < runtime.NumCPU(); w++ {
		wg.Add(1)
		go func() {
			defer wg.Done()
			for j := range jobs {
				o := runWatched(p, j.t, j.ev, states, &mu, &trans)
				if o != nil && o.key == "hang" && !confirmHang(j.t, j.ev) {
					o = nil
				}
				atomic.AddInt64(&hist, 1)
				for _, x := range j.ev {
					if x <= -100 {
						atomic.AddInt64(&hfHist, 1)
						break
					}
				}
				atomic.AddInt64(perTemplate[j.t.name], 1)
				if o != nil && o.global {
					r.Report(o.key, o.what, map[string]interface{}{"template": j.t.name, "events": evNames(j.t, j.ev), "trace": o.trace})
				} else if o != nil {
					r.Report(j.t.name+"/"+o.key, o.what, map[string]interface{}{"template": j.t.name, "events": evNames(j.t, j.ev), "trace": o.trace})
				} else if len(j.ev) > 0 {
					samples.Add(map[string]interface{}{"template": j.t.name, "events": evNames(j.t, j.ev)})
				}
			}
		}()
	}
	allTs := ts
	if only := os.Getenv("C06_ONLY"); only != "" {
		var l []*tmpl
		for _, t := range ts {
			if strings.Contains(t.name, only) {
				l = append(l, t)
			}
		}
		ts = l
	}
	if wd := os.Getenv("C06_WATCHDOG"); wd != "" {
		watchdog, _ = time.ParseDuration(wd)
	}
	for _, t := range ts {
		t := t
		n := len(t.blocks)
		perms(n, func(a []int) {
			restricted := t.inSeq > 0 && (t.always || !r.Thorough())
			if restricted {
				// on the 2014-block prefix (quick tier, or always for the tie template): only orders that
				// deliver branch A (the first inSeq blocks) in sequence; branch B arrives in any order
				last := -1
				for _, x := range a {
					if x < t.inSeq {
						if x < last {
							return
						}
						last = x
					}
				}
			}
			jobs <- job{t, a}
			if hfOn(t, r.Thorough()) {
				// headers-first, as the client works: every header announced (parents first) before any data
				jobs <- job{t, append(append([]int{-4}, t.hdrOrder()...), a...)}
				// ... and the same with one restart in the middle of the data
				mid := len(a) / 2
				hr := append(append([]int{-4}, t.hdrOrder()...), a[:mid]...)
				hr = append(append(hr, -2), a[mid:]...)
				jobs <- job{t, hr}
				// headers level by level, in template order and reversed
				jobs <- job{t, append([]int{-4}, t.levelAhead(a, false)...)}
				jobs <- job{t, append([]int{-4}, t.levelAhead(a, true)...)}
				if r.Thorough() {
					jobs <- job{t, append([]int{-4}, a...)}
					// headers one step ahead of the data: before a block's data, its own header and its children's
					jobs <- job{t, t.oneAhead(a)}
				}
			}
			if r.Thorough() || n <= 6 || restricted {
				// one environment event (idle / close+reopen) at every position
				for pos := 1; pos <= n; pos++ {
					for _, e := range []int{-1, -2} {
						if !r.Thorough() && (pos%2 == 0) && !restricted {
							continue
						}
						if !r.Thorough() && restricted && e == -1 {
							continue // quick tier on the long prefix: close+reopen at every position, no idle events
						}
						h := append(append(append([]int{}, a[:pos]...), e), a[pos:]...)
						jobs <- job{t, h}
					}
				}
			}
		})
	}
	close(jobs)
	wg.Wait()
	pt := map[string]int64{}
	for k, v := range perTemplate {
		pt[k] = *v
	}
	pprof.StopCPUProfile()
	r.Finish(map[string]interface{}{
		"states":                         len(states),
		"transitions":                    int(trans),
		"histories":                      int(hist),
		"histories_per_template":         pt,
		"templates":                      len(ts),
		"template_blocks_invalid_when_connected": invalidByConstruction(p, allTs), // read this: a name here must be one the template means to be invalid
		"histories_headers_first":        int(hfHist),
		"ties_equal_only_after_rounding": int(ambiguousTies),
		"watchdog_hits_not_reproduced_in_fresh_process": int(hangsNotReproduced),
		"traces_validated_against_impl":                 int(hist),
		"samples":                                       samples.L,
		"exhaustive":                                    true,
		"rule":                                          "every arrival order of each template's blocks (orphans re-offered after each accepted block), plus one idle or close+reopen event at every position; for templates of at most six blocks (thorough: all) every arrival order also by the client's headers-first route (all headers announced parents-first, data through PostCheckBlock, the ancestry gate, the retry cache and the discard set; thorough also headers one step ahead) with the wallet's UTXO callbacks installed and a shadow set kept from the notifications; each history executed on the real chain from a copied 105-block prefix directory; state key = (delivered set, accepted order, tip, UTXO dump hash, orphan pool)",
	}, []string{
		"reference model refchain (exact integer work, first-seen tie-break, UTXO by replay) is the oracle",
		"scripts in templates are the trivial OP_1/OP_0 language; script semantics belong to C01",
		"after close+reopen first-seen order among equal-work leaves is not persisted by design; only tip validity, maximal work and UTXO=replay are judged there",
	})
}

// hdrOrder lists the header announcements of all blocks of the template, parents first.
func (t *tmpl) hdrOrder() []int {
	known := map[[32]byte]bool{}
	for _, b := range t.blocks {
		known[b.Hash()] = false
	}
	var l []int
	for len(l) < len(t.blocks) {
		n := len(l)
		for i, b := range t.blocks {
			if known[b.Hash()] {
				continue
			}
			if done, inTmpl := known[b.Prev]; !inTmpl || done {
				known[b.Hash()] = true
				l = append(l, -100-i)
			}
		}
		if len(l) == n {
			break
		}
	}
	return l
}

// oneAhead interleaves announcements with the data order a: before the data of a block its
// own header (if its parent's header is known by then) and the headers of its children.
func (t *tmpl) oneAhead(a []int) []int {
	ann := map[int]bool{}
	idx := map[[32]byte]int{}
	for i, b := range t.blocks {
		idx[b.Hash()] = i
	}
	var l []int
	var announce func(i int)
	announce = func(i int) {
		if ann[i] {
			return
		}
		if pi, ok := idx[t.blocks[i].Prev]; ok && !ann[pi] {
			return // header chain must connect: the node would not get this header yet
		}
		ann[i] = true
		l = append(l, -100-i)
	}
	for _, x := range a {
		announce(x)
		for i, b := range t.blocks {
			if b.Prev == t.blocks[x].Hash() && ann[x] {
				announce(i)
			}
		}
		l = append(l, x)
	}
	return l
}

// invalidByConstruction lists, per template, the blocks the reference finds invalid on their own
// branch (vacuity guard: a block that became invalid by accident shows up here).
func invalidByConstruction(p *prefix, ts []*tmpl) map[string][]string {
	out := map[string][]string{}
	for _, t := range ts {
		m := p.model.Clone()
		if t.pre != nil {
			m = t.pre.model.Clone()
		}
		for i, b := range t.blocks {
			n := m.Add(b)
			if n == nil {
				out[t.name] = append(out[t.name], t.names[i]+" (parent not listed before it)")
			} else if !m.Valid(n) {
				out[t.name] = append(out[t.name], t.names[i]+": "+m.Why(n))
			}
		}
	}
	return out
}

var hfHist int64

// levelAhead announces headers level by level: before the data of a block at depth L all headers of
// depth <= L that can be announced, in template order (or its reverse). Nothing deeper is known to the
// node at that moment, so the best known header can be a block that is about to be refused.
func (t *tmpl) levelAhead(a []int, reverse bool) []int {
	idx := map[[32]byte]int{}
	for i, b := range t.blocks {
		idx[b.Hash()] = i
	}
	depth := make([]int, len(t.blocks))
	var dep func(i int) int
	dep = func(i int) int {
		if depth[i] == 0 {
			depth[i] = 1
			if pi, ok := idx[t.blocks[i].Prev]; ok {
				depth[i] = dep(pi) + 1
			}
		}
		return depth[i]
	}
	order := make([]int, len(t.blocks))
	for i := range order {
		dep(i)
		order[i] = i
		if reverse {
			order[i] = len(t.blocks) - 1 - i
		}
	}
	ann := map[int]bool{}
	var l []int
	for _, x := range a {
		for lev := 1; lev <= depth[x]; lev++ {
			for _, i := range order {
				if depth[i] != lev || ann[i] {
					continue
				}
				if pi, ok := idx[t.blocks[i].Prev]; ok && !ann[pi] {
					continue
				}
				ann[i] = true
				l = append(l, -100-i)
			}
		}
		l = append(l, x)
	}
	return l
}

var scratchDir = regexp.MustCompile(`/[^ :]*/verif-c06-[0-9]+/d/`)

func hfOn(t *tmpl, thorough bool) bool {
	return thorough || len(t.blocks) <= 6 || os.Getenv("C06_HF") == "all"
}

func evNames(t *tmpl, e []int) []string {
	var l []string
	for _, x := range e {
		switch {
		case x >= 0:
			l = append(l, t.names[x])
		case x <= -100:
			l = append(l, "hdr:"+t.names[-100-x])
		case x == -4:
			l = append(l, "callbacks")
		case x == -1:
			l = append(l, "idle")
		default:
			l = append(l, "reopen")
		}
	}
	return l
}
