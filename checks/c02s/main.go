// C02 (concurrent part): digest requests on ONE shared transaction object from several
// goroutines. The caches behind Tx.WitnessSigHash / Tx.TaprootSigHash are guarded by a
// mutex; under the controlled scheduler every interleaving at synchronisation
// granularity of 3 threads x 2 requests is executed (complete, no bound needed) and
// every answer is compared with the reference digest; the same bodies run free under
// the Go race detector in a separate pass.
package main

import (
	"bytes"
	"flag"
	"fmt"
	"os"
	"os/exec"
	"strings"
	"sync"

	"github.com/piotrnar/gocoin/lib/btc"
	"github.com/piotrnar/gocoin/lib/others/vshim/vsched"

	"verif/internal/ev"
	"verif/internal/explore"
	"verif/ref/refhash"
	"verif/ref/reftx"
)

type req struct {
	name string
	tap  bool
	ht   byte
	idx  int
}

var kinds = []req{
	{"bip143-ALL/0", false, 0x01, 0},
	{"bip143-SINGLE|ACP/1", false, 0x83, 1},
	{"bip143-NONE/2", false, 0x02, 2},
	{"taproot-DEFAULT/0", true, 0x00, 0},
	{"taproot-SINGLE/1", true, 0x03, 1},
	{"taproot-ACP|ALL/2", true, 0x81, 2},
	// requests for which BIP341 defines no digest: the answer must be empty, and the
	// shared object must keep answering the other threads (a lock left held shows up
	// as "no enabled thread" under the scheduler)
	{"taproot-undefined-0x04/1", true, 0x04, 1},
	{"taproot-undefined-0xff/0", true, 0xff, 0},
	{"taproot-undefined-0x84/2", true, 0x84, 2},
}

func mkTx() (*reftx.Tx, []reftx.Out) {
	t := &reftx.Tx{Version: 2, LockTime: 7}
	var spent []reftx.Out
	for i := 0; i < 3; i++ {
		var h [32]byte
		for j := range h {
			h[j] = byte(0x10*i + j)
		}
		t.In = append(t.In, reftx.In{Prev: h, Vout: uint32(i), Sequence: 0xfffffffd - uint32(i), Witness: [][]byte{{byte(i)}}})
		spk := append([]byte{0x51, 0x20}, bytes.Repeat([]byte{byte(0xa0 + i)}, 32)...)
		spent = append(spent, reftx.Out{Value: uint64(1000 * (i + 1)), Script: spk})
		t.Out = append(t.Out, reftx.Out{Value: uint64(900 * (i + 1)), Script: []byte{0x51, byte(i)}})
	}
	return t, spent
}

func toGocoin(t *reftx.Tx, spent []reftx.Out) *btc.Tx {
	raw := t.Serialize(true)
	g, n := btc.NewTx(raw)
	if g == nil || n != len(raw) {
		ev.HarnessError("btc.NewTx refuses the harness transaction")
	}
	g.SetHash(raw)
	g.Clean()
	g.AllocVerVars()
	g.Spent_outputs = make([]*btc.TxOut, len(spent))
	for i := range spent {
		g.Spent_outputs[i] = &btc.TxOut{Value: spent[i].Value, Pk_script: spent[i].Script}
	}
	return g
}

var scriptCode = []byte{0x76, 0xa9, 0x14, 1, 2, 3, 4, 5, 6, 7, 8, 9, 10, 11, 12, 13, 14, 15, 16, 17, 18, 19, 20, 0x88, 0xac}

func serve(g *btc.Tx, spent []reftx.Out, k req) []byte {
	if k.tap {
		return g.TaprootSigHash(&btc.ScriptExecutionData{M_codeseparator_pos: 0xffffffff}, k.idx, k.ht, false)
	}
	return g.WitnessSigHash(scriptCode, spent[k.idx].Value, k.idx, int32(k.ht))
}

func want(t *reftx.Tx, spent []reftx.Out, k req) []byte {
	if k.tap {
		d, ok := refhash.Taproot(t, spent, k.idx, k.ht, nil, nil)
		if !ok {
			return nil // no digest defined: the implementation must return an empty answer
		}
		return d[:]
	}
	d := refhash.BIP143(t, scriptCode, spent[k.idx].Value, k.idx, uint32(k.ht))
	return d[:]
}

// assignments of two requests to each of three threads
var assigns = [][3][2]int{
	{{0, 3}, {3, 0}, {1, 4}},
	{{3, 4}, {5, 3}, {4, 5}},
	{{0, 1}, {2, 0}, {1, 2}},
	{{0, 5}, {4, 2}, {3, 1}},
	{{3, 3}, {3, 3}, {0, 0}},
	{{6, 3}, {0, 6}, {7, 4}},
	{{6, 7}, {8, 6}, {3, 0}},
	{{8, 1}, {5, 7}, {6, 6}},
}

type result struct {
	got [3][2][]byte
}

func body(g *btc.Tx, spent []reftx.Out, a [3][2]int, res *result, spawn func(func())) {
	for th := 0; th < 3; th++ {
		th := th
		spawn(func() {
			for i := 0; i < 2; i++ {
				res.got[th][i] = serve(g, spent, kinds[a[th][i]])
			}
		})
	}
}

var racePass = flag.Int("racepass", 0, "internal: free-running iterations (binary built with -race)")

func main() {
	if len(os.Args) > 1 && strings.HasPrefix(os.Args[1], "--racepass") {
		flag.Parse()
		t, spent := mkTx()
		for it := 0; it < *racePass; it++ {
			for _, a := range assigns {
				g := toGocoin(t, spent)
				var res result
				var wg sync.WaitGroup
				body(g, spent, a, &res, func(f func()) { wg.Add(1); go func() { defer wg.Done(); f() }() })
				wg.Wait()
				for th := 0; th < 3; th++ {
					for i := 0; i < 2; i++ {
						if !bytes.Equal(res.got[th][i], want(t, spent, kinds[a[th][i]])) {
							fmt.Fprintln(os.Stdout, "racepass-mismatch", kinds[a[th][i]].name)
						}
					}
				}
			}
		}
		fmt.Fprintln(os.Stdout, "racepass-done")
		return
	}
	r := ev.Start("C02", "model_checking")
	t, spent := mkTx()
	wants := map[int][]byte{}
	for i, k := range kinds {
		wants[i] = want(t, spent, k)
	}
	schedules, maxPoints := 0, 0
	deadlockSeen := false // a leaked lock would make the free-running pass wait forever
	outcomes := map[string]int{}
	var samples []interface{}
	for ai, a := range assigns {
		a := a
		run := func(ch vsched.Chooser) (*vsched.Sched, string, string) {
			g := toGocoin(t, spent)
			var res result
			s := vsched.Run(func() { body(g, spent, a, &res, vsched.Go) }, ch, 10000)
			errs := ""
			for th := 0; th < 3 && s.Deadlock == "" && s.Panic == ""; th++ {
				for i := 0; i < 2; i++ {
					if !bytes.Equal(res.got[th][i], wants[a[th][i]]) {
						errs = fmt.Sprintf("digest-differs-under-concurrency: thread %d request %s returned %x, reference %x", th, kinds[a[th][i]].name, res.got[th][i], wants[a[th][i]])
					}
				}
			}
			return s, "answers-equal-reference", errs
		}
		e := &explore.Explorer{Run: run, Bound: 1 << 20} // unbounded: the space is tiny
		e.OnExec = func(x *explore.Exec) bool {
			key := ""
			switch {
			case x.Panic != "":
				key = "panic"
			case x.Deadlock != "":
				key = "deadlock"
				deadlockSeen = true
			case x.Err != "":
				key = "digest-differs-under-concurrency"
			}
			if key != "" {
				r.Report("concurrent/"+key, x.Panic+x.Deadlock+x.Err, map[string]interface{}{"assignment": ai, "choices": x.Choices, "schedule": x.Schedule()})
			}
			return true
		}
		e.Explore(nil)
		schedules += e.St.Executions
		if e.St.MaxPoints > maxPoints {
			maxPoints = e.St.MaxPoints
		}
		for k, v := range e.St.Outcomes {
			outcomes[k] += v
		}
		var names [3][2]string
		for th := range a {
			for i := range a[th] {
				names[th][i] = kinds[a[th][i]].name
			}
		}
		samples = append(samples, map[string]interface{}{"threads": names, "schedules": e.St.Executions})
	}
	// free-running pass under the race detector
	raceRuns, raceReports := 0, 0
	if bin := ev.OutDir() + "/bin/c02s-race"; fileExists(bin) && !deadlockSeen {
		iters := 200
		if r.Thorough() {
			iters = 2000
		}
		for _, procs := range []string{"1", "4", "16"} {
			cmd := exec.Command(bin, fmt.Sprint("--racepass=", iters))
			cmd.Env = append(os.Environ(), "GOMAXPROCS="+procs, "GORACE=halt_on_error=0 exitcode=0")
			var werr strings.Builder
			cmd.Stderr = &werr
			out, err := cmd.Output()
			if err != nil || !strings.Contains(string(out), "racepass-done") {
				// a crash of the code under test in the free-running pass is a verdict, not a harness error
				if (strings.Contains(werr.String(), "gocoin/lib/btc.") || strings.Contains(werr.String(), "gocoin/lib/script.")) && (strings.Contains(werr.String(), "fatal error") || strings.Contains(werr.String(), "panic:")) {
					r.Report("concurrent/free-running-crash", "the free-running pass crashed inside gocoin: "+explore.Short(werr.String(), 1200), map[string]interface{}{"gomaxprocs": procs})
					continue
				}
				ev.HarnessError("race pass failed: %v %s", err, explore.Short(werr.String(), 800))
			}
			raceRuns += iters * len(assigns)
			if strings.Contains(string(out), "racepass-mismatch") {
				r.Report("concurrent/digest-differs-free-running", "a digest differed from the reference in the free-running pass: "+explore.Short(string(out), 400), nil)
			}
			for _, rep := range strings.Split(werr.String(), "WARNING: DATA RACE")[1:] {
				raceReports++
				r.Report("concurrent/data-race", "Go race detector report: "+explore.Short(rep, 1200), map[string]interface{}{"gomaxprocs": procs})
			}
		}
	}
	r.Finish(map[string]interface{}{
		"states":                        len(outcomes),
		"transitions":                   schedules,
		"schedules":                     schedules,
		"decision_points_max":           maxPoints,
		"traces_validated_against_impl": schedules,
		"race_pass_runs":                raceRuns,
		"race_pass_reports":             raceReports,
		"samples":                       samples,
		"exhaustive":                    true,
		"rule":                          "8 assignments of 2 digest requests to each of 3 goroutines sharing one Tx object (BIP143 ALL / SINGLE|ACP / NONE, taproot DEFAULT / SINGLE / ACP|ALL, taproot with the undefined hash types 0x04 / 0x84 / 0xff whose answer must be empty); every interleaving at synchronisation granularity is executed under the controlled scheduler (no bound: the space is complete), every answer must equal the reference digest; plus a free-running -race pass",
	}, []string{"scheduling points are synchronisation operations only; unsynchronised accesses are the race-detector pass's job"})
}

func fileExists(p string) bool { _, err := os.Stat(p); return err == nil }
