// C10: UTXO records and snapshot files are lossless.
//
// Bounded-exhaustive exploration of record families (out counts x survivor sets x script
// shapes x amounts x heights x coinbase flag) on gocoin's plain and compressed record
// formats (utxo.SerializeU/C -> NewUtxoRecOwnU/C, OneUtxoRecU/C for every vout), of the
// amount compressor (btc.CompressAmount/DecompressAmount for every mantissa <= 10^6 x
// every exponent), and of small databases through the real UnspentDB
// (CommitBlockTxs -> Close -> NewUnspentDb) in both formats. Oracle: identity, and
// single-output lookup = projection of the full record.
package main

import (
	"encoding/hex"
	"encoding/json"
	"flag"
	"fmt"
	"os"
	"os/exec"
	"runtime"
	"sort"
	"strings"
	"sync"
	"time"

	"github.com/piotrnar/gocoin/lib/btc"

	"verif/internal/ev"
)

var replayFile = flag.String("replay", "", "replay one recorded case (no explorer)")

// ---------------------------------------------------------------- record worker (child process)

type recJSON struct {
	Name     string    `json:"name"`
	TxID     string    `json:"txid"`
	Height   uint32    `json:"height"`
	Coinbase bool      `json:"coinbase"`
	Count    int       `json:"out_count"`
	Outs     []outJSON `json:"live_outputs"`
}

type outJSON struct {
	Index  int    `json:"index"`
	Value  uint64 `json:"value"`
	Script string `json:"script"`
	Class  string `json:"class"`
}

func toJSON(r *mRec) *recJSON {
	j := &recJSON{Name: r.Name, TxID: hex.EncodeToString(r.TxID[:]), Height: r.Height, Coinbase: r.Coinbase, Count: len(r.Outs)}
	for i, o := range r.Outs {
		if o != nil {
			j.Outs = append(j.Outs, outJSON{i, o.Value, hex.EncodeToString(o.Script), o.Class})
		}
	}
	return j
}

func fromJSON(j *recJSON) *mRec {
	r := &mRec{Name: j.Name, Height: j.Height, Coinbase: j.Coinbase, Outs: make([]*mOut, j.Count)}
	b, _ := hex.DecodeString(j.TxID)
	copy(r.TxID[:], b)
	for _, o := range j.Outs {
		s, _ := hex.DecodeString(o.Script)
		r.Outs[o.Index] = &mOut{Value: o.Value, Script: s, Class: o.Class}
	}
	return r
}

type violAgg struct {
	Count int      `json:"count"`
	What  string   `json:"what"`
	Size  int      `json:"size"`
	Rec   *recJSON `json:"record"`
}

type workerResult struct {
	Evals   int                 `json:"evals"`
	PerFam  map[string]int      `json:"per_family"`
	Classes map[string]int      `json:"classes"`
	Shapes  map[string]int      `json:"shapes"`
	Viol    map[string]*violAgg `json:"viol"`
	Lookups int                 `json:"lookups"`
	Samples []*recJSON          `json:"samples"`
}

func shapeOfRec(r *mRec) string {
	n := "1"
	switch {
	case len(r.Outs) > 254:
		n = ">254"
	case len(r.Outs) > 3:
		n = "4..254"
	case len(r.Outs) > 1:
		n = "2..3"
	}
	cl := map[string]bool{}
	for _, o := range r.Outs {
		if o != nil {
			c := o.Class
			if i := strings.Index(c, "-byte"); i > 0 {
				c = c[:i]
			}
			if strings.HasPrefix(c, "plain-len") {
				c = "plain"
			}
			cl[c] = true
		}
	}
	var l []string
	for c := range cl {
		l = append(l, c)
	}
	sort.Strings(l)
	if len(l) > 2 {
		l = []string{"mixed"}
	}
	return fmt.Sprintf("outs=%s/live=%d%%/cb=%v/%s", n, 100*r.survivors()/len(r.Outs)/25*25, r.Coinbase, strings.Join(l, "+"))
}

func recWorker(idx, n int, thorough bool, out string) {
	if dn, err := os.OpenFile("/dev/null", os.O_WRONLY, 0); err == nil {
		os.Stdout = dn
	}
	specs := recordFamilies(thorough)
	res := workerResult{PerFam: map[string]int{}, Classes: map[string]int{}, Shapes: map[string]int{}, Viol: map[string]*violAgg{}}
	for i, sp := range specs {
		if int((uint32(i)*2654435761)>>12)%n != idx { // scattered: heavy records come in runs
			continue
		}
		r := sp.mk()
		e := evalRecord(r)
		res.Evals++
		res.PerFam[sp.fam]++
		outcome := "identical"
		if len(e.Viol) > 0 {
			outcome = "differs"
		}
		for _, c := range e.Classes {
			res.Classes[c+"/"+outcome]++
		}
		res.Shapes[sp.fam+"|"+shapeOfRec(r)+"|"+outcome]++
		if len(res.Samples) < 2 && len(r.Outs) <= 3 && i%97 == idx%97 {
			res.Samples = append(res.Samples, toJSON(r))
		}
		for _, v := range e.Viol {
			a := res.Viol[v.Key]
			if a == nil {
				res.Viol[v.Key] = &violAgg{Count: 1, What: v.What, Size: e.Size, Rec: toJSON(r)}
			} else {
				a.Count++
				if e.Size < a.Size || (e.Size == a.Size && r.Name < a.Rec.Name) {
					a.What, a.Size, a.Rec = v.What, e.Size, toJSON(r)
				}
			}
		}
	}
	bs, _ := json.Marshal(res)
	if err := os.WriteFile(out, bs, 0o644); err != nil {
		fmt.Fprintln(os.Stderr, "HARNESS:", err)
		os.Exit(3)
	}
}

// ---------------------------------------------------------------- amount compressor, exhaustive

type amtResult struct {
	evals    int
	overflow int
	minOver  uint64
	bad      int
	minBad   uint64
	badGot   uint64
}

func amountSweep(maxM uint64) amtResult {
	nw := runtime.NumCPU()
	parts := make([]amtResult, nw)
	var wg sync.WaitGroup
	for w := 0; w < nw; w++ {
		wg.Add(1)
		go func(w int) {
			defer wg.Done()
			p := &parts[w]
			check := func(v uint64) {
				p.evals++
				if g := btc.DecompressAmount(btc.CompressAmount(v)); g != v {
					if compressedAmountOverflows(v) {
						p.overflow++
						if p.minOver == 0 || v < p.minOver {
							p.minOver = v
						}
					} else {
						p.bad++
						if p.minBad == 0 || v < p.minBad {
							p.minBad, p.badGot = v, g
						}
					}
				}
			}
			for m := uint64(w); m <= maxM; m += uint64(nw) {
				v := m
				for e := 0; e <= 19; e++ {
					check(v)
					if v == 0 || v > (1<<64-1)/10 {
						break
					}
					v *= 10
				}
			}
		}(w)
	}
	wg.Wait()
	var t amtResult
	for _, p := range parts {
		t.evals += p.evals
		t.overflow += p.overflow
		t.bad += p.bad
		if p.minOver != 0 && (t.minOver == 0 || p.minOver < t.minOver) {
			t.minOver = p.minOver
		}
		if p.minBad != 0 && (t.minBad == 0 || p.minBad < t.minBad) {
			t.minBad, t.badGot = p.minBad, p.badGot
		}
	}
	return t
}

// ---------------------------------------------------------------- child process helper

var errChildTimeout = fmt.Errorf("child did not finish in time")

func runChild(args ...string) error { return runChildT(15*time.Minute, args...) }

func runChildT(limit time.Duration, args ...string) error {
	cmd := exec.Command(os.Args[0], args...)
	var eb strings.Builder
	cmd.Stderr = &eb
	done := make(chan error, 1)
	if err := cmd.Start(); err != nil {
		return err
	}
	go func() { done <- cmd.Wait() }()
	select {
	case err := <-done:
		if err != nil {
			s := eb.String()
			if len(s) > 2000 {
				s = s[:2000]
			}
			return fmt.Errorf("%v: %s", err, s)
		}
		return nil
	case <-time.After(limit):
		cmd.Process.Kill()
		<-done
		return errChildTimeout
	}
}

// ---------------------------------------------------------------- snapshots

type snapOutcome struct {
	mode    string
	n       int
	viol    []violation
	records int
	lookups int
	steps   int
}

func runSnapshot(mode string, n int) snapOutcome {
	o := snapOutcome{mode: mode, n: n}
	dir := ev.Scratch("c10")
	defer os.RemoveAll(dir)
	os.MkdirAll(dir+"/db", 0o755)
	steps := []snapSpec{
		{Op: "write", Gen: 0},
		{Op: "reopen", Gen: 2},
		{Op: "verify", Gen: 3},
	}
	for i, sp := range steps {
		sp.Mode, sp.N, sp.Dir = mode, n, dir+"/db/"
		sp.Result = fmt.Sprintf("%s/result%d.json", dir, i)
		bs, _ := json.Marshal(sp)
		specFile := fmt.Sprintf("%s/spec%d.json", dir, i)
		os.WriteFile(specFile, bs, 0o644)
		if err := runChild("--snap", specFile); err != nil {
			if strings.Contains(err.Error(), "HARNESS:") {
				ev.HarnessError("snapshot child: %v", err)
			}
			o.viol = append(o.viol, violation{"snap/" + mode + "/process-died", fmt.Sprintf("%s step of a %d-record %s database: %v", sp.Op, n, mode, err)})
			return o
		}
		var r snapResult
		rb, err := os.ReadFile(sp.Result)
		if err != nil || json.Unmarshal(rb, &r) != nil {
			ev.HarnessError("snapshot child left no result: %v", err)
		}
		o.steps++
		o.records += r.Records
		o.lookups += r.Lookups
		o.viol = append(o.viol, r.Viol...)
		if len(r.Viol) > 0 {
			return o // later generations would only repeat the damage
		}
	}
	return o
}

// fallbackCuts: where UTXO.db is cut for the fallback scenarios, from the record
// boundaries of the file (offsets of the records after the 48-byte header).
func fallbackCuts(img []byte) (names []string, cuts []int) {
	var bounds []int // start offset of each record (its length prefix), then the end
	off := 48
	for off < len(img) {
		bounds = append(bounds, off)
		w, le := 1, int(img[off])
		switch img[off] {
		case 0xfd:
			w, le = 3, int(img[off+1])|int(img[off+2])<<8
		case 0xfe:
			w, le = 5, int(img[off+1])|int(img[off+2])<<8|int(img[off+3])<<16|int(img[off+4])<<24
		}
		off += w + le
	}
	if off != len(img) || len(bounds) < 2 {
		ev.HarnessError("cannot walk the snapshot written for the fallback scenario")
	}
	last := bounds[len(bounds)-1]
	names = []string{"empty-file", "inside-height", "inside-block-hash", "inside-record-count", "header-only", "inside-first-length-or-record", "middle-of-first-record", "after-first-record", "middle-of-file", "before-last-record", "middle-of-last-record", "last-byte-missing"}
	cuts = []int{0, 7, 40, 47, 48, 49, (48 + bounds[1]) / 2, bounds[1], len(img) / 2, last, (last + len(img)) / 2, len(img) - 1}
	return
}

const fallbackCutCount = 12

// runFallback: UTXO.db (state after block 3) is cut short, UTXO.old (state after block 2)
// is intact: the loader must come back with the older complete state.
func runFallback(n, cut int) snapOutcome {
	o := snapOutcome{mode: "fallback", n: n}
	dir := ev.Scratch("c10-fb")
	defer os.RemoveAll(dir)
	os.MkdirAll(dir+"/db", 0o755)
	steps := []snapSpec{{Op: "write", Gen: 0}, {Op: "reopen", Gen: 2}, {Op: "verify", Gen: 2}}
	for i, sp := range steps {
		sp.Mode, sp.N, sp.Dir = "plain", n, dir+"/db/"
		sp.Result = fmt.Sprintf("%s/result%d.json", dir, i)
		bs, _ := json.Marshal(sp)
		specFile := fmt.Sprintf("%s/spec%d.json", dir, i)
		os.WriteFile(specFile, bs, 0o644)
		limit := 15 * time.Minute
		cutName := ""
		if i == 2 {
			img, err := os.ReadFile(dir + "/db/UTXO.db")
			if err != nil {
				ev.HarnessError("fallback scenario: %v", err)
			}
			if _, err := os.Stat(dir + "/db/UTXO.old"); err != nil {
				ev.HarnessError("fallback scenario: no UTXO.old after the second save: %v", err)
			}
			names, cuts := fallbackCuts(img)
			cutName = names[cut]
			o.mode = "fallback/" + cutName
			if err := os.WriteFile(dir+"/db/UTXO.db", img[:cuts[cut]], 0o644); err != nil {
				ev.HarnessError("fallback scenario: %v", err)
			}
			limit = 60 * time.Second // loading a few hundred records takes milliseconds
		}
		if err := runChildT(limit, "--snap", specFile); err != nil {
			if i == 2 && (err == errChildTimeout || strings.Contains(err.Error(), "all goroutines are asleep")) {
				how := "did not return within 60 s"
				if err != errChildTimeout {
					how = "never returns (the process has no other goroutine, so the Go runtime reports: all goroutines are asleep - deadlock, in sync.WaitGroup.Wait called by NewUnspentDb)"
				}
				o.viol = append(o.viol, violation{"snap/fallback/loader-never-returns", fmt.Sprintf("NewUnspentDb %s on a directory whose UTXO.db is cut short (%s) and whose UTXO.old is a complete older snapshot: the map-filling goroutine started for UTXO.db is never sent its terminating nil before the loader retries with UTXO.old, and wg.Wait() then waits for it for ever", how, cutName)})
				return o
			}
			if strings.Contains(err.Error(), "HARNESS:") {
				ev.HarnessError("fallback scenario child: %v", err)
			}
			e := err.Error()
			if len(e) > 600 {
				e = e[:600]
			}
			o.viol = append(o.viol, violation{"snap/fallback/process-died", fmt.Sprintf("%s step (cut %s): %s", sp.Op, cutName, e)})
			return o
		}
		var r snapResult
		rb, err := os.ReadFile(sp.Result)
		if err != nil || json.Unmarshal(rb, &r) != nil {
			ev.HarnessError("fallback scenario child left no result: %v", err)
		}
		o.steps++
		o.records += r.Records
		o.lookups += r.Lookups
		for _, v := range r.Viol {
			if i == 2 {
				v.Key = strings.Replace(v.Key, "snap/plain/", "snap/fallback/", 1)
				v.What += " [UTXO.db cut: " + cutName + "; expected: the state of the intact UTXO.old]"
			}
			o.viol = append(o.viol, v)
		}
		if len(r.Viol) > 0 {
			return o
		}
	}
	return o
}

// runAbort: one aborted-save scenario (abort.go): a child that commits, starts a save,
// aborts it and closes; then a child that only reopens and compares.
func runAbort(setup, mode string) snapOutcome {
	o := snapOutcome{mode: "abort/" + mode + "/" + setup}
	dir := ev.Scratch("c10-abort")
	defer os.RemoveAll(dir)
	os.MkdirAll(dir+"/db", 0o755)
	for i, op := range []string{"abort", "abort-verify"} {
		sp := snapSpec{Op: op, Mode: mode, Setup: setup, Dir: dir + "/db/", Result: fmt.Sprintf("%s/result%d.json", dir, i)}
		bs, _ := json.Marshal(sp)
		specFile := fmt.Sprintf("%s/spec%d.json", dir, i)
		os.WriteFile(specFile, bs, 0o644)
		if err := runChild("--snap", specFile); err != nil {
			if strings.Contains(err.Error(), "HARNESS:") {
				ev.HarnessError("abort scenario child (%s, %s): %v", setup, mode, err)
			}
			e := err.Error()
			if len(e) > 600 {
				e = e[:600]
			}
			o.viol = append(o.viol, violation{"snap/abort/" + mode + "/process-died", fmt.Sprintf("%s step (%s): %s", op, setup, e)})
			return o
		}
		var r abortResult
		rb, err := os.ReadFile(sp.Result)
		if err != nil || json.Unmarshal(rb, &r) != nil {
			ev.HarnessError("abort scenario child left no result: %v", err)
		}
		o.steps++
		o.records += abortRecords * abortFinalGen(setup)
		for _, v := range r.Viol {
			v.What += " [" + setup + "]"
			o.viol = append(o.viol, v)
		}
		if len(r.Viol) > 0 {
			return o
		}
	}
	return o
}

// ---------------------------------------------------------------- main

func replay(file string) {
	bs, err := os.ReadFile(file)
	if err != nil {
		ev.HarnessError("%v", err)
	}
	var rec struct {
		Replay struct {
			Kind   string   `json:"kind"`
			Record *recJSON `json:"record"`
			Value  uint64   `json:"value"`
			Mode   string   `json:"mode"`
			Setup  string   `json:"setup"`
			Cut    string   `json:"cut"`
			Format string   `json:"format"`
			N      int      `json:"n"`
		} `json:"replay"`
	}
	if err := json.Unmarshal(bs, &rec); err != nil {
		ev.HarnessError("%v", err)
	}
	var viol []violation
	switch rec.Replay.Kind {
	case "record":
		viol = evalRecord(fromJSON(rec.Replay.Record)).Viol
	case "amount":
		v := rec.Replay.Value
		if g := btc.DecompressAmount(btc.CompressAmount(v)); g != v {
			viol = append(viol, violation{"amount", fmt.Sprintf("DecompressAmount(CompressAmount(%d)) = %d", v, g)})
		}
	case "snapshot":
		viol = runSnapshot(rec.Replay.Mode, rec.Replay.N).viol
	case "abort":
		viol = runAbort(rec.Replay.Setup, rec.Replay.Mode).viol
	case "fallback":
		_, _ = fallbackCuts, 0
		for c := 0; c < fallbackCutCount; c++ {
			o := runFallback(rec.Replay.N, c)
			if strings.TrimPrefix(o.mode, "fallback/") == rec.Replay.Cut {
				viol = o.viol
				break
			}
		}
	case "sequence":
		d := ev.Scratch("c10-seq")
		defer os.RemoveAll(d)
		if err := runChild("--seq-worker", rec.Replay.Format, "quick", d, d+"/result.json"); err != nil {
			ev.HarnessError("sequence worker: %v", err)
		}
		var sr seqResult
		bs, _ := os.ReadFile(d + "/result.json")
		json.Unmarshal(bs, &sr)
		os.RemoveAll(d) // replay ends in os.Exit: deferred calls do not run
		for k, v := range sr.Viol {
			viol = append(viol, violation{k, v.What})
		}
		sort.Slice(viol, func(i, j int) bool { return viol[i].Key < viol[j].Key })
	default:
		ev.HarnessError("unknown replay kind %q", rec.Replay.Kind)
	}
	if len(viol) == 0 {
		fmt.Fprintln(ev.Out, "replay: case passes")
		os.Exit(0)
	}
	for _, v := range viol {
		fmt.Fprintf(ev.Out, "replay: %s: %s\n", v.Key, v.What)
	}
	os.Exit(1)
}

func main() {
	for i, a := range os.Args[1:] {
		switch a {
		case "--rec-worker":
			var idx, n int
			fmt.Sscan(os.Args[i+2], &idx)
			fmt.Sscan(os.Args[i+3], &n)
			recWorker(idx, n, os.Args[i+4] == "thorough", os.Args[i+5])
			return
		case "--seq-worker":
			seqWorker(os.Args[i+2], os.Args[i+3] == "quick", os.Args[i+4], os.Args[i+5])
			return
		case "--snap":
			snapChild(os.Args[i+2])
			return
		}
	}
	r := ev.Start("C10", "exploration")
	if *replayFile != "" {
		replay(*replayFile)
		return
	}
	thor := r.Thorough()
	scratch := ev.Scratch("c10-rec")
	defer os.RemoveAll(scratch)

	// 1. amount compressor, exhaustive
	maxM := uint64(1000000)
	if thor {
		maxM = 20000000
	}
	am := amountSweep(maxM)
	if am.bad > 0 {
		r.Report("amount/compress-roundtrip-mismatch", fmt.Sprintf("DecompressAmount(CompressAmount(%d)) = %d [%d amounts]", am.minBad, am.badGot, am.bad),
			map[string]interface{}{"kind": "amount", "value": am.minBad})
	}
	if am.overflow > 0 {
		r.Report("recC/amount-compression-overflow", fmt.Sprintf("DecompressAmount(CompressAmount(%d)) = %d: btc.CompressAmount computes 1+10*(9n+d-1)+e in uint64, which wraps for amounts above about 2^64/9 [%d amounts of the sweep]", am.minOver, btc.DecompressAmount(btc.CompressAmount(am.minOver)), am.overflow),
			map[string]interface{}{"kind": "amount", "value": am.minOver})
	}

	// 2. records, sharded over child processes
	nw := runtime.NumCPU()
	tier := "quick"
	if thor {
		tier = "thorough"
	}
	results := make([]workerResult, nw)
	var wg sync.WaitGroup
	for i := 0; i < nw; i++ {
		wg.Add(1)
		go func(i int) {
			defer wg.Done()
			out := fmt.Sprintf("%s/rec%d.json", scratch, i)
			t0 := time.Now()
			if err := runChild("--rec-worker", fmt.Sprint(i), fmt.Sprint(nw), tier, out); err != nil {
				ev.HarnessError("record worker: %v", err)
			}
			fmt.Fprintf(os.Stderr, "timing: record worker %d: %.1fs\n", i, time.Since(t0).Seconds())
			bs, err := os.ReadFile(out)
			if err != nil || json.Unmarshal(bs, &results[i]) != nil {
				ev.HarnessError("record worker left no result: %v", err)
			}
		}(i)
	}
	// 3. snapshots in parallel with the record workers
	// 65535 / 65536 / 65537: the snapshot loader hands records to its map-filling
	// goroutine in batches of 65536
	ns := []int{0, 1, 2, 257, 65535, 65536, 65537}
	if thor {
		ns = append(ns, 3, 16, 1000, 131072, 140000)
	}
	var snaps []snapOutcome
	var smu sync.Mutex
	for _, mode := range []string{"plain", "option", "tool"} {
		for _, n := range ns {
			wg.Add(1)
			go func(mode string, n int) {
				defer wg.Done()
				t0 := time.Now()
				o := runSnapshot(mode, n)
				fmt.Fprintf(os.Stderr, "timing: snapshot %s n=%d: %.1fs\n", mode, n, time.Since(t0).Seconds())
				smu.Lock()
				snaps = append(snaps, o)
				smu.Unlock()
			}(mode, n)
		}
	}
	var fallbacks []snapOutcome
	for _, n := range []int{2, 257} {
		for cut := 0; cut < fallbackCutCount; cut++ {
			wg.Add(1)
			go func(n, cut int) {
				defer wg.Done()
				o := runFallback(n, cut)
				smu.Lock()
				fallbacks = append(fallbacks, o)
				smu.Unlock()
			}(n, cut)
		}
	}
	// 4. sequences through the entry points that reuse package-level buffers (seq.go)
	seqRes := map[string]*seqResult{}
	for _, f := range []string{"U", "C"} {
		wg.Add(1)
		go func(f string) {
			defer wg.Done()
			t0 := time.Now()
			d := ev.Scratch("c10-seq")
			defer os.RemoveAll(d)
			out := d + "/result.json"
			if err := runChild("--seq-worker", f, tier, d, out); err != nil {
				ev.HarnessError("sequence worker %s: %v", f, err)
			}
			var sr seqResult
			bs, err := os.ReadFile(out)
			if err != nil || json.Unmarshal(bs, &sr) != nil {
				ev.HarnessError("sequence worker left no result: %v", err)
			}
			fmt.Fprintf(os.Stderr, "timing: sequence worker %s: %.1fs\n", f, time.Since(t0).Seconds())
			smu.Lock()
			seqRes[f] = &sr
			smu.Unlock()
		}(f)
	}
	var aborts []snapOutcome
	for _, setup := range abortSetups {
		for _, mode := range abortModes {
			wg.Add(1)
			go func(setup, mode string) {
				defer wg.Done()
				t0 := time.Now()
				o := runAbort(setup, mode)
				fmt.Fprintf(os.Stderr, "timing: abort %s %s: %.1fs\n", setup, mode, time.Since(t0).Seconds())
				o.n = map[string]int{"fresh": 0, "with-older-snapshot": 1}[setup]
				smu.Lock()
				aborts = append(aborts, o)
				smu.Unlock()
			}(setup, mode)
		}
	}
	wg.Wait()

	tot := workerResult{PerFam: map[string]int{}, Classes: map[string]int{}, Shapes: map[string]int{}, Viol: map[string]*violAgg{}}
	for _, w := range results {
		tot.Evals += w.Evals
		for k, v := range w.PerFam {
			tot.PerFam[k] += v
		}
		for k, v := range w.Classes {
			tot.Classes[k] += v
		}
		for k, v := range w.Shapes {
			tot.Shapes[k] += v
		}
		for k, v := range w.Viol {
			a := tot.Viol[k]
			if a == nil {
				tot.Viol[k] = v
			} else {
				a.Count += v.Count
				if v.Size < a.Size || (v.Size == a.Size && v.Rec.Name < a.Rec.Name) {
					a.What, a.Size, a.Rec = v.What, v.Size, v.Rec
				}
			}
		}
		if len(tot.Samples) < 6 {
			tot.Samples = append(tot.Samples, w.Samples...)
		}
	}
	vc := map[string]int{}
	for k, v := range tot.Viol {
		vc[k] = v.Count
		r.Report(k, fmt.Sprintf("%s [record %s; %d records]", v.What, v.Rec.Name, v.Count), map[string]interface{}{"kind": "record", "record": v.Rec})
	}
	sort.Slice(snaps, func(i, j int) bool {
		if snaps[i].mode != snaps[j].mode {
			return snaps[i].mode < snaps[j].mode
		}
		return snaps[i].n < snaps[j].n
	})
	snapCov := []map[string]interface{}{}
	snapEvals := 0
	for _, o := range snaps {
		outcome := "identical"
		if len(o.viol) > 0 {
			outcome = "differs"
		}
		snapCov = append(snapCov, map[string]interface{}{"mode": o.mode, "records_in_pool": o.n, "steps_run": o.steps, "records_compared": o.records, "lookups": o.lookups, "outcome": outcome})
		snapEvals += o.steps
		tot.Shapes[fmt.Sprintf("snapshot|%s|n=%d|%s", o.mode, o.n, outcome)]++
		for _, v := range o.viol { // smallest pool first: snaps is sorted by n within a mode
			vc[v.Key]++
			r.Report(v.Key, fmt.Sprintf("%s [pool of %d records]", v.What, o.n), map[string]interface{}{"kind": "snapshot", "mode": o.mode, "n": o.n})
		}
	}
	sort.Slice(fallbacks, func(i, j int) bool {
		if fallbacks[i].n != fallbacks[j].n {
			return fallbacks[i].n < fallbacks[j].n
		}
		return fallbacks[i].mode < fallbacks[j].mode
	})
	fbCov := []map[string]interface{}{}
	for _, o := range fallbacks {
		outcome := "older snapshot loaded"
		if len(o.viol) > 0 {
			outcome = "differs"
		}
		fbCov = append(fbCov, map[string]interface{}{"scenario": o.mode, "records_in_pool": o.n, "steps_run": o.steps, "outcome": outcome})
		snapEvals += o.steps
		tot.Shapes[fmt.Sprintf("%s|n=%d|%s", o.mode, o.n, outcome)]++
		for _, v := range o.viol {
			vc[v.Key]++
			r.Report(v.Key, v.What, map[string]interface{}{"kind": "fallback", "n": o.n, "cut": strings.TrimPrefix(o.mode, "fallback/")})
		}
	}
	seqCov := map[string]interface{}{}
	seqEvals := 0
	for _, f := range []string{"U", "C"} {
		sr := seqRes[f]
		seqCov[f] = map[string]interface{}{"decodes_and_lookups": sr.Evals, "sequences_by_length": sr.Seqs, "purge_databases": sr.DBs, "purge_lookups": sr.Lookups}
		seqEvals += sr.Evals + sr.Lookups
		outcome := "independent"
		if len(sr.Viol) > 0 {
			outcome = "differs"
		}
		tot.Shapes["sequence|"+f+"|"+outcome]++
		var ks []string
		for k := range sr.Viol {
			ks = append(ks, k)
		}
		sort.Strings(ks)
		for _, k := range ks {
			v := sr.Viol[k]
			vc[k] += v.Count
			r.Report(k, fmt.Sprintf("%s [%d sequences]", v.What, v.Count), map[string]interface{}{"kind": "sequence", "format": f, "sequence": v.Seq})
		}
	}
	sort.Slice(aborts, func(i, j int) bool { return aborts[i].mode < aborts[j].mode })
	abortCov := []map[string]interface{}{}
	for _, o := range aborts {
		outcome := "state kept"
		if len(o.viol) > 0 {
			outcome = "differs"
		}
		abortCov = append(abortCov, map[string]interface{}{"scenario": o.mode, "steps_run": o.steps, "records_compared": o.records, "outcome": outcome})
		snapEvals += o.steps
		tot.Shapes[fmt.Sprintf("aborted-save|%s|%s", o.mode, outcome)]++
		parts := strings.Split(o.mode, "/") // abort/<mode>/<setup>
		for _, v := range o.viol {
			vc[v.Key]++
			r.Report(v.Key, v.What, map[string]interface{}{"kind": "abort", "mode": parts[1], "setup": parts[2]})
		}
	}
	os.RemoveAll(scratch) // Finish exits the process: deferred calls do not run
	var samples []interface{}
	for _, s := range tot.Samples {
		samples = append(samples, s)
	}
	r.Finish(map[string]interface{}{
		"evaluations":            tot.Evals + am.evals + snapEvals + seqEvals,
		"record_sequences":       seqCov,
		"fallback_scenarios":     fbCov,
		"records_evaluated":      tot.Evals,
		"records_per_family":     tot.PerFam,
		"amount_roundtrips":      am.evals,
		"amount_max_mantissa":    maxM,
		"amount_overflowing":     am.overflow,
		"snapshot_scenarios":     snapCov,
		"aborted_save_scenarios": abortCov,
		"distinct_nontrivial":    len(tot.Shapes),
		"rule":                   "a record case is non-trivial when it has at least one live output (it is then stored, decoded in both formats with heap and pooled allocation, and looked up output by output); distinct = number of distinct (family, out-count class, live fraction, coinbase flag, script classes, outcome) tuples, plus one per snapshot scenario (mode, pool size, outcome)",
		"outcome_classes":        tot.Classes,
		"violation_case_count":   vc,
		"samples":                samples,
	}, []string{
		"oracle is identity on the model record (txid, height, coinbase flag, out count, live set, value and script of every live output) and projection for single-output lookups; no reference codec is involved",
		"curve facts used to build P2PK keys with a coordinate >= p (smallest abscissa / ordinate that lies on y^2 = x^3 + 7) are computed with math/big from the SEC2 constants, independent of gocoin's secp256k1 package",
		"snapshot pools hold benign records only (no key with a coordinate >= p, no amount above 2^64/9): those two lossy corners are reported once, at record level",
		"each process that opens a database is a separate child, because loading a compressed snapshot switches utxo.Serialize / NewUtxoRecOwn / OneUtxoRec process-wide",
	})
}
