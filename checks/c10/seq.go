package main

// Decoder / encoder state carried between records (C10).
//
// Several entry points of lib/utxo reuse package-level buffers: NewUtxoRecStatic and
// NewUtxoRecStaticU (sta_rec, rec_outs, rec_pool, rec_idx), SerializeC (comp_val,
// comp_scr), and their users UnspentDB.PurgeUnspendable and the wallet's balance scan.
// A record decoded or encoded after another one must not depend on that other one. This
// family runs SEQUENCES: every ordered pair and triple over a small shape alphabet
// (out counts {1,2,10,11,127} x survivor sets {all, first, last, middle, alternating}),
// through every entry point, in both formats; each result is compared with the model
// record immediately (before the next call can overwrite shared memory). Then the API
// user: small databases whose buckets 0,1 hold such a pair (PurgeUnspendable walks the
// buckets in order, so the two records meet the static decoder back to back),
// PurgeUnspendable(all = true / false), every output looked up (spent ones must be nil),
// Close, reload, the same look-ups.
//
// One child process per format: the compressed child switches utxo.NewUtxoRecOwn /
// OneUtxoRec / Serialize to the C variants, which is what loading a compressed snapshot does.

import (
	"bytes"
	"encoding/json"
	"fmt"
	"os"

	"github.com/piotrnar/gocoin/lib/btc"
	"github.com/piotrnar/gocoin/lib/utxo"
)

type seqShape struct {
	name string
	n    int
	live []int
}

func seqShapes() []seqShape {
	var l []seqShape
	seen := map[string]bool{}
	for _, n := range []int{1, 2, 10, 11, 127} {
		sets := map[string][]int{"first": {0}, "last": {n - 1}, "middle": {n / 2}}
		var all, alt []int
		for i := 0; i < n; i++ {
			all = append(all, i)
			if i%2 == 1 || n == 1 {
				alt = append(alt, i)
			}
		}
		sets["all"], sets["alternating"] = all, alt
		for _, k := range []string{"all", "first", "last", "middle", "alternating"} {
			sig := fmt.Sprint(n, sets[k])
			if seen[sig] {
				continue
			}
			seen[sig] = true
			l = append(l, seqShape{fmt.Sprintf("%d-outs-%s", n, k), n, sets[k]})
		}
	}
	return l
}

var (
	seqSpendable   = append(append([]byte{0x76, 0xa9, 0x14}, bytes.Repeat([]byte{0xb0}, 20)...), 0x88, 0xac)
	seqUnspendable = []byte{0x6a, 0x04, 0xde, 0xad, 0xbe, 0xef}
)

// seqRecord: position pos of the sequence (bucket = first txid byte = pos), outputs with
// index%3 == 2 carry an OP_RETURN script (unspendable), values tell position and index.
func seqRecord(s seqShape, pos int, tag uint32) *mRec {
	r := &mRec{Name: fmt.Sprintf("%s@%d", s.name, pos), Height: uint32(100 + pos), Coinbase: pos == 1, Outs: make([]*mOut, s.n)}
	r.TxID = txid(0x900000 + tag)
	r.TxID[0] = byte(pos)
	for _, i := range s.live {
		scr, cl := seqSpendable, "p2pkh"
		if i%3 == 2 {
			scr, cl = seqUnspendable, "op_return"
		}
		r.Outs[i] = &mOut{Value: uint64(100000*(pos+1) + i), Script: scr, Class: cl}
	}
	return r
}

func cmpRec(d *utxo.UtxoRec, r *mRec) (kind, what string) {
	if d == nil {
		return "nil-record", "decoder returned nil"
	}
	if d.TxID != r.TxID || d.InBlock != r.Height || d.Coinbase != r.Coinbase {
		return "header-mismatch", fmt.Sprintf("height %d coinbase %v, want %d %v", d.InBlock, d.Coinbase, r.Height, r.Coinbase)
	}
	if len(d.Outs) != len(r.Outs) {
		return "out-count-mismatch", fmt.Sprintf("%d outputs, want %d", len(d.Outs), len(r.Outs))
	}
	for i, o := range r.Outs {
		g := d.Outs[i]
		if o == nil && g != nil {
			return "spent-output-decoded-as-live", fmt.Sprintf("output %d of %d is spent but decoded as live (value %d, script %x)", i, len(r.Outs), g.Value, g.PKScr)
		}
		if o != nil && g == nil {
			return "live-output-decoded-as-spent", fmt.Sprintf("output %d of %d is live but decoded as spent", i, len(r.Outs))
		}
		if o != nil && (g.Value != o.Value || !bytes.Equal(g.PKScr, o.Script)) {
			return "output-mismatch", fmt.Sprintf("output %d is (%d, %x), want (%d, %x)", i, g.Value, g.PKScr, o.Value, o.Script)
		}
	}
	return "", ""
}

type seqResult struct {
	Evals   int                    `json:"evals"`
	Seqs    map[string]int         `json:"sequences"`
	DBs     int                    `json:"databases"`
	Lookups int                    `json:"lookups"`
	Viol    map[string]*seqViolAgg `json:"viol"`
}

type seqViolAgg struct {
	Count int    `json:"count"`
	What  string `json:"what"`
	Size  int    `json:"size"`
	Seq   string `json:"seq"`
}

func modelUnspendable(s []byte) bool { return len(s) > 0 && s[0] == 0x6a }

// purgeModel applies what PurgeUnspendable(all) is specified to do.
func purgeModel(recs []*mRec, all bool) []*mRec {
	var out []*mRec
	for _, r := range recs {
		c := &mRec{Name: r.Name, TxID: r.TxID, Height: r.Height, Coinbase: r.Coinbase, Outs: make([]*mOut, len(r.Outs))}
		spendable := false
		for i, o := range r.Outs {
			if o == nil {
				continue
			}
			if modelUnspendable(o.Script) {
				if !all {
					c.Outs[i] = o
				}
			} else {
				c.Outs[i] = o
				spendable = true
			}
		}
		if spendable {
			out = append(out, c)
		}
	}
	return out
}

func seqWorker(format string, quick bool, base, outFile string) {
	if dn, err := os.OpenFile("/dev/null", os.O_WRONLY, 0); err == nil {
		os.Stdout = dn
	}
	utxo.UTXO_WRITING_TIME_TARGET = 0
	if format == "C" {
		utxo.NewUtxoRecOwn, utxo.OneUtxoRec, utxo.Serialize = utxo.NewUtxoRecOwnC, utxo.OneUtxoRecC, utxo.SerializeC
	}
	res := seqResult{Seqs: map[string]int{}, Viol: map[string]*seqViolAgg{}}
	report := func(key, what, seq string, size int) {
		a := res.Viol[key]
		if a == nil {
			res.Viol[key] = &seqViolAgg{1, what, size, seq}
			return
		}
		a.Count++
		if size < a.Size || (size == a.Size && seq < a.Seq) {
			a.What, a.Size, a.Seq = what, size, seq
		}
	}
	shapes := seqShapes()
	type entry struct {
		name string
		dec  func([]byte) *utxo.UtxoRec
	}
	entries := []entry{
		{"NewUtxoRecStatic", utxo.NewUtxoRecStatic},
		{"NewUtxoRec", utxo.NewUtxoRec},
		{"FullUtxoRec", utxo.FullUtxoRec},
	}
	if format == "U" {
		entries = append(entries, entry{"NewUtxoRecStaticU", utxo.NewUtxoRecStaticU})
	}
	pfx := "seq/" + format + "/"
	runSeq := func(idx []int) {
		var recs []*mRec
		var data [][]byte
		name, size := "", 0
		for pos, si := range idx {
			r := seqRecord(shapes[si], pos, uint32(si))
			recs = append(recs, r)
			if pos > 0 {
				name += " , "
			}
			name += r.Name
			size += len(r.Outs)
		}
		// encoders in sequence (shared pools of the compressed serialiser)
		for _, r := range recs {
			var buf *[]byte
			if p := tryRec("Serialize", func() { buf = utxo.Serialize(r.toImpl(), nil) }); p != "" || buf == nil {
				report(pfx+"Serialize/panic-or-nil", "Serialize in a sequence: "+p+" ("+name+")", name, size)
				return
			}
			data = append(data, append(make([]byte, 0, len(*buf)), *buf...))
		}
		res.Seqs[fmt.Sprint(len(idx))]++
		for _, e := range entries {
			for pos, r := range recs {
				res.Evals++
				var kind, what string
				if p := tryRec(e.name, func() { kind, what = cmpRec(e.dec(data[pos]), r) }); p != "" {
					kind, what = "panic", p
				}
				if kind != "" {
					report(pfx+e.name+"/"+kind, fmt.Sprintf("%s of record %d of the sequence [%s]: %s", e.name, pos+1, name, what), name, size)
					break
				}
			}
		}
		// single-output look-ups in sequence: the last live and the first spent output of each record
		for pos, r := range recs {
			for v := 0; v <= len(r.Outs); v++ {
				if v < len(r.Outs) && v > 2 && v < len(r.Outs)-2 && v != len(r.Outs)/2 {
					continue
				}
				res.Evals++
				var got *btc.TxOut
				if p := tryRec("OneUtxoRec", func() { got = utxo.OneUtxoRec(data[pos], uint32(v)) }); p != "" {
					report(pfx+"OneUtxoRec/panic", p+" ("+name+")", name, size)
					break
				}
				var want *mOut
				if v < len(r.Outs) {
					want = r.Outs[v]
				}
				if (want == nil) != (got == nil) || (want != nil && (got.Value != want.Value || !bytes.Equal(got.Pk_script, want.Script))) {
					report(pfx+"OneUtxoRec/projection-mismatch", fmt.Sprintf("OneUtxoRec(vout %d) of record %d of [%s] differs from the record", v, pos+1, name), name, size)
					break
				}
			}
		}
	}
	n := len(shapes)
	for a := 0; a < n; a++ {
		for b := 0; b < n; b++ {
			runSeq([]int{a, b})
		}
	}
	for a := 0; a < n; a++ {
		for b := 0; b < n; b++ {
			for c := 0; c < n; c++ {
				if quick && (a+b+c)%3 != 0 && shapes[c].n > 11 {
					continue // quick: a third of the triples that end in a 127-output record
				}
				runSeq([]int{a, b, c})
			}
		}
	}

	// the API user: PurgeUnspendable over two-record databases (buckets 0 and 1), then reload
	dbno := 0
	check := func(db *utxo.UnspentDB, want []*mRec, orig []*mRec, stage, name string, size int) {
		total := 0
		for i := range db.HashMap {
			total += len(db.HashMap[i])
		}
		if total != len(want) {
			report(pfx+"purge/record-count-mismatch"+stage, fmt.Sprintf("database holds %d records, want %d [%s]", total, len(want), name), name, size)
		}
		byID := map[[32]byte]*mRec{}
		for _, r := range want {
			byID[r.TxID] = r
		}
		for _, o := range orig {
			w := byID[o.TxID]
			for v := 0; v <= len(o.Outs); v++ {
				res.Lookups++
				var got *btc.TxOut
				if p := tryRec("UnspentGet", func() { got = db.UnspentGet(&btc.TxPrevOut{Hash: o.TxID, Vout: uint32(v)}) }); p != "" {
					report(pfx+"purge/unspentget-panic"+stage, p+" ["+name+"]", name, size)
					return
				}
				var wo *mOut
				if w != nil && v < len(w.Outs) {
					wo = w.Outs[v]
				}
				switch {
				case wo == nil && got != nil:
					report(pfx+"purge/unspentget-returns-spent-output"+stage, fmt.Sprintf("UnspentGet(%s:%d) returns (%d, %x) for an output that was never unspent or was purged [%s]", o.Name, v, got.Value, got.Pk_script, name), name, size)
					return
				case wo != nil && got == nil:
					report(pfx+"purge/unspentget-misses-live-output"+stage, fmt.Sprintf("UnspentGet(%s:%d) returns nil for a live output [%s]", o.Name, v, name), name, size)
					return
				case wo != nil && (got.Value != wo.Value || !bytes.Equal(got.Pk_script, wo.Script)):
					report(pfx+"purge/output-mismatch"+stage, fmt.Sprintf("UnspentGet(%s:%d) = (%d, %x), want (%d, %x) [%s]", o.Name, v, got.Value, got.Pk_script, wo.Value, wo.Script, name), name, size)
					return
				}
			}
		}
	}
	for a := 0; a < n; a++ {
		for b := 0; b < n; b++ {
			for _, all := range []bool{true, false} {
				recs := []*mRec{seqRecord(shapes[a], 0, uint32(a)), seqRecord(shapes[b], 1, uint32(b))}
				name := fmt.Sprintf("%s , %s ; PurgeUnspendable(%v)", recs[0].Name, recs[1].Name, all)
				size := len(recs[0].Outs) + len(recs[1].Outs)
				dir := fmt.Sprintf("%s/db%d/", base, dbno)
				dbno++
				os.MkdirAll(dir, 0o755)
				func() {
					defer os.RemoveAll(dir)
					defer func() {
						if r := recover(); r != nil {
							report(pfx+"purge/panic", fmt.Sprintf("%v [%s]", r, name), name, size)
						}
					}()
					db := utxo.NewUnspentDb(&utxo.NewUnspentOpts{Dir: dir, CompressRecords: format == "C"})
					ch := &utxo.BlockChanges{Height: 1}
					for _, r := range recs {
						ch.AddList = append(ch.AddList, r.toImpl())
					}
					db.CommitBlockTxs(ch, blockHash(1))
					db.PurgeUnspendable(all)
					want := purgeModel(recs, all)
					check(db, want, recs, "", name, size)
					db.DirtyDB.Set()
					db.Close()
					db = utxo.NewUnspentDb(&utxo.NewUnspentOpts{Dir: dir})
					check(db, want, recs, "-after-reload", name, size)
					db.Close()
					res.DBs++
				}()
			}
		}
	}
	bs, _ := json.Marshal(res)
	if err := os.WriteFile(outFile, bs, 0o644); err != nil {
		fmt.Fprintln(os.Stderr, "HARNESS:", err)
		os.Exit(3)
	}
}
