package main

// Snapshot part of C10: small databases go through the real UnspentDB
// (CommitBlockTxs -> Close (Save) -> NewUnspentDb) in both record formats. Every step
// that opens a database runs in its own child process, because loading a compressed
// snapshot switches utxo.Serialize / NewUtxoRecOwn / OneUtxoRec for the whole process.

import (
	"bytes"
	"encoding/json"
	"fmt"
	"os"
	"sort"

	"github.com/piotrnar/gocoin/lib/btc"
	"github.com/piotrnar/gocoin/lib/utxo"
)

type snapSpec struct {
	Op     string `json:"op"`   // "write": fresh db, blocks 1-2, close. "reopen": load, verify gen, commit next block, close. "verify": load, verify.
	Mode   string `json:"mode"` // "plain", "option" (NewUnspentOpts.CompressRecords on a fresh directory), "tool" (converted the way tools/utxo does)
	Dir    string `json:"dir"`
	N      int    `json:"n"`
	Gen    int    `json:"gen"` // number of blocks the database is expected to hold when opened
	Result string `json:"result"`
	Setup  string `json:"setup,omitempty"` // abort scenarios: "fresh" or "with-older-snapshot"
}

var modeText = map[string]string{
	"plain":  "database created with default options",
	"option": "database created by NewUnspentDb with NewUnspentOpts.CompressRecords=true on a directory without UTXO.db, filled through CommitBlockTxs, saved by Close",
	"tool":   "plain database whose records were re-serialised with SerializeC and ComprssedUTXO set, as tools/utxo does, saved by Close",
}

type snapResult struct {
	Viol    []violation `json:"viol"`
	Records int         `json:"records"`
	Lookups int         `json:"lookups"`
	Flag    bool        `json:"compressed_flag"`
}

func blockHash(h int) []byte {
	b := make([]byte, 32)
	for i := range b {
		b[i] = byte(h*16 + i)
	}
	return b
}

// snapRecord builds the i-th record of the pool (benign content: the record-level
// families cover the lossy corner cases; here the file format and the option handling
// are under test).
func snapRecord(i int, height uint32, scripts map[string][]byte) *mRec {
	cyc := []string{"p2pkh", "p2sh", "p2pk-compressed-02", "p2pk-uncompressed-valid", "plain-len1-first0", "plain-len0-first0", "plain-len253-first6", "plain-len33-first2", "plain-len21-first0", "p2pk-hybrid-06"}
	// out counts include those where a CompactSize derived from the count (2*count|coinbase,
	// last index) changes width; ten counts x coinbase every third record: every
	// (count, coinbase) pair occurs within 30 records. Beyond the first 300 records of a
	// large pool only small counts are used (cost).
	counts := []int{1, 2, 3, 5, 254, 126, 127, 253, 125, 252}
	if i >= 300 && i < 1000000 {
		counts = []int{1, 2, 3, 5, 1, 2, 1}
	}
	n := counts[i%len(counts)]
	r := &mRec{Name: fmt.Sprint("snap-rec-", i), TxID: txid(uint32(0x1000 + i)), Height: height, Coinbase: i%3 == 0, Outs: make([]*mOut, n)}
	for k := 0; k < n; k++ {
		c := cyc[(i+k)%len(cyc)]
		r.Outs[k] = &mOut{Value: uint64(1000*i + k*546 + (i%4)*100000000), Script: scripts[c], Class: c}
	}
	return r
}

type blockOps struct {
	add   []*mRec
	spend map[[32]byte][]bool
}

// snapBlock gives the changes of block h (1..3) for pool size n, given the model before it.
func snapBlock(h, n int, model map[[32]byte]*mRec, scripts map[string][]byte) blockOps {
	var ops blockOps
	ops.spend = map[[32]byte][]bool{}
	switch h {
	case 1:
		for i := 0; i < n; i++ {
			ops.add = append(ops.add, snapRecord(i, 1, scripts))
		}
	case 2, 3:
		for i := 0; i < n; i++ {
			if i%3 != h-2 {
				continue
			}
			id := txid(uint32(0x1000 + i))
			r := model[id]
			if r == nil {
				continue
			}
			m := make([]bool, len(r.Outs))
			m[0] = true // spends output 0: removes single-output records, shrinks the others
			if len(r.Outs) > 3 {
				m[len(r.Outs)-1] = true
			}
			ops.spend[id] = m
		}
		extra := 1
		if h == 2 {
			extra = n/2 + 1
		}
		if n == 0 {
			extra = 0 // the empty database stays empty: header-only snapshot
		}
		for k := 0; k < extra; k++ {
			ops.add = append(ops.add, snapRecord(1000000*h+k, uint32(h), scripts)) // indexes far above any pool size: txids never repeat
		}
	}
	return ops
}

func applyModel(model map[[32]byte]*mRec, ops blockOps) {
	for id, m := range ops.spend {
		r := model[id]
		if r == nil {
			continue
		}
		live := 0
		for i := range m {
			if m[i] {
				r.Outs[i] = nil
			}
		}
		for _, o := range r.Outs {
			if o != nil {
				live++
			}
		}
		if live == 0 {
			delete(model, id)
		}
	}
	for _, r := range ops.add {
		model[r.TxID] = r
	}
}

func snapModel(n, gen int, scripts map[string][]byte) map[[32]byte]*mRec {
	model := map[[32]byte]*mRec{}
	for h := 1; h <= gen; h++ {
		applyModel(model, snapBlock(h, n, model, scripts))
	}
	return model
}

func commitBlock(db *utxo.UnspentDB, h int, ops blockOps) {
	ch := &utxo.BlockChanges{Height: uint32(h), DeledTxs: ops.spend}
	for _, r := range ops.add {
		ch.AddList = append(ch.AddList, r.toImpl())
	}
	db.CommitBlockTxs(ch, blockHash(h))
}

func snapChild(specFile string) {
	bs, err := os.ReadFile(specFile)
	if err != nil {
		fmt.Fprintln(os.Stderr, "HARNESS:", err)
		os.Exit(3)
	}
	var sp snapSpec
	if err := json.Unmarshal(bs, &sp); err != nil {
		fmt.Fprintln(os.Stderr, "HARNESS:", err)
		os.Exit(3)
	}
	if dn, err := os.OpenFile("/dev/null", os.O_WRONLY, 0); err == nil {
		os.Stdout = dn
	}
	switch sp.Op {
	case "abort":
		abortChild(&sp)
	case "abort-verify":
		abortVerifyChild(&sp)
	}
	utxo.UTXO_WRITING_TIME_TARGET = 0
	scripts := map[string][]byte{}
	for _, s := range scriptFamily(false) {
		scripts[s.class] = s.b
	}
	var res snapResult
	add := func(k, w string) {
		for _, v := range res.Viol {
			if v.Key == k {
				return
			}
		}
		res.Viol = append(res.Viol, violation{k, w})
	}
	finish := func() {
		out, _ := json.Marshal(res)
		if err := os.WriteFile(sp.Result, out, 0o644); err != nil {
			fmt.Fprintln(os.Stderr, "HARNESS:", err)
			os.Exit(3)
		}
		os.Exit(0)
	}
	pfx := "snap/" + sp.Mode + "/"
	defer func() {
		if r := recover(); r != nil {
			add(pfx+"panic", fmt.Sprintf("panic in %s of a %d-record %s database: %v", sp.Op, sp.N, sp.Mode, r))
			finish()
		}
	}()
	db := utxo.NewUnspentDb(&utxo.NewUnspentOpts{Dir: sp.Dir, CompressRecords: sp.Mode == "option"})
	res.Flag = db.ComprssedUTXO
	switch sp.Op {
	case "write":
		model := map[[32]byte]*mRec{}
		for h := 1; h <= 2; h++ {
			ops := snapBlock(h, sp.N, model, scripts)
			commitBlock(db, h, ops)
			applyModel(model, ops)
		}
		if sp.Mode == "tool" { // what tools/utxo/compress.go does
			for i := range db.HashMap {
				for k, v := range db.HashMap[i] {
					var rec utxo.UtxoRec
					utxo.NewUtxoRecOwnU(*v, &rec, nil)
					db.HashMap[i][k] = utxo.SerializeC(&rec, nil)
				}
			}
			db.ComprssedUTXO = true
			db.DirtyDB.Set()
		}
		db.Close()
		res.Records = len(model)
		finish()
	case "reopen", "verify":
		model := snapModel(sp.N, sp.Gen, scripts)
		res.Records = len(model)
		wantFlag := sp.Mode != "plain"
		if db.ComprssedUTXO != wantFlag {
			add(pfx+"compressed-flag-mismatch", fmt.Sprintf("reloaded database reports compressed=%v, want %v", db.ComprssedUTXO, wantFlag))
		}
		if db.LastBlockHeight != uint32(sp.Gen) || !bytes.Equal(db.LastBlockHash, blockHash(sp.Gen)) {
			add(pfx+"last-block-mismatch", fmt.Sprintf("reloaded database is at height %d hash %x, want %d %x", db.LastBlockHeight, db.LastBlockHash, sp.Gen, blockHash(sp.Gen)))
		}
		total := 0
		for i := range db.HashMap {
			total += len(db.HashMap[i])
		}
		if total != len(model) {
			add(pfx+"record-count-mismatch", fmt.Sprintf("reloaded database holds %d records, want %d", total, len(model)))
		}
		var ids [][32]byte
		for id := range model {
			ids = append(ids, id)
		}
		sort.Slice(ids, func(a, b int) bool { return bytes.Compare(ids[a][:], ids[b][:]) < 0 })
		for _, id := range ids {
			r := model[id]
			var key utxo.UtxoKeyType
			copy(key[:], id[:])
			v := db.HashMap[key[0]][key]
			if v == nil {
				add(pfx+"record-missing-after-reload", fmt.Sprintf("record %s (%x) is not in the reloaded database", r.Name, id[:8]))
				continue
			}
			if !db.TxPresent(btc.NewUint256(id[:])) {
				add(pfx+"txpresent-false", "TxPresent is false for a stored record")
			}
			bad := ""
			if p := tryRec("NewUtxoRec", func() {
				d := utxo.NewUtxoRec(*v)
				switch {
				case d.TxID != r.TxID || d.InBlock != r.Height || d.Coinbase != r.Coinbase:
					bad = fmt.Sprintf("header fields: height %d coinbase %v, want %d %v", d.InBlock, d.Coinbase, r.Height, r.Coinbase)
				case len(d.Outs) != len(r.Outs):
					bad = fmt.Sprintf("%d outputs, want %d", len(d.Outs), len(r.Outs))
				default:
					for i, o := range r.Outs {
						g := d.Outs[i]
						if (o == nil) != (g == nil) {
							bad = fmt.Sprintf("output %d live=%v, want %v", i, g != nil, o != nil)
							break
						}
						if o != nil && (g.Value != o.Value || !bytes.Equal(g.PKScr, o.Script)) {
							bad = fmt.Sprintf("output %d is (%d, %x), want (%d, %x)", i, g.Value, g.PKScr, o.Value, o.Script)
							break
						}
					}
				}
			}); p != "" {
				bad = "decoding panics: " + p
			}
			if bad != "" {
				add(pfx+"record-mismatch-after-reload", fmt.Sprintf("record %s read back through utxo.NewUtxoRec differs: %s (%s; reloaded header says compressed=%v)", r.Name, bad, modeText[sp.Mode], db.ComprssedUTXO))
				continue // lookups are judged only on records whose full decode is right
			}
			for vout := 0; vout <= len(r.Outs)+1; vout++ {
				res.Lookups++
				var got *btc.TxOut
				if p := tryRec("UnspentGet", func() { got = db.UnspentGet(&btc.TxPrevOut{Hash: id, Vout: uint32(vout)}) }); p != "" {
					add(pfx+"unspentget-panic", "UnspentGet panics on a reloaded record: "+p)
					break
				}
				var want *mOut
				if vout < len(r.Outs) {
					want = r.Outs[vout]
				}
				switch {
				case want == nil && got != nil:
					add(pfx+"unspentget-returns-spent", fmt.Sprintf("UnspentGet(%s:%d) returns an output that is not live", r.Name, vout))
				case want != nil && got == nil:
					add(pfx+"unspentget-misses-live", fmt.Sprintf("UnspentGet(%s:%d) returns nil for a live output", r.Name, vout))
				case want != nil && (got.Value != want.Value || !bytes.Equal(got.Pk_script, want.Script) || got.BlockHeight != r.Height || got.WasCoinbase != r.Coinbase || int(got.VoutCount) != len(r.Outs)):
					add(pfx+"unspentget-mismatch", fmt.Sprintf("UnspentGet(%s:%d) = (%d, %x, h%d, cb %v, n%d), want (%d, %x, h%d, cb %v, n%d)", r.Name, vout, got.Value, got.Pk_script, got.BlockHeight, got.WasCoinbase, got.VoutCount, want.Value, want.Script, r.Height, r.Coinbase, len(r.Outs)))
				}
			}
		}
		if sp.Op == "reopen" && len(res.Viol) == 0 {
			ops := snapBlock(sp.Gen+1, sp.N, model, scripts)
			commitBlock(db, sp.Gen+1, ops)
		}
		db.Close()
		finish()
	}
	fmt.Fprintln(os.Stderr, "HARNESS: bad op")
	os.Exit(3)
}
