package main

// Aborted snapshot saves (C10: "... and after being written to and reloaded from the
// snapshot file"): a save that is aborted must leave either nothing or a complete file
// under the final name, and the database must still know it is dirty, so that after
// Close + reopen the committed state is there.
//
// UnspentDB.save() looks at the abort request in two places: (A) while it paces itself
// (UTXO_WRITING_TIME_TARGET > 0) and (B) while the 100-chunk queue to the file-writer
// goroutine is full. Both are reached here without any timing assumption:
//
//	paced-waiting                 target 24 h: after the first 64 KiB chunk save() parks in
//	                              select (A) for minutes; AbortWriting() is consumed there.
//	hurry-queue-full              target 0 (what Close/HurryUp use): the temporary snapshot
//	                              file is pre-created as a FIFO that nobody reads, so the
//	                              writer goroutine blocks inside its first write; save() does
//	                              not look at the abort channel until the queue is full, then
//	                              polls it in (B): the request is consumed in (B) whenever it
//	                              was sent.
//	hurry-after-pacing-queue-full target 24 h with HurryUp() requested before Save(): the
//	                              harness reads two chunks from the FIFO first, which proves
//	                              that save() has left (A) through the hurry-up branch; then as
//	                              above.
//
// Records carry one 65.6 KB script each, so every record is a queue chunk of its own and
// 160 of them overfill the queue. After the abort the FIFO is drained (the "disk catches
// up"); if the writer publishes the FIFO as UTXO.db the harness puts the bytes it drained
// there as the regular file a real disk would hold. Each scenario runs in a child process;
// the final state is verified by another child that only reopens the directory.

import (
	"bytes"
	"encoding/binary"
	"encoding/json"
	"fmt"
	"os"
	"sync"
	"syscall"
	"time"

	"github.com/piotrnar/gocoin/lib/btc"
	"github.com/piotrnar/gocoin/lib/utxo"
)

const (
	abortRecords = 160
	abortScrLen  = 0x10000 + 100
)

var abortModes = []string{"paced-waiting", "hurry-queue-full", "hurry-after-pacing-queue-full"}
var abortSetups = []string{"fresh", "with-older-snapshot"}

func abortRec(gen, i int) *utxo.UtxoRec {
	rec := new(utxo.UtxoRec)
	rec.TxID = txid(uint32(0x500000 + gen*0x1000 + i))
	rec.InBlock = uint32(gen)
	rec.Coinbase = i == 0
	scr := make([]byte, abortScrLen)
	for k := range scr {
		scr[k] = byte(k*3 + i + 7*gen)
	}
	rec.Outs = []*utxo.UtxoTxOut{{Value: uint64(1000*gen + i), PKScr: scr}}
	return rec
}

// abortFinalGen: number of blocks committed before the aborted save.
func abortFinalGen(setup string) int {
	if setup == "fresh" {
		return 1
	}
	return 2
}

type abortResult struct {
	Viol      []violation `json:"viol"`
	Published bool        `json:"published"`
	Dirty     bool        `json:"dirty_after_abort"`
	Drained   int         `json:"bytes_drained"`
}

// completeSnapshot parses a snapshot file image: header and exactly the announced records.
func completeSnapshot(b []byte) (height uint64, recs int, ok bool) {
	if len(b) < 48 {
		return 0, 0, false
	}
	height = binary.LittleEndian.Uint64(b[0:8])
	n := binary.LittleEndian.Uint64(b[40:48])
	off := 48
	for i := uint64(0); i < n; i++ {
		if off >= len(b) {
			return height, recs, false
		}
		var le, w int
		switch b[off] {
		case 0xfd:
			w = 3
		case 0xfe:
			w = 5
		case 0xff:
			w = 9
		default:
			w = 1
		}
		if off+w > len(b) {
			return height, recs, false
		}
		switch w {
		case 1:
			le = int(b[off])
		case 3:
			le = int(binary.LittleEndian.Uint16(b[off+1:]))
		case 5:
			le = int(binary.LittleEndian.Uint32(b[off+1:]))
		default:
			le = int(binary.LittleEndian.Uint64(b[off+1:]))
		}
		off += w
		if le < 0 || off+le > len(b) {
			return height, recs, false
		}
		off += le
		recs++
	}
	return height, recs, off == len(b)
}

func abortChild(sp *snapSpec) {
	var res abortResult
	add := func(k, w string) { res.Viol = append(res.Viol, violation{k, w}) }
	finish := func() {
		out, _ := json.Marshal(res)
		if err := os.WriteFile(sp.Result, out, 0o644); err != nil {
			fmt.Fprintln(os.Stderr, "HARNESS:", err)
			os.Exit(3)
		}
		os.Exit(0)
	}
	pfx := "snap/abort/" + sp.Mode + "/"
	final := abortFinalGen(sp.Setup)

	utxo.UTXO_WRITING_TIME_TARGET = 0
	db := utxo.NewUnspentDb(&utxo.NewUnspentOpts{Dir: sp.Dir})
	commit := func(gen int) {
		ch := &utxo.BlockChanges{Height: uint32(gen)}
		for i := 0; i < abortRecords; i++ {
			ch.AddList = append(ch.AddList, abortRec(gen, i))
		}
		if gen == 2 { // spends: one whole record of block 1 goes away
			id := abortRec(1, 3).TxID
			ch.DeledTxs = map[[32]byte][]bool{id: {true}}
		}
		db.CommitBlockTxs(ch, blockHash(gen))
	}
	commit(1)
	if sp.Setup != "fresh" {
		// a complete older snapshot exists: save it, reopen, then the next block
		db.Close()
		db = utxo.NewUnspentDb(&utxo.NewUnspentOpts{Dir: sp.Dir})
		if db.LastBlockHeight != 1 {
			fmt.Fprintln(os.Stderr, "HARNESS: the preparatory snapshot did not load")
			os.Exit(3)
		}
		commit(2)
	}

	tmpname := sp.Dir + btc.NewUint256(blockHash(final)).String() + ".db.tmp"
	fifo := sp.Mode != "paced-waiting"
	if fifo {
		if err := syscall.Mkfifo(tmpname, 0o600); err != nil {
			fmt.Fprintln(os.Stderr, "HARNESS: mkfifo:", err)
			os.Exit(3)
		}
	}
	if sp.Mode != "hurry-queue-full" {
		utxo.UTXO_WRITING_TIME_TARGET = 24 * time.Hour
	}
	if sp.Mode == "hurry-after-pacing-queue-full" {
		db.HurryUp()
	}
	if !db.Save() {
		fmt.Fprintln(os.Stderr, "HARNESS: Save() did not start")
		os.Exit(3)
	}

	// read side of the FIFO: non-blocking raw descriptor (a read gives what is in the pipe
	// now, 0/EAGAIN otherwise, whether or not a writer is connected)
	var captured bytes.Buffer
	fd := -1
	if fifo {
		var err error
		fd, err = syscall.Open(tmpname, syscall.O_RDONLY|syscall.O_NONBLOCK, 0)
		if err != nil {
			fmt.Fprintln(os.Stderr, "HARNESS: open fifo:", err)
			os.Exit(3)
		}
	}
	rbuf := make([]byte, 1<<16)
	readSome := func() int {
		n, _ := syscall.Read(fd, rbuf)
		if n > 0 {
			captured.Write(rbuf[:n])
			return n
		}
		return 0
	}
	if fifo && sp.Mode == "hurry-after-pacing-queue-full" {
		// two whole chunks can only arrive after save() has left the pacing select
		limit := time.Now().Add(120 * time.Second)
		for captured.Len() < 2*(abortScrLen+64) {
			if readSome() == 0 {
				if time.Now().After(limit) {
					fmt.Fprintln(os.Stderr, "HARNESS: the snapshot writer produced no second chunk after HurryUp")
					os.Exit(3)
				}
				time.Sleep(time.Millisecond)
			}
		}
	}
	if !fifo {
		// the writer goroutine creates its file before anything else; from then on only an
		// abort (not yet requested) or completion (24 h away) removes it
		limit := time.Now().Add(120 * time.Second)
		for {
			if _, err := os.Lstat(tmpname); err == nil {
				break
			}
			if time.Now().After(limit) {
				fmt.Fprintln(os.Stderr, "HARNESS: the snapshot writer never created its file")
				os.Exit(3)
			}
			time.Sleep(time.Millisecond)
		}
	}

	abortDone := make(chan struct{})
	go func() {
		db.AbortWriting()
		close(abortDone)
	}()
	returnedBeforeDrain := false
	select {
	case <-abortDone:
		returnedBeforeDrain = true
	case <-time.After(20 * time.Second):
		// save() did not honour the request while the writer was blocked; let the disk catch up
	}
	// the disk catches up: drain until the writer has closed its end and the temporary name is gone
	var drainWG sync.WaitGroup
	stopDrain := make(chan struct{})
	if fifo {
		drainWG.Add(1)
		go func() {
			defer drainWG.Done()
			for {
				if readSome() == 0 {
					select {
					case <-stopDrain:
						return // the writer had closed its end before: the pipe is empty
					default:
						time.Sleep(time.Millisecond)
					}
				}
			}
		}()
	}
	select {
	case <-abortDone:
	case <-time.After(120 * time.Second):
		add(pfx+"abortwriting-does-not-return", "AbortWriting() did not return within 120 s although the snapshot file was being read")
		finish()
	}
	deadline := time.Now().Add(120 * time.Second)
	for {
		if _, err := os.Lstat(tmpname); err != nil {
			break // removed (aborted) or renamed (published): the writer has closed the file before that
		}
		if time.Now().After(deadline) {
			add(pfx+"writer-never-finishes", "the snapshot writer goroutine neither removed nor published its temporary file within 120 s after the abort")
			finish()
		}
		time.Sleep(time.Millisecond)
	}
	if fifo {
		close(stopDrain)
		drainWG.Wait()
		syscall.Close(fd)
	}
	res.Drained = captured.Len()
	res.Dirty = db.DirtyDB.Get()
	if fi, err := os.Lstat(sp.Dir + "UTXO.db"); err == nil {
		res.Published = true
		img := captured.Bytes()
		if fi.Mode()&os.ModeNamedPipe != 0 {
			os.Remove(sp.Dir + "UTXO.db")
			if err := os.WriteFile(sp.Dir+"UTXO.db", img, 0o600); err != nil {
				fmt.Fprintln(os.Stderr, "HARNESS:", err)
				os.Exit(3)
			}
		} else {
			img, _ = os.ReadFile(sp.Dir + "UTXO.db")
		}
		want := abortRecords*final - (final - 1)
		if h, n, ok := completeSnapshot(img); !ok || n != want || int(h) != final {
			add(pfx+"aborted-save-published-incomplete-snapshot", fmt.Sprintf("the save was aborted (AbortWriting returned before the disk caught up: %v) and yet a file was published as UTXO.db: %d bytes holding %d complete records under a header for height %d (the database has %d records at height %d); DirtyDB is now %v", returnedBeforeDrain, len(img), n, h, want, final, res.Dirty))
		}
	} else if !res.Dirty {
		add(pfx+"dirty-flag-cleared-without-snapshot", "after the aborted save there is no UTXO.db and the database no longer reports itself dirty")
	}
	db.Close() // writes a fresh snapshot if the database still knows it is dirty
	finish()
}

func abortVerifyChild(sp *snapSpec) {
	var res abortResult
	add := func(k, w string) { res.Viol = append(res.Viol, violation{k, w}) }
	pfx := "snap/abort/" + sp.Mode + "/"
	final := abortFinalGen(sp.Setup)
	db := utxo.NewUnspentDb(&utxo.NewUnspentOpts{Dir: sp.Dir})
	total := 0
	for i := range db.HashMap {
		total += len(db.HashMap[i])
	}
	want := abortRecords*final - (final - 1)
	missing, wrong := 0, 0
	for gen := 1; gen <= final; gen++ {
		for i := 0; i < abortRecords; i++ {
			r := abortRec(gen, i)
			got := db.UnspentGet(&btc.TxPrevOut{Hash: r.TxID, Vout: 0})
			if gen == 1 && i == 3 && final == 2 {
				if got != nil {
					wrong++
				}
				continue
			}
			switch {
			case got == nil:
				missing++
			case got.Value != r.Outs[0].Value || !bytes.Equal(got.Pk_script, r.Outs[0].PKScr) || got.BlockHeight != r.InBlock || got.WasCoinbase != r.Coinbase:
				wrong++
			}
		}
	}
	if int(db.LastBlockHeight) != final || total != want || missing > 0 || wrong > 0 {
		add(pfx+"state-lost-after-abort-close-reopen", fmt.Sprintf("after an aborted save, Close and reopen the database is at height %d with %d records (%d of the committed records missing, %d wrong); committed: height %d, %d records", db.LastBlockHeight, total, missing, wrong, final, want))
	}
	db.Close()
	out, _ := json.Marshal(res)
	if err := os.WriteFile(sp.Result, out, 0o644); err != nil {
		fmt.Fprintln(os.Stderr, "HARNESS:", err)
		os.Exit(3)
	}
	os.Exit(0)
}
