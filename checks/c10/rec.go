package main

// Record-level part of C10: model records, the families, and the evaluation of one
// record on gocoin's plain (U) and compressed (C) record formats.
//
// Mutants this check must kill (patches in /verif/mutants, each verified in a scratch
// worktree against the quick tier; the new key(s) each one produces):
//   C10-amount-exponent-limit            CompressAmount strips 10 zeros       -> amount/compress-roundtrip-mismatch, recC/amount-mismatch
//   C10-decompress-amount-digit          DecompressAmount drops digit 9        -> amount/compress-roundtrip-mismatch, recC/amount-mismatch
//   C10-onerecc-skip-wide-length         OneUtxoRecC skips 1 byte of a 3-byte length -> oneC/live-vout-not-found, oneC/amount-mismatch, snap/tool/unspentget-*
//   C10-compressed-coinbase-bit-dropped  SerializeC loses the coinbase flag    -> recC/coinbase-flag-mismatch, oneC/header-fields-mismatch
//   C10-save-omits-compressed-flag       snapshot header without format bit    -> snap/tool/compressed-flag-mismatch, snap/tool/record-mismatch-after-reload
//   C10-p2sh-hash-shifted                CompressScript copies scr[3:23]       -> recC/script-changed/p2sh
//   C10-plain-index-width-one            SerializeU sizes an index >= 253 as 1 byte -> recU/panic/SerializeU:...
// Seeded changes (/verif/seeded): C10-c (SerializeU sizes the out count before OR-ing the coinbase bit: 126 outputs + coinbase)
//   -> recU/panic/SerializeU:..., recU/panic/NewUtxoRecOwnU:..., oneU/panic/OneUtxoRecU:..., snap/plain/process-died;
//   C10-d (aborted save published when the abort arrives on the full writer queue) -> snap/abort/hurry-queue-full/aborted-save-published-incomplete-snapshot,
//   snap/abort/hurry-after-pacing-queue-full/aborted-save-published-incomplete-snapshot (abort.go);
//   C10-e (static decoder clears only rec_outs[:rec_idx]) -> seq/{U,C}/NewUtxoRecStatic/spent-output-decoded-as-live,
//   seq/U/NewUtxoRecStaticU/..., seq/{U,C}/purge/unspentget-returns-spent-output[-after-reload], seq/{U,C}/purge/record-count-mismatch[-after-reload] (seq.go)

import (
	"bytes"
	"encoding/hex"
	"fmt"
	"math/big"
	"sort"
	"strings"

	"github.com/piotrnar/gocoin/lib/btc"
	"github.com/piotrnar/gocoin/lib/utxo"
)

// ---------------------------------------------------------------- model

type mOut struct {
	Value  uint64
	Script []byte
	Class  string // label of the script shape (for keys), not part of the record
}

type mRec struct {
	Name     string
	TxID     [32]byte
	Height   uint32
	Coinbase bool
	Outs     []*mOut // nil = spent
}

func (r *mRec) toImpl() *utxo.UtxoRec {
	u := &utxo.UtxoRec{TxID: r.TxID, Coinbase: r.Coinbase, InBlock: r.Height, Outs: make([]*utxo.UtxoTxOut, len(r.Outs))}
	for i, o := range r.Outs {
		if o != nil {
			u.Outs[i] = &utxo.UtxoTxOut{Value: o.Value, PKScr: append([]byte{}, o.Script...)}
		}
	}
	return u
}

func (r *mRec) survivors() int {
	n := 0
	for _, o := range r.Outs {
		if o != nil {
			n++
		}
	}
	return n
}

// ---------------------------------------------------------------- secp256k1 facts (math/big, independent of gocoin)

var (
	fp, _ = new(big.Int).SetString("fffffffffffffffffffffffffffffffffffffffffffffffffffffffefffffc2f", 16)
	gx, _ = new(big.Int).SetString("79be667ef9dcbbac55a06295ce870b07029bfcdb2dce28d959f2815b16f81798", 16)
	gy, _ = new(big.Int).SetString("483ada7726a3c4655da4fbfc0e1108a8fd17b448a68554199c47d08ffb10d4b8", 16)
)

func onCurve(x, y *big.Int) bool {
	l := new(big.Int).Mul(y, y)
	r := new(big.Int).Mul(x, x)
	r.Mul(r, x).Add(r, big.NewInt(7))
	return l.Sub(l, r).Mod(l, fp).Sign() == 0
}

func be32(x *big.Int) []byte {
	b := x.Bytes()
	return append(make([]byte, 32-len(b)), b...)
}

func sqrtP(a *big.Int) *big.Int { // p = 3 mod 4
	e := new(big.Int).Add(fp, big.NewInt(1))
	e.Rsh(e, 2)
	r := new(big.Int).Exp(a, e, fp)
	if new(big.Int).Exp(r, big.NewInt(2), fp).Cmp(new(big.Int).Mod(a, fp)) != 0 {
		return nil
	}
	return r
}

func cbrtP(a *big.Int) *big.Int { // p = 7 mod 9: a^((p+2)/9) is a cube root if one exists
	e := new(big.Int).Add(fp, big.NewInt(2))
	e.Div(e, big.NewInt(9))
	a = new(big.Int).Mod(a, fp)
	r := new(big.Int).Exp(a, e, fp)
	if new(big.Int).Exp(r, big.NewInt(3), fp).Cmp(a) != 0 {
		return nil
	}
	return r
}

type keyset struct {
	uncompValid, compValid, hybrid, hybridWrongParity, offCurve, xGEp, yGEp, compXGEp, compUnliftable, zero []byte
}

func mkKeys() keyset {
	var k keyset
	k.uncompValid = append(append([]byte{4}, be32(gx)...), be32(gy)...)
	k.compValid = append([]byte{2}, be32(gx)...)
	k.hybrid = append(append([]byte{6}, be32(gx)...), be32(gy)...)
	k.hybridWrongParity = append(append([]byte{7}, be32(gx)...), be32(gy)...)
	k.offCurve = append(append([]byte{4}, be32(gx)...), be32(new(big.Int).Add(gy, big.NewInt(1)))...)
	k.zero = append([]byte{4}, make([]byte, 64)...)
	// smallest x' >= 1 that is the abscissa of a curve point: x = x' + p still fits 32 bytes
	for x := int64(1); ; x++ {
		xx := big.NewInt(x)
		rhs := new(big.Int).Exp(xx, big.NewInt(3), fp)
		rhs.Add(rhs, big.NewInt(7))
		if y := sqrtP(rhs); y != nil {
			if !onCurve(xx, y) {
				panic("sqrt")
			}
			k.xGEp = append(append([]byte{4}, be32(new(big.Int).Add(xx, fp))...), be32(y)...)
			k.compXGEp = append([]byte{2}, be32(new(big.Int).Add(xx, fp))...)
			break
		}
	}
	// smallest y' >= 1 that is the ordinate of a curve point
	for y := int64(1); ; y++ {
		yy := big.NewInt(y)
		a := new(big.Int).Mul(yy, yy)
		a.Sub(a, big.NewInt(7))
		if x := cbrtP(a); x != nil {
			if !onCurve(x, yy) {
				panic("cbrt")
			}
			k.yGEp = append(append([]byte{4}, be32(x)...), be32(new(big.Int).Add(yy, fp))...)
			break
		}
	}
	for x := int64(1); ; x++ {
		xx := big.NewInt(x)
		rhs := new(big.Int).Exp(xx, big.NewInt(3), fp)
		rhs.Add(rhs, big.NewInt(7))
		if sqrtP(rhs) == nil {
			k.compUnliftable = append([]byte{3}, be32(xx)...)
			break
		}
	}
	if !onCurve(gx, gy) {
		panic("G not on curve")
	}
	return k
}

// noncanonicalP2PK tells whether scr is a 67-byte P2PK template whose 04-key has a
// coordinate >= p while the reduced point lies on the curve.
func noncanonicalP2PK(scr []byte) bool {
	if len(scr) != 67 || scr[0] != 65 || scr[66] != 0xac || scr[1] != 4 {
		return false
	}
	x := new(big.Int).SetBytes(scr[2:34])
	y := new(big.Int).SetBytes(scr[34:66])
	return (x.Cmp(fp) >= 0 || y.Cmp(fp) >= 0) && onCurve(x, y)
}

// compressedAmountOverflows: the documented formula 1 + 10*(9n + d - 1) + e evaluated
// in unbounded integers does not fit 64 bits.
func compressedAmountOverflows(v uint64) bool {
	if v == 0 {
		return false
	}
	n := new(big.Int).SetUint64(v)
	ten := big.NewInt(10)
	e := int64(0)
	m := new(big.Int)
	for e < 9 && m.Mod(n, ten).Sign() == 0 {
		n.Div(n, ten)
		e++
	}
	x := new(big.Int)
	if e < 9 {
		d := new(big.Int).Mod(n, ten)
		n.Div(n, ten)
		x.Mul(n, big.NewInt(9)).Add(x, d).Sub(x, big.NewInt(1)).Mul(x, ten).Add(x, big.NewInt(1+e))
	} else {
		x.Sub(n, big.NewInt(1)).Mul(x, ten).Add(x, big.NewInt(10))
	}
	return x.BitLen() > 64
}

// amtOverflowFrom is the smallest amount of the form 10n+1 whose compressed form does
// not fit 64 bits (found by bisection on the monotone predicate).
var amtOverflowFrom = func() uint64 {
	lo, hi := uint64(0), uint64(1<<64-1)/10-1
	for lo < hi {
		m := lo + (hi-lo)/2
		if compressedAmountOverflows(10*m + 1) {
			hi = m
		} else {
			lo = m + 1
		}
	}
	return 10*lo + 1
}()

// ---------------------------------------------------------------- script family

type scr struct {
	class string
	b     []byte
}

func p2pk(key []byte) []byte { return append(append([]byte{byte(len(key))}, key...), 0xac) }

func scriptFamily(thorough bool) []scr {
	k := mkKeys()
	var l []scr
	h20 := make([]byte, 20)
	for i := range h20 {
		h20[i] = byte(0x10 + i)
	}
	p2pkh := append(append([]byte{0x76, 0xa9, 0x14}, h20...), 0x88, 0xac)
	p2sh := append(append([]byte{0xa9, 0x14}, h20...), 0x87)
	tmpl := []scr{{"p2pkh", p2pkh}, {"p2sh", p2sh},
		{"p2pk-compressed-02", p2pk(k.compValid)},
		{"p2pk-compressed-03", p2pk(append([]byte{3}, k.compValid[1:]...))},
		{"p2pk-uncompressed-valid", p2pk(k.uncompValid)}}
	l = append(l, tmpl...)
	l = append(l,
		scr{"p2pk-hybrid-06", p2pk(k.hybrid)}, scr{"p2pk-hybrid-07-wrong-parity", p2pk(k.hybridWrongParity)},
		scr{"p2pk-uncompressed-off-curve", p2pk(k.offCurve)}, scr{"p2pk-uncompressed-zero", p2pk(k.zero)},
		scr{"p2pk-uncompressed-x>=p", p2pk(k.xGEp)}, scr{"p2pk-uncompressed-y>=p", p2pk(k.yGEp)},
		scr{"p2pk-compressed-x>=p", p2pk(k.compXGEp)}, scr{"p2pk-compressed-unliftable", p2pk(k.compUnliftable)},
		scr{"p2pk-compressed-x=ff..ff", p2pk(append([]byte{2}, bytes.Repeat([]byte{0xff}, 32)...))},
		scr{"p2pk-uncompressed-ff..ff", p2pk(append([]byte{4}, bytes.Repeat([]byte{0xff}, 64)...))},
	)
	// near misses: one byte of each template changed at each position
	for _, t := range tmpl {
		alts := func(o byte) []byte { return []byte{0x00, o ^ 0x01, 0xff} }
		for p := range t.b {
			if !thorough && len(t.b) == 67 && p > 3 && p < 63 && p != 33 && p != 34 {
				continue // interior key bytes of the 65-byte key: quick keeps the edges
			}
			for _, a := range alts(t.b[p]) {
				if a == t.b[p] {
					continue
				}
				m := append([]byte{}, t.b...)
				m[p] = a
				l = append(l, scr{fmt.Sprintf("near-%s-byte%d", t.class, p), m})
			}
		}
		// one byte longer / shorter
		l = append(l, scr{"near-" + t.class + "-plus1", append(append([]byte{}, t.b...), 0)})
		l = append(l, scr{"near-" + t.class + "-minus1", append([]byte{}, t.b[:len(t.b)-1]...)})
	}
	// plain scripts: lengths at the format's boundaries x first byte 0..6
	lens := []int{0, 1, 5, 6, 7, 20, 21, 22, 32, 33, 34, 246, 247, 252, 253, 65529, 65530, 65535, 65536}
	for _, n := range lens {
		for fb := 0; fb <= 6; fb++ {
			if n == 0 && fb > 0 {
				continue
			}
			b := bytes.Repeat([]byte{0x5a}, n)
			if n > 0 {
				b[0] = byte(fb)
			}
			l = append(l, scr{fmt.Sprintf("plain-len%d-first%d", n, fb), b})
		}
	}
	return l
}

// ---------------------------------------------------------------- amounts

func amountFamily(maxD uint64) []uint64 {
	seen := map[uint64]bool{}
	var l []uint64
	add := func(v uint64) {
		if !seen[v] {
			seen[v] = true
			l = append(l, v)
		}
	}
	add(0)
	for d := uint64(1); d <= maxD; d++ {
		v := d
		for e := 0; e <= 19; e++ {
			add(v)
			if v > (1<<64-1)/10 {
				break
			}
			v *= 10
		}
	}
	for _, v := range []uint64{21e14, 21e14 - 1, 21e14 + 1, 1 << 63, 1<<63 - 1, 1<<64 - 1, 1<<64 - 2, 0xfc, 0xfd, 0xffff, 0x10000, 0xffffffff, 0x100000000,
		amtOverflowFrom - 10, amtOverflowFrom - 1, amtOverflowFrom, amtOverflowFrom + 1, amtOverflowFrom + 9, 1e19, 18e18} {
		add(v)
	}
	return l
}

// ---------------------------------------------------------------- record families

type recSpec struct {
	fam string
	mk  func() *mRec
}

func txid(tag uint32) (h [32]byte) {
	for i := range h {
		h[i] = byte(tag>>uint(8*(i%4))) ^ byte(i*7)
	}
	return
}

// boundaryCounts lists every out-count c <= max for which one of the values the record
// formats encode as a CompactSize - last index c-1, c, c+1, 2c, 2c|1 (count with the
// coinbase flag) - is the last value of one width or the first of the next (252|253,
// 65535|65536), together with the neighbours c-1 and c+1.
func boundaryCounts(max int) []int {
	hit := map[int]bool{}
	for c := 1; c <= max; c++ {
		for _, v := range []int{c - 1, c, c + 1, 2 * c, 2*c + 1} {
			if v == 252 || v == 253 || v == 65535 || v == 65536 {
				for d := -1; d <= 1; d++ {
					if c+d >= 1 && c+d <= max {
						hit[c+d] = true
					}
				}
			}
		}
	}
	var l []int
	for c := range hit {
		l = append(l, c)
	}
	sort.Ints(l)
	return l
}

func survivorSets(n int) (names []string, sets [][]int) {
	if n <= 3 {
		for m := 0; m < 1<<uint(n); m++ {
			var s []int
			for i := 0; i < n; i++ {
				if m>>uint(i)&1 == 1 {
					s = append(s, i)
				}
			}
			names = append(names, fmt.Sprintf("mask%d", m))
			sets = append(sets, s)
		}
		return
	}
	all := make([]int, n)
	var alt []int
	for i := range all {
		all[i] = i
		if i%2 == 0 {
			alt = append(alt, i)
		}
	}
	names = []string{"first", "last", "alternating", "middle", "all", "last-two", "none"}
	sets = [][]int{{0}, {n - 1}, alt, {n / 2}, all, {n - 2, n - 1}, {}}
	if n > 253 {
		names = append(names, "index-252-253")
		sets = append(sets, []int{252, 253})
	}
	return
}

func recordFamilies(thorough bool) []recSpec {
	var l []recSpec
	scripts := scriptFamily(thorough)
	byClass := map[string][]byte{}
	for _, s := range scripts {
		byClass[s.class] = s.b
	}
	cyc := []string{"p2pkh", "p2sh", "p2pk-compressed-02", "p2pk-uncompressed-valid", "plain-len1-first0", "plain-len0-first0", "plain-len253-first6", "p2pk-compressed-03"}
	cycAm := []uint64{0, 1, 546, 5000000000, 21e14, 12345678, 100000000, 0xfd}
	// F1: shapes
	// 1..3 (all survivor subsets), the pool-size constant of SerializeC (30001 values =
	// 15000 outputs with flag), and every count at which a CompactSize the formats derive
	// from it changes width
	counts := append([]int{1, 2, 3, 15000, 15001, 30000, 30001, 30002}, boundaryCounts(65537)...)
	sort.Ints(counts)
	heights := []uint32{0, 1, 252, 253, 65535, 65536, 0xffffffff}
	tag := uint32(1)
	for _, n := range counts {
		names, sets := survivorSets(n)
		for si, set := range sets {
			hs := heights
			if n > 254 {
				hs = []uint32{0, 65536}
				if thorough {
					hs = []uint32{0, 253, 65536}
				}
			}
			for _, h := range hs {
				for _, cb := range []bool{false, true} {
					n, set, h, cb, t := n, set, h, cb, tag
					name := fmt.Sprintf("shape/outs%d/%s/height%d/cb%v", n, names[si], h, cb)
					l = append(l, recSpec{"shape", func() *mRec {
						r := &mRec{Name: name, TxID: txid(t), Height: h, Coinbase: cb, Outs: make([]*mOut, n)}
						for _, i := range set {
							c := cyc[i%len(cyc)]
							r.Outs[i] = &mOut{Value: cycAm[(i/len(cyc))%len(cycAm)] + uint64(i), Script: byClass[c], Class: c}
						}
						return r
					}})
					tag++
				}
			}
		}
	}
	// F2: scripts x amounts x coinbase x layout
	am := []uint64{0, 1, 546, 21e14, 0xfc, 0xfd, 0xffff, 0x10000, 123456789, 5e9, 1e8, 99999999, 10, 90, 900, 1<<32 - 1}
	if thorough {
		am = append(am, 0x100000000, 2, 9, 11, 99, 101, 1e3, 1e9, 1e10, 1e15, 2099999997690000, 1<<53+1)
	}
	for _, s := range scripts {
		for _, a := range am {
			for _, cb := range []bool{false, true} {
				for lay := 0; lay < 3; lay++ {
					s, a, cb, lay, t := s, a, cb, lay, tag
					name := fmt.Sprintf("script/%s/amount%d/cb%v/layout%d", s.class, a, cb, lay)
					l = append(l, recSpec{"script", func() *mRec {
						r := &mRec{Name: name, TxID: txid(t), Height: 500000, Coinbase: cb}
						o := &mOut{Value: a, Script: s.b, Class: s.class}
						switch lay {
						case 0:
							r.Outs = []*mOut{o}
						case 1: // middle survivor of three
							r.Outs = []*mOut{nil, o, nil}
						default: // followed by another live output: the decoder must find its end
							r.Outs = []*mOut{o, {Value: 7, Script: []byte{0x51}, Class: "plain"}}
						}
						return r
					}})
					tag++
				}
			}
		}
	}
	// F3: amounts
	maxD := uint64(10000)
	if thorough {
		maxD = 100000
	}
	for _, a := range amountFamily(maxD) {
		for _, c := range []string{"p2pkh", "plain-len1-first0"} {
			a, c, t := a, c, tag
			name := fmt.Sprintf("amount/%d/%s", a, c)
			l = append(l, recSpec{"amount", func() *mRec {
				return &mRec{Name: name, TxID: txid(t), Height: 1, Outs: []*mOut{{Value: a, Script: byClass[c], Class: c}}}
			}})
			tag++
		}
	}
	return l
}

// ---------------------------------------------------------------- evaluation

type violation struct {
	Key, What string
}

type recResult struct {
	Viol    []violation
	Classes []string
	Size    int
}

func tryRec(name string, f func()) (p string) {
	defer func() {
		if r := recover(); r != nil {
			s := fmt.Sprint(r)
			var b strings.Builder
			prev := false
			for _, c := range s {
				if c >= '0' && c <= '9' {
					if !prev {
						b.WriteByte('#')
					}
					prev = true
					continue
				}
				prev = false
				b.WriteRune(c)
			}
			p = name + ":" + b.String()
		}
	}()
	f()
	return ""
}

var bigBuf = make([]byte, 8<<20)

type fmtFns struct {
	name string
	ser  func(*utxo.UtxoRec, []byte) *[]byte
	dec  func([]byte, *utxo.UtxoRec, *utxo.NewUtxoOutAllocCbs)
	one  func([]byte, uint32) *btc.TxOut
}

var formats = []fmtFns{
	{"U", utxo.SerializeU, utxo.NewUtxoRecOwnU, utxo.OneUtxoRecU},
	{"C", utxo.SerializeC, utxo.NewUtxoRecOwnC, utxo.OneUtxoRecC},
}

// scriptKey names a script (or amount) difference by the shape of what was stored.
func diffKey(f string, o *mOut, gotVal uint64, gotScr []byte) (key, what string) {
	if gotVal != o.Value {
		if f == "C" && compressedAmountOverflows(o.Value) {
			return "recC/amount-compression-overflow", fmt.Sprintf("amount %d comes back as %d: btc.CompressAmount computes 1+10*(9n+d-1)+e in uint64, which wraps for amounts above about 2^64/9 (first amount of the form 10n+1 that wraps: %d)", o.Value, gotVal, amtOverflowFrom)
		}
		return "rec" + f + "/amount-mismatch", fmt.Sprintf("amount %d comes back as %d", o.Value, gotVal)
	}
	if f == "C" && noncanonicalP2PK(o.Script) {
		return "recC/p2pk-noncanonical-key-rewritten", fmt.Sprintf("P2PK script %x comes back as %x: script.IsP2PK accepts an uncompressed key whose coordinate is >= p (ParsePubkey reduces it mod p, IsValid then holds), CompressScript keeps only X and the parity of the unreduced Y, DecompressScript writes the reduced coordinates", o.Script, gotScr)
	}
	cl := o.Class
	if i := strings.Index(cl, "-byte"); i > 0 && strings.HasPrefix(cl, "near-") {
		cl = cl[:i]
	}
	a, b := hex.EncodeToString(o.Script), hex.EncodeToString(gotScr)
	if len(a) > 160 {
		a = a[:160] + "..."
	}
	if len(b) > 160 {
		b = b[:160] + "..."
	}
	return "rec" + f + "/script-changed/" + cl, fmt.Sprintf("script (%d bytes) %s comes back as (%d bytes) %s", len(o.Script), a, len(gotScr), b)
}

func lookupVouts(n int, r *mRec) []uint32 {
	if n <= 254 {
		v := make([]uint32, 0, n+3)
		for i := 0; i <= n+1; i++ {
			v = append(v, uint32(i))
		}
		return append(v, 0xffffffff)
	}
	m := map[uint32]bool{}
	for _, i := range []int{0, 1, 2, 251, 252, 253, 254, n/2 - 1, n / 2, n/2 + 1, n - 2, n - 1, n, n + 1} {
		m[uint32(i)] = true
	}
	m[0xffffffff] = true
	// neighbours of the first and last survivors
	first, last := -1, -1
	for i, o := range r.Outs {
		if o != nil {
			if first < 0 {
				first = i
			}
			last = i
		}
	}
	for _, i := range []int{first - 1, first, first + 1, last - 1, last, last + 1} {
		if i >= 0 {
			m[uint32(i)] = true
		}
	}
	var v []uint32
	for i := 0; i <= n+1; i++ {
		if m[uint32(i)] {
			v = append(v, uint32(i))
		}
	}
	return append(v, 0xffffffff)
}

var staPool []utxo.UtxoTxOut
var staOuts []*utxo.UtxoTxOut
var staIdx int
var staCbs = utxo.NewUtxoOutAllocCbs{
	OutsList: func(cnt int) []*utxo.UtxoTxOut {
		if len(staOuts) < cnt {
			staOuts = make([]*utxo.UtxoTxOut, cnt)
			staPool = make([]utxo.UtxoTxOut, cnt)
		}
		staIdx = 0
		r := staOuts[:cnt]
		for i := range r {
			r[i] = nil
		}
		return r
	},
	OneOut: func() *utxo.UtxoTxOut {
		r := &staPool[staIdx]
		staIdx++
		return r
	},
}

func evalRecord(r *mRec) (res recResult) {
	add := func(k, w string) {
		for _, v := range res.Viol {
			if v.Key == k {
				return
			}
		}
		res.Viol = append(res.Viol, violation{k, w})
	}
	surv := r.survivors()
	for _, f := range formats {
		u := r.toImpl()
		var buf, buf2 *[]byte
		if p := tryRec("Serialize"+f.name, func() {
			buf = f.ser(u, nil)
			buf2 = f.ser(r.toImpl(), bigBuf)
		}); p != "" {
			add("rec"+f.name+"/panic/"+p, "panic while serialising "+r.Name)
			continue
		}
		if surv == 0 {
			if buf != nil || buf2 != nil {
				add("rec"+f.name+"/all-spent-record-serialised", "a record without live outputs is serialised")
			}
			res.Classes = append(res.Classes, f.name+":all-spent-not-stored")
			continue
		}
		if buf == nil || buf2 == nil {
			add("rec"+f.name+"/live-record-not-serialised", "Serialize returns nil for a record with live outputs")
			continue
		}
		if !bytes.Equal(*buf, *buf2) {
			add("rec"+f.name+"/use-buf-differs", "Serialize(rec,nil) and Serialize(rec,buf) give different bytes")
		}
		data := make([]byte, len(*buf)) // cap == len
		copy(data, *buf)
		res.Size += len(data)
		// the input record must not have been modified
		for i, o := range r.Outs {
			if (o == nil) != (u.Outs[i] == nil) || (o != nil && (u.Outs[i].Value != o.Value || !bytes.Equal(u.Outs[i].PKScr, o.Script))) {
				add("rec"+f.name+"/serialize-modifies-input", "Serialize changed the record it was given")
				break
			}
		}
		// full decode, heap and pooled allocation
		for _, cbs := range []*utxo.NewUtxoOutAllocCbs{nil, &staCbs} {
			var d utxo.UtxoRec
			if p := tryRec("NewUtxoRecOwn"+f.name, func() { f.dec(data, &d, cbs) }); p != "" {
				add("rec"+f.name+"/panic/"+p, "panic while decoding the serialisation of "+r.Name)
				continue
			}
			if d.TxID != r.TxID {
				add("rec"+f.name+"/txid-mismatch", "txid differs")
			}
			if d.InBlock != r.Height {
				add("rec"+f.name+"/height-mismatch", fmt.Sprintf("height %d comes back as %d", r.Height, d.InBlock))
			}
			if d.Coinbase != r.Coinbase {
				add("rec"+f.name+"/coinbase-flag-mismatch", fmt.Sprintf("coinbase %v comes back as %v", r.Coinbase, d.Coinbase))
			}
			if len(d.Outs) != len(r.Outs) {
				add("rec"+f.name+"/out-count-mismatch", fmt.Sprintf("%d outputs come back as %d", len(r.Outs), len(d.Outs)))
				continue
			}
			for i, o := range r.Outs {
				g := d.Outs[i]
				if (o == nil) != (g == nil) {
					add("rec"+f.name+"/survivor-set-mismatch", fmt.Sprintf("output %d of %d: stored live=%v, decoded live=%v", i, len(r.Outs), o != nil, g != nil))
					break
				}
				if o != nil && (g.Value != o.Value || !bytes.Equal(g.PKScr, o.Script)) {
					k, w := diffKey(f.name, o, g.Value, g.PKScr)
					add(k, fmt.Sprintf("output %d: %s", i, w))
					break
				}
			}
		}
		// single-output lookup = projection of the full record
		for _, v := range lookupVouts(len(r.Outs), r) {
			var got *btc.TxOut
			if p := tryRec("OneUtxoRec"+f.name, func() { got = f.one(data, v) }); p != "" {
				add("one"+f.name+"/panic/"+p, fmt.Sprintf("panic in OneUtxoRec%s(vout=%d)", f.name, v))
				continue
			}
			var want *mOut
			if int64(v) < int64(len(r.Outs)) {
				want = r.Outs[v]
			}
			if want == nil {
				if got != nil {
					add("one"+f.name+"/spent-or-absent-vout-returned", fmt.Sprintf("OneUtxoRec%s(vout=%d) returns an output; the record has %d outputs and that one is not live", f.name, v, len(r.Outs)))
				}
				continue
			}
			if got == nil {
				add("one"+f.name+"/live-vout-not-found", fmt.Sprintf("OneUtxoRec%s(vout=%d) returns nil for a live output (%d outputs)", f.name, v, len(r.Outs)))
				continue
			}
			if got.Value != want.Value || !bytes.Equal(got.Pk_script, want.Script) {
				k, w := diffKey(f.name, want, got.Value, got.Pk_script)
				if k != "recC/amount-compression-overflow" && k != "recC/p2pk-noncanonical-key-rewritten" {
					k = strings.Replace(k, "rec", "one", 1) // same root causes keep their key
				}
				add(k, fmt.Sprintf("OneUtxoRec%s(vout=%d): %s", f.name, v, w))
			}
			if got.BlockHeight != r.Height || got.WasCoinbase != r.Coinbase || int(got.VoutCount) != len(r.Outs) {
				add("one"+f.name+"/header-fields-mismatch", fmt.Sprintf("OneUtxoRec%s(vout=%d): height %d coinbase %v count %d, want %d %v %d", f.name, v, got.BlockHeight, got.WasCoinbase, got.VoutCount, r.Height, r.Coinbase, len(r.Outs)))
			}
		}
		res.Classes = append(res.Classes, f.name+":stored")
	}
	return
}
