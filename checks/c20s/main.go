// C20 (concurrent part): Malloc / Free from several goroutines on one allocator.
// lib/others/memory runs under the controlled scheduler (per-class mutexes, atomic
// counters, the page-cache channel and its refill goroutine are scheduling points);
// every interleaving up to a deviation bound is executed and the oracle of C20 (exact
// len, sufficient cap, disjoint footprints, contents kept, Allocs == live) is applied to
// every thread's allocations at the end of every execution, plus per operation inside it.
package main

import (
	"flag"
	"fmt"
	"os"
	"os/exec"
	"runtime"
	"strings"
	"sync"
	"time"

	"github.com/piotrnar/gocoin/lib/others/memory"
	"github.com/piotrnar/gocoin/lib/others/vshim/vsched"

	"verif/internal/ev"
	"verif/internal/explore"
)

// op: positive = Malloc(size), negative = Free(the -op'th live slot of this thread, 1-based)
type scen struct {
	name    string
	prelude []int   // executed by the main thread before the workers start
	threads [][]int // per worker thread
	pfree   []int   // prelude slots (1-based) that a worker frees: thread index -> slot, 0 = none
	qb, tb  int
}

const big = 131040 // largest shared class: few slots per page, so page exhaustion is near

func scenarios() []scen {
	return []scen{
		{name: "one-class", threads: [][]int{{100, 100, -1}, {100, -1}, {100, 100}}, qb: 2, tb: 3},
		{name: "two-classes", threads: [][]int{{100, 5000, -1}, {5000, -1}, {100}}, qb: 2, tb: 3},
		// the class's bump page is full (7 slots of the largest class), so Malloc is served from the free list
		{name: "free-list-reuse", prelude: []int{big, big, big, big, big, big, big, -2, -3}, threads: [][]int{{big}, {big, -1}, {}}, pfree: []int{0, 0, 1}, qb: 2, tb: 3},
		{name: "free-list-drained", prelude: []int{big, big, big, big, big, big, big, -5}, threads: [][]int{{big}, {big}, {}}, pfree: []int{0, 0, 2}, qb: 2, tb: 3},
		{name: "page-exhaustion", prelude: []int{big, big, big, big, big, big}, threads: [][]int{{big, big}, {big, -1}, {}}, pfree: []int{0, 0, 3}, qb: 2, tb: 3},
		{name: "private-and-shared", threads: [][]int{{200000, -1, 100}, {200000, 100, -1}, {100}}, qb: 2, tb: 2},
	}
}

type execState struct {
	a   *memory.Allocator
	trs []*Tracker
	err *Fail
}

func (st *execState) fail(f *Fail) {
	if f != nil && st.err == nil {
		st.err = f
	}
}

func doOps(st *execState, t *Tracker, ops []int) {
	for _, o := range ops {
		if st.err != nil {
			return
		}
		if o >= 0 {
			_, f := t.Malloc(o)
			st.fail(f)
		} else {
			i := -o - 1
			if i < len(t.Live) {
				st.fail(t.Free(t.Live[i]))
			}
		}
	}
}

func runScen(sc scen, choose vsched.Chooser) (*vsched.Sched, string, string) {
	st := &execState{}
	vsched.Demotion = true // "starve this thread" is one decision (see vsched)
	body := func() {
		st.a = memory.NewAllocator() // starts the page-cache refill goroutine (a controlled thread)
		pre := NewTracker(st.a, 99)
		st.trs = append(st.trs, pre)
		st.fail(Protect(func() *Fail { doOps(st, pre, sc.prelude); return nil }))
		for i := range sc.threads {
			t := NewTracker(st.a, uint32(i+1))
			st.trs = append(st.trs, t)
			i, t := i, t
			vsched.Go(func() {
				st.fail(Protect(func() *Fail {
					doOps(st, t, sc.threads[i])
					if i < len(sc.pfree) && sc.pfree[i] > 0 && sc.pfree[i]-1 < len(pre.Live) {
						// frees an allocation made by the prelude (another owner): the slot moves
						s := pre.Live[sc.pfree[i]-1]
						if f := pre.Free(s); f != nil {
							return f
						}
					}
					return nil
				}))
			})
		}
	}
	s := vsched.Run(body, choose, 20000)
	errs := ""
	if s.Deadlock == "" && s.Panic == "" {
		live := 0
		f := Protect(func() *Fail {
			for _, t := range st.trs {
				if f := t.CheckOwn(); f != nil {
					return f
				}
				live += t.LiveCount()
			}
			if f := CheckDisjointAcross(st.trs); f != nil {
				return f
			}
			return CheckAllocs(st.a, live)
		})
		st.fail(f)
		if st.err != nil {
			errs = st.err.Kind + ": " + st.err.What
		}
		// give everything back: private mappings through Free, shared pages and the cache directly
		ctl(func() {
			for _, t := range st.trs {
				for len(t.Live) > 0 && st.err == nil {
					if t.Live[0].Size > memMaxShared {
						t.Free(t.Live[0])
					} else {
						t.Live = t.Live[1:]
					}
				}
			}
		})
		st.a.VerifReleaseAll()
	}
	return s, "ok", errs
}

const memMaxShared = 131040

func ctl(f func()) {
	s := vsched.Run(f, func(string, int, string) int { return 0 }, 1<<30)
	if s.Deadlock != "" || s.Panic != "" {
		ev.HarnessError("teardown under the scheduler failed: %s %s", s.Deadlock, explore.Short(s.Panic, 300))
	}
}

func classify(name string) explore.Classifier {
	return func(x, def *explore.Exec) *explore.Viol {
		mk := func(k, w string) *explore.Viol {
			return &explore.Viol{Key: "concurrent/" + name + "/" + k, What: w, Scenario: name}
		}
		switch {
		case x.Panic != "":
			return mk("panic", explore.Short(x.Panic, 500))
		case x.Horizon:
			return nil
		case x.Deadlock != "":
			return mk("deadlock", x.Deadlock)
		case x.Err != "":
			return mk(strings.SplitN(x.Err, ":", 2)[0], x.Err)
		}
		return nil
	}
}

var (
	worker   = flag.String("worker", "", "internal: scenario to explore (prefixes on stdin)")
	bound    = flag.Int("bound", 2, "deviation bound")
	racePass = flag.Int("racepass", 0, "internal: free-running iterations (binary built with -race)")
)

func raceMain(iters int) {
	for it := 0; it < iters; it++ {
		for _, sc := range scenarios() {
			st := &execState{a: memory.NewAllocator()}
			pre := NewTracker(st.a, 99)
			doOps(st, pre, sc.prelude)
			var wg sync.WaitGroup
			var mu sync.Mutex
			trs := []*Tracker{pre}
			for i := range sc.threads {
				t := NewTracker(st.a, uint32(i+1))
				trs = append(trs, t)
				wg.Add(1)
				go func(i int, t *Tracker) {
					defer wg.Done()
					loc := &execState{a: st.a}
					doOps(loc, t, sc.threads[i])
					if loc.err != nil {
						mu.Lock()
						st.fail(loc.err)
						mu.Unlock()
					}
				}(i, t)
			}
			wg.Wait()
			live := 0
			for _, t := range trs {
				st.fail(t.CheckOwn())
				live += t.LiveCount()
			}
			st.fail(CheckDisjointAcross(trs))
			st.fail(CheckAllocs(st.a, live))
			if st.err != nil {
				fmt.Fprintln(ev.Out, "racepass-fail", sc.name, st.err.Kind, st.err.What)
			}
			for _, t := range trs {
				for _, s := range t.Live {
					if s.Size > memMaxShared {
						st.a.Free(s.P())
					}
				}
			}
			st.a.VerifReleaseAll()
		}
	}
	fmt.Fprintln(ev.Out, "racepass-done")
}

func main() {
	for _, a := range os.Args[1:] {
		if strings.HasPrefix(a, "--racepass") {
			flag.Parse()
			raceMain(*racePass)
			return
		}
	}
	r := ev.Start("C20", "model_checking")
	if *worker != "" {
		for _, sc := range scenarios() {
			if sc.name == *worker {
				sc := sc
				explore.WorkerMain(func(ch vsched.Chooser) (*vsched.Sched, string, string) { return runScen(sc, ch) }, *bound, classify(sc.name), ev.Out)
				os.Exit(0)
			}
		}
		ev.HarnessError("unknown scenario")
	}
	total, maxPts := 0, 0
	t0 := time.Now()
	per := map[string]interface{}{}
	var samples []interface{}
	for _, sc := range scenarios() {
		sc := sc
		B := sc.qb
		if r.Thorough() {
			B = sc.tb
		}
		run := func(ch vsched.Chooser) (*vsched.Sched, string, string) { return runScen(sc, ch) }
		exe, _ := os.Executable()
		def, res, err := explore.Sharded(run, B, runtime.NumCPU(), classify(sc.name), exe, []string{"--worker", sc.name, "--bound", fmt.Sprint(B), "--tier", r.Tier})
		if err != nil {
			ev.HarnessError("scenario %s: %v", sc.name, err)
		}
		if def.Horizon {
			ev.HarnessError("scenario %s: horizon hit by the default schedule", sc.name)
		}
		for _, v := range res.Viol {
			r.Report(v.Key, v.What, v)
		}
		total += res.Execs
		if res.MaxPoints > maxPts {
			maxPts = res.MaxPoints
		}
		per[sc.name] = map[string]interface{}{"schedules": res.Execs, "per_deviation_count": res.PerBound, "decision_points_max": res.MaxPoints, "deviation_bound": B, "horizon_hits": res.Horizon}
		samples = append(samples, map[string]interface{}{"scenario": sc.name, "prelude": sc.prelude, "threads": sc.threads, "prelude_slot_freed_by_thread": sc.pfree})
	}
	fmt.Fprintf(os.Stderr, "explore %v\n", time.Since(t0))
	raceRuns, raceReports := 0, 0
	if bin := ev.OutDir() + "/bin/c20s-race"; fileExists(bin) {
		iters := 30
		if r.Thorough() {
			iters = 400
		}
		for _, procs := range []string{"4", "16"} {
			cmd := exec.Command(bin, fmt.Sprint("--racepass=", iters))
			cmd.Env = append(os.Environ(), "GOMAXPROCS="+procs, "GORACE=halt_on_error=0 exitcode=0")
			var werr strings.Builder
			cmd.Stderr = &werr
			out, err := cmd.Output()
			if (err != nil || !strings.Contains(string(out), "racepass-done")) && strings.Contains(werr.String(), "gocoin/lib/others/memory.") &&
				(strings.Contains(werr.String(), "fatal error") || strings.Contains(werr.String(), "panic:")) {
				r.Report("concurrent/free-running-crash", "the free-running pass of the same scenarios crashed inside lib/others/memory: "+explore.Short(werr.String(), 1200), map[string]interface{}{"gomaxprocs": procs})
				continue
			}
			if err != nil || !strings.Contains(string(out), "racepass-done") {
				ev.HarnessError("race pass failed: %v %s", err, explore.Short(werr.String(), 800))
			}
			raceRuns += iters * len(scenarios())
			if i := strings.Index(string(out), "racepass-fail"); i >= 0 {
				r.Report("concurrent/free-running-oracle-failed", explore.Short(string(out)[i:], 400), nil)
			}
			for _, rep := range strings.Split(werr.String(), "WARNING: DATA RACE")[1:] {
				raceReports++
				if strings.Contains(rep, "gocoin/lib/others/memory") {
					r.Report("concurrent/data-race", "Go race detector report: "+explore.Short(rep, 1200), map[string]interface{}{"gomaxprocs": procs})
				}
			}
		}
	}
	fmt.Fprintf(os.Stderr, "explore done %v\n", time.Since(t0))
	r.Finish(map[string]interface{}{
		"states":                        len(per),
		"transitions":                   total,
		"schedules":                     total,
		"decision_points_max":           maxPts,
		"scenarios":                     per,
		"traces_validated_against_impl": total,
		"race_pass_runs":                raceRuns,
		"race_pass_reports":             raceReports,
		"samples":                       samples,
		"exhaustive":                    true,
		"rule":                          "per scenario (one class, two classes, free-list reuse incl. a cross-thread free, page exhaustion with the refill goroutine, private + shared mappings) three worker threads with 1-3 Malloc/Free operations each on one allocator; every schedule with at most deviation_bound non-default decisions at the allocator's own synchronisation operations; oracle per operation and over all threads' live allocations at the end",
	}, []string{"scheduling points are synchronisation operations only (DRF assumption); the free-running race-detector pass covers unsynchronised accesses", "DefragAllImproved is not run concurrently (documented contract)"})
}

func fileExists(p string) bool { _, err := os.Stat(p); return err == nil }
