#!/bin/bash
# overlay.sh <builddir> <overlay.json> <repo>: lib/others/memory under the controlled
# scheduler, plus an accessor that gives every mapping back to the OS after an execution.
set -e
bd="$1"; ov="$2"; repo="$3"
export GOFLAGS=-mod=mod GOPROXY=off GOSUMDB=off GOTOOLCHAIN=local
if [ ! -x /verif/bin/vrewrite ] || [ /verif/tools/vrewrite/main.go -nt /verif/bin/vrewrite ]; then
  (cd /verif/tools/vrewrite && go build -o /verif/bin/vrewrite .)
fi
rm -rf "$bd/vrw"
/verif/bin/vrewrite -repo "$repo" -out "$bd" -overlay "$ov" lib/others/memory 2> "$bd/vrewrite.log" || { cat "$bd/vrewrite.log" >&2; exit 1; }
cat > "$bd/c20s_release.go" <<'EOG'
package memory

import "unsafe"

// VerifReleaseAll (verification harness only, added by build overlay): unmaps every
// shared page of every class and every cached page. Call only when no allocation of
// this allocator is used any more and no goroutine is inside it.
func (a *Allocator) VerifReleaseAll() (pages int) {
	for c := range a.firstPage {
		for p := a.firstPage[c]; p != 0; {
			next := (*page_header)(unsafe.Pointer(p)).next
			unmap(p, pageSize)
			pages++
			p = next
		}
		a.firstPage[c], a.lastPage[c], a.pages[c], a.lists[c] = 0, 0, 0, 0
	}
	for {
		select {
		case p := <-a.pageCache:
			unmap(p, pageSize)
			pages++
		default:
			return
		}
	}
}
EOG
python3 - "$ov" "$repo/lib/others/memory/c20s_release.go" "$bd/c20s_release.go" <<'EOP'
import json, sys
ov, virt, real = sys.argv[1:4]
d = json.load(open(ov))
d.setdefault("Replace", {})[virt] = real
json.dump(d, open(ov, "w"))
EOP
