// scen.go — reusable harness bodies for the UTXO allocator (property C20).
//
// Everything in this file depends only on the standard library and on
// gocoin's lib/others/memory. It knows nothing about the explorer, the verdict
// protocol or worker processes, so the controlled-scheduler scenarios (Engine B)
// can copy/import it unchanged: one Tracker per logical thread, the closures
// Tracker.Malloc / Tracker.Free / Tracker.CheckAll as thread bodies, and
// CheckDisjointAcross + CheckAllocs at the barriers.
//
// Oracle (all of it is what the property statement says, nothing more):
//   - Malloc(n) returns a slice with len == n and cap >= n whose whole capacity
//     is addressable memory;
//   - the address ranges of live allocations (slice header as stored by the
//     allocator in front of the data + data up to cap) are pairwise disjoint;
//   - every live allocation keeps exactly the bytes last written to it (a
//     position-dependent fill pattern that is unique per allocation), and the
//     slice header the caller's *[]byte points at stays (data,len,cap);
//   - Allocator.Allocs equals the number of live allocations;
//   - the relocation callback of DefragAllImproved is invoked exactly once per
//     moved allocation, with the new slice holding the old bytes (same len,
//     cap >= len), never for allocations that stay where they are.
//
// A Tracker is NOT safe for concurrent use (one per thread); the relocation
// callback installed by Tracker.Defrag is (DefragAllImproved runs one goroutine
// per size class and calls it from all of them).
package main

import (
	"fmt"
	"runtime/debug"
	"sort"
	"sync"
	"unsafe"

	"github.com/piotrnar/gocoin/lib/others/memory"
)

// hdrLen is the size of the slice header ([]byte) the allocator keeps in front
// of every allocation: Malloc returns a *[]byte that points INTO the mapped
// memory, so those 24 bytes belong to the allocation's footprint as well.
const hdrLen = int(unsafe.Sizeof([]byte{}))

// Fail is one oracle failure. Kind is a short stable class name (used to build
// violation keys), What the human readable detail.
type Fail struct {
	Kind string
	What string
}

func (f *Fail) Error() string { return f.Kind + ": " + f.What }

func failf(kind, format string, a ...interface{}) *Fail {
	return &Fail{Kind: kind, What: fmt.Sprintf(format, a...)}
}

// Slot is one allocation the harness believes to be live.
type Slot struct {
	ID    uint32  // ordinal of the allocation inside its Tracker; seeds the fill pattern
	Size  int     // requested size
	Hdr   uintptr // address Malloc (or the relocation callback) returned: where the allocator keeps the slice header
	Data  uintptr // data pointer read from the header when it was returned
	Cap   int     // capacity read from the header when it was returned
	Moved int     // number of relocations seen for this allocation
	seed  uint64
	// unfilled: allocated by MallocLight — no pattern was written, only the header
	// is verified (used for allocations whose contents an earlier, fully checked
	// execution of the same deterministic prefix has already judged).
	unfilled bool
}

// P is the *[]byte the allocator handed out. It is kept as an address (the memory
// is mapped, not Go heap) so that slot tables contain no pointers for the Go
// garbage collector to chase.
func (s *Slot) P() *[]byte { return (*[]byte)(unsafe.Pointer(s.Hdr)) }

// ranges returns the address ranges that make up the allocation's footprint.
func (s *Slot) ranges() [][2]uintptr {
	if s.Data == s.Hdr+uintptr(hdrLen) {
		return [][2]uintptr{{s.Hdr, s.Data + uintptr(s.Cap)}}
	}
	return [][2]uintptr{{s.Hdr, s.Hdr + uintptr(hdrLen)}, {s.Data, s.Data + uintptr(s.Cap)}}
}

// dataPtr reads the data pointer of the slice header p designates.
func dataPtr(p *[]byte) uintptr { return (*[3]uintptr)(unsafe.Pointer(p))[0] }

// rawLenCap reads len and cap of the slice header p designates as plain words.
// NOT len(*p)/cap(*p): the Go compiler knows len <= cap for every slice and
// deletes a "cap(*p) < n" test that follows a "len(*p) == n" test as dead code,
// while the allocator writes these headers by hand and can get them wrong.
func rawLenCap(p *[]byte) (int, int) {
	h := (*[3]uintptr)(unsafe.Pointer(p))
	return int(h[1]), int(h[2])
}

// uintptrOf is the address Malloc returned (where the slice header lives).
func uintptrOf(p *[]byte) uintptr { return uintptr(unsafe.Pointer(p)) }

func splitmix(x uint64) uint64 {
	x += 0x9E3779B97F4A7C15
	x = (x ^ (x >> 30)) * 0xBF58476D1CE4E5B9
	x = (x ^ (x >> 27)) * 0x94D049BB133111EB
	return x ^ (x >> 31)
}

const patStep = 0x9E3779B97F4A7C15

// FillPattern writes the pattern of seed into b: 64-bit word k is seed+k*odd
// constant (little endian), a trailing partial word is the low bytes of the next
// word. Two allocations never share a seed, and the pattern is position
// dependent, so shifted, truncated, stale or foreign contents are all detected.
func FillPattern(b []byte, seed uint64) {
	n := len(b)
	if n == 0 {
		return
	}
	p := unsafe.Pointer(&b[0])
	w := seed
	i := 0
	if uintptr(p)&7 == 0 {
		words := unsafe.Slice((*uint64)(p), n/8)
		for k := range words {
			words[k] = w
			w += patStep
		}
		i = (n / 8) * 8
	}
	for ; i < n; i++ {
		w = seed + uint64(i/8)*patStep
		b[i] = byte(w >> (8 * uint(i&7)))
	}
}

// VerifyPattern returns the first offset at which b differs from the pattern of
// seed, or -1.
func VerifyPattern(b []byte, seed uint64) int {
	n := len(b)
	if n == 0 {
		return -1
	}
	p := unsafe.Pointer(&b[0])
	i := 0
	if uintptr(p)&7 == 0 {
		words := unsafe.Slice((*uint64)(p), n/8)
		w := seed
		for k := range words {
			if words[k] != w {
				for j := 0; j < 8; j++ {
					if b[k*8+j] != byte(w>>(8*uint(j))) {
						return k*8 + j
					}
				}
			}
			w += patStep
		}
		i = (n / 8) * 8
	}
	for ; i < n; i++ {
		w := seed + uint64(i/8)*patStep
		if b[i] != byte(w>>(8*uint(i&7))) {
			return i
		}
	}
	return -1
}

// Protect runs f with faults on mapped-memory addresses turned into panics and
// converts any panic into a Fail (kind "fault" for memory faults, "panic"
// otherwise). A fault inside a goroutine started by the allocator itself
// (DefragAllImproved) is not recoverable here: it kills the process, which the
// caller's parent process classifies.
func Protect(f func() *Fail) (res *Fail) {
	old := debug.SetPanicOnFault(true)
	defer debug.SetPanicOnFault(old)
	defer func() {
		if r := recover(); r != nil {
			msg := fmt.Sprint(r)
			if e, ok := r.(interface{ Addr() uintptr }); ok {
				res = failf("fault", "memory fault at %#x (%s)", e.Addr(), msg)
				return
			}
			if len(msg) > 200 {
				msg = msg[:200]
			}
			res = failf("panic", "%s", msg)
		}
	}()
	return f()
}

// Tracker is the harness-side shadow of the allocations one thread owns.
type Tracker struct {
	A      *memory.Allocator
	Salt   uint32  // distinguishes the patterns of different Trackers on one allocator
	Live   []*Slot // live allocations in allocation order
	BG     []Slot  // background allocations (fixed after SealBG): checked, never freed by scripts
	bgr    [][2]uintptr
	nextID uint32
	// Touched collects the base address (hdr) of everything ever returned, for
	// clean-up by the caller (pages are found from these).
	Touched func(hdr uintptr, cap int)
	Ops     int // operations performed (Malloc + Free)
}

// NewTracker returns an empty tracker bound to a.
func NewTracker(a *memory.Allocator, salt uint32) *Tracker {
	return &Tracker{A: a, Salt: salt}
}

// Reset forgets everything (the allocator has been discarded or reset); buffers
// are kept for the next execution.
func (t *Tracker) Reset(a *memory.Allocator) {
	t.A = a
	t.Live = t.Live[:0]
	t.BG = t.BG[:0]
	t.bgr = t.bgr[:0]
	t.nextID = 0
	t.Ops = 0
}

func (t *Tracker) seedOf(id uint32) uint64 {
	return splitmix(uint64(t.Salt)<<32 | uint64(id))
}

// adopt reads the header behind p and builds the Slot (no checks).
func (t *Tracker) adopt(p *[]byte, size int) Slot {
	s := Slot{ID: t.nextID, Size: size, Hdr: uintptr(unsafe.Pointer(p))}
	t.nextID++
	s.seed = t.seedOf(s.ID)
	_, s.Cap = rawLenCap(p)
	s.Data = dataPtr(p)
	return s
}

// mallocChecked is the common part of Malloc / MallocLight / MallocBG.
func (t *Tracker) mallocChecked(size int, fill bool) (Slot, *Fail) {
	t.Ops++
	p := t.A.Malloc(size)
	if p == nil {
		return Slot{}, failf("malloc-nil", "Malloc(%d) returned nil (mmap failed?)", size)
	}
	if l, c := rawLenCap(p); l != size {
		return Slot{}, failf("len-mismatch", "Malloc(%d) returned len %d", size, l)
	} else if c < size {
		return Slot{}, failf("cap-too-small", "Malloc(%d) returned cap %d < size", size, c)
	}
	s := t.adopt(p, size)
	if t.Touched != nil {
		t.Touched(s.Hdr, s.Cap)
	}
	if !fill {
		s.unfilled = true
		return s, nil
	}
	// the capacity is memory the caller may use: it must be addressable up to the
	// last byte. (Its contents beyond len are not judged later: relocation only
	// promises the bytes of the slice.)
	if s.Cap > size {
		full := (*p)[:s.Cap]
		full[s.Cap-1] = 0xA5
		full[size] = 0x5A
	}
	FillPattern(*p, s.seed)
	return s, nil
}

// Malloc performs A.Malloc(size), checks the returned slice (non-nil, len ==
// size, cap >= size, whole capacity writable), fills it with its unique pattern
// and records it as live. On failure the slot is not recorded.
func (t *Tracker) Malloc(size int) (*Slot, *Fail) {
	v, f := t.mallocChecked(size, true)
	if f != nil {
		return nil, f
	}
	s := &v
	t.Live = append(t.Live, s)
	return s, nil
}

// MallocLight is Malloc without writing the pattern (len/cap are still checked,
// the header is still verified by CheckSlot/Free). For replayed prefixes only.
func (t *Tracker) MallocLight(size int) (*Slot, *Fail) {
	v, f := t.mallocChecked(size, false)
	if f != nil {
		return nil, f
	}
	s := &v
	t.Live = append(t.Live, s)
	return s, nil
}

// MallocBG performs n Mallocs (sizes cycled) straight into the background set,
// without a heap object per allocation (page-filling preludes allocate ~10^4
// slots per execution). each, if not nil, sees every new slot. Call SealBG after.
func (t *Tracker) MallocBG(sizes []int, n int, fill bool, each func(*Slot)) *Fail {
	if cap(t.BG)-len(t.BG) < n {
		nb := make([]Slot, len(t.BG), len(t.BG)+n)
		copy(nb, t.BG)
		t.BG = nb
	}
	for i := 0; i < n; i++ {
		v, f := t.mallocChecked(sizes[i%len(sizes)], fill)
		if f != nil {
			return f
		}
		t.BG = append(t.BG, v)
		if each != nil {
			each(&t.BG[len(t.BG)-1])
		}
	}
	return nil
}

// FreeBG frees background slot i (verifying it first) and removes it from the set
// (order of the rest is kept). Call SealBG afterwards.
func (t *Tracker) FreeBG(i int) *Fail {
	t.Ops++
	s := t.BG[i]
	if f := t.CheckSlot(&s); f != nil {
		return f
	}
	t.BG = append(t.BG[:i], t.BG[i+1:]...)
	t.A.Free(s.P())
	return nil
}

// CheckSlot verifies one live slot: the header the caller's pointer designates
// is unchanged (data pointer, len, cap) and the bytes are the pattern.
func (t *Tracker) CheckSlot(s *Slot) *Fail {
	if l, c := rawLenCap(s.P()); l != s.Size || c != s.Cap || dataPtr(s.P()) != s.Data {
		return failf("header-changed", "live allocation #%d size %d: slice header is now (len %d, cap %d), was (len %d, cap %d)",
			s.ID, s.Size, l, c, s.Size, s.Cap)
	}
	b := *s.P()
	if s.unfilled {
		return nil
	}
	if off := VerifyPattern(b, s.seed); off >= 0 {
		return failf("content-corrupted", "live allocation #%d size %d (cap %d, moved %d times): byte %d differs from what was written",
			s.ID, s.Size, s.Cap, s.Moved, off)
	}
	return nil
}

// Free verifies the slot one last time ("fill patterns checked on free"),
// removes it from Live and calls A.Free.
func (t *Tracker) Free(s *Slot) *Fail {
	t.Ops++
	if f := t.CheckSlot(s); f != nil {
		return f
	}
	for i, l := range t.Live {
		if l == s {
			t.Live = append(t.Live[:i], t.Live[i+1:]...)
			t.A.Free(s.P())
			return nil
		}
	}
	return failf("harness", "Free of a slot that is not live")
}

// SealBG moves everything currently live to the background set: still verified by
// CheckAll, no longer offered to scripts, address ranges pre-sorted.
func (t *Tracker) SealBG() *Fail {
	for _, s := range t.Live {
		t.BG = append(t.BG, *s)
	}
	t.Live = t.Live[:0]
	t.bgr = t.bgr[:0]
	sorted := true
	for i := range t.BG {
		s := &t.BG[i]
		if s.Data == s.Hdr+uintptr(hdrLen) {
			t.bgr = append(t.bgr, [2]uintptr{s.Hdr, s.Data + uintptr(s.Cap)})
		} else {
			t.bgr = append(t.bgr, s.ranges()...)
		}
		if n := len(t.bgr); n > 1 && t.bgr[n-1][0] < t.bgr[n-2][0] {
			sorted = false
		}
	}
	if !sorted {
		sort.Slice(t.bgr, func(i, j int) bool { return t.bgr[i][0] < t.bgr[j][0] })
	}
	for i := 1; i < len(t.bgr); i++ {
		if t.bgr[i][0] < t.bgr[i-1][1] {
			return failf("overlap", "two live allocations overlap: [%#x,%#x) and [%#x,%#x)", t.bgr[i-1][0], t.bgr[i-1][1], t.bgr[i][0], t.bgr[i][1])
		}
	}
	return nil
}

// LiveCount is the number of allocations this tracker holds.
func (t *Tracker) LiveCount() int { return len(t.Live) + len(t.BG) }

// CheckDisjoint checks that no two live allocations of this tracker overlap.
func (t *Tracker) CheckDisjoint() *Fail {
	var rs [][2]uintptr
	for _, s := range t.Live {
		rs = append(rs, s.ranges()...)
	}
	sort.Slice(rs, func(i, j int) bool { return rs[i][0] < rs[j][0] })
	for i := 1; i < len(rs); i++ {
		if rs[i][0] < rs[i-1][1] {
			return failf("overlap", "two live allocations overlap: [%#x,%#x) and [%#x,%#x)", rs[i-1][0], rs[i-1][1], rs[i][0], rs[i][1])
		}
	}
	for _, r := range rs {
		if r[0] == r[1] {
			continue
		}
		// first background range that ends after r starts
		k := sort.Search(len(t.bgr), func(i int) bool { return t.bgr[i][1] > r[0] })
		if k < len(t.bgr) && t.bgr[k][0] < r[1] {
			return failf("overlap", "two live allocations overlap: [%#x,%#x) and [%#x,%#x)", r[0], r[1], t.bgr[k][0], t.bgr[k][1])
		}
	}
	return nil
}

// CheckAllocs compares Allocator.Allocs with want.
func CheckAllocs(a *memory.Allocator, want int) *Fail {
	if got := a.Allocs.Load(); got != int64(want) {
		return failf("allocs-counter", "Allocator.Allocs = %d, live allocations = %d", got, want)
	}
	return nil
}

// CheckOwn checks this tracker's live slots only (several trackers share the allocator).
func (t *Tracker) CheckOwn() *Fail {
	for _, s := range t.Live {
		if f := t.CheckSlot(s); f != nil {
			return f
		}
	}
	return t.CheckDisjoint()
}

// CheckAll is the full per-step oracle for a tracker that owns every allocation
// of its allocator: every live slot intact, pairwise disjoint, Allocs == live.
func (t *Tracker) CheckAll() *Fail {
	for _, s := range t.Live {
		if f := t.CheckSlot(s); f != nil {
			return f
		}
	}
	for i := range t.BG {
		if f := t.CheckSlot(&t.BG[i]); f != nil {
			return f
		}
	}
	if f := t.CheckDisjoint(); f != nil {
		return f
	}
	return CheckAllocs(t.A, t.LiveCount())
}

// CheckDisjointAcross checks disjointness over several trackers (threads) that
// share one allocator; call at a barrier.
func CheckDisjointAcross(ts []*Tracker) *Fail {
	var rs [][2]uintptr
	for _, t := range ts {
		for _, s := range t.Live {
			rs = append(rs, s.ranges()...)
		}
		for i := range t.BG {
			rs = append(rs, t.BG[i].ranges()...)
		}
	}
	sort.Slice(rs, func(i, j int) bool { return rs[i][0] < rs[j][0] })
	for i := 1; i < len(rs); i++ {
		if rs[i][0] < rs[i-1][1] {
			return failf("overlap", "two live allocations overlap: [%#x,%#x) and [%#x,%#x)", rs[i-1][0], rs[i-1][1], rs[i][0], rs[i][1])
		}
	}
	return nil
}

// Reloc is one relocation callback invocation as observed.
type Reloc struct {
	Slot *Slot
	Old  uintptr
	New  uintptr
}

// DefragReport is what one DefragAllImproved pass did, as observed.
type DefragReport struct {
	Returned int // return value of DefragAllImproved
	Relocs   []Reloc
}

// Defrag runs A.DefragAllImproved with the relocation oracle installed.
// In the callback: old must be the pointer of a live allocation that has not been
// relocated in this pass (exactly once), new must be a different pointer whose
// slice has the same len, cap >= len and already holds the old bytes. Afterwards
// the tracker's slots point at the new locations; unmoved slots are untouched
// (their integrity is what CheckAll verifies next — a slot moved without a
// callback shows up there as corrupted / faulting memory).
// trackers: all trackers whose slots live in the allocator (the receiver is
// included automatically).
func (t *Tracker) Defrag(others ...*Tracker) (*DefragReport, *Fail) {
	all := append([]*Tracker{t}, others...)
	byHdr := map[uintptr]*Slot{}
	for _, tr := range all {
		for _, s := range tr.Live {
			byHdr[s.Hdr] = s
		}
		for i := range tr.BG {
			byHdr[tr.BG[i].Hdr] = &tr.BG[i]
		}
	}
	var mu sync.Mutex
	var first *Fail
	moved := map[*Slot]bool{}
	rep := &DefragReport{}
	setFail := func(f *Fail) {
		if first == nil {
			first = f
		}
	}
	cb := func(o, n *[]byte) {
		mu.Lock()
		defer mu.Unlock()
		oh, nh := uintptr(unsafe.Pointer(o)), uintptr(unsafe.Pointer(n))
		s := byHdr[oh]
		if s == nil {
			setFail(failf("reloc-unknown-old", "relocation callback called with an old pointer %#x that is not a live allocation (new %#x)", oh, nh))
			return
		}
		if moved[s] {
			setFail(failf("reloc-twice", "relocation callback called twice for allocation #%d (size %d)", s.ID, s.Size))
			return
		}
		if nh == oh {
			setFail(failf("reloc-new-is-old", "relocation callback called with new == old for allocation #%d", s.ID))
			return
		}
		if _, clash := byHdr[nh]; clash {
			setFail(failf("reloc-new-overlaps", "relocation target %#x of allocation #%d is the address of another live allocation", nh, s.ID))
			return
		}
		f := Protect(func() *Fail {
			nl, nc := rawLenCap(n)
			if nl != s.Size {
				return failf("reloc-new-len", "relocated allocation #%d: new slice has len %d, want %d", s.ID, nl, s.Size)
			}
			if nc < s.Size {
				return failf("reloc-new-cap", "relocated allocation #%d: new slice has cap %d < len %d", s.ID, nc, s.Size)
			}
			nb := *n
			if off := VerifyPattern(nb, s.seed); off >= 0 && !s.unfilled {
				return failf("reloc-new-contents", "relocated allocation #%d (size %d): new slice does not hold the old bytes at the time of the callback (first difference at byte %d)", s.ID, s.Size, off)
			}
			return nil
		})
		if f != nil {
			setFail(f)
			return
		}
		moved[s] = true
		delete(byHdr, oh)
		byHdr[nh] = s
		rep.Relocs = append(rep.Relocs, Reloc{Slot: s, Old: oh, New: nh})
		s.Hdr, s.Moved = nh, s.Moved+1
		_, s.Cap = rawLenCap(n)
		s.Data = dataPtr(n)
		if t.Touched != nil {
			t.Touched(nh, s.Cap)
		}
	}
	f := Protect(func() *Fail {
		rep.Returned = t.A.DefragAllImproved(cb)
		return nil
	})
	if f != nil {
		return rep, f
	}
	if first != nil {
		return rep, first
	}
	// background ranges may have moved
	for _, tr := range all {
		if len(tr.BG) > 0 {
			live := tr.Live
			tr.Live = nil
			ff := tr.SealBG()
			tr.Live = live
			if ff != nil {
				return rep, ff
			}
		}
	}
	return rep, nil
}

// ---------------------------------------------------------------------------
// Scenario bodies

// FillPages allocates, for each size class given by a list of in-class sizes,
// count allocations cycling through the sizes, and returns the new slots grouped
// by the mapped page they landed in (pages in order of first appearance, slots in
// address order). pageSize is the allocator's shared page size.
func (t *Tracker) FillPages(sizes []int, count int, pageSize uintptr) ([][]*Slot, *Fail) {
	start := len(t.Live)
	for i := 0; i < count; i++ {
		if _, f := t.Malloc(sizes[i%len(sizes)]); f != nil {
			return nil, f
		}
	}
	return GroupByPage(t.Live[start:], pageSize), nil
}

// GroupByPage groups slots by the mapped page (address rounded down to pageSize)
// they live in: pages in order of first appearance, slots in address order.
func GroupByPage(slots []*Slot, pageSize uintptr) [][]*Slot {
	var order []uintptr
	groups := map[uintptr][]*Slot{}
	for _, s := range slots {
		pg := s.Hdr &^ (pageSize - 1)
		if _, ok := groups[pg]; !ok {
			order = append(order, pg)
		}
		groups[pg] = append(groups[pg], s)
	}
	var res [][]*Slot
	for _, pg := range order {
		g := groups[pg]
		sort.Slice(g, func(i, j int) bool { return g[i].Hdr < g[j].Hdr })
		res = append(res, g)
	}
	return res
}

// Survivor patterns of a page.
const (
	PatNone     = iota // free every slot
	PatFirst           // keep only the lowest slot
	PatLast            // keep only the highest slot
	PatAlt             // keep slots 0,2,4,...
	PatAllBut          // free only slot 1 (all but one survive)
	PatKeep            // keep all (used for uniform "rest" pages in larger families)
	NumPatQuick = 5
)

var PatNames = []string{"none", "first", "last", "alternating", "all-but-one", "all"}

// Doomed returns the slots of one page that the pattern frees.
func Doomed(page []*Slot, pat int) []*Slot {
	var out []*Slot
	for i, s := range page {
		keep := false
		switch pat {
		case PatNone:
		case PatFirst:
			keep = i == 0
		case PatLast:
			keep = i == len(page)-1
		case PatAlt:
			keep = i%2 == 0
		case PatAllBut:
			keep = i != 1%len(page)
		case PatKeep:
			keep = true
		}
		if !keep {
			out = append(out, s)
		}
	}
	return out
}

// Free orders for a list of per-page doomed slots.
const (
	OrdAsc         = iota // page by page, ascending addresses
	OrdDesc               // reverse of OrdAsc
	OrdInterleaved        // round robin over the pages (slot 0 of every page, slot 1 of every page …)
)

var OrdNames = []string{"ascending", "descending", "interleaved"}

// OrderFrees flattens per-page doomed lists in the given order.
func OrderFrees(perPage [][]*Slot, ord int) []*Slot {
	var out []*Slot
	switch ord {
	case OrdAsc, OrdDesc:
		for _, p := range perPage {
			out = append(out, p...)
		}
		if ord == OrdDesc {
			for i, j := 0, len(out)-1; i < j; i, j = i+1, j-1 {
				out[i], out[j] = out[j], out[i]
			}
		}
	case OrdInterleaved:
		for k := 0; ; k++ {
			any := false
			for _, p := range perPage {
				if k < len(p) {
					out = append(out, p[k])
					any = true
				}
			}
			if !any {
				break
			}
		}
	}
	return out
}

// StressBody is the free-running thread body used by the (non-deciding) stress
// pass and offered to scheduler scenarios: ops operations driven by a fixed
// linear congruential sequence over the given sizes, at most maxLive live
// allocations, every slot verified when it is freed and all of the thread's
// slots verified every checkEvery operations. It returns the first failure.
func (t *Tracker) StressBody(sizes []int, ops, maxLive, checkEvery int, seed uint64) *Fail {
	x := seed
	next := func(n int) int {
		x = x*6364136223846793005 + 1442695040888963407
		return int((x >> 33) % uint64(n))
	}
	for i := 0; i < ops; i++ {
		if len(t.Live) == 0 || (len(t.Live) < maxLive && next(3) != 0) {
			if _, f := t.Malloc(sizes[next(len(sizes))]); f != nil {
				return f
			}
		} else {
			if f := t.Free(t.Live[next(len(t.Live))]); f != nil {
				return f
			}
		}
		if checkEvery > 0 && i%checkEvery == 0 {
			for _, s := range t.Live {
				if f := t.CheckSlot(s); f != nil {
					return f
				}
			}
			if f := t.CheckDisjoint(); f != nil {
				return f
			}
		}
	}
	return nil
}
