#!/bin/bash
# overlay.sh <builddir> <overlay.json> <repo>
# 1. os -> vos shim in lib/others/qdb (effect log for the crash enumeration)
# 2. the two map-range loops that decide the order of file effects are given an
#    explicit key order (helpers in the added accessor file); fails loudly if the
#    loops are not found
# 3. accessor file added to package qdb (virtual file)
set -eu
bd="$1"; ov="$2"; repo="$3"
here="$(cd "$(dirname "$0")" && pwd)"
/verif/internal/crashfs/mkoverlay.py "$bd" "$ov" "$repo" lib/others/qdb >&2
python3 - "$bd" "$ov" "$repo" "$here/accessor.go.in" <<'PY'
import json, os, re, sys
bd, ov, repo, acc = sys.argv[1:5]
d = json.load(open(ov))
rep = d["Replace"]
def patch(rel, old_re, new, what):
    path = os.path.join(repo, rel)
    cur = rep.get(path, path)
    src = open(cur).read()
    new_src, n = re.subn(old_re, new, src)
    if n != 1:
        sys.exit("c19 overlay: expected exactly one '%s' in %s, found %d" % (what, rel, n))
    if cur == path:
        cur = os.path.join(bd, "c19_" + os.path.basename(rel))
        rep[path] = cur
    open(cur, "w").write(new_src)
patch("lib/others/qdb/db.go",
      r'for k, _ := range db\.PendingRecords \{',
      'for _, k := range verifKeyOrder(db.PendingRecords) {',
      "range db.PendingRecords")
patch("lib/others/qdb/index.go",
      r'for k, v := range idx\.Index \{',
      'for _, k := range verifIdxOrder(idx.Index) { v, ok := idx.Index[k]; if !ok { continue }',
      "range idx.Index")
virt = os.path.join(repo, "lib/others/qdb/zz_verif_c19_accessor.go")
if os.path.exists(virt):
    sys.exit("c19 overlay: %s exists on disk" % virt)
rep[virt] = acc
json.dump(d, open(ov + ".tmp", "w"), indent=1, sort_keys=True)
os.replace(ov + ".tmp", ov)
PY
