// C19: the embedded key-value store (lib/others/qdb) behaves as a durable map.
//
// Part 1 (model checking, state mode): every history of put / putext(flags) / del /
// get / browse / applyflags / sync / nosync / defrag / flush / close+reopen over
// keys {1,2} and four values, per configuration (MaxPending, volatile, LoadData,
// defrag thresholds, key order of the sync loop), up to a depth bound modulo a
// canonical state key, replayed on a fresh qdb.DB in a fresh directory (worker
// child processes: qdb calls os.Exit and panics inside goroutines) and compared
// with a Go map after every event; every state is audited (read everything,
// close+reopen, read everything).
//
// Part 2 (fault enumeration, Engine C): for the transitions that discover a new
// state and whose last event touched the disk (capped per tier), the file-effect
// log of the whole history is recorded through the vos shim; every crash point
// inside the last event (every prefix, every torn length of a write) is
// materialised and a FRESH PROCESS reopens the store: it must open, every key must
// hold its last synced value or a later written one, never a value never written,
// and the recovered store must keep behaving as a map (put+sync+close+reopen,
// defrag+close+reopen).
package main

import (
	"bytes"
	"crypto/sha256"
	"encoding/hex"
	"encoding/json"
	"flag"
	"fmt"
	"os"
	"path/filepath"
	"regexp"
	"runtime"
	"runtime/pprof"
	"sort"
	"strings"
	"sync"
	"sync/atomic"
	"syscall"
	"time"

	"github.com/piotrnar/gocoin/lib/others/qdb"
	"github.com/piotrnar/gocoin/lib/others/vshim/vos"

	"verif/internal/crashfs"
	"verif/internal/ev"
)

var (
	workerMode  = flag.Bool("worker", false, "internal: history worker")
	recoverDir  = flag.String("recover", "", "internal: recovery driver, directory to open")
	recoverCfg  = flag.String("cfg", "", "internal: configuration (JSON) for --recover")
	replayFile  = flag.String("replay", "", "replay one recorded case (no explorer)")
	killDir     = flag.String("killchild", "", "internal: run a history in this directory and SIGKILL self before effect --killat")
	killAt      = flag.Int("killat", -1, "internal: see --killchild")
	killHist    = flag.String("hist", "", "internal: history (JSON) for --killchild")
	watchdogDur = 120 * time.Second
)

var reDigits = regexp.MustCompile(`(0x)?[0-9a-f]*[0-9][0-9a-f]*`)

// ---------------------------------------------------------------------------
// alphabet

type cfg struct {
	Name          string `json:"name"`
	Volatile      bool   `json:"volatile"`
	LoadData      bool   `json:"load"`
	MaxPending    int    `json:"maxpending"` // -1: ExtraOpts nil (defaults 2500/10000/50/300)
	MaxPendingNS  int    `json:"maxpending_nosync"`
	DefragPercent uint32 `json:"defrag_percent"`
	ForcedPercent uint32 `json:"forced_percent"`
	Desc          bool   `json:"desc"` // key order of the sync / defrag loops (see overlay)
}

func (c cfg) opts(dir string) *qdb.NewDBOpts {
	o := &qdb.NewDBOpts{Dir: dir, LoadData: c.LoadData, Volatile: c.Volatile}
	if c.MaxPending >= 0 {
		o.ExtraOpts = &qdb.ExtraOpts{DefragPercentVal: c.DefragPercent, ForcedDefragPerc: c.ForcedPercent,
			MaxPending: uint32(c.MaxPending), MaxPendingNoSync: uint32(c.MaxPendingNS)}
	}
	return o
}

func (c cfg) maxPending() (int, int) {
	if c.MaxPending < 0 {
		return qdb.DefaultMaxPending, qdb.DefaultMaxPendingNoSync
	}
	return c.MaxPending, c.MaxPendingNS
}

func allCfgs() []cfg {
	return []cfg{
		{Name: "mp0", LoadData: true, MaxPending: 0, MaxPendingNS: 1, DefragPercent: 50, ForcedPercent: 300},
		{Name: "mp0-noload-desc", LoadData: false, MaxPending: 0, MaxPendingNS: 1, DefragPercent: 50, ForcedPercent: 300, Desc: true},
		{Name: "mp1", LoadData: true, MaxPending: 1, MaxPendingNS: 10000, DefragPercent: 50, ForcedPercent: 300, Desc: true},
		{Name: "mp1-noload", LoadData: false, MaxPending: 1, MaxPendingNS: 10000, DefragPercent: 50, ForcedPercent: 300},
		{Name: "default", LoadData: true, MaxPending: -1},
		{Name: "default-noload-desc", LoadData: false, MaxPending: -1, Desc: true},
		{Name: "mp0-eager-defrag", LoadData: true, MaxPending: 0, MaxPendingNS: 1, DefragPercent: 10, ForcedPercent: 25},
		{Name: "volatile", Volatile: true, LoadData: true, MaxPending: -1},
		{Name: "volatile-noload-desc", Volatile: true, LoadData: false, MaxPending: -1, Desc: true},
	}
}

const nKeys = 3 // keys 1,2 in the menus; key 3 only in the post-recovery continuation

var big = func() [nKeys + 1][]byte {
	var r [nKeys + 1][]byte
	for k := 1; k <= nKeys; k++ {
		b := make([]byte, 0, 65536+32)
		for i := 0; len(b) < 65536; i++ {
			h := sha256.Sum256([]byte(fmt.Sprintf("c19/big/%d/%d", k, i)))
			b = append(b, h[:]...)
		}
		r[k] = b[:65536]
	}
	return r
}()

// value ids: 0 "", 1 one byte, 2 two bytes, 3 64 KiB, 4 "post" (continuation); content
// depends on the key so that a value showing up under the wrong key is recognised
const nVals = 5

func val(k, id int) []byte {
	switch id {
	case 0:
		return []byte{}
	case 1:
		return []byte{byte('a' + k - 1)}
	case 2:
		return []byte{byte('a' + k - 1), byte('A' + k - 1)}
	case 3:
		return append([]byte(nil), big[k]...)
	case 4:
		return []byte(fmt.Sprintf("post-recovery-%d", k))
	}
	panic("bad value id")
}

// idOf: -1 absent (nil), 0..4 known value of key k, -2 unknown bytes
func idOf(k int, v []byte) int {
	if v == nil {
		return -1
	}
	for id := 0; id < nVals; id++ {
		if id == 3 {
			if bytes.Equal(v, big[k]) {
				return id
			}
			continue
		}
		if bytes.Equal(v, val(k, id)) {
			return id
		}
	}
	return -2
}

func idName(id int) string {
	switch id {
	case -1:
		return "absent"
	case -2:
		return "UNKNOWN-BYTES"
	}
	return []string{`""`, "1B", "2B", "64KiB", "post"}[id]
}

var flagNames = map[string]uint32{"nc": qdb.NO_CACHE, "nb": qdb.NO_BROWSE, "ncnb": qdb.NO_CACHE | qdb.NO_BROWSE,
	"yb": qdb.YES_BROWSE, "yc": qdb.YES_CACHE, "0": 0}

func menu(thorough bool) []string {
	var l []string
	if thorough {
		for k := 1; k <= 2; k++ {
			for id := 0; id <= 3; id++ {
				l = append(l, fmt.Sprintf("put%d:%d", k, id))
			}
		}
		for k := 1; k <= 2; k++ {
			for _, f := range []string{"nc", "nb", "ncnb"} {
				l = append(l, fmt.Sprintf("pxt%d:2:%s", k, f))
			}
		}
	} else {
		l = append(l, "put1:1", "put1:3", "put2:0", "put2:2", "pxt1:2:nc", "pxt2:1:nb", "pxt2:3:ncnb")
	}
	l = append(l, "del1", "del2", "get1", "get2", "brw:0", "brw:nc", "brw:nb", "bra")
	if thorough {
		for k := 1; k <= 2; k++ {
			for _, f := range []string{"nb", "yb", "nc", "yc"} {
				l = append(l, fmt.Sprintf("apf%d:%s", k, f))
			}
		}
	} else {
		l = append(l, "apf1:nb", "apf1:nc", "apf2:yb", "apf2:nc")
	}
	return append(l, "sync", "nosync", "defrag0", "defrag1", "flush", "reopen")
}

// ---------------------------------------------------------------------------
// model

type model struct {
	Mem      [nKeys + 1]int  `json:"mem"` // -1 absent, else value id
	NoBrowse [nKeys + 1]bool `json:"nb"`
	Certain  [nKeys + 1]bool `json:"ce"` // NO_BROWSE state of the key is determined
	Dirty    [nKeys + 1]bool `json:"di"` // flag changed since the record was last written
	Dur      [nKeys + 1]int  `json:"dur"`
	Pending  [nKeys + 1]bool `json:"pe"`
	NoSync   bool            `json:"ns"`
	// crash oracle bookkeeping (not part of the state key)
	Later [nKeys + 1][]int `json:"-"` // states assigned since the last durable point
	Ever  [nKeys + 1][]int `json:"-"` // every state ever assigned
}

func newModel() model {
	var m model
	for k := range m.Mem {
		m.Mem[k], m.Dur[k] = -1, -1
	}
	return m
}

func (m *model) clone() model {
	c := *m
	for k := range m.Later {
		c.Later[k] = append([]int(nil), m.Later[k]...)
		c.Ever[k] = append([]int(nil), m.Ever[k]...)
	}
	return c
}

func (m *model) npending() (n int) {
	for _, p := range m.Pending {
		if p {
			n++
		}
	}
	return
}

func (m *model) count() (n int) {
	for k := 1; k <= nKeys; k++ {
		if m.Mem[k] >= 0 {
			n++
		}
	}
	return
}

func (m *model) doSync() {
	for k := 1; k <= nKeys; k++ {
		if m.Pending[k] {
			m.Dur[k] = m.Mem[k]
			m.Later[k] = nil
			m.Dirty[k] = false
			m.Pending[k] = false
		}
	}
}

func (m *model) allDurable() {
	for k := 1; k <= nKeys; k++ {
		m.Dur[k] = m.Mem[k]
		m.Later[k] = nil
		m.Dirty[k] = false
	}
}

func (m *model) assign(c cfg, k, id int, nb bool) {
	m.Mem[k] = id
	m.Later[k] = append(m.Later[k], id)
	m.Ever[k] = append(m.Ever[k], id)
	if id >= 0 {
		m.NoBrowse[k], m.Certain[k], m.Dirty[k] = nb, true, false
	} else {
		m.NoBrowse[k], m.Certain[k], m.Dirty[k] = false, true, false
	}
	if c.Volatile {
		m.NoSync = true
		return
	}
	m.Pending[k] = true
	mp, mpns := c.maxPending()
	if n := m.npending(); n > mpns || (!m.NoSync && n > mp) {
		m.doSync()
	}
}

// ---------------------------------------------------------------------------
// one history on the real store

type violation struct {
	Key   string   `json:"key"`
	What  string   `json:"what"`
	Trace []string `json:"trace,omitempty"`
	Cut   *cutRef  `json:"cut,omitempty"`
	Log   []string `json:"effect_log,omitempty"` // the recorded file effects (paths relative to the store directory)
}

type cutRef struct {
	N    int  `json:"n"`
	Torn int  `json:"torn"`
	Desc bool `json:"desc"`
}

type runner struct {
	c       cfg
	dir     string
	db      *qdb.DB
	m       model
	trace   []string
	curEv   string
	inAudit bool
	diag    string
	rec     *vos.Recorder
	evStart []int   // effect index at which each event began
	snaps   []model // model after each event
}

func (r *runner) wait() {
	// qdb runs sync()/defrag() in `go func(){ …; db.Mutex.Unlock() }()`: the caller's
	// Lock is released by that goroutine when its file effects are complete
	r.db.Mutex.Lock()
	r.db.Mutex.Unlock()
}

func (r *runner) fail(key, format string, a ...interface{}) *violation {
	where := "after " + r.curEv
	if r.inAudit {
		where = "in the closing audit of the state reached by " + r.curEv
	}
	return &violation{Key: key, What: where + ": " + fmt.Sprintf(format, a...), Trace: append([]string(nil), r.trace...)}
}

func (r *runner) open() *violation {
	qdb.VerifDescending = r.c.Desc
	var db *qdb.DB
	if err := qdb.NewDBExt(&db, r.c.opts(r.dir)); err != nil || db == nil {
		return r.fail("open/error", "NewDBExt fails: %v", err)
	}
	r.db = db
	return nil
}

// diagnose: a record that has neither cached data nor a place on disk cannot be
// served any more (the next access ends in os.Exit(1) or a nil dereference).
func (r *runner) diagnose() {
	if r.diag != "" {
		return
	}
	st := r.db.VerifState()
	pend := map[uint64]bool{}
	for _, k := range st.Pending {
		pend[k] = true
	}
	for _, rec := range st.Recs {
		switch {
		case !rec.Cached && rec.Datpos == 0: // a stored record lies behind the 4-byte file header
			r.diag = fmt.Sprintf("after %s the record of key %d has neither cached data nor a disk location (flags=%#x): the value is lost, the next access calls os.Exit(1)", r.curEv, rec.Key, rec.Flags)
		case !rec.Cached && pend[rec.Key]:
			r.diag = fmt.Sprintf("after %s the record of key %d is pending but its cached data was freed (flags=%#x): the next sync() dereferences nil", r.curEv, rec.Key, rec.Flags)
		default:
			continue
		}
		fmt.Fprintf(os.Stderr, "\nC19-DIAG %s\n", r.diag)
		return
	}
}

func (r *runner) checkGet(k int) *violation {
	v := r.db.Get(qdb.KeyType(k))
	got := idOf(k, v)
	if got != r.m.Mem[k] {
		return r.fail("get/wrong-value", "Get(%d) = %s, the map holds %s", k, idName(got), idName(r.m.Mem[k]))
	}
	return nil
}

// browse: walk must see every expected key exactly once with its value. all=true: BrowseAll.
func (r *runner) checkBrowse(all bool, ret uint32) *violation {
	seen := map[int]int{}
	var bad *violation
	walk := func(key qdb.KeyType, v []byte) uint32 {
		k := int(key)
		if k < 1 || k > nKeys {
			bad = r.fail("browse/unknown-key", "browse visits key %d which was never stored", key)
			return 0
		}
		seen[k]++
		if got := idOf(k, append([]byte{}, v...)); got != r.m.Mem[k] && bad == nil {
			bad = r.fail("browse/wrong-value", "browse gives key %d = %s, the map holds %s", k, idName(got), idName(r.m.Mem[k]))
		}
		return ret
	}
	if all {
		r.db.BrowseAll(walk)
	} else {
		r.db.Browse(walk)
	}
	if bad != nil {
		return bad
	}
	for k := 1; k <= nKeys; k++ {
		want := r.m.Mem[k] >= 0
		opt := false
		if !all && want {
			if !r.m.Certain[k] {
				opt = true
			} else if r.m.NoBrowse[k] {
				want = false
			}
		}
		n := seen[k]
		switch {
		case n > 1:
			return r.fail("browse/key-visited-twice", "browse visits key %d %d times", k, n)
		case want && n == 0 && !opt:
			return r.fail("browse/key-missing", "browse does not visit key %d (present, browsable)", k)
		case !want && n == 1:
			if r.m.Mem[k] < 0 {
				return r.fail("browse/deleted-key-visited", "browse visits key %d which is not in the map", k)
			}
			return r.fail("browse/no-browse-key-visited", "Browse visits key %d which is flagged NO_BROWSE", k)
		}
	}
	// flags returned by the callback are applied to every visited record
	for k := 1; k <= nKeys; k++ {
		if seen[k] == 1 {
			if ret&qdb.NO_BROWSE != 0 {
				if !r.m.NoBrowse[k] || !r.m.Certain[k] {
					r.m.Dirty[k] = true
				}
				r.m.NoBrowse[k], r.m.Certain[k] = true, true
			} else if ret&qdb.YES_BROWSE != 0 {
				if r.m.NoBrowse[k] || !r.m.Certain[k] {
					r.m.Dirty[k] = true
				}
				r.m.NoBrowse[k], r.m.Certain[k] = false, true
			}
		}
	}
	return nil
}

func (r *runner) reopen() *violation {
	r.db.Close()
	// Close = sync() (non-volatile) or defrag() when anything changed (volatile)
	if r.c.Volatile {
		if r.m.NoSync {
			r.m.allDurable()
		}
	} else {
		r.m.doSync()
	}
	for k := 1; k <= nKeys; k++ {
		if r.m.Dur[k] != r.m.Mem[k] {
			ev.HarnessError("model: after close key %d durable=%d mem=%d", k, r.m.Dur[k], r.m.Mem[k])
		}
		// flag changes made by ApplyFlags / browse callbacks are kept only if the record
		// was written afterwards; otherwise the flag after restart is not judged
		if r.m.Dirty[k] {
			r.m.Certain[k] = false
			r.m.Dirty[k] = false
		}
		r.m.Pending[k] = false
	}
	r.m.NoSync = false
	if v := r.open(); v != nil {
		return v
	}
	if n := r.db.Count(); n != r.m.count() {
		return r.fail("reopen/count", "after reopen Count() = %d, the map holds %d keys", n, r.m.count())
	}
	return nil
}

var evRe = regexp.MustCompile(`^(put|pxt|del|get|apf)([1-3])(?::([0-9]))?(?::?([a-z0-9]+))?$`)

func (r *runner) step(e string) *violation {
	r.curEv = e
	r.trace = append(r.trace, e)
	fmt.Fprintf(os.Stderr, "\nC19-PHASE during event %s\n", e)
	if r.rec != nil {
		r.evStart = append(r.evStart, r.rec.Len())
	}
	v := r.step1(e)
	if v == nil {
		r.wait()
		if n := r.db.Count(); n != r.m.count() {
			v = r.fail("count", "Count() = %d, the map holds %d keys", n, r.m.count())
		}
	}
	if v == nil {
		r.diagnose()
	}
	r.snaps = append(r.snaps, r.m.clone())
	return v
}

func (r *runner) step1(e string) *violation {
	switch {
	case e == "sync":
		r.db.Sync()
		r.wait()
		if !r.c.Volatile {
			r.m.NoSync = false
			r.m.doSync()
		}
		return nil
	case e == "nosync":
		r.db.NoSync()
		if !r.c.Volatile {
			r.m.NoSync = true
		}
		return nil
	case e == "defrag0" || e == "defrag1":
		force := e == "defrag1"
		doing := r.db.Defrag(force)
		r.wait()
		if r.c.Volatile {
			if doing {
				return r.fail("defrag/volatile", "Defrag reports work in volatile mode")
			}
			return nil
		}
		if force && !doing {
			return r.fail("defrag/forced-not-done", "Defrag(true) returned false")
		}
		if doing {
			r.m.allDurable()
		}
		return nil
	case e == "flush":
		r.db.Flush()
		return nil
	case e == "reopen":
		return r.reopen()
	case e == "bra":
		return r.checkBrowse(true, 0)
	case strings.HasPrefix(e, "brw:"):
		f, ok := flagNames[e[4:]]
		if !ok {
			ev.HarnessError("bad event %q", e)
		}
		return r.checkBrowse(false, f)
	}
	mt := evRe.FindStringSubmatch(e)
	if mt == nil {
		ev.HarnessError("bad event %q", e)
	}
	k := int(mt[2][0] - '0')
	switch mt[1] {
	case "put":
		id := int(mt[3][0] - '0')
		r.db.Put(qdb.KeyType(k), val(k, id))
		r.wait()
		r.m.assign(r.c, k, id, false)
	case "pxt":
		id := int(mt[3][0] - '0')
		f, ok := flagNames[mt[4]]
		if !ok {
			ev.HarnessError("bad event %q", e)
		}
		r.db.PutExt(qdb.KeyType(k), val(k, id), f)
		r.wait()
		r.m.assign(r.c, k, id, f&qdb.NO_BROWSE != 0)
	case "del":
		r.db.Del(qdb.KeyType(k))
		r.wait()
		r.m.assign(r.c, k, -1, false)
	case "get":
		return r.checkGet(k)
	case "apf":
		f, ok := flagNames[mt[4]]
		if !ok {
			ev.HarnessError("bad event %q", e)
		}
		r.db.ApplyFlags(qdb.KeyType(k), f)
		if r.m.Mem[k] >= 0 {
			if f&qdb.NO_BROWSE != 0 {
				if !r.m.NoBrowse[k] || !r.m.Certain[k] {
					r.m.Dirty[k] = true
				}
				r.m.NoBrowse[k], r.m.Certain[k] = true, true
			} else if f&qdb.YES_BROWSE != 0 {
				if r.m.NoBrowse[k] || !r.m.Certain[k] {
					r.m.Dirty[k] = true
				}
				r.m.NoBrowse[k], r.m.Certain[k] = false, true
			}
		}
	}
	return nil
}

func (r *runner) key() string {
	st := r.db.VerifState()
	// positions and exact space counters are left out of the key (DESIGN C19 K): the
	// thresholds they feed are kept as booleans
	type rk struct {
		Key     uint64
		DataSeq uint32
		Flags   uint32
		Cached  bool
	}
	var recs []rk
	for _, x := range st.Recs {
		recs = append(recs, rk{x.Key, x.DataSeq, x.Flags, x.Cached})
	}
	names, _ := filepath.Glob(filepath.Join(r.dir, "*"))
	for i := range names {
		names[i] = filepath.Base(names[i])
	}
	sort.Strings(names)
	b, _ := json.Marshal([]interface{}{r.m, recs, st.Pending, st.NoSync, st.DataSeq, st.LogOpen, st.IdxLogOpen, st.DatFiles,
		st.VersionSequence, st.MaxDatfileSequence, st.DatfileIndex, st.WouldDefrag, st.WouldForceDefrag, st.Clean, names, r.diag != ""})
	h := sha256.Sum256(b)
	return hex.EncodeToString(h[:12])
}

func (r *runner) readAll() *violation {
	for k := 1; k <= 2; k++ {
		if v := r.checkGet(k); v != nil {
			return v
		}
	}
	return r.checkBrowse(true, 0)
}

func (r *runner) audit() *violation {
	r.inAudit = true
	fmt.Fprintf(os.Stderr, "\nC19-PHASE in the closing audit (read all keys, close+reopen, read all keys) of the state reached by %s\n", r.curEv)
	if r.diag == "" { // a damaged record is demonstrated by the plain close below (a Get could reload it)
		if v := r.readAll(); v != nil {
			return v
		}
	}
	r.trace = append(r.trace, "(audit: reopen)")
	if v := r.reopen(); v != nil {
		return v
	}
	r.wait()
	return r.readAll()
}

type result struct {
	Ev           string     `json:"ev"`
	Key          string     `json:"key,omitempty"`
	Viol         *violation `json:"viol,omitempty"`
	Fx           int        `json:"fx,omitempty"` // mutating file effects of the last event
	Doomed       string     `json:"doomed,omitempty"`
	AuditSkipped bool       `json:"as,omitempty"`
}

var auditedOK = map[string]bool{}

func (r *runner) start(record bool) *violation {
	r.m = newModel()
	if record {
		r.rec = vos.Record(r.dir)
	}
	r.curEv = "open"
	return r.open()
}

// replay runs hist on a fresh store.
func replay(c cfg, hist []string, audit, force bool) (res result) {
	base := ev.Scratch("c19")
	defer os.RemoveAll(base)
	r := &runner{c: c, dir: filepath.Join(base, "db")}
	defer func() {
		if r.rec != nil {
			r.rec.Stop()
		}
	}()
	defer func() {
		if p := recover(); p != nil {
			msg := reDigits.ReplaceAllString(fmt.Sprint(p), "N") // sizes and addresses out of the key
			if len(msg) > 80 {
				msg = msg[:80]
			}
			res.Key = ""
			res.Viol = classifyDeath(r.fail("panic:"+msg, "panic: %v", p), r.diag)
		}
	}()
	if v := r.start(true); v != nil {
		res.Viol = v
		return
	}
	for _, e := range hist {
		if v := r.step(e); v != nil {
			res.Viol = v
			return
		}
	}
	if n := len(r.evStart); n > 0 {
		for _, e := range r.rec.Effects()[r.evStart[n-1]:] {
			if e.Op != "marker" && e.Op != "sync" {
				res.Fx++
			}
		}
	}
	r.rec.Stop()
	res.Key = r.key()
	if r.diag != "" && !force {
		// the next access to the damaged record kills the process (os.Exit in loadrec or
		// a nil dereference): the parent demonstrates that once per configuration in a
		// dedicated run instead of losing this worker for every such state
		res.Doomed = r.diag
		return
	}
	ck := c.Name + res.Key
	if audit && auditedOK[ck] {
		audit = false
		res.AuditSkipped = true
	}
	if audit {
		if v := r.audit(); v != nil {
			res.Key = ""
			res.Viol = v
			return
		}
		auditedOK[ck] = true
	}
	r.db.Close()
	return
}

// classifyDeath: one listed root cause gets one key whatever the symptom.
func classifyDeath(v *violation, diag string) *violation {
	if diag != "" {
		v.What = v.What + " [" + v.Key + "; root cause diagnosed earlier in the history: " + diag + "]"
		v.Key = "unsynced-record-data-freed"
	}
	return v
}

// ---------------------------------------------------------------------------
// crash enumeration (Engine C)

type crashStats struct {
	Logs          int            `json:"logs"`
	Effects       int            `json:"effects"`
	Cuts          int            `json:"cuts"`
	Torn          int            `json:"torn_cuts"`
	Recoveries    int            `json:"recoveries"`
	DupSkipped    int            `json:"recoveries_skipped_same_directory_and_oracle"`
	Conformance   int            `json:"conformance_ok"`
	RealKills     int            `json:"real_kills_ok"`
	Outcomes      map[string]int `json:"outcomes"`
	Where         map[string]int `json:"where"`
	Samples       []string       `json:"samples,omitempty"`
	Viols         []*violation   `json:"viols,omitempty"`
	HarnessErrors []string       `json:"harness_errors,omitempty"`
}

type recoverOut struct {
	D1, D2, D3 map[string]int
	C1, C2, C3 int
	B1         map[string]int // BrowseAll view right after recovery
	Err        string
}

func dump(db *qdb.DB) (map[string]int, map[string]int, int) {
	d := map[string]int{}
	for k := 1; k <= nKeys; k++ {
		d[fmt.Sprint(k)] = idOf(k, db.Get(qdb.KeyType(k)))
	}
	b := map[string]int{}
	db.BrowseAll(func(key qdb.KeyType, v []byte) uint32 {
		k := int(key)
		if k < 1 || k > nKeys {
			b[fmt.Sprint(uint64(key))] = -2
			return 0
		}
		if _, dup := b[fmt.Sprint(k)]; dup {
			b[fmt.Sprint(k)+"-dup"] = -2
		}
		b[fmt.Sprint(k)] = idOf(k, append([]byte{}, v...))
		return 0
	})
	return d, b, db.Count()
}

// recoverMain is the recovery driver (fresh process): open, dump, continue, reopen, dump.
func recoverMain(dir, cfgJSON string) {
	var c cfg
	if err := json.Unmarshal([]byte(cfgJSON), &c); err != nil {
		ev.HarnessError("recover: bad cfg: %v", err)
	}
	qdb.VerifDescending = c.Desc
	wait := func(db *qdb.DB) { db.Mutex.Lock(); db.Mutex.Unlock() }
	var out recoverOut
	var db *qdb.DB
	phase := func(p string) { fmt.Fprintf(os.Stderr, "\nC19-RPHASE %s\n", p) }
	phase("first-open")
	if err := qdb.NewDBExt(&db, c.opts(dir)); err != nil || db == nil {
		out.Err = fmt.Sprint("NewDBExt: ", err)
	} else {
		out.D1, out.B1, out.C1 = dump(db)
		// the recovered store must keep working: append a record, sync, restart
		phase("continuation: put(3), sync, close")
		db.Put(3, val(3, 4))
		wait(db)
		db.Sync()
		wait(db)
		db.Close()
		phase("continuation: reopen after put(3)+sync+close")
		qdb.NewDBExt(&db, c.opts(dir))
		out.D2, _, out.C2 = dump(db)
		phase("continuation: defrag, close")
		if !c.Volatile {
			db.Defrag(true)
			wait(db)
		}
		db.Close()
		phase("continuation: reopen after defrag+close")
		qdb.NewDBExt(&db, c.opts(dir))
		out.D3, _, out.C3 = dump(db)
		db.Close()
	}
	b, _ := json.Marshal(out)
	fmt.Fprintln(ev.Out, string(b))
	os.Exit(0)
}

// killChild: end-to-end validation of the crash model. The history is executed for
// real and the process kills itself (SIGKILL) at the moment the (killAt+1)-th file
// effect is about to be performed; the parent compares the directory left behind
// with the materialised prefix killAt of the recorded log.
func killChild(dir string, at int, cfgJSON, histJSON string) {
	var c cfg
	var hist []string
	if json.Unmarshal([]byte(cfgJSON), &c) != nil || json.Unmarshal([]byte(histJSON), &hist) != nil {
		ev.HarnessError("killchild: bad arguments")
	}
	r := &runner{c: c, dir: dir}
	r.m = newModel()
	r.rec = vos.Record(dir)
	vos.Hook = func(e *vos.Effect) {
		if r.rec.Len() == at && strings.HasPrefix(e.Path, dir) {
			syscall.Kill(os.Getpid(), syscall.SIGKILL)
			select {}
		}
	}
	r.curEv = "open"
	r.open()
	for _, e := range hist {
		if v := r.step(e); v != nil {
			break
		}
	}
	// the kill point was not reached: report it (the parent treats this as a harness error)
	fmt.Fprintln(os.Stderr, "C19-KILLCHILD not killed")
	os.Exit(3)
}

var crashSeen = map[string]string{}

var killCounter int

var (
	reRPhase = regexp.MustCompile(`(?m)^C19-RPHASE (.*)$`)
	reNum    = regexp.MustCompile(`[0-9]+`)
)

func base(p string) string {
	b := filepath.Base(p)
	switch {
	case strings.HasSuffix(b, ".dat"):
		return "SEQ.dat"
	case b == "qdbidx.0" || b == "qdbidx.1":
		return "qdbidx.N"
	}
	return b
}

// crashRun records hist, checks the log model against the real directory and
// enumerates the crash points inside the last event (only = one specific cut).
func crashRun(c cfg, hist []string, only *cutRef) (st crashStats) {
	st.Outcomes = map[string]int{}
	st.Where = map[string]int{}
	basedir := ev.Scratch("c19c")
	defer os.RemoveAll(basedir)
	r := &runner{c: c, dir: filepath.Join(basedir, "db")}
	harness := func(f string, a ...interface{}) { st.HarnessErrors = append(st.HarnessErrors, fmt.Sprintf(f, a...)) }
	if v := r.start(true); v != nil {
		harness("history fails at open: %s", v.What)
		return
	}
	for _, e := range hist {
		if v := r.step(e); v != nil {
			r.rec.Stop()
			harness("history fails before the crash enumeration: %s: %s", v.Key, v.What)
			return
		}
	}
	r.rec.Stop()
	log := crashfs.Convert(r.rec.Effects())
	// conformance of the effect-log model: full log == real directory (store still open)
	if err := crashfs.Conformance(log, r.dir, "", r.dir, filepath.Join(basedir, "conf")); err != nil {
		harness("effect log does not reproduce the real directory: %v", err)
		r.db.Close()
		return
	}
	st.Conformance++
	func() {
		// releasing the instance may hit a defect the state-mode part reports (sync()
		// on a pending record whose data was freed); irrelevant for the recorded log
		defer func() { recover() }()
		r.db.Close()
	}()
	st.Logs++
	st.Effects = len(log)
	last := len(hist) - 1
	from := 0
	before := newModel()
	if last >= 0 {
		from = r.evStart[last]
		if last > 0 {
			before = r.snaps[last-1]
		}
	}
	after := r.m
	lastEv := "open"
	if last >= 0 {
		lastEv = hist[last]
	}
	cfgJSON, _ := json.Marshal(c)
	cuts := crashfs.CutsFrom(log, from)
	if only != nil {
		cuts = []crashfs.Cut{{N: only.N, Torn: only.Torn}}
	}
	var logText []string
	if rl, err := crashfs.Relativize(log, r.dir); err == nil {
		for i, e := range rl {
			logText = append(logText, fmt.Sprintf("%d: %v", i, e))
		}
	}
	scratch := filepath.Join(basedir, "cuts")
	os.MkdirAll(scratch, 0o770)
	if only == nil && len(log) > from {
		// one real SIGKILL per enumerated log, at a rotating effect of the last event
		killCounter++
		at := from + killCounter%(len(log)-from)
		for at < len(log) && !log[at].Mutates() {
			at++
		}
		if at < len(log) {
			kd := filepath.Join(basedir, "killed")
			hj, _ := json.Marshal(hist)
			exe, _ := os.Executable()
			res := crashfs.RunChild(exe, []string{"--killchild", kd, "--killat", fmt.Sprint(at), "--cfg", string(cfgJSON), "--hist", string(hj)}, nil, watchdogDur)
			if res.Class != "signal" {
				harness("real-kill validation: child was to be killed before effect %d (%v) but ended as %v; stderr: %s", at, log[at], res, tail(res.Stderr, 300))
				return
			}
			md := filepath.Join(basedir, "killed-model")
			if err := crashfs.Materialise(log, r.dir, "", md, crashfs.Cut{N: at}); err != nil {
				harness("real-kill validation: %v", err)
				return
			}
			if err := crashfs.CompareDirs(kd, md); err != nil {
				harness("real-kill validation: the directory left by a process killed before effect %d (%v) differs from the materialised prefix: %v", at, log[at], err)
				return
			}
			st.RealKills++
			os.RemoveAll(kd)
			os.RemoveAll(md)
		}
	}
	err := crashfs.Enumerate(log, r.dir, "", scratch, cuts, func(cut crashfs.Cut, dir string, _ []string) bool {
		st.Cuts++
		if cut.Torn > 0 {
			st.Torn++
		}
		complete := cut.N == len(log) && cut.Torn == 0
		var allowed [nKeys + 1]map[int]bool
		for k := 1; k <= 2; k++ {
			a := map[int]bool{after.Dur[k]: true}
			for _, x := range after.Later[k] {
				a[x] = true
			}
			if !complete {
				a[before.Dur[k]] = true
				for _, x := range before.Later[k] {
					a[x] = true
				}
				a[after.Mem[k]] = true
			}
			allowed[k] = a
		}
		sig, _ := json.Marshal(allowed)
		dh, _ := crashfs.DirHash(dir)
		sk := c.Name + "|" + dh + "|" + string(sig)
		// where: the effect just before the cut (or the torn one)
		var where string
		if cut.Torn > 0 {
			where = fmt.Sprintf("torn=%s:%s", log[cut.N].Op, base(log[cut.N].Path))
			if log[cut.N].Off == 0 && len(log[cut.N].Data) == 4 {
				where += "@header"
			}
		} else if cut.N > 0 {
			where = fmt.Sprintf("after=%s:%s", log[cut.N-1].Op, base(log[cut.N-1].Path))
		} else {
			where = "after=nothing"
		}
		st.Where[kindOf(lastEv)+"/"+where]++
		if only == nil && crashSeen[sk] != "" {
			st.DupSkipped++
			if o := crashSeen[sk]; o != "ok" {
				st.Outcomes[o+" (same directory and oracle as an earlier case)"]++
			}
			return false
		}
		fail := func(sym, f string, a ...interface{}) {
			next := "end of the event"
			if cut.N < len(log) {
				next = log[cut.N].String()
			}
			crashSeen[sk] = sym
			st.Viols = append(st.Viols, &violation{
				Key: fmt.Sprintf("crash/%s/%s", where, sym),
				What: fmt.Sprintf("history %v, process dies during %q at effect %d of %d (%s; next effect: %s): ", hist, lastEv, cut.N, len(log), where, next) +
					fmt.Sprintf(f, a...),
				Trace: hist, Cut: &cutRef{N: cut.N, Torn: cut.Torn, Desc: c.Desc}, Log: logText})
		}
		st.Recoveries++
		res := crashfs.Recover(dir, []string{"--cfg", string(cfgJSON)}, watchdogDur)
		if res.Died() {
			ph := "first-open"
			if m := reRPhase.FindAllSubmatch(res.Stderr, -1); len(m) > 0 {
				ph = string(m[len(m)-1][1])
			}
			if ph == "first-open" {
				st.Outcomes["first-open-died:"+res.Class]++
				d := reNum.ReplaceAllString(res.Detail, "N")
				if len(d) > 70 {
					d = d[:70]
				}
				fail("first-open-died:"+res.Class+":"+d, "the recovering process dies while opening the store: %v; stderr: %s", res, tail(res.Stderr, 300))
			} else {
				st.Outcomes["continuation-fails"]++
				fail("continuation-fails", "the store reopens with allowed content, but then the process dies in [%s]: %v; stderr: %s", ph, res, tail(res.Stderr, 300))
			}
			return false
		}
		var out recoverOut
		if err := json.Unmarshal(bytes.TrimSpace(res.Stdout), &out); err != nil {
			harness("recovery output unreadable: %v: %q", err, tail(res.Stdout, 200))
			return true
		}
		if out.Err != "" {
			st.Outcomes["first-open-error"]++
			fail("first-open-error", "the store does not open: %s", out.Err)
			return false
		}
		ok := true
		npresent := 0
		for k := 1; k <= 2; k++ {
			got := out.D1[fmt.Sprint(k)]
			if got >= 0 {
				npresent++
			}
			if allowed[k][got] {
				continue
			}
			ok = false
			var al []string
			for id := range allowed[k] {
				al = append(al, idName(id))
			}
			sort.Strings(al)
			ever := false
			for _, x := range after.Ever[k] {
				if x == got {
					ever = true
				}
			}
			switch {
			case got == -2 || (got >= 0 && !ever):
				st.Outcomes["value-never-written"]++
				fail("first-open:value-never-written", "after recovery key %d holds %s, which was never written to it (allowed: %v)", k, idName(got), al)
			default:
				st.Outcomes["synced-value-lost"]++
				fail("first-open:synced-value-lost", "after recovery key %d holds %s; its last synced value or a later written one is required (allowed: %v)", k, idName(got), al)
			}
		}
		if !ok {
			return false
		}
		if out.D1["3"] != -1 {
			st.Outcomes["phantom-key"]++
			fail("first-open:phantom-key", "after recovery key 3 (never used) holds %s", idName(out.D1["3"]))
			return false
		}
		bOK := len(out.B1) == npresent && out.C1 == npresent
		for k := 1; k <= 2; k++ {
			if g := out.D1[fmt.Sprint(k)]; g >= 0 {
				if b, in := out.B1[fmt.Sprint(k)]; !in || b != g {
					bOK = false
				}
			}
		}
		if !bOK {
			st.Outcomes["inconsistent-views"]++
			fail("first-open:inconsistent-views", "after recovery Get, BrowseAll and Count disagree: get=%v browse=%v count=%d", out.D1, out.B1, out.C1)
			return false
		}
		// continuation: D2 = D1 + {3: post}, D3 = D2
		want := map[string]int{"1": out.D1["1"], "2": out.D1["2"], "3": 4}
		same := func(d map[string]int) bool { return d["1"] == want["1"] && d["2"] == want["2"] && d["3"] == want["3"] }
		if !same(out.D2) || out.C2 != npresent+1 {
			st.Outcomes["continuation-fails"]++
			fail("continuation-fails", "the recovered store stops behaving as a map: it held %v; after put(3)+sync+close+reopen it holds %v (count %d), expected %v", out.D1, out.D2, out.C2, want)
			return false
		}
		if !same(out.D3) || out.C3 != npresent+1 {
			st.Outcomes["continuation-fails"]++
			fail("continuation-fails", "the recovered store stops behaving as a map: after defrag+close+reopen it holds %v (count %d), expected %v", out.D3, out.C3, want)
			return false
		}
		st.Outcomes["ok"]++
		crashSeen[sk] = "ok"
		if len(st.Samples) < 2 && (cut.N+cut.Torn)%7 == 3 {
			st.Samples = append(st.Samples, fmt.Sprintf("cfg=%s desc=%v history=%v crash at effect %d/%d torn=%d (%s): recovered %v, after continuation %v -> ok", c.Name, c.Desc, hist, cut.N, len(log), cut.Torn, where, out.D1, out.D3))
		}
		return false
	})
	if err != nil {
		harness("enumeration: %v", err)
	}
	return
}

func kindOf(e string) string {
	if i := strings.IndexAny(e, "0123456789:"); i > 0 {
		return e[:i]
	}
	return e
}

func tail(b []byte, n int) string {
	if len(b) > n {
		b = b[len(b)-n:]
	}
	return strings.ReplaceAll(strings.TrimSpace(string(b)), "\n", " | ")
}

// ---------------------------------------------------------------------------
// worker protocol

type job struct {
	Cfg    cfg      `json:"cfg"`
	Hist   []string `json:"hist"`
	Events []string `json:"events"`
	Crash  bool     `json:"crash"`
	Force  bool     `json:"force"` // audit even a state diagnosed as damaged
}

type reply struct {
	Results []result     `json:"results,omitempty"`
	Crash   []crashStats `json:"crash,omitempty"`
}

func handle(line []byte) []byte {
	var j job
	if err := json.Unmarshal(line, &j); err != nil {
		ev.HarnessError("worker: bad job: %v", err)
	}
	var rep reply
	switch {
	case j.Crash:
		rep.Crash = append(rep.Crash, crashRun(j.Cfg, j.Hist, nil))
		// the other key order of the sync / defrag loops gives another effect history
		c2 := j.Cfg
		c2.Desc = !c2.Desc
		rep.Crash = append(rep.Crash, crashRun(c2, j.Hist, nil))
	case j.Events == nil:
		rep.Results = append(rep.Results, replay(j.Cfg, j.Hist, true, j.Force))
	default:
		for _, e := range j.Events {
			r := replay(j.Cfg, append(append([]string(nil), j.Hist...), e), true, j.Force)
			r.Ev = e
			rep.Results = append(rep.Results, r)
		}
	}
	b, _ := json.Marshal(rep)
	return b
}

// ---------------------------------------------------------------------------
// explorer

type explorer struct {
	run          *ev.Run
	pool         *crashfs.Pool
	menu         []string
	evCnt        map[string]int64
	violCnt      map[string]int
	deaths       int64
	auditSkipped int64
	crash        crashStats
	crashJobs    int
	crashCap     int
	crashCapHit  bool
	doomed       int

	crashSkippedBudget int64
	crashEligible      int
	mu                 sync.Mutex
}

var doomedShown sync.Map

var reDiag = regexp.MustCompile(`(?m)^C19-DIAG (.*)$`)

func (x *explorer) doRaw(j job) (reply, *crashfs.Result) {
	b, _ := json.Marshal(j)
	rep, death, err := x.pool.Do(b)
	if err != nil {
		ev.HarnessError("worker pool: %v", err)
	}
	var r reply
	if death == nil {
		if err := json.Unmarshal(rep, &r); err != nil {
			ev.HarnessError("bad worker reply: %v", err)
		}
	}
	return r, death
}

// do runs an expansion job; a worker death is attributed by re-running event by event.
func (x *explorer) do(j job) []result {
	r, death := x.doRaw(j)
	if death == nil {
		return r.Results
	}
	atomic.AddInt64(&x.deaths, 1)
	if len(j.Events) <= 1 {
		e := ""
		if len(j.Events) == 1 {
			e = j.Events[0]
		}
		d := death.Detail
		if len(d) > 80 {
			d = d[:80]
		}
		hist := append(append([]string(nil), j.Hist...), j.Events...)
		kind := e
		if i := strings.IndexAny(kind, "0123456789:"); i > 0 {
			kind = kind[:i]
		}
		where := "during " + e
		if m := regexp.MustCompile(`(?m)^C19-PHASE (.*)$`).FindAllSubmatch(death.Stderr, -1); len(m) > 0 {
			where = string(m[len(m)-1][1])
		}
		v := &violation{Key: fmt.Sprintf("died/%s:%s/in=%s", death.Class, d, kind),
			What:  fmt.Sprintf("history %v: the process running the store dies (%s): %v; stderr: %s", hist, where, death, tail(death.Stderr, 300)),
			Trace: hist}
		if m := reDiag.FindSubmatch(death.Stderr); m != nil {
			v = classifyDeath(v, string(m[1]))
		}
		return []result{{Ev: e, Viol: v}}
	}
	var out []result
	for _, e := range j.Events {
		out = append(out, x.do(job{Cfg: j.Cfg, Hist: j.Hist, Events: []string{e}, Force: j.Force})...)
	}
	return out
}

func (x *explorer) confirm(c cfg, hist []string, v *violation) bool {
	for k := 0; k < 2; k++ {
		var j job
		if len(hist) == 0 {
			j = job{Cfg: c, Hist: hist}
		} else {
			j = job{Cfg: c, Hist: hist[:len(hist)-1], Events: hist[len(hist)-1:]}
		}
		j.Force = true
		rs := x.do(j)
		if len(rs) != 1 || rs[0].Viol == nil || rs[0].Viol.Key != v.Key {
			return false
		}
	}
	return true
}

var reported sync.Map

func (x *explorer) report(c cfg, hist []string, v *violation) {
	if _, dup := reported.LoadOrStore(v.Key+"|"+c.Name, true); dup {
		return
	}
	if !x.confirm(c, hist, v) {
		x.mu.Lock()
		x.run.Unrepro = append(x.run.Unrepro, fmt.Sprintf("%s cfg=%s history=%v", v.Key, c.Name, hist))
		x.mu.Unlock()
		fmt.Fprintf(os.Stderr, "UNREPRODUCIBLE %s cfg=%s history=%v\n", v.Key, c.Name, hist)
		return
	}
	x.run.Report(v.Key, fmt.Sprintf("[cfg %s] history %v: %s", c.Name, hist, v.What),
		map[string]interface{}{"cfg": c, "events": hist, "trace": v.Trace})
}

// crashJob runs the crash enumeration for one history (both key orders).
func (x *explorer) crashJob(c cfg, hist []string) {
	r, death := x.doRaw(job{Cfg: c, Hist: hist, Crash: true})
	if death != nil {
		ev.HarnessError("crash worker died on history %v (cfg %s): %v; stderr: %s", hist, c.Name, death, tail(death.Stderr, 400))
	}
	x.mu.Lock()
	defer x.mu.Unlock()
	for i, cs := range r.Crash {
		if len(cs.HarnessErrors) > 0 {
			ev.HarnessError("crash enumeration, history %v (cfg %s): %v", hist, c.Name, cs.HarnessErrors)
		}
		x.crash.Logs += cs.Logs
		x.crash.Effects += cs.Effects
		x.crash.Cuts += cs.Cuts
		x.crash.Torn += cs.Torn
		x.crash.Recoveries += cs.Recoveries
		x.crash.DupSkipped += cs.DupSkipped
		x.crash.Conformance += cs.Conformance
		x.crash.RealKills += cs.RealKills
		for k, n := range cs.Outcomes {
			x.crash.Outcomes[k] += n
		}
		for k, n := range cs.Where {
			x.crash.Where[k] += n
		}
		for _, sm := range cs.Samples {
			if len(x.crash.Samples) < 5 {
				x.crash.Samples = append(x.crash.Samples, sm)
			}
		}
		cc := c
		if i == 1 {
			cc.Desc = !cc.Desc
		}
		for _, v := range cs.Viols {
			x.violCnt[v.Key]++
			cand := pendingCrash{cc, hist, v}
			if cur, ok := pending[v.Key]; !ok || cand.less(cur) {
				pending[v.Key] = cand
			}
		}
	}
}

type pendingCrash struct {
	c    cfg
	hist []string
	v    *violation
}

// per key the simplest failing case (shortest history, earliest crash point): the
// reported example does not depend on worker scheduling
var pending = map[string]pendingCrash{}

func (a pendingCrash) less(b pendingCrash) bool {
	if len(a.hist) != len(b.hist) {
		return len(a.hist) < len(b.hist)
	}
	ha, hb := strings.Join(a.hist, " "), strings.Join(b.hist, " ")
	if ha != hb {
		return ha < hb
	}
	if a.c.Name != b.c.Name {
		return a.c.Name < b.c.Name
	}
	if a.c.Desc != b.c.Desc {
		return !a.c.Desc
	}
	if a.v.Cut.N != b.v.Cut.N {
		return a.v.Cut.N < b.v.Cut.N
	}
	return a.v.Cut.Torn < b.v.Cut.Torn
}

type cfgStats struct {
	States, Trans, Depth int
	PerDepth             []int
}

type node struct{ hist []string }

type search struct {
	c        cfg
	seen     map[string]struct{}
	frontier []node
	st       cfgStats
	dead     bool
}

func (x *explorer) exploreAll(cfgs []cfg, depth int, samples *ev.Samples) []*search {
	ss := make([]*search, len(cfgs))
	for i, c := range cfgs {
		s := &search{c: c, seen: map[string]struct{}{}}
		ss[i] = s
		root := x.do(job{Cfg: c, Hist: []string{}})
		if len(root) != 1 {
			ev.HarnessError("no root result")
		}
		if root[0].Viol != nil {
			x.report(c, nil, root[0].Viol)
			s.dead = true
			continue
		}
		s.seen[root[0].Key] = struct{}{}
		s.frontier = []node{{nil}}
		s.st.States = 1
		s.st.PerDepth = []int{1}
	}
	type item struct{ si, fi int }
	for d := 0; d < depth; d++ {
		var items []item
		for si, s := range ss {
			for fi := range s.frontier {
				items = append(items, item{si, fi})
			}
		}
		if len(items) == 0 {
			break
		}
		results := make([][]result, len(items))
		var wg sync.WaitGroup
		var next int64 = -1
		var capped int32
		for w := 0; w < runtime.NumCPU(); w++ {
			wg.Add(1)
			go func() {
				defer wg.Done()
				for {
					k := int(atomic.AddInt64(&next, 1))
					if k >= len(items) {
						return
					}
					if k%16 == 0 && x.run.OverBudget() {
						atomic.StoreInt32(&capped, 1)
					}
					if atomic.LoadInt32(&capped) != 0 {
						return
					}
					it := items[k]
					results[k] = x.do(job{Cfg: ss[it.si].c, Hist: ss[it.si].frontier[it.fi].hist, Events: x.menu})
				}
			}()
		}
		wg.Wait()
		nexts := make([][]node, len(ss))
		type cj struct {
			c    cfg
			hist []string
		}
		var crashJobs []cj
		for k, rs := range results {
			it := items[k]
			s := ss[it.si]
			for _, r := range rs {
				s.st.Trans++
				kind := r.Ev
				if i := strings.IndexAny(kind, "0123456789:"); i > 0 {
					kind = kind[:i]
				}
				x.evCnt[kind]++
				if r.AuditSkipped {
					x.auditSkipped++
				}
				h := append(append([]string(nil), s.frontier[it.fi].hist...), r.Ev)
				if r.Doomed != "" {
					x.doomed++
					if _, done := doomedShown.LoadOrStore(s.c.Name, true); done {
						continue // not expanded: same diagnosis as a state already demonstrated to kill the process
					}
					rs := x.do(job{Cfg: s.c, Hist: s.frontier[it.fi].hist, Events: []string{r.Ev}, Force: true})
					if len(rs) == 1 && rs[0].Viol != nil {
						r.Viol = rs[0].Viol
					} else {
						// the diagnosis has no observable consequence here: an ordinary state
						fmt.Fprintf(os.Stderr, "note: history %v (cfg %s): record diagnosed as damaged (%s) but the audit passes\n", h, s.c.Name, r.Doomed)
						doomedShown.Delete(s.c.Name)
						x.doomed--
					}
				}
				if r.Viol != nil {
					x.violCnt[r.Viol.Key]++
					x.report(s.c, h, r.Viol)
					continue
				}
				if _, ok := s.seen[r.Key]; !ok {
					s.seen[r.Key] = struct{}{}
					nexts[it.si] = append(nexts[it.si], node{h})
					if len(h) >= 4 {
						samples.Add(map[string]interface{}{"cfg": s.c.Name, "history": h})
					}
					if r.Fx > 0 {
						crashJobs = append(crashJobs, cj{s.c, h})
					}
				}
			}
		}
		// crash enumeration for the tree edges of this level that touched the disk
		// (breadth-first order, interleaved over the configurations, capped)
		nEligible := len(crashJobs)
		// the pass's cap is shared out over the levels still to come (what a shallow
		// level does not use is carried over), so that deep histories are enumerated too
		room := (x.crashCap - x.crashJobs) / (depth - d)
		if len(crashJobs) > room {
			if room < 0 {
				room = 0
			}
			// an even spread over the level (fixed stride), not its head
			var pick []cj
			for i := 0; i < room; i++ {
				pick = append(pick, crashJobs[i*len(crashJobs)/room])
			}
			crashJobs = pick
			x.crashCapHit = true
		}
		x.crashJobs += len(crashJobs)
		x.crashEligible += nEligible
		var nextc int64 = -1
		for w := 0; w < runtime.NumCPU(); w++ {
			wg.Add(1)
			go func() {
				defer wg.Done()
				for {
					k := int(atomic.AddInt64(&nextc, 1))
					if k >= len(crashJobs) {
						return
					}
					if x.run.OverBudget() {
						atomic.AddInt64(&x.crashSkippedBudget, 1)
						continue
					}
					x.crashJob(crashJobs[k].c, crashJobs[k].hist)
				}
			}()
		}
		wg.Wait()
		if capped != 0 {
			for _, s := range ss {
				s.st.States = len(s.seen)
			}
			break
		}
		for si, s := range ss {
			s.st.States = len(s.seen)
			s.st.Depth = d + 1
			s.st.PerDepth = append(s.st.PerDepth, len(nexts[si]))
			s.frontier = nexts[si]
		}
	}
	return ss
}

// confirmCrash re-runs the crash enumeration of one history for one cut, twice.
func confirmCrash(p pendingCrash) bool {
	for i := 0; i < 2; i++ {
		st := crashRun(p.c, p.hist, p.v.Cut)
		if len(st.HarnessErrors) > 0 || len(st.Viols) == 0 || st.Viols[0].Key != p.v.Key {
			return false
		}
	}
	return true
}

func doReplay(file string) {
	b, err := os.ReadFile(file)
	if err != nil {
		ev.HarnessError("%v", err)
	}
	var rec struct {
		Replay struct {
			Cfg    cfg      `json:"cfg"`
			Events []string `json:"events"`
			Cut    *cutRef  `json:"cut"`
		} `json:"replay"`
	}
	if err := json.Unmarshal(b, &rec); err != nil {
		ev.HarnessError("%v", err)
	}
	rp := rec.Replay
	fmt.Fprintf(ev.Out, "replay: cfg %+v, history %v\n", rp.Cfg, rp.Events)
	if rp.Cut != nil {
		fmt.Fprintf(ev.Out, "replay: crash at effect %d (torn %d)\n", rp.Cut.N, rp.Cut.Torn)
		st := crashRun(rp.Cfg, rp.Events, rp.Cut)
		if len(st.HarnessErrors) > 0 {
			ev.HarnessError("%v", st.HarnessErrors)
		}
		if len(st.Viols) == 0 {
			fmt.Fprintln(ev.Out, "replay: recovery passes")
			os.Exit(0)
		}
		fmt.Fprintf(ev.Out, "replay: %s: %s\n", st.Viols[0].Key, st.Viols[0].What)
		os.Exit(1)
	}
	// the store may kill the process: run the history in a child
	pool := crashfs.NewPool(1, []string{"--worker"}, nil, watchdogDur)
	x := &explorer{pool: pool}
	var j job
	if len(rp.Events) == 0 {
		j = job{Cfg: rp.Cfg, Hist: rp.Events}
	} else {
		j = job{Cfg: rp.Cfg, Hist: rp.Events[:len(rp.Events)-1], Events: rp.Events[len(rp.Events)-1:]}
	}
	j.Force = true
	rs := x.do(j)
	pool.Close()
	if len(rs) == 1 && rs[0].Viol == nil {
		fmt.Fprintln(ev.Out, "replay: history passes")
		os.Exit(0)
	}
	for _, r := range rs {
		if r.Viol != nil {
			fmt.Fprintf(ev.Out, "replay: %s: %s\n", r.Viol.Key, r.Viol.What)
		}
	}
	os.Exit(1)
}

func quiet() {
	if f, err := os.OpenFile(os.DevNull, os.O_WRONLY, 0); err == nil {
		os.Stdout = f
	}
}

func main() {
	r := ev.Start("C19", "model_checking")
	quiet()
	if *workerMode {
		crashfs.ServeWorker(handle)
		return
	}
	if *recoverDir != "" {
		recoverMain(*recoverDir, *recoverCfg)
		return
	}
	if *killDir != "" {
		killChild(*killDir, *killAt, *recoverCfg, *killHist)
		return
	}
	if *replayFile != "" {
		doReplay(*replayFile)
		return
	}
	if pf := os.Getenv("C19_BENCH"); pf != "" {
		f, _ := os.Create(pf)
		pprof.StartCPUProfile(f)
		t0 := time.Now()
		for i := 0; i < 2000; i++ {
			replay(allCfgs()[0], []string{"put1:3", "put2:2", "brw:0", "reopen"}, true, false)
		}
		pprof.StopCPUProfile()
		fmt.Fprintln(ev.Out, "bench: per replay", time.Since(t0)/2000)
		return
	}
	// passes: (menu, depth bound, cap on crash-enumerated histories)
	type pass struct {
		Menu     string `json:"menu"`
		Depth    int    `json:"depth_bound"`
		CrashCap int    `json:"crash_history_cap"`
	}
	passes := []pass{{"small", 4, 600}}
	r.Budget = 110 * time.Second
	if r.Thorough() {
		passes = []pass{{"full", 4, 2500}, {"small", 5, 2500}}
		r.Budget = 18 * time.Minute
	}
	if d := os.Getenv("C19_DEPTH"); d != "" {
		p := pass{Menu: "small"}
		fmt.Sscan(strings.ReplaceAll(d, ",", " "), &p.Depth, &p.CrashCap)
		if m := os.Getenv("C19_MENU"); m != "" {
			p.Menu = m
		}
		passes = []pass{p}
	}
	x := &explorer{run: r, evCnt: map[string]int64{}, violCnt: map[string]int{},
		pool: crashfs.NewPool(runtime.NumCPU(), []string{"--worker"}, []string{"GOGC=400", "GOMAXPROCS=2"}, 2*watchdogDur)}
	x.crash.Outcomes = map[string]int{}
	x.crash.Where = map[string]int{}
	samples := &ev.Samples{N: 4}
	cfgs := allCfgs()
	if only := os.Getenv("C19_CFG"); only != "" {
		var l []cfg
		for _, c := range cfgs {
			if c.Name == only {
				l = append(l, c)
			}
		}
		cfgs = l
	}
	per := map[string]interface{}{}
	states, trans, exhaustive := 0, 0, true
	var passInfo []interface{}
	for _, p := range passes {
		x.menu = menu(p.Menu == "full")
		x.crashCap = x.crashJobs + p.CrashCap
		ss := x.exploreAll(cfgs, p.Depth, samples)
		pst, ptr, minDepth := 0, 0, p.Depth
		for _, s := range ss {
			per[p.Menu+"-menu/"+s.c.Name] = map[string]interface{}{"cfg": s.c, "states": s.st.States, "transitions": s.st.Trans, "depth_bound": p.Depth, "depth_completed": s.st.Depth, "new_states_per_depth": s.st.PerDepth}
			pst += s.st.States
			ptr += s.st.Trans
			if s.st.Depth < minDepth && !s.dead {
				minDepth = s.st.Depth
			}
		}
		if minDepth < p.Depth {
			exhaustive = false
		}
		states += pst
		trans += ptr
		passInfo = append(passInfo, map[string]interface{}{"menu": p.Menu, "events_in_menu": len(x.menu), "menu_events": x.menu, "depth_bound": p.Depth, "min_depth_completed": minDepth,
			"states": pst, "transitions": ptr, "crash_history_cap": p.CrashCap})
	}
	x.pool.Close()
	// crash violations: confirm each (new key) twice in this process, then report
	var pkeys []string
	for k := range pending {
		pkeys = append(pkeys, k)
	}
	sort.Strings(pkeys)
	for _, k := range pkeys {
		p := pending[k]
		if !confirmCrash(p) {
			r.Unrepro = append(r.Unrepro, fmt.Sprintf("%s cfg=%s history=%v", p.v.Key, p.c.Name, p.hist))
			continue
		}
		r.Report(p.v.Key, fmt.Sprintf("[cfg %s, key order desc=%v] %s", p.c.Name, p.c.Desc, p.v.What),
			map[string]interface{}{"cfg": p.c, "events": p.hist, "cut": p.v.Cut, "effect_log": p.v.Log})
	}
	distinct := len(x.crash.Where) // distinct (event kind, effect position) classes with a crash point
	outcomeClasses := 0
	for k, n := range x.crash.Outcomes {
		if n > 0 && !strings.Contains(k, "(same directory") {
			outcomeClasses++
		}
	}
	cov := map[string]interface{}{
		"states":                               states,
		"transitions":                          trans,
		"traces_validated_against_impl":        trans,
		"configurations":                       len(cfgs),
		"passes":                               passInfo,
		"per_pass_and_configuration":           per,
		"transitions_per_event_kind":           x.evCnt,
		"violating_histories_per_key":          x.violCnt,
		"worker_processes_started":             x.pool.Spawned,
		"worker_deaths":                        x.deaths,
		"states_not_expanded_damaged_record":   x.doomed,
		"audits_skipped_state_already_audited": x.auditSkipped,
		"samples":                              samples.L,
		"fault_enumeration": map[string]interface{}{
			"level":                      "fault_enumeration",
			"histories_crash_enumerated": x.crashJobs,
			"histories_eligible":         x.crashEligible,
			"histories_skipped_budget":   x.crashSkippedBudget,
			"history_cap":                x.crashCap,
			"history_cap_hit":            x.crashCapHit,
			"exhaustive":                 !x.crashCapHit && x.crashSkippedBudget == 0, // over the eligible histories of the explored depth
			"effect_logs":                x.crash.Logs,
			"effect_logs_reproducing_the_real_directory_byte_for_byte":     x.crash.Conformance,
			"real_SIGKILLs_whose_directory_equals_the_materialised_prefix": x.crash.RealKills,
			"crash_points":            x.crash.Cuts,
			"torn_write_crash_points": x.crash.Torn,
			"evaluations":             x.crash.Recoveries,
			"recoveries_skipped_same_directory_and_same_oracle": x.crash.DupSkipped,
			"outcomes": x.crash.Outcomes,
			"crash_points_per_event_kind_and_position": x.crash.Where,
			"distinct_nontrivial":                      distinct,
			"distinct_outcome_classes":                 outcomeClasses,
			"rule": "a crash case is (configuration, history, effect index inside the last event, torn length); distinct_nontrivial counts the distinct classes (kind of the interrupted event, " +
				"file operation at the crash point: create/write/torn write/sync/remove of data file, index snapshot, index log) at which a directory was materialised and judged; " +
				"outcome classes: ok / first open died / value never written / synced value lost / continuation fails; crash points are enumerated inside the last event of every " +
				"history that discovered a new state and touched the disk (earlier events' crash points belong to the shorter histories), for both key orders of the sync/defrag loops",
			"samples": x.crash.Samples,
		},
		"rule": "state = shortest history reaching it; each transition is a full replay of history+event on a fresh qdb.DB in a fresh directory (worker process), compared with the map model " +
			"after every event (Count after every event), followed by an audit of the reached state (Get all, BrowseAll, close+reopen, Get all, BrowseAll); " +
			"state key = (model map, flags, pending set, durable map, NoSync, per-record data-file sequence / flags / cached, data-file and index sequence numbers, open files, defrag thresholds as booleans, directory listing)",
	}
	if !exhaustive {
		cov["exhaustive"] = false
	}
	r.Finish(cov, []string{
		"oracle = Go map; values are key-specific byte strings so that a value under the wrong key is recognised",
		"'synced' = sync() returned: explicit Sync, pending threshold (MaxPending / MaxPendingNoSync, mirrored by the model), Defrag that reported work, Close",
		"process-death semantics: every completed file operation persists, a final write may be torn (every byte for writes <= 256 bytes, else 1, multiples of 4096, len-1); no power-loss reordering",
		"NO_BROWSE set by ApplyFlags or by a browse callback is judged only until the next restart unless the record was written afterwards; NO_CACHE is not observable and not judged",
		"state key leaves out record positions and exact space counters (DESIGN C19 K): merged states may differ in them; every reported violation is a real execution",
		"map iteration order of qdb's sync loop and index browse is replaced by an explicit key order (ascending / descending, both explored in the crash part) through the build overlay",
		"after a crash the recovered store is exercised further: put(3)+sync+close+reopen and defrag+close+reopen must preserve the recovered map",
	})
}
