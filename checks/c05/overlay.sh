#!/bin/bash
# overlay.sh <builddir> <overlay.json> <repo>: own the clock seen by chain.PreCheckBlock.
set -e
bd="$1"; ov="$2"; repo="$3"
src="$repo/lib/chain/block_check.go"
grep -q '^	"time"$' "$src" || { echo "block_check.go no longer imports time as expected" >&2; exit 1; }
sed 's#^	"time"$#	time "github.com/piotrnar/gocoin/lib/others/vshim/vtime"#' "$src" > "$bd/block_check.go"
python3 - "$ov" "$src" "$bd/block_check.go" "$repo/lib/others/vshim/vtime/vtime.go" /verif/internal/vtime/vtime.go <<'PY'
import json,sys
ov,src,patched,virt,real=sys.argv[1:6]
d=json.load(open(ov))
d.setdefault("Replace",{})
d["Replace"][src]=patched
d["Replace"][virt]=real
json.dump(d,open(ov,"w"))
PY
