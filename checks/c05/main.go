// C05: blocks violating header, structure or commitment rules are never accepted.
// State-mode exploration: chain states (activation boundaries, median-time shapes,
// BIP34 push boundaries, retarget boundaries with seven timespans) x block variants
// (one per rule, next to a valid twin), each followed by a valid block, executed on
// the real chain.Chain with the harness owning the clock.
package main

import (
	"bytes"
	"crypto/sha256"
	"encoding/json"
	"flag"
	"fmt"
	"os"
	"runtime"
	"runtime/debug"
	"sort"
	"strings"
	"sync"
	"sync/atomic"
	"time"

	"github.com/piotrnar/gocoin/lib/others/vshim/vtime"

	"verif/internal/chainx"
	"verif/internal/ev"
	"verif/internal/minichain"
	"verif/ref/refchain"
	"verif/ref/reftx"
)

type OP = refchain.Outpoint

const NOW = 1900000000

var wsOP1 = func() []byte { h := sha256.Sum256([]byte{0x51}); return append([]byte{0x00, 0x20}, h[:]...) }()

// verifier: the trivial language plus P2WSH(OP_1) spent with witness [0x51].
func verify(tx *reftx.Tx, idx int, spent []refchain.Coin, f refchain.Flags) bool {
	pk := spent[idx].Script
	in := &tx.In[idx]
	if bytes.Equal(pk, wsOP1) {
		if !f.Witness {
			return len(in.Script) == 0 // anyone-can-spend before activation (never used)
		}
		return len(in.Script) == 0 && len(in.Witness) == 1 && bytes.Equal(in.Witness[0], []byte{0x51})
	}
	return refchain.Trivial(tx, idx, spent, f)
}

var params = func() refchain.Params {
	p := refchain.DefaultParams()
	p.Verify = verify
	p.SigopCost = refchain.SigOpCost
	return p
}()

func o1(v uint64) reftx.Out { return reftx.Out{Value: v, Script: []byte{0x51}} }

type stateDef struct {
	name  string
	n     uint32
	time  func(h uint32) uint32 // nil: GenesisTime + 600h
	coins bool
	net   int // 0 main rules, 3 / 4: testnet3 / testnet4 difficulty exceptions
}

func buildState(d stateDef) (*chainx.Prefix, string) {
	pp := params
	pp.Net = d.net
	return chainx.TryBuildPrefix("c05-"+d.name, minichain.Opts{Params: pp}, d.n, func(h uint32, s *minichain.Spec, p *chainx.Prefix) {
		if d.time != nil {
			s.Time = d.time(h)
		}
		if !d.coins {
			return
		}
		switch h {
		case 102:
			m := minichain.Spend([]OP{p.Cb[1]}, []reftx.Out{o1(5e8), o1(5e8), o1(5e8), o1(5e8), o1(5e8), o1(5e8), o1(5e8), o1(5e8), {Value: 5e8, Script: wsOP1}, {Value: 5e8, Script: wsOP1}})
			s.Txs = append(s.Txs, m)
			for i := 0; i < 8; i++ {
				p.Named[fmt.Sprint("M", i)] = OP{Tx: m.TxID(), Vout: uint32(i)}
			}
			p.Named["W0"] = OP{Tx: m.TxID(), Vout: 8}
			p.Named["W1"] = OP{Tx: m.TxID(), Vout: 9}
		}
	})
}

type ctx struct {
	p      *chainx.Prefix
	parent *refchain.Node
	height uint32
	req    uint32 // required bits
	mtp    uint32
	flags  refchain.Flags
}

func (c *ctx) spec(tag byte) minichain.Spec {
	t := c.parent.Time + 600
	if t <= c.mtp {
		t = c.mtp + 1
	}
	return minichain.Spec{Prev: c.parent.Hash, Height: c.height, Bits: c.req, Time: t, Tag: tag, CbValue: -1}
}

func (c *ctx) has(n string) bool { _, ok := c.p.Named[n]; return ok }

type variant struct {
	name  string
	bad   bool // violates a rule of the statement
	need  func(c *ctx) bool
	build func(c *ctx) *reftx.Block
	twin  func(c *ctx) *reftx.Block // a VALID block with the same header hash as the refused one (Merkle mutation)
}

func mineFail(b *reftx.Block) {
	t := refchain.Target(b.Bits)
	for n := uint32(0); ; n++ {
		b.Nonce = n
		if !minichain.HashMeets(b.Hash(), t) {
			return
		}
	}
}

func variants() []variant {
	var vs []variant
	add := func(name string, bad bool, need func(c *ctx) bool, build func(c *ctx) *reftx.Block) {
		vs = append(vs, variant{name: name, bad: bad, need: need, build: build})
	}
	coins := func(c *ctx) bool { return c.has("M0") }
	wit := func(c *ctx) bool { return c.has("W0") && c.flags.Witness }
	tag := func() byte { return byte(len(vs) + 1) }
	sp := minichain.Spend

	add("valid-empty", false, nil, func(c *ctx) *reftx.Block { return minichain.Build(c.spec(1)) })
	// ---- proof of work and target ----
	add("pow-hash-above-target", true, nil, func(c *ctx) *reftx.Block {
		b := minichain.Build(c.spec(2))
		mineFail(b)
		return b
	})
	tweakBits := func(name string, f func(req uint32) uint32) {
		t := tag()
		add(name, true, nil, func(c *ctx) *reftx.Block {
			s := c.spec(t)
			b := minichain.Build(s)
			b.Bits = f(c.req)
			if t := refchain.Target(b.Bits); t.Sign() > 0 && t.BitLen() <= 256 && t.BitLen() >= 240 {
				minichain.Mine(b)
			}
			return b
		})
	}
	tweakBits("bits-mantissa-minus-1", func(r uint32) uint32 { return r - 1 })
	tweakBits("bits-mantissa-plus-1", func(r uint32) uint32 { return r + 1 })
	tweakBits("bits-sign-bit-set", func(r uint32) uint32 { return r | 0x00800000 })
	tweakBits("bits-zero-mantissa", func(r uint32) uint32 { return r & 0xff000000 })
	tweakBits("bits-overflow-exponent-ff", func(r uint32) uint32 { return 0xff7fffff })
	tweakBits("bits-exponent-plus-1", func(r uint32) uint32 { return r + 0x01000000 })
	tweakBits("bits-exponent-minus-1", func(r uint32) uint32 { return r - 0x01000000 })
	tweakBits("bits-zero", func(r uint32) uint32 { return 0 })
	tweakBits("bits-tiny-exponent-3", func(r uint32) uint32 { return 0x03000001 })
	// the proof-of-work limit and the parent's target where the rule requires something else
	// (retarget boundaries): skipped by the builder when equal to the required bits
	vs = append(vs, variant{name: "bits-pow-limit-instead-of-required", bad: true,
		need: func(c *ctx) bool { return c.req != minichain.PowBits },
		build: func(c *ctx) *reftx.Block {
			b := minichain.Build(c.spec(90))
			b.Bits = minichain.PowBits
			minichain.Mine(b)
			return b
		}})
	vs = append(vs, variant{name: "bits-parent-instead-of-required", bad: true,
		need: func(c *ctx) bool { return c.req != c.parent.Bits },
		build: func(c *ctx) *reftx.Block {
			b := minichain.Build(c.spec(91))
			b.Bits = c.parent.Bits
			minichain.Mine(b)
			return b
		}})
	// a block stamped more than 20 minutes after its parent: on the test networks it has to carry the
	// limit unless it is at a retarget boundary, elsewhere its timestamp changes nothing (the reference
	// decides; no expectation is attached to these two)
	for i, nm := range []string{"late-block-with-pow-limit-bits", "late-block-with-on-time-bits"} {
		i := i
		vs = append(vs, variant{name: nm,
			need: func(c *ctx) bool { return c.req != minichain.PowBits && c.parent.Time+1201 > c.mtp },
			build: func(c *ctx) *reftx.Block {
				s := c.spec(byte(92 + i))
				s.Time = c.parent.Time + 1201
				b := minichain.Build(s)
				if i == 0 {
					b.Bits = minichain.PowBits
				}
				minichain.Mine(b)
				return b
			}})
	}
	// ---- time ----
	setTime := func(name string, bad bool, f func(c *ctx) uint32) {
		t := tag()
		add(name, bad, nil, func(c *ctx) *reftx.Block {
			s := c.spec(t)
			s.Time = f(c)
			return minichain.Build(s)
		})
	}
	setTime("time-mtp", true, func(c *ctx) uint32 { return c.mtp })
	setTime("time-mtp-minus-1", true, func(c *ctx) uint32 { return c.mtp - 1 })
	setTime("time-mtp-plus-1", false, func(c *ctx) uint32 { return c.mtp + 1 })
	setTime("time-now-plus-7200", false, func(c *ctx) uint32 { return NOW + 7200 })
	setTime("time-now-plus-7201", true, func(c *ctx) uint32 { return NOW + 7201 })
	setTime("time-now-plus-7200-plus-301", true, func(c *ctx) uint32 { return NOW + 7200 + 301 })
	// ---- version ----
	for _, v := range []uint32{0, 1, 2, 3, 4, 5, 0x20000000, 0x7fffffff, 0x80000000, 0xffffffff} {
		v := v
		t := tag()
		vs = append(vs, variant{name: fmt.Sprintf("version-%#x", v), bad: false, need: nil, build: func(c *ctx) *reftx.Block {
			s := c.spec(t)
			b := minichain.Build(s)
			b.Version = v
			minichain.Mine(b)
			return b
		}})
		vs[len(vs)-1].bad = false // decided per height by the reference (dynamic)
	}
	// ---- coinbase shape ----
	cbScript := func(name string, bad bool, need func(*ctx) bool, f func(c *ctx) []byte) {
		t := tag()
		add(name, bad, need, func(c *ctx) *reftx.Block {
			b := minichain.Build(c.spec(t))
			b.Txs[0].In[0].Script = f(c)
			minichain.Seal(b)
			return b
		})
	}
	pad := func(pre []byte, n int, fill byte) []byte {
		s := append([]byte{}, pre...)
		for len(s) < n {
			s = append(s, fill)
		}
		return s[:n]
	}
	cbScript("cb-script-1-byte", true, nil, func(c *ctx) []byte { return pad(refchain.HeightPush(c.height), 1, 0x51) })
	cbScript("cb-script-2-bytes", false, func(c *ctx) bool { return len(refchain.HeightPush(c.height)) <= 2 }, func(c *ctx) []byte { return pad(refchain.HeightPush(c.height), 2, 0x51) })
	cbScript("cb-script-100-bytes", false, nil, func(c *ctx) []byte { return pad(refchain.HeightPush(c.height), 100, 0x51) })
	cbScript("cb-script-101-bytes", true, nil, func(c *ctx) []byte { return pad(refchain.HeightPush(c.height), 101, 0x51) })
	cbScript("cb-script-empty", true, nil, func(c *ctx) []byte { return nil })
	// dynamic (depends on BIP34 activation): height-1, non-minimal
	cbScript("cb-height-minus-1", false, nil, func(c *ctx) []byte { return pad(refchain.HeightPush(c.height-1), 8, 0x51) })
	cbScript("cb-height-plus-1", false, nil, func(c *ctx) []byte { return pad(refchain.HeightPush(c.height+1), 8, 0x51) })
	cbScript("cb-height-nonminimal-push", false, nil, func(c *ctx) []byte {
		var b []byte
		for v := c.height; v > 0; v >>= 8 {
			b = append(b, byte(v))
		}
		if len(b) == 0 {
			b = []byte{0}
		}
		if c.height <= 16 {
			return pad(append([]byte{byte(len(b))}, b...), 8, 0x51) // 01 <h> instead of OP_h
		}
		b = append(b, 0) // padded with a superfluous zero byte
		if b[len(b)-2]&0x80 != 0 {
			b = append(b, 0)
		}
		return pad(append([]byte{byte(len(b))}, b...), 8, 0x51)
	})
	cbScript("cb-height-without-sign-byte", false, nil, func(c *ctx) []byte {
		// the height's bytes without the 0x00 a script number needs when its top bit is set
		// (128 -> 01 80, 32768 -> 02 00 80): differs from the BIP34 push exactly at those heights
		var b []byte
		for v := c.height; v > 0; v >>= 8 {
			b = append(b, byte(v))
		}
		if len(b) == 0 {
			b = []byte{0}
		}
		return pad(append([]byte{byte(len(b))}, b...), 8, 0x51)
	})
	cbScript("cb-height-pushdata1", false, nil, func(c *ctx) []byte {
		h := refchain.HeightPush(c.height)
		if len(h) == 1 {
			return pad([]byte{0x4c, 0x01, byte(c.height)}, 8, 0x51)
		}
		return pad(append([]byte{0x4c}, h...), 8, 0x51)
	})
	add("second-coinbase", true, nil, func(c *ctx) *reftx.Block {
		b := minichain.Build(c.spec(tag()))
		cb2 := &reftx.Tx{Version: 1, In: []reftx.In{{Vout: 0xffffffff, Script: []byte{0x51, 0x52, 0x53}, Sequence: 0xffffffff}}, Out: []reftx.Out{o1(0)}}
		b.Txs = append(b.Txs, cb2)
		minichain.Seal(b)
		return b
	})
	add("first-tx-not-coinbase", true, coins, func(c *ctx) *reftx.Block {
		b := minichain.Build(c.spec(tag()))
		t := sp([]OP{c.p.Named["M0"]}, []reftx.Out{o1(5e8)})
		b.Txs = []*reftx.Tx{t, b.Txs[0]}
		minichain.Seal(b)
		return b
	})
	add("coinbase-missing", true, coins, func(c *ctx) *reftx.Block {
		b := minichain.Build(c.spec(tag()))
		b.Txs = []*reftx.Tx{sp([]OP{c.p.Named["M0"]}, []reftx.Out{o1(5e8)})}
		minichain.Seal(b)
		return b
	})
	// a coinbase has exactly ONE input (the null one): a first transaction with the null input plus an
	// ordinary one is no coinbase, and a later transaction with a null input among ordinary ones is invalid
	for _, nullFirst := range []bool{true, false} {
		nullFirst := nullFirst
		name := "first-tx-null-input-plus-ordinary-input"
		if !nullFirst {
			name = "first-tx-ordinary-input-plus-null-input"
		}
		add(name, true, coins, func(c *ctx) *reftx.Block {
			b := minichain.Build(c.spec(tag()))
			cb := b.Txs[0]
			o := c.p.Named["M0"]
			extra := reftx.In{Prev: o.Tx, Vout: o.Vout, Sequence: 0xffffffff}
			if nullFirst {
				cb.In = append(cb.In, extra)
			} else {
				cb.In = []reftx.In{extra, cb.In[0]}
			}
			minichain.Seal(b)
			return b
		})
	}
	add("second-tx-null-input-plus-ordinary-input", true, coins, func(c *ctx) *reftx.Block {
		s := c.spec(tag())
		t := sp([]OP{c.p.Named["M0"]}, []reftx.Out{o1(5e8)})
		t.In = append([]reftx.In{{Vout: 0xffffffff, Script: []byte{0x51, 0x51}, Sequence: 0xffffffff}}, t.In...)
		s.Txs = []*reftx.Tx{t}
		return minichain.Build(s)
	})
	add("no-transactions", true, nil, func(c *ctx) *reftx.Block {
		b := minichain.Build(c.spec(tag()))
		b.Txs = nil
		b.Merkle = [32]byte{}
		minichain.Mine(b)
		return b
	})
	// ---- finality ----
	lock := func(name string, f func(c *ctx, b *reftx.Block) (lock uint32, seq uint32)) {
		// the transaction under test alone, and as the first / the middle one of three (the per-
		// transaction checks run concurrently: each position must be judged on its own transaction)
		for pos, suffix := range []string{"", "-then-two-final-txs", "-between-two-final-txs"} {
			t := tag()
			pos := pos
			vs = append(vs, variant{name: name + suffix, need: coins, build: func(c *ctx) *reftx.Block {
				s := c.spec(t)
				tx := sp([]OP{c.p.Named["M1"]}, []reftx.Out{o1(5e8)})
				f2 := sp([]OP{c.p.Named["M2"]}, []reftx.Out{o1(5e8)})
				f3 := sp([]OP{c.p.Named["M3"]}, []reftx.Out{o1(5e8)})
				switch pos {
				case 0:
					s.Txs = []*reftx.Tx{tx}
				case 1:
					s.Txs = []*reftx.Tx{tx, f2, f3}
				case 2:
					s.Txs = []*reftx.Tx{f2, tx, f3}
				}
				b := minichain.Build(s)
				tx.LockTime, tx.In[0].Sequence = f(c, b)
				minichain.Seal(b)
				return b
			}})
		}
	}
	lock("lock-height-minus-1", func(c *ctx, b *reftx.Block) (uint32, uint32) { return c.height - 1, 0 })
	lock("lock-height", func(c *ctx, b *reftx.Block) (uint32, uint32) { return c.height, 0 })
	lock("lock-height-final-sequence", func(c *ctx, b *reftx.Block) (uint32, uint32) { return c.height, 0xffffffff })
	lock("lock-height-sequence-fffffffe", func(c *ctx, b *reftx.Block) (uint32, uint32) { return c.height, 0xfffffffe })
	lock("lock-499999999", func(c *ctx, b *reftx.Block) (uint32, uint32) { return 499999999, 0 })
	lock("lock-time-mtp-minus-1", func(c *ctx, b *reftx.Block) (uint32, uint32) { return c.mtp - 1, 0 })
	lock("lock-time-mtp", func(c *ctx, b *reftx.Block) (uint32, uint32) { return c.mtp, 0 })
	lock("lock-time-blocktime-minus-1", func(c *ctx, b *reftx.Block) (uint32, uint32) { return b.Time - 1, 0 })
	lock("lock-time-blocktime", func(c *ctx, b *reftx.Block) (uint32, uint32) { return b.Time, 0 })
	lock("lock-500000000", func(c *ctx, b *reftx.Block) (uint32, uint32) { return 500000000, 0 })
	// the coinbase is a transaction of the block too: its lock time is judged like any other
	// (bad is left false everywhere: the reference decides, as for the lock variants above)
	cblock := func(name string, bad bool, f func(c *ctx, b *reftx.Block) (lock uint32, seq uint32)) {
		for pos, suffix := range []string{"", "-then-two-final-txs"} {
			t := tag()
			pos := pos
			need := func(c *ctx) bool { return true }
			if pos == 1 {
				need = coins
			}
			add(name+suffix, bad, need, func(c *ctx) *reftx.Block {
				s := c.spec(t)
				if pos == 1 {
					s.Txs = []*reftx.Tx{sp([]OP{c.p.Named["M2"]}, []reftx.Out{o1(5e8)}), sp([]OP{c.p.Named["M3"]}, []reftx.Out{o1(5e8)})}
				}
				b := minichain.Build(s)
				b.Txs[0].LockTime, b.Txs[0].In[0].Sequence = f(c, b)
				minichain.Seal(b)
				return b
			})
		}
	}
	cblock("coinbase-lock-height-minus-1", false, func(c *ctx, b *reftx.Block) (uint32, uint32) { return c.height - 1, 0 })
	cblock("coinbase-lock-height", false, func(c *ctx, b *reftx.Block) (uint32, uint32) { return c.height, 0 })
	cblock("coinbase-lock-height-final-sequence", false, func(c *ctx, b *reftx.Block) (uint32, uint32) { return c.height, 0xffffffff })
	cblock("coinbase-lock-height-sequence-fffffffe", false, func(c *ctx, b *reftx.Block) (uint32, uint32) { return c.height, 0xfffffffe })
	cblock("coinbase-lock-time-mtp-minus-1", false, func(c *ctx, b *reftx.Block) (uint32, uint32) { return c.mtp - 1, 0 })
	cblock("coinbase-lock-time-mtp", false, func(c *ctx, b *reftx.Block) (uint32, uint32) { return c.mtp, 0 })
	cblock("coinbase-lock-500000000", false, func(c *ctx, b *reftx.Block) (uint32, uint32) { return 500000000, 0 })
	// ---- merkle ----
	add("merkle-root-wrong", true, nil, func(c *ctx) *reftx.Block {
		b := minichain.Build(c.spec(tag()))
		b.Merkle[0] ^= 1
		minichain.Mine(b)
		return b
	})
	three := func(c *ctx, t byte) *reftx.Block {
		s := c.spec(t)
		s.Txs = []*reftx.Tx{sp([]OP{c.p.Named["M2"]}, []reftx.Out{o1(5e8)}), sp([]OP{c.p.Named["M3"]}, []reftx.Out{o1(5e8)})}
		return minichain.Build(s)
	}
	add("merkle-valid-3-txs", false, coins, func(c *ctx) *reftx.Block { return three(c, tag()) })
	{
		t := tag()
		add("merkle-dup-last-tx-cve-2012-2459", true, coins, func(c *ctx) *reftx.Block {
			b := three(c, t)
			b.Txs = append(b.Txs, b.Txs[2]) // same merkle root, same header hash
			return b
		})
		vs[len(vs)-1].twin = func(c *ctx) *reftx.Block { return three(c, t) }
	}
	// n honest transactions followed by a repeated trailing pair / quad: the duplicate shows up at
	// an INNER level of the tree only (6 -> 8 leaves: level 1; 12 -> 16 leaves: level 2)
	many := func(c *ctx, t byte, n int) *reftx.Block {
		s := c.spec(t)
		base := sp([]OP{c.p.Named["M2"]}, []reftx.Out{o1(1e8), o1(1e8), o1(1e8), o1(1e8), o1(1e8)})
		s.Txs = append(s.Txs, base)
		for i := 3; i <= 7 && len(s.Txs) < n-1; i++ {
			s.Txs = append(s.Txs, sp([]OP{c.p.Named[fmt.Sprint("M", i)]}, []reftx.Out{o1(5e8)}))
		}
		for i := 0; len(s.Txs) < n-1; i++ {
			s.Txs = append(s.Txs, sp([]OP{{Tx: base.TxID(), Vout: uint32(i)}}, []reftx.Out{o1(1e8)}))
		}
		return minichain.Build(s)
	}
	for _, d := range []struct {
		name   string
		n, dup int
	}{{"merkle-dup-inner-pair", 6, 2}, {"merkle-dup-inner-quad", 12, 4}, {"merkle-dup-inner-pair-of-10", 10, 2}} {
		d, t := d, tag()
		add(d.name, true, coins, func(c *ctx) *reftx.Block {
			b := many(c, t, d.n)
			b.Txs = append(b.Txs, b.Txs[d.n-d.dup:]...)
			return b
		})
		vs[len(vs)-1].twin = func(c *ctx) *reftx.Block { return many(c, t, d.n) }
	}
	add("merkle-dup-last-of-2", true, coins, func(c *ctx) *reftx.Block {
		// [cb,t1,t1]: root differs from [cb,t1]; header carries the root of the 3-list: mutated
		s := c.spec(tag())
		s.Txs = []*reftx.Tx{sp([]OP{c.p.Named["M2"]}, []reftx.Out{o1(5e8)})}
		b := minichain.Build(s)
		b.Txs = append(b.Txs, b.Txs[1])
		minichain.Seal(b)
		return b
	})
	// ---- witness commitment ----
	wblock := func(c *ctx, t byte, withWitnessTx bool) *reftx.Block {
		s := c.spec(t)
		if withWitnessTx {
			tx := sp([]OP{c.p.Named["W0"]}, []reftx.Out{o1(5e8)})
			tx.In[0].Witness = [][]byte{{0x51}}
			s.Txs = []*reftx.Tx{tx}
		}
		s.Witness = true
		return minichain.Build(s)
	}
	add("witness-valid", false, wit, func(c *ctx) *reftx.Block { return wblock(c, tag(), true) })
	add("witness-commitment-wrong", true, wit, func(c *ctx) *reftx.Block {
		b := wblock(c, tag(), true)
		o := &b.Txs[0].Out[len(b.Txs[0].Out)-1]
		o.Script = append([]byte{}, o.Script...)
		o.Script[10] ^= 1
		minichain.Seal(b)
		return b
	})
	add("witness-data-without-commitment", true, wit, func(c *ctx) *reftx.Block {
		b := wblock(c, tag(), true)
		b.Txs[0].Out = b.Txs[0].Out[:len(b.Txs[0].Out)-1]
		b.Txs[0].In[0].Witness = nil
		minichain.Seal(b)
		return b
	})
	add("witness-program-spent-without-witness", true, wit, func(c *ctx) *reftx.Block {
		s := c.spec(tag())
		s.Txs = []*reftx.Tx{sp([]OP{c.p.Named["W0"]}, []reftx.Out{o1(5e8)})}
		return minichain.Build(s)
	})
	add("commitment-right-no-witness-txs", false, func(c *ctx) bool { return c.flags.Witness }, func(c *ctx) *reftx.Block { return wblock(c, tag(), false) })
	for _, nz := range []struct {
		name string
		w    [][]byte
	}{{"nonce-missing", nil}, {"nonce-empty-item", [][]byte{{}}}, {"nonce-31", [][]byte{make([]byte, 31)}}, {"nonce-33", [][]byte{make([]byte, 33)}}, {"nonce-two-items", [][]byte{make([]byte, 32), make([]byte, 32)}}} {
		nz := nz
		t := tag()
		add("commitment-"+nz.name, true, func(c *ctx) bool { return c.flags.Witness }, func(c *ctx) *reftx.Block {
			b := wblock(c, t, false)
			b.Txs[0].In[0].Witness = nz.w
			// keep the commitment consistent with the nonce actually present, so that only the nonce shape is wrong
			if len(nz.w) > 0 {
				b.Txs[0].Out[len(b.Txs[0].Out)-1].Script = b.CommitmentScript(nz.w[0])
			}
			minichain.Seal(b)
			return b
		})
	}
	add("two-commitments-last-right", false, wit, func(c *ctx) *reftx.Block {
		b := wblock(c, tag(), true)
		cb := b.Txs[0]
		good := cb.Out[len(cb.Out)-1]
		badc := reftx.Out{Script: append([]byte{}, good.Script...)}
		badc.Script[20] ^= 0xff
		cb.Out = append(cb.Out[:len(cb.Out)-1], badc, good)
		minichain.Seal(b)
		return b
	})
	add("two-commitments-last-wrong", true, wit, func(c *ctx) *reftx.Block {
		b := wblock(c, tag(), true)
		cb := b.Txs[0]
		good := cb.Out[len(cb.Out)-1]
		badc := reftx.Out{Script: append([]byte{}, good.Script...)}
		badc.Script[20] ^= 0xff
		cb.Out = append(cb.Out[:len(cb.Out)-1], good, badc)
		minichain.Seal(b)
		return b
	})
	// a commitment output may be longer than 38 bytes (BIP141: "at least 38 bytes"); the
	// bytes after the hash are not part of the commitment
	for _, extra := range []int{1, 2, 40} {
		extra := extra
		long := func(sc []byte) []byte { return append(append([]byte{}, sc...), make([]byte, extra)...) }
		add(fmt.Sprintf("commitment-%d-bytes-right", 38+extra), false, wit, func(c *ctx) *reftx.Block {
			b := wblock(c, tag(), true)
			o := &b.Txs[0].Out[len(b.Txs[0].Out)-1]
			o.Script = long(o.Script)
			minichain.Seal(b)
			return b
		})
		add(fmt.Sprintf("commitment-%d-bytes-wrong", 38+extra), true, wit, func(c *ctx) *reftx.Block {
			b := wblock(c, tag(), true)
			o := &b.Txs[0].Out[len(b.Txs[0].Out)-1]
			o.Script = long(o.Script)
			o.Script[10] ^= 1
			minichain.Seal(b)
			return b
		})
		add(fmt.Sprintf("two-commitments-last-%d-bytes-wrong", 38+extra), true, wit, func(c *ctx) *reftx.Block {
			b := wblock(c, tag(), true)
			cb := b.Txs[0]
			good := cb.Out[len(cb.Out)-1]
			badc := reftx.Out{Script: long(good.Script)}
			badc.Script[20] ^= 0xff
			cb.Out = append(cb.Out[:len(cb.Out)-1], good, badc)
			minichain.Seal(b)
			return b
		})
		add(fmt.Sprintf("commitment-%d-bytes-nonce-missing", 38+extra), true, func(c *ctx) bool { return c.flags.Witness }, func(c *ctx) *reftx.Block {
			b := wblock(c, tag(), false)
			b.Txs[0].In[0].Witness = nil
			o := &b.Txs[0].Out[len(b.Txs[0].Out)-1]
			o.Script = long(o.Script)
			minichain.Seal(b)
			return b
		})
	}
	add("coinbase-witness-before-activation", true, func(c *ctx) bool { return !c.flags.Witness }, func(c *ctx) *reftx.Block {
		b := minichain.Build(c.spec(tag()))
		b.Txs[0].In[0].Witness = [][]byte{make([]byte, 32)}
		return b
	})
	// ---- weight ----
	weight := func(name string, bad bool, target int) {
		t := tag()
		add(name, bad, func(c *ctx) bool { return c.has("M7") && c.p.Height < 200 }, func(c *ctx) *reftx.Block {
			s := c.spec(t)
			big := sp([]OP{c.p.Named["M7"]}, []reftx.Out{{Value: 5e8, Script: make([]byte, 990000)}})
			for i := range big.Out[0].Script {
				big.Out[0].Script[i] = 0x51
			}
			s.Txs = []*reftx.Tx{big}
			b := minichain.Build(s)
			d := target - b.Weight()
			if d%4 != 0 {
				// a coinbase witness byte weighs 1: make the block segwit-style only if needed
				ev.HarnessError("weight variant: cannot reach %d from %d", target, b.Weight())
			}
			n := len(big.Out[0].Script) + d/4
			big.Out[0].Script = bytes.Repeat([]byte{0x51}, n)
			minichain.Seal(b)
			if b.Weight() != target {
				ev.HarnessError("weight variant: got %d want %d", b.Weight(), target)
			}
			return b
		})
	}
	weight("weight-4000000", false, 4000000)
	weight("weight-4000004", true, 4000004)
	// witness bytes weigh one unit each: with one (two) witness transactions next to the coinbase's
	// witness the weight is 1 (2) modulo 4, which reaches the limit's immediate neighbours
	weightW := func(name string, bad bool, target, nWit int) {
		t := tag()
		add(name, bad, func(c *ctx) bool { return c.has("M7") && c.has("W1") && c.flags.Witness && c.p.Height < 200 }, func(c *ctx) *reftx.Block {
			s := c.spec(t)
			big := sp([]OP{c.p.Named["M7"]}, []reftx.Out{{Value: 5e8, Script: bytes.Repeat([]byte{0x51}, 990000)}})
			s.Txs = []*reftx.Tx{big}
			for i := 0; i < nWit; i++ {
				tx := sp([]OP{c.p.Named[fmt.Sprint("W", i)]}, []reftx.Out{o1(5e8)})
				tx.In[0].Witness = [][]byte{{0x51}}
				s.Txs = append(s.Txs, tx)
			}
			s.Witness = true
			b := minichain.Build(s)
			d := target - b.Weight()
			if d%4 != 0 {
				ev.HarnessError("weight variant %s: cannot reach %d from %d", name, target, b.Weight())
			}
			big.Out[0].Script = bytes.Repeat([]byte{0x51}, len(big.Out[0].Script)+d/4)
			b = minichain.Build(s) // the commitment covers the witness txids only, but rebuild to keep everything consistent
			if b.Weight() != target {
				ev.HarnessError("weight variant %s: got %d want %d", name, b.Weight(), target)
			}
			return b
		})
	}
	weightW("weight-3999997-one-witness-tx", false, 3999997, 1)
	weightW("weight-4000001-one-witness-tx", true, 4000001, 1)
	weightW("weight-3999998-two-witness-txs", false, 3999998, 2)
	weightW("weight-4000002-two-witness-txs", true, 4000002, 2)
	return vs
}

type outcome struct {
	key, what string
	trace     []chainx.Step
}

type job struct {
	st   int
	seq  []int
	side bool // the first variant is built on the tip's PARENT: a sibling of the tip, stored without being connected
	hf   bool // blocks go the client's route: header checked and accepted first, data checked on the same object later
}

var watchdog = 180 * time.Second

var twinsNotApplicable int64

type stats struct {
	mu       sync.Mutex
	states   map[string]bool
	refused  map[string]int // rule -> count of refusals observed in agreement
	accepted int
	twinLost map[string]bool // valid variants the implementation refused (not judged by C05)
}

func runJob(p *chainx.Prefix, stName string, vs []variant, seq []int, side, hf bool, st *stats, trans *int64) *outcome {
	s := p.NewSession("c05")
	s.HF = hf
	defer s.Close()
	s.Now = func() int64 { return NOW }
	var out *outcome
	r := chainx.Guard(watchdog, func() {
		for qi, vi := range seq {
			v := vs[vi]
			tipHash, _ := s.E.Tip()
			par := s.M.Nodes[tipHash]
			if side && qi == 0 {
				// as a sibling of the tip: the block can only be stored, its transactions are not applied,
				// so every context-free rule has to be enforced before it is kept
				if par.Parent == nil || v.twin != nil && false {
					return
				}
				par = par.Parent
			}
			c := &ctx{p: p, parent: par, height: par.Height + 1, mtp: refchain.MTP(par)}
			c.req = refchain.RequiredBitsNet(par, minichain.PowBits, p.Params.Net, c.spec(0).Time)
			c.flags = params.FlagsAt(c.height)
			if v.need != nil && !v.need(c) {
				return
			}
			before := s.StateKey()
			b := v.build(c)
			impl, ref := s.Deliver(v.name, b)
			atomic.AddInt64(trans, 1)
			ic := chainx.ImplClass(impl)
			refAccepts := ref == ""
			if refAccepts {
				n := s.M.Nodes[b.Hash()]
				if !s.M.Valid(n) {
					refAccepts = false
					ref = "connect: " + s.M.Why(n)
				}
			}
			if v.bad && refAccepts {
				ev.HarnessError("state %s variant %s is meant to violate a rule but the reference accepts it", stName, v.name)
			}
			if k, w := s.Compare(); k != "" {
				if !refAccepts {
					out = &outcome{v.name + "/invalid-block-accepted", fmt.Sprintf("state %s: block violating [%s] was accepted (%s); %s", stName, ref, impl, w), s.Trace}
				} else {
					// a valid block that the implementation did not connect: outside C05's one-directional statement
					st.mu.Lock()
					st.twinLost[stName+"/"+v.name+": "+impl] = true
					st.mu.Unlock()
				}
				return
			}
			if !refAccepts && ic == "ok" && !strings.HasPrefix(ref, "connect:") {
				// stored in the tree although a context-free/header rule is violated (a block that is
				// invalid only when its transactions are applied may be kept as a side block)
				out = &outcome{v.name + "/invalid-block-stored", fmt.Sprintf("state %s: block violating [%s] passed CheckBlock+AcceptBlock (kept as side block)", stName, ref), s.Trace}
				return
			}
			if !refAccepts && s.StateKey() != before {
				out = &outcome{v.name + "/state-changed-by-refused-block", "tip/UTXO changed although the block was refused", s.Trace}
				return
			}
			if !refAccepts && v.twin != nil {
				// "refused and nothing changes": the honest block with the SAME hash must still be accepted
				// (CVE-2012-2459: a mutated body must not get the hash marked as invalid / known)
				tb := v.twin(c)
				if tb.Hash() != b.Hash() {
					ev.HarnessError("variant %s: twin has another hash", v.name)
				}
				impl2, ref2 := s.Deliver(v.name+" (honest block with the same hash)", tb)
				atomic.AddInt64(trans, 1)
				if ref2 != "" || !s.M.Valid(s.M.Nodes[tb.Hash()]) {
					if qi == 0 {
						ev.HarnessError("variant %s: the reference refuses the honest twin: %s", v.name, ref2)
					}
					// later in a sequence an earlier block may have made every successor invalid (a tip stamped
					// now+7200 leaves no admissible timestamp): nothing to judge about the twin there
					atomic.AddInt64(&twinsNotApplicable, 1)
				} else if k, w := s.Compare(); k != "" {
					out = &outcome{v.name + "/refusal-poisons-the-valid-block-with-the-same-hash", fmt.Sprintf("state %s: after the mutated body was refused, the honest block with the same header hash is not connected (%s); %s", stName, impl2, w), s.Trace}
					return
				}
			}
			st.mu.Lock()
			st.states[stName+"|"+s.StateKey()] = true
			if refAccepts {
				st.accepted++
			} else {
				st.refused[ref]++
			}
			st.mu.Unlock()
		}
	})
	if r != "" {
		s.Abandon()
		if len(r) > 70 {
			r = r[:70]
		}
		return &outcome{"crash/" + r, r, s.Trace}
	}
	return out
}

var replayFile = flag.String("replay", "", "replay a recorded violation")

func main() {
	r := ev.Start("C05", "model_checking")
	minichain.Quiet()
	debug.SetGCPercent(400)
	vtime.SetNow(NOW)

	T := uint32(refchain.TargetTimespan)
	defs := []stateDef{}
	for k := uint32(0); k <= 8; k++ {
		defs = append(defs, stateDef{name: fmt.Sprint("h", k), n: k})
	}
	defs = append(defs,
		stateDef{name: "gen120", n: 120, coins: true},
		stateDef{name: "zigzag120", n: 120, coins: true, time: func(h uint32) uint32 {
			// last 11 timestamps out of order but always above the running median
			base := uint32(minichain.GenesisTime) + 600*h
			if h > 105 && h%2 == 0 {
				return base - 2500
			}
			return base
		}},
		// fewer than 11 ancestors AND valid but non-monotonic timestamps: the median-time-past window is
		// shorter than its array and has to be sorted
		stateDef{name: "young-zigzag6", n: 6, time: func(h uint32) uint32 {
			return uint32(minichain.GenesisTime) + []uint32{0, 1680, 3780, 1920, 5100, 5040, 4000}[h]
		}},
		stateDef{name: "young-zigzag9", n: 9, time: func(h uint32) uint32 {
			return uint32(minichain.GenesisTime) + []uint32{0, 600, 7000, 1300, 6500, 2000, 6000, 2600, 5500, 3200}[h]
		}},
		stateDef{name: "h127", n: 127},
		stateDef{name: "h255", n: 255},
	)
	spans := []struct {
		name string
		span uint32
	}{{"Tq-1", T/4 - 1}, {"Tq", T / 4}, {"Tq+1", T/4 + 1}, {"T", T}, {"4T-1", 4*T - 1}, {"4T", 4 * T}, {"4T+1", 4*T + 1}}
	if !r.Thorough() {
		spans = []struct {
			name string
			span uint32
		}{{"Tq", T / 4}, {"Tq+1", T/4 + 1}, {"4T+1", 4*T + 1}}
	}
	for _, sp := range spans {
		sp := sp
		defs = append(defs, stateDef{name: "retarget-" + sp.name, n: 2015, time: func(h uint32) uint32 {
			// block 2015 is exactly span seconds after genesis; earlier blocks spread evenly
			return uint32(minichain.GenesisTime) + uint32(uint64(sp.span)*uint64(h)/2015)
		}})
	}
	// a period whose last block is stamped EARLIER than its first one (legal: timestamps
	// only have to exceed the median of the previous 11): the timespan is negative and
	// must be clamped to a quarter. Needs two periods (4031 blocks).
	defs = append(defs, stateDef{name: "retarget-negative-timespan", n: 4031, time: func(h uint32) uint32 {
		base := uint32(minichain.GenesisTime)
		switch {
		case h <= 2015:
			return base + 600*h
		case h == 2016:
			return base + 600*2015 + 500000
		default:
			return base + 600*2015 + (h - 2016) // always above the median of the last 11
		}
	}})
	// the test networks' difficulty exceptions: a fast first period (the retarget quadruples the
	// difficulty), then - at 2015 the boundary itself; at 2018 a tip that used the 20-minute exception;
	// at 2019 an on-time block after it (its bits come from walking back past the exception)
	fast := func(h uint32) uint32 {
		t := uint32(minichain.GenesisTime) + 150*h
		if h >= 2018 {
			t += 1300
		}
		return t
	}
	for _, net := range []int{3, 4} {
		for _, n := range []uint32{2015, 2018, 2019} {
			defs = append(defs, stateDef{name: fmt.Sprintf("testnet%d-fast-period-h%d", net, n), n: n, time: fast, net: net})
		}
	}
	if r.Thorough() {
		// the last block of the SECOND period uses the exception: testnet3 retargets from its bits (the
		// limit), testnet4 from the last block that did not use it
		for _, net := range []int{3, 4} {
			defs = append(defs, stateDef{name: fmt.Sprintf("testnet%d-exception-on-last-block-of-period", net), n: 4031, net: net, time: func(h uint32) uint32 {
				t := uint32(minichain.GenesisTime) + 150*h
				if h >= 4031 {
					t += 1300
				}
				return t
			}})
		}
	}
	if only := os.Getenv("C05_ONLY"); only != "" {
		var l []stateDef
		for _, d := range defs {
			if strings.Contains(d.name, only) {
				l = append(l, d)
			}
		}
		defs = l
	}
	vs := variants()
	prefixes := make([]*chainx.Prefix, len(defs))
	buildErr := make([]string, len(defs))
	var pw sync.WaitGroup
	for i := range defs {
		pw.Add(1)
		go func(i int) { defer pw.Done(); prefixes[i], buildErr[i] = buildState(defs[i]) }(i)
	}
	pw.Wait()
	// A state whose (valid) prefix the implementation refuses cannot be reached. C05 is
	// one-directional, so that is not a C05 violation (C06 judges valid blocks that are not
	// connected); the state is skipped, listed, and the run is not exhaustive. The smallest
	// state must exist, otherwise nothing at all was checked.
	var unreachable []string
	{
		var d2 []stateDef
		var p2 []*chainx.Prefix
		for i := range defs {
			if prefixes[i] == nil {
				unreachable = append(unreachable, defs[i].name+": "+buildErr[i])
				continue
			}
			d2, p2 = append(d2, defs[i]), append(p2, prefixes[i])
		}
		defs, prefixes = d2, p2
	}
	if len(defs) == 0 {
		ev.HarnessError("no chain state can be built: %v", unreachable)
	}
	defer func() {
		for _, p := range prefixes {
			p.Remove()
		}
	}()
	st := &stats{states: map[string]bool{}, refused: map[string]int{}, twinLost: map[string]bool{}}
	var trans, hist int64

	if *replayFile != "" {
		b, err := os.ReadFile(*replayFile)
		if err != nil {
			ev.HarnessError("%v", err)
		}
		var rec struct {
			Replay struct {
				State string   `json:"state"`
				Seq   []string `json:"variants"`
				Side  bool     `json:"as_sibling_of_tip"`
				HF    bool     `json:"headers_first"`
			} `json:"replay"`
		}
		json.Unmarshal(b, &rec)
		for i, d := range defs {
			if d.name != rec.Replay.State {
				continue
			}
			var seq []int
			for _, n := range rec.Replay.Seq {
				for vi, v := range vs {
					if v.name == n {
						seq = append(seq, vi)
					}
				}
			}
			o := runJob(prefixes[i], d.name, vs, seq, rec.Replay.Side, rec.Replay.HF, st, &trans)
			code := 0
			if o != nil {
				fmt.Fprintf(ev.Out, "replay: %s: %s\n", o.key, o.what)
				for _, s := range o.trace {
					fmt.Fprintf(ev.Out, "  %s impl=%q ref=%q\n", s.Ev, s.Impl, s.Ref)
				}
				code = 1
			} else {
				fmt.Fprintln(ev.Out, "replay: passes")
			}
			for _, p := range prefixes {
				p.Remove()
			}
			os.Exit(code)
		}
		ev.HarnessError("state not found")
	}

	jobs := make(chan job, 256)
	var wg sync.WaitGroup
	samples := &ev.Samples{N: 4}
	for w := 0; w < runtime.NumCPU(); w++ {
		wg.Add(1)
		go func() {
			defer wg.Done()
			for j := range jobs {
				o := runJob(prefixes[j.st], defs[j.st].name, vs, j.seq, j.side, j.hf, st, &trans)
				atomic.AddInt64(&hist, 1)
				var names []string
				for _, i := range j.seq {
					names = append(names, vs[i].name)
				}
				if o != nil {
					if j.side {
						o.key += "-as-sibling-of-tip"
					}
					if j.hf {
						o.key += "-by-headers-first"
					}
					r.Report(o.key, o.what, map[string]interface{}{"state": defs[j.st].name, "variants": names, "as_sibling_of_tip": j.side, "headers_first": j.hf, "trace": o.trace})
				} else {
					samples.Add(map[string]interface{}{"state": defs[j.st].name, "variants": names})
				}
			}
		}()
	}
	for si := range defs {
		for i := range vs {
			jobs <- job{st: si, seq: []int{i}}
			jobs <- job{st: si, seq: []int{i, 0}} // followed by a valid block: a refused block must do no damage
			jobs <- job{st: si, seq: []int{i, 0}, hf: true}
			if defs[si].n >= 1 && defs[si].n <= 255 {
				jobs <- job{st: si, seq: []int{i, 0}, side: true}
				jobs <- job{st: si, seq: []int{i, 0}, side: true, hf: true}
			}
			if r.Thorough() {
				for k := range vs {
					if k != 0 && defs[si].n <= 255 {
						jobs <- job{st: si, seq: []int{i, k}}
					}
				}
			}
		}
	}
	close(jobs)
	wg.Wait()
	var lost []string
	for k := range st.twinLost {
		lost = append(lost, k)
	}
	sort.Strings(lost)
	for _, l := range lost {
		fmt.Fprintln(os.Stderr, "NOTE valid block not connected (outside C05):", l)
	}
	r.Finish(map[string]interface{}{
		"states":                        len(st.states),
		"transitions":                   int(trans),
		"histories":                     int(hist),
		"chain_states":                  len(defs),
		"variants":                      len(vs),
		"twin_deliveries_without_admissible_twin": int(twinsNotApplicable),
		"refusals_by_rule":              st.refused,
		"accepted_blocks":               st.accepted,
		"valid_blocks_not_connected":    lost,
		"traces_validated_against_impl": int(hist),
		"samples":                       samples.L,
		"exhaustive":                    len(unreachable) == 0,
		"states_unreachable":            unreachable,
		"rule":                          "chain states (heights 0-8 around every activation height, 120-block chains with monotone and zig-zag timestamps, heights 127/255, 2015-block chains with retarget timespans) x all variants, each by CheckBlock+AcceptBlock and by the client's headers-first route (PreCheckBlock at announce, PostCheckBlock on the same object when the data arrives), each also followed by a valid block (thorough: all ordered variant pairs); clock owned through an overlay shim; verdict, tip and UTXO compared with refchain after every delivery",
	}, []string{
		"reference rule list refchain.CheckBlock written from Bitcoin Core's CheckBlockHeader/ContextualCheckBlockHeader/CheckBlock/ContextualCheckBlock",
		"retarget arithmetic in unbounded integers: equals Core for every proof-of-work limit <= 2^234 (mainnet); the harness limit 0x207fffff would overflow Core's 256-bit product and is outside that equivalence",
		"the statement is one-directional (accepted only if …): valid blocks that are not connected are listed in the evidence, not judged",
		"the clock is injected by a build overlay that rewrites the time import of lib/chain/block_check.go",
	})
}
