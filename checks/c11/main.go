// C11: block processing is race-free and its result independent of scheduling.
// The real goroutines of gocoin (script verification fan-out, UTXO add/del workers,
// tx hashing packs, UTXO snapshot writer + file writer, undo-file writer) run under a
// cooperative scheduler injected by a typed source rewrite; every interleaving up to
// a deviation bound is executed and its outcome compared with the reference.
package main

import (
	"bufio"
	"bytes"
	"encoding/json"
	"flag"
	"fmt"
	"os"
	"os/exec"
	"runtime"
	"sort"
	"strings"
	"sync"
	"syscall"
	"time"

	"github.com/piotrnar/gocoin/lib/btc"
	"github.com/piotrnar/gocoin/lib/chain"
	"github.com/piotrnar/gocoin/lib/others/vshim/vos"
	"github.com/piotrnar/gocoin/lib/others/vshim/vsched"
	"github.com/piotrnar/gocoin/lib/utxo"

	"verif/internal/chainx"
	"verif/internal/ev"
	"verif/internal/explore"
	"verif/internal/minichain"
	"verif/ref/refaddr"
	"verif/ref/refchain"
	"verif/ref/refhash"
	"verif/ref/refsig"
	"verif/ref/reftx"
)

type OP = refchain.Outpoint

var params = func() refchain.Params {
	p := refchain.DefaultParams()
	p.Verify = verify
	return p
}()

// ---- pay-to-pubkey outputs with real signatures (reference signer / verifier) ----

func privKey(i byte) []byte { k := make([]byte, 32); k[31] = i; k[0] = 0x11; return k }

func p2pk(i byte) []byte {
	pub := refsig.PubkeyFromPriv(privKey(i), true)
	return append(append([]byte{byte(len(pub))}, pub...), 0xac)
}

func signP2PK(tx *reftx.Tx, idx int, key byte) {
	d := refhash.Legacy(tx, p2pk(key), idx, 1)
	r, s := refsig.ECDSASignRFC6979(privKey(key), d[:])
	sig := append(refsig.SerializeDER(r, s), 0x01)
	tx.In[idx].Script = append([]byte{byte(len(sig))}, sig...)
}

func p2wpkh(i byte) []byte {
	return append([]byte{0x00, 0x14}, refaddr.Hash160(refsig.PubkeyFromPriv(privKey(i), true))...)
}

// signP2WPKH puts a BIP143 SIGHASH_ALL signature and the key into the input's witness.
func signP2WPKH(tx *reftx.Tx, idx int, key byte, amount uint64) {
	pub := refsig.PubkeyFromPriv(privKey(key), true)
	code := append(append([]byte{0x76, 0xa9, 0x14}, refaddr.Hash160(pub)...), 0x88, 0xac)
	d := refhash.BIP143(tx, code, amount, idx, 1)
	r, s := refsig.ECDSASignRFC6979(privKey(key), d[:])
	tx.In[idx].Witness = [][]byte{append(refsig.SerializeDER(r, s), 0x01), pub}
}

func verifyP2WPKH(tx *reftx.Tx, idx int, pk []byte, amount uint64, f refchain.Flags) bool {
	in := &tx.In[idx]
	if !f.Witness {
		return len(in.Script) == 0
	}
	if len(in.Script) != 0 || len(in.Witness) != 2 {
		return false
	}
	sig, pub := in.Witness[0], in.Witness[1]
	if len(sig) < 9 || !bytes.Equal(refaddr.Hash160(pub), pk[2:]) || !refsig.IsStrictDER(sig) {
		return false
	}
	r, sv, ok := refsig.ParseDERLax(sig[:len(sig)-1])
	if !ok {
		return false
	}
	code := append(append([]byte{0x76, 0xa9, 0x14}, pk[2:]...), 0x88, 0xac)
	d := refhash.BIP143(tx, code, amount, idx, uint32(sig[len(sig)-1]))
	return refsig.ECDSAVerify(pub, r, sv, d[:])
}

// verify: trivial scripts, plus P2PK judged with the reference digest and the
// reference ECDSA verification.
var verifyMemo = map[string]bool{}

func verify(tx *reftx.Tx, idx int, spent []refchain.Coin, f refchain.Flags) bool {
	pk := spent[idx].Script
	if len(pk) == 35 && pk[0] == 33 && pk[34] == 0xac {
		// the reference verdict is a pure function of these bytes: memoised per process
		mk := fmt.Sprintf("%x/%d/%x/%v", tx.Serialize(true), idx, pk, f.DERSIG)
		if v, ok := verifyMemo[mk]; ok {
			return v
		}
		v := verifyP2PK(tx, idx, pk, f)
		verifyMemo[mk] = v
		return v
	}
	if len(pk) == 22 && pk[0] == 0x00 && pk[1] == 0x14 {
		mk := fmt.Sprintf("w/%x/%d/%x/%d/%v", tx.Serialize(true), idx, pk, spent[idx].Value, f.Witness)
		if v, ok := verifyMemo[mk]; ok {
			return v
		}
		v := verifyP2WPKH(tx, idx, pk, spent[idx].Value, f)
		verifyMemo[mk] = v
		return v
	}
	return refchain.Trivial(tx, idx, spent, f)
}

func verifyP2PK(tx *reftx.Tx, idx int, pk []byte, f refchain.Flags) bool {
	{
		ss := tx.In[idx].Script
		if len(ss) < 2 || int(ss[0]) != len(ss)-1 {
			return false
		}
		sig := ss[1:]
		r, sv, ok := refsig.ParseDERLax(sig[:len(sig)-1])
		if !ok || (f.DERSIG && !refsig.IsStrictDER(sig)) {
			return false
		}
		d := refhash.Legacy(tx, pk, idx, uint32(sig[len(sig)-1]))
		return refsig.ECDSAVerify(pk[1:34], r, sv, d[:])
	}
}

func o1(v uint64) reftx.Out { return reftx.Out{Value: v, Script: []byte{0x51}} }

// grind tweaks the lock time (inputs are final) until the txid starts with the given byte
// (forces records into one UTXO bucket so that workers collide on one map/mutex).
func grind(t *reftx.Tx, first byte) *reftx.Tx {
	for {
		id := t.TxID()
		if id[0] == first {
			return t
		}
		t.LockTime++
	}
}

const prefixLen = 106

const vouchedLockTime = 777

// ctl runs harness-side setup / teardown under the scheduler too (default decisions
// only): every goroutine gocoin starts is then a controlled thread and has really
// finished when ctl returns, so no natively running goroutine can overlap with the
// next explored execution.
func ctl(f func()) {
	s := vsched.Run(f, func(string, int, string) int { return 0 }, 1<<30)
	if s.Deadlock != "" || s.Panic != "" {
		ev.HarnessError("setup/teardown under the scheduler failed: %s %s", s.Deadlock, explore.Short(s.Panic, 400))
	}
}

// ctlTry is ctl for steps whose failure is a verdict about gocoin (reopening what a schedule left on disk).
func ctlTry(f func()) string {
	s := vsched.Run(f, func(string, int, string) int { return 0 }, 1<<30)
	if s.Panic != "" {
		return "panic: " + explore.Short(s.Panic, 160)
	}
	if s.Deadlock != "" {
		return "deadlock: " + s.Deadlock
	}
	return ""
}

func buildPrefix(compressed bool) (p *chainx.Prefix) {
	ctl(func() { p = buildPrefix0(compressed) })
	return
}

// gocoin selects the record format through package-level function variables when a
// database with compressed records is opened and never switches back: within one process
// every uncompressed scenario has to run before the first compressed one.
var compressedSeen bool

var thoroughTier bool // set from the command line before scenarios() is first called

// prefixFor returns (building it on first use) the prefix directory for the scenario's record format.
func prefixFor(sc scen) *chainx.Prefix {
	if sc.compressed {
		compressedSeen = true
	} else if compressedSeen {
		ev.HarnessError("scenario %s (plain records) after a compressed-record scenario in one process", sc.name)
	}
	if prefixes[sc.compressed] == nil {
		if vsched.Active() == nil && *racePass == 0 {
			prefixes[sc.compressed] = buildPrefix(sc.compressed)
		} else {
			prefixes[sc.compressed] = buildPrefix0(sc.compressed)
		}
	}
	return prefixes[sc.compressed]
}

var prefixes = map[bool]*chainx.Prefix{}

var probed = map[bool]bool{} // prefix kind -> its directory reloads (checked in a child process)

func removePrefixes() {
	for _, p := range prefixes {
		p.Remove()
	}
}

func buildPrefix0(compressed bool) *chainx.Prefix {
	name := "c11"
	opts := minichain.Opts{Params: params}
	if compressed {
		name = "c11c"
		opts.ChainOpts.CompressUTXO = true
	}
	return chainx.BuildPrefixOpts(name, opts, prefixLen, func(h uint32, s *minichain.Spec, p *chainx.Prefix) {
		switch h {
		case 106:
			// 44 outputs of 3000 bytes: the snapshot is larger than two 64 KiB chunks, so that
			// save() reaches its pacing / abort select and the writer goroutine has data queued
			var o []reftx.Out
			for i := 0; i < 44; i++ {
				o = append(o, bigOut(1e8, 3000))
			}
			s.Txs = append(s.Txs, minichain.Spend([]OP{p.Cb[5]}, o))
			s.Fees = 50e8 - 44e8
			// four P2WPKH coins (keys 5..8) for transactions with several segwit-v0 inputs
			q := minichain.Spend([]OP{p.Cb[6]}, []reftx.Out{{Value: 10e8, Script: p2wpkh(5)}, {Value: 10e8, Script: p2wpkh(6)}, {Value: 10e8, Script: p2wpkh(7)}, {Value: 10e8, Script: p2wpkh(8)}})
			s.Txs = append(s.Txs, q)
			s.Fees += 10e8
			for i := 0; i < 4; i++ {
				p.Named[fmt.Sprint("W", i+1)] = OP{Tx: q.TxID(), Vout: uint32(i)}
			}
		case 102, 103, 104:
			// three funding transactions in the same bucket 0x42, 3 outputs each (+1 failing script)
			m := minichain.Spend([]OP{p.Cb[h-101]}, []reftx.Out{o1(10e8), o1(10e8), o1(10e8), {Value: 10e8, Script: []byte{0x00}}})
			grind(m, 0x42)
			s.Txs = append(s.Txs, m)
			s.Fees = 10e8
			for i := 0; i < 4; i++ {
				p.Named[fmt.Sprint("F", h-102, ".", i)] = OP{Tx: m.TxID(), Vout: uint32(i)}
			}
		case 105:
			k := minichain.Spend([]OP{p.Cb[4]}, []reftx.Out{{Value: 10e8, Script: p2pk(1)}, {Value: 10e8, Script: p2pk(2)}, {Value: 10e8, Script: p2pk(3)}, {Value: 10e8, Script: p2pk(4)}})
			s.Txs = append(s.Txs, k)
			s.Fees = 10e8
			for i := 0; i < 4; i++ {
				p.Named[fmt.Sprint("K", i+1)] = OP{Tx: k.TxID(), Vout: uint32(i)}
			}
		}
	})
}

type scen struct {
	name   string
	blocks func(p *chainx.Prefix) []*reftx.Block
	// events: "b<i>" deliver block i, "idle", "hurry", "reopen"
	events     []string
	compressed bool   // UTXO records in the compressed format (Memory.CompressUTXO)
	paced      bool   // snapshot writing paced over UTXO_WRITING_TIME_TARGET (the default) instead of hurry mode: only then does save() look at the abort request between chunks
	expect     string // results of the events under the default schedule (non-vacuity guard)
	qb, tb     int    // deviation bound in the quick / thorough tier
	horizon    int
}

func bigOut(v uint64, n int) reftx.Out {
	s := make([]byte, n)
	for i := range s {
		s[i] = 0x51
	}
	return reftx.Out{Value: v, Script: s}
}

func scenarios() []scen {
	sp := minichain.Spend
	blk := func(p *chainx.Prefix, prev [32]byte, h uint32, tag byte, fees uint64, txs ...*reftx.Tx) *reftx.Block {
		return minichain.Build(minichain.Spec{Prev: prev, Height: h, Tag: tag, Txs: txs, Fees: fees, CbValue: -1})
	}
	scs := []scen{
		{name: "S1-commit-3tx-2in-valid", qb: 2, tb: 3, horizon: 4000, events: []string{"b0"}, expect: "b0=ok", blocks: func(p *chainx.Prefix) []*reftx.Block {
			n := p.Named
			// 3 x ~3 KB transactions: BuildTxListExt hashes them in several 4096-byte packs,
			// each in its own goroutine, all adding to one block-weight counter
			t1 := grind(sp([]OP{n["F0.0"], n["F1.0"]}, []reftx.Out{bigOut(10e8, 3000), o1(10e8)}), 0x42)
			t2 := grind(sp([]OP{n["F0.1"], n["F2.0"]}, []reftx.Out{bigOut(10e8, 3000), o1(10e8)}), 0x42)
			t3 := grind(sp([]OP{n["F1.1"], {Tx: t1.TxID(), Vout: 1}}, []reftx.Out{bigOut(10e8, 3000), o1(10e8)}), 0x42)
			return []*reftx.Block{blk(p, p.Tip, p.Height+1, 1, 0, t1, t2, t3)}
		}},
		{name: "S1-signatures-with-in-block-spend", qb: 2, tb: 2, horizon: 4000, events: []string{"b0"}, expect: "b0=ok", blocks: func(p *chainx.Prefix) []*reftx.Block {
			// t1 and t2 carry real ECDSA signatures (SIGHASH_ALL commits to their outputs);
			// t2 and t3 spend outputs created earlier in the same block while the
			// signature checks of t1 / t2 may still be running
			n := p.Named
			t1 := sp([]OP{n["K1"], n["K2"]}, []reftx.Out{o1(8e8), o1(12e8)})
			signP2PK(t1, 0, 1)
			signP2PK(t1, 1, 2)
			t2 := sp([]OP{n["K3"], {Tx: t1.TxID(), Vout: 1}}, []reftx.Out{o1(9e8), o1(13e8)})
			signP2PK(t2, 0, 3)
			t3 := sp([]OP{{Tx: t2.TxID(), Vout: 0}, {Tx: t1.TxID(), Vout: 0}}, []reftx.Out{o1(17e8)})
			return []*reftx.Block{blk(p, p.Tip, p.Height+1, 7, 0, t1, t2, t3)}
		}},
		{name: "S1-three-segwit-inputs-of-one-transaction", qb: 2, tb: 2, horizon: 4000, events: []string{"b0"}, expect: "b0=ok", blocks: func(p *chainx.Prefix) []*reftx.Block {
			// one transaction, three P2WPKH inputs: its per-input script checks run concurrently and
			// share the transaction's cached BIP143 mid-hashes; plus a second transaction with one
			n := p.Named
			t1 := sp([]OP{n["W1"], n["W2"], n["W3"]}, []reftx.Out{o1(29e8)})
			for i := 0; i < 3; i++ {
				signP2WPKH(t1, i, byte(5+i), 10e8)
			}
			t2 := sp([]OP{n["W4"], n["K1"]}, []reftx.Out{o1(19e8)})
			signP2WPKH(t2, 0, 8, 10e8)
			signP2PK(t2, 1, 1)
			return []*reftx.Block{minichain.Build(minichain.Spec{Prev: p.Tip, Height: p.Height + 1, Tag: 8, Txs: []*reftx.Tx{t1, t2}, Fees: 2e8, CbValue: -1, Witness: true})}
		}},
		{name: "S1-pool-verified-tx-between-signed-tx-and-unknown-input", qb: 2, tb: 2, horizon: 4000, events: []string{"b0", "b1"}, expect: "b0=refused-connect,b1=ok", blocks: func(p *chainx.Prefix) []*reftx.Block {
			// [coinbase, A with real signatures (script checks started), B vouched for by the memory pool
			// (chain.TrustedTxChecker), C with an unknown input]: the block is refused while A's checks may
			// still be running
			n := p.Named
			mk := func(bad bool) *reftx.Block {
				a := sp([]OP{n["K1"], n["K2"]}, []reftx.Out{o1(8e8), o1(12e8)})
				signP2PK(a, 0, 1)
				signP2PK(a, 1, 2)
				b := sp([]OP{n["F0.0"]}, []reftx.Out{o1(10e8)})
				b.LockTime = vouchedLockTime
				txs := []*reftx.Tx{a, b}
				if bad {
					txs = append(txs, sp([]OP{{Tx: [32]byte{7, 7, 7}, Vout: 0}}, []reftx.Out{o1(1)}))
				}
				return blk(p, p.Tip, p.Height+1, 9, 0, txs...)
			}
			return []*reftx.Block{mk(true), mk(false)}
		}},
		{name: "S1-bad-signature-among-valid", qb: 2, tb: 2, horizon: 4000, events: []string{"b0", "b1"}, expect: "b0=refused-connect,b1=ok", blocks: func(p *chainx.Prefix) []*reftx.Block {
			n := p.Named
			mk := func(bad bool) *reftx.Block {
				t1 := sp([]OP{n["K1"], n["K2"]}, []reftx.Out{o1(8e8), o1(12e8)})
				signP2PK(t1, 0, 1)
				signP2PK(t1, 1, 2)
				t2 := sp([]OP{n["K3"], n["K4"]}, []reftx.Out{o1(20e8)})
				signP2PK(t2, 0, 3)
				signP2PK(t2, 1, 4)
				tag := byte(9)
				if bad {
					t2.In[1].Script[10] ^= 1 // corrupt the last signature of the last transaction
					tag = 8
				}
				return blk(p, p.Tip, p.Height+1, tag, 0, t1, t2)
			}
			return []*reftx.Block{mk(true), mk(false)}
		}},
		{name: "S2-commit-then-reorg-restores-from-undo-file", qb: 2, tb: 3, horizon: 6000, events: []string{"b0", "b1", "b2"}, expect: "b0=ok,b1=ok,b2=ok", blocks: func(p *chainx.Prefix) []*reftx.Block {
			// A1 spends outputs of three records of one bucket (records are rewritten, the old
			// ones freed, undo data is written by a concurrent goroutine); B1,B2 then force the
			// undo of A1 from that undo file
			n := p.Named
			a1 := blk(p, p.Tip, p.Height+1, 10, 0, grind(sp([]OP{n["F0.0"], n["F1.0"], n["F2.0"]}, []reftx.Out{o1(30e8)}), 0x42), sp([]OP{n["F0.1"]}, []reftx.Out{o1(10e8)}))
			b1 := blk(p, p.Tip, p.Height+1, 11, 0, sp([]OP{n["F1.1"]}, []reftx.Out{o1(10e8)}))
			b2 := blk(p, b1.Hash(), p.Height+2, 11, 0)
			return []*reftx.Block{a1, b1, b2}
		}},
		{name: "S1-commit-failing-script-then-early-return", qb: 2, tb: 2, horizon: 4000, events: []string{"b0", "b1"}, expect: "b0=refused-connect,b1=ok", blocks: func(p *chainx.Prefix) []*reftx.Block {
			n := p.Named
			t1 := sp([]OP{n["F0.0"], n["F1.0"]}, []reftx.Out{o1(20e8)})
			t2 := sp([]OP{n["F0.1"], n["F0.3"]}, []reftx.Out{o1(20e8)})                  // second input: script fails
			t3 := sp([]OP{n["F1.1"], {Tx: [32]byte{5}, Vout: 0}}, []reftx.Out{o1(10e8)}) // unknown input: early return while checks run
			bad := blk(p, p.Tip, p.Height+1, 2, 0, t1, t2, t3)
			g1 := sp([]OP{n["F0.0"], n["F1.0"]}, []reftx.Out{o1(20e8)})
			good := blk(p, p.Tip, p.Height+1, 3, 0, g1)
			return []*reftx.Block{bad, good}
		}},
		{name: "S4-snapshot-abort-by-next-block", paced: true, qb: 1, tb: 2, horizon: 20000, events: []string{"b0", "idle", "b1", "idle", "hurry", "close"}, expect: "b0=ok,b1=ok", blocks: func(p *chainx.Prefix) []*reftx.Block {
			n := p.Named
			b0 := blk(p, p.Tip, p.Height+1, 4, 0, sp([]OP{n["F0.0"]}, []reftx.Out{o1(10e8)}))
			b1 := blk(p, b0.Hash(), p.Height+2, 4, 0, sp([]OP{n["F1.0"]}, []reftx.Out{o1(10e8)}))
			return []*reftx.Block{b0, b1}
		}},
		{name: "S4-snapshot-then-reorg-then-close", paced: true, qb: 1, tb: 2, horizon: 20000, events: []string{"b0", "idle", "b1", "b2", "idle", "close"}, expect: "b0=ok,b1=ok,b2=ok", blocks: func(p *chainx.Prefix) []*reftx.Block {
			n := p.Named
			a1 := blk(p, p.Tip, p.Height+1, 5, 0, sp([]OP{n["F0.0"]}, []reftx.Out{o1(10e8)}))
			b1 := blk(p, p.Tip, p.Height+1, 6, 0, sp([]OP{n["F0.0"], n["F2.1"]}, []reftx.Out{o1(20e8)}))
			b2 := blk(p, b1.Hash(), p.Height+2, 6, 0)
			return []*reftx.Block{a1, b1, b2}
		}},
		// the first snapshot is told to hurry: save() has everything queued and returns while its file writer may still lag behind
		{name: "S4-hurried-snapshot-then-reorg-then-close", paced: true, qb: 1, tb: 2, horizon: 20000, events: []string{"b0", "idle", "hurry", "b1", "b2", "idle", "close"}, expect: "b0=ok,b1=ok,b2=ok", blocks: func(p *chainx.Prefix) []*reftx.Block {
			n := p.Named
			a1 := blk(p, p.Tip, p.Height+1, 5, 0, sp([]OP{n["F0.0"]}, []reftx.Out{o1(10e8)}))
			b1 := blk(p, p.Tip, p.Height+1, 6, 0, sp([]OP{n["F0.0"], n["F2.1"]}, []reftx.Out{o1(20e8)}))
			b2 := blk(p, b1.Hash(), p.Height+2, 6, 0)
			return []*reftx.Block{a1, b1, b2}
		}},
	}
	// the same histories on a database with compressed records (client option Memory.CompressUTXO):
	// the commit workers and the undo writer then serialise through one package-level pool
	for _, sc := range scs {
		switch sc.name {
		case "S1-commit-3tx-2in-valid", "S1-signatures-with-in-block-spend", "S2-commit-then-reorg-restores-from-undo-file", "S4-snapshot-abort-by-next-block":
			if !thoroughTier && (sc.name == "S1-signatures-with-in-block-spend" || sc.name == "S2-commit-then-reorg-restores-from-undo-file") {
				continue
			}
			c := sc
			c.name += "/compressed-records"
			c.compressed = true
			c.tb = c.qb // the deep bounds are spent on the plain-record scenarios
			scs = append(scs, c)
		}
	}
	return scs
}

// ---- file effects are scheduling points; the visible-snapshot invariant ----

var (
	curSess    *chainx.Sess // session of the execution in progress
	snapViol   string       // first violation of the visible-snapshot invariant in this execution
	snapChecks int
)

// fileHook runs in the thread that is about to perform a mutating file operation.
// Between two file effects the directory does not change, so checking here (and once
// at the end) examines every directory state the execution goes through.
func fileHook(e *vos.Effect) {
	if vsched.Active() == nil {
		return
	}
	checkVisibleSnapshot()
	vsched.Effect("file", e.String())
}

// checkVisibleSnapshot: whenever a file is visible as UTXO.db it must be complete and
// hold exactly the unspent set of the block named in its header.
func checkVisibleSnapshot() {
	s := curSess
	if s == nil || snapViol != "" {
		return
	}
	b, err := os.ReadFile(s.Dir() + "/d/UTXO.db")
	if err != nil {
		return
	}
	snapChecks++
	bad := func(f string, a ...interface{}) { snapViol = fmt.Sprintf(f, a...) }
	if len(b) < 48 {
		bad("UTXO.db is visible with only %d bytes", len(b))
		return
	}
	var h [32]byte
	copy(h[:], b[8:40])
	nd := s.M.Nodes[h]
	if nd == nil || !s.M.Valid(nd) {
		bad("UTXO.db names a block the reference does not know as valid")
		return
	}
	cnt := uint64(0)
	for i := 0; i < 8; i++ {
		cnt |= uint64(b[40+i]) << (8 * i)
	}
	got := refchain.UTXO{}
	off := 48
	for i := uint64(0); i < cnt; i++ {
		le, n := btc.VLen(b[off:])
		if n == 0 || off+n+le > len(b) {
			bad("UTXO.db (block height %d) announces %d records but is cut short after %d", nd.Height, cnt, i)
			return
		}
		off += n
		rec := utxo.NewUtxoRec(b[off : off+le]) // format-dependent (plain / compressed) like the database itself
		off += le
		for vout, o := range rec.Outs {
			if o != nil {
				got[OP{Tx: rec.TxID, Vout: uint32(vout)}] = refchain.Coin{Value: o.Value, Script: append([]byte{}, o.PKScr...), Height: rec.InBlock, Coinbase: rec.Coinbase}
			}
		}
	}
	if off != len(b) {
		bad("UTXO.db has %d trailing bytes", len(b)-off)
		return
	}
	ws, wh := refchain.Dump(s.M.UTXOAt(nd))
	gs, gh := refchain.Dump(got)
	if wh != gh {
		bad("UTXO.db names block height %d but its records differ from that block's unspent set: %s", nd.Height, chainx.Diff(ws, gs))
	}
}

// runScenario executes one schedule of a scenario on a fresh copy of the prefix.
func runScenario(p *chainx.Prefix, sc scen, blocks []*reftx.Block, choose vsched.Chooser) (*vsched.Sched, string, string) {
	var s *chainx.Sess
	vsched.Demotion = true
	utxo.UTXO_WRITING_TIME_TARGET = 0
	if sc.paced {
		utxo.UTXO_WRITING_TIME_TARGET = 5 * time.Minute
	}
	ctl(func() { s = p.NewSession("c11") })
	curSess, snapViol = s, ""
	defer func() { curSess = nil }()
	var results []string
	inBody := ""
	closedInside := false
	body := func() {
		for _, e := range sc.events {
			switch {
			case e[0] == 'b':
				var i int
				fmt.Sscan(e[1:], &i)
				impl, _ := s.Deliver(e, blocks[i])
				results = append(results, e+"="+chainx.ImplClass(impl))
				// observed by the delivering thread itself right after the call returned:
				// everything the call promises must be visible now, whatever the workers do
				if k, w := s.Compare(); k != "" && inBody == "" {
					inBody = "after-" + e + "-" + k + ": " + w
				}
			case e == "idle":
				s.E.Ch.Idle()
			case e == "hurry":
				s.E.Ch.Unspent.HurryUp()
			case e == "close":
				s.E.Close()
				closedInside = true
			}
		}
	}
	sch := vsched.Run(body, choose, sc.horizon)
	if sch.Deadlock != "" || sch.Panic != "" {
		s.Abandon() // threads are parked inside the instance
		s.Close()
		return sch, "aborted", ""
	}
	// all threads finished: the instance is quiescent, observe it natively
	checkVisibleSnapshot()
	if os.Getenv("C11_DEBUG") != "" {
		fmt.Fprintln(os.Stderr, "DEBUG snapChecks", snapChecks, "snapViol", snapViol, "points", len(sch.Points))
		if os.Getenv("C11_DEBUG") == "2" {
			for i, pt := range sch.Points {
				fmt.Fprintf(os.Stderr, "  %3d %-8s en=%v ch=%d %s\n", i, pt.Kind, pt.Enabled, pt.Chosen, pt.Desc)
			}
		}
	}
	errs := inBody
	if snapViol != "" {
		errs = "visible-snapshot-inconsistent: " + snapViol
	}
	obs := strings.Join(results, ",")
	if !closedInside {
		if k, w := s.Compare(); k != "" && errs == "" {
			errs = k + ": " + w
		}
		obs += " | " + s.StateKey()
		ctl(s.Close)
		return sch, obs, errs
	}
	// closed inside the schedule: the directory must reopen to a consistent state
	s.E = nil
	o := p.Opts
	var e2 *minichain.Env
	if died := ctlTry(func() { e2 = minichain.Open(sDir(s)+"/d", &o) }); died != "" || e2 == nil {
		// what the schedule left on disk cannot be opened again
		if errs == "" {
			k := died
			if i := strings.Index(k, " | "); i > 0 {
				k = k[:i]
			}
			errs = "reopen-after-close-fails: " + k
		}
		s.Abandon()
		ctl(s.Close)
		return sch, obs + " | reopen failed", errs
	}
	s.E = e2
	tip, _ := e2.Tip()
	nd := s.M.Nodes[tip]
	if errs != "" {
	} else if nd == nil || !s.M.Valid(nd) {
		errs = "reopen-tip-unknown-or-invalid"
	} else {
		_, wh := refchain.Dump(s.M.UTXOAt(nd))
		_, gh := refchain.Dump(e2.UTXO())
		if wh != gh {
			errs = "reopen-utxo-mismatch: UTXO.db content does not match the block named in its header"
		} else if nd != s.M.BestTips()[0] {
			errs = "reopen-tip-not-best: after clean close the tip is not the best valid tip"
		}
	}
	obs += " | reopened " + s.StateKey()
	ctl(s.Close)
	return sch, obs, errs
}

func sDir(s *chainx.Sess) string { return s.Dir() }

type wres struct {
	Execs     int            `json:"execs"`
	PerBound  map[int]int    `json:"per_bound"`
	MaxPoints int            `json:"max_points"`
	Outcomes  map[string]int `json:"outcomes"`
	Viol      []viol         `json:"viol"`
	Capped    bool           `json:"capped"`
	Horizon   int            `json:"horizon_hits"`
}

type viol struct {
	Key      string   `json:"key"`
	What     string   `json:"what"`
	Scenario string   `json:"scenario"`
	Choices  []int    `json:"choices"`
	Schedule []string `json:"schedule"`
}

var (
	worker     = flag.String("worker", "", "internal: scenario name to explore (prefixes on stdin)")
	bound      = flag.Int("bound", 2, "deviation bound")
	replayFile = flag.String("replay", "", "replay a recorded schedule")
	maxExecs   = flag.Int("max-execs", 0, "per-worker cap")
	probe      = flag.String("probe", "", "internal: build the prefix of this scenario, reopen a copy of it and compare it with the reference (exit 0 / 1)")
	racePass   = flag.Int("racepass", 0, "internal: free-running iterations of every scenario (binary built with -race)")
)

// racePassMain runs the scenario bodies natively (no scheduler): the race detector
// then sees only the program's own synchronisation.
func racePassMain(scs []scen, iters int) {
	// plain-record scenarios first, for all iterations; then the compressed ones (see compressedSeen)
	for _, comp := range []bool{false, true} {
		racePassMode(scs, iters, comp)
	}
	fmt.Fprintln(ev.Out, "racepass-done")
}

func racePassMode(scs []scen, iters int, comp bool) {
	for it := 0; it < iters; it++ {
		for _, sc := range scs {
			if sc.compressed != comp {
				continue
			}
			p := prefixFor(sc)
			blocks := sc.blocks(p)
			s := p.NewSession("c11r")
			closed := false
			for _, e := range sc.events {
				switch {
				case e[0] == 'b':
					var i int
					fmt.Sscan(e[1:], &i)
					s.Deliver(e, blocks[i])
				case e == "idle":
					s.E.Ch.Idle()
				case e == "hurry":
					s.E.Ch.Unspent.HurryUp()
				case e == "close":
					s.E.Close()
					closed = true
				}
			}
			if closed {
				s.E = nil
			}
			s.Close()
		}
	}
}

func classify(sc scen, x *explore.Exec, expectObs string) *viol {
	mk := func(key, what string) *viol {
		return &viol{Key: sc.name + "/" + key, What: what, Scenario: sc.name, Choices: x.Choices, Schedule: x.Schedule()}
	}
	switch {
	case x.Panic != "":
		return mk("panic", explore.Short(x.Panic, 600))
	case x.Horizon:
		return nil // counted separately; a horizon hit is a harness limit, not a verdict
	case x.Deadlock != "":
		return mk("deadlock", x.Deadlock)
	case x.Err != "":
		return mk(strings.SplitN(x.Err, ":", 2)[0], x.Err)
	case expectObs != "" && x.Obs != expectObs:
		return mk("outcome-depends-on-schedule", fmt.Sprintf("observation %q differs from the default schedule's %q", x.Obs, expectObs))
	}
	return nil
}

func workerMain(p *chainx.Prefix, sc scen) {
	blocks := sc.blocks(p)
	run := func(ch vsched.Chooser) (*vsched.Sched, string, string) { return runScenario(p, sc, blocks, ch) }
	def := explore.One(run, nil)
	res := wres{PerBound: map[int]int{}, Outcomes: map[string]int{}}
	seen := map[string]bool{}
	in := bufio.NewScanner(os.Stdin)
	in.Buffer(make([]byte, 1<<20), 1<<24)
	for in.Scan() {
		var prefix []int
		if json.Unmarshal(in.Bytes(), &prefix) != nil {
			continue
		}
		e := &explore.Explorer{Run: run, Bound: *bound, MaxExecs: *maxExecs}
		e.OnExec = func(x *explore.Exec) bool {
			if v := classify(sc, x, def.Obs); v != nil && !seen[v.Key] {
				// a violation must reproduce: same choices, same observation
				y := explore.One(run, x.Choices)
				if v2 := classify(sc, y, def.Obs); v2 == nil || v2.Key != v.Key {
					v.Key = sc.name + "/unreproducible"
				}
				seen[v.Key] = true
				res.Viol = append(res.Viol, *v)
			}
			return true
		}
		e.Explore(prefix)
		res.Execs += e.St.Executions
		for k, v := range e.St.PerBound {
			res.PerBound[k] += v
		}
		for k, v := range e.St.Outcomes {
			res.Outcomes[k] += v
		}
		if e.St.MaxPoints > res.MaxPoints {
			res.MaxPoints = e.St.MaxPoints
		}
		res.Horizon += e.St.HorizonHits
		res.Capped = res.Capped || e.St.Capped
	}
	b, _ := json.Marshal(res)
	fmt.Fprintln(ev.Out, string(b))
}

func main() {
	r := ev.Start("C11", "model_checking")
	thoroughTier = r.Thorough()
	minichain.Quiet()
	utxo.UTXO_WRITING_TIME_TARGET = 0
	_ = chain.AbortNow
	// as the client does: transactions the memory pool has verified are not script-checked again
	chain.TrustedTxChecker = func(tx *btc.Tx) bool { return tx.Lock_time == vouchedLockTime }
	_ = btc.COIN
	// The client routes UTXO records through its own allocator, where freed memory is
	// recycled at once. With the Go heap a use-after-free would go unnoticed, so the
	// harness poisons every freed record: by contract nobody may read it any more.
	utxo.Memory_Free = func(p *[]byte) {
		for i := range *p {
			(*p)[i] = 0xEE
		}
	}
	vos.Hook = fileHook
	if *racePass > 0 {
		vos.Hook = nil
		racePassMain(scenarios(), *racePass)
		removePrefixes()
		os.Exit(0)
	}
	defer removePrefixes()
	scs := scenarios()
	if *worker == "" && *racePass == 0 {
		// the parent runs default executions and replays itself
		lim := syscall.Rlimit{Cur: 8 << 30, Max: 8 << 30}
		syscall.Setrlimit(syscall.RLIMIT_AS, &lim)
	}

	if *probe != "" {
		lim := syscall.Rlimit{Cur: 3 << 30, Max: 3 << 30}
		syscall.Setrlimit(syscall.RLIMIT_AS, &lim)
		for _, sc := range scs {
			if sc.name == *probe {
				p := prefixFor(sc)
				code := 0
				if why := ctlTry(func() {
					s := p.NewSession("c11probe")
					if k, w := s.Compare(); k != "" {
						fmt.Fprintln(os.Stderr, "PROBE: the directory written by building and closing the prefix chain does not reload as that chain:", k, w)
						code = 1
					}
					s.Close()
				}); why != "" {
					fmt.Fprintln(os.Stderr, "PROBE: reopening the prefix directory:", why)
					code = 1
				}
				removePrefixes()
				os.Exit(code)
			}
		}
		ev.HarnessError("unknown scenario %s", *probe)
	}
	if *worker != "" {
		// what an earlier execution left on disk is read back by the code under test: a damaged snapshot
		// must not be able to take the machine's memory (a worker that hits the limit dies with Go's
		// out-of-memory error and is reported as worker-process-died)
		lim := syscall.Rlimit{Cur: 3 << 30, Max: 3 << 30} // 16 workers: the sum stays below the machine's memory
		if err := syscall.Setrlimit(syscall.RLIMIT_AS, &lim); err != nil {
			ev.HarnessError("setrlimit: %v", err)
		}
		for _, sc := range scs {
			if sc.name == *worker {
				workerMain(prefixFor(sc), sc)
				removePrefixes()
				os.Exit(0)
			}
		}
		ev.HarnessError("unknown scenario %s", *worker)
	}
	if *replayFile != "" {
		b, _ := os.ReadFile(*replayFile)
		var rec struct {
			Replay viol `json:"replay"`
		}
		json.Unmarshal(b, &rec)
		for _, sc := range scs {
			if sc.name != rec.Replay.Scenario {
				continue
			}
			p := prefixFor(sc)
			blocks := sc.blocks(p)
			run := func(ch vsched.Chooser) (*vsched.Sched, string, string) { return runScenario(p, sc, blocks, ch) }
			def := explore.One(run, nil)
			x := explore.One(run, rec.Replay.Choices)
			v := classify(sc, x, def.Obs)
			removePrefixes()
			if v == nil {
				fmt.Fprintln(ev.Out, "replay: schedule passes; obs:", x.Obs)
				os.Exit(0)
			}
			fmt.Fprintf(ev.Out, "replay: %s: %s\n  schedule: %v\n", v.Key, v.What, v.Schedule)
			os.Exit(1)
		}
		ev.HarnessError("scenario not found")
	}

	nw := runtime.NumCPU()
	total := wres{PerBound: map[int]int{}, Outcomes: map[string]int{}}
	perScen := map[string]interface{}{}
	var samples []interface{}
	for _, sc := range scs {
		if only := os.Getenv("C11_ONLY"); only != "" && !strings.Contains(sc.name, only) {
			continue
		}
		t0 := time.Now()
		B := sc.qb
		if r.Thorough() {
			B = sc.tb
		}
		if os.Getenv("C11_BOUND") != "" {
			fmt.Sscan(os.Getenv("C11_BOUND"), &B)
		}
		// the starting directory is itself written by the code under test (prefix chain, then Close): before
		// this process opens copies of it, a child under a memory limit shows that it reloads as that chain
		if ok, done := probed[sc.compressed]; !done {
			cmd := exec.Command(os.Args[0], "--probe", sc.name, "--tier", r.Tier)
			var perr strings.Builder
			cmd.Stderr = &perr
			err := cmd.Run()
			probed[sc.compressed] = err == nil
			if err != nil {
				kind := map[bool]string{false: "plain-records", true: "compressed-records"}[sc.compressed]
				r.Report("start-directory/"+kind+"/snapshot-of-the-prefix-chain-does-not-reload", fmt.Sprintf("building the %d-block prefix and closing it leaves a directory that a fresh process cannot reopen as that chain: %v; %s", prefixLen, err, explore.Short(perr.String(), 600)), map[string]interface{}{"scenario": sc.name})
			}
		} else if !ok {
			continue
		}
		if !probed[sc.compressed] {
			continue
		}
		p := prefixFor(sc)
		blocks := sc.blocks(p)
		run := func(ch vsched.Chooser) (*vsched.Sched, string, string) { return runScenario(p, sc, blocks, ch) }
		def, tops := explore.TopLevel(run)
		// determinism: the default schedule twice
		def2 := explore.One(run, nil)
		if def.Obs != def2.Obs || len(def.Points) != len(def2.Points) {
			ev.HarnessError("scenario %s is not deterministic under the scheduler: %q/%d vs %q/%d", sc.name, def.Obs, len(def.Points), def2.Obs, len(def2.Points))
		}
		defViol := classify(sc, def, "")
		if defViol != nil {
			r.Report(defViol.Key, defViol.What, defViol)
		}
		if defViol == nil && !strings.HasPrefix(def.Obs, sc.expect+" |") {
			ev.HarnessError("scenario %s is vacuous: default schedule gives %q, expected results %q", sc.name, def.Obs, sc.expect)
		}
		if def.Horizon {
			ev.HarnessError("scenario %s: horizon %d hit by the default schedule", sc.name, sc.horizon)
		}
		sres := wres{Execs: 1, PerBound: map[int]int{0: 1}, Outcomes: map[string]int{def.Obs: 1}, MaxPoints: len(def.Points)}
		if B >= 1 {
			// shard the single-deviation prefixes over worker processes
			shards := make([][][]int, nw)
			for i, t := range tops {
				shards[i%nw] = append(shards[i%nw], t)
			}
			var wg sync.WaitGroup
			var mu sync.Mutex
			for w := 0; w < nw; w++ {
				if len(shards[w]) == 0 {
					continue
				}
				wg.Add(1)
				go func(sh [][]int) {
					defer wg.Done()
					cmd := exec.Command(os.Args[0], "--worker", sc.name, "--bound", fmt.Sprint(B), "--tier", r.Tier)
					cmd.Env = append(os.Environ(), "GOMAXPROCS=2")
					var in strings.Builder
					for _, t := range sh {
						b, _ := json.Marshal(t)
						in.Write(b)
						in.WriteByte('\n')
					}
					cmd.Stdin = strings.NewReader(in.String())
					var werr strings.Builder
					cmd.Stderr = &werr
					out, err := cmd.Output()
					if err != nil {
						t := werr.String()
						if len(t) > 3000 {
							t = t[len(t)-3000:]
						}
						fmt.Fprintln(os.Stderr, "WORKER STDERR TAIL:\n"+t)
					}
					if err != nil {
						// the worker runs the code under test on what earlier executions left on disk: its death
						// (a fatal runtime error, or the kernel killing it for the memory it asked for) is a verdict
						// about the tree, not a harness error; the shard's counts are lost
						mu.Lock()
						r.Report(sc.name+"/worker-process-died", fmt.Sprintf("a worker process exploring %s died: %v; stderr tail: %s", sc.name, err, explore.Short(werr.String(), 400)), map[string]interface{}{"scenario": sc.name, "bound": B})
						mu.Unlock()
						return
					}
					var wr wres
					lines := strings.Split(strings.TrimSpace(string(out)), "\n")
					if json.Unmarshal([]byte(lines[len(lines)-1]), &wr) != nil {
						ev.HarnessError("worker for %s: bad output %s", sc.name, explore.Short(string(out), 300))
					}
					mu.Lock()
					sres.Execs += wr.Execs
					for k, v := range wr.PerBound {
						sres.PerBound[k] += v
					}
					for k, v := range wr.Outcomes {
						sres.Outcomes[k] += v
					}
					if wr.MaxPoints > sres.MaxPoints {
						sres.MaxPoints = wr.MaxPoints
					}
					sres.Horizon += wr.Horizon
					sres.Capped = sres.Capped || wr.Capped
					sres.Viol = append(sres.Viol, wr.Viol...)
					mu.Unlock()
				}(shards[w])
			}
			wg.Wait()
		}
		sort.Slice(sres.Viol, func(i, j int) bool { return len(sres.Viol[i].Choices) < len(sres.Viol[j].Choices) })
		for _, v := range sres.Viol {
			r.Report(v.Key, v.What, v)
		}
		perScen[sc.name] = map[string]interface{}{"schedules": sres.Execs, "per_deviation_count": sres.PerBound, "decision_points_max": sres.MaxPoints,
			"distinct_outcomes": len(sres.Outcomes), "deviation_bound": B, "horizon_hits": sres.Horizon, "wall_s": time.Since(t0).Seconds(), "top_level_alternatives": len(tops)}
		total.Execs += sres.Execs
		total.MaxPoints += len(def.Points)
		for k := range sres.Outcomes {
			total.Outcomes[sc.name+": "+k] = 1
		}
		samples = append(samples, map[string]interface{}{"scenario": sc.name, "events": sc.events, "default_schedule_points": len(def.Points), "observation": def.Obs})
		fmt.Fprintf(os.Stderr, "scenario %s: %d schedules, %d outcomes, %.1fs\n", sc.name, sres.Execs, len(sres.Outcomes), time.Since(t0).Seconds())
	}
	// ---- separate free-running pass under the Go race detector ----
	raceRuns, raceReports := 0, 0
	raceBin := ev.OutDir() + "/bin/c11-race"
	startDirsReload := true
	for _, ok := range probed {
		startDirsReload = startDirsReload && ok
	}
	if !startDirsReload {
		fmt.Fprintln(os.Stderr, "free-running pass skipped: a starting directory does not reload (reported above)")
	}
	if _, err := os.Stat(raceBin); err == nil && os.Getenv("C11_ONLY") == "" && startDirsReload {
		iters := 3
		if r.Thorough() {
			iters = 20
		}
		for _, procs := range []string{"1", "4", "16"} {
			cmd := exec.Command(raceBin, "--racepass", fmt.Sprint(iters), "--tier", r.Tier)
			cmd.Env = append(os.Environ(), "GOMAXPROCS="+procs, "GORACE=halt_on_error=0 exitcode=0")
			var werr strings.Builder
			cmd.Stderr = &werr
			out, err := cmd.Output()
			if err != nil || !strings.Contains(string(out), "racepass-done") {
				// the free-running pass died: if it died INSIDE gocoin (panic / fatal error with a gocoin
				// frame above the harness), that is an outcome of the scenarios under a free schedule
				we := werr.String()
				died := ""
				for _, mark := range []string{"panic: ", "fatal error: "} {
					if i := strings.LastIndex(we, mark); i >= 0 {
						died = we[i:]
					}
				}
				if died != "" && strings.Contains(died, "github.com/piotrnar/gocoin/lib/") {
					first := strings.SplitN(died, "\n", 2)[0]
					site := "unknown"
					for _, l := range strings.Split(died, "\n") {
						l = strings.TrimSpace(l)
						if strings.HasPrefix(l, "github.com/piotrnar/gocoin/lib/") && !strings.Contains(l, "/vshim/") {
							site = strings.TrimPrefix(l, "github.com/piotrnar/gocoin/")
							if i := strings.LastIndex(site, "("); i > 0 {
								site = site[:i]
							}
							break
						}
					}
					r.Report("free-running-crash/"+site, "the free-running pass of the scenarios crashed inside gocoin: "+explore.Short(first, 200)+" | "+explore.Short(died, 1200), map[string]interface{}{"gomaxprocs": procs})
					continue
				}
				ev.HarnessError("race pass (GOMAXPROCS=%s) failed: %v %s", procs, err, explore.Short(tailStr(werr.String(), 1500), 1500))
			}
			raceRuns += iters * len(scs)
			for _, rep := range strings.Split(werr.String(), "WARNING: DATA RACE")[1:] {
				raceReports++
				fn := "unknown"
				for _, l := range strings.Split(rep, "\n") {
					l = strings.TrimSpace(l)
					if strings.HasPrefix(l, "github.com/piotrnar/gocoin/") && !strings.Contains(l, "/vshim/") {
						fn = strings.TrimPrefix(l, "github.com/piotrnar/gocoin/")
						if i := strings.LastIndex(fn, "("); i > 0 {
							fn = fn[:i] // drop the argument list, keep receiver and closure names
						}
						break
					}
				}
				r.Report("data-race/"+fn, "Go race detector report in the free-running pass: "+explore.Short(rep, 1200), map[string]interface{}{"gomaxprocs": procs, "report": explore.Short(rep, 3000)})
			}
		}
	}
	var rwc map[string]int
	if b, err := os.ReadFile(ev.OutDir() + "/.build/c11/vrewrite-counts.json"); err == nil {
		json.Unmarshal(b, &rwc)
	}
	r.Finish(map[string]interface{}{
		"states":                        len(total.Outcomes),
		"transitions":                   total.Execs,
		"schedules":                     total.Execs,
		"scenarios":                     perScen,
		"rewrite_sites":                 rwc,
		"race_pass_scenario_runs":       raceRuns,
		"race_pass_reports":             raceReports,
		"traces_validated_against_impl": total.Execs,
		"samples":                       samples,
		"exhaustive":                    true,
		"rule":                          "every schedule of gocoin's own goroutines with at most deviation_bound non-default decisions (thread switch at any lock/RLock/WaitGroup.Wait/atomic/channel op, select arm, map iteration order), each executed on the real code from a fresh copy of the prefix directory; oracle: no panic, no deadlock, verdicts + tip + decoded UTXO map equal the reference model and the default schedule's observation; states = distinct observations",
	}, []string{
		"scheduling points are synchronisation operations only (DRF assumption): plain unsynchronised memory accesses are the separate free-running -race pass's job",
		"RWMutex writer preference is not modelled (a superset of the behaviours with slow writers)",
		"every non-default decision costs one deviation (delay bounding); bound completed is reported",
		"instrumentation is a typed source rewrite applied through a build overlay generated from the working tree",
	})
}

func tailStr(s string, n int) string {
	if len(s) > n {
		return s[len(s)-n:]
	}
	return s
}
