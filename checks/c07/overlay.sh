#!/bin/bash
# overlay.sh <builddir> <overlay.json> <repo>: record every file effect of lib/chain and lib/utxo.
set -e
python3 /verif/internal/crashfs/mkoverlay.py "$1" "$2" "$3" lib/chain lib/utxo >&2
