// C07: restart after a crash at any point recovers a consistent chain state.
// Engine C: the workload runs once on the real code with every file-system effect
// recorded (os shim injected by overlay); every prefix of the effect log and every
// torn final write is materialised as a directory, a FRESH process opens it the way
// the client does, and what it sees is compared with the reference model.
package main

import (
	"bytes"
	"encoding/hex"
	"encoding/json"
	"flag"
	"fmt"
	"os"
	"path/filepath"
	"regexp"
	"runtime"
	"sort"
	"strings"
	"sync"
	"time"

	"github.com/piotrnar/gocoin/lib/btc"
	"github.com/piotrnar/gocoin/lib/chain"
	"github.com/piotrnar/gocoin/lib/others/vshim/vos"
	"github.com/piotrnar/gocoin/lib/utxo"

	"verif/internal/chainx"
	"verif/internal/crashfs"
	"verif/internal/ev"
	"verif/internal/minichain"
	"verif/ref/refchain"
	"verif/ref/reftx"
)

type OP = refchain.Outpoint

var params = refchain.DefaultParams()

func o1(v uint64) reftx.Out { return reftx.Out{Value: v, Script: []byte{0x51}} }

const prefixLen = 104

func buildPrefix(bulk bool) *chainx.Prefix {
	return chainx.BuildPrefix("c07", params, prefixLen, func(h uint32, s *minichain.Spec, p *chainx.Prefix) {
		if h == 103 && bulk {
			// 44 outputs of 3000 bytes: the snapshot no longer fits one 64 KiB chunk, so a paced save() has a
			// waiting point at which the next block can abort it
			var outs []reftx.Out
			for i := 0; i < 44; i++ {
				outs = append(outs, reftx.Out{Value: 1e8, Script: bytes.Repeat([]byte{0x51}, 3000)})
			}
			outs = append(outs, o1(6e8))
			s.Txs = append(s.Txs, minichain.Spend([]OP{p.Cb[2]}, outs))
		}
		if h == 102 {
			m := minichain.Spend([]OP{p.Cb[1]}, []reftx.Out{o1(10e8), o1(10e8), o1(10e8), o1(10e8), o1(10e8)})
			s.Txs = append(s.Txs, m)
			for i := 0; i < 5; i++ {
				p.Named[fmt.Sprint("M", i)] = OP{Tx: m.TxID(), Vout: uint32(i)}
			}
		}
	})
}

type workload struct {
	maxfile uint64 // BlockDBOpts.MaxDataFileSize (0 = one data file): every block in its own data file when small
	keep    uint32 // BlockDBOpts.DataFilesKeep (0 = keep all data files)
	name    string
	paced   bool // recorded with the default 5-minute pacing of snapshot writing on a prefix with bulky outputs: saves wait between chunks and can be aborted
	blocks  func(p *chainx.Prefix) (names []string, blocks []*reftx.Block)
	events  []string // block name | "idle" (Idle + wait for the snapshot) | "idle-nowait" | "close"
}

func mk(p *chainx.Prefix, specs ...[4]string) ([]string, []*reftx.Block) {
	// spec: name, parent, tag, coin to spend ("" = none)
	hash := map[string][32]byte{"P": p.Tip}
	height := map[string]uint32{"P": p.Height}
	var names []string
	var blocks []*reftx.Block
	for _, s := range specs {
		h := height[s[1]] + 1
		var tag byte
		fmt.Sscan(s[2], &tag)
		sp := minichain.Spec{Prev: hash[s[1]], Height: h, Tag: tag, CbValue: -1}
		if s[3] != "" {
			sp.Txs = []*reftx.Tx{minichain.Spend([]OP{p.Named[s[3]]}, []reftx.Out{o1(4e8), o1(6e8)})}
		}
		b := minichain.Build(sp)
		hash[s[0]], height[s[0]] = b.Hash(), h
		names = append(names, s[0])
		blocks = append(blocks, b)
	}
	return names, blocks
}

func workloads() []workload {
	return []workload{
		{name: "W1-extend-with-snapshots", events: []string{"A1", "idle", "A2", "idle", "A3", "idle", "close"},
			blocks: func(p *chainx.Prefix) ([]string, []*reftx.Block) {
				return mk(p, [4]string{"A1", "P", "1", "M0"}, [4]string{"A2", "A1", "1", "M1"}, [4]string{"A3", "A2", "1", ""})
			}},
		{name: "W2-snapshot-then-reorg", events: []string{"A1", "A2", "A3", "idle", "B2", "B3", "B4", "close"},
			blocks: func(p *chainx.Prefix) ([]string, []*reftx.Block) {
				return mk(p, [4]string{"A1", "P", "1", "M0"}, [4]string{"A2", "A1", "1", "M1"}, [4]string{"A3", "A2", "1", "M2"},
					[4]string{"B2", "A1", "2", "M1"}, [4]string{"B3", "B2", "2", "M3"}, [4]string{"B4", "B3", "2", ""})
			}},
		{name: "W2s-side-blocks-flushed-then-reorg-one-block-per-data-file", maxfile: 300, events: []string{"A1", "A2", "A3", "idle", "B2", "B3", "idle", "B4", "close"},
			blocks: func(p *chainx.Prefix) ([]string, []*reftx.Block) {
				return mk(p, [4]string{"A1", "P", "1", "M0"}, [4]string{"A2", "A1", "1", "M1"}, [4]string{"A3", "A2", "1", "M2"},
					[4]string{"B2", "A1", "2", "M1"}, [4]string{"B3", "B2", "2", "M3"}, [4]string{"B4", "B3", "2", ""})
			}},
		// old data files are dropped while the chain grows (keep = 1): the running node and the start-up
		// clean-up must agree on which files are still needed for the replay after a crash
		{name: "W7-extend-across-data-files-keep-1", maxfile: 600, keep: 1, events: []string{"A1", "A2", "A3", "idle", "A4", "A5", "A6", "flush", "A7", "close"},
			blocks: func(p *chainx.Prefix) ([]string, []*reftx.Block) {
				return mk(p, [4]string{"A1", "P", "1", "M0"}, [4]string{"A2", "A1", "1", "M1"}, [4]string{"A3", "A2", "1", "M2"},
					[4]string{"A4", "A3", "1", "M3"}, [4]string{"A5", "A4", "1", "M4"}, [4]string{"A6", "A5", "1", ""}, [4]string{"A7", "A6", "1", ""})
			}},
		{name: "W2b-snapshot-reorg-snapshot", events: []string{"A1", "A2", "idle", "B1", "B2", "B3", "idle", "close"},
			blocks: func(p *chainx.Prefix) ([]string, []*reftx.Block) {
				return mk(p, [4]string{"A1", "P", "1", "M0"}, [4]string{"A2", "A1", "1", "M1"},
					[4]string{"B1", "P", "2", "M0"}, [4]string{"B2", "B1", "2", "M2"}, [4]string{"B3", "B2", "2", ""})
			}},
		{name: "W3-snapshot-raced-by-next-block", events: []string{"A1", "idle-nowait", "A2", "idle-nowait", "A3", "close"},
			blocks: func(p *chainx.Prefix) ([]string, []*reftx.Block) {
				return mk(p, [4]string{"A1", "P", "1", "M0"}, [4]string{"A2", "A1", "1", "M1"}, [4]string{"A3", "A2", "1", ""})
			}},
		// a longer side branch whose last block is invalid when connected: the reorganisation fails, the
		// block is dropped while it is still queued for writing; then the chain goes on and is snapshotted
		{name: "W6-failed-reorg-then-extend-and-snapshot", events: []string{"A1", "B1", "B2x", "A2", "idle", "A3", "close"},
			blocks: func(p *chainx.Prefix) ([]string, []*reftx.Block) {
				return mk(p, [4]string{"A1", "P", "1", "M0"}, [4]string{"B1", "P", "2", "M2"}, [4]string{"B2x", "B1", "2", "M2"},
					[4]string{"A2", "A1", "1", "M1"}, [4]string{"A3", "A2", "1", ""})
			}},
		// a side branch with an invalid-when-connected block in its middle is stored over several
		// events, the active chain grows in between (so their records interleave in the files); only
		// the last side block triggers the reorganisation that fails and flags the whole side branch.
		// After a crash in between, the flags are written for blocks that were loaded from disk.
		{name: "W8-stored-invalid-side-branch-flagged-by-a-later-failed-reorg", events: []string{"A1", "A2", "A3", "X1", "X2", "X3", "A4", "idle", "X4", "X5x", "close"},
			blocks: func(p *chainx.Prefix) ([]string, []*reftx.Block) {
				return mk(p, [4]string{"A1", "P", "1", "M0"}, [4]string{"A2", "A1", "1", "M1"}, [4]string{"A3", "A2", "1", ""},
					[4]string{"X1", "P", "2", "M2"}, [4]string{"X2", "X1", "2", "M2"}, [4]string{"X3", "X2", "2", ""},
					[4]string{"A4", "A3", "1", ""}, [4]string{"X4", "X3", "2", ""}, [4]string{"X5x", "X4", "2", ""})
			}},
		// a block that fails when connected directly on the tip: LocalAcceptBlock has already handed it to
		// the block store (BlockAdd precedes CommitBlock), the head path of CommitBlock only unlinks the
		// node, so the bytes stay on disk unflagged and come back as a heavier leaf at the next start
		{name: "W9-block-refused-on-the-tip-stays-stored", events: []string{"A1", "A2x", "B2", "idle", "B3", "close"},
			blocks: func(p *chainx.Prefix) ([]string, []*reftx.Block) {
				return mk(p, [4]string{"A1", "P", "1", "M0"}, [4]string{"A2x", "A1", "1", "M0"}, [4]string{"B2", "A1", "2", "M1"}, [4]string{"B3", "B2", "2", ""})
			}},
		// a snapshot that is really aborted by the next block (the others run in hurry mode, where a save of a
		// small set completes at once): S1 complete, S2 aborted by A3, S3 aborted by A4, S4 complete; with one
		// block per data file and keep=1 a replay from genesis is impossible, a snapshot must survive
		{name: "W10-paced-snapshots-aborted-by-next-block-keep-1", paced: true, maxfile: 600, keep: 1,
			events: []string{"A1", "idle-hurry", "A2", "idle-paced", "A3", "idle-paced", "A4", "idle-hurry", "A5", "close"},
			blocks: func(p *chainx.Prefix) ([]string, []*reftx.Block) {
				return mk(p, [4]string{"A1", "P", "1", "M0"}, [4]string{"A2", "A1", "1", "M1"}, [4]string{"A3", "A2", "1", "M2"},
					[4]string{"A4", "A3", "1", "M3"}, [4]string{"A5", "A4", "1", ""})
			}},
		{name: "W5-side-branch-during-snapshot", events: []string{"A1", "A2", "idle-nowait", "B1", "idle", "A3", "close"},
			blocks: func(p *chainx.Prefix) ([]string, []*reftx.Block) {
				return mk(p, [4]string{"A1", "P", "1", "M0"}, [4]string{"A2", "A1", "1", "M1"}, [4]string{"B1", "P", "2", "M2"}, [4]string{"A3", "A2", "1", ""})
			}},
	}
}

// deliverClient offers a block the way client/main.go does: CheckBlock +
// AcceptHeader when the data arrives, then AbortWriting, BlockAdd, CommitBlock.
func deliverClient(ch *chain.Chain, raw []byte) string {
	bl, err := btc.NewBlock(append([]byte{}, raw...))
	if err != nil {
		return "refused: NewBlock: " + err.Error()
	}
	if discardedBlocks[bl.Hash.Hash] {
		return "refused: check: header of a discarded block" // ProcessNewHeader
	}
	ch.BlockIndexAccess.Lock()
	_, later, err := ch.CheckBlock(bl)
	if err != nil {
		ch.BlockIndexAccess.Unlock()
		if later {
			return "later"
		}
		if strings.Contains(err.Error(), "already in") {
			return "dup"
		}
		return "refused: check: " + err.Error()
	}
	node := ch.AcceptHeader(bl)
	ch.BlockIndexAccess.Unlock()
	// HandleNetBlock: a block below a refused one is dropped (network.DiscardedBlocks lives as long
	// as the process), one with incomplete ancestry is held back
	if discardedBlocks[node.Parent.BlockHash.Hash] {
		discardedBlocks[node.BlockHash.Hash] = true
		return "refused: accept: parent discarded"
	}
	if !ch.HasAllParents(node) {
		return "refused: accept: held back, ancestry incomplete"
	}
	ch.Unspent.AbortWriting()
	ch.Blocks.BlockAdd(node.Height, bl)
	bl.LastKnownHeight = node.Height
	if err := ch.CommitBlock(bl, node); err != nil {
		discardBlock(node)
		return "refused: accept: " + err.Error()
	}
	return "ok"
}

// discardedBlocks mirrors network.DiscardedBlocks (per process, not persisted).
var discardedBlocks = map[[32]byte]bool{}

func discardBlock(n *chain.BlockTreeNode) {
	for _, c := range n.Childs {
		discardBlock(c)
	}
	discardedBlocks[n.BlockHash.Hash] = true
}

func waitSnapshot(ch *chain.Chain, dir string) {
	// the snapshot goroutines are free-running: wait (generously) until they are done,
	// so that the recorded history is the uncontended one
	for i := 0; i < 60000; i++ {
		tmp, _ := filepath.Glob(dir + "/*.db.tmp")
		if !ch.Unspent.WritingInProgress.Get() && len(tmp) == 0 {
			return
		}
		time.Sleep(time.Millisecond)
	}
	ev.HarnessError("snapshot did not finish within 60 s")
}

// waitPaced waits until the paced save has written its first chunk and sits in its pacing wait.
func waitPaced(ch *chain.Chain, dir string) {
	for i := 0; i < 20000; i++ {
		tmp, _ := filepath.Glob(dir + "/*.db.tmp")
		if len(tmp) == 1 {
			if st, err := os.Stat(tmp[0]); err == nil && st.Size() > 0 {
				time.Sleep(20 * time.Millisecond)
				if !ch.Unspent.WritingInProgress.Get() {
					panic("paced snapshot finished instead of waiting (set too small for pacing?)")
				}
				return
			}
		}
		time.Sleep(time.Millisecond)
	}
	panic("paced snapshot did not start writing within 20 s")
}

// ---------- recovery driver (fresh process) ----------

type recOut struct {
	Steps     []string `json:"steps"`
	OpenTip   string   `json:"open_tip"`
	OpenUTXO  string   `json:"open_utxo"`
	CatchTip  string   `json:"catchup_tip"`
	CatchUTXO string   `json:"catchup_utxo"`
	FinalTip  string   `json:"final_tip"`
	FinalUTXO string   `json:"final_utxo"`
	ReTip     string   `json:"reopen_tip"`
	ReUTXO    string   `json:"reopen_utxo"`
	Audit     string   `json:"audit"` // "" or the first stored block of the active chain that does not read back
	AuditN    int      `json:"audit_blocks"`
	ScanTip   string   `json:"rescan_tip"`
	ScanUTXO  string   `json:"rescan_utxo"`
}

func tipOf(ch *chain.Chain) string { return hex.EncodeToString(ch.LastBlock().BlockHash.Hash[:]) }
func utxoOf(ch *chain.Chain) string {
	_, h := refchain.Dump(minichain.DumpUTXO(ch.Unspent))
	return h
}

func recoverMain(dir string, blocksFile string, libDefault bool) {
	minichain.Quiet()
	var out recOut
	step := func(s string) { out.Steps = append(out.Steps, s) }
	o := &minichain.Opts{Params: params}
	o.ChainOpts.DoNotRescan = !libDefault
	o.BlockDBOpts.MaxDataFileSize = *maxFile
	o.BlockDBOpts.DataFilesKeep = uint32(*keepFiles)
	e := minichain.Open(dir, o)
	ch := e.Ch
	out.OpenTip, out.OpenUTXO = tipOf(ch), utxoOf(ch)
	if !libDefault {
		// client/main.go: blocks found on disk beyond the snapshot are re-applied through CommitBlock
		end, _ := ch.BlockTreeRoot.FindFarthestNode()
		if end.Height > ch.LastBlock().Height {
			last := ch.LastBlock()
			if last != end {
				last = last.FindFirstFather(end)
			}
			// do_the_blocks only queues the stored blocks; each one then goes through HandleNetBlock,
			// which drops a block whose parent was refused (CheckParentDiscarded / DiscardBlock) and
			// holds back one whose ancestry is incomplete (HasAllParents) before LocalAcceptBlock
			for last != end {
				nxt := last.FindPathTo(end)
				if nxt == nil {
					break
				}
				if nxt.BlockSize == 0 {
					step("BlockSize is zero - corrupt database")
					break
				}
				if discardedBlocks[nxt.Parent.BlockHash.Hash] {
					discardedBlocks[nxt.BlockHash.Hash] = true
					step("catch-up: block " + fmt.Sprint(nxt.Height) + " dropped, its parent was refused")
					last = nxt
					continue
				}
				if !ch.HasAllParents(nxt) {
					step("catch-up: block " + fmt.Sprint(nxt.Height) + " held back, ancestry incomplete")
					last = nxt
					continue
				}
				crec, trusted, _ := ch.Blocks.BlockGetInternal(nxt.BlockHash, true)
				if crec == nil || crec.Data == nil {
					panic(fmt.Sprint("No data for block #", nxt.Height, " ", nxt.BlockHash.String()))
				}
				bl, er := btc.NewBlock(crec.Data)
				if er != nil {
					step("btc.NewBlock() error - corrupt database")
					break
				}
				bl.Height = nxt.Height
				ch.ApplyBlockFlags(bl)
				if er = bl.BuildTxList(); er != nil {
					step("bl.BuildTxList() error - corrupt database")
					break
				}
				bl.Trusted.Store(trusted)
				if trusted {
					bl.Trusted.Set()
				}
				ch.Unspent.AbortWriting()
				ch.Blocks.BlockAdd(nxt.Height, bl)
				bl.LastKnownHeight = end.Height
				if er := ch.CommitBlock(bl, nxt); er != nil {
					step("catch-up CommitBlock " + fmt.Sprint(nxt.Height) + ": " + er.Error())
					discardBlock(nxt)
				}
				last = nxt
			}
		}
	}
	out.CatchTip, out.CatchUTXO = tipOf(ch), utxoOf(ch)
	// feed the whole workload again, the way peers would re-deliver what we miss
	var raws []string
	if b, err := os.ReadFile(blocksFile); err == nil {
		json.Unmarshal(b, &raws)
	}
	pending := raws
	for round := 0; round < len(raws)+1 && len(pending) > 0; round++ {
		var next []string
		for _, hx := range pending {
			raw, _ := hex.DecodeString(hx)
			r := deliverClient(ch, raw)
			if r == "later" {
				next = append(next, hx)
			}
			step("feed: " + r)
		}
		if len(next) == len(pending) {
			break
		}
		pending = next
	}
	out.FinalTip, out.FinalUTXO = tipOf(ch), utxoOf(ch)
	e.Close()
	e2 := minichain.Open(dir, o)
	out.ReTip, out.ReUTXO = tipOf(e2.Ch), utxoOf(e2.Ch)
	// every block of the active chain must read back from the files (nothing is cached after a
	// restart) as the bytes that hash to its name
	auditDepth := 1 << 30
	if *keepFiles != 0 {
		// with DataFilesKeep older data files legitimately disappear: only the newest blocks (within the
		// newest keep+1 files for this workload's block sizes) must read back, and a rescan from genesis
		// is not possible by design
		auditDepth = 2
	}
	for n := e2.Ch.LastBlock(); n != nil && n.Parent != nil && out.Audit == "" && out.AuditN < auditDepth; n = n.Parent {
		func() {
			defer func() {
				if r := recover(); r != nil {
					out.Audit = fmt.Sprintf("reading block %d panics: %v", n.Height, r)
				}
			}()
			data, _, err := e2.Ch.Blocks.BlockGet(n.BlockHash)
			switch {
			case err != nil:
				out.Audit = fmt.Sprintf("block %d %s: %v", n.Height, n.BlockHash.String()[:12], err)
			case len(data) < 80 || !btc.NewSha2Hash(data[:80]).Equal(n.BlockHash):
				out.Audit = fmt.Sprintf("block %d %s reads back as other data", n.Height, n.BlockHash.String()[:12])
			}
			out.AuditN++
		}()
	}
	e2.Close()
	// a third start that rebuilds the unspent set from the block files alone
	if *keepFiles != 0 {
		out.ScanTip, out.ScanUTXO = out.FinalTip, out.FinalUTXO
		b, _ := json.Marshal(out)
		fmt.Fprintln(ev.Out, string(b))
		os.Exit(0)
	}
	o3 := &minichain.Opts{Params: params, Rescan: true}
	o3.BlockDBOpts.MaxDataFileSize = *maxFile
	o3.BlockDBOpts.DataFilesKeep = uint32(*keepFiles)
	e3 := minichain.Open(dir, o3)
	out.ScanTip, out.ScanUTXO = tipOf(e3.Ch), utxoOf(e3.Ch)
	e3.Close()
	b, _ := json.Marshal(out)
	fmt.Fprintln(ev.Out, string(b))
	os.Exit(0)
}

var (
	recoverDir = flag.String("recover", "", "internal: recovery driver on this directory")
	blocksArg  = flag.String("blocks", "", "internal: json file with the workload's blocks (hex)")
	libDef     = flag.Bool("libdefault", false, "internal: open with the library default (DoNotRescan=false)")
	maxFile    = flag.Uint64("maxfile", 0, "internal: BlockDBOpts.MaxDataFileSize of the workload")
	keepFiles  = flag.Uint("keep", 0, "internal: BlockDBOpts.DataFilesKeep of the workload")
	replayFile = flag.String("replay", "", "replay a recorded violation")
)

type crashCase struct {
	Workload string      `json:"workload"`
	Cut      crashfs.Cut `json:"cut"`
	Variant  string      `json:"variant"`
	Markers  []string    `json:"markers"`
	LastEff  string      `json:"last_effect"`
}

func main() {
	// the recovery driver must not touch the evidence machinery
	for i, a := range os.Args {
		if a == "--recover" && i+1 < len(os.Args) {
			flag.Parse()
			recoverMain(*recoverDir, *blocksArg, *libDef)
		}
	}
	r := ev.Start("C07", "fault_enumeration")
	minichain.Quiet()
	utxo.UTXO_WRITING_TIME_TARGET = 0
	pPlain := buildPrefix(false)
	defer pPlain.Remove()
	var pBulk *chainx.Prefix
	defer func() {
		if pBulk != nil {
			pBulk.Remove()
		}
	}()
	scratch := ev.Scratch("c07")
	defer os.RemoveAll(scratch)

	var evals, conform int
	var mu sync.Mutex
	outcomes := map[string]int{}
	perW := map[string]interface{}{}
	samples := &ev.Samples{N: 4}
	wls := workloads()
	for _, w := range wls {
		if only := os.Getenv("C07_ONLY"); only != "" && !strings.Contains(w.name, only) {
			continue
		}
		p := pPlain
		utxo.UTXO_WRITING_TIME_TARGET = 0
		if w.paced {
			if pBulk == nil {
				pBulk = buildPrefix(true)
			}
			p = pBulk
			utxo.UTXO_WRITING_TIME_TARGET = 5 * time.Minute
		}
		names, blocks := w.blocks(p)
		byName := map[string]*reftx.Block{}
		var raws []string
		for i, n := range names {
			byName[n] = blocks[i]
			raws = append(raws, hex.EncodeToString(blocks[i].Bytes()))
		}
		bf := filepath.Join(scratch, w.name+"-blocks.json")
		jb, _ := json.Marshal(raws)
		os.WriteFile(bf, jb, 0o644)

		discardedBlocks = map[[32]byte]bool{} // each workload is its own process lifetime
		// ---- record the workload ----
		dir := filepath.Join(scratch, w.name+"-real")
		ev.CopyDir(p.Dir, dir)
		rec := vos.Record(dir)
		o := &minichain.Opts{Params: params}
		o.ChainOpts.DoNotRescan = true
		o.BlockDBOpts.MaxDataFileSize = w.maxfile
		o.BlockDBOpts.DataFilesKeep = w.keep
		e := minichain.Open(dir, o)
		model := p.Model.Clone()
		// the uninterrupted run itself: a panic of the code under test or an answer that differs from
		// the construction of the workload is a verdict about the tree, not a harness error
		recFail, recWhat := func() (key, what string) {
			defer func() {
				if x := recover(); x != nil {
					key, what = "uninterrupted-run-panics", fmt.Sprintf("workload %s: the run without any crash panics: %v", w.name, x)
				}
			}()
			for _, evn := range w.events {
				switch evn {
				case "idle":
					e.Ch.Idle()
					waitSnapshot(e.Ch, dir)
				case "idle-nowait":
					e.Ch.Idle()
				case "idle-hurry":
					e.Ch.Idle()
					e.Ch.Unspent.HurryUp()
					waitSnapshot(e.Ch, dir)
				case "idle-paced":
					e.Ch.Idle()
					waitPaced(e.Ch, dir)
				case "flush":
					e.Ch.Blocks.Idle() // queued blocks to disk, no UTXO snapshot
				case "close":
					e.Close()
				default:
					rec.Marker("BEGIN " + evn)
					res := deliverClient(e.Ch, byName[evn].Bytes())
					if strings.HasSuffix(evn, "x") {
						if res == "ok" {
							return "uninterrupted-run-differs-from-reference", fmt.Sprintf("workload %s: block %s is invalid when it is connected, the node answers ok", w.name, evn)
						}
					} else if res != "ok" {
						return "uninterrupted-run-differs-from-reference", fmt.Sprintf("workload %s: valid block %s: %s", w.name, evn, res)
					}
					model.Add(byName[evn])
					rec.Marker("ACK " + evn)
				}
			}
			return "", ""
		}()
		rec.Stop()
		utxo.UTXO_WRITING_TIME_TARGET = 0
		if recFail != "" {
			r.Report(w.name+"/"+recFail, recWhat, crashCase{Workload: w.name, Variant: "no-crash"})
			perW[w.name] = map[string]interface{}{"skipped": recFail}
			continue
		}
		log, err := crashfs.Relativize(crashfs.Convert(rec.Effects()), dir)
		if err != nil {
			ev.HarnessError("relativize: %v", err)
		}
		if err := crashfs.Conformance(log, "", p.Dir, dir, filepath.Join(scratch, w.name+"-conf")); err != nil {
			ev.HarnessError("workload %s: the effect log does not reproduce the real directory: %v", w.name, err)
		}
		conform++
		// reference: final state of the uninterrupted run
		best := model.BestTips()[0]
		_, finalUTXO := refchain.Dump(model.UTXOAt(best))
		finalTip := hex.EncodeToString(best.Hash[:])
		validated := func(markers []string) map[string]bool {
			m := map[string]bool{hex.EncodeToString(p.Tip[:]): true}
			for _, mk := range markers {
				if strings.HasPrefix(mk, "BEGIN ") {
					b := byName[strings.TrimPrefix(mk, "BEGIN ")]
					h := b.Hash()
					m[hex.EncodeToString(h[:])] = true
				}
			}
			return m
		}
		utxoAt := func(tipHex string) (string, bool) {
			var h [32]byte
			b, _ := hex.DecodeString(tipHex)
			copy(h[:], b)
			n := model.Nodes[h]
			if n == nil || !model.Valid(n) {
				return "", false
			}
			_, d := refchain.Dump(model.UTXOAt(n))
			return d, true
		}

		cuts := crashfs.Cuts(log)
		type job struct {
			cut     crashfs.Cut
			dir     string
			markers []string
			stale   bool // an undo file needed to unwind the snapshot holds another branch's data
		}
		jobs := make(chan job, 64)
		var wg sync.WaitGroup
		variants := []string{"client"}
		nCuts := 0
		for wk := 0; wk < runtime.NumCPU(); wk++ {
			wg.Add(1)
			go func() {
				defer wg.Done()
				for j := range jobs {
					for vi, variant := range variants {
						d := j.dir
						if vi+1 < len(variants) {
							d = j.dir + "-v"
							ev.CopyDir(j.dir, d)
						}
						extra := []string{"--blocks", bf, "--maxfile", fmt.Sprint(w.maxfile), "--keep", fmt.Sprint(w.keep)}
						if variant == "libdefault" {
							extra = append(extra, "--libdefault")
						}
						if kc := os.Getenv("C07_KEEPCUT"); kc != "" && kc == fmt.Sprint(j.cut.N) {
							// debugging aid: keep the crashed directory and the blocks file of this cut
							kd := fmt.Sprintf("/tmp/c07cut-%d-%d", j.cut.N, j.cut.Torn)
							ev.CopyDir(d, kd)
							b, _ := os.ReadFile(bf)
							os.WriteFile(kd+".blocks.json", b, 0o644)
						}
						res := crashfs.Recover(d, extra, 120*time.Second)
						os.RemoveAll(d)
						le := ""
						if j.cut.N > 0 {
							le = log[j.cut.N-1].String()
						}
						if j.cut.Torn > 0 {
							le = "torn " + log[j.cut.N].String()
						}
						cc := crashCase{w.name, j.cut, variant, j.markers, explore(le)}
						key, what := judge(res, validated(j.markers), utxoAt, finalTip, finalUTXO)
						mu.Lock()
						evals++
						outcomes[w.name+"/"+variant+"/"+key]++
						mu.Unlock()
						if key != "ok" && j.stale && (strings.HasPrefix(key, "catchup-utxo") || strings.HasPrefix(key, "final-state") || strings.HasPrefix(key, "recovery-died-panic")) {
							// one listed root cause, recognised by a predicate on the crashed directory itself
							k2 := strings.SplitN(key, ":", 2)[0]
							r.Report("undo-file-overwritten-by-other-branch-after-snapshot/"+variant+"/"+k2, what+" [crash point: "+cc.LastEff+"]", cc)
						} else if key != "ok" {
							r.Report(w.name+"/"+variant+"/"+key, what+" [crash point: "+cc.LastEff+"]", cc)
						} else {
							samples.Add(cc)
						}
					}
				}
			}()
		}
		if r.Thorough() {
			variants = []string{"client", "libdefault"}
		}
		err = crashfs.Enumerate(log, "", p.Dir, scratch, cuts, func(cut crashfs.Cut, d string, markers []string) bool {
			keep := d + "-k"
			if err := os.Rename(d, keep); err != nil {
				ev.HarnessError("rename: %v", err)
			}
			nCuts++
			jobs <- job{cut, keep, markers, undoOverwritten(keep, model, p.Height)}
			return false
		})
		close(jobs)
		wg.Wait()
		if err != nil {
			ev.HarnessError("enumerate: %v", err)
		}
		perW[w.name] = map[string]interface{}{"effects": len(log), "crash_points": nCuts, "variants": variants}
	}
	var oc []string
	for k, v := range outcomes {
		oc = append(oc, fmt.Sprintf("%s=%d", k, v))
	}
	sort.Strings(oc)
	r.Finish(map[string]interface{}{
		"evaluations":                   evals,
		"distinct_nontrivial":           len(outcomes),
		"workloads":                     perW,
		"outcome_classes":               oc,
		"traces_validated_against_impl": conform,
		"samples":                       samples.L,
		"exhaustive":                    true,
		"rule":                          "for each workload the recorded file-effect log is cut at every prefix and, for the write at the cut, at every torn length (every byte for writes <= 256 bytes, else 1 / 4096-multiples / len-1); each materialised directory is opened by a fresh process with the client's options and the client's catch-up logic, then the workload's blocks are re-delivered, then the directory is closed and reopened; distinct_nontrivial = distinct (workload, variant, outcome class) combinations observed",
	}, []string{
		"crash = process death: the OS keeps every completed system call (no power-loss reordering)",
		"the effect-log model is validated on every run: materialising the full log reproduces the real directory byte for byte",
		"snapshot goroutines are free-running while recording; every recorded log is a real history, completeness over their interleavings belongs to the scheduler engine",
		"a tip counts as validated if its block's delivery had begun before the crash point and the reference finds its chain valid",
	})
}

func explore(s string) string {
	if len(s) > 160 {
		return s[:160] + "…"
	}
	return s
}

// judge applies the five oracles of C07 to one recovery.
var scratchPath = regexp.MustCompile(`/[^ :]*/(cut-[0-9]+(-k)?(-v)?|[A-Za-z0-9._-]*-real)/`)

func judge(res crashfs.Result, validated map[string]bool, utxoAt func(string) (string, bool), finalTip, finalUTXO string) (string, string) {
	if res.Died() {
		d := scratchPath.ReplaceAllString(res.Detail, "<dir>/") // keys must not depend on scratch directory names
		if len(d) > 80 {
			d = d[:80]
		}
		return "recovery-died-" + res.Class + ":" + d, "reopening the directory did not succeed: " + res.String()
	}
	var o recOut
	lines := strings.Split(strings.TrimSpace(string(res.Stdout)), "\n")
	if json.Unmarshal([]byte(lines[len(lines)-1]), &o) != nil {
		return "recovery-bad-output", "no result from the recovery driver"
	}
	if !validated[o.OpenTip] {
		return "open-tip-never-validated", "tip after open " + o.OpenTip[:12] + " was not validated before the crash"
	}
	if want, ok := utxoAt(o.OpenTip); !ok || want != o.OpenUTXO {
		return "open-utxo-not-replay-of-tip", "UTXO set after open is not the replay of the tip's chain"
	}
	if want, ok := utxoAt(o.CatchTip); !ok || want != o.CatchUTXO {
		return "catchup-utxo-not-replay-of-tip", "after re-applying stored blocks the UTXO set is not the replay of the tip " + o.CatchTip[:12] + "; steps: " + strings.Join(o.Steps, "; ")
	}
	if o.FinalTip != finalTip || o.FinalUTXO != finalUTXO {
		return "final-state-differs-from-uninterrupted-run", fmt.Sprintf("after feeding the remaining blocks tip=%s utxo=%s, uninterrupted run gives tip=%s utxo=%s; steps: %s", o.FinalTip[:12], o.FinalUTXO, finalTip[:12], finalUTXO, strings.Join(o.Steps, "; "))
	}
	if o.ReTip != o.FinalTip || o.ReUTXO != o.FinalUTXO {
		return "clean-restart-changes-state", "close + reopen does not reproduce the pre-shutdown state"
	}
	if o.Audit != "" {
		return "stored-block-does-not-read-back", "after recovery, continued use and a clean restart: " + o.Audit
	}
	if o.ScanTip != o.FinalTip || o.ScanUTXO != o.FinalUTXO {
		return "rescan-of-block-files-differs", fmt.Sprintf("rebuilding the unspent set from the block files gives tip=%s utxo=%s, the node had tip=%s utxo=%s", o.ScanTip[:12], o.ScanUTXO, o.FinalTip[:12], o.FinalUTXO)
	}
	return "ok", ""
}

// undoOverwritten is the predicate of the listed finding: the snapshot on disk
// (UTXO.db, else UTXO.old) names block S, and for some height h above the common
// prefix the file undo/<h> exists but starts with a hash other than that of S's
// ancestor at h - i.e. the undo data needed to unwind the snapshot was replaced by
// another branch's.
func undoOverwritten(dir string, m *refchain.Model, prefixHeight uint32) bool {
	var hdr []byte
	for _, fn := range []string{"UTXO.db", "UTXO.old"} {
		b, err := os.ReadFile(filepath.Join(dir, fn))
		if err == nil && len(b) >= 48 {
			hdr = b[:48]
			break
		}
	}
	if hdr == nil {
		return false
	}
	var h [32]byte
	copy(h[:], hdr[8:40])
	for n := m.Nodes[h]; n != nil && n.Height > prefixHeight; n = n.Parent {
		b, err := os.ReadFile(filepath.Join(dir, "undo", fmt.Sprint(n.Height)))
		if err == nil && len(b) >= 32 && string(b[:32]) != string(n.Hash[:]) {
			return true
		}
	}
	return false
}
