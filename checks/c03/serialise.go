package main

// "Own-signature serialisation" family, added after the independently seeded change
// C03-e was missed: whatever the library emits as a DER signature must be THE canonical
// DER encoding of (r, s) - judged by an independent BIP66 (IsValidSignatureEncoding)
// decoder in refsig, whose output must be exactly (r, s), with s low for own signatures.
//
//   serialise/directed   (r, s) pairs constructed directly: 0..3 leading zero bytes x
//                        first remaining byte 0x80 / 0x7f / 0xff / 0x01 x two tails, and
//                        tiny values (1, 0x7f, 0x80, 0xff, 0x100); every pair is put into
//                        secp256k1.Signature / btc.Signature and serialised; the canonical
//                        encoding is then parsed back by the library and re-serialised
//                        (round trip, high S allowed);
//   serialise/tx         Tx.Sign and Tx.SignWitness on a fixed deterministic sequence of
//                        transactions and keys (these carry their own copy of the
//                        serialiser): the signature inside ScriptSig / the witness;
//   volume:ecdsa         (extra.go) the serialised bytes of every library-made signature of
//                        the volume sequence, through both Signature.Bytes variants.

import (
	"bytes"
	"crypto/sha256"
	"encoding/binary"
	"fmt"
	"math/big"

	"github.com/piotrnar/gocoin/lib/btc"
	"github.com/piotrnar/gocoin/lib/secp256k1"

	"verif/ref/refsecp"
	"verif/ref/refsig"
)

// canonicalDER checks one emitted signature (WITH hash type byte) against (r, s)
func canonicalDER(emitted []byte, r, s *big.Int, hashType byte) string {
	dr, ds, ht, ok := refsig.DecodeStrictDER(emitted)
	if !ok {
		return fmt.Sprintf("%x is not a valid BIP66 encoding (canonical: %x)", emitted, append(refsig.SerializeDER(r, s), hashType))
	}
	if dr.Cmp(r) != 0 || ds.Cmp(s) != 0 || ht != hashType {
		return fmt.Sprintf("%x decodes to r=%s s=%s type=%02x, expected r=%s s=%s type=%02x", emitted, dr.Text(16), ds.Text(16), ht, r.Text(16), s.Text(16), hashType)
	}
	if !bytes.Equal(emitted, append(refsig.SerializeDER(r, s), hashType)) {
		return fmt.Sprintf("%x differs from the canonical encoding %x", emitted, append(refsig.SerializeDER(r, s), hashType))
	}
	return ""
}

func serialiseValues() []*big.Int {
	var out []*big.Int
	tail := sha256.Sum256([]byte("verif C03 serialise tail"))
	for lead := 0; lead <= 3; lead++ {
		n := 32 - lead
		for _, first := range []byte{0x80, 0x7f, 0xff, 0x01} {
			for _, tk := range []int{0, 1, 2} {
				b := make([]byte, n)
				b[0] = first
				switch tk {
				case 1:
					for i := 1; i < n; i++ {
						b[i] = 0xff
					}
				case 2:
					copy(b[1:], tail[1:n])
				}
				out = append(out, new(big.Int).SetBytes(b))
			}
		}
	}
	for _, v := range []int64{1, 2, 0x7f, 0x80, 0xff, 0x100, 0x7fff, 0x8000} {
		out = append(out, big.NewInt(v))
	}
	out = append(out, sub(bigN, bi(1)), refsecp.HalfN, add(refsecp.HalfN, bi(1)))
	return out
}

func genSerialise(thorough bool, emit func(Case)) {
	n := len(serialiseValues())
	for i := 0; i < n*n; i++ {
		emit(Case{API: "serialise:directed", Family: "serialise/directed", Rep: i})
	}
}

func evalSerialiseDirected(c Case) (v verdict) {
	vals := serialiseValues()
	r, s := vals[c.Rep/len(vals)], vals[c.Rep%len(vals)]
	v.judged = true
	defer func() {
		if e := recover(); e != nil {
			v = verdict{key: "serialise/panic", what: fmt.Sprintf("serialising r=%s s=%s panics: %v", r.Text(16), s.Text(16), e), class: "panic", judged: true}
		}
	}()
	desc := fmt.Sprintf("r=%s s=%s", r.Text(16), s.Text(16))
	var ls secp256k1.Signature
	ls.R.Set(r)
	ls.S.Set(s)
	if why := canonicalDER(append(ls.Bytes(), 1), r, s, 1); why != "" {
		return verdict{key: "serialise/secp256k1.Signature.Bytes-not-canonical-der", class: "not-canonical", judged: true,
			what: "secp256k1.Signature{R,S}.Bytes() for " + desc + ": " + why}
	}
	for _, ht := range []byte{0x01, 0x83} {
		var bs btc.Signature
		bs.R.Set(r)
		bs.S.Set(s)
		bs.HashType = ht
		if why := canonicalDER(bs.Bytes(), r, s, ht); why != "" {
			return verdict{key: "serialise/btc.Signature.Bytes-not-canonical-der", class: "not-canonical", judged: true,
				what: "btc.Signature{R,S,HashType}.Bytes() for " + desc + ": " + why}
		}
		// round trip of the canonical third-party encoding: parse, re-serialise
		canon := append(refsig.SerializeDER(r, s), ht)
		ps, err := btc.NewSignature(canon)
		if err != nil || ps == nil {
			return verdict{key: "serialise/canonical-der-not-parsed", class: "parse-failed", judged: true,
				what: fmt.Sprintf("btc.NewSignature(%x) fails on a canonical encoding (%s)", canon, desc)}
		}
		if ps.R.Cmp(r) != 0 || ps.S.Cmp(s) != 0 || ps.HashType != ht {
			return verdict{key: "serialise/canonical-der-misparsed", class: "misparsed", judged: true,
				what: fmt.Sprintf("btc.NewSignature(%x) gives r=%s s=%s type=%02x (%s)", canon, ps.R.Text(16), ps.S.Text(16), ps.HashType, desc)}
		}
		if out := ps.Bytes(); !bytes.Equal(out, canon) {
			return verdict{key: "serialise/btc.Signature.Bytes-not-canonical-der", class: "roundtrip-differs", judged: true,
				what: fmt.Sprintf("btc.NewSignature(%x).Bytes() = %x: the round trip of a canonical signature changes it", canon, out)}
		}
	}
	v.class = "canonical, round trip exact"
	return v
}

// ---- Tx.Sign / Tx.SignWitness ----

func genSerialiseTx(thorough bool, emit func(Case)) {
	n := 3000
	if thorough {
		n = 30000
	}
	for i := 0; i < n; i++ {
		emit(Case{API: "serialise:tx", Family: "serialise/tx", Rep: i})
	}
}

func serialiseTx(i int) *btc.Tx {
	var b [8]byte
	binary.BigEndian.PutUint64(b[:], uint64(i))
	h := sha256.Sum256(append([]byte("c03-serialise-tx"), b[:]...))
	tx := new(btc.Tx)
	tx.Version = 2
	in := &btc.TxIn{Sequence: 0xfffffffe}
	copy(in.Input.Hash[:], h[:])
	in.Input.Vout = uint32(i % 3)
	tx.TxIn = []*btc.TxIn{in}
	tx.TxOut = []*btc.TxOut{{Value: uint64(1000 + i), Pk_script: append([]byte{0x00, 0x14}, h[:20]...)}}
	tx.Lock_time = uint32(i)
	return tx
}

func evalSerialiseTx(c Case) (v verdict) {
	v.judged = true
	defer func() {
		if e := recover(); e != nil {
			v = verdict{key: "serialise/tx-sign-panic", what: fmt.Sprintf("Tx.Sign/SignWitness case %d panics: %v", c.Rep, e), class: "panic", judged: true}
		}
	}()
	sk, _, _ := volumeKey(1000000 + c.Rep)
	d := new(big.Int).SetBytes(sk)
	if d.Sign() == 0 || d.Cmp(bigN) >= 0 {
		return verdict{class: "skipped-key-out-of-range", judged: false}
	}
	pub := btc.PublicFromPrivate(sk, true)
	h160 := btc.Rimp160AfterSha256(pub)
	pkScript := append(append([]byte{0x76, 0xa9, 0x14}, h160[:]...), 0x88, 0xac)
	const ht = 1
	check := func(what string, sig, digest []byte) *verdict {
		r, s, _, ok := refsig.DecodeStrictDER(sig)
		if !ok {
			lr, ls, _ := refsig.ParseDERLaxRaw(sig[:len(sig)-1])
			canon := []byte(nil)
			if lr != nil && ls != nil {
				canon = append(refsig.SerializeDER(lr, ls), ht)
			}
			return &verdict{key: "serialise/" + what + "-not-canonical-der", class: "not-canonical", judged: true,
				what: fmt.Sprintf("%s (case %d, priv=%x) emits the signature %x, which is not a valid BIP66 encoding (canonical: %x)", what, c.Rep, sk, sig, canon)}
		}
		if why := canonicalDER(sig, r, s, ht); why != "" {
			return &verdict{key: "serialise/" + what + "-not-canonical-der", class: "not-canonical", judged: true, what: what + ": " + why}
		}
		if !refsig.IsLowS(s) {
			return &verdict{key: "serialise/" + what + "-high-s", class: "high-s", judged: true, what: fmt.Sprintf("%s emits a high S: %x", what, sig)}
		}
		if !btc.EcdsaVerify(pub, sig, digest) || (c.Rep%16 == 0 && !refsig.ECDSAVerify(pub, r, s, digest)) {
			if !refsig.ECDSAVerify(pub, r, s, digest) {
				return &verdict{key: "serialise/" + what + "-does-not-verify", class: "does-not-verify", judged: true,
					what: fmt.Sprintf("%s: the emitted signature %x does not verify for the digest %x under %x", what, sig, digest, pub)}
			}
		}
		return nil
	}
	// legacy
	tx := serialiseTx(c.Rep)
	digest := serialiseTx(c.Rep).SignatureHash(pkScript, 0, ht)
	if err := tx.Sign(0, pkScript, ht, pub, sk); err != nil {
		return verdict{key: "serialise/Tx.Sign-error", class: "error", judged: true, what: "Tx.Sign: " + err.Error()}
	}
	ss := tx.TxIn[0].ScriptSig
	if len(ss) < 2 || int(ss[0])+1 > len(ss) {
		return verdict{key: "serialise/Tx.Sign-not-canonical-der", class: "bad-script", judged: true, what: fmt.Sprintf("Tx.Sign produced the script %x", ss)}
	}
	if bad := check("Tx.Sign", ss[1:1+int(ss[0])], digest); bad != nil {
		return *bad
	}
	// segwit v0
	tw := serialiseTx(c.Rep)
	tw.AllocVerVars()
	t2 := serialiseTx(c.Rep)
	t2.AllocVerVars()
	amount := uint64(5000 + c.Rep)
	wd := t2.WitnessSigHash(pkScript, amount, 0, ht)
	if err := tw.SignWitness(0, pkScript, amount, ht, pub, sk); err != nil {
		return verdict{key: "serialise/Tx.SignWitness-error", class: "error", judged: true, what: "Tx.SignWitness: " + err.Error()}
	}
	if len(tw.SegWit) != 1 || len(tw.SegWit[0]) != 2 || len(tw.SegWit[0][0]) < 9 {
		return verdict{key: "serialise/Tx.SignWitness-not-canonical-der", class: "bad-witness", judged: true, what: fmt.Sprintf("Tx.SignWitness produced the witness %x", tw.SegWit)}
	}
	if bad := check("Tx.SignWitness", tw.SegWit[0][0], wd); bad != nil {
		return *bad
	}
	v.class = "canonical, low S, verifies"
	return v
}
