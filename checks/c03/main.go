// C03: ECDSA / BIP340 / BIP341-tweak acceptance is exact; own signatures verify.
//
// Shape-mode exploration: constructed finite input families (valid triples, every
// single-bit mutation, boundary scalars, every key encoding, algebraic
// constructions that the implementation's unchecked arithmetic would accept) are
// enumerated exhaustively and judged by the reference model refsig/refsecp.
package main

import (
	"encoding/hex"
	"encoding/json"
	"flag"
	"fmt"
	"os"
	"runtime"
	"sort"
	"strconv"
	"strings"
	"sync"
	"time"

	"github.com/piotrnar/gocoin/lib/btc"

	"verif/internal/ev"
	"verif/ref/refsig"
)

// Case is one member of a family: an API call on the implementation.
type Case struct {
	API    string `json:"api"` // EcdsaVerify | SchnorrVerify | CheckPayToContract | NewPublicKey | ParseXOnlyPubkey | sign:*
	Family string `json:"family"`
	Note   string `json:"note,omitempty"`
	Pub    string `json:"pub,omitempty"` // EcdsaVerify: key bytes; SchnorrVerify: x-only key; P2C: internal key
	Sig    string `json:"sig,omitempty"` // EcdsaVerify: DER (no hash type); SchnorrVerify: 64 bytes; P2C: output key
	Msg    string `json:"msg,omitempty"` // 32-byte digest; P2C: tweak
	Par    bool   `json:"parity,omitempty"`
	Priv   string `json:"priv,omitempty"` // signers
	Aux    string `json:"aux,omitempty"`
	Rep    int    `json:"rep,omitempty"`
	idx    int
}

func hx(b []byte) string { return hex.EncodeToString(b) }
func unhx(s string) []byte {
	b, err := hex.DecodeString(s)
	if err != nil {
		ev.HarnessError("bad hex in case: %v", err)
	}
	return b
}

// verdict of one evaluation
type verdict struct {
	key    string // violation key, "" = agreement (or not judged)
	what   string
	class  string // outcome class for the distinct-outcome statistics
	judged bool
}

type collector struct {
	mu       sync.Mutex
	evals    int
	perFam   map[string]int
	classes  map[string]int // family|class -> count
	notJud   map[string]int
	best     map[string]*found // key -> lowest-index case
	samples  map[string]Case   // one sample per family|class (lowest index)
	sampleIx map[string]int
}

type found struct {
	c    Case
	what string
}

func newCollector() *collector {
	return &collector{perFam: map[string]int{}, classes: map[string]int{}, notJud: map[string]int{},
		best: map[string]*found{}, samples: map[string]Case{}, sampleIx: map[string]int{}}
}

func (co *collector) add(c Case, v verdict) {
	co.mu.Lock()
	defer co.mu.Unlock()
	co.evals++
	co.perFam[c.Family]++
	ck := c.Family + "|" + v.class
	co.classes[ck]++
	if ix, ok := co.sampleIx[ck]; !ok || c.idx < ix {
		co.sampleIx[ck] = c.idx
		co.samples[ck] = c
	}
	if !v.judged {
		co.notJud[v.class]++
	}
	if v.key != "" {
		if f, ok := co.best[v.key]; !ok || c.idx < f.c.idx {
			co.best[v.key] = &found{c, v.what}
		}
	}
}

func evaluate(c Case) verdict {
	switch c.API {
	case "EcdsaVerify":
		return evalEcdsa(c)
	case "SchnorrVerify":
		return evalSchnorr(c)
	case "CheckPayToContract":
		return evalP2C(c)
	case "NewPublicKey":
		return evalParse(c)
	case "ParseXOnlyPubkey":
		return evalParseXOnly(c)
	case "volume:schnorr", "volume:ecdsa":
		return evalVolume(c)
	case "ladder:ecdsa", "ladder:ecdsa-shifted", "ladder:p2c":
		return evalLadder(c)
	case "buffers":
		return evalBuffers(c)
	case "serialise:directed":
		return evalSerialiseDirected(c)
	case "serialise:tx":
		return evalSerialiseTx(c)
	case "sign:ecdsa-random", "sign:ecdsa-rfc6979", "sign:ecdsa-nonce", "sign:schnorr", "recover":
		return evalSigner(c)
	}
	ev.HarnessError("unknown api %q", c.API)
	return verdict{}
}

var replayFile = flag.String("replay", "", "replay one recorded case (no explorer)")

func replay(file string) {
	b, err := os.ReadFile(file)
	if err != nil {
		ev.HarnessError("%v", err)
	}
	var rec struct {
		Key    string `json:"key"`
		Replay Case   `json:"replay"`
	}
	if err := json.Unmarshal(b, &rec); err != nil {
		ev.HarnessError("%v", err)
	}
	if rec.Replay.API == "sign:ecdsa-rfc6979" || (rec.Replay.API == "buffers" && rec.Replay.Rep%2 == 1) {
		btc.EcdsaSignWithRFC6979 = true
	}
	if rec.Replay.API == "racepass" {
		r := ev.Start("C03", "exploration")
		info := runRacePass(r)
		fmt.Fprintf(ev.Out, "replay: free-running race-detector pass: %v, findings: %d\n", info, r.Violations())
		if r.Violations() > 0 {
			os.Exit(1)
		}
		os.Exit(0)
	}
	v := evaluate(rec.Replay)
	fmt.Fprintf(ev.Out, "replay: api=%s family=%s class=%s\n", rec.Replay.API, rec.Replay.Family, v.class)
	if v.key == "" {
		fmt.Fprintln(ev.Out, "replay: implementation agrees with the reference on this case")
		os.Exit(0)
	}
	fmt.Fprintf(ev.Out, "replay: %s: %s\n", v.key, v.what)
	os.Exit(1)
}

func main() {
	for _, a := range os.Args[1:] {
		if strings.HasPrefix(a, "--racepass=") {
			// the binary built with -race: free-running concurrent pass, no verdict protocol
			n, _ := strconv.Atoi(strings.TrimPrefix(a, "--racepass="))
			racePassMain(n)
			return
		}
	}
	r := ev.Start("C03", "exploration")
	if dn, err := os.OpenFile("/dev/null", os.O_WRONLY, 0); err == nil {
		os.Stdout = dn
	}
	if btc.EC_Verify != nil || btc.Schnorr_Verify != nil || btc.Check_PayToContract != nil {
		ev.HarnessError("a native verification backend is hooked in; the check judges the Go implementation")
	}
	if *replayFile != "" {
		replay(*replayFile)
		return
	}
	// family sizes are fixed per tier; the budget is only a watchdog against a stuck
	// machine (a capped run is reported as not exhaustive), it does not size the quick tier
	r.Budget = 15 * time.Minute
	if r.Thorough() {
		r.Budget = 17 * time.Minute
	}
	t0 := time.Now()
	vec, err := refsig.SelfTest(ev.Repo())
	if err != nil {
		ev.HarnessError("reference model fails its own vectors: %v", err)
	}
	vecTotal := 0
	for _, n := range vec {
		vecTotal += n
	}
	fmt.Fprintf(os.Stderr, "reference self-test: %v (%.1fs)\n", vec, time.Since(t0).Seconds())

	co := newCollector()
	run := func(cases []Case) {
		jobs := make(chan Case, 256)
		var wg sync.WaitGroup
		for w := 0; w < runtime.NumCPU(); w++ {
			wg.Add(1)
			go func() {
				defer wg.Done()
				for c := range jobs {
					co.add(c, evaluate(c))
				}
			}()
		}
		for _, c := range cases {
			if r.OverBudget() {
				break // remaining members are not executed; the run is reported as not exhaustive
			}
			jobs <- c
		}
		close(jobs)
		wg.Wait()
	}

	var all []Case
	emit := func(c Case) {
		c.idx = len(all)
		all = append(all, c)
	}
	genEcdsa(r.Thorough(), emit)
	genSchnorr(r.Thorough(), emit)
	genP2C(r.Thorough(), emit)
	genParse(r.Thorough(), emit)
	genXgeN(emit)
	genSerialise(r.Thorough(), emit)
	genLadder(r.Thorough(), emit)
	genVolume(r.Thorough(), emit)
	nVerify := len(all)
	fmt.Fprintf(os.Stderr, "generated %d verification cases (%.1fs)\n", nVerify, time.Since(t0).Seconds())
	run(all)
	fmt.Fprintf(os.Stderr, "verification families done (%.1fs)\n", time.Since(t0).Seconds())

	// signers: the RFC6979 switch is a package-level variable, so the two ECDSA
	// modes run in separate phases
	var sRandom, sDet []Case
	emitSigner := func(c Case) {
		c.idx = nVerify + len(sRandom) + len(sDet)
		if c.API == "sign:ecdsa-rfc6979" || (c.API == "buffers" && c.Rep%2 == 1) {
			sDet = append(sDet, c)
		} else {
			sRandom = append(sRandom, c)
		}
	}
	genSigners(r.Thorough(), emitSigner)
	genBuffers(emitSigner)
	genSerialiseTx(r.Thorough(), emitSigner) // random-nonce phase: any nonce must serialise canonically
	btc.EcdsaSignWithRFC6979 = false
	run(sRandom)
	btc.EcdsaSignWithRFC6979 = true
	run(sDet)
	btc.EcdsaSignWithRFC6979 = false
	fmt.Fprintf(os.Stderr, "signer families done (%.1fs)\n", time.Since(t0).Seconds())

	// free-running pass of the entry points under the race detector (second binary)
	tr := time.Now()
	raceInfo := runRacePass(r)
	raceInfo["wall_s"] = float64(int(time.Since(tr).Seconds()*10)) / 10
	fmt.Fprintf(os.Stderr, "race pass done: %v (%.1fs)\n", raceInfo, time.Since(t0).Seconds())

	// deterministic reporting: for every key the lowest-index failing case,
	// re-evaluated once more before it is believed
	var keys []string
	for k := range co.best {
		keys = append(keys, k)
	}
	sort.Strings(keys)
	for _, k := range keys {
		f := co.best[k]
		if f.c.API == "sign:ecdsa-rfc6979" || (f.c.API == "buffers" && f.c.Rep%2 == 1) {
			btc.EcdsaSignWithRFC6979 = true
		}
		again := evaluate(f.c)
		btc.EcdsaSignWithRFC6979 = false
		if again.key != k && f.c.API != "sign:ecdsa-random" {
			r.Unrepro = append(r.Unrepro, k+" :: "+f.what)
			continue
		}
		r.Report(k, f.what, f.c)
	}

	// evidence
	var classKeys []string
	for k := range co.classes {
		classKeys = append(classKeys, k)
	}
	sort.Strings(classKeys)
	var samples []interface{}
	for _, k := range classKeys {
		if len(samples) < 24 {
			samples = append(samples, map[string]interface{}{"class": k, "case": co.samples[k]})
		}
	}
	r.Finish(map[string]interface{}{
		"evaluations":           co.evals,
		"distinct_nontrivial":   len(co.classes),
		"rule":                  "a case class is (family, reference reason, implementation verdict); every class listed in outcome_classes was produced by at least one executed case on the real code and the reference; classes whose reference reason is a pure format failure are included because the implementation's format gate is part of the predicate",
		"per_family":            co.perFam,
		"outcome_classes":       co.classes,
		"not_judged":            co.notJud,
		"samples":               samples,
		"reference_vectors":     vec,
		"reference_vector_sum":  vecTotal,
		"executed_of_generated": fmt.Sprintf("%d of %d", co.evals, nVerify+len(sRandom)+len(sDet)),
	}, []string{
		"oracle: refsig over refsecp (math/big affine arithmetic, BIP340/BIP341/RFC6979/BIP66 texts, Core's lax DER parser); validated in this run against the BIP340 CSV and the literal vectors of gocoin's own test sources (counts in reference_vectors)",
		"signature encoding for ECDSA is Core's consensus (lax) parser; a signature that only the lax parser understands and gocoin refuses is property C01's DER finding and is counted in not_judged, never reported here",
		"the space of byte strings is 2^(8*len): the claim is bounded-exhaustive over the listed constructed families (every member executed), not over all inputs",
		"random-nonce ECDSA: the set of checks per (secret, message) is exhaustive, the nonce is the library's own randomness (16 repetitions each)",
		"deterministic ECDSA reference is RFC 6979 as libsecp256k1/Core compute it (message bytes unreduced in the HMAC key material); for digests >= n the strict RFC variant (bits2octets reduction) is also computed and either is accepted, the matched variant is counted",
	})
}
