package main

import (
	"bytes"
	"fmt"
	"math/big"
	"sort"

	"github.com/piotrnar/gocoin/lib/btc"

	"verif/ref/refsecp"
	"verif/ref/refsig"
)

func sortStrings(l []string) { sort.Strings(l) }

func schnorrCase(fam, note string, pk, sig, msg []byte) Case {
	return Case{API: "SchnorrVerify", Family: fam, Note: note, Pub: hx(pk), Sig: hx(sig), Msg: hx(msg)}
}

func auxSet(thorough bool) [][]byte {
	a := [][]byte{make([]byte, 32), hashBytes("verif C03 aux")}
	if thorough {
		a = append(a, bytes.Repeat([]byte{0xff}, 32))
	}
	return a
}

func genSchnorr(thorough bool, emit func(Case)) {
	secs := baseSecrets()
	msgs := baseMsgs()
	for di, d := range secs {
		pk, _ := refsig.XOnlyFromPriv(b32(d))
		for mi, m := range msgs {
			for ai, aux := range auxSet(thorough) {
				sig := refsig.SchnorrSign(b32(d), m, aux)
				if sig == nil {
					panic("reference SchnorrSign failed")
				}
				tag := fmt.Sprintf("key#%d msg#%d aux#%d", di, mi, ai)
				emit(schnorrCase("schnorr/valid", tag, pk, sig, m))
				if ai != 0 {
					continue
				}
				// every single-bit flip (quick: two keys, the hash message)
				if thorough || (mi == 6 && (di == 0 || di == 4)) {
					for i := 0; i < 256; i++ {
						emit(schnorrCase("schnorr/bitflip-key", fmt.Sprintf("%s key bit %d", tag, i), flip(pk, i), sig, m))
					}
					for i := 0; i < 512; i++ {
						emit(schnorrCase("schnorr/bitflip-sig", fmt.Sprintf("%s sig bit %d", tag, i), pk, flip(sig, i), m))
					}
					for i := 0; i < 256; i++ {
						emit(schnorrCase("schnorr/bitflip-msg", fmt.Sprintf("%s msg bit %d", tag, i), pk, sig, flip(m, i)))
					}
				}
				// boundary values for r and s
				r, s := refsecp.Int(sig[:32]), refsecp.Int(sig[32:])
				rv := map[string]*big.Int{"0": bi(0), "1": bi(1), "p-1": sub(bigP, bi(1)), "p": bigP, "p+1": add(bigP, bi(1)), "2^256-1": sub(two56, bi(1)),
					"n": bigN, "p-r": sub(bigP, r)}
				sv := map[string]*big.Int{"0": bi(0), "1": bi(1), "n-1": sub(bigN, bi(1)), "n": bigN, "n+1": add(bigN, bi(1)), "2^256-1": sub(two56, bi(1)),
					"n-s": modN(sub(bigN, s)), "p": bigP}
				if add(r, bigP).Cmp(two56) < 0 {
					rv["r+p"] = add(r, bigP)
				}
				if add(s, bigN).Cmp(two56) < 0 {
					sv["s+n"] = add(s, bigN)
				}
				for _, k := range sortedKeys(rv) {
					emit(schnorrCase("schnorr/scalar-r", tag+" r:="+k, pk, cat(b32(rv[k]), sig[32:]), m))
				}
				for _, k := range sortedKeys(sv) {
					emit(schnorrCase("schnorr/scalar-s", tag+" s:="+k, pk, cat(sig[:32], b32(sv[k])), m))
				}
				// the signature equation holds but R has odd y
				{
					dd := d
					P := refsecp.MulG(d)
					if P.Y.Bit(0) == 1 {
						dd = sub(bigN, d)
					}
					k := modN(hashInt(fmt.Sprint("verif C03 schnorr nonce ", di, mi)))
					R := refsecp.MulG(k)
					if R.Y.Bit(0) == 0 {
						k = sub(bigN, k)
						R = refsecp.Neg(R)
					}
					eh := refsig.TaggedHash("BIP0340/challenge", b32(R.X), pk, m)
					e := modN(refsecp.Int(eh[:]))
					so := modN(add(k, mulN(e, dd)))
					emit(schnorrCase("schnorr/odd-R", tag+" equation holds with odd-Y nonce point", pk, cat(b32(R.X), b32(so)), m))
					// the same with the even nonce: valid (control)
					se := modN(add(sub(bigN, k), mulN(e, dd)))
					emit(schnorrCase("schnorr/odd-R", tag+" control: even-Y nonce point", pk, cat(b32(R.X), b32(se)), m))
				}
				// key substitutions with a valid signature of another key
				if mi == 6 {
					kv := map[string]*big.Int{"p": bigP, "p+1": add(bigP, bi(1)), "2^256-1": sub(two56, bi(1)), "0": bi(0), "p-1": sub(bigP, bi(1))}
					for i, pt := range smallXPoints(2) {
						kv[fmt.Sprintf("small-x#%d", i)] = pt.X
						kv[fmt.Sprintf("small-x#%d+p", i)] = add(pt.X, bigP)
					}
					for i, ux := range unliftableX(2) {
						kv[fmt.Sprintf("unliftable#%d", i)] = ux
					}
					for _, k := range sortedKeys(kv) {
						emit(schnorrCase("schnorr/key-subst", tag+" key:="+k, b32(kv[k]), sig, m))
					}
				}
				// lengths (first key, hash message only): prefixes of sig||0000 and s + j*n in 33 bytes
				if di == 4 && mi == 6 {
					ext := cat(sig, []byte{0, 0})
					for l := 0; l <= len(ext); l++ {
						if l == 64 {
							continue
						}
						emit(schnorrCase("schnorr/length", fmt.Sprintf("%s first %d bytes of sig||0000", tag, l), pk, ext[:l], m))
					}
					for _, j := range []int64{1, 2, 255} {
						sp := add(s, new(big.Int).Mul(bi(j), bigN))
						b := sp.Bytes()
						b = cat(make([]byte, 33-len(b)), b)
						emit(schnorrCase("schnorr/length", fmt.Sprintf("%s 65-byte signature r || (s+%d*n as 33 bytes)", tag, j), pk, cat(sig[:32], b), m))
					}
					pke := cat(pk, []byte{0, 0})
					for l := 0; l <= len(pke); l++ {
						if l == 32 {
							continue
						}
						emit(schnorrCase("schnorr/length", fmt.Sprintf("%s first %d bytes of key||0000", tag, l), pke[:l], sig, m))
					}
				}
			}
		}
	}
}

func refSchnorr(pk, sig, msg []byte) (bool, string) {
	if len(pk) != 32 || len(sig) != 64 {
		return false, "schnorr/wrong-length"
	}
	if refsecp.Int(pk).Cmp(bigP) >= 0 {
		return false, "schnorr/key-x-ge-p"
	}
	if _, ok := refsecp.LiftX(refsecp.Int(pk)); !ok {
		return false, "schnorr/key-unliftable"
	}
	if refsecp.Int(sig[:32]).Cmp(bigP) >= 0 {
		return false, "schnorr/r-out-of-range"
	}
	if refsecp.Int(sig[32:]).Cmp(bigN) >= 0 {
		return false, "schnorr/s-out-of-range"
	}
	// the gates above are re-derived here only to NAME the reason; the verdict
	// itself is refsig.SchnorrVerify's (a disagreement between the two is a
	// harness error)
	if !refsig.SchnorrVerify(pk, msg, sig) {
		return false, "schnorr/equation-fails"
	}
	return true, "valid"
}

func evalSchnorr(c Case) verdict {
	pk, sig, msg := unhx(c.Pub), unhx(c.Sig), unhx(c.Msg)
	want, reason := refSchnorr(pk, sig, msg)
	if !want && reason != "schnorr/equation-fails" && refsig.SchnorrVerify(pk, msg, sig) {
		panic("refsig: SchnorrVerify and its classification disagree")
	}
	var got bool
	var pan string
	func() {
		defer func() {
			if e := recover(); e != nil {
				pan = fmt.Sprint(e)
			}
		}()
		got = btc.SchnorrVerify(pk, sig, msg)
	}()
	call := fmt.Sprintf("btc.SchnorrVerify(pkey=%s, sig=%s, msg=%s)", c.Pub, c.Sig, c.Msg)
	if pan != "" {
		if reason == "schnorr/wrong-length" {
			// the script interpreter checks both lengths before the call; a crash on a
			// wrong-length argument is outside the statement of C03
			return verdict{class: "wrong-length-panic", judged: false}
		}
		return verdict{key: "schnorr/panic", what: call + " panics: " + pan + " [" + c.Note + "]", class: reason + "|panic", judged: true}
	}
	cl := fmt.Sprintf("%s|impl=%v", reason, got)
	if got == want {
		return verdict{class: cl, judged: true}
	}
	if got {
		return verdict{key: reason + "-accepted", class: cl, judged: true,
			what: fmt.Sprintf("%s returns true; BIP340 verification fails (%s) [%s]", call, reason, c.Note)}
	}
	return verdict{key: "schnorr/valid-rejected", class: cl, judged: true, what: call + " returns false; BIP340 verification succeeds [" + c.Note + "]"}
}

// ---------------------------------------------------------------------------
// taproot commitment check: btc.CheckPayToContract(outputKey, internalKey, tweak, parity)

func p2cCase(fam, note string, q, p, t []byte, parity bool) Case {
	return Case{API: "CheckPayToContract", Family: fam, Note: note, Sig: hx(q), Pub: hx(p), Msg: hx(t), Par: parity}
}

func genP2C(thorough bool, emit func(Case)) {
	secs := baseSecrets()
	tweaks := map[string]*big.Int{"0": bi(0), "1": bi(1), "2": bi(2), "n-1": sub(bigN, bi(1)), "hash": modN(hashInt("verif C03 tweak")),
		"n": bigN, "n+1": add(bigN, bi(1)), "n+2": add(bigN, bi(2)), "2^256-1": sub(two56, bi(1))}
	for di, d := range secs {
		P, _ := refsecp.LiftX(refsecp.MulG(d).X)
		pb := b32(P.X)
		// the secret of the even-y lift
		de := d
		if refsecp.MulG(d).Y.Bit(0) == 1 {
			de = sub(bigN, d)
		}
		tw := map[string]*big.Int{}
		for k, v := range tweaks {
			tw[k] = v
		}
		tw["-d (sum is infinity)"] = modN(sub(bigN, de))
		tw["-d+n (sum is infinity, tweak >= n)"] = add(modN(sub(bigN, de)), bigN)
		for _, tn := range sortedKeys(tw) {
			t := tw[tn]
			if t.Cmp(two56) >= 0 {
				continue
			}
			// what unchecked arithmetic computes: lift_x(p) + (t mod n) G
			Q := refsecp.Add(P, refsecp.MulG(modN(t)))
			tag := fmt.Sprintf("key#%d tweak=%s", di, tn)
			var qb []byte
			var par bool
			if Q.Inf {
				qb, par = pb, false
				emit(p2cCase("p2c/infinity", tag+" q:=internal key", qb, pb, b32(t), false))
				emit(p2cCase("p2c/infinity", tag+" q:=internal key, odd", qb, pb, b32(t), true))
				emit(p2cCase("p2c/infinity", tag+" q:=0", make([]byte, 32), pb, b32(t), false))
				continue
			}
			qb, par = b32(Q.X), Q.Y.Bit(0) == 1
			fam := "p2c/valid"
			if t.Cmp(bigN) >= 0 {
				fam = "p2c/tweak-range"
			}
			emit(p2cCase(fam, tag+" right parity", qb, pb, b32(t), par))
			emit(p2cCase(fam, tag+" wrong parity", qb, pb, b32(t), !par))
			if tn == "hash" && (thorough || di == 4) || thorough && tn == "n-1" {
				for i := 0; i < 256; i++ {
					emit(p2cCase("p2c/bitflip-q", fmt.Sprintf("%s output key bit %d", tag, i), flip(qb, i), pb, b32(t), par))
					emit(p2cCase("p2c/bitflip-p", fmt.Sprintf("%s internal key bit %d", tag, i), qb, flip(pb, i), b32(t), par))
					emit(p2cCase("p2c/bitflip-t", fmt.Sprintf("%s tweak bit %d", tag, i), qb, pb, flip(b32(t), i), par))
				}
			}
		}
	}
	// internal key x + p for the smallest-x points
	nx := 3
	if thorough {
		nx = 8
	}
	for i, pt := range smallXPoints(nx) {
		P, _ := refsecp.LiftX(pt.X)
		for _, tn := range []string{"0", "1", "hash"} {
			t := tweaks[tn]
			Q := refsecp.Add(P, refsecp.MulG(t))
			tag := fmt.Sprintf("small-x#%d (x=%s) tweak=%s ", i, pt.X.Text(10), tn)
			emit(p2cCase("p2c/internal-x-ge-p", tag+"canonical internal key", b32(Q.X), b32(P.X), b32(t), Q.Y.Bit(0) == 1))
			emit(p2cCase("p2c/internal-x-ge-p", tag+"internal key x+p", b32(Q.X), b32(add(P.X, bigP)), b32(t), Q.Y.Bit(0) == 1))
			emit(p2cCase("p2c/internal-x-ge-p", tag+"internal key x+p, wrong parity", b32(Q.X), b32(add(P.X, bigP)), b32(t), Q.Y.Bit(0) == 0))
		}
	}
	// unliftable internal key: the bogus even-y "point" plus t*G by the chord rule
	// (t even and < 2^128: the implementation adds the key last, after t*G is complete)
	for i, ux := range unliftableX(nx) {
		B := bogusLift(ux, false)
		for _, t := range []*big.Int{bi(0), bi(2), bi(4), new(big.Int).Lsh(bi(1), 100)} {
			Q := refsecp.Add(refsecp.MulG(t), B)
			if Q.Inf {
				continue
			}
			tag := fmt.Sprintf("unliftable#%d (x=%s) tweak=%s ", i, ux.Text(16), t.Text(10))
			emit(p2cCase("p2c/internal-unliftable", tag+"right parity", b32(Q.X), b32(ux), b32(t), Q.Y.Bit(0) == 1))
			emit(p2cCase("p2c/internal-unliftable", tag+"wrong parity", b32(Q.X), b32(ux), b32(t), Q.Y.Bit(0) == 0))
		}
	}
	// internal keys >= p that do not reduce to anything useful
	G := refsecp.G()
	for _, v := range []*big.Int{bigP, sub(two56, bi(1))} {
		emit(p2cCase("p2c/internal-x-ge-p", "internal key "+v.Text(16)+" q:=Gx", b32(G.X), b32(v), make([]byte, 32), false))
	}
}

func refP2C(q, p, t []byte, parity bool) (bool, string) {
	if len(q) != 32 || len(p) != 32 || len(t) != 32 {
		return false, "taproot/wrong-length"
	}
	if refsecp.Int(p).Cmp(bigP) >= 0 {
		return false, "taproot/internal-key-x-ge-p"
	}
	P, ok := refsecp.LiftX(refsecp.Int(p))
	if !ok {
		return false, "taproot/internal-key-unliftable"
	}
	if refsecp.Int(t).Cmp(bigN) >= 0 {
		return false, "taproot/tweak-out-of-range"
	}
	if refsecp.Add(P, refsecp.MulG(refsecp.Int(t))).Inf {
		return false, "taproot/sum-infinity"
	}
	if !refsig.XOnlyTweakAddCheck(q, parity, p, t) {
		return false, "taproot/mismatch"
	}
	return true, "valid"
}

func evalP2C(c Case) verdict {
	q, p, t := unhx(c.Sig), unhx(c.Pub), unhx(c.Msg)
	want, reason := refP2C(q, p, t, c.Par)
	if !want && reason != "taproot/mismatch" && refsig.XOnlyTweakAddCheck(q, c.Par, p, t) {
		panic("refsig: XOnlyTweakAddCheck and its classification disagree")
	}
	var got bool
	var pan string
	func() {
		defer func() {
			if e := recover(); e != nil {
				pan = fmt.Sprint(e)
			}
		}()
		got = btc.CheckPayToContract(q, p, t, c.Par)
	}()
	call := fmt.Sprintf("btc.CheckPayToContract(m_keydata=%s, base=%s, hash=%s, parity=%v)", c.Sig, c.Pub, c.Msg, c.Par)
	if pan != "" {
		return verdict{key: "taproot/panic", what: call + " panics: " + pan + " [" + c.Note + "]", class: reason + "|panic", judged: true}
	}
	cl := fmt.Sprintf("%s|impl=%v", reason, got)
	if got == want {
		return verdict{class: cl, judged: true}
	}
	if got {
		return verdict{key: reason + "-accepted", class: cl, judged: true,
			what: fmt.Sprintf("%s returns true; the BIP341 tweak check fails (%s) [%s]", call, reason, c.Note)}
	}
	return verdict{key: "taproot/valid-rejected", class: cl, judged: true, what: call + " returns false; the BIP341 tweak check succeeds [" + c.Note + "]"}
}
