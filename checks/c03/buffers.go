package main

// "Caller-owned buffers" family, added after the independently seeded change C03-d
// was missed: the results of the signing / verification / key entry points must not
// depend on where the caller keeps its byte slices, and the entry points must not
// write into the caller's memory.
//
// Every entry point is called with each byte-slice argument presented
//   exact     a fresh slice with cap == len;
//   embedded  a sub-slice of a larger buffer: 48 sentinel bytes before, 96 after
//             (cap >= len + 96), a separate buffer per argument;
//   packed    all arguments back to back in ONE buffer followed by 96 sentinel bytes
//             (argument i+1 lies in the spare capacity of argument i);
//   twice     the embedded call repeated with the very same slices;
//   adjacent  (entry points with a secret key) two keys A, B stored next to each other
//             in one buffer, the entry point used with A and then with B.
// After every call all argument bytes and every byte of the surrounding buffers must
// be unchanged, every result must equal the exact-capacity result, and that result
// must equal the reference model's.

import (
	"bytes"
	"fmt"
	"math/big"
	"strings"

	"github.com/piotrnar/gocoin/lib/btc"
	"github.com/piotrnar/gocoin/lib/secp256k1"

	"verif/ref/refsecp"
	"verif/ref/refsig"
)

type bufEntry struct {
	name string
	// args builds the argument list for key set ks; keyArg is the index of the secret key argument (-1: none)
	args   func(ks int) [][]byte
	keyArg int
	// call runs the entry point; it returns a canonical result (nil = entry point failed)
	call func(a [][]byte) []byte
	// ref returns the expected result; nil result from ref = "call must return check(...) == true"
	ref func(a [][]byte) []byte
	// random: result is not deterministic; valid is used instead of equality
	valid func(a [][]byte, res []byte) bool
	rfc   bool // needs btc.EcdsaSignWithRFC6979 = true
}

func bufKeySets() (privs [][]byte, msgs [][]byte) {
	for _, d := range []*big.Int{bi(1), modN(hashInt("verif C03 key 1")), new(big.Int).Rsh(bigN, 1), sub(bigN, bi(2))} {
		privs = append(privs, b32(d))
	}
	msgs = [][]byte{hashBytes("verif C03 message"), b32(bi(0)), b32(sub(two56, bi(1)))}
	return
}

const bufKeySetCount = 12 // 4 keys x 3 messages

func bufKS(ks int) (priv, msg, priv2 []byte) {
	p, m := bufKeySets()
	return p[ks%4], m[ks/4%3], p[(ks+1)%4]
}

func rsBytes(r, s *big.Int) []byte { return cat(b32(r), b32(s)) }

func bufEntries() []*bufEntry {
	aux := hashBytes("verif C03 aux")
	sigFor := func(priv, msg []byte) []byte {
		r, s := refsig.ECDSASignRFC6979(priv, msg)
		return refsig.SerializeDER(r, s)
	}
	var es []*bufEntry
	es = append(es, &bufEntry{name: "EcdsaSign(rfc6979)", rfc: true, keyArg: 0,
		args: func(ks int) [][]byte { p, m, _ := bufKS(ks); return [][]byte{p, m} },
		call: func(a [][]byte) []byte {
			r, s, err := btc.EcdsaSign(a[0], a[1])
			if err != nil {
				return nil
			}
			return rsBytes(r, s)
		},
		ref: func(a [][]byte) []byte { r, s := refsig.ECDSASignRFC6979(a[0], a[1]); return rsBytes(r, s) }})
	es = append(es, &bufEntry{name: "EcdsaSign(random nonce)", keyArg: 0,
		args: func(ks int) [][]byte { p, m, _ := bufKS(ks); return [][]byte{p, m} },
		call: func(a [][]byte) []byte {
			r, s, err := btc.EcdsaSign(a[0], a[1])
			if err != nil {
				return nil
			}
			return rsBytes(r, s)
		},
		valid: func(a [][]byte, res []byte) bool {
			return len(res) == 64 && refsig.ECDSAVerify(refsig.PubkeyFromPriv(a[0], true), refsecp.Int(res[:32]), refsecp.Int(res[32:]), a[1])
		}})
	es = append(es, &bufEntry{name: "RFC6979_Nonce", keyArg: 0,
		args: func(ks int) [][]byte { p, m, _ := bufKS(ks); return [][]byte{p, m} },
		call: func(a [][]byte) []byte {
			out := make([]byte, 32)
			btc.RFC6979_Nonce(a[0], a[1], nil, nil, 0, out)
			return out
		},
		ref: func(a [][]byte) []byte { return refsig.RFC6979Stream(cat(a[0], a[1]), 1)[0] }})
	es = append(es, &bufEntry{name: "SchnorrSign", keyArg: 1,
		args: func(ks int) [][]byte { p, m, _ := bufKS(ks); return [][]byte{m, p, aux} },
		call: func(a [][]byte) []byte { return secp256k1.SchnorrSign(a[0], a[1], a[2]) },
		ref:  func(a [][]byte) []byte { return refsig.SchnorrSign(a[1], a[0], a[2]) }})
	for _, comp := range []bool{true, false} {
		comp := comp
		es = append(es, &bufEntry{name: fmt.Sprintf("PublicFromPrivate(compressed=%v)", comp), keyArg: 0,
			args: func(ks int) [][]byte { p, _, _ := bufKS(ks); return [][]byte{p} },
			call: func(a [][]byte) []byte { return btc.PublicFromPrivate(a[0], comp) },
			ref:  func(a [][]byte) []byte { return refsig.PubkeyFromPriv(a[0], comp) }})
	}
	for _, rfc := range []bool{false, true} {
		rfc := rfc
		es = append(es, &bufEntry{name: fmt.Sprintf("VerifyKeyPair(rfc6979=%v)", rfc), rfc: rfc, keyArg: 0,
			args: func(ks int) [][]byte { p, _, _ := bufKS(ks); return [][]byte{p, refsig.PubkeyFromPriv(p, true)} },
			call: func(a [][]byte) []byte {
				if err := btc.VerifyKeyPair(a[0], a[1]); err != nil {
					return []byte("error: " + err.Error())
				}
				return []byte("ok")
			},
			ref: func(a [][]byte) []byte { return []byte("ok") }})
	}
	es = append(es, &bufEntry{name: "EcdsaVerify", keyArg: -1,
		args: func(ks int) [][]byte {
			p, m, _ := bufKS(ks)
			return [][]byte{refsig.PubkeyFromPriv(p, ks%2 == 0), sigFor(p, m), m}
		},
		call: func(a [][]byte) []byte { return []byte(fmt.Sprint(btc.EcdsaVerify(a[0], a[1], a[2]))) },
		ref:  func(a [][]byte) []byte { return []byte("true") }})
	es = append(es, &bufEntry{name: "SchnorrVerify", keyArg: -1,
		args: func(ks int) [][]byte {
			p, m, _ := bufKS(ks)
			x, _ := refsig.XOnlyFromPriv(p)
			return [][]byte{x, refsig.SchnorrSign(p, m, aux), m}
		},
		call: func(a [][]byte) []byte { return []byte(fmt.Sprint(btc.SchnorrVerify(a[0], a[1], a[2]))) },
		ref:  func(a [][]byte) []byte { return []byte("true") }})
	es = append(es, &bufEntry{name: "CheckPayToContract", keyArg: -1,
		args: func(ks int) [][]byte {
			p, m, _ := bufKS(ks)
			x, _ := refsig.XOnlyFromPriv(p)
			t := b32(modN(refsecp.Int(m)))
			P, _ := refsecp.LiftX(refsecp.Int(x))
			Q := refsecp.Add(P, refsecp.MulG(refsecp.Int(t)))
			par := []byte{byte(Q.Y.Bit(0))}
			return [][]byte{b32(Q.X), x, t, par}
		},
		call: func(a [][]byte) []byte {
			return []byte(fmt.Sprint(btc.CheckPayToContract(a[0], a[1], a[2], a[3][0] == 1)))
		},
		ref: func(a [][]byte) []byte { return []byte("true") }})
	es = append(es, &bufEntry{name: "RecoverPublicKey", keyArg: -1,
		args: func(ks int) [][]byte {
			p, m, _ := bufKS(ks)
			r, s, recid := refsig.ECDSASignRFC6979Recid(p, m)
			return [][]byte{m, bytesOf(r), bytesOf(s), {byte(recid)}, refsig.PubkeyFromPriv(p, true)}
		},
		call: func(a [][]byte) []byte {
			var sg btc.Signature
			sg.R.SetBytes(a[1])
			sg.S.SetBytes(a[2])
			k := sg.RecoverPublicKey(a[0], int(a[3][0]))
			if k == nil {
				return nil
			}
			return k.Bytes(true)
		},
		ref: func(a [][]byte) []byte { return a[4] }})
	es = append(es, &bufEntry{name: "DeriveNextPrivate", keyArg: 0,
		args: func(ks int) [][]byte { p, m, _ := bufKS(ks); return [][]byte{p, m} },
		call: func(a [][]byte) []byte { return btc.DeriveNextPrivate(a[0], a[1]) },
		ref:  func(a [][]byte) []byte { return b32(modN(add(refsecp.Int(a[0]), refsecp.Int(a[1])))) }})
	es = append(es, &bufEntry{name: "DeriveNextPublic", keyArg: -1,
		args: func(ks int) [][]byte {
			p, m, _ := bufKS(ks)
			return [][]byte{refsig.PubkeyFromPriv(p, true), b32(modN(add(refsecp.Int(m), bi(1))))}
		},
		call: func(a [][]byte) []byte { return btc.DeriveNextPublic(a[0], a[1]) },
		ref: func(a [][]byte) []byte {
			P, _ := refsig.ParsePubkey(a[0])
			return refsig.SerializePubkey(refsecp.Add(P, refsecp.MulG(refsecp.Int(a[1]))), true)
		}})
	es = append(es, &bufEntry{name: "NewPublicKey+NewSignature", keyArg: -1,
		args: func(ks int) [][]byte {
			p, m, _ := bufKS(ks)
			return [][]byte{refsig.PubkeyFromPriv(p, false), append(sigFor(p, m), 1)}
		},
		call: func(a [][]byte) []byte {
			k, e1 := btc.NewPublicKey(a[0])
			sg, e2 := btc.NewSignature(a[1])
			if e1 != nil || e2 != nil {
				return nil
			}
			return cat(k.Bytes(false), sg.Bytes())
		},
		ref: func(a [][]byte) []byte { return cat(a[0], a[1]) }})
	return es
}

func genBuffers(emit func(Case)) {
	for ei, e := range bufEntries() {
		for ks := 0; ks < bufKeySetCount; ks++ {
			rfc := 0
			if e.rfc {
				rfc = 1
			}
			emit(Case{API: "buffers", Family: "buffers/" + e.name, Note: fmt.Sprintf("key set %d", ks), Rep: (ei*bufKeySetCount+ks)*2 + rfc})
		}
	}
	for ks := 0; ks < bufKeySetCount; ks++ {
		emit(Case{API: "buffers", Family: "buffers/Signature.Sign+Verify(Number arguments)", Note: fmt.Sprintf("key set %d", ks), Rep: (1000*bufKeySetCount + ks) * 2})
	}
}

const (
	sentPre  = 48
	sentPost = 96
)

type placed struct {
	bufs  [][]byte // the backing buffers
	snap  [][]byte // their contents before the call
	args  [][]byte
	orig  [][]byte
	where string
}

func placeExact(orig [][]byte) *placed {
	p := &placed{orig: orig, where: "exact capacity"}
	for _, o := range orig {
		b := make([]byte, len(o))
		copy(b, o)
		p.bufs = append(p.bufs, b)
		p.args = append(p.args, b[:len(o):len(o)])
	}
	p.takeSnap()
	return p
}

func sentinel(b []byte, seed byte) {
	for i := range b {
		b[i] = seed ^ byte(i*7+1)
		if b[i] == 0 {
			b[i] = 0xa5
		}
	}
}

func placeEmbedded(orig [][]byte) *placed {
	p := &placed{orig: orig, where: "embedded in a larger buffer (cap = len+96)"}
	for i, o := range orig {
		b := make([]byte, sentPre+len(o)+sentPost)
		sentinel(b, byte(0x30+i))
		copy(b[sentPre:], o)
		p.bufs = append(p.bufs, b)
		p.args = append(p.args, b[sentPre:sentPre+len(o)])
	}
	p.takeSnap()
	return p
}

func placePacked(orig [][]byte) *placed {
	p := &placed{orig: orig, where: "all arguments back to back in one buffer"}
	total := 0
	for _, o := range orig {
		total += len(o)
	}
	b := make([]byte, total+sentPost)
	sentinel(b, 0x77)
	off := 0
	for _, o := range orig {
		copy(b[off:], o)
		p.args = append(p.args, b[off:off+len(o)])
		off += len(o)
	}
	p.bufs = [][]byte{b}
	p.takeSnap()
	return p
}

func (p *placed) takeSnap() {
	p.snap = nil
	for _, b := range p.bufs {
		p.snap = append(p.snap, append([]byte(nil), b...))
	}
}

// intact reports "" when nothing the caller owns was changed
func (p *placed) intact() string {
	for i := range p.args {
		if !bytes.Equal(p.args[i], p.orig[i]) {
			return fmt.Sprintf("argument #%d was changed: now %x, was %x", i, p.args[i], p.orig[i])
		}
	}
	for i := range p.bufs {
		if !bytes.Equal(p.bufs[i], p.snap[i]) {
			for j := range p.bufs[i] {
				if p.bufs[i][j] != p.snap[i][j] {
					return fmt.Sprintf("caller memory outside the arguments was written: buffer #%d offset %d (beyond the argument's length, inside its capacity)", i, j)
				}
			}
		}
	}
	return ""
}

func evalBuffers(c Case) (v verdict) {
	v.judged = true
	id := c.Rep / 2
	ei, ks := id/bufKeySetCount, id%bufKeySetCount
	defer func() {
		if e := recover(); e != nil {
			v = verdict{key: "buffers/panic", what: fmt.Sprintf("%s %s panics: %v", c.Family, c.Note, e), class: "panic", judged: true}
		}
	}()
	if ei == 1000 {
		return evalNumberArgs(ks)
	}
	e := bufEntries()[ei]
	orig := e.args(ks)
	argStr := func() string {
		s := ""
		for i, a := range orig {
			s += fmt.Sprintf(" arg%d=%x", i, a)
		}
		return s
	}
	fail := func(kind, what string) verdict {
		return verdict{key: "buffers/" + e.name + "-" + kind, class: kind, judged: true,
			what: fmt.Sprintf("%s:%s: %s", e.name, argStr(), what)}
	}
	okRes := func(a [][]byte, res []byte) bool {
		if e.valid != nil {
			return e.valid(a, res)
		}
		return bytes.Equal(res, e.ref(a))
	}
	// exact capacity: the baseline, compared with the reference
	ex := placeExact(orig)
	base := e.call(ex.args)
	if why := ex.intact(); why != "" {
		return fail("modifies-caller-memory", "called with exact-capacity slices: "+why)
	}
	if !okRes(orig, base) {
		want := []byte(nil)
		if e.ref != nil {
			want = e.ref(orig)
		}
		return fail("wrong-result", fmt.Sprintf("result %x, the reference gives %x", base, want))
	}
	for _, pl := range []*placed{placeEmbedded(orig), placePacked(orig)} {
		for call := 1; call <= 2; call++ {
			res := e.call(pl.args)
			if why := pl.intact(); why != "" {
				return fail("modifies-caller-memory", fmt.Sprintf("arguments %s, call #%d: %s", pl.where, call, why))
			}
			same := bytes.Equal(res, base)
			if e.valid != nil {
				same = e.valid(orig, res)
			}
			if !same {
				return fail("result-depends-on-buffer-layout", fmt.Sprintf("arguments %s, call #%d gives %x; with exact-capacity slices the result is %x", pl.where, call, res, base))
			}
		}
	}
	// two keys next to each other: A = buf[0:32], B = buf[32:64]
	if e.keyArg >= 0 {
		_, _, privB := bufKS(ks)
		origB := e.args((ks + 1) % bufKeySetCount)
		// same message / other arguments as A, only the key differs
		argsB := append([][]byte(nil), orig...)
		argsB[e.keyArg] = privB
		if strings.HasPrefix(e.name, "VerifyKeyPair") {
			argsB[1] = refsig.PubkeyFromPriv(privB, true)
		}
		_ = origB
		wantB := e.call(placeExact(argsB).args)
		if !okRes(argsB, wantB) {
			return fail("wrong-result", "second key of the adjacent pair: wrong result with exact-capacity slices")
		}
		store := make([]byte, 64+sentPost)
		sentinel(store, 0x11)
		copy(store[0:32], orig[e.keyArg])
		copy(store[32:64], privB)
		snap := append([]byte(nil), store...)
		plA, plB := placeEmbedded(orig), placeEmbedded(argsB)
		plA.args[e.keyArg] = store[0:32]
		plB.args[e.keyArg] = store[32:64]
		resA := e.call(plA.args)
		if !bytes.Equal(store, snap) {
			return fail("modifies-caller-memory", "key A and key B stored adjacently in one buffer: using key A changed the buffer (key B or the bytes behind it)")
		}
		resB := e.call(plB.args)
		if !bytes.Equal(store, snap) {
			return fail("modifies-caller-memory", "key A and key B stored adjacently in one buffer: using key B changed the buffer")
		}
		okA, okB := bytes.Equal(resA, base), bytes.Equal(resB, wantB)
		if e.valid != nil {
			okA, okB = e.valid(orig, resA), e.valid(argsB, resB)
		}
		if !okA || !okB {
			return fail("result-depends-on-buffer-layout", fmt.Sprintf("keys A and B stored adjacently: results %x / %x, with separately stored keys %x / %x", resA, resB, base, wantB))
		}
	}
	v.class = "intact, layout-independent, equals reference"
	return v
}

// evalNumberArgs: the low-level signer / verifier take *Number and *XY arguments
func evalNumberArgs(ks int) verdict {
	priv, msg, _ := bufKS(ks)
	k := refsig.RFC6979Nonce(priv, msg)
	var sec, m, non secp256k1.Number
	sec.SetBytes(priv)
	m.SetBytes(msg)
	non.Set(k)
	snap := func(n *secp256k1.Number) ([]big.Word, *big.Int) {
		return append([]big.Word(nil), n.Bits()...), new(big.Int).Set(&n.Int)
	}
	same := func(n *secp256k1.Number, w []big.Word, v *big.Int) bool {
		if n.Cmp(v) != 0 || len(n.Bits()) != len(w) {
			return false
		}
		for i, x := range n.Bits() {
			if x != w[i] {
				return false
			}
		}
		return true
	}
	w1, v1 := snap(&sec)
	w2, v2 := snap(&m)
	w3, v3 := snap(&non)
	wr, ws, wrec, _ := refsig.ECDSASignWithNonce(priv, msg, k)
	fail := func(kind, what string) verdict {
		return verdict{key: "buffers/Signature.Sign+Verify-" + kind, class: kind, judged: true, what: fmt.Sprintf("priv=%x msg=%x nonce=%s: %s", priv, msg, k.Text(16), what)}
	}
	var pub secp256k1.XY
	if !pub.ParsePubkey(refsig.PubkeyFromPriv(priv, false)) {
		return fail("wrong-result", "ParsePubkey refuses the signer's key")
	}
	for call := 1; call <= 2; call++ {
		var sig secp256k1.Signature
		recid := -1
		if sig.Sign(&sec, &m, &non, &recid) != 1 || sig.R.Cmp(wr) != 0 || sig.S.Cmp(ws) != 0 || recid != wrec {
			return fail(map[int]string{1: "wrong-result", 2: "result-depends-on-buffer-layout"}[call], fmt.Sprintf("Signature.Sign call #%d with the same Number objects gives r=%s s=%s recid=%d, reference r=%s s=%s recid=%d", call, sig.R.Text(16), sig.S.Text(16), recid, wr.Text(16), ws.Text(16), wrec))
		}
		if !same(&sec, w1, v1) || !same(&m, w2, v2) || !same(&non, w3, v3) {
			return fail("modifies-caller-memory", "Signature.Sign changed one of its Number arguments")
		}
		if !sig.Verify(&pub, &m) {
			return fail(map[int]string{1: "wrong-result", 2: "result-depends-on-buffer-layout"}[call], fmt.Sprintf("Signature.Verify call #%d refuses the signature", call))
		}
		if !same(&m, w2, v2) {
			return fail("modifies-caller-memory", "Signature.Verify changed the message Number")
		}
		var out [65]byte
		pub.GetPublicKey(out[:])
		if !bytes.Equal(out[:], refsig.PubkeyFromPriv(priv, false)) {
			return fail("modifies-caller-memory", "Signature.Verify changed the public key it was given")
		}
	}
	return verdict{class: "intact, repeatable, equals reference", judged: true}
}
