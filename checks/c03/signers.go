package main

import (
	"bytes"
	"fmt"
	"math/big"

	"github.com/piotrnar/gocoin/lib/btc"
	"github.com/piotrnar/gocoin/lib/secp256k1"

	"verif/ref/refsecp"
	"verif/ref/refsig"
)

// 12 secrets x 8 messages x 3 aux values
func signerSecrets() []*big.Int {
	return []*big.Int{bi(1), bi(2), bi(3), sub(bigN, bi(1)), sub(bigN, bi(2)), refsecp.HalfN, add(refsecp.HalfN, bi(1)),
		new(big.Int).Lsh(bi(1), 128), sub(new(big.Int).Lsh(bi(1), 128), bi(1)), new(big.Int).Lsh(bi(1), 255),
		modN(hashInt("verif C03 key 1")), modN(hashInt("verif C03 key 2"))}
}

func signerMsgs() [][]byte { return append(baseMsgs(), hashBytes("verif C03 message 2")) }

func genSigners(thorough bool, emit func(Case)) {
	auxs := [][]byte{make([]byte, 32), bytes.Repeat([]byte{0xff}, 32), hashBytes("verif C03 aux")}
	reps := 16
	if !thorough {
		reps = 4
	}
	for di, d := range signerSecrets() {
		for mi, m := range signerMsgs() {
			note := fmt.Sprintf("secret#%d msg#%d", di, mi)
			emit(Case{API: "sign:ecdsa-rfc6979", Family: "sign/ecdsa-rfc6979", Note: note, Priv: hx(b32(d)), Msg: hx(m)})
			emit(Case{API: "sign:ecdsa-nonce", Family: "sign/ecdsa-nonce-recid", Note: note, Priv: hx(b32(d)), Msg: hx(m)})
			for rep := 0; rep < reps; rep++ {
				emit(Case{API: "sign:ecdsa-random", Family: "sign/ecdsa-random", Note: note, Priv: hx(b32(d)), Msg: hx(m), Rep: rep})
			}
			for ai, a := range auxs {
				emit(Case{API: "sign:schnorr", Family: "sign/schnorr", Note: fmt.Sprintf("%s aux#%d", note, ai), Priv: hx(b32(d)), Msg: hx(m), Aux: hx(a)})
			}
		}
	}
	// public key recovery with r, s outside [1, n-1] and every recovery id
	for di, d := range []*big.Int{bi(1), modN(hashInt("verif C03 key 1"))} {
		m := hashBytes("verif C03 message")
		r, s := refsig.ECDSASignRFC6979(b32(d), m)
		rs := map[string][2]*big.Int{"valid": {r, s}, "r=0": {bi(0), s}, "r=n": {bigN, s}, "r=n+1": {add(bigN, bi(1)), s}, "r+n": {add(r, bigN), s},
			"s=0": {r, bi(0)}, "s=n": {r, bigN}, "s+n": {r, add(s, bigN)}, "n-s": {r, sub(bigN, s)}, "r=1": {bi(1), s}, "r=n-1": {sub(bigN, bi(1)), s}}
		var names []string
		for k := range rs {
			names = append(names, k)
		}
		sortStrings(names)
		for _, k := range names {
			for recid := 0; recid < 4; recid++ {
				emit(Case{API: "recover", Family: "recover/boundary", Note: fmt.Sprintf("key#%d %s recid=%d", di, k, recid),
					Sig: hx(rs[k][0].Bytes()), Aux: hx(rs[k][1].Bytes()), Msg: hx(m), Rep: recid})
			}
		}
	}
	// BIP340: signing must fail for a secret outside [1, n-1]
	for _, d := range []*big.Int{bi(0), bigN, add(bigN, bi(1)), sub(two56, bi(1))} {
		emit(Case{API: "sign:schnorr", Family: "sign/schnorr-bad-secret", Note: "secret " + d.Text(16), Priv: hx(b32(d)), Msg: hx(hashBytes("verif C03 message")), Aux: hx(make([]byte, 32))})
	}
}

// checkEcdsaOutput applies every C03 requirement to one emitted ECDSA signature
func checkEcdsaOutput(c Case, kind string, priv, msg []byte, r, s *big.Int) (key, what string) {
	pubC := refsig.PubkeyFromPriv(priv, true)
	pubU := refsig.PubkeyFromPriv(priv, false)
	desc := fmt.Sprintf("%s(priv=%s, hash=%s) -> r=%s s=%s", kind, c.Priv, c.Msg, r.Text(16), s.Text(16))
	if !refsig.ECDSAVerify(pubC, r, s, msg) {
		return "sign-ecdsa/does-not-verify", desc + ": does not verify under the reference"
	}
	if !refsig.IsLowS(s) {
		return "sign-ecdsa/high-s", desc + ": S is above (n-1)/2"
	}
	var bs btc.Signature
	bs.R.Set(r)
	bs.S.Set(s)
	bs.HashType = 1
	ser := bs.Bytes()
	if !refsig.IsStrictDER(ser) || !bytes.Equal(ser, append(refsig.SerializeDER(r, s), 1)) {
		return "sign-ecdsa/non-canonical-der", fmt.Sprintf("%s: Signature.Bytes() = %x is not the canonical DER encoding", desc, ser)
	}
	if !btc.EcdsaVerify(pubC, ser[:len(ser)-1], msg) || !btc.EcdsaVerify(pubU, ser, msg) {
		return "sign-ecdsa/own-verify-fails", desc + ": btc.EcdsaVerify refuses the library's own signature"
	}
	// public key recovery: for each recovery id exactly what libsecp256k1's recover returns
	hit := 0
	for recid := 0; recid < 4; recid++ {
		want, wok := refsig.ECDSARecover(r, s, msg, recid)
		k := bs.RecoverPublicKey(msg, recid)
		if (k != nil) != wok {
			return "recover/result-mismatch", fmt.Sprintf("%s: RecoverPublicKey(recid=%d) returned key=%v, reference ok=%v", desc, recid, k != nil, wok)
		}
		if !wok {
			continue
		}
		// the observable first: PublicKey.Bytes() is what callers serialise
		// (wallet/signmsg.go, tools/btcversig); GetPublicKey normalises in place, so
		// it is consulted afterwards, only to name the failure
		asC, asU := k.Bytes(true), k.Bytes(false)
		var viaGet [33]byte
		k.XY.GetPublicKey(viaGet[:])
		if !bytes.Equal(viaGet[:], refsig.SerializePubkey(want, true)) {
			return "recover/wrong-key", fmt.Sprintf("%s: RecoverPublicKey(recid=%d) = %x, reference %x", desc, recid, viaGet, refsig.SerializePubkey(want, true))
		}
		if !bytes.Equal(asC, refsig.SerializePubkey(want, true)) || !bytes.Equal(asU, refsig.SerializePubkey(want, false)) {
			return "recover/unnormalised-key-bytes", fmt.Sprintf("%s: RecoverPublicKey(hash, recid=%d).Bytes(true) = %x but the recovered point is %x (coordinates left unnormalised by XY.SetXYZ; XY.GetPublicKey on the same key gives the right bytes)", desc, recid, asC, refsig.SerializePubkey(want, true))
		}
		if bytes.Equal(viaGet[:], pubC) {
			hit++
		}
	}
	if hit != 1 {
		return "recover/signer-key-not-recovered", fmt.Sprintf("%s: the signer's key is recovered for %d recovery ids (expected exactly 1)", desc, hit)
	}
	return "", ""
}

func evalSigner(c Case) (v verdict) {
	priv, msg := unhx(c.Priv), unhx(c.Msg)
	v.judged = true
	_ = priv
	defer func() {
		if e := recover(); e != nil {
			v = verdict{key: "sign/panic", what: fmt.Sprintf("%s priv=%s msg=%s panics: %v", c.API, c.Priv, c.Msg, e), class: "panic", judged: true}
		}
	}()
	switch c.API {
	case "recover":
		r, s := refsecp.Int(unhx(c.Sig)), refsecp.Int(unhx(c.Aux))
		var bs btc.Signature
		bs.R.Set(r)
		bs.S.Set(s)
		want, wok := refsig.ECDSARecover(r, s, msg, c.Rep)
		k := bs.RecoverPublicKey(msg, c.Rep)
		call := fmt.Sprintf("btc.Signature{R=%s,S=%s}.RecoverPublicKey(hash=%s, recid=%d)", r.Text(16), s.Text(16), c.Msg, c.Rep)
		v.class = fmt.Sprintf("reference ok=%v|impl key=%v", wok, k != nil)
		if (k != nil) != wok {
			v.key, v.what = "recover/result-mismatch", fmt.Sprintf("%s returns key=%v; libsecp256k1-style recovery (r, s in [1, n-1], r+n < p, x liftable) gives ok=%v [%s]", call, k != nil, wok, c.Note)
			return v
		}
		if wok {
			var out [33]byte
			k.XY.GetPublicKey(out[:])
			if !bytes.Equal(out[:], refsig.SerializePubkey(want, true)) {
				v.key, v.what = "recover/wrong-key", fmt.Sprintf("%s = %x, reference %x", call, out, refsig.SerializePubkey(want, true))
			}
		}
		return v
	case "sign:ecdsa-random", "sign:ecdsa-rfc6979":
		r, s, err := btc.EcdsaSign(priv, msg)
		if err != nil {
			return verdict{key: "sign-ecdsa/error", what: "btc.EcdsaSign returned " + err.Error(), class: "error", judged: true}
		}
		v.class = "ok"
		if k, w := checkEcdsaOutput(c, "btc.EcdsaSign["+c.API[5:]+"]", priv, msg, r, s); k != "" {
			return verdict{key: k, what: w, class: k, judged: true}
		}
		if c.API == "sign:ecdsa-rfc6979" {
			wr, ws := refsig.ECDSASignRFC6979(priv, msg)
			if r.Cmp(wr) == 0 && s.Cmp(ws) == 0 {
				if refsecp.Int(msg).Cmp(bigN) >= 0 {
					v.class = "ok: digest >= n, equals the libsecp256k1 flavour (digest unreduced in the HMAC key)"
					sr, ss := refsig.ECDSASignRFC6979Strict(priv, msg)
					if r.Cmp(sr) == 0 && s.Cmp(ss) == 0 {
						v.class = "ok: digest >= n, both flavours coincide"
					}
				}
				return v
			}
			sr, ss := refsig.ECDSASignRFC6979Strict(priv, msg)
			if r.Cmp(sr) == 0 && s.Cmp(ss) == 0 {
				v.class = "ok: digest >= n, equals the strict RFC 6979 flavour (bits2octets)"
				return v
			}
			return verdict{key: "sign-ecdsa/rfc6979-mismatch", class: "rfc6979-mismatch", judged: true,
				what: fmt.Sprintf("btc.EcdsaSign (EcdsaSignWithRFC6979=true) priv=%s hash=%s gives r=%s s=%s; RFC 6979 reference r=%s s=%s", c.Priv, c.Msg, r.Text(16), s.Text(16), wr.Text(16), ws.Text(16))}
		}
		return v
	case "sign:ecdsa-nonce":
		// the low-level signer with an explicit nonce reports a recovery id
		k := refsig.RFC6979Nonce(priv, msg)
		var non32 [32]byte
		btc.RFC6979_Nonce(priv, msg, nil, nil, 0, non32[:])
		if refsecp.Int(non32[:]).Cmp(k) != 0 && refsecp.Int(non32[:]).Sign() > 0 && refsecp.Int(non32[:]).Cmp(bigN) < 0 {
			return verdict{key: "sign-ecdsa/rfc6979-nonce-mismatch", class: "nonce-mismatch", judged: true,
				what: fmt.Sprintf("btc.RFC6979_Nonce(priv=%s, msg=%s, counter 0) = %x, reference %s", c.Priv, c.Msg, non32, k.Text(16))}
		}
		var sig secp256k1.Signature
		var sec, m, non secp256k1.Number
		sec.SetBytes(priv)
		m.SetBytes(msg)
		non.SetBytes(b32(k))
		recid := -1
		if sig.Sign(&sec, &m, &non, &recid) != 1 {
			return verdict{key: "sign-ecdsa/error", what: "secp256k1.Signature.Sign returned 0", class: "error", judged: true}
		}
		wr, ws, wrec, ok := refsig.ECDSASignWithNonce(priv, msg, k)
		if !ok {
			return verdict{class: "reference nonce unusable", judged: false}
		}
		if sig.R.Cmp(wr) != 0 || sig.S.Cmp(ws) != 0 || recid != wrec {
			return verdict{key: "sign-ecdsa/nonce-signature-mismatch", class: "mismatch", judged: true,
				what: fmt.Sprintf("secp256k1.Signature.Sign(sec=%s, msg=%s, nonce=%s) = (r=%s, s=%s, recid=%d); reference (r=%s, s=%s, recid=%d)", c.Priv, c.Msg, k.Text(16), sig.R.Text(16), sig.S.Text(16), recid, wr.Text(16), ws.Text(16), wrec)}
		}
		var bs btc.Signature
		bs.R.Set(&sig.R.Int)
		bs.S.Set(&sig.S.Int)
		pk := bs.RecoverPublicKey(msg, recid)
		if pk == nil {
			return verdict{key: "recover/emitted-recid-wrong-key", class: "mismatch", judged: true,
				what: fmt.Sprintf("RecoverPublicKey with the emitted recid %d returns nil (priv=%s msg=%s)", recid, c.Priv, c.Msg)}
		}
		asC := pk.Bytes(true)
		var viaGet [33]byte
		pk.XY.GetPublicKey(viaGet[:])
		if !bytes.Equal(viaGet[:], refsig.PubkeyFromPriv(priv, true)) {
			return verdict{key: "recover/emitted-recid-wrong-key", class: "mismatch", judged: true,
				what: fmt.Sprintf("RecoverPublicKey with the emitted recid %d does not return the signer's key (priv=%s msg=%s): %x", recid, c.Priv, c.Msg, viaGet)}
		}
		if !bytes.Equal(asC, viaGet[:]) {
			return verdict{key: "recover/unnormalised-key-bytes", class: "unnormalised", judged: true,
				what: fmt.Sprintf("btc.Signature{r=%s,s=%s}.RecoverPublicKey(hash=%s, recid=%d).Bytes(true) = %x but the recovered point is %x (coordinates left unnormalised by XY.SetXYZ)", sig.R.Text(16), sig.S.Text(16), c.Msg, recid, asC, viaGet)}
		}
		v.class = fmt.Sprintf("ok recid=%d", recid)
		return v
	case "sign:schnorr":
		aux := unhx(c.Aux)
		got := secp256k1.SchnorrSign(msg, priv, aux)
		want := refsig.SchnorrSign(priv, msg, aux)
		call := fmt.Sprintf("secp256k1.SchnorrSign(m=%s, sk=%s, a=%s)", c.Msg, c.Priv, c.Aux)
		if want == nil {
			if got != nil {
				return verdict{key: "sign-schnorr/out-of-range-secret-signed", class: "bad-secret-signed", judged: true, what: call + " returns a signature for a secret outside [1, n-1]"}
			}
			v.class = "refused (secret out of range)"
			return v
		}
		if !bytes.Equal(got, want) {
			return verdict{key: "sign-schnorr/bip340-mismatch", class: "mismatch", judged: true, what: fmt.Sprintf("%s = %x; BIP340 reference %x", call, got, want)}
		}
		pk, _ := refsig.XOnlyFromPriv(priv)
		if !refsig.SchnorrVerify(pk, msg, got) {
			ev := "reference produced a signature it does not verify"
			panic(ev)
		}
		if !btc.SchnorrVerify(pk, got, msg) {
			return verdict{key: "sign-schnorr/own-verify-fails", class: "own-verify-fails", judged: true, what: call + ": btc.SchnorrVerify refuses the library's own signature"}
		}
		v.class = "ok"
		return v
	}
	return v
}
