package main

// "Ladder collision" family, added after the independently seeded change C03-c was
// missed. ECDSA verification computes u1*G + u2*Q with an interleaved windowed
// ladder; for SMALL u1, u2 and a public key Q = d*G with small d the running sum meets
// the ladder's own table entries (it equals the entry about to be added, so the
// addition degenerates into a doubling; or it is its negative and the sum cancels).
// For every (d, u1, u2) of the ranges below a valid triple is constructed
// algebraically - R = (u1 + u2*d)*G, r = x(R) mod n, s = r/u2, m = u1*s - so the
// verifier is driven through exactly these scalars. The triple must be accepted; the
// neighbours (r taken from the next multiple of G; message + 1) must be refused.
// Expected verdicts follow from the construction (table of small multiples of G built
// with reference additions); on any deviation the full reference verification decides.
// The same is done for the taproot tweak check (lift_x(d*G) + t*G, small t and t = n-k)
// and with both scalars shifted to the window / split boundaries (u*2^j).

import (
	"fmt"
	"math/big"
	"sync"

	"github.com/piotrnar/gocoin/lib/btc"

	"verif/ref/refsecp"
	"verif/ref/refsig"
)

type ladderDims struct{ d, u1, u2 int }

func ladderDim(thorough bool) ladderDims {
	if thorough {
		return ladderDims{64, 256, 31}
	}
	return ladderDims{16, 128, 31}
}

var ladderShifts = []uint{1, 4, 13, 14, 128}

const (
	lsD, lsU1, lsU2 = 4, 32, 15
	p2cD, p2cT      = 64, 256
)

var ladderTab struct {
	once sync.Once
	t    map[uint][]refsecp.Point // shift -> multiples k*2^shift*G
	inv  []*big.Int               // inverses of 1..31 mod n
}

func ladderTables() {
	ladderTab.once.Do(func() {
		ladderTab.t = map[uint][]refsecp.Point{}
		mk := func(b refsecp.Point, max int) []refsecp.Point {
			t := make([]refsecp.Point, max+1)
			t[0] = refsecp.Infinity()
			for k := 1; k <= max; k++ {
				t[k] = refsecp.Add(t[k-1], b)
			}
			return t
		}
		ladderTab.t[0] = mk(refsecp.G(), 64*31+256+320)
		for _, j := range ladderShifts {
			ladderTab.t[j] = mk(refsecp.MulG(new(big.Int).Lsh(bi(1), j)), lsD*lsU2+lsU1+2)
		}
		ladderTab.inv = make([]*big.Int, 32)
		for i := 1; i < 32; i++ {
			ladderTab.inv[i] = invN(bi(int64(i)))
		}
		// the table against the independent double-and-add multiplication
		for _, k := range []int{1, 2, 777, 2000} {
			if !refsecp.Equal(ladderTab.t[0][k], refsecp.MulG(bi(int64(k)))) {
				panic("ladder table inconsistent with refsecp.MulG")
			}
		}
	})
}

func genLadder(thorough bool, emit func(Case)) {
	dm := ladderDim(thorough)
	th := 0
	if thorough {
		th = 1
	}
	n := dm.d * dm.u1 * dm.u2
	for i := 0; i < n; i++ {
		emit(Case{API: "ladder:ecdsa", Family: "ladder/ecdsa-small-scalars", Rep: i, Par: th == 1})
	}
	for si := range ladderShifts {
		for i := 0; i < lsD*lsU1*lsU2; i++ {
			emit(Case{API: "ladder:ecdsa-shifted", Family: "ladder/ecdsa-shifted-scalars", Rep: si*lsD*lsU1*lsU2 + i})
		}
	}
	for i := 0; i < p2cD*(p2cT+64); i++ {
		emit(Case{API: "ladder:p2c", Family: "ladder/taproot-tweak-small", Rep: i})
	}
}

func evalLadder(c Case) verdict {
	ladderTables()
	switch c.API {
	case "ladder:ecdsa":
		dm := ladderDim(c.Par)
		i := c.Rep
		u2 := i%dm.u2 + 1
		i /= dm.u2
		u1 := i % dm.u1
		d := i/dm.u1 + 1
		return ladderEcdsa(0, d, u1, u2, c.Rep)
	case "ladder:ecdsa-shifted":
		i := c.Rep
		u2 := i%lsU2 + 1
		i /= lsU2
		u1 := i % lsU1
		i /= lsU1
		d := i%lsD + 1
		return ladderEcdsa(ladderShifts[i/lsD], d, u1, u2, c.Rep)
	}
	// taproot tweak: internal key x(d*G) (lifted with even y), tweak t
	i := c.Rep
	ti := i % (p2cT + 64)
	d := i/(p2cT+64) + 1
	t0 := ladderTab.t[0]
	P := t0[d]
	sgn := 1 // lift_x gives +d*G or -d*G
	if P.Y.Bit(0) == 1 {
		P = refsecp.Neg(P)
		sgn = -1
	}
	var t *big.Int
	var Q refsecp.Point
	if ti < p2cT {
		t = bi(int64(ti))
		Q = refsecp.Add(P, t0[ti])
	} else {
		k := ti - p2cT + 1
		t = sub(bigN, bi(int64(k)))
		Q = refsecp.Add(P, refsecp.Neg(t0[k]))
	}
	_ = sgn
	pb, tb := b32(P.X), b32(t)
	call := func(q []byte, par bool) string {
		return fmt.Sprintf("btc.CheckPayToContract(m_keydata=%x, base=%x, hash=%x, parity=%v)", q, pb, tb, par)
	}
	if Q.Inf {
		if btc.CheckPayToContract(pb, pb, tb, false) || btc.CheckPayToContract(pb, pb, tb, true) {
			return verdict{key: "ladder/taproot-identity-accepted", class: "identity|impl=true", judged: true,
				what: call(pb, false) + " returns true although internal key + tweak*G is the point at infinity"}
		}
		return verdict{class: "identity refused", judged: true}
	}
	qb, par := b32(Q.X), Q.Y.Bit(0) == 1
	if !btc.CheckPayToContract(qb, pb, tb, par) {
		if refsig.XOnlyTweakAddCheck(qb, par, pb, tb) {
			return verdict{key: "ladder/taproot-valid-rejected", class: "valid|impl=false", judged: true,
				what: call(qb, par) + fmt.Sprintf(" returns false; lift_x(x(%d*G)) + tweak*G has exactly this x and parity", d)}
		}
		return verdict{class: "construction-invalid", judged: false}
	}
	if btc.CheckPayToContract(qb, pb, tb, !par) {
		if !refsig.XOnlyTweakAddCheck(qb, !par, pb, tb) {
			return verdict{key: "ladder/taproot-wrong-parity-accepted", class: "wrong-parity|impl=true", judged: true, what: call(qb, !par) + " returns true with the wrong parity"}
		}
	}
	return verdict{class: "valid accepted, wrong parity refused", judged: true}
}

func ladderEcdsa(shift uint, d, u1, u2, idx int) verdict {
	t0 := ladderTab.t[0]
	ts := ladderTab.t[shift]
	sum := u1 + u2*d
	R := ts[sum]
	Rn := ts[sum+1]
	Q := t0[d]
	sh := new(big.Int).Lsh(bi(1), shift)
	U1 := new(big.Int).Mul(bi(int64(u1)), sh)
	U2 := new(big.Int).Mul(bi(int64(u2)), sh)
	r := modN(R.X)
	s := mulN(r, invN(U2))
	if shift == 0 {
		s = mulN(r, ladderTab.inv[u2])
	}
	m := mulN(U1, s)
	pub := refsig.SerializePubkey(Q, idx%2 == 0)
	sig := refsig.SerializeDER(r, s)
	msg := b32(m)
	desc := fmt.Sprintf("Q=%d*G, u1=%s, u2=%s (R=(u1+u2*%d)*G)", d, U1.Text(16), U2.Text(16), d)
	if !btc.EcdsaVerify(pub, sig, msg) {
		if refsig.ECDSAVerify(pub, r, s, msg) {
			return verdict{key: "ladder/ecdsa-valid-rejected", class: "valid|impl=false", judged: true,
				what: fmt.Sprintf("btc.EcdsaVerify(pub=%x, sig=%x, hash=%x) returns false; the ECDSA equation holds [%s]", pub, sig, msg, desc)}
		}
		return verdict{class: "construction-invalid", judged: false}
	}
	// neighbours: r of the next multiple of G; message + 1
	rn := modN(Rn.X)
	sigN := refsig.SerializeDER(rn, s)
	if rn.Sign() != 0 && btc.EcdsaVerify(pub, sigN, msg) {
		if !refsig.ECDSAVerify(pub, rn, s, msg) {
			return verdict{key: "ladder/ecdsa-invalid-accepted", class: "neighbour-r|impl=true", judged: true,
				what: fmt.Sprintf("btc.EcdsaVerify(pub=%x, sig=%x, hash=%x) returns true; r belongs to another point [%s]", pub, sigN, msg, desc)}
		}
	}
	msg2 := b32(modN(add(m, bi(1))))
	if btc.EcdsaVerify(pub, sig, msg2) {
		if !refsig.ECDSAVerify(pub, r, s, msg2) {
			return verdict{key: "ladder/ecdsa-invalid-accepted", class: "neighbour-msg|impl=true", judged: true,
				what: fmt.Sprintf("btc.EcdsaVerify(pub=%x, sig=%x, hash=%x) returns true for message+1 [%s]", pub, sig, msg2, desc)}
		}
	}
	return verdict{class: "valid accepted, neighbours refused", judged: true}
}
