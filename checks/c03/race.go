package main

// "Concurrent calls share no state" sub-check, added after the independently seeded
// change C03-h was missed (an unsynchronised package-level scratch buffer: there is no
// synchronisation operation inside, so only a free-running execution can interleave
// there). gocoin verifies the inputs of a transaction in parallel goroutines, so every
// verification / signing / key entry point must be callable concurrently.
//
// run.sh builds this same program a second time with the Go race detector
// (checks/c03/RACE -> bin/c03-race). The parent runs `c03-race --racepass=N` with
// GOMAXPROCS 4 and 16: 8 goroutines, each working on its OWN deterministic keys,
// messages and signatures, call one entry point N times (one round per entry point),
// then mixed rounds run two different entry points side by side. Oracle:
//   (1) every result equals the result the reference model computed single-threaded
//       before the goroutines started (a wrong verdict is reported even if the detector
//       misses the race), and
//   (2) the race detector prints no report whose stack contains gocoin/lib/secp256k1 or
//       gocoin/lib/btc.
// Sizes are fixed per tier (no wall-clock cap).

import (
	"bytes"
	"fmt"
	"math/big"
	"os"
	"os/exec"
	"regexp"
	"strings"
	"sync"
	"sync/atomic"

	"github.com/piotrnar/gocoin/lib/btc"
	"github.com/piotrnar/gocoin/lib/secp256k1"

	"verif/internal/ev"
	"verif/ref/refsecp"
	"verif/ref/refsig"
)

const (
	raceGoroutines = 8
	raceSets       = 2 // key/message sets per goroutine
)

type raceSet struct {
	priv, msg, aux   []byte
	pubC, pubU, xpub []byte
	ssig             []byte   // BIP340 signature
	r, s             *big.Int // RFC6979 ECDSA
	recid            int
	der              []byte
	badMsg           []byte
	tweak, q         []byte
	qpar             bool
	nextPriv         []byte
	nextPub          []byte
	mulOut           []byte // msg-as-scalar * P, compressed
	tweakAdd         refsecp.Point
}

func raceData() [][]raceSet {
	out := make([][]raceSet, raceGoroutines)
	for g := range out {
		for k := 0; k < raceSets; k++ {
			var st raceSet
			st.priv = b32(modN(hashInt(fmt.Sprint("c03-race-key ", g, " ", k))))
			st.msg = hashBytes(fmt.Sprint("c03-race-msg ", g, " ", k))
			st.aux = hashBytes(fmt.Sprint("c03-race-aux ", g, " ", k))
			st.badMsg = hashBytes(fmt.Sprint("c03-race-bad ", g, " ", k))
			st.pubC, st.pubU = refsig.PubkeyFromPriv(st.priv, true), refsig.PubkeyFromPriv(st.priv, false)
			st.xpub, _ = refsig.XOnlyFromPriv(st.priv)
			st.ssig = refsig.SchnorrSign(st.priv, st.msg, st.aux)
			st.r, st.s, st.recid = refsig.ECDSASignRFC6979Recid(st.priv, st.msg)
			st.der = refsig.SerializeDER(st.r, st.s)
			P, _ := refsig.ParsePubkey(st.pubC)
			E, _ := refsecp.LiftX(P.X)
			t := modN(hashInt(fmt.Sprint("c03-race-tweak ", g, " ", k)))
			st.tweak = b32(t)
			Q := refsecp.Add(E, refsecp.MulG(t))
			st.q, st.qpar = b32(Q.X), Q.Y.Bit(0) == 1
			st.nextPriv = b32(modN(add(refsecp.Int(st.priv), refsecp.Int(st.msg))))
			st.nextPub = refsig.SerializePubkey(refsecp.Add(P, refsecp.MulG(t)), true)
			st.mulOut = refsig.SerializePubkey(refsecp.Mul(modN(refsecp.Int(st.msg)), P), true)
			st.tweakAdd = refsecp.Add(P, refsecp.MulG(t))
			out[g] = append(out[g], st)
		}
	}
	return out
}

type raceEntry struct {
	name  string
	heavy bool // elliptic-curve work: fewer iterations
	rfc   int  // 1: needs EcdsaSignWithRFC6979 = true, 0: false, -1: does not care
	run   func(st *raceSet, i int) string
}

func raceEntries() []raceEntry {
	bad := func(what string, args ...interface{}) string { return fmt.Sprintf(what, args...) }
	return []raceEntry{
		{"SchnorrVerify", true, -1, func(st *raceSet, i int) string {
			if i%2 == 0 {
				if !btc.SchnorrVerify(st.xpub, st.ssig, st.msg) {
					return bad("valid BIP340 signature refused (pkey=%x sig=%x msg=%x)", st.xpub, st.ssig, st.msg)
				}
			} else if btc.SchnorrVerify(st.xpub, st.ssig, st.badMsg) {
				return bad("BIP340 signature accepted for another message (pkey=%x)", st.xpub)
			}
			return ""
		}},
		{"SchnorrSign", true, -1, func(st *raceSet, i int) string {
			if got := secp256k1.SchnorrSign(st.msg, st.priv, st.aux); !bytes.Equal(got, st.ssig) {
				return bad("SchnorrSign(m=%x, sk=%x, a=%x) = %x, BIP340 gives %x", st.msg, st.priv, st.aux, got, st.ssig)
			}
			return ""
		}},
		{"EcdsaVerify", true, -1, func(st *raceSet, i int) string {
			pub := st.pubC
			if i%4 >= 2 {
				pub = st.pubU
			}
			if i%2 == 0 {
				if !btc.EcdsaVerify(pub, st.der, st.msg) {
					return bad("valid ECDSA signature refused (pub=%x sig=%x hash=%x)", pub, st.der, st.msg)
				}
			} else if btc.EcdsaVerify(pub, st.der, st.badMsg) {
				return bad("ECDSA signature accepted for another message (pub=%x)", pub)
			}
			return ""
		}},
		{"EcdsaSign(rfc6979)", true, 1, func(st *raceSet, i int) string {
			r, s, err := btc.EcdsaSign(st.priv, st.msg)
			if err != nil || r.Cmp(st.r) != 0 || s.Cmp(st.s) != 0 {
				return bad("EcdsaSign(priv=%x, hash=%x) = (%v, %v, %v), RFC6979 gives (%s, %s)", st.priv, st.msg, r, s, err, st.r.Text(16), st.s.Text(16))
			}
			return ""
		}},
		{"EcdsaSign(random nonce)", true, 0, func(st *raceSet, i int) string {
			r, s, err := btc.EcdsaSign(st.priv, st.msg)
			if err != nil || !refsig.IsLowS(s) || !btc.EcdsaVerify(st.pubC, refsig.SerializeDER(r, s), st.msg) {
				return bad("EcdsaSign(priv=%x, hash=%x) gave a signature that is not low-S / does not verify: (%v, %v, %v)", st.priv, st.msg, r, s, err)
			}
			return ""
		}},
		{"RecoverPublicKey", true, -1, func(st *raceSet, i int) string {
			var sg btc.Signature
			sg.R.Set(st.r)
			sg.S.Set(st.s)
			k := sg.RecoverPublicKey(st.msg, st.recid)
			if k == nil || !bytes.Equal(k.Bytes(true), st.pubC) {
				return bad("RecoverPublicKey(recid=%d) does not return the signer's key %x", st.recid, st.pubC)
			}
			return ""
		}},
		{"CheckPayToContract", true, -1, func(st *raceSet, i int) string {
			par := st.qpar
			if i%2 == 1 {
				par = !par
			}
			if got := btc.CheckPayToContract(st.q, st.xpub, st.tweak, par); got != (i%2 == 0) {
				return bad("CheckPayToContract(q=%x, p=%x, t=%x, parity=%v) = %v", st.q, st.xpub, st.tweak, par, got)
			}
			return ""
		}},
		{"NewPublicKey", false, -1, func(st *raceSet, i int) string {
			in := st.pubC
			if i%2 == 1 {
				in = st.pubU
			}
			k, err := btc.NewPublicKey(in)
			if err != nil || !bytes.Equal(k.Bytes(false), st.pubU) {
				return bad("NewPublicKey(%x) wrong", in)
			}
			return ""
		}},
		{"PublicFromPrivate", true, -1, func(st *raceSet, i int) string {
			if got := btc.PublicFromPrivate(st.priv, i%2 == 0); !bytes.Equal(got, map[bool][]byte{true: st.pubC, false: st.pubU}[i%2 == 0]) {
				return bad("PublicFromPrivate(%x) = %x", st.priv, got)
			}
			return ""
		}},
		{"Multiply", true, -1, func(st *raceSet, i int) string {
			out := make([]byte, 33)
			if !secp256k1.Multiply(st.pubC, st.msg, out) || !bytes.Equal(out, st.mulOut) {
				return bad("Multiply(%x, %x) = %x, expected %x", st.pubC, st.msg, out, st.mulOut)
			}
			return ""
		}},
		{"ECPublicTweakAdd", true, -1, func(st *raceSet, i int) string {
			var xy secp256k1.XY
			var t secp256k1.Number
			t.SetBytes(st.tweak)
			if !xy.ParsePubkey(st.pubU) || !xy.ECPublicTweakAdd(&t) {
				return "ParsePubkey/ECPublicTweakAdd failed"
			}
			var out [65]byte
			xy.GetPublicKey(out[:])
			if !bytes.Equal(out[:], refsig.SerializePubkey(st.tweakAdd, false)) {
				return bad("ECPublicTweakAdd gives %x", out)
			}
			return ""
		}},
		{"DeriveNextPrivate+Public", true, -1, func(st *raceSet, i int) string {
			if got := btc.DeriveNextPrivate(st.priv, st.msg); !bytes.Equal(got, st.nextPriv) {
				return bad("DeriveNextPrivate = %x, expected %x", got, st.nextPriv)
			}
			if got := btc.DeriveNextPublic(st.pubC, st.tweak); !bytes.Equal(got, st.nextPub) {
				return bad("DeriveNextPublic = %x, expected %x", got, st.nextPub)
			}
			return ""
		}},
		{"VerifyKeyPair", true, 0, func(st *raceSet, i int) string {
			if err := btc.VerifyKeyPair(st.priv, st.pubC); err != nil {
				return "VerifyKeyPair refuses a valid pair: " + err.Error()
			}
			return ""
		}},
	}
}

// racePassMain is what `c03-race --racepass=N` executes.
func racePassMain(n int) {
	data := raceData() // single-threaded reference results
	entries := raceEntries()
	var ops int64
	var mu sync.Mutex
	failed := map[string]bool{}
	round := func(name string, assign func(g int) *raceEntry) {
		var wg sync.WaitGroup
		for g := 0; g < raceGoroutines; g++ {
			e := assign(g)
			iters := n
			if e.heavy {
				iters = n / 8
			}
			wg.Add(1)
			go func(g int) {
				defer wg.Done()
				for i := 0; i < iters; i++ {
					if why := e.run(&data[g][i%raceSets], i); why != "" {
						mu.Lock()
						if !failed[name+e.name] {
							failed[name+e.name] = true
							fmt.Printf("racepass-fail [%s] %s: %s\n", name, e.name, why)
						}
						mu.Unlock()
					}
					atomic.AddInt64(&ops, 1)
				}
			}(g)
		}
		wg.Wait()
	}
	for i := range entries {
		e := &entries[i]
		btc.EcdsaSignWithRFC6979 = e.rfc == 1
		round("8 x "+e.name, func(int) *raceEntry { return e })
	}
	// two different entry points side by side (goroutines 0-3 / 4-7)
	for i := range entries {
		for _, j := range []int{(i + 1) % len(entries), (i + 5) % len(entries)} {
			a, b := &entries[i], &entries[j]
			if a.rfc >= 0 && b.rfc >= 0 && a.rfc != b.rfc {
				continue // the RFC6979 switch is a package-level setting, not concurrent state
			}
			btc.EcdsaSignWithRFC6979 = a.rfc == 1 || b.rfc == 1
			round("4 x "+a.name+" with 4 x "+b.name, func(g int) *raceEntry {
				if g < raceGoroutines/2 {
					return a
				}
				return b
			})
		}
	}
	btc.EcdsaSignWithRFC6979 = false
	fmt.Printf("racepass-done %d\n", ops)
}

var gocoinFrame = regexp.MustCompile(`gocoin/lib/(secp256k1|btc)\.([A-Za-z0-9_().*]+)`)

// runRacePass executes the -race build and turns its output into verdicts.
func runRacePass(r *ev.Run) map[string]interface{} {
	info := map[string]interface{}{}
	bin := ev.OutDir() + "/bin/c03-race"
	if _, err := os.Stat(bin); err != nil {
		if os.Getenv("C03_SKIP_RACE") != "" {
			info["skipped"] = "C03_SKIP_RACE set"
			return info
		}
		ev.HarnessError("race-detector build %s missing (checks/c03/RACE makes run.sh build it)", bin)
	}
	n := 400
	if r.Thorough() {
		n = 4000
	}
	ops, reports := 0, 0
	for _, procs := range []string{"4", "16"} {
		cmd := exec.Command(bin, fmt.Sprint("--racepass=", n))
		cmd.Env = append(os.Environ(), "GOMAXPROCS="+procs, "GORACE=halt_on_error=0 exitcode=0")
		var werr strings.Builder
		cmd.Stderr = &werr
		out, err := cmd.Output()
		if err != nil || !strings.Contains(string(out), "racepass-done") {
			if gocoinFrame.MatchString(werr.String()) && (strings.Contains(werr.String(), "fatal error") || strings.Contains(werr.String(), "panic:")) {
				r.Report("concurrent/free-running-crash", "concurrent calls of the entry points crashed inside gocoin: "+short(werr.String(), 1500), map[string]interface{}{"api": "racepass", "gomaxprocs": procs})
				continue
			}
			ev.HarnessError("race pass failed: %v %s", err, short(werr.String(), 800))
		}
		var done int
		fmt.Sscanf(string(out)[strings.Index(string(out), "racepass-done"):], "racepass-done %d", &done)
		ops += done
		for _, line := range strings.Split(string(out), "\n") {
			if strings.HasPrefix(line, "racepass-fail") {
				ent := "?"
				if i := strings.Index(line, "] "); i > 0 {
					ent = strings.SplitN(line[i+2:], ":", 2)[0]
				}
				r.Report("concurrent/wrong-result-under-concurrency/"+ent, "8 goroutines on disjoint data, GOMAXPROCS="+procs+": "+short(line, 900), map[string]interface{}{"api": "racepass", "gomaxprocs": procs})
			}
		}
		for _, rep := range strings.Split(werr.String(), "WARNING: DATA RACE")[1:] {
			reports++
			if m := gocoinFrame.FindStringSubmatch(rep); m != nil {
				r.Report("concurrent/data-race/"+m[1]+"."+strings.TrimSuffix(m[2], "()"), "Go race detector, concurrent calls on disjoint data (GOMAXPROCS="+procs+"): "+short(rep, 1500), map[string]interface{}{"api": "racepass", "gomaxprocs": procs})
			}
		}
	}
	info["operations"] = ops
	info["race_reports"] = reports
	info["goroutines"] = raceGoroutines
	info["entry_points"] = len(raceEntries())
	info["iterations_per_goroutine_light_heavy"] = []int{n, n / 8}
	return info
}

func short(s string, n int) string {
	s = strings.ReplaceAll(s, "\n", " | ")
	if len(s) > n {
		return s[:n] + "…"
	}
	return s
}
