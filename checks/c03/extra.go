package main

// Families added after the independently seeded changes C03-a / C03-b were missed:
//
//   ecdsa/x-of-R-ge-n   valid triples whose nonce point has n <= x(R) < p, so that
//                       r = x(R) mod n differs from x(R) (the reduction is essential);
//   volume:schnorr      a large deterministic family of BIP340 signatures made by the
//   volume:ecdsa        library itself, each checked in both directions (the valid
//                       signature must verify, the signature of the negated nonce point /
//                       a wrong message must not). The expected verdict follows from the
//                       construction; whenever the implementation deviates, the
//                       independent reference decides who is right. This reaches
//                       representation-dependent defects (un-normalised field elements)
//                       that occur for roughly one point in 10^4.

import (
	"crypto/sha256"
	"encoding/binary"
	"fmt"
	"math/big"

	"github.com/piotrnar/gocoin/lib/btc"
	"github.com/piotrnar/gocoin/lib/secp256k1"

	"verif/ref/refsecp"
	"verif/ref/refsig"
)

func genXgeN(emit func(Case)) {
	found := 0
	for j := int64(1); found < 4 && j < 200; j++ {
		x := new(big.Int).Add(refsecp.N, big.NewInt(j))
		R, ok := refsecp.LiftX(x)
		if !ok {
			continue
		}
		found++
		r := big.NewInt(j)
		rinv := new(big.Int).ModInverse(r, refsecp.N)
		for si, s := range []*big.Int{big.NewInt(1), new(big.Int).Rsh(refsecp.N, 2), new(big.Int).Sub(refsecp.HalfN, big.NewInt(3))} {
			m := sha256.Sum256([]byte(fmt.Sprint("x-ge-n", j, si)))
			mi := new(big.Int).Mod(new(big.Int).SetBytes(m[:]), refsecp.N)
			// Q = r^-1 (s*R - m*G)
			sR := refsecp.Mul(s, R)
			mG := refsecp.MulG(mi)
			Q := refsecp.Mul(rinv, refsecp.Add(sR, refsecp.Neg(mG)))
			if Q.Inf {
				continue
			}
			for _, comp := range []bool{true, false} {
				emit(Case{API: "EcdsaVerify", Family: "ecdsa/x-of-R-ge-n", Note: fmt.Sprintf("x(R)=n+%d, r=%d, s#%d compressed=%v", j, j, si, comp),
					Pub: hx(refsig.SerializePubkey(Q, comp)), Sig: hx(refsig.SerializeDER(r, s)), Msg: hx(m[:])})
				// control: r = x(R) itself (not reduced) must be refused
				emit(Case{API: "EcdsaVerify", Family: "ecdsa/x-of-R-ge-n", Note: fmt.Sprintf("control r=x(R)=n+%d unreduced compressed=%v", j, comp),
					Pub: hx(refsig.SerializePubkey(Q, comp)), Sig: hx(refsig.SerializeDER(x, s)), Msg: hx(m[:])})
			}
		}
	}
	if found == 0 {
		panic("no x = n+j on the curve")
	}
}

func genVolume(thorough bool, emit func(Case)) {
	n := 60000
	if thorough {
		n = 600000
	}
	for i := 0; i < n; i++ {
		api := "volume:schnorr"
		if i%3 == 2 {
			api = "volume:ecdsa"
		}
		emit(Case{API: api, Family: api, Rep: i})
	}
}

func volumeKey(i int) (sk, msg, aux []byte) {
	var b [8]byte
	binary.BigEndian.PutUint64(b[:], uint64(i))
	h1 := sha256.Sum256(append([]byte("c03-volume-sk"), b[:]...))
	h2 := sha256.Sum256(append([]byte("c03-volume-msg"), b[:]...))
	h3 := sha256.Sum256(append([]byte("c03-volume-aux"), b[:]...))
	return h1[:], h2[:], h3[:]
}

func evalVolume(c Case) verdict {
	sk, msg, aux := volumeKey(c.Rep)
	d := new(big.Int).SetBytes(sk)
	if d.Sign() == 0 || d.Cmp(refsecp.N) >= 0 {
		return verdict{class: "skipped-key-out-of-range", judged: false}
	}
	if c.API == "volume:schnorr" {
		sig := secp256k1.SchnorrSign(msg, sk, aux)
		pub := btc.PublicFromPrivate(sk, true)
		if len(sig) != 64 || len(pub) != 33 {
			// the signer verifies its own output and gives up if that fails
			want := refsig.SchnorrSign(sk, msg, aux)
			return verdict{key: "volume/schnorr-signer-failed", judged: true, class: "signer-failed",
				what: fmt.Sprintf("secp256k1.SchnorrSign(msg=%x, sk=%x, aux=%x) returned %x; the BIP340 signature is %x", msg, sk, aux, sig, want)}
		}
		px := pub[1:]
		ok := btc.SchnorrVerify(px, sig, msg)
		if !ok {
			if refsig.SchnorrVerify(px, msg, sig) {
				return verdict{key: "volume/schnorr-valid-rejected", judged: true, class: "valid|impl=false",
					what: fmt.Sprintf("btc.SchnorrVerify(pkey=%x, sig=%x, msg=%x) returns false; BIP340 verification succeeds", px, sig, msg)}
			}
			return verdict{class: "construction-invalid", judged: false}
		}
		// signature for the negated nonce point: s' = 2*e*d' - s  (d' = secret of the even-Y key)
		dd := new(big.Int).Set(d)
		if pub[0] == 0x03 {
			dd.Sub(refsecp.N, dd)
		}
		eh := refsig.TaggedHash("BIP0340/challenge", sig[:32], px, msg)
		e := new(big.Int).Mod(new(big.Int).SetBytes(eh[:]), refsecp.N)
		s := new(big.Int).SetBytes(sig[32:])
		s2 := new(big.Int).Mul(e, dd)
		s2.Lsh(s2, 1)
		s2.Sub(s2, s)
		s2.Mod(s2, refsecp.N)
		forged := append(append([]byte{}, sig[:32]...), b32(s2)...)
		if btc.SchnorrVerify(px, forged, msg) {
			if !refsig.SchnorrVerify(px, msg, forged) {
				return verdict{key: "volume/schnorr-odd-y-nonce-accepted", judged: true, class: "negated-nonce|impl=true",
					what: fmt.Sprintf("btc.SchnorrVerify(pkey=%x, sig=%x, msg=%x) returns true; the nonce point has odd Y, BIP340 verification fails", px, forged, msg)}
			}
			return verdict{class: "construction-invalid", judged: false}
		}
		return verdict{class: "valid-accepted+negated-nonce-refused", judged: true}
	}
	// ECDSA: deterministic signature by the library, verified under both key encodings,
	// as high-S twin, and against a wrong message
	btcSig := new(secp256k1.Signature)
	var skn, mn, kn secp256k1.Number
	skn.SetBytes(sk)
	mn.SetBytes(msg)
	kn.SetBytes(aux)
	if btcSig.Sign(&skn, &mn, &kn, nil) != 1 {
		return verdict{class: "nonce-unusable", judged: false}
	}
	der := btcSig.Bytes()
	// the serialised form of the library's own signature: canonical DER of (r, s), low S,
	// through both serialisers
	if !refsig.IsLowS(&btcSig.S.Int) {
		return verdict{key: "volume/ecdsa-own-signature-high-s", judged: true, class: "high-s",
			what: fmt.Sprintf("Signature.Sign(sec=%x, msg=%x, nonce=%x) gives S=%s above (n-1)/2", sk, msg, aux, btcSig.S.Text(16))}
	}
	if why := canonicalDER(append(append([]byte{}, der...), 1), &btcSig.R.Int, &btcSig.S.Int, 1); why != "" {
		return verdict{key: "serialise/secp256k1.Signature.Bytes-not-canonical-der", judged: true, class: "own-signature-not-canonical",
			what: fmt.Sprintf("own signature (sec=%x, msg=%x, nonce=%x) serialised by secp256k1.Signature.Bytes(): %s", sk, msg, aux, why)}
	}
	{
		var bs btc.Signature
		bs.R.Set(&btcSig.R.Int)
		bs.S.Set(&btcSig.S.Int)
		bs.HashType = 1
		if why := canonicalDER(bs.Bytes(), &btcSig.R.Int, &btcSig.S.Int, 1); why != "" {
			return verdict{key: "serialise/btc.Signature.Bytes-not-canonical-der", judged: true, class: "own-signature-not-canonical",
				what: fmt.Sprintf("own signature (sec=%x, msg=%x, nonce=%x) serialised by btc.Signature.Bytes(): %s", sk, msg, aux, why)}
		}
	}
	hi := refsig.SerializeDER(&btcSig.R.Int, new(big.Int).Sub(refsecp.N, &btcSig.S.Int))
	wrong := sha256.Sum256(msg)
	for _, comp := range []bool{true, false} {
		pub := btc.PublicFromPrivate(sk, comp)
		for vi, sg := range [][]byte{der, hi} {
			if !btc.EcdsaVerify(pub, sg, msg) {
				r, s, okp := refsig.ParseDERLax(sg)
				if okp && refsig.ECDSAVerify(pub, r, s, msg) {
					return verdict{key: "volume/ecdsa-valid-rejected", judged: true, class: "valid|impl=false",
						what: fmt.Sprintf("btc.EcdsaVerify(pub=%x, sig=%x, hash=%x) returns false (variant %d); the ECDSA equation holds", pub, sg, msg, vi)}
				}
				return verdict{class: "construction-invalid", judged: false}
			}
		}
		if btc.EcdsaVerify(pub, der, wrong[:]) {
			r, s, _ := refsig.ParseDERLax(der)
			if !refsig.ECDSAVerify(pub, r, s, wrong[:]) {
				return verdict{key: "volume/ecdsa-wrong-message-accepted", judged: true, class: "wrong-msg|impl=true",
					what: fmt.Sprintf("btc.EcdsaVerify(pub=%x, sig=%x, hash=%x) returns true for a message that was not signed", pub, der, wrong)}
			}
		}
	}
	return verdict{class: "valid-accepted+wrong-message-refused", judged: true}
}
