package main

import (
	"bytes"
	"crypto/sha256"
	"fmt"
	"math/big"

	"github.com/piotrnar/gocoin/lib/btc"
	"github.com/piotrnar/gocoin/lib/secp256k1"

	"verif/ref/refsecp"
	"verif/ref/refsig"
)

var (
	bigN  = refsecp.N
	bigP  = refsecp.P
	two56 = new(big.Int).Lsh(big.NewInt(1), 256)
)

func bi(v int64) *big.Int         { return big.NewInt(v) }
func add(a, b *big.Int) *big.Int  { return new(big.Int).Add(a, b) }
func sub(a, b *big.Int) *big.Int  { return new(big.Int).Sub(a, b) }
func mulN(a, b *big.Int) *big.Int { return new(big.Int).Mod(new(big.Int).Mul(a, b), bigN) }
func modN(a *big.Int) *big.Int    { return new(big.Int).Mod(a, bigN) }
func invN(a *big.Int) *big.Int    { return new(big.Int).Exp(modN(a), sub(bigN, bi(2)), bigN) }
func hashInt(s string) *big.Int   { h := sha256.Sum256([]byte(s)); return refsecp.Int(h[:]) }
func hashBytes(s string) []byte   { h := sha256.Sum256([]byte(s)); return h[:] }
func b32(v *big.Int) []byte       { return refsecp.B32(v) }
func cat(parts ...[]byte) []byte  { return bytes.Join(parts, nil) }
func flip(b []byte, bit int) []byte {
	o := append([]byte(nil), b...)
	o[bit/8] ^= 0x80 >> uint(bit%8)
	return o
}
func bytesOf(v *big.Int) []byte { // minimal unsigned big-endian, at least one byte
	b := v.Bytes()
	if len(b) == 0 {
		return []byte{0}
	}
	return b
}

// the secret keys of the base set: 1, 2, n-1, (n-1)/2 and two fixed "random" keys
func baseSecrets() []*big.Int {
	return []*big.Int{bi(1), bi(2), sub(bigN, bi(1)), new(big.Int).Rsh(bigN, 1),
		modN(hashInt("verif C03 key 1")), modN(hashInt("verif C03 key 2"))}
}

// the messages of the base set: 0, 1, n-1, n, n+1, 2^256-1 and one hash
func baseMsgs() [][]byte {
	return [][]byte{b32(bi(0)), b32(bi(1)), b32(sub(bigN, bi(1))), b32(bigN), b32(add(bigN, bi(1))),
		b32(sub(two56, bi(1))), hashBytes("verif C03 message")}
}

// keyEnc serialises a finite point: 'c' compressed, 'u' uncompressed, 'h' hybrid
func keyEnc(p refsecp.Point, mode byte) []byte {
	switch mode {
	case 'c':
		return refsig.SerializePubkey(p, true)
	case 'u':
		return refsig.SerializePubkey(p, false)
	}
	u := refsig.SerializePubkey(p, false)
	u[0] = 6 + byte(p.Y.Bit(0))
	return u
}

// derRaw encodes two arbitrary-length unsigned byte strings as DER integers
// exactly as given (no minimality enforced) - used to build non-canonical forms.
func derRaw(r, s []byte) []byte {
	body := cat([]byte{2, byte(len(r))}, r, []byte{2, byte(len(s))}, s)
	return cat([]byte{0x30, byte(len(body))}, body)
}

// forge returns (r, s, e) with R = a*G + b*Q, r = x(R) mod n, s = r/b, e = a*s:
// a valid ECDSA triple for Q made without a secret key. The group operations are
// the chord/tangent formulas of refsecp, which do not use the curve constant, so
// for a point Q that is NOT on secp256k1 and a = 0 this is exactly what an
// implementation that never checks curve membership computes.
func forge(q refsecp.Point, a, b *big.Int) (r, s, e *big.Int, ok bool) {
	R := refsecp.Mul(b, q)
	if a.Sign() != 0 {
		R = refsecp.Add(refsecp.MulG(a), R)
	}
	if R.Inf {
		return nil, nil, nil, false
	}
	r = modN(R.X)
	if r.Sign() == 0 {
		return nil, nil, nil, false
	}
	s = mulN(r, invN(b))
	e = mulN(a, s)
	return r, s, e, s.Sign() != 0
}

func ecdsaCase(fam, note string, pub, sig, msg []byte) Case {
	return Case{API: "EcdsaVerify", Family: fam, Note: note, Pub: hx(pub), Sig: hx(sig), Msg: hx(msg)}
}

// cube root for p = 7 mod 9
func cbrt(a *big.Int) (*big.Int, bool) {
	e := new(big.Int).Div(add(bigP, bi(2)), bi(9))
	r := refsecp.FExp(a, e)
	if refsecp.FMul(refsecp.FSqr(r), r).Cmp(refsecp.FMod(a)) != 0 {
		return nil, false
	}
	return r, true
}

// smallXPoints: curve points with the smallest x coordinates (x + p fits 32 bytes)
func smallXPoints(count int) []refsecp.Point {
	var out []refsecp.Point
	for x := int64(1); len(out) < count; x++ {
		if p, ok := refsecp.LiftX(bi(x)); ok {
			out = append(out, p)
		}
	}
	return out
}

// smallYPoints: curve points with the smallest y coordinates (y + p fits 32 bytes)
func smallYPoints(count int) []refsecp.Point {
	var out []refsecp.Point
	for y := int64(1); len(out) < count; y++ {
		x, ok := cbrt(refsecp.FSub(bi(y*y), refsecp.B))
		if !ok {
			continue
		}
		p := refsecp.Point{X: x, Y: bi(y)}
		if !refsecp.OnCurve(p) {
			panic("smallYPoints: constructed point not on curve")
		}
		out = append(out, p)
	}
	return out
}

// unliftableX: x values (< p) for which x^3 + 7 has no square root
func unliftableX(count int) []*big.Int {
	var out []*big.Int
	for x := int64(0); len(out) < count; x++ {
		if _, ok := refsecp.LiftX(bi(x)); !ok {
			out = append(out, bi(x))
		}
	}
	for i := 0; len(out) < count+2; i++ {
		x := refsecp.FMod(hashInt(fmt.Sprint("verif C03 unliftable ", i)))
		if _, ok := refsecp.LiftX(x); !ok {
			out = append(out, x)
		}
	}
	return out
}

// bogusLift is what an implementation computes that never checks the square
// root: y = (x^3+7)^((p+1)/4), negated when its parity is not the requested one.
func bogusLift(x *big.Int, odd bool) refsecp.Point {
	xm := refsecp.FMod(x)
	y := refsecp.FSqrtCandidate(refsecp.FAdd(refsecp.FMul(refsecp.FSqr(xm), xm), refsecp.B))
	if (y.Bit(0) == 1) != odd {
		y = refsecp.FNeg(y)
	}
	return refsecp.Point{X: xm, Y: y}
}

func genEcdsa(thorough bool, emit func(Case)) {
	secs := baseSecrets()
	msgs := baseMsgs()
	type base struct {
		d      *big.Int
		q      refsecp.Point
		msg    []byte
		r, s   *big.Int
		di, mi int
	}
	var bases []base
	for di, d := range secs {
		q := refsecp.MulG(d)
		for mi, m := range msgs {
			r, s := refsig.ECDSASignRFC6979(b32(d), m)
			bases = append(bases, base{d, q, m, r, s, di, mi})
		}
	}
	hi := func(s *big.Int) *big.Int { return sub(bigN, s) }

	// ---- valid: every base triple x encoding x {low S, high S} ----
	for _, b := range bases {
		for _, enc := range []byte{'c', 'u', 'h'} {
			emit(ecdsaCase("ecdsa/valid", fmt.Sprintf("key#%d msg#%d enc=%c low-S", b.di, b.mi, enc), keyEnc(b.q, enc), refsig.SerializeDER(b.r, b.s), b.msg))
			emit(ecdsaCase("ecdsa/valid", fmt.Sprintf("key#%d msg#%d enc=%c high-S", b.di, b.mi, enc), keyEnc(b.q, enc), refsig.SerializeDER(b.r, hi(b.s)), b.msg))
		}
	}

	// ---- chosen s: with the secret known, any s is reachable by choosing the
	// message e = s*k - r*d; gives s + n that still fits 32 bytes ----
	nonces := []*big.Int{bi(1), bi(2), modN(hashInt("verif C03 nonce"))}
	type tgt struct {
		n string
		v *big.Int
	}
	targets := []tgt{{"1", bi(1)}, {"2", bi(2)}, {"3", bi(3)}, {"2^64", new(big.Int).Lsh(bi(1), 64)}, {"2^128", new(big.Int).Lsh(bi(1), 128)},
		{"(n-1)/2", refsecp.HalfN}, {"(n+1)/2", add(refsecp.HalfN, bi(1))}, {"n-2", sub(bigN, bi(2))}, {"n-1", sub(bigN, bi(1))}}
	for di, d := range secs {
		q := refsecp.MulG(d)
		pub := keyEnc(q, 'c')
		for ki, k := range nonces {
			R := refsecp.MulG(k)
			r := modN(R.X)
			for _, tg := range targets {
				tn, s := tg.n, tg.v
				e := modN(sub(mulN(s, k), mulN(r, d)))
				tag := fmt.Sprintf("key#%d nonce#%d s=%s", di, ki, tn)
				emit(ecdsaCase("ecdsa/chosen-s", tag+" (valid)", pub, refsig.SerializeDER(r, s), b32(e)))
				emit(ecdsaCase("ecdsa/chosen-s", tag+" s:=s+n", pub, refsig.SerializeDER(r, add(s, bigN)), b32(e)))
				emit(ecdsaCase("ecdsa/chosen-s", tag+" s:=s+2n", pub, refsig.SerializeDER(r, add(s, add(bigN, bigN))), b32(e)))
				emit(ecdsaCase("ecdsa/chosen-s", tag+" r:=r+n", pub, refsig.SerializeDER(add(r, bigN), s), b32(e)))
				if add(e, bigN).Cmp(two56) < 0 {
					emit(ecdsaCase("ecdsa/chosen-s", tag+" (valid, msg:=e+n)", pub, refsig.SerializeDER(r, s), b32(add(e, bigN))))
				}
			}
		}
	}

	// ---- every single-bit flip of key, signature, message ----
	for _, b := range bases {
		encs := []byte{'c', 'u'}
		if thorough {
			// thorough: every key, messages 0, n+1, 2^256-1 and the hash, all three encodings
			encs = []byte{'c', 'u', 'h'}
			if !(b.mi == 0 || b.mi == 4 || b.mi == 5 || b.mi == 6) {
				continue
			}
		} else {
			// quick: key 1 compressed, key (n-1)/2 uncompressed, "random" key both (hash message);
			// key n-1 compressed with message n+1
			switch {
			case b.mi == 6 && b.di == 0, b.mi == 4 && b.di == 2:
				encs = []byte{'c'}
			case b.mi == 6 && b.di == 3:
				encs = []byte{'u'}
			case b.mi == 6 && b.di == 4:
			default:
				continue
			}
		}
		svals := []*big.Int{b.s}
		if thorough {
			svals = append(svals, hi(b.s))
		}
		for _, enc := range encs {
			for si, s := range svals {
				if si == 1 && enc != 'c' {
					continue // the high-S variant with the compressed key only
				}
				pub, sig := keyEnc(b.q, enc), refsig.SerializeDER(b.r, s)
				tag := fmt.Sprintf("key#%d msg#%d enc=%c", b.di, b.mi, enc)
				if si == 1 {
					tag += " high-S"
				}
				for i := 0; i < len(pub)*8; i++ {
					emit(ecdsaCase("ecdsa/bitflip-key", fmt.Sprintf("%s key bit %d", tag, i), flip(pub, i), sig, b.msg))
				}
				for i := 0; i < len(sig)*8; i++ {
					emit(ecdsaCase("ecdsa/bitflip-sig", fmt.Sprintf("%s sig bit %d", tag, i), pub, flip(sig, i), b.msg))
				}
				for i := 0; i < 256; i++ {
					emit(ecdsaCase("ecdsa/bitflip-msg", fmt.Sprintf("%s msg bit %d", tag, i), pub, sig, flip(b.msg, i)))
				}
			}
		}
	}

	// ---- boundary scalars substituted for r and for s ----
	for _, b := range bases {
		pub := keyEnc(b.q, 'c')
		rv := map[string]*big.Int{"0": bi(0), "1": bi(1), "n-1": sub(bigN, bi(1)), "n": bigN, "n+1": add(bigN, bi(1)),
			"r+n": add(b.r, bigN), "r+2n": add(b.r, add(bigN, bigN)), "p": bigP, "2^256-1": sub(two56, bi(1)), "2^256": two56,
			"2^256+r": add(two56, b.r), "n-r": sub(bigN, b.r)}
		sv := map[string]*big.Int{"0": bi(0), "1": bi(1), "n-1": sub(bigN, bi(1)), "n": bigN, "n+1": add(bigN, bi(1)),
			"s+n": add(b.s, bigN), "s+2n": add(b.s, add(bigN, bigN)), "n-s+n": add(hi(b.s), bigN), "p": bigP, "2^256-1": sub(two56, bi(1)),
			"2^256": two56, "2^256+s": add(two56, b.s), "s+255n": add(b.s, new(big.Int).Mul(bi(255), bigN))}
		for _, k := range sortedKeys(rv) {
			emit(ecdsaCase("ecdsa/scalar-r", fmt.Sprintf("key#%d msg#%d r:=%s", b.di, b.mi, k), pub, refsig.SerializeDER(rv[k], b.s), b.msg))
		}
		for _, k := range sortedKeys(sv) {
			emit(ecdsaCase("ecdsa/scalar-s", fmt.Sprintf("key#%d msg#%d s:=%s", b.di, b.mi, k), pub, refsig.SerializeDER(b.r, sv[k]), b.msg))
		}
		emit(ecdsaCase("ecdsa/scalar-rs", fmt.Sprintf("key#%d msg#%d r:=0 s:=0", b.di, b.mi), pub, refsig.SerializeDER(bi(0), bi(0)), b.msg))
		emit(ecdsaCase("ecdsa/scalar-rs", fmt.Sprintf("key#%d msg#%d r:=n s:=n", b.di, b.mi), pub, refsig.SerializeDER(bigN, bigN), b.msg))
		emit(ecdsaCase("ecdsa/scalar-rs", fmt.Sprintf("key#%d msg#%d r:=r+n s:=s+n", b.di, b.mi), pub, refsig.SerializeDER(add(b.r, bigN), add(b.s, bigN)), b.msg))
	}

	// ---- encodings of a valid (r, s): forms only a lax parser reads, broken forms ----
	for _, b := range bases {
		if !(b.mi == 6 || (thorough && b.mi == 0)) {
			continue
		}
		pub := keyEnc(b.q, 'c')
		rb, sb := bytesOf(b.r), bytesOf(b.s)
		if rb[0]&0x80 != 0 {
			rb = cat([]byte{0}, rb)
		}
		if sb[0]&0x80 != 0 {
			sb = cat([]byte{0}, sb)
		}
		canon := refsig.SerializeDER(b.r, b.s)
		body := canon[2:]
		forms := map[string][]byte{
			"canonical":                canon,
			"seq-len-long-form-81":     cat([]byte{0x30, 0x81, byte(len(body))}, body),
			"seq-len-long-form-82":     cat([]byte{0x30, 0x82, 0, byte(len(body))}, body),
			"seq-len-wrong-minus1":     cat([]byte{0x30, byte(len(body) - 1)}, body),
			"seq-len-wrong-plus1":      cat([]byte{0x30, byte(len(body) + 1)}, body),
			"seq-len-zero":             cat([]byte{0x30, 0}, body),
			"r-len-long-form-81":       cat([]byte{0x30, byte(len(body) + 1), 2, 0x81, byte(len(rb))}, rb, []byte{2, byte(len(sb))}, sb),
			"s-len-long-form-81":       cat([]byte{0x30, byte(len(body) + 1), 2, byte(len(rb))}, rb, []byte{2, 0x81, byte(len(sb))}, sb),
			"r-len-long-form-83-zeros": cat([]byte{0x30, byte(len(body) + 3), 2, 0x83, 0, 0, byte(len(rb))}, rb, []byte{2, byte(len(sb))}, sb),
			"r-padded-00":              derRaw(cat([]byte{0}, rb), sb),
			"r-padded-0000":            derRaw(cat([]byte{0, 0}, rb), sb),
			"s-padded-00":              derRaw(rb, cat([]byte{0}, sb)),
			"s-padded-x8-00":           derRaw(rb, cat(make([]byte, 8), sb)),
			"r-unpadded-negative":      derRaw(bytesOf(b.r), sb),
			"s-unpadded-negative":      derRaw(rb, bytesOf(hi(b.s))),
			"r-zero-length":            derRaw(nil, sb),
			"s-zero-length":            derRaw(rb, nil),
			"r-tag-03":                 cat(canon[:2], []byte{3}, canon[3:]),
			"s-tag-03":                 cat(canon[:4+len(rb)], []byte{3}, canon[5+len(rb):]),
			"seq-tag-31":               cat([]byte{0x31}, canon[1:]),
			"trailing-00":              cat(canon, []byte{0}),
			"trailing-hashtype-01":     cat(canon, []byte{1}),
			"trailing-3-bytes":         cat(canon, []byte{0xde, 0xad, 0x01}),
			"trailing-inside-seq":      cat([]byte{0x30, byte(len(body) + 1)}, body, []byte{0}),
			"s-missing":                cat([]byte{0x30, byte(2 + len(rb)), 2, byte(len(rb))}, rb),
			"empty":                    {},
			"only-30":                  {0x30},
			"r-len-81-as-count-129":    cat([]byte{0x30, byte(129 + 3 + 4), 2, 0x81}, bytes.Repeat([]byte{0x7f}, 129), []byte{2, 1, 1}),
			"r-33-bytes-01-prefix":     derRaw(cat([]byte{1}, b32(b.r)), sb),
			"s-33-bytes-01-prefix":     derRaw(rb, cat([]byte{1}, b32(b.s))),
		}
		for _, k := range sortedKeysB(forms) {
			emit(ecdsaCase("ecdsa/der-forms", fmt.Sprintf("key#%d msg#%d %s", b.di, b.mi, k), pub, forms[k], b.msg))
		}
		// every proper prefix of the canonical signature, and of signature + 2 bytes
		ext := cat(canon, []byte{0x01, 0x00})
		for l := 0; l <= len(ext); l++ {
			emit(ecdsaCase("ecdsa/truncate", fmt.Sprintf("key#%d msg#%d first %d bytes", b.di, b.mi, l), pub, ext[:l], b.msg))
		}
	}

	// ---- key encodings for a valid (sig, msg) ----
	for _, b := range bases {
		if !(b.mi == 6 && (thorough || b.di == 0 || b.di == 4)) {
			continue
		}
		sig := refsig.SerializeDER(b.r, b.s)
		x, y := b32(b.q.X), b32(b.q.Y)
		ny := b32(refsecp.FNeg(b.q.Y))
		tag := fmt.Sprintf("key#%d msg#%d ", b.di, b.mi)
		// every prefix byte with 33 and with 65 bytes, right y and negated y
		for pf := 0; pf < 256; pf++ {
			emit(ecdsaCase("ecdsa/key-prefix", fmt.Sprintf("%sprefix %02x, 33 bytes", tag, pf), cat([]byte{byte(pf)}, x), sig, b.msg))
			emit(ecdsaCase("ecdsa/key-prefix", fmt.Sprintf("%sprefix %02x, 65 bytes, y", tag, pf), cat([]byte{byte(pf)}, x, y), sig, b.msg))
			emit(ecdsaCase("ecdsa/key-prefix", fmt.Sprintf("%sprefix %02x, 65 bytes, -y", tag, pf), cat([]byte{byte(pf)}, x, ny), sig, b.msg))
		}
		// every length 0..66 of the compressed / uncompressed / hybrid encodings (zero padded beyond)
		for _, enc := range []byte{'c', 'u', 'h'} {
			full := cat(keyEnc(b.q, enc), make([]byte, 66))
			for l := 0; l <= 66; l++ {
				emit(ecdsaCase("ecdsa/key-length", fmt.Sprintf("%senc=%c first %d bytes", tag, enc, l), full[:l], sig, b.msg))
			}
		}
		// "infinity" encodings and all-zero coordinates
		for k, pub := range map[string][]byte{"00": {0}, "04||0||0": cat([]byte{4}, make([]byte, 64)), "02||0": cat([]byte{2}, make([]byte, 32)),
			"03||0": cat([]byte{3}, make([]byte, 32)), "04||x||0": cat([]byte{4}, x, make([]byte, 32)), "04||0||y": cat([]byte{4}, make([]byte, 32), y)} {
			emit(ecdsaCase("ecdsa/key-infinity", tag+k, pub, sig, b.msg))
		}
	}

	// ---- algebraic constructions: triples that verify for what an unchecked
	// implementation makes of a bad key ----
	abs := [][2]*big.Int{{bi(0), bi(1)}, {bi(0), bi(2)}, {bi(0), bi(3)}}
	absOn := append([][2]*big.Int{{bi(3), bi(5)}, {modN(hashInt("verif C03 a")), modN(hashInt("verif C03 b"))}}, abs...)
	nx := 3
	if thorough {
		nx = 8
	}
	zero32 := make([]byte, 32)
	// (1) x >= p: smallest-x curve points, x + p fits in 32 bytes
	for pi, q := range smallXPoints(nx) {
		for ai, ab := range absOn {
			r, s, e, ok := forge(q, ab[0], ab[1])
			if !ok {
				continue
			}
			sig, msg := refsig.SerializeDER(r, s), b32(e)
			xp := b32(add(q.X, bigP))
			tag := fmt.Sprintf("small-x point #%d (x=%s) forge#%d ", pi, q.X.Text(10), ai)
			emit(ecdsaCase("ecdsa/key-x-ge-p", tag+"canonical compressed", keyEnc(q, 'c'), sig, msg))
			emit(ecdsaCase("ecdsa/key-x-ge-p", tag+"canonical uncompressed", keyEnc(q, 'u'), sig, msg))
			emit(ecdsaCase("ecdsa/key-x-ge-p", tag+"compressed x+p", cat([]byte{2 + byte(q.Y.Bit(0))}, xp), sig, msg))
			emit(ecdsaCase("ecdsa/key-x-ge-p", tag+"uncompressed x+p", cat([]byte{4}, xp, b32(q.Y)), sig, msg))
			emit(ecdsaCase("ecdsa/key-x-ge-p", tag+"hybrid x+p", cat([]byte{6 + byte(q.Y.Bit(0))}, xp, b32(q.Y)), sig, msg))
		}
	}
	// (2) y >= p: smallest-y curve points
	for pi, q := range smallYPoints(nx) {
		for ai, ab := range absOn {
			r, s, e, ok := forge(q, ab[0], ab[1])
			if !ok {
				continue
			}
			sig, msg := refsig.SerializeDER(r, s), b32(e)
			yp := b32(add(q.Y, bigP))
			tag := fmt.Sprintf("small-y point #%d (y=%s) forge#%d ", pi, q.Y.Text(10), ai)
			emit(ecdsaCase("ecdsa/key-y-ge-p", tag+"canonical uncompressed", keyEnc(q, 'u'), sig, msg))
			emit(ecdsaCase("ecdsa/key-y-ge-p", tag+"uncompressed y+p", cat([]byte{4}, b32(q.X), yp), sig, msg))
			// parity of y+p is the opposite of y's: both hybrid prefixes
			emit(ecdsaCase("ecdsa/key-y-ge-p", tag+"hybrid(06) y+p", cat([]byte{6}, b32(q.X), yp), sig, msg))
			emit(ecdsaCase("ecdsa/key-y-ge-p", tag+"hybrid(07) y+p", cat([]byte{7}, b32(q.X), yp), sig, msg))
		}
	}
	// (3) compressed x with no square root: the triple verifies for the bogus point
	for xi, x := range unliftableX(nx) {
		for _, odd := range []bool{false, true} {
			q := bogusLift(x, odd)
			for ai, ab := range abs {
				r, s, _, ok := forge(q, ab[0], ab[1])
				if !ok {
					continue
				}
				pf := byte(2)
				if odd {
					pf = 3
				}
				sig := refsig.SerializeDER(r, s)
				tag := fmt.Sprintf("unliftable x #%d (%s) prefix %02x forge#%d ", xi, x.Text(16), pf, ai)
				emit(ecdsaCase("ecdsa/key-no-sqrt", tag+"msg=0", cat([]byte{pf}, b32(x)), sig, zero32))
				emit(ecdsaCase("ecdsa/key-no-sqrt", tag+"msg=n", cat([]byte{pf}, b32(x)), sig, b32(bigN)))
			}
		}
	}
	// (4) uncompressed / hybrid (x, y) not on the curve
	g := refsecp.G()
	off := map[string]refsecp.Point{
		"(Gx,Gy+1)": {X: g.X, Y: add(g.Y, bi(1))},
		"(Gx+1,Gy)": {X: add(g.X, bi(1)), Y: g.Y},
		"(1,1)":     {X: bi(1), Y: bi(1)},
		"(2,3)":     {X: bi(2), Y: bi(3)},
		"(1,0)":     {X: bi(1), Y: bi(0)},
		"(p-1,p-1)": {X: sub(bigP, bi(1)), Y: sub(bigP, bi(1))},
	}
	for _, name := range sortedKeysP(off) {
		q := off[name]
		if refsecp.OnCurve(q) {
			panic("off-curve construction is on the curve: " + name)
		}
		for ai, ab := range abs {
			r, s, _, ok := forge(q, ab[0], ab[1])
			if !ok {
				continue
			}
			sig := refsig.SerializeDER(r, s)
			tag := fmt.Sprintf("off-curve %s forge#%d ", name, ai)
			emit(ecdsaCase("ecdsa/key-off-curve", tag+"04", cat([]byte{4}, b32(q.X), b32(q.Y)), sig, zero32))
			emit(ecdsaCase("ecdsa/key-off-curve", tag+"hybrid matching parity", cat([]byte{6 + byte(q.Y.Bit(0))}, b32(q.X), b32(q.Y)), sig, zero32))
			emit(ecdsaCase("ecdsa/key-off-curve", tag+"hybrid wrong parity", cat([]byte{7 - byte(q.Y.Bit(0))}, b32(q.X), b32(q.Y)), sig, zero32))
		}
	}
	// (5) hybrid keys of valid points with the wrong parity prefix, forged triples
	for di, d := range secs {
		q := refsecp.MulG(d)
		r, s, e, _ := forge(q, bi(3), bi(5))
		sig, msg := refsig.SerializeDER(r, s), b32(e)
		emit(ecdsaCase("ecdsa/key-hybrid", fmt.Sprintf("key#%d right parity", di), keyEnc(q, 'h'), sig, msg))
		w := keyEnc(q, 'h')
		w[0] ^= 1
		emit(ecdsaCase("ecdsa/key-hybrid", fmt.Sprintf("key#%d wrong parity", di), w, sig, msg))
	}
}

func sortedKeys(m map[string]*big.Int) []string {
	var l []string
	for k := range m {
		l = append(l, k)
	}
	sortStrings(l)
	return l
}
func sortedKeysB(m map[string][]byte) []string {
	var l []string
	for k := range m {
		l = append(l, k)
	}
	sortStrings(l)
	return l
}
func sortedKeysP(m map[string]refsecp.Point) []string {
	var l []string
	for k := range m {
		l = append(l, k)
	}
	sortStrings(l)
	return l
}

// keyReason classifies public key bytes by the reference: "" = valid
func keyReason(pub []byte) string {
	if _, ok := refsig.ParsePubkey(pub); ok {
		return ""
	}
	switch {
	case len(pub) == 33 && (pub[0] == 2 || pub[0] == 3):
		if refsecp.Int(pub[1:]).Cmp(bigP) >= 0 {
			return "x-ge-p"
		}
		return "compressed-no-sqrt"
	case len(pub) == 65 && (pub[0] == 4 || pub[0] == 6 || pub[0] == 7):
		x, y := refsecp.Int(pub[1:33]), refsecp.Int(pub[33:])
		if x.Cmp(bigP) >= 0 {
			return "x-ge-p"
		}
		if y.Cmp(bigP) >= 0 {
			return "y-ge-p"
		}
		if !refsecp.OnCurve(refsecp.Point{X: x, Y: y}) {
			return "uncompressed-off-curve"
		}
		return "hybrid-wrong-parity"
	}
	return "bad-format"
}

// refEcdsa returns the reference verdict and the reason for a rejection
func refEcdsa(pub, sig, msg []byte) (bool, string) {
	if kr := keyReason(pub); kr != "" {
		return false, "pubkey/" + kr
	}
	r, s, ok := refsig.ParseDERLaxRaw(sig)
	if !ok {
		return false, "ecdsa/non-der"
	}
	switch {
	case r.Sign() == 0:
		return false, "ecdsa/r-zero"
	case r.Cmp(bigN) >= 0:
		return false, "ecdsa/r-out-of-range"
	case s.Sign() == 0:
		return false, "ecdsa/s-zero"
	case s.Cmp(bigN) >= 0:
		return false, "ecdsa/s-out-of-range"
	}
	if !refsig.ECDSAVerify(pub, r, s, msg) {
		return false, "ecdsa/equation-fails"
	}
	// consistency of the two reference entry points
	if !refsig.ECDSAVerifyLax(pub, sig, msg) {
		panic("refsig: ECDSAVerifyLax and ECDSAVerify disagree")
	}
	return true, "valid"
}

func implEcdsa(pub, sig, msg []byte) (res bool, pan string) {
	defer func() {
		if e := recover(); e != nil {
			pan = fmt.Sprint(e)
		}
	}()
	return btc.EcdsaVerify(pub, sig, msg), ""
}

func evalEcdsa(c Case) verdict {
	pub, sig, msg := unhx(c.Pub), unhx(c.Sig), unhx(c.Msg)
	want, reason := refEcdsa(pub, sig, msg)
	got, pan := implEcdsa(pub, sig, msg)
	call := fmt.Sprintf("btc.EcdsaVerify(pub=%s, sig=%s, hash=%s)", c.Pub, c.Sig, c.Msg)
	if pan != "" {
		return verdict{key: "ecdsa/panic", what: call + " panics: " + pan + " [" + c.Note + "]", class: reason + "|panic", judged: true}
	}
	cl := fmt.Sprintf("%s|impl=%v", reason, got)
	if got == want {
		return verdict{class: cl, judged: true}
	}
	if got && !want {
		return verdict{key: reason + "-accepted", judged: true, class: cl,
			what: fmt.Sprintf("%s returns true; the reference rejects (%s) [%s]", call, reason, c.Note)}
	}
	// refused although valid: judged only when the encoding is strict DER
	if !refsig.IsStrictDER(cat(sig, []byte{1})) {
		return verdict{class: "lax-der-only-refused(C01)", judged: false}
	}
	return verdict{key: "ecdsa/valid-rejected", judged: true, class: cl,
		what: fmt.Sprintf("%s returns false; the reference accepts [%s]", call, c.Note)}
}

// ---- parse-level family: the public key gate alone ----

func genParse(thorough bool, emit func(Case)) {
	q := refsecp.MulG(modN(hashInt("verif C03 key 1")))
	x, y := b32(q.X), b32(q.Y)
	add1 := func(note string, pub []byte) {
		emit(Case{API: "NewPublicKey", Family: "pubkey/parse", Note: note, Pub: hx(pub)})
	}
	for pf := 0; pf < 256; pf++ {
		add1(fmt.Sprintf("prefix %02x 33 bytes", pf), cat([]byte{byte(pf)}, x))
		add1(fmt.Sprintf("prefix %02x 65 bytes", pf), cat([]byte{byte(pf)}, x, y))
	}
	for _, enc := range []byte{'c', 'u', 'h'} {
		k := keyEnc(q, enc)
		for i := 0; i < len(k)*8; i++ {
			add1(fmt.Sprintf("enc=%c bit %d", enc, i), flip(k, i))
		}
		full := cat(k, make([]byte, 66))
		for l := 0; l <= 66; l++ {
			add1(fmt.Sprintf("enc=%c first %d bytes", enc, l), full[:l])
		}
	}
	for i, p := range smallXPoints(3) {
		add1(fmt.Sprintf("small-x #%d canonical", i), keyEnc(p, 'c'))
		add1(fmt.Sprintf("small-x #%d compressed x+p", i), cat([]byte{2 + byte(p.Y.Bit(0))}, b32(add(p.X, bigP))))
		add1(fmt.Sprintf("small-x #%d uncompressed x+p", i), cat([]byte{4}, b32(add(p.X, bigP)), b32(p.Y)))
	}
	for i, p := range smallYPoints(3) {
		add1(fmt.Sprintf("small-y #%d uncompressed y+p", i), cat([]byte{4}, b32(p.X), b32(add(p.Y, bigP))))
	}
	for i, ux := range unliftableX(3) {
		add1(fmt.Sprintf("unliftable #%d 02", i), cat([]byte{2}, b32(ux)))
		add1(fmt.Sprintf("unliftable #%d 03", i), cat([]byte{3}, b32(ux)))
	}
	for _, v := range []*big.Int{bigP, add(bigP, bi(1)), sub(two56, bi(1)), sub(bigP, bi(1)), bi(0)} {
		add1("02||"+v.Text(16), cat([]byte{2}, b32(v)))
		add1("04||"+v.Text(16)+"||Gy", cat([]byte{4}, b32(v), b32(refsecp.Gy)))
		add1("04||Gx||"+v.Text(16), cat([]byte{4}, b32(refsecp.Gx), b32(v)))
	}
	// x-only keys
	addx := func(note string, k []byte) {
		emit(Case{API: "ParseXOnlyPubkey", Family: "xonly/parse", Note: note, Pub: hx(k)})
	}
	for i := 0; i < 256; i++ {
		addx(fmt.Sprintf("bit %d", i), flip(x, i))
	}
	for i, p := range smallXPoints(3) {
		addx(fmt.Sprintf("small-x #%d", i), b32(p.X))
		addx(fmt.Sprintf("small-x #%d x+p", i), b32(add(p.X, bigP)))
	}
	for i, ux := range unliftableX(3) {
		addx(fmt.Sprintf("unliftable #%d", i), b32(ux))
	}
	for _, v := range []*big.Int{bigP, add(bigP, bi(1)), sub(two56, bi(1)), sub(bigP, bi(1)), bi(0), refsecp.Gx} {
		addx(v.Text(16), b32(v))
	}
}

func evalParse(c Case) verdict {
	pub := unhx(c.Pub)
	reason := keyReason(pub)
	var got bool
	var pan string
	var same = true
	func() {
		defer func() {
			if e := recover(); e != nil {
				pan = fmt.Sprint(e)
			}
		}()
		k, err := btc.NewPublicKey(pub)
		got = err == nil && k != nil
		if got && reason == "" {
			// a parsed key must be the same point
			pt, _ := refsig.ParsePubkey(pub)
			var out [65]byte
			k.XY.GetPublicKey(out[:])
			same = bytes.Equal(out[:], refsig.SerializePubkey(pt, false))
		}
	}()
	call := fmt.Sprintf("btc.NewPublicKey(%s)", c.Pub)
	if pan != "" {
		return verdict{key: "pubkey-parse/panic", what: call + " panics: " + pan, class: "panic", judged: true}
	}
	cl := fmt.Sprintf("%s|impl=%v", reason, got)
	if reason == "" {
		cl = fmt.Sprintf("valid|impl=%v", got)
	}
	switch {
	case got && reason != "":
		return verdict{key: "pubkey-parse/" + reason + "-accepted", class: cl, judged: true,
			what: fmt.Sprintf("%s returns a key (no error); the reference refuses the encoding (%s) [%s]", call, reason, c.Note)}
	case !got && reason == "":
		return verdict{key: "pubkey-parse/valid-rejected", class: cl, judged: true, what: call + " returns an error for a valid key [" + c.Note + "]"}
	case got && !same:
		return verdict{key: "pubkey-parse/wrong-point", class: cl, judged: true, what: call + " parses to a different point than the reference [" + c.Note + "]"}
	}
	return verdict{class: cl, judged: true}
}

func evalParseXOnly(c Case) verdict {
	k := unhx(c.Pub)
	_, want := refsecp.LiftX(refsecp.Int(k))
	reason := "valid"
	if !want {
		reason = "unliftable"
		if refsecp.Int(k).Cmp(bigP) >= 0 {
			reason = "x-ge-p"
		}
	}
	var got bool
	var pan string
	func() {
		defer func() {
			if e := recover(); e != nil {
				pan = fmt.Sprint(e)
			}
		}()
		var xy secp256k1.XY
		got = xy.ParseXOnlyPubkey(k)
	}()
	call := fmt.Sprintf("secp256k1.XY.ParseXOnlyPubkey(%s)", c.Pub)
	if pan != "" {
		return verdict{key: "xonly-parse/panic", what: call + " panics: " + pan, class: "panic", judged: true}
	}
	cl := fmt.Sprintf("%s|impl=%v", reason, got)
	if got && !want {
		return verdict{key: "xonly-parse/" + reason + "-accepted", class: cl, judged: true,
			what: fmt.Sprintf("%s returns true; BIP340 lift_x fails for this key (%s) [%s]", call, reason, c.Note)}
	}
	if !got && want {
		return verdict{key: "xonly-parse/valid-rejected", class: cl, judged: true, what: call + " returns false for a liftable key"}
	}
	return verdict{class: cl, judged: true}
}
