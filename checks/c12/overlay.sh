#!/bin/bash
# usage: overlay.sh <builddir> <overlay.json> <repo>
# Adds two virtual `//go:build verif` files to the tree under test (MERGED into the
# overlay that run.sh already wrote):
#   client/txpool/verif_hooks.go  - emulate the wall clock moving forward; read clock state
#   client/common/verif_hooks.go  - set the (unexported) mempool size limit
# Nothing under the repository is touched. If an unexported name they refer to no
# longer exists, the build of the check fails (exit 2) - loudly, never silently.
set -eu
bd="$1"; ov="$2"; repo="$3"
for f in "$repo/client/txpool/verif_hooks.go" "$repo/client/common/verif_hooks.go"; do
  if [ -e "$f" ]; then echo "overlay.sh: $f already exists in the tree" >&2; exit 1; fi
done

cat > "$bd/txpool_verif_hooks.go" <<'EOF'
//go:build verif

package txpool

import "time"

func verifBack(t *time.Time, d time.Duration) {
	if !t.IsZero() {
		*t = t.Add(-d)
	}
}

// VerifAdvanceClock emulates the wall clock moving forward by d: every time stamp
// the package holds (and compares with time.Now()) is moved back by d.
func VerifAdvanceClock(d time.Duration) {
	TxMutex.Lock()
	verifBack(&nextTxsPoolExpire, d)
	verifBack(&lastFeeAdjustedTime, d)
	verifBack(&LastSortingDone, d)
	verifBack(&RepackagingSinceLastRedoWhen, d)
	verifBack(&ResortingSinceLastRedoWhen, d)
	for _, t := range TransactionsToSend {
		verifBack(&t.Firstseen, d)
		verifBack(&t.Lastseen, d)
		verifBack(&t.Lastsent, d)
	}
	for _, t := range TransactionsRejected {
		verifBack(&t.Time, d)
	}
	TxMutex.Unlock()
}

// VerifClockState: is the hourly expiry pass due; time since the last sorting;
// time since the last minimal-fee adjustment (zero time => -1).
func VerifClockState() (expireDue bool, sinceSort, sinceFeeAdj time.Duration) {
	expireDue = !time.Now().Before(nextTxsPoolExpire)
	sinceSort, sinceFeeAdj = -1, -1
	if !LastSortingDone.IsZero() {
		sinceSort = time.Since(LastSortingDone)
	}
	if !lastFeeAdjustedTime.IsZero() {
		sinceFeeAdj = time.Since(lastFeeAdjustedTime)
	}
	return
}
EOF

cat > "$bd/common_verif_hooks.go" <<'EOF'
//go:build verif

package common

import "sync/atomic"

// VerifSetMaxMempoolSize sets the mempool size limit in bytes (Reset() only accepts >= 10 MB).
func VerifSetMaxMempoolSize(v uint64) { atomic.StoreUint64(&maxMempoolSizeBytes, v) }
EOF

cur=$(cat "$ov")
inner=${cur#\{\"Replace\":\{}
inner=${inner%\}\}*}
new="\"$repo/client/txpool/verif_hooks.go\":\"$bd/txpool_verif_hooks.go\",\"$repo/client/common/verif_hooks.go\":\"$bd/common_verif_hooks.go\""
if [ -n "$inner" ]; then new="$inner,$new"; fi
printf '{"Replace":{%s}}\n' "$new" > "$ov"
