// C12: the mempool (client/txpool) stays conflict-free, spendable and internally
// consistent.
//
// Explicit-state exploration. A state is the shortest event history that reaches
// it; every history runs in a FRESH worker process of this binary (txpool, common
// and network keep process-global state and txpool calls os.Exit) on a copy of a
// pre-built 105-block chain directory whose callbacks BlockMinedCB/BlockUndoneCB are
// wired to txpool.BlockMined/BlockUndone as client/main.go does. After every event
// the harness checks, from the exported maps and the decoded UTXO set, the
// invariants of the property; at the end of every history it additionally takes the
// fee-ordered listing (GetSortedMempoolRBF), checks "every pooled transaction once,
// parents first", assembles a block from it and requires the node's own
// CheckBlock+AcceptBlock to accept it.
//
// The wall clock and the size limit are driven through two virtual files added by
// checks/c12/overlay.sh (txpool.VerifAdvanceClock, common.VerifSetMaxMempoolSize).
package main

import (
	"bytes"
	"crypto/sha256"
	"encoding/hex"
	"encoding/json"
	"flag"
	"fmt"
	"os"
	"os/exec"
	"runtime"
	"runtime/debug"
	"sort"
	"strings"
	"sync"
	"sync/atomic"
	"time"

	"github.com/piotrnar/gocoin/client/common"
	"github.com/piotrnar/gocoin/client/txpool"
	"github.com/piotrnar/gocoin/lib/btc"
	"github.com/piotrnar/gocoin/lib/chain"

	"verif/internal/ev"
	"verif/internal/minichain"
	"verif/ref/refchain"
	"verif/ref/reftx"
)

const (
	prefixLen  = 105
	nFat       = 16
	nSpam      = 110 // > RejectRecCnt: the ring of rejected transactions wraps
	nChain     = 101 // descendants of T2: more than the 100 a replacement may evict
	nDenseFund = 204 // funding outputs of the dense-run family
	fatScript  = 95000
	lowLimit   = 500000 // bytes: the lowered size limit
	expireDays = 1
	watchdog   = 120 * time.Second
	maxBlockW  = 4000000
)

// scripts of the universe: OP_1 (true), OP_0 (false) with empty scriptSig
// (refchain.Trivial), and one P2WSH(OP_1) output spent with the witness [0x51].
var wshScript = func() []byte {
	h := sha256.Sum256([]byte{0x51})
	return append([]byte{0x00, 0x20}, h[:]...)
}()

var params = func() refchain.Params {
	p := refchain.DefaultParams()
	p.Verify = func(tx *reftx.Tx, idx int, spent []refchain.Coin, flags refchain.Flags) bool {
		if bytes.Equal(spent[idx].Script, wshScript) {
			in := tx.In[idx]
			return flags.Witness && len(in.Script) == 0 && len(in.Witness) == 1 && bytes.Equal(in.Witness[0], []byte{0x51})
		}
		return refchain.Trivial(tx, idx, spent, flags)
	}
	return p
}()

func op(tx [32]byte, v uint32) refchain.Outpoint { return refchain.Outpoint{Tx: tx, Vout: v} }
func o1(v uint64) reftx.Out                      { return reftx.Out{Value: v, Script: []byte{0x51}} }

// ---------------------------------------------------------------- prefix + universe

type prefixFile struct {
	Blocks []string `json:"blocks"`
	M      string   `json:"m"` // txid of the funding transaction (block 102)
	N      string   `json:"n"` // txid of the second funding transaction (block 103): 2 x 5e8, nDenseFund x 1e7
}

// Funding transaction M (block 102): outputs 0..3 = U1..U4 (OP_1, 5e8), 4 = U5
// (script OP_0: spending it fails), 5..5+nFat-1 = FU1.. (OP_1, 1e8), then U6 = P2WSH(OP_1), 1e8.
func buildPrefix() string {
	dir := ev.Scratch("c12-prefix")
	e := minichain.Open(dir+"/chain", &minichain.Opts{Params: params})
	prev := minichain.GenesisHash
	var pf prefixFile
	cb := make([]refchain.Outpoint, prefixLen+1)
	for h := uint32(1); h <= prefixLen; h++ {
		s := minichain.Spec{Prev: prev, Height: h, CbValue: -1}
		if h == 102 {
			outs := []reftx.Out{o1(5e8), o1(5e8), o1(5e8), o1(5e8), {Value: 1e8, Script: []byte{0x00}}}
			for i := 0; i < nFat; i++ {
				outs = append(outs, o1(1e8))
			}
			outs = append(outs, reftx.Out{Value: 1e8, Script: wshScript})
			m := minichain.Spend([]refchain.Outpoint{cb[1]}, outs)
			s.Txs = append(s.Txs, m)
			s.Fees = 50e8 - 22e8 - nFat*1e8
			pf.M = hex.EncodeToString(func() []byte { id := m.TxID(); return id[:] }())
		}
		if h == 103 { // funding of the dense-run family: two large outputs (anchors), then nDenseFund of 1e7
			outs := []reftx.Out{o1(5e8), o1(5e8)}
			for i := 0; i < nDenseFund; i++ {
				outs = append(outs, o1(1e7))
			}
			n := minichain.Spend([]refchain.Outpoint{cb[2]}, outs)
			s.Txs = append(s.Txs, n)
			s.Fees = 50e8 - 10e8 - nDenseFund*1e7
			pf.N = hex.EncodeToString(func() []byte { id := n.TxID(); return id[:] }())
		}
		b := minichain.Build(s)
		if r := e.Deliver(b.Bytes()); r != "ok" {
			ev.HarnessError("prefix block %d: %s", h, r)
		}
		cb[h] = op(b.Txs[0].TxID(), 0)
		pf.Blocks = append(pf.Blocks, hex.EncodeToString(b.Bytes()))
		prev = b.Hash()
	}
	e.Close()
	j, _ := json.Marshal(pf)
	if err := os.WriteFile(dir+"/prefix.json", j, 0o644); err != nil {
		ev.HarnessError("%v", err)
	}
	return dir
}

func decodeBlock(raw []byte) *reftx.Block {
	b := &reftx.Block{}
	le32 := func(p []byte) uint32 { return uint32(p[0]) | uint32(p[1])<<8 | uint32(p[2])<<16 | uint32(p[3])<<24 }
	b.Version = le32(raw[0:])
	copy(b.Prev[:], raw[4:36])
	copy(b.Merkle[:], raw[36:68])
	b.Time, b.Bits, b.Nonce = le32(raw[68:]), le32(raw[72:]), le32(raw[76:])
	n := int(raw[80])
	p := 81
	for i := 0; i < n; i++ {
		t, used, err := reftx.DecodeTx(raw[p:])
		if err != nil {
			panic("prefix block does not decode: " + err.Error())
		}
		b.Txs = append(b.Txs, t)
		p += used
	}
	if p != len(raw) {
		panic("prefix block decode mismatch")
	}
	return b
}

type utx struct {
	name string
	tx   *reftx.Tx
	raw  []byte
	id   [32]byte
}

type universe struct {
	by   map[string]*utx
	byID map[[32]byte]*utx
}

func (u *universe) add(name string, ins []refchain.Outpoint, outs []reftx.Out) *utx {
	t := minichain.Spend(ins, outs)
	x := &utx{name: name, tx: t, raw: t.Serialize(true), id: t.TxID()}
	if _, dup := u.byID[x.id]; dup {
		panic("universe: duplicate txid for " + name)
	}
	u.by[name] = x
	u.byID[x.id] = x
	return x
}

func buildUniverse(M, N [32]byte) *universe {
	u := &universe{by: map[string]*utx{}, byID: map[[32]byte]*utx{}}
	U := func(i int) refchain.Outpoint { return op(M, uint32(i-1)) }
	ops := func(o ...refchain.Outpoint) []refchain.Outpoint { return o }
	outs := func(o ...reftx.Out) []reftx.Out { return o }
	// fee = inputs - outputs. Plain 1-in transactions are 61 (1 out) / 71 (2 outs) bytes.
	t1 := u.add("T1", ops(U(1)), outs(o1(2e8), o1(3e8-10000)))                   // fee 10000, 71 B
	u.add("T1lo", ops(U(1)), outs(o1(5e8-5000)))                                 // lower fee rate
	u.add("T1eq", ops(U(1)), outs(o1(2e8+1), o1(3e8-10001)))                     // same size, same fee as T1
	u.add("T1hi", ops(U(1)), outs(o1(2e8+2), o1(3e8-60002)))                     // fee 60000: beats T1 and its descendants
	u.add("T1alt", ops(U(1)), outs(o1(5e8-7000)))                                // never submitted: only ever seen inside blocks
	c1 := u.add("C1", ops(op(t1.id, 0)), outs(o1(2e8-10000)))                    // child of T1
	u.add("G", ops(op(c1.id, 0)), outs(o1(2e8-10000-50000)))                     // grandchild, high fee (CPFP)
	g2 := u.add("G2", ops(op(u.by["G"].id, 0)), outs(o1(2e8-10000-50000-10000))) // fourth member of the chain T1 <- C1 <- G <- G2
	_ = g2
	u.add("L1", ops(op(t1.id, 1)), outs(o1(3e8-10000-1000)))                // leaf child on T1's second output: T1's descendants form a tree (leaf next to the chain C1 <- G <- G2)
	u.add("T1top", ops(U(1)), outs(o1(2e8+3), o1(3e8-300003)))              // fee 300000: beats T1 and the whole tree below it
	u.add("C1x", ops(op(t1.id, 0)), outs(o1(2e8-100000)))                   // replaces C1 (and G, G2): a middle member
	u.add("Gx", ops(op(c1.id, 0)), outs(o1(2e8-10000-120000)))              // replaces G (and G2)
	u.add("G2x", ops(op(u.by["G"].id, 0)), outs(o1(2e8-10000-50000-30000))) // replaces G2: the last member
	t2 := u.add("T2", ops(U(2)), outs(o1(2e8), o1(3e8-20000)))              // fee 20000
	u.add("D", ops(op(t1.id, 1), op(t2.id, 0)), outs(o1(5e8-25000)))        // diamond: T1:1 + T2:0, fee 15000
	u.add("T2hi", ops(U(2)), outs(o1(5e8-100000)))                          // double spend of T2 paying more than T2 and 101 descendants together
	prev, val := op(t2.id, 1), uint64(3e8-20000)
	for i := 1; i <= nChain; i++ { // K1..K101: a chain of descendants of T2 (more than 100)
		val -= 10000
		k := u.add(fmt.Sprint("K", i), ops(prev), outs(o1(val)))
		prev = op(k.id, 0)
	}
	x := u.add("X", ops(U(3)), outs(o1(2e8), o1(3e8-10000)))        // parent of the orphans
	o := u.add("O", ops(op(x.id, 0)), outs(o1(2e8-10000)))          // orphan when it arrives before X
	u.add("O2", ops(op(o.id, 0)), outs(o1(2e8-20000)))              // orphan of an orphan
	u.add("B", ops(U(5)), outs(o1(1e8-10000)))                      // spends the OP_0 output: script fails
	u.add("L", ops(U(4)), outs(o1(5e8-10)))                         // fee below the minimum
	u.add("R", ops(U(1), op(t1.id, 1)), outs(o1(8e8-10000-100000))) // double spend of U1 that also spends T1's own output
	// the same kind of replacement with the unconfirmed input listed BEFORE the conflicting one,
	// and one spending an output of a DESCENDANT of the transaction it replaces
	u.add("R2", ops(op(t1.id, 1), U(1)), outs(o1(8e8-10000-100001)))
	u.add("R3", ops(op(c1.id, 0), U(1)), outs(o1(7e8-10000-10000-150000)))
	// parents on different levels of the fee-ordered list: LG (low rate) -> LP2 (high rate),
	// stand-alone LP1 (rate in between), LC spends LP1 and LP2 with a rate above LG's;
	// the package rates [LG,LP2] and [LP1,LG,LP2,LC] stay below LP1's own rate
	lg := u.add("LG", ops(U(2)), outs(o1(2e8), o1(3e8-10000)))                      // 71 B, ~141 sat/B
	lp2 := u.add("LP2", ops(op(lg.id, 0)), outs(o1(2e8-60000)))                     // 61 B, ~980 sat/B
	lp1 := u.add("LP1", ops(U(3)), outs(o1(5e8-43000)))                             // 61 B, ~705 sat/B
	u.add("LC", ops(op(lp1.id, 0), op(lp2.id, 0)), outs(o1(7e8-43000-60000-86000))) // ~102 B, ~843 sat/B
	// side branches: TM (medium rate, 5 outputs) has the children CM2 (very high fee) and CS1/CS2/CS3 (high
	// fee); the SECOND parent of CSd sits at depth d of a chain of low-rate unconfirmed transactions SR <- SQ <- SP
	sr := u.add("SR", ops(U(3)), outs(o1(2e8), o1(3e8-100)))                             // fee 100
	sq := u.add("SQ", ops(op(sr.id, 0)), outs(o1(1e8), o1(1e8-200)))                     // fee 200
	sp := u.add("SP", ops(op(sq.id, 0)), outs(o1(5e7), o1(5e7-300)))                     // fee 300
	tm := u.add("TM", ops(U(4)), outs(o1(1e8), o1(1e8), o1(1e8), o1(1e8), o1(1e8-1000))) // fee 1000
	u.add("CM2", ops(op(tm.id, 3)), outs(o1(1e8-100000)))
	u.add("CS1", ops(op(tm.id, 0), op(sr.id, 1)), outs(o1(1e8+3e8-100-50000)))
	u.add("CS2", ops(op(tm.id, 1), op(sq.id, 1)), outs(o1(1e8+1e8-200-50000)))
	u.add("CS3", ops(op(tm.id, 2), op(sp.id, 1)), outs(o1(1e8+5e7-300-50000)))
	// multi-edges: a child spending TWO / THREE outputs of one multi-output parent, and the triangle
	// P -> C -> G plus P -> G; each once with the child paying a HIGHER rate than the parent (MP, TP
	// families) and once a LOWER one (MQ, TQ families). Funded from the last outputs of N.
	NF := func(i int) refchain.Outpoint { return op(N, uint32(2+nDenseFund-i)) }                           // NF(1) = last 1e7 output of N
	mp := u.add("MP", ops(NF(1)), outs(o1(15e5), o1(15e5), o1(15e5), o1(15e5), o1(15e5), o1(25e5-1000)))   // fee 1000 (~9 sat/B)
	u.add("MC2", ops(op(mp.id, 0), op(mp.id, 1)), outs(o1(30e5-50000)))                                    // two outputs of MP, ~490 sat/B
	u.add("MC3", ops(op(mp.id, 2), op(mp.id, 3), op(mp.id, 4)), outs(o1(45e5-60000)))                      // three outputs of MP
	u.add("MC2x", ops(op(mp.id, 0)), outs(o1(15e5-90000)))                                                 // replaces MC2
	mq := u.add("MQ", ops(NF(2)), outs(o1(15e5), o1(15e5), o1(15e5), o1(15e5), o1(15e5), o1(25e5-100000))) // fee 100000 (~900 sat/B)
	u.add("MD2", ops(op(mq.id, 0), op(mq.id, 1)), outs(o1(30e5-1000)))                                     // ~10 sat/B
	u.add("MD3", ops(op(mq.id, 2), op(mq.id, 3), op(mq.id, 4)), outs(o1(45e5-1500)))
	tp := u.add("TP", ops(NF(3)), outs(o1(3e6), o1(3e6), o1(4e6-1000))) // rates TP < TG < TC
	tc := u.add("TC", ops(op(tp.id, 0)), outs(o1(3e6-60000)))
	u.add("TG", ops(op(tc.id, 0), op(tp.id, 1)), outs(o1(6e6-60000-30000)))
	tq := u.add("TQ", ops(NF(4)), outs(o1(3e6), o1(3e6), o1(4e6-100000))) // rates TQ > TD > TH
	td := u.add("TD", ops(op(tq.id, 0)), outs(o1(3e6-5000)))
	u.add("TH", ops(op(td.id, 0), op(tq.id, 1)), outs(o1(6e6-5000-1000)))
	u.add("CLo", ops(op(u.by["T1lo"].id, 0)), outs(o1(5e8-5000-10000))) // child of the low-fee double spend
	u.add("OV", ops(U(4)), outs(o1(5e8+1)))                             // outputs exceed inputs
	wtx := u.add("W", ops(op(M, uint32(5+nFat))), outs(o1(1e8-30000)))  // segwit spend: size != stripped size
	wtx.tx.In[0].Witness = [][]byte{{0x51}}
	wtx.raw = wtx.tx.Serialize(true)
	for i := 1; i <= nSpam; i++ { // orphans whose parents never show up
		u.add(fmt.Sprint("S", i), ops(op(sha256.Sum256([]byte(fmt.Sprint("c12-unknown-parent-", i))), 0)), outs(o1(1000)))
	}
	big := make([]byte, fatScript)
	big[0] = 0x6a
	var f1 *utx
	for i := 1; i <= nFat; i++ {
		fee := uint64(20*i) * (fatScript + 100)
		f := u.add(fmt.Sprint("F", i), ops(op(M, uint32(4+i))), outs(reftx.Out{Value: 0, Script: big}, o1(1e8-fee)))
		if i == 1 {
			f1 = f
		}
	}
	u.add("CF", ops(op(f1.id, 1)), outs(o1(1e8-20*(fatScript+100)-50000000))) // child paying for the cheapest fat parent
	return u
}

// ---------------------------------------------------------------- worker protocol

type Job struct {
	Dir        string   `json:"dir"` // scratch directory of this history (created and removed by the parent)
	Prefix     string   `json:"prefix"`
	Events     []string `json:"events"`
	Menu       []string `json:"menu"`
	NotFullRBF bool     `json:"not_full_rbf"` // CFG.TXPool.NotFullRBF
}

type Step struct {
	Ev     string `json:"ev"`
	Result string `json:"result,omitempty"`
}

type Result struct {
	Harness  string   `json:"harness,omitempty"`
	Key      string   `json:"key,omitempty"`
	What     string   `json:"what,omitempty"`
	Trace    []Step   `json:"trace,omitempty"`
	StateKey string   `json:"state_key,omitempty"`
	Enabled  []string `json:"enabled,omitempty"`
	Oracles  int      `json:"oracles"`
	MaxPool  int      `json:"max_pool"`
	Blocks   int      `json:"blocks"`    // blocks assembled from the listing and accepted
	BlockTxs int      `json:"block_txs"` // ... transactions in them
	Undone   int      `json:"undone"`    // BlockUndone callbacks
	Evicted  bool     `json:"evicted"`
	Expired  bool     `json:"expired"`
	Replaced bool     `json:"replaced"`
	Orphans  bool     `json:"orphans"`
}

type harnessErr string

func hfail(f string, a ...interface{}) { panic(harnessErr(fmt.Sprintf(f, a...))) }

type violation struct{ key, what string }

func vfail(key, f string, a ...interface{}) { panic(violation{key, fmt.Sprintf(f, a...)}) }

// ---------------------------------------------------------------- worker

type world struct {
	job     *Job
	dir     string
	e       *minichain.Env
	m       *refchain.Model
	u       *universe
	res     *Result
	pos     int
	capf    *os.File // capture file for gocoin's stdout chatter (MempoolCheck report)
	undone  int
	current string
	before  map[string]bool // pool content (names) before the current event
	fundN   [32]byte        // second funding transaction
	dense   *denseRun       // the dense run of this history, once a dense: event happened
}

// A dense run: n unrelated transactions DR1..DRn of identical size (1 input, 4 outputs) whose fees
// follow a shape, optionally between a high-rate anchor DH and a low-rate anchor DL (n outputs + change each).
//
//	eq   all the same fee: each one sorts behind the previous equal ones
//	asc  strictly increasing: each one sorts in front of the previous one (behind DH if present)
//	desc strictly decreasing: each one sorts behind the previous one (in front of DL if present)
//	zig  alternately above and below, converging: each one sorts between the previous two
//
// Children (event kids): DAi spends DRi:0 and DH:i, DBi spends DRi:1 and DL:i (when the anchor exists),
// DNi (even i) spends DRi:2 and DR(i+1):3 - always one parent inside the run and one elsewhere.
type denseRun struct {
	anchors, shape string
	n              int
}

func (w *world) buildDense(anchors, shape string, n int) {
	if w.dense != nil {
		hfail("one dense run per history")
	}
	if n < 2 || n > nDenseFund-4 { // the last four outputs of N fund the multi-edge families
		hfail("dense run length %d", n)
	}
	w.dense = &denseRun{anchors, shape, n}
	hi, lo := anchors == "both" || anchors == "high", anchors == "both" || anchors == "low"
	var anch [2]*utx
	for k, nm := range []string{"DH", "DL"} {
		if k == 0 && !hi || k == 1 && !lo {
			continue
		}
		var outs []reftx.Out
		for i := 0; i < n; i++ {
			outs = append(outs, o1(1e6))
		}
		size := uint64(10 + 41 + (n+1)*10)
		fee := 1000 * size
		if k == 1 {
			fee = 2 * size
		}
		outs = append(outs, o1(5e8-uint64(n)*1e6-fee))
		anch[k] = w.u.add(nm, []refchain.Outpoint{op(w.fundN, uint32(k))}, outs)
	}
	run := make([]*utx, n)
	for i := 0; i < n; i++ {
		fee := uint64(20000)
		switch shape {
		case "eq":
		case "asc":
			fee += uint64(i) * 10
		case "desc":
			fee -= uint64(i) * 10
		case "zig":
			if i%2 == 0 {
				fee += uint64(n-i) * 10
			} else {
				fee -= uint64(n-i) * 10
			}
		default:
			hfail("unknown dense shape %q", shape)
		}
		run[i] = w.u.add(fmt.Sprint("DR", i+1), []refchain.Outpoint{op(w.fundN, uint32(2+i))},
			[]reftx.Out{o1(2400000), o1(2400000), o1(2400000), o1(1e7 - 7200000 - fee)})
	}
	for i := 0; i < n; i++ {
		if anch[0] != nil {
			w.u.add(fmt.Sprint("DA", i+1), []refchain.Outpoint{op(run[i].id, 0), op(anch[0].id, uint32(i))}, []reftx.Out{o1(3400000 - 100000)})
		}
		if anch[1] != nil {
			w.u.add(fmt.Sprint("DB", i+1), []refchain.Outpoint{op(run[i].id, 1), op(anch[1].id, uint32(i))}, []reftx.Out{o1(3400000 - 100000)})
		}
		if i%2 == 0 && i+1 < n {
			w.u.add(fmt.Sprint("DN", i+1), []refchain.Outpoint{op(run[i].id, 2), op(run[i+1].id, 3)},
				[]reftx.Out{o1(2400000 + run[i+1].tx.Out[3].Value - 5000)})
		}
	}
}

func (w *world) tip() *refchain.Node { return w.m.BestTips()[0] }

func (w *world) step(name, result string) { w.res.Trace = append(w.res.Trace, Step{name, result}) }

// name of a transaction id for messages
func (w *world) nm(id []byte) string {
	var h [32]byte
	copy(h[:], id)
	if x := w.u.byID[h]; x != nil {
		return x.name
	}
	return fmt.Sprintf("%x", id[:6])
}

func blockMined(bl *btc.Block)  { txpool.BlockMined(bl) } // client/main.go blockMined (fee statistics omitted)
func blockUndone(bl *btc.Block) { theWorld.undone++; txpool.BlockUndone(bl) }

var theWorld *world

// deliver: what the client does with a block that arrived: CheckBlock, then
// LocalAcceptBlock (BlockCommitInProgress around the commit, common.Last, script flags).
func (w *world) deliverRaw(raw []byte) string {
	bl, err := btc.NewBlock(append([]byte{}, raw...))
	if err != nil {
		return "refused: NewBlock: " + err.Error()
	}
	ch := w.e.Ch
	ch.BlockIndexAccess.Lock()
	_, later, err := ch.CheckBlock(bl)
	ch.BlockIndexAccess.Unlock()
	if err != nil {
		if later {
			return "later"
		}
		return "refused: check: " + err.Error()
	}
	bl.LastKnownHeight = bl.Height
	txpool.BlockCommitInProgress(true)
	err = ch.AcceptBlock(bl)
	txpool.BlockCommitInProgress(false)
	common.Last.Mutex.Lock()
	common.Last.Block = ch.LastBlock()
	common.Last.Time = time.Now()
	common.Last.Mutex.Unlock()
	common.UpdateScriptFlags(0)
	if err != nil {
		return "refused: accept: " + err.Error()
	}
	return "ok"
}

// deliver a block the harness (and the reference) knows to be valid.
func (w *world) deliver(name string, b *reftx.Block) {
	n := w.m.Add(b)
	if n == nil || !w.m.Valid(n) {
		hfail("reference model refuses block %s: %s", name, w.m.Why(n))
	}
	r := w.deliverRaw(b.Bytes())
	w.step("block "+name, r)
	if r != "ok" {
		hfail("valid block %s refused by the node: %s (C04/C05 domain)", name, r)
	}
	w.oracle("block " + name)
}

func (w *world) mkBlock(parent *refchain.Node, tag byte, txs []*reftx.Tx) *reftx.Block {
	u := w.m.UTXOAt(parent)
	var fees uint64
	wit := false
	for _, t := range txs {
		var in, out uint64
		for _, i := range t.In {
			c, ok := u[op(i.Prev, i.Vout)]
			if !ok {
				hfail("mkBlock: input not available")
			}
			in += c.Value
			delete(u, op(i.Prev, i.Vout))
		}
		id := t.TxID()
		for k, o := range t.Out {
			out += o.Value
			u[op(id, uint32(k))] = refchain.Coin{Value: o.Value, Script: o.Script}
		}
		fees += in - out
		if t.HasWitness() {
			wit = true
		}
	}
	return minichain.Build(minichain.Spec{Prev: parent.Hash, Height: parent.Height + 1, Tag: tag, Txs: txs, Fees: fees, CbValue: -1, Witness: wit})
}

// connectable: can the named transactions be connected, in order, on top of node n?
func (w *world) connectable(n *refchain.Node, names []string) bool {
	u := w.m.UTXOAt(n)
	for _, nm := range names {
		x := w.u.by[nm]
		for _, i := range x.tx.In {
			c, ok := u[op(i.Prev, i.Vout)]
			if !ok || !(len(c.Script) == 1 && c.Script[0] == 0x51 || bytes.Equal(c.Script, wshScript)) {
				return false
			}
			delete(u, op(i.Prev, i.Vout))
		}
		for k, o := range x.tx.Out {
			u[op(x.id, uint32(k))] = refchain.Coin{Value: o.Value, Script: o.Script}
		}
	}
	return true
}

func splitNames(s string) []string {
	if s == "" {
		return nil
	}
	return strings.Split(s, ",")
}

func (w *world) enabled() []string {
	var l []string
	for _, e := range w.job.Menu {
		ok := true
		switch {
		case strings.HasPrefix(e, "mine:") && e != "mine:best":
			ok = w.connectable(w.tip(), splitNames(e[5:]))
		case strings.HasPrefix(e, "reload-cut:"):
			ok = len(poolNames(w)) > 0
		case e == "undo", e == "undo:slow":
			ok = w.tip().Height > 103 // never below the funding blocks
		case e == "reorg2:":
			ok = w.tip().Height > 104
		case strings.HasPrefix(e, "reorg:"):
			ok = w.tip().Height > 103 && w.connectable(w.tip().Parent, splitNames(e[6:]))
		}
		if ok {
			l = append(l, e)
		}
	}
	return l
}

func reason(code byte) string {
	if code == 0 {
		return "accepted"
	}
	return txpool.ReasonToString(code)
}

func (w *world) submit(via, name string) {
	x := w.u.by[name]
	if x == nil {
		hfail("unknown transaction %q", name)
	}
	raw := append([]byte{}, x.raw...)
	tx, n := btc.NewTx(raw)
	if tx == nil || n != len(raw) {
		hfail("own transaction %s does not parse", name)
	}
	tx.SetHash(raw)
	var result string
	switch via {
	case "net", "tru": // network.ParseTxNet + main loop: NeedThisTxExt, then HandleNetTx
		why := txpool.NeedThisTxExt(&tx.Hash, func() { txpool.TransactionsPending[tx.Hash.BIdx()] = true })
		if why != 0 {
			result = fmt.Sprint("not-needed-", why)
			break
		}
		ntx := &txpool.TxRcvd{Tx: tx, Trusted: via == "tru"}
		ntx.FeedbackCB = func(r *txpool.TxRcvd, _ *txpool.OneTxToSend) { result = reason(r.Result) }
		txpool.HandleNetTx(ntx)
	case "loc": // usif.LoadRawTx
		txpool.TxMutex.Lock()
		txpool.DeleteRejectedByIdx(tx.Hash.BIdx(), false)
		txpool.TxMutex.Unlock()
		if why := txpool.NeedThisTxExt(&tx.Hash, nil); why != 0 {
			txpool.TxMutex.Lock()
			if t2s := txpool.TransactionsToSend[tx.Hash.BIdx()]; t2s != nil {
				t2s.Local = true
			}
			txpool.TxMutex.Unlock()
			result = fmt.Sprint("not-needed-", why)
			break
		}
		if txpool.SubmitLocalTx(tx, raw) {
			result = "accepted"
		} else {
			result = "rejected"
			txpool.TxMutex.Lock()
			if rr := txpool.TransactionsRejected[tx.Hash.BIdx()]; rr != nil {
				result = reason(rr.Reason)
			}
			txpool.TxMutex.Unlock()
		}
	default:
		hfail("unknown path %q", via)
	}
	if os.Getenv("C12_HEX") != "" {
		result += " raw=" + hex.EncodeToString(x.raw)
	}
	w.step(via+":"+name, result)
	if strings.Contains(result, "NO_TXOU") {
		w.res.Orphans = true
	}
}

// reloadDamaged: MempoolSave, then the file is damaged the way an interrupted save or a bad
// disk would (cut at a record-boundary class, or one byte changed where the loader must
// notice), then MempoolLoad. client/main.go ignores the result of MempoolLoad, so what it
// leaves behind IS the live pool: it must either return true with exactly the saved pool, or
// return false and leave an empty pool; the history then goes on under the normal invariants.
//
// File layout (disk.go): 32 B block hash | CompactSize version | CompactSize count | count x
// (CompactSize len, raw tx, 56 B) | CompactSize count | rejected records | "END_OF_FILE".
func (w *world) reloadDamaged(name string) {
	where := name[len("reload-cut:"):]
	saved := poolNames(w)
	txpool.TxMutex.Lock()
	nrej := len(txpool.TransactionsRejected)
	txpool.TxMutex.Unlock()
	txpool.MempoolSave(false)
	fn := common.GocoinHomeDir + txpool.MEMPOOL_FILE_NAME
	b, err := os.ReadFile(fn)
	if err != nil {
		hfail("%v", err)
	}
	cs := func(p int) (uint64, int) { // CompactSize at p
		switch b[p] {
		case 0xfd:
			return uint64(b[p+1]) | uint64(b[p+2])<<8, 3
		case 0xfe:
			return uint64(b[p+1]) | uint64(b[p+2])<<8 | uint64(b[p+3])<<16 | uint64(b[p+4])<<24, 5
		case 0xff:
			hfail("unexpected 8-byte CompactSize in %s", fn)
		}
		return uint64(b[p]), 1
	}
	p := 32
	_, n := cs(p)
	p += n
	cntPos := p
	cnt, n := cs(p)
	p += n
	if int(cnt) != len(saved) {
		hfail("%s: %d pooled records, pool has %d", fn, cnt, len(saved))
	}
	firstStart, firstEnd := p, p
	for i := 0; i < int(cnt); i++ {
		l, n := cs(p)
		p += n + int(l) + 56
		if i == 0 {
			firstEnd = p
		}
	}
	rejPos := p // CompactSize count of the rejected section
	if rc, _ := cs(rejPos); int(rc) != nrej || !bytes.HasSuffix(b, txpool.END_MARKER) {
		hfail("%s: layout not understood (rejected count %d, expected %d)", fn, rc, nrej)
	}
	flip := func(pos int, mask byte) { b[pos] ^= mask }
	switch where {
	case "hdr": // ends inside the header
		b = b[:20]
	case "txmid": // ends inside the first pooled record
		b = b[:(firstStart+firstEnd)/2]
	case "tx1": // ends after the first pooled record
		b = b[:firstEnd]
	case "sections": // ends between the pooled and the rejected section
		b = b[:rejPos]
	case "tail5": // only the tail is missing (interrupted save)
		b = b[:len(b)-5]
	case "flip-hdr": // one changed byte in the block hash
		flip(5, 0x40)
	case "flip-cnt": // ... in the count of pooled records
		flip(cntPos, 0x01)
	case "flip-rejcnt": // ... in the count of rejected records
		flip(rejPos, 0x01)
	case "flip-end": // ... in the end marker
		flip(len(b)-1, 0x20)
	default:
		hfail("unknown damage %q", where)
	}
	if err := os.WriteFile(fn, b, 0o600); err != nil {
		hfail("%v", err)
	}
	ok := txpool.MempoolLoad()
	w.step(name, fmt.Sprint("loaded=", ok))
	after := poolNames(w)
	if ok {
		if len(after) != len(saved) {
			vfail("damaged-reload/reported-success-with-a-different-pool", "after %s: MempoolLoad returned true, pool %v, saved pool was %v", name, keysOf(after), keysOf(saved))
		}
		for n := range saved {
			if !after[n] {
				vfail("damaged-reload/reported-success-with-a-different-pool", "after %s: MempoolLoad returned true, pool %v, saved pool was %v", name, keysOf(after), keysOf(saved))
			}
		}
	} else {
		txpool.TxMutex.Lock()
		left := fmt.Sprintf("TransactionsToSend=%d SpentOutputs=%d TransactionsRejected=%d WaitingForInputs=%d RejectedSpentOutputs=%d FeePackages=%d size=%d weight=%d",
			len(txpool.TransactionsToSend), len(txpool.SpentOutputs), len(txpool.TransactionsRejected), len(txpool.WaitingForInputs),
			len(txpool.RejectedSpentOutputs), len(txpool.FeePackages), txpool.TransactionsToSendSize, txpool.TransactionsToSendWeight)
		empty := len(txpool.TransactionsToSend) == 0 && len(txpool.SpentOutputs) == 0 && len(txpool.TransactionsRejected) == 0 &&
			len(txpool.WaitingForInputs) == 0 && len(txpool.RejectedSpentOutputs) == 0 && len(txpool.FeePackages) == 0 &&
			txpool.TransactionsToSendSize == 0 && txpool.TransactionsToSendWeight == 0 && txpool.BestT2S == nil && txpool.WorstT2S == nil
		txpool.TxMutex.Unlock()
		if !empty {
			vfail("damaged-reload/failed-load-leaves-a-pool-behind", "after %s: MempoolLoad returned false but left state behind (%s; pool %v, saved pool was %v)", name, left, keysOf(after), keysOf(saved))
		}
	}
	w.oracle(name)
}

func keysOf(m map[string]bool) []string {
	var l []string
	for k := range m {
		l = append(l, k)
	}
	sort.Strings(l)
	return l
}

func (w *world) submitQuiet(via, name string) string {
	n := len(w.res.Trace)
	w.submit(via, name)
	r := w.res.Trace[len(w.res.Trace)-1].Result
	w.res.Trace = w.res.Trace[:n]
	return r
}

func (w *world) event(name string) {
	w.current = name
	fmt.Fprintf(os.Stderr, "EVENT %d %s\n", w.pos, name)
	poolBefore := poolNames(w)
	w.before = poolBefore
	switch {
	case strings.HasPrefix(name, "net:"), strings.HasPrefix(name, "loc:"), strings.HasPrefix(name, "tru:"):
		w.submit(name[:3], name[4:])
		w.oracle(name)
		after := poolNames(w)
		for n := range poolBefore {
			if !after[n] {
				w.res.Replaced = true
			}
		}
	case strings.HasPrefix(name, "dense:"): // dense:<anchors>:<shape>:<n>
		f := strings.Split(name, ":")
		n := 0
		if len(f) != 4 {
			hfail("bad event %q", name)
		}
		fmt.Sscan(f[3], &n)
		w.buildDense(f[1], f[2], n)
		cnt, acc := 0, 0
		for _, nm := range []string{"DH", "DL"} {
			if w.u.by[nm] != nil {
				if w.submitQuiet("net", nm) == "accepted" {
					acc++
				}
				cnt++
			}
		}
		for i := 1; i <= n; i++ {
			if w.submitQuiet("net", fmt.Sprint("DR", i)) == "accepted" {
				acc++
			}
		}
		w.step(name, fmt.Sprint(cnt, " anchors + ", n, " run transactions, accepted ", acc))
		w.oracle(name)
	case name == "kids": // the two-parent children of the dense run
		if w.dense == nil {
			hfail("kids without a dense run")
		}
		cnt, acc := 0, 0
		for i := 1; i <= w.dense.n; i++ {
			for _, p := range []string{"DA", "DB", "DN"} {
				if nm := fmt.Sprint(p, i); w.u.by[nm] != nil {
					if w.submitQuiet("net", nm) == "accepted" {
						acc++
					}
					cnt++
				}
			}
		}
		w.step(name, fmt.Sprint(cnt, " children with two parents, accepted ", acc))
		w.oracle(name)
	case name == "fat": // F1..Fn and the child paying for F1, all from the network
		for i := 1; i <= nFat; i++ {
			w.submitQuiet("net", fmt.Sprint("F", i))
		}
		w.submitQuiet("net", "CF")
		w.step(name, fmt.Sprint(nFat, " fat transactions + child"))
		w.oracle(name)
	case name == "chain": // 101 descendants of T2, parent first
		for i := 1; i <= nChain; i++ {
			w.submitQuiet("net", fmt.Sprint("K", i))
		}
		w.step(name, fmt.Sprint(nChain, " descendants of T2"))
		w.oracle(name)
	case name == "spam": // more parent-less transactions than the ring of rejected records holds
		for i := 1; i <= nSpam; i++ {
			w.submitQuiet("net", fmt.Sprint("S", i))
		}
		w.step(name, fmt.Sprint(nSpam, " orphans"))
		w.oracle(name)
	case name == "mine:best":
		b, names := w.blockFromListing(byte(1 + w.pos))
		w.acceptListingBlock(b, names, "mine:best")
		w.oracle(name)
	case strings.HasPrefix(name, "mine:"):
		var txs []*reftx.Tx
		for _, n := range splitNames(name[5:]) {
			txs = append(txs, w.u.by[n].tx)
		}
		w.deliver(name, w.mkBlock(w.tip(), byte(1+w.pos), txs))
	case name == "undo", name == "undo:slow":
		// the operator's "undo" command (client/usif/textui undo_block): UndoLastBlock with the
		// BlockCommitInProgress bracket, or - "undo slow" - without it, i.e. while incremental
		// sorting is NOT suspended; both end with BlockCommitInProgress(false)
		t := w.tip()
		if name == "undo" {
			txpool.BlockCommitInProgress(true)
		}
		w.e.Ch.UndoLastBlock()
		txpool.BlockCommitInProgress(false)
		common.Last.Mutex.Lock()
		common.Last.Block = w.e.Ch.LastBlock()
		common.Last.Mutex.Unlock()
		common.UpdateScriptFlags(0)
		w.m.Forget(t) // the reference forgets the block: its parent is the tip again
		if got, _ := w.e.Tip(); got != w.tip().Hash || w.tip() != t.Parent {
			hfail("after %s the node's tip is not the parent of the undone block", name)
		}
		w.step(name, "")
		w.oracle(name)
	case name == "reorg2:":
		// competing branch forking two blocks below the tip: two BlockUndone callbacks, three BlockMined
		par := w.tip().Parent.Parent
		for i := 0; i < 3; i++ {
			b := w.mkBlock(par, byte(0xc0+3*w.pos+i), nil)
			w.deliver(fmt.Sprintf("%s/%d", name, i+1), b)
			par = w.m.Nodes[b.Hash()]
		}
		if w.tip() != par {
			hfail("reference: competing branch did not become best")
		}
	case strings.HasPrefix(name, "reorg:"):
		// competing branch: forks below the tip, two blocks; the second one makes the
		// node undo the tip block (BlockUndone) and connect the branch (BlockMined x2)
		var txs []*reftx.Tx
		for _, n := range splitNames(name[6:]) {
			txs = append(txs, w.u.by[n].tx)
		}
		fork := w.tip().Parent
		a := w.mkBlock(fork, byte(0x80+2*w.pos), txs)
		w.deliver(name+"/1", a)
		bn := w.m.Nodes[a.Hash()]
		b := w.mkBlock(bn, byte(0x81+2*w.pos), nil)
		w.deliver(name+"/2", b)
		if w.tip().Hash != b.Hash() {
			hfail("reference: competing branch did not become best")
		}
	case name == "adv13h":
		txpool.VerifAdvanceClock(13 * time.Hour)
		w.step(name, "")
		w.oracle(name)
	case name == "tick":
		n := len(poolBefore)
		txpool.Tick()
		w.step(name, "")
		w.oracle(name)
		if len(poolNames(w)) < n {
			w.res.Expired = true
		}
	case name == "limit": // the size limit is lowered, then the periodic tick
		n := len(poolBefore)
		common.VerifSetMaxMempoolSize(lowLimit)
		txpool.Tick()
		w.step(name, "")
		w.oracle(name)
		if len(poolNames(w)) < n {
			w.res.Evicted = true
		}
	case name == "resize": // the operator changes TXPool.RejectRecCnt (100 <-> 150); the next tick resizes the ring
		nv := uint16(150)
		if len(txpool.TRIdxArray) == 150 {
			nv = 100
		}
		common.Set(&common.CFG.TXPool.RejectRecCnt, nv)
		txpool.Tick()
		w.step(name, fmt.Sprint("ring=", nv))
		w.oracle(name)
	case name == "reload": // MempoolSave at shutdown, MempoolLoad at the next start
		txpool.MempoolSave(false)
		ok := txpool.MempoolLoad()
		w.step(name, fmt.Sprint("loaded=", ok))
		if !ok {
			vfail("reload-failed", "MempoolLoad refused the file MempoolSave had just written")
		}
		w.oracle(name)
	case strings.HasPrefix(name, "reload-cut:"):
		w.reloadDamaged(name)
	case name == "list": // somebody asks for the fee-ordered listing (getmp, web UI, miner)
		// the plain listing first: while the sorted list is dirty it is computed from scratch
		// (GetSortedMempoolSlow) without touching the linked list the RBF listing then rebuilds
		txpool.TxMutex.Lock()
		l0 := txpool.GetSortedMempool()
		txpool.TxMutex.Unlock()
		w.checkListing(l0, "GetSortedMempool", name)
		txpool.TxMutex.Lock()
		l := txpool.GetSortedMempoolRBF()
		txpool.TxMutex.Unlock()
		w.checkListing(l, "GetSortedMempoolRBF", name)
		nf := w.checkFeeList(name)
		w.step(name, fmt.Sprint(len(l), " txs, ", nf, " fee records"))
		w.oracle(name)
	default:
		hfail("unknown event %q", name)
	}
	w.pos++
	w.current = ""
}

func poolNames(w *world) map[string]bool {
	m := map[string]bool{}
	txpool.TxMutex.Lock()
	for _, t := range txpool.TransactionsToSend {
		m[w.nm(t.Hash.Hash[:])] = true
	}
	txpool.TxMutex.Unlock()
	return m
}

// ---------------------------------------------------------------- oracle

// confirmed: txid -> true for every transaction of the active chain (reference).
func (w *world) confirmed() map[[32]byte]bool {
	c := map[[32]byte]bool{}
	for _, n := range w.m.Path(w.tip()) {
		if n.Height <= prefixLen {
			continue
		}
		for _, t := range n.Block.Txs[1:] {
			c[t.TxID()] = true
		}
	}
	return c
}

// oracle: the non-mutating part, after every event.
func (w *world) oracle(after string) {
	w.res.Oracles++
	utxoSet := w.e.UTXO()
	want := w.m.UTXOAt(w.tip())
	same := len(want) == len(utxoSet)
	for o, c := range want {
		g, ok := utxoSet[o]
		if !ok || g.Value != c.Value || g.Height != c.Height || g.Coinbase != c.Coinbase || !bytes.Equal(g.Script, c.Script) {
			same = false
		}
	}
	if !same {
		hfail("after %s: node's UTXO set differs from the reference replay (C06 domain)", after)
	}
	conf := w.confirmed()

	txpool.TxMutex.Lock()
	defer txpool.TxMutex.Unlock()
	if n := len(txpool.TransactionsToSend); n > w.res.MaxPool {
		w.res.MaxPool = n
	}
	type pooled struct {
		name string
		t    *txpool.OneTxToSend
		ref  *reftx.Tx
	}
	pool := map[[32]byte]*pooled{}
	var names []string
	for bidx, t := range txpool.TransactionsToSend {
		if t == nil || t.Tx == nil {
			vfail("pool-nil-entry", "after %s: TransactionsToSend holds a nil entry", after)
		}
		if bidx != t.Hash.BIdx() {
			vfail("pool-index-mismatch", "after %s: TransactionsToSend key does not match the transaction %s", after, w.nm(t.Hash.Hash[:]))
		}
		rt, used, err := reftx.DecodeTx(t.Raw)
		if err != nil || used != len(t.Raw) {
			vfail("pool-raw-undecodable", "after %s: raw bytes of pooled %s do not decode", after, w.nm(t.Hash.Hash[:]))
		}
		id := rt.TxID()
		if id != t.Hash.Hash {
			vfail("pool-txid-mismatch", "after %s: pooled transaction's Hash differs from the hash of its bytes", after)
		}
		pool[id] = &pooled{w.nm(id[:]), t, rt}
		names = append(names, w.nm(id[:]))
	}
	sort.Strings(names)
	sorted := make([]*pooled, 0, len(pool))
	for _, p := range pool {
		sorted = append(sorted, p)
	}
	sort.Slice(sorted, func(i, j int) bool { return sorted[i].name < sorted[j].name })

	spender := map[refchain.Outpoint]string{}
	var totW uint64
	for _, p := range sorted {
		// nothing pooled duplicates the active chain
		if conf[p.ref.TxID()] {
			vfail("pool-tx-already-confirmed", "after %s: %s is in the pool and in the active chain; pool=%v", after, p.name, names)
		}
		var insum, outsum uint64
		for i, in := range p.ref.In {
			o := op(in.Prev, in.Vout)
			// no two pooled transactions spend the same output
			if other, dup := spender[o]; dup {
				vfail("pool-double-spend", "after %s: %s and %s both spend %s:%d; pool=%v", after, other, p.name, w.nm(in.Prev[:]), in.Vout, names)
			}
			spender[o] = p.name
			// every input: an unspent confirmed output or an output of a pooled transaction
			var val uint64
			par, inPool := pool[in.Prev]
			c, inUtxo := utxoSet[o]
			switch {
			case inPool && int(in.Vout) < len(par.ref.Out):
				val = par.ref.Out[in.Vout].Value
			case inUtxo:
				val = c.Value
			default:
				// name the structural cause, so that different defects get different keys
				rel := "other"
				parent := w.nm(in.Prev[:])
				conflictsWithParent := false
				if pu := w.u.byID[in.Prev]; pu != nil {
					for _, pin := range pu.tx.In {
						for _, cin := range p.ref.In {
							if pin.Prev == cin.Prev && pin.Vout == cin.Vout {
								conflictsWithParent = true
							}
						}
					}
				}
				switch {
				case conflictsWithParent:
					// one structural cause whatever the path: no event class in the key
					vfail("pool-input-missing/tx-double-spends-its-own-parent", "after %s: pooled %s spends %s:%d and also an input of %s itself (it replaced its own parent); input %d is now neither unspent in the chain nor an output of a pooled transaction; pool=%v",
						after, p.name, parent, in.Vout, parent, i, names)
				case conf[in.Prev]:
					rel = "output-spent-by-the-chain"
				case w.before[parent] && !w.before[p.name]:
					rel = "new-tx-spends-output-of-tx-removed-by-the-same-event"
				case w.before[parent] && w.before[p.name]:
					rel = "parent-removed-child-kept"
				case !w.before[p.name]:
					rel = "new-tx-with-unknown-parent"
				}
				vfail("pool-input-missing/"+evClass(w.current)+"/"+rel, "after %s: input %d of pooled %s (%s:%d) is neither unspent in the chain nor an output of a pooled transaction; pool=%v",
					after, i, p.name, parent, in.Vout, names)
			}
			insum += val
			// index of spent outputs
			if owner, ok := txpool.SpentOutputs[btc.UIdx(in.Prev[:], in.Vout)]; !ok || owner != p.t.Hash.BIdx() {
				vfail("spentoutputs-inconsistent", "after %s: SpentOutputs has no / a wrong record for input %d of %s", after, i, p.name)
			}
			// MemInputs flags
			mi := p.t.MemInputs != nil && p.t.MemInputs[i]
			if mi != inPool {
				vfail("meminputs-flag-wrong", "after %s: %s input %d (%s:%d): MemInputs flag is %v but parent-in-pool is %v; pool=%v", after, p.name, i, w.nm(in.Prev[:]), in.Vout, mi, inPool, names)
			}
		}
		for _, o := range p.ref.Out {
			outsum += o.Value
		}
		// recorded fee / size / weight are exact
		if insum < outsum || p.t.Fee != insum-outsum {
			vfail("fee-mismatch", "after %s: %s recorded Fee %d, exact fee is %d", after, p.name, p.t.Fee, int64(insum)-int64(outsum))
		}
		if p.t.Volume != insum {
			vfail("volume-mismatch", "after %s: %s recorded Volume %d, inputs total %d", after, p.name, p.t.Volume, insum)
		}
		if int(p.t.Tx.Size) != p.ref.Size() || int(p.t.Tx.NoWitSize) != p.ref.BaseSize() {
			vfail("size-mismatch", "after %s: %s recorded Size/NoWitSize %d/%d, exact %d/%d", after, p.name, p.t.Tx.Size, p.t.Tx.NoWitSize, p.ref.Size(), p.ref.BaseSize())
		}
		if p.t.Weight() != p.ref.Weight() || p.t.VSize() != p.ref.VSize() {
			vfail("weight-mismatch", "after %s: %s Weight/VSize %d/%d, exact %d/%d", after, p.name, p.t.Weight(), p.t.VSize(), p.ref.Weight(), p.ref.VSize())
		}
		totW += uint64(p.ref.Weight())
	}
	if len(txpool.SpentOutputs) != len(spender) {
		vfail("spentoutputs-inconsistent", "after %s: SpentOutputs has %d records, pooled transactions have %d inputs; pool=%v", after, len(txpool.SpentOutputs), len(spender), names)
	}
	if txpool.TransactionsToSendWeight != totW {
		vfail("total-weight-mismatch", "after %s: TransactionsToSendWeight %d, exact %d", after, txpool.TransactionsToSendWeight, totW)
	}
	// the package's own checker
	w.capf.Truncate(0)
	w.capf.Seek(0, 0)
	bad := txpool.MempoolCheck()
	if bad {
		out, _ := os.ReadFile(w.capf.Name())
		lines := strings.Split(strings.TrimSpace(string(out)), "\n")
		vfail("mempoolcheck/"+classifyCheck(lines), "after %s: MempoolCheck() reports: %s; pool=%v", after, w.humanize(strings.Join(head(lines, 4), " | ")), names)
	}
}

func head(l []string, n int) []string {
	if len(l) > n {
		return l[:n]
	}
	return l
}

// classifyCheck maps MempoolCheck's first report line to a stable class.
func classifyCheck(lines []string) string {
	if len(lines) == 0 {
		return "unknown"
	}
	l := lines[0]
	for _, c := range []struct{ sub, class string }{
		{"mismatch footprint", "footprint"}, {"does not seem to be clean", "not-clean"}, {"TransactionsToSendSize mismatch", "size-total"},
		{"TransactionsRejectedSize mismatch", "rejected-size-total"}, {"WaitingForInputsSize mismatch", "waiting-size-total"},
		{"also present in TransactionsRejected", "pooled-and-rejected"}, {"mismatch in SpentOutputs", "spentoutputs"}, {"is not in SpentOutputs", "spentoutputs"},
		{"MemInputs==nil but input is in mempool", "meminputs"}, {"MemInput set but input NOT in mempool", "meminputs"}, {"MemInput NOT set but input IS in mempool", "meminputs"},
		{"has no valid input in UTXO db", "input-not-in-utxo"}, {"all false values", "meminputs"}, {"incorrect MemInputCnt", "meminputs"},
		{"does not have tx in mempool", "spentoutputs"}, {"SpentOutputs length mismatch", "spentoutputs"}, {"TRIdxArray", "rejected-ring"},
		{"WaitingForInput", "waiting-list"}, {"RejectedSpentOutputs", "rejected-spent-outputs"}, {"checkFeeList failed", "fee-packages"},
		{"TransactionsRejected count mismatch", "rejected-ring"}, {"TxR", "rejected-record"}, {"broken size", "size"},
	} {
		if strings.Contains(l, c.sub) {
			return c.class
		}
	}
	return "other"
}

// humanize replaces transaction ids of the universe by their names.
func (w *world) humanize(s string) string {
	for _, x := range w.u.by {
		var rev [32]byte
		for i := range rev {
			rev[i] = x.id[31-i]
		}
		s = strings.ReplaceAll(s, hex.EncodeToString(rev[:]), x.name)
	}
	return s
}

func (w *world) checkListing(l []*txpool.OneTxToSend, fn, after string) []string {
	txpool.TxMutex.Lock()
	defer txpool.TxMutex.Unlock()
	pos := map[[32]byte]int{}
	var names []string
	for i, t := range l {
		if t == nil {
			vfail("listing-nil-entry/"+fn, "after %s: %s returned a nil entry", after, fn)
		}
		if _, dup := pos[t.Hash.Hash]; dup {
			vfail("listing-duplicate/"+fn, "after %s: %s lists %s twice", after, fn, w.nm(t.Hash.Hash[:]))
		}
		pos[t.Hash.Hash] = i
		names = append(names, w.nm(t.Hash.Hash[:]))
		if cur := txpool.TransactionsToSend[t.Hash.BIdx()]; cur != t {
			vfail("listing-not-pooled/"+fn, "after %s: %s lists %s which is not (that entry) in the pool; listing=%v", after, fn, w.nm(t.Hash.Hash[:]), names)
		}
	}
	for _, t := range txpool.TransactionsToSend {
		if _, ok := pos[t.Hash.Hash]; !ok {
			vfail("listing-missing-tx/"+fn, "after %s: %s omits pooled %s; listing=%v", after, fn, w.nm(t.Hash.Hash[:]), names)
		}
	}
	lspent := map[refchain.Outpoint]string{}
	for _, t := range l {
		for _, in := range t.TxIn {
			o := op(in.Input.Hash, in.Input.Vout)
			if other, dup := lspent[o]; dup {
				vfail("listing-double-spend/"+fn, "after %s: %s lists %s and %s which spend the same output; listing=%v", after, fn, other, w.nm(t.Hash.Hash[:]), names)
			}
			lspent[o] = w.nm(t.Hash.Hash[:])
		}
	}
	for i, t := range l {
		for _, in := range t.TxIn {
			if p, ok := pos[in.Input.Hash]; ok && p > i {
				vfail("listing-child-before-parent/"+fn, "after %s: %s lists %s (position %d) before its parent %s (position %d); listing=%v",
					after, fn, w.nm(t.Hash.Hash[:]), i, w.nm(in.Input.Hash[:]), p, names)
			}
		}
	}
	return names
}

// checkFeeList: GetMempoolFees (fee statistics of the web UI / fee estimation, called as
// client/usif does): every listed transaction is (that entry) in the pool, none is listed
// twice, no two listed transactions spend the same output, and Fee / Weight of every record
// equal the sums over its members.
func (w *world) checkFeeList(after string) int {
	txpool.TxMutex.Lock()
	defer txpool.TxMutex.Unlock()
	recs := txpool.GetMempoolFees(txpool.TransactionsToSendWeight)
	seen := map[[32]byte]bool{}
	spent := map[refchain.Outpoint]string{}
	for ri, r := range recs {
		var fee, wgt uint64
		var names []string
		for _, t := range r.Txs {
			if t == nil {
				vfail("feelist-nil-entry", "after %s: GetMempoolFees record %d holds a nil transaction", after, ri)
			}
			nm := w.nm(t.Hash.Hash[:])
			names = append(names, nm)
			if cur := txpool.TransactionsToSend[t.Hash.BIdx()]; cur != t {
				vfail("feelist-not-pooled", "after %s: GetMempoolFees record %d %v lists %s which is not (that entry) in the pool", after, ri, names, nm)
			}
			if seen[t.Hash.Hash] {
				vfail("feelist-duplicate", "after %s: GetMempoolFees lists %s twice", after, nm)
			}
			seen[t.Hash.Hash] = true
			for _, in := range t.TxIn {
				o := op(in.Input.Hash, in.Input.Vout)
				if other, dup := spent[o]; dup {
					vfail("feelist-double-spend", "after %s: GetMempoolFees lists %s and %s which spend the same output", after, other, nm)
				}
				spent[o] = nm
			}
			fee += t.Fee
			wgt += uint64(t.Weight())
		}
		if r.Fee != fee || r.Weight != wgt {
			vfail("feelist-fee-weight-mismatch", "after %s: GetMempoolFees record %v reports Fee/Weight %d/%d, its members sum to %d/%d", after, names, r.Fee, r.Weight, fee, wgt)
		}
	}
	return len(recs)
}

// blockFromListing: what a miner does with the fee-ordered listing: take
// transactions in that order while they fit (a transaction is skipped when it does
// not fit or one of its pooled parents was skipped); coinbase claims subsidy plus the
// RECORDED fees.
func (w *world) blockFromListing(tag byte) (*reftx.Block, []string) {
	txpool.TxMutex.Lock()
	l0 := txpool.GetSortedMempool()
	txpool.TxMutex.Unlock()
	w.checkListing(l0, "GetSortedMempool", w.current+"(listing)")
	txpool.TxMutex.Lock()
	l := txpool.GetSortedMempoolRBF()
	txpool.TxMutex.Unlock()
	w.checkListing(l, "GetSortedMempoolRBF", w.current+"(listing)")
	txpool.TxMutex.Lock()
	inPool := map[[32]byte]bool{}
	for _, t := range l {
		inPool[t.Hash.Hash] = true
	}
	taken := map[[32]byte]bool{}
	var txs []*reftx.Tx
	var names []string
	var fees uint64
	weight := 4000
	for _, t := range l {
		ok := weight+t.Weight() <= maxBlockW
		for _, in := range t.TxIn {
			if inPool[in.Input.Hash] && !taken[in.Input.Hash] {
				ok = false
			}
		}
		if !ok {
			continue
		}
		rt, _, err := reftx.DecodeTx(t.Raw)
		if err != nil {
			txpool.TxMutex.Unlock()
			vfail("pool-raw-undecodable", "raw bytes of listed %s do not decode", w.nm(t.Hash.Hash[:]))
		}
		taken[t.Hash.Hash] = true
		txs = append(txs, rt)
		names = append(names, w.nm(t.Hash.Hash[:]))
		fees += t.Fee
		weight += t.Weight()
	}
	txpool.TxMutex.Unlock()
	t := w.tip()
	wit := false
	for _, x := range txs {
		if x.HasWitness() {
			wit = true
		}
	}
	b := minichain.Build(minichain.Spec{Prev: t.Hash, Height: t.Height + 1, Tag: tag, Txs: txs, Fees: fees, CbValue: -1, Witness: wit})
	return b, names
}

func refusalClass(r string) string {
	for _, c := range []struct{ sub, class string }{
		{"Unknown input", "unknown-input"}, {"already spent", "input-already-spent"}, {"double spend", "double-spend-in-block"},
		{"VerifyScripts failed", "script-failed"}, {"out:", "coinbase-claims-too-much"}, {"more spent", "tx-overspends"},
		{"prematured", "immature-coinbase"}, {"weight", "too-heavy"}, {"sigops", "sigops"}, {"Merkle", "merkle"},
	} {
		if strings.Contains(r, c.sub) {
			return c.class
		}
	}
	return "other"
}

// acceptListingBlock: the node's own validation must accept the block assembled
// from its listing.
func (w *world) acceptListingBlock(b *reftx.Block, names []string, what string) {
	n := w.m.Add(b)
	refOK := n != nil && w.m.Valid(n)
	why := ""
	if n != nil && !refOK {
		why = w.m.Why(n)
	}
	r := w.deliverRaw(b.Bytes())
	w.step(what+" "+strings.Join(names, ","), r)
	if r != "ok" {
		if n != nil && !refOK {
			w.m.Forget(n)
		}
		vfail("block-from-listing-refused/"+refusalClass(r), "%s: block assembled from GetSortedMempoolRBF [%s] is refused by the node: %s (reference: valid=%v %s)",
			what, strings.Join(names, ","), w.humanize(r), refOK, why)
	}
	if !refOK {
		hfail("%s: node accepted a block the reference finds invalid (%s) (C04 domain)", what, why)
	}
	w.res.Blocks++
	w.res.BlockTxs += len(names)
}

// stateKey: canonical key K (everything that determines the future): chain part
// (confirmed universe transactions, those of the tip block), every pooled
// transaction with its flags and age bucket, rejected records with reason, dirty
// flags, sorted-list order and fee packages when they are valid, clock buckets,
// dynamic minimal fee, size limit.
func (w *world) stateKey() string {
	var sb strings.Builder
	conf := w.confirmed()
	var cn []string
	for id := range conf {
		cn = append(cn, w.nm(id[:]))
	}
	sort.Strings(cn)
	var tn []string
	if t := w.tip(); t.Height > prefixLen {
		for _, tx := range t.Block.Txs[1:] {
			id := tx.TxID()
			tn = append(tn, w.nm(id[:]))
		}
	}
	fmt.Fprintf(&sb, "conf=%v tip=%v", cn, tn)
	txpool.TxMutex.Lock()
	defer txpool.TxMutex.Unlock()
	bucket := func(t time.Time) int {
		if t.IsZero() {
			return -1
		}
		return int((time.Since(t) + time.Hour) / (13 * time.Hour))
	}
	var pl []string
	for _, t := range txpool.TransactionsToSend {
		mi := ""
		for _, b := range t.MemInputs {
			if b {
				mi += "1"
			} else {
				mi += "0"
			}
		}
		pl = append(pl, fmt.Sprintf("%s:l%v:f%v:m%s:a%d:b%d", w.nm(t.Hash.Hash[:]), t.Local, t.Final, mi, bucket(t.Lastseen), t.Blocked))
	}
	sort.Strings(pl)
	fmt.Fprintf(&sb, " pool=%v", pl)
	var rl []string
	for _, r := range txpool.TransactionsRejected {
		w4 := ""
		if r.Waiting4 != nil {
			w4 = w.nm(r.Waiting4.Hash[:])
		}
		rl = append(rl, fmt.Sprintf("%s:%s:%s:%v", w.nm(r.Id.Hash[:]), txpool.ReasonToString(r.Reason), w4, r.Tx != nil))
	}
	sort.Strings(rl)
	fmt.Fprintf(&sb, " rej=%v pend=%d ring=%d", rl, len(txpool.TransactionsPending), len(txpool.TRIdxArray))
	fmt.Fprintf(&sb, " sortdirty=%v pkgdirty=%v", txpool.SortListDirty, txpool.FeePackagesDirty)
	if !txpool.SortListDirty {
		var o []string
		for _, t := range txpool.GetSortedMempool() {
			o = append(o, w.nm(t.Hash.Hash[:]))
		}
		fmt.Fprintf(&sb, " order=%v", o)
	}
	if !txpool.FeePackagesDirty {
		var ps []string
		for _, p := range txpool.FeePackages {
			var o []string
			// root first, then the members as a set: the order of siblings inside a package comes
			// from Go map iteration in GetChildren (not owned by the harness); order validity is
			// what the listing oracle checks
			for _, t := range p.Txs {
				o = append(o, w.nm(t.Hash.Hash[:]))
			}
			if len(o) > 1 {
				sort.Strings(o[1:])
			}
			ps = append(ps, strings.Join(o, "+"))
		}
		sort.Strings(ps)
		fmt.Fprintf(&sb, " pkgs=%v", ps)
	}
	due, sinceSort, sinceAdj := txpool.VerifClockState()
	fmt.Fprintf(&sb, " expdue=%v sorted10m=%v feeadj1m=%v minfee=%d adj=%d limit=%d", due, sinceSort >= 0 && sinceSort <= 10*time.Minute,
		sinceAdj >= 0 && sinceAdj <= time.Minute, common.MinFeePerKB(), txpool.CurrentFeeAdjustedSPKB, common.MaxMempoolSize())
	return sb.String()
}

func runJob(job *Job) (res *Result) {
	res = &Result{}
	w := &world{job: job, res: res}
	theWorld = w
	w.dir = job.Dir
	if w.dir == "" {
		hfail("job without scratch directory")
	}
	defer func() {
		if r := recover(); r != nil {
			switch x := r.(type) {
			case harnessErr:
				res.Harness = string(x)
			case violation:
				res.Key, res.What = x.key, x.what
			default:
				st := string(debug.Stack())
				msg := fmt.Sprint(r)
				if fn := gocoinFrame(st); fn != "" {
					res.Key, res.What = "panic/"+fn, fmt.Sprintf("panic inside event %q: %s", w.current, msg)
				} else {
					res.Harness = "harness panic: " + msg + "\n" + st
				}
			}
		}
	}()
	raw, err := os.ReadFile(job.Prefix + "/prefix.json")
	if err != nil {
		hfail("%v", err)
	}
	var pf prefixFile
	if err := json.Unmarshal(raw, &pf); err != nil {
		hfail("%v", err)
	}
	w.m = refchain.New(params, minichain.GenesisHash, minichain.GenesisTime, minichain.PowBits)
	for _, hx := range pf.Blocks {
		b, _ := hex.DecodeString(hx)
		n := w.m.Add(decodeBlock(b))
		if n == nil || !w.m.Valid(n) {
			hfail("reference refuses a prefix block")
		}
	}
	var M [32]byte
	mb, _ := hex.DecodeString(pf.M)
	copy(M[:], mb)
	nb, _ := hex.DecodeString(pf.N)
	copy(w.fundN[:], nb)
	w.u = buildUniverse(M, w.fundN)
	ev.CopyDir(job.Prefix+"/chain", w.dir+"/d")

	// ---- environment the client's init code would set up (common.InitConfig is not called)
	common.GocoinHomeDir = w.dir + "/d/"
	common.Testnet = false
	common.CFG.TXPool.Enabled = true
	common.CFG.TXPool.AllowMemInputs = true
	common.CFG.TXPool.FeePerByte = 1.0 // 1 sat/byte
	common.CFG.TXPool.MaxTxWeight = 400e3
	common.CFG.TXPool.MaxSizeMB = 500
	common.CFG.TXPool.ExpireInDays = expireDays
	common.CFG.TXPool.MaxRejectMB = 25.0
	common.CFG.TXPool.MaxNoUtxoMB = 5.0
	common.CFG.TXPool.RejectRecCnt = 100
	common.CFG.TXPool.SaveOnDisk = true
	common.CFG.TXPool.NotFullRBF = job.NotFullRBF
	common.CFG.TXRoute.Enabled = true
	common.CFG.TXRoute.FeePerByte = 0.1
	common.CFG.TXRoute.MaxTxWeight = 400e3
	common.CFG.Memory.GCPercTrshold = 100
	common.CFG.Memory.SyncCacheSize = 500
	common.CFG.WebUI.AllowedIP = "127.0.0.1"
	common.Reset() // derives TxExpireAfter, fee floors, size limits from CFG (BlockChain is still nil)
	debug.SetGCPercent(-1)

	w.e = minichain.Open(w.dir+"/d", &minichain.Opts{Params: params,
		ChainOpts: chain.NewChanOpts{BlockMinedCB: blockMined, BlockUndoneCB: blockUndone, DoNotRescan: true}})
	if tip, _ := w.e.Tip(); tip != w.tip().Hash {
		hfail("prefix directory tip differs from the reference")
	}
	common.BlockChain = w.e.Ch
	common.Last.Block = w.e.Ch.LastBlock()
	common.Last.Time = time.Now()
	common.UpdateScriptFlags(0)
	txpool.InitMempool()

	cf, err := os.Create(w.dir + "/stdout.txt")
	if err != nil {
		hfail("%v", err)
	}
	w.capf = cf
	os.Stdout = cf // gocoin's chatter (incl. MempoolCheck's report) goes here

	w.oracle("start")
	for _, name := range job.Events {
		ok := false
		for _, e := range w.enabled() {
			if e == name {
				ok = true
			}
		}
		if !ok {
			hfail("event %s is not enabled here", name)
		}
		w.event(name)
	}
	res.StateKey = w.stateKey()
	res.Enabled = w.enabled()
	res.Undone = w.undone
	// ---- terminal check of this state (the process ends afterwards): the listings, and a block assembled from the RBF listing
	w.current = "final"
	fmt.Fprintln(os.Stderr, "EVENT final")
	txpool.TxMutex.Lock()
	l1 := txpool.GetSortedMempool()
	txpool.TxMutex.Unlock()
	w.checkListing(l1, "GetSortedMempool", "final")
	w.checkFeeList("final")
	b, names := w.blockFromListing(0x7f)
	w.acceptListingBlock(b, names, "final block-from-listing")
	w.oracle("final block-from-listing")
	return res
}

func gocoinFrame(stack string) string {
	seenPanic := false
	for _, l := range strings.Split(stack, "\n") {
		if strings.HasPrefix(l, "panic(") {
			seenPanic = true
			continue
		}
		if !seenPanic || strings.HasPrefix(l, "\t") || strings.HasPrefix(l, "runtime.") || strings.HasPrefix(l, "runtime/") || l == "" {
			continue
		}
		if strings.HasPrefix(l, "github.com/piotrnar/gocoin/") {
			fn := l[len("github.com/piotrnar/gocoin/"):]
			if p := strings.LastIndexByte(fn, '('); p > 0 {
				fn = fn[:p]
			}
			return fn
		}
		return ""
	}
	return ""
}

func workerMain() {
	out := minichain.Quiet()
	debug.SetGCPercent(-1)
	debug.SetMemoryLimit(3 << 30)
	var job Job
	if err := json.NewDecoder(os.Stdin).Decode(&job); err != nil {
		fmt.Fprintln(os.Stderr, "worker: bad job:", err)
		os.Exit(3)
	}
	res := runJob(&job)
	b, _ := json.Marshal(res)
	out.Write(append(b, '\n'))
	os.Exit(0)
}

// ---------------------------------------------------------------- parent

var workerCPU int64

// runWorker executes one history in a fresh process and classifies its death.
func runWorker(job *Job) *Result {
	// the scratch directory belongs to the parent: it disappears even when the worker
	// dies inside gocoin (os.Exit, fatal error, watchdog kill)
	job.Dir = ev.Scratch("c12w")
	defer os.RemoveAll(job.Dir)
	in, _ := json.Marshal(job)
	cmd := exec.Command(os.Args[0], "--worker")
	cmd.Env = append(os.Environ(), "GOMAXPROCS=1")
	cmd.Stdin = bytes.NewReader(in)
	var so, se bytes.Buffer
	cmd.Stdout, cmd.Stderr = &so, &se
	if err := cmd.Start(); err != nil {
		return &Result{Harness: "cannot start worker: " + err.Error()}
	}
	done := make(chan error, 1)
	go func() { done <- cmd.Wait() }()
	select {
	case err := <-done:
		if cmd.ProcessState != nil {
			atomic.AddInt64(&workerCPU, int64(cmd.ProcessState.UserTime()+cmd.ProcessState.SystemTime()))
		}
		if os.Getenv("C12_STDERR") != "" {
			os.Stderr.Write(se.Bytes())
		}
		var res Result
		if err == nil && json.Unmarshal(so.Bytes(), &res) == nil {
			return &res
		}
		stderr := se.String()
		inflight := "?"
		if i := strings.LastIndex(stderr, "EVENT "); i >= 0 {
			inflight = strings.TrimSpace(strings.SplitN(stderr[i+6:], "\n", 2)[0])
			if p := strings.IndexByte(inflight, ' '); p >= 0 {
				inflight = inflight[p+1:]
			}
		}
		evClass := inflight
		if p := strings.IndexByte(evClass, ':'); p >= 0 {
			evClass = evClass[:p]
		}
		if i := strings.Index(stderr, "panic: "); i >= 0 {
			msg := stderr[i:]
			first := msg
			if j := strings.IndexByte(first, '\n'); j > 0 {
				first = first[:j]
			}
			if fn := gocoinFrameFatal(msg); fn != "" {
				return &Result{Key: "panic/" + fn, What: fmt.Sprintf("worker died inside event %q: %s", inflight, first)}
			}
			return &Result{Harness: "worker panic outside gocoin: " + tail(stderr, 1500)}
		}
		if i := strings.Index(stderr, "fatal error: "); i >= 0 {
			return &Result{Key: "fatal/" + evClass, What: fmt.Sprintf("worker died inside event %q: %s", inflight, tail(stderr[i:], 300))}
		}
		code := -1
		if ee, ok := err.(*exec.ExitError); ok {
			code = ee.ExitCode()
		}
		if code == 3 || err == nil {
			return &Result{Harness: "worker: " + tail(stderr, 500) + tail(so.String(), 200)}
		}
		// os.Exit inside gocoin: name it by the last ERROR line it printed
		class := "unknown"
		lines := strings.Split(strings.TrimSpace(stderr), "\n")
		for i := len(lines) - 1; i >= 0; i-- {
			if strings.HasPrefix(lines[i], "ERROR: ") {
				class = strings.TrimSuffix(strings.Fields(lines[i][7:])[0], ":")
				break
			}
		}
		return &Result{Key: fmt.Sprintf("os-exit-%d/%s/%s", code, class, evClass), What: fmt.Sprintf("worker exited with code %d inside event %q: %s", code, inflight, tail(stderr, 300))}
	case <-time.After(watchdog):
		cmd.Process.Kill()
		<-done
		return &Result{Key: "hang", What: fmt.Sprintf("history did not finish within %v", watchdog)}
	}
}

func tail(s string, n int) string {
	if len(s) > n {
		return s[len(s)-n:]
	}
	return s
}

func gocoinFrameFatal(dump string) string {
	i := strings.Index(dump, "[running]:")
	if i < 0 {
		return ""
	}
	for _, l := range strings.Split(dump[i:], "\n")[1:] {
		if strings.HasPrefix(l, "\t") || l == "" || strings.HasPrefix(l, "panic(") || strings.HasPrefix(l, "runtime.") {
			continue
		}
		if strings.HasPrefix(l, "github.com/piotrnar/gocoin/") {
			fn := l[len("github.com/piotrnar/gocoin/"):]
			if p := strings.LastIndexByte(fn, '('); p > 0 {
				fn = fn[:p]
			}
			return fn
		}
		return ""
	}
	return ""
}

var (
	workerFlag = flag.Bool("worker", false, "internal: execute one history read from stdin")
	replayFile = flag.String("replay", "", "replay one recorded history (no explorer)")
	depthFlag  = flag.Int("depth", 0, "override the exploration depth")
)

type scenario struct {
	name       string
	menu       []string
	notFullRBF bool
	small      bool // small state space: one level deeper in the thorough tier
	thorough   bool // explored by BFS in the thorough tier only (the quick tier covers it with scripted histories)
}

var scenarios = []scenario{
	{"rbf", []string{"net:T1", "net:T1lo", "net:T1eq", "net:T1hi", "loc:T1lo", "net:C1", "net:G", "net:R", "net:CLo", "mine:best", "mine:T1lo", "reorg:", "list"}, false, false, false},
	{"graph", []string{"net:T1", "net:C1", "net:G", "net:T2", "net:D", "net:T1hi", "list", "mine:best", "mine:T1", "mine:T1,C1", "mine:T2", "reload"}, false, false, false},
	{"reorgs", []string{"net:T1", "net:C1", "net:T2", "net:D", "mine:best", "mine:T1", "mine:T1,C1", "reorg:", "reorg:T1alt", "reorg:T1", "reorg2:"}, false, true, false},
	{"orphans", []string{"net:O", "net:O2", "net:X", "loc:O", "tru:X", "net:B", "net:L", "net:OV", "spam", "resize", "mine:X", "mine:best", "reorg:", "reload", "tick"}, false, true, false},
	{"limits", []string{"net:T1", "net:C1", "net:T2", "net:W", "fat", "adv13h", "tick", "limit", "mine:best", "reorg:", "reload", "list"}, false, false, false},
	{"rbf100", []string{"net:T2", "chain", "net:T2hi", "tru:T2hi", "list", "mine:best", "reorg:", "reload"}, false, true, false},
	{"rbf-own-parent", []string{"net:T1", "net:C1", "net:R", "net:R2", "net:R3", "tru:R2", "mine:best", "list", "reorg:"}, false, true, false},
	{"levels", []string{"net:LG", "net:LP2", "net:LP1", "net:LC", "list", "mine:best", "mine:LG", "reorg:"}, false, true, false},
	{"multi-edge", []string{"net:MP", "net:MC2", "net:MC3", "net:MQ", "net:MD2", "net:TP", "net:TC", "net:TG", "net:T2", "list", "mine:T2", "reorg:", "reload"}, false, false, true},
	{"undo", []string{"net:T1", "net:T2", "net:D", "mine:T1", "mine:T2", "list", "undo", "undo:slow", "mine:best"}, false, false, true},
	{"pkg-rbf", []string{"net:T1", "net:C1", "net:G", "net:G2", "net:C1x", "net:Gx", "net:G2x", "list", "adv13h", "tick"}, false, false, true},
	{"badfile", []string{"net:T1", "net:C1", "net:T1hi", "net:O", "reload-cut:tx1", "reload-cut:tail5", "reload-cut:flip-end", "reload", "list"}, false, true, true},
	{"side", []string{"net:SR", "net:SQ", "net:TM", "net:CM2", "net:CS2", "list", "adv13h", "mine:T2"}, false, true, false},
	{"final-rbf", []string{"net:T1", "net:T1hi", "tru:T1hi", "loc:T1hi", "net:C1", "mine:best", "mine:T1hi", "reorg:", "list"}, true, true, false},
}

// Scripted histories: depth instead of breadth. Long deterministic histories that a BFS of
// depth 4-7 cannot reach, each executed once (fresh worker, same oracles).
//
//	dense  rank-gap exhaustion / re-indexing of the sorted list: runs of n equal-rate or
//	       interleaving-rate transactions into one gap at the head, in the middle and at the tail
//	       of the list (anchors none/high/low/both), then children with one parent inside the
//	       run and one outside; with and without a listing between run and children
//	multi  a child joined to one parent by two / three edges, and the triangle P->C->G + P->G, in both
//	       rate orders, with listings right after every event that dirties the sorted list
//	undo   the operator's undo command with and without the BlockCommitInProgress bracket, the child of
//	       the returning transaction having a second unconfirmed parent (rates on both sides of its own)
//	pkg    chains of 3-4 with up-to-date fee packages, then replacement / expiry of the last or a
//	       middle member (a non-root package member leaves the pool outside block processing)
//	badfile the pool file is cut at every record-boundary class or has one byte changed where the
//	       loader must notice, between save and load; then double spends / children / replacements
//	side   CPFP child whose second parent sits at depth 1, 2, 3 of a low-rate unconfirmed chain,
//	       parents first and children first, with a listing before and after every
//	       package-rebuild trigger (connected block, undone block, 10-minute suspend, reload)
type script struct {
	family string
	events []string
}

func scripts(thorough bool) (l []script) {
	for _, n := range []int{64, 200} {
		for _, anchors := range []string{"both", "high", "low", "none"} {
			for _, shape := range []string{"eq", "asc", "desc", "zig"} {
				d := fmt.Sprintf("dense:%s:%s:%d", anchors, shape, n)
				l = append(l, script{"dense", []string{d, "kids"}}, script{"dense", []string{d, "list", "kids"}})
				if thorough {
					l = append(l, script{"dense", []string{d, "list", "kids", "list", "mine:T2", "reload"}})
				}
			}
		}
	}
	// multi: children connected to ONE parent by two / three edges and the triangle P->C->G + P->G, child
	// rate above and below the parent's, parents first and children first, with a listing right after
	// every event that makes the sorted list dirty (pooled transaction mined, block undone, reload),
	// then an incremental deletion (replacement) and another listing
	for _, fam := range [][]string{{"MP", "MC2"}, {"MP", "MC3"}, {"MP", "MC2", "MC3"}, {"MQ", "MD2"}, {"MQ", "MD3"},
		{"TP", "TC", "TG"}, {"TQ", "TD", "TH"}, {"MP", "MC2", "MC3", "MQ", "MD2", "MD3", "TP", "TC", "TG", "TQ", "TD", "TH"}} {
		var sub, rev []string
		for _, c := range fam {
			sub = append(sub, "net:"+c)
			rev = append([]string{"net:" + c}, rev...)
		}
		cat := func(a []string, b ...string) []string { return append(append([]string{}, a...), b...) }
		l = append(l,
			script{"multi", sub},
			script{"multi", cat(sub, "list")},
			script{"multi", cat(sub, "reload")},
			script{"multi", cat(sub, "reload", "list", "reload")},
			script{"multi", cat(append([]string{"net:T2"}, sub...), "mine:T2")},
			script{"multi", cat(append([]string{"net:T2"}, sub...), "list", "mine:T2", "list")},
			script{"multi", cat(append([]string{"net:T2"}, sub...), "mine:T2", "reorg:")},
			script{"multi", cat(append([]string{"net:T2"}, sub...), "mine:T2", "reorg:", "list", "mine:best")},
			script{"multi", cat(rev, "reload")},
			script{"multi", cat(rev, "list")},
		)
		if fam[0] == "MP" && fam[1] == "MC2" {
			l = append(l, script{"multi", cat(sub, "reload", "list", "net:MC2x", "list")}, script{"multi", cat(sub, "list", "net:MC2x", "reload")})
		}
	}
	// undo: the operator's undo command with and without the BlockCommitInProgress bracket. The pooled
	// child (D / LC / CS2) of the transaction that comes back has a SECOND unconfirmed parent, and the
	// two parents' fee rates lie on both sides of the child's; with and without a listing (which
	// cleans the dirty flags) between the block and the undo, and after it
	for _, f := range []struct {
		pool  []string
		mined []string
	}{
		{[]string{"T1", "T2", "D"}, []string{"T1"}}, {[]string{"T1", "T2", "D"}, []string{"T2"}}, {[]string{"T1", "T2", "D"}, []string{"T1", "T2"}},
		{[]string{"LG", "LP2", "LP1", "LC"}, []string{"LP1"}}, {[]string{"LG", "LP2", "LP1", "LC"}, []string{"LG", "LP2"}}, {[]string{"LG", "LP2", "LP1", "LC"}, []string{"LG"}},
		{[]string{"SR", "SQ", "TM", "CM2", "CS2"}, []string{"TM"}}, {[]string{"SR", "SQ", "TM", "CM2", "CS2"}, []string{"SR", "SQ"}}, {[]string{"SR", "SQ", "TM", "CM2", "CS2"}, []string{"SR"}},
	} {
		var sub []string
		for _, c := range f.pool {
			sub = append(sub, "net:"+c)
		}
		mine := "mine:" + strings.Join(f.mined, ",")
		cat := func(a []string, b ...string) []string { return append(append([]string{}, a...), b...) }
		for _, undo := range []string{"undo", "undo:slow"} {
			l = append(l,
				script{"undo", cat(sub, mine, undo)},
				script{"undo", cat(sub, mine, "list", undo)},
				script{"undo", cat(sub, mine, "list", undo, "list", "mine:best")},
				script{"undo", cat(sub, "list", mine, undo, "list")},
				script{"undo", cat(sub, mine, "list", undo, mine, "list", undo)},
			)
		}
	}
	// pkg: chains of 3 and 4 with up-to-date fee packages (a listing within the last 10
	// minutes), then a member that is NOT the package root leaves the pool outside block
	// processing: replacement of the last / a middle member, expiry of the last / a middle member
	for _, chain := range [][]string{{"T1", "C1", "G"}, {"T1", "C1", "G", "G2"}} {
		var sub []string
		for _, c := range chain {
			sub = append(sub, "net:"+c)
		}
		cat := func(a []string, b ...string) []string { return append(append([]string{}, a...), b...) }
		repl := []string{"net:" + chain[len(chain)-1] + "x", "net:" + chain[len(chain)-2] + "x", "net:C1x"}
		for _, rp := range uniq(repl) {
			l = append(l, script{"pkg", cat(sub, "list", rp)}, script{"pkg", cat(sub, rp)}, script{"pkg", cat(sub, "list", rp, "list", "mine:best")})
		}
		// expiry: everything but one member is re-announced half-way, the listing is taken just before the tick
		for skip := 1; skip < len(chain); skip++ {
			h := cat(sub, "adv13h")
			for i, c := range chain {
				if i != skip {
					h = append(h, "net:"+c)
				}
			}
			l = append(l, script{"pkg", cat(h, "adv13h", "list", "tick")}, script{"pkg", cat(h, "adv13h", "tick")})
		}
	}
	// tree: the replaced transaction's descendants form a tree - a leaf child next to a chain of
	// three - in every arrival position of the leaf; the replacement must take all of them along
	for pos := 0; pos <= 3; pos++ {
		chain := []string{"net:C1", "net:G", "net:G2"}
		h := []string{"net:T1"}
		h = append(h, chain[:pos]...)
		h = append(h, "net:L1")
		h = append(h, chain[pos:]...)
		l = append(l, script{"tree", cat2(h, "net:T1top", "list", "mine:best")}, script{"tree", cat2(h, "list", "net:T1top", "list")},
			script{"tree", cat2(h, "net:C1x", "list")}, script{"tree", cat2(h, "net:T1top", "reload", "list")})
	}
	// badfile: the pool file is damaged at every boundary class between save and load; afterwards
	// double spends, children and a replacement arrive
	for _, where := range []string{"hdr", "txmid", "tx1", "sections", "tail5", "flip-hdr", "flip-cnt", "flip-rejcnt", "flip-end"} {
		pool := []string{"net:T1", "net:C1", "net:G", "net:O"}
		cut := "reload-cut:" + where
		l = append(l,
			script{"badfile", append(append([]string{}, pool...), cut, "net:T1hi", "net:C1", "net:X", "list")},
			script{"badfile", append(append([]string{}, pool...), "list", cut, "net:C1x", "net:G", "mine:best")},
			script{"badfile", []string{"net:T2", cut, "net:T2hi", "reload"}})
	}
	for d := 1; d <= 3; d++ {
		side := []string{"net:SR", "net:SQ", "net:SP"}[:d]
		cs := fmt.Sprint("net:CS", d)
		base := append(append([]string{}, side...), "net:TM", "net:CM2", cs)
		noCM2 := append(append([]string{}, side...), "net:TM", cs)
		cat := func(a []string, b ...string) []string { return append(append([]string{}, a...), b...) }
		l = append(l,
			script{"side", base},
			script{"side", cat(base, "list")},
			script{"side", cat(base, "list", "mine:T2", "list")},
			script{"side", cat(base, "mine:T2", "list")},
			script{"side", cat(base, "list", "mine:T2", "reorg:", "list")},
			script{"side", cat(noCM2, "list", "adv13h", "net:CM2", "list")},
			script{"side", cat(base, "list", "reload", "list")},
			script{"side", cat(base, "reload")},
		)
		rev := []string{cs, "net:CM2", "net:TM"}
		for i := d - 1; i >= 0; i-- {
			rev = append(rev, side[i])
		}
		l = append(l, script{"side", rev}, script{"side", cat(rev, "list", "mine:T2", "list")})
	}
	return
}

func cat2(a []string, b ...string) []string { return append(append([]string{}, a...), b...) }

func uniq(l []string) (r []string) {
	seen := map[string]bool{}
	for _, e := range l {
		if !seen[e] {
			seen[e] = true
			r = append(r, e)
		}
	}
	return
}

// runScripts executes the scripted histories (in parallel, results merged in script order).
func (x *explorer) runScripts(l []script) {
	r := x.r
	res := make([]*Result, len(l))
	var wg sync.WaitGroup
	for i := range l { // deterministic part: not subject to the wall-clock budget
		x.sem <- struct{}{}
		wg.Add(1)
		go func(i int) {
			defer wg.Done()
			defer func() { <-x.sem }()
			res[i] = x.exec(scenario{name: "scripted", menu: uniq(l[i].events)}, l[i].events)
		}(i)
	}
	wg.Wait()
	seen := map[string]bool{}
	per := map[string]map[string]int{}
	for i, sc := range l {
		t := res[i]
		fam := "scripted-" + sc.family
		if per[fam] == nil {
			per[fam] = map[string]int{}
		}
		if t == nil {
			per[fam]["not_run_budget"]++
			continue
		}
		per[fam]["histories"]++
		x.mu.Lock()
		x.transitions += len(sc.events)
		for _, e := range sc.events {
			x.perEvent[evClass(e)]++
		}
		x.oracles += t.Oracles
		x.blocks += t.Blocks
		x.blockTxs += t.BlockTxs
		x.undone += t.Undone
		if t.MaxPool > x.maxPool {
			x.maxPool = t.MaxPool
		}
		x.mu.Unlock()
		switch {
		case t.Harness != "":
			x.mu.Lock()
			x.harness = append(x.harness, fmt.Sprintf("scripted %v: %s", sc.events, t.Harness))
			x.mu.Unlock()
		case t.Key != "":
			ok := true
			for k := 0; k < 2; k++ {
				if again := x.run(scenario{name: "scripted", menu: uniq(sc.events)}, sc.events); again.Key != t.Key {
					ok = false
				}
			}
			x.mu.Lock()
			if ok {
				x.confirmed++
				r.Report(t.Key, t.What, map[string]interface{}{"scenario": "scripted", "events": sc.events, "trace": t.Trace})
			} else {
				r.Unrepro = append(r.Unrepro, fmt.Sprintf("scripted %v: %s", sc.events, t.Key))
			}
			x.mu.Unlock()
		default:
			if !seen[t.StateKey] {
				seen[t.StateKey] = true
				per[fam]["states"]++
			}
			if t.MaxPool > per[fam]["max_pool"] {
				per[fam]["max_pool"] = t.MaxPool
			}
		}
	}
	x.mu.Lock()
	x.states += len(seen)
	for k, v := range per {
		x.perScenario[k] = v
	}
	x.mu.Unlock()
}

type hist struct {
	events  []string
	enabled []string
}

type task struct {
	h   hist
	ev  string
	res *Result
}

func (t *task) events() []string {
	evs := append([]string{}, t.h.events...)
	if t.ev != "" {
		evs = append(evs, t.ev)
	}
	return evs
}

type explorer struct {
	r    *ev.Run
	sem  chan struct{}
	mu   sync.Mutex
	pmu  sync.Mutex
	pdir string

	rebuilt int

	transitions, oracles, confirmed, states, blocks, blockTxs, undone, maxPool int
	evicted, expired, replaced, orphans                                        int
	perEvent                                                                   map[string]int
	perScenario                                                                map[string]map[string]int
	depthDone                                                                  map[string]int
	samples                                                                    *ev.Samples
	harness                                                                    []string
}

func (x *explorer) run(sc scenario, evs []string) *Result {
	x.sem <- struct{}{}
	defer func() { <-x.sem }()
	return x.exec(sc, evs)
}

// exec runs one history; an infrastructure failure is retried once, after rebuilding
// the prefix directory if it disappeared (scratch space is shared with other runs).
func (x *explorer) exec(sc scenario, evs []string) *Result {
	for attempt := 0; ; attempt++ {
		x.pmu.Lock()
		dir := x.pdir
		x.pmu.Unlock()
		res := runWorker(&Job{Prefix: dir, Events: evs, Menu: sc.menu, NotFullRBF: sc.notFullRBF})
		if res.Harness == "" || attempt >= 1 {
			return res
		}
		x.pmu.Lock()
		if x.pdir == dir {
			if _, err := os.Stat(dir + "/prefix.json"); err != nil {
				x.pdir = buildPrefix()
				x.rebuilt++
			}
		}
		x.pmu.Unlock()
	}
}

func (x *explorer) runLevel(sc scenario, tasks []*task) {
	var wg sync.WaitGroup
	for _, t := range tasks {
		if x.r.OverBudget() {
			break
		}
		x.sem <- struct{}{}
		wg.Add(1)
		go func(t *task) {
			defer wg.Done()
			defer func() { <-x.sem }()
			t.res = x.exec(sc, t.events())
		}(t)
	}
	wg.Wait()
}

func evClass(e string) string {
	if p := strings.IndexByte(e, ':'); p >= 0 {
		return e[:p]
	}
	return e
}

func (x *explorer) bfs(sc scenario, depth int) {
	r := x.r
	seen := map[string]bool{}
	root := &task{}
	x.runLevel(sc, []*task{root})
	if root.res == nil {
		return
	}
	if root.res.Key != "" {
		r.Report(root.res.Key, root.res.What, map[string]interface{}{"scenario": sc.name, "events": []string{}, "trace": root.res.Trace})
		return
	}
	if root.res.Harness != "" {
		x.mu.Lock()
		x.harness = append(x.harness, fmt.Sprintf("%s []: %s", sc.name, root.res.Harness))
		x.mu.Unlock()
		return
	}
	seen[root.res.StateKey] = true
	frontier := []hist{{nil, root.res.Enabled}}
	ps := map[string]int{}
	done := 0
	for d := 1; d <= depth && len(frontier) > 0; d++ {
		var tasks []*task
		for _, h := range frontier {
			for _, e := range h.enabled {
				tasks = append(tasks, &task{h: h, ev: e})
			}
		}
		x.runLevel(sc, tasks)
		var next []hist
		complete := true
		for _, t := range tasks {
			if t.res == nil {
				complete = false
				continue
			}
			evs := t.events()
			x.mu.Lock()
			x.transitions++
			x.perEvent[evClass(t.ev)]++
			x.oracles += t.res.Oracles
			x.blocks += t.res.Blocks
			x.blockTxs += t.res.BlockTxs
			x.undone += t.res.Undone
			if t.res.MaxPool > x.maxPool {
				x.maxPool = t.res.MaxPool
			}
			for _, f := range []struct {
				b bool
				c *int
			}{{t.res.Evicted, &x.evicted}, {t.res.Expired, &x.expired}, {t.res.Replaced, &x.replaced}, {t.res.Orphans, &x.orphans}} {
				if f.b {
					*f.c++
				}
			}
			x.mu.Unlock()
			switch {
			case t.res.Harness != "":
				x.mu.Lock()
				x.harness = append(x.harness, fmt.Sprintf("%s %v: %s", sc.name, evs, t.res.Harness))
				x.mu.Unlock()
			case t.res.Key != "":
				ok := true
				for i := 0; i < 2; i++ {
					if again := x.run(sc, evs); again.Key != t.res.Key {
						ok = false
					}
				}
				x.mu.Lock()
				if ok {
					x.confirmed++
					r.Report(t.res.Key, t.res.What, map[string]interface{}{"scenario": sc.name, "events": evs, "trace": t.res.Trace})
				} else {
					r.Unrepro = append(r.Unrepro, fmt.Sprintf("%s %v: %s", sc.name, evs, t.res.Key))
				}
				x.mu.Unlock()
				// a violating state is not explored further
			default:
				if os.Getenv("C12_DUMPSTATES") != "" {
					fmt.Fprintf(os.Stderr, "STATE %s %v => %s\n", sc.name, evs, t.res.StateKey)
				}
				if !seen[t.res.StateKey] {
					seen[t.res.StateKey] = true
					next = append(next, hist{evs, t.res.Enabled})
					if len(evs) >= 3 {
						x.samples.Add(map[string]interface{}{"scenario": sc.name, "events": evs, "state": t.res.StateKey})
					}
				}
			}
		}
		if !complete {
			break
		}
		done = d
		ps[fmt.Sprint("new_states_depth_", d)] = len(next)
		frontier = next
	}
	ps["states"] = len(seen)
	ps["depth_target"] = depth
	x.mu.Lock()
	x.states += len(seen)
	x.perScenario[sc.name] = ps
	x.depthDone[sc.name] = done
	x.mu.Unlock()
}

func main() {
	for _, a := range os.Args[1:] {
		if a == "--worker" || a == "-worker" {
			workerMain()
			return
		}
	}
	r := ev.Start("C12", "model_checking")
	minichain.Quiet()
	x := &explorer{r: r, sem: make(chan struct{}, runtime.NumCPU()), perEvent: map[string]int{},
		perScenario: map[string]map[string]int{}, depthDone: map[string]int{}, samples: &ev.Samples{N: 5}}
	x.pdir = buildPrefix()
	defer os.RemoveAll(x.pdir)
	if *replayFile != "" {
		code := replay(x, *replayFile)
		os.RemoveAll(x.pdir)
		os.Exit(code)
	}
	depth := 4
	r.Budget = 170 * time.Second
	if r.Thorough() {
		depth = 6
		r.Budget = 25 * time.Minute
	}
	if *depthFlag > 0 {
		depth = *depthFlag
	}
	if b := os.Getenv("C12_BUDGET"); b != "" {
		r.Budget, _ = time.ParseDuration(b)
	}
	var wg sync.WaitGroup
	if f := os.Getenv("C12_SCENARIO"); f == "" || strings.Contains(","+f+",", ",scripted,") {
		// the scripted histories run first, with all workers, before the budgeted BFS
		x.runScripts(scripts(r.Thorough()))
	}
	for _, sc := range scenarios {
		if f := os.Getenv("C12_SCENARIO"); f != "" && !strings.Contains(","+f+",", ","+sc.name+",") {
			continue
		}
		if sc.thorough && !r.Thorough() && os.Getenv("C12_SCENARIO") == "" {
			continue
		}
		wg.Add(1)
		d := depth
		if sc.small && r.Thorough() && *depthFlag == 0 {
			d++
		}
		go func(sc scenario, d int) {
			defer wg.Done()
			x.bfs(sc, d)
		}(sc, d)
	}
	wg.Wait()
	os.RemoveAll(x.pdir)
	if len(x.harness) > 0 {
		sort.Strings(x.harness)
		for i, h := range x.harness {
			if i < 5 {
				fmt.Fprintln(os.Stderr, "HARNESS:", h)
			}
		}
		ev.HarnessError("%d histories failed for infrastructure reasons; first: %s", len(x.harness), x.harness[0])
	}
	r.Finish(map[string]interface{}{
		"states":                          x.states,
		"transitions":                     x.transitions,
		"traces_validated_against_impl":   x.transitions,
		"oracle_evaluations":              x.oracles,
		"blocks_from_listing_accepted":    x.blocks,
		"transactions_in_those_blocks":    x.blockTxs,
		"block_undone_callbacks":          x.undone,
		"max_pool_size_seen":              x.maxPool,
		"histories_with_eviction":         x.evicted,
		"histories_with_expiry":           x.expired,
		"histories_with_replacement":      x.replaced,
		"histories_with_orphan_rejection": x.orphans,
		"per_event_class":                 x.perEvent,
		"per_scenario":                    x.perScenario,
		"depth_completed":                 x.depthDone,
		"violations_confirmed_3x":         x.confirmed,
		"prefix_dirs_rebuilt":             x.rebuilt,
		"worker_cpu_s":                    float64(atomic.LoadInt64(&workerCPU)/1e7) / 100,
		"samples":                         x.samples.L,
		"rule": "BFS over event histories per scenario (one event menu each; per_scenario lists them; final-rbf = NotFullRBF configuration), every history in a fresh worker process on a copy of a 105-block chain wired to txpool as client/main.go does; " +
			"plus scripted long histories (depth instead of breadth): dense = runs of 64 and 200 equal-rate / ascending / descending / converging-rate transactions into one gap of the sorted list with none/high/low/both anchors, then two-parent children (one parent inside the run, one outside), with and without a listing in between; " +
			"multi = child spending two / three outputs of one parent and the triangle P->C->G + P->G, child rate above and below the parent's, listing right after every sort-dirtying event (pooled tx mined, block undone, reload) and after a later replacement; " +
			"undo = operator's undo command (UndoLastBlock) with and without the BlockCommitInProgress bracket, pooled child of the returning transaction with a second unconfirmed parent and parents' rates on both sides of the child's, listings before and after; " +
			"pkg = chains of 3-4 with up-to-date fee packages, then replacement / expiry of the last or a middle member; badfile = pool file cut at every record-boundary class or one byte changed (block hash, record counts, end marker) between MempoolSave and MempoolLoad, which must return true with the saved pool or false with an empty pool, followed by double spends / children / replacements; " +
			"side = CPFP child whose second parent sits at depth 1-3 of a low-rate unconfirmed chain, parents first and children first, listing before and after every package-rebuild trigger (connected block, undone block, 10-minute suspend, reload); " +
			"scripted histories run first and are not subject to the wall-clock budget; invariant oracle after every event; both listings, GetMempoolFees (listed = pooled, no output spent twice, Fee/Weight = sums) and block-from-listing acceptance at the end of every history and at list events; state key = (confirmed txs, tip block txs, pooled txs with Local/Final/MemInputs/age bucket, rejected records with reason, pending, dirty flags, sort order, fee packages as root+member set, clock buckets, dynamic minimal fee, size limit)",
	}, []string{
		"universe: 4 mature OP_1 outputs + one OP_0 output + 16 funding outputs; T1, T1lo/T1eq/T1hi (double spends, lower/equal/higher fee rate), T1alt (only ever mined), C1, G, T2, D (diamond), X, O, O2 (orphans), B (bad script, network path only), L (fee below floor), R (double spend that also spends its victim's output), CLo (child of the rejected low-fee double spend), OV (overspend), W (segwit spend), S1..S110 (parent-less, more than the rejected ring holds), T2hi + K1..K101 (replacement of a transaction with 101 descendants), F1..F16 (95 kB) + CF (child paying for F1); SR<-SQ<-SP low-rate chain, TM with children CM2 and CS1/CS2/CS3 (second parent at depth 1/2/3 of the chain); dense family DH/DL anchors, DR1..DRn, children DAi/DBi/DNi built per history from a second funding transaction (block 103)",
		"script-invalid transactions are submitted only through the network path (SubmitLocalTx/Trusted skip script checks by design); BlockInvalid on trusted blocks and BlockUndone without callbacks are not in the menus",
		"the wall clock is emulated by moving every time stamp txpool holds back by 13 h (overlay txpool.VerifAdvanceClock); expiry after 1 day; the size limit is lowered to 500 kB through overlay common.VerifSetMaxMempoolSize",
		"the block assembled from the listing takes the listed transactions in order while they fit into 4M weight, and claims subsidy plus the RECORDED fees",
		"the listing itself changes package/sort state; it is therefore taken only by explicit events (list, mine:best) and once at the end of every history",
		"worker processes run with GOMAXPROCS=1 so that goroutine interleavings inside one event are reproducible; schedule exploration is C11",
	})
}

func replay(x *explorer, file string) int {
	b, err := os.ReadFile(file)
	if err != nil {
		ev.HarnessError("%v", err)
	}
	var rec struct {
		Replay struct {
			Scenario string   `json:"scenario"`
			Events   []string `json:"events"`
		} `json:"replay"`
	}
	if err := json.Unmarshal(b, &rec); err != nil {
		ev.HarnessError("%v", err)
	}
	var sc *scenario
	for i := range scenarios {
		if scenarios[i].name == rec.Replay.Scenario {
			sc = &scenarios[i]
		}
	}
	if sc == nil && rec.Replay.Scenario == "scripted" {
		sc = &scenario{name: "scripted", menu: uniq(rec.Replay.Events)}
	}
	if sc == nil {
		ev.HarnessError("unknown scenario %q", rec.Replay.Scenario)
	}
	res := x.run(*sc, rec.Replay.Events)
	for _, s := range res.Trace {
		fmt.Fprintf(ev.Out, "  %s -> %s\n", s.Ev, s.Result)
	}
	switch {
	case res.Harness != "":
		fmt.Fprintln(ev.Out, "replay: harness error:", res.Harness)
		return 2
	case res.Key != "":
		fmt.Fprintf(ev.Out, "replay: %s: %s\n", res.Key, res.What)
		return 1
	}
	fmt.Fprintln(ev.Out, "replay: history passes; final state", res.StateKey)
	return 0
}
