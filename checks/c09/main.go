// C09: transaction and block wire decoding is exact, canonical and total.
//
// Bounded-exhaustive exploration of constructed byte-string families (see families.go)
// on gocoin's real decoder (btc.NewTx, Tx.SetHash/Serialize/SerializeNew/WriteSerialized/
// Hash/WTxID/Size/NoWitSize/Weight/VSize/TxSize, btc.NewBlock + BuildTxListExt(true/false),
// Block.BlockWeight) against the independent Core-exact decoder reftx.DecodeTx/DecodeBlock.
// Every case runs in a child worker process of this binary under `ulimit -v`, because the
// known failure mode (a count from the wire driving make()) ends in a fatal out-of-memory
// error that no recover() can catch: the parent identifies the case in flight, confirms it
// in a fresh worker, classifies the death and goes on.
package main

import (
	"bufio"
	"encoding/hex"
	"encoding/json"
	"flag"
	"fmt"
	"io"
	"os"
	"os/exec"
	"runtime"
	"sort"
	"strings"
	"sync"
	"sync/atomic"
	"time"

	"verif/internal/ev"
	"verif/ref/reftx"
)

var replayFile = flag.String("replay", "", "replay one recorded case (no explorer)")

// a decode takes microseconds (the worst count-driven loops found take seconds); a worker
// that shows no progress for this long is reported as hung
const watchdog = 60 * time.Second         // first detection
const watchdogConfirm = 120 * time.Second // the case alone in a fresh worker, before it is reported
const vlimitKB = 4000000

// ---------------------------------------------------------------- worker handle

type wproc struct {
	cmd    *exec.Cmd
	in     io.WriteCloser
	out    *bufio.Reader
	errMu  sync.Mutex
	errBuf []byte
	errEOF chan struct{}
	last   int64 // unix nano of last progress
	hung   int32
	gone   int32
	stage  byte // API the worker announced last: n NewTx, t TxSize, b block, v VLen
	wd     time.Duration
}

func spawn() *wproc { return spawnWd(watchdog) }

func spawnWd(wd time.Duration) *wproc {
	// The worker applies RLIMIT_AS (what `ulimit -v` sets) to itself before it reads the
	// first job; that saves one fork+exec of a shell per restart (tens of thousands).
	cmd := exec.Command(os.Args[0], "--worker")
	cmd.Env = append(os.Environ(), "GOMAXPROCS=1", "GOTRACEBACK=all", fmt.Sprintf("C09_VLIMIT_KB=%d", vlimitKB))
	in, err := cmd.StdinPipe()
	if err != nil {
		ev.HarnessError("pipe: %v", err)
	}
	op, err := cmd.StdoutPipe()
	if err != nil {
		ev.HarnessError("pipe: %v", err)
	}
	ep, epw, err := os.Pipe()
	if err != nil {
		ev.HarnessError("pipe: %v", err)
	}
	cmd.Stderr = epw
	if err := cmd.Start(); err != nil {
		ev.HarnessError("cannot start worker: %v", err)
	}
	epw.Close()
	w := &wproc{cmd: cmd, in: in, out: bufio.NewReaderSize(op, 1<<16), errEOF: make(chan struct{}), wd: wd}
	atomic.StoreInt64(&w.last, time.Now().UnixNano())
	go func() { // stderr: drop the decoder's own chatter, keep the head of anything else
		r := bufio.NewReaderSize(ep, 1<<16)
		for {
			line, err := r.ReadString('\n')
			if line != "" && line != "NewTx failed\n" && line != "NewSize failed\n" {
				w.errMu.Lock()
				if len(w.errBuf) < 48<<10 {
					w.errBuf = append(w.errBuf, line...)
				}
				w.errMu.Unlock()
			}
			if err != nil {
				ep.Close()
				close(w.errEOF)
				return
			}
		}
	}()
	go func() { // watchdog
		for {
			time.Sleep(2 * time.Second)
			if atomic.LoadInt32(&w.gone) == 1 {
				return
			}
			if time.Since(time.Unix(0, atomic.LoadInt64(&w.last))) > w.wd {
				atomic.StoreInt32(&w.hung, 1)
				w.cmd.Process.Kill()
				return
			}
		}
	}()
	return w
}

func (w *wproc) stop() {
	atomic.StoreInt32(&w.gone, 1)
	w.in.Close()
	done := make(chan struct{})
	go func() { w.cmd.Wait(); close(done) }()
	select {
	case <-done:
	case <-time.After(10 * time.Second):
		w.cmd.Process.Kill()
		<-done
	}
}

type death struct {
	stderr string
	status string
	hung   bool
	stage  byte
}

// run sends one job; onBatch is called for every completed batch. Returns nil when the
// job finished, or the death record plus the index in flight (-1: none started).
func (w *wproc) run(j *jobSpec, onBatch func(lo, hi int, r *batchResult)) (d *death, culprit int, done int) {
	bs, _ := json.Marshal(j)
	done = j.Lo
	dots := 0
	atomic.StoreInt64(&w.last, time.Now().UnixNano())
	if _, err := w.in.Write(append(bs, '\n')); err == nil {
		for {
			c, err := w.out.ReadByte()
			if err != nil {
				break
			}
			switch c {
			case '.':
				dots++
				w.stage = 0
				atomic.StoreInt64(&w.last, time.Now().UnixNano())
			case 'n', 't', 'b', 'v':
				w.stage = c
			case 'R':
				line, err := w.out.ReadString('\n')
				if err != nil {
					goto dead
				}
				var lo, hi int
				var r batchResult
				f := strings.SplitN(strings.TrimSpace(line), " ", 3)
				if len(f) != 3 {
					ev.HarnessError("worker protocol: %q", line)
				}
				fmt.Sscan(f[0], &lo)
				fmt.Sscan(f[1], &hi)
				if err := json.Unmarshal([]byte(f[2]), &r); err != nil {
					ev.HarnessError("worker protocol: %v", err)
				}
				if lo != done {
					ev.HarnessError("worker protocol: batch starts at %d, expected %d", lo, done)
				}
				onBatch(lo, hi, &r)
				done, dots = hi, 0
				atomic.StoreInt64(&w.last, time.Now().UnixNano())
			case 'D':
				w.out.ReadString('\n')
				return nil, 0, done
			case 'Q': // worker retires after a large allocation; the rest of the job is re-queued
				w.out.ReadString('\n')
				w.stop()
				return nil, -2, done
			case '\n':
			default:
				ev.HarnessError("worker protocol: unexpected byte %q", c)
			}
		}
	}
dead:
	w.in.Close()
	select {
	case <-w.errEOF:
	case <-time.After(30 * time.Second):
		w.cmd.Process.Kill()
	}
	err := w.cmd.Wait()
	atomic.StoreInt32(&w.gone, 1)
	w.errMu.Lock()
	d = &death{stderr: string(w.errBuf), hung: atomic.LoadInt32(&w.hung) == 1, stage: w.stage}
	w.errMu.Unlock()
	if err != nil {
		d.status = err.Error()
	} else {
		d.status = "exit 0"
	}
	if strings.Contains(d.stderr, "HARNESS:") || strings.Contains(d.status, "exit status 3") {
		ev.HarnessError("worker: %s", firstLines(d.stderr, 5))
	}
	return d, done + dots - 1, done
}

func firstLines(s string, n int) string {
	l := strings.SplitN(s, "\n", n+1)
	if len(l) > n {
		l = l[:n]
	}
	return strings.Join(l, " | ")
}

// deathKey classifies how a worker died on a case.
func deathKey(d *death, kind string) (key, what string) {
	s := d.stderr
	head := ""
	for _, l := range strings.Split(s, "\n") {
		if strings.HasPrefix(l, "fatal error:") || strings.HasPrefix(l, "panic:") || strings.HasPrefix(l, "runtime:") {
			head = l
			break
		}
	}
	switch {
	case strings.Contains(s, "nil pointer dereference") && strings.Contains(s, "BuildTxListExt.func"):
		return "block/nil-element-kills-process", "Block.BuildTxListExt(true) hashes the transactions in goroutines; a transaction that btc.NewTx decoded to a Tx holding a nil *TxIn/*TxOut makes such a goroutine panic (nil pointer dereference), which no caller can recover: the process dies"
	case d.hung:
		api := map[byte]string{'n': "NewTx", 't': "TxSize", 'b': "NewBlock-BuildTxListExt", 'v': "VLen"}[d.stage]
		if api == "" {
			api = "harness"
		}
		return "hang/" + api + "-does-not-return", "btc." + api + " did not return: the single-threaded worker made no progress for the watchdog time (60 s in the sweep, 120 s when the case is re-run alone in a fresh worker; a decode normally takes microseconds) and was killed"
	case strings.Contains(s, "out of memory") || strings.Contains(s, "cannot allocate memory"):
		if kind == "block" && strings.Contains(s, "BuildTxListExt") && !strings.Contains(s, "btc.NewTx(") {
			return "block/txcount-driven-fatal-oom", "the process dies with a fatal (unrecoverable) out-of-memory error under ulimit -v 4 GB: Block.BuildTxListExt does make([]*Tx, TxCount) with the count from the wire (" + normPanic(head) + ")"
		}
		return "alloc/count-driven-fatal-oom", "the process dies with a fatal (unrecoverable) out-of-memory error under ulimit -v 4 GB: btc.NewTx passes a count/length prefix from the wire to make() before checking that the data is there (" + normPanic(head) + ")"
	}
	return "crash/" + normPanic(head), "worker process died: " + d.status + " " + firstLines(s, 3)
}

// ---------------------------------------------------------------- orchestration

type famStat struct {
	Evals, Skipped int
}

type state struct {
	mu        sync.Mutex
	queue     []*jobSpec
	running   int
	cond      *sync.Cond
	evals     int
	skipped   int
	perFam    map[string]*famStat
	classes   map[string]int
	shapes    map[string]int
	viol      map[string]*violAgg
	deaths    map[string][]deathCase // by key
	deathN    int
	spawns    int
	hangs     map[string]int
	txsizePos map[string]int
	stopFam   map[string]bool
	dropped   int
	retired   int
	maxFrac   float64
	maxFracHx string
	samples   *ev.Samples
	stop      bool
}

type deathCase struct {
	Tail   string
	Hex    string
	Kind   string
	DoHash bool
	What   string
	Fam    string
}

func famName(j *jobSpec) string {
	switch j.Kind {
	case "tx":
		return "tx/" + j.Fam
	case "block":
		return "block/" + j.Fam
	}
	return j.Kind
}

func (s *state) merge(fam string, r *batchResult) {
	s.mu.Lock()
	defer s.mu.Unlock()
	s.evals += r.Evals
	s.skipped += r.Skipped
	fs := s.perFam[fam]
	if fs == nil {
		fs = &famStat{}
		s.perFam[fam] = fs
	}
	fs.Evals += r.Evals
	fs.Skipped += r.Skipped
	for k, v := range r.Classes {
		s.classes[k] += v
	}
	for k, v := range r.Shapes {
		s.shapes[fam+"|"+k] += v
	}
	for k, v := range r.TxSizePos {
		s.txsizePos[k] += v
	}
	for k, v := range r.Viol {
		a := s.viol[k]
		if a == nil {
			c := *v
			s.viol[k] = &c
		} else {
			a.Count += v.Count
			if len(v.Hex) < len(a.Hex) || (len(v.Hex) == len(a.Hex) && v.Hex < a.Hex) {
				a.Hex, a.Tail, a.DoHash, a.What, a.Kind = v.Hex, v.Tail, v.DoHash, v.What, v.Kind
			}
		}
	}
	if r.MaxFrac > s.maxFrac {
		s.maxFrac, s.maxFracHx = r.MaxFrac, r.MaxFracHx
	}
	if r.Sample != "" {
		s.samples.Add(map[string]string{"family": fam, "hex": r.Sample, "outcome": r.SampleCl})
	}
}

func (s *state) push(front bool, js ...*jobSpec) {
	s.mu.Lock()
	if front {
		s.queue = append(append([]*jobSpec{}, js...), s.queue...)
	} else {
		s.queue = append(s.queue, js...)
	}
	s.mu.Unlock()
	s.cond.Broadcast()
}

func (s *state) next() *jobSpec {
	s.mu.Lock()
	defer s.mu.Unlock()
	for {
		if s.stop {
			s.queue = nil
		}
		for len(s.queue) > 0 && s.stopFam[famName(s.queue[0])] {
			s.queue = s.queue[1:]
			s.dropped++
		}
		if len(s.queue) > 0 {
			j := s.queue[0]
			s.queue = s.queue[1:]
			s.running++
			return j
		}
		if s.running == 0 {
			s.cond.Broadcast()
			return nil
		}
		s.cond.Wait()
	}
}

func (s *state) finished() {
	s.mu.Lock()
	s.running--
	s.mu.Unlock()
	s.cond.Broadcast()
}

// genCase regenerates the bytes of case idx of a job in the parent.
func genCase(j *jobSpec, idx int, bases []base, blocks []bbase) (c []byte, kind string, dohash bool, cont []byte) {
	alpha := alpha8
	if j.Alpha == 256 {
		alpha = make([]byte, 256)
		for i := range alpha {
			alpha[i] = byte(i)
		}
	}
	switch j.Kind {
	case "tx":
		return txGen(&bases[j.Base], j.Fam, alpha, idx), "tx", false, txTail(&bases[j.Base], j.Fam, idx)
	case "short":
		return shortGen(idx), "tx", false, []byte{1, 0, 0, 0, 0, 0}
	case "vlen":
		return vlenGen(idx), "vlen", false, nil
	case "block":
		c, dohash = blockGen(&blocks[j.Base], j.Fam, idx)
		return c, "block", dohash, blockTail(&blocks[j.Base], j.Fam, idx)
	case "rawtx":
		c, _ = hex.DecodeString(j.Hex)
		cont, _ = hex.DecodeString(j.Tail)
		return c, "tx", false, cont
	case "rawvlen":
		c, _ = hex.DecodeString(j.Hex)
		return c, "vlen", false, nil
	case "rawblock":
		c, _ = hex.DecodeString(j.Hex)
		cont, _ = hex.DecodeString(j.Tail)
		return c, "block", j.DoHash, cont
	}
	return nil, "", false, nil
}

func rawJob(kind string, c []byte, dohash bool, tail string) *jobSpec {
	k := "rawtx"
	switch kind {
	case "block":
		k = "rawblock"
	case "vlen":
		k = "rawvlen"
	}
	return &jobSpec{Kind: k, Hex: hex.EncodeToString(c), Tail: tail, DoHash: dohash, Lo: 0, Hi: 1}
}

func (s *state) workerLoop(bases []base, blocks []bbase, wg *sync.WaitGroup) {
	defer wg.Done()
	w := spawn()
	s.mu.Lock()
	s.spawns++
	s.mu.Unlock()
	respawn := func() {
		w = spawn()
		s.mu.Lock()
		s.spawns++
		s.mu.Unlock()
	}
	earlyDeaths := 0
	for {
		j := s.next()
		if j == nil {
			w.stop()
			return
		}
		fam := famName(j)
		d, culprit, done := w.run(j, func(lo, hi int, r *batchResult) { s.merge(fam, r) })
		if d == nil && culprit == -2 {
			respawn()
			s.mu.Lock()
			s.retired++
			s.mu.Unlock()
			if done < j.Hi {
				s.push(true, &jobSpec{Kind: j.Kind, Base: j.Base, Fam: j.Fam, Lo: done, Hi: j.Hi, Alpha: j.Alpha, Thor: j.Thor})
			}
			s.finished()
			continue
		}
		if d != nil {
			respawn()
			if culprit < done {
				// died before starting a case: not attributable
				earlyDeaths++
				if earlyDeaths > 3 {
					ev.HarnessError("worker dies before evaluating anything: %s %s", d.status, firstLines(d.stderr, 5))
				}
				s.push(true, &jobSpec{Kind: j.Kind, Base: j.Base, Fam: j.Fam, Lo: done, Hi: j.Hi, Alpha: j.Alpha, Thor: j.Thor, Hex: j.Hex, DoHash: j.DoHash})
				s.finished()
				continue
			}
			c, kind, dohash, cont := genCase(j, culprit, bases, blocks)
			key, what := deathKey(d, kind)
			if os.Getenv("C09_DEBUG") != "" {
				fmt.Fprintf(os.Stderr, "death job=%s/%d/%s [%d,%d) done=%d culprit=%d case=%x key=%s\n", j.Kind, j.Base, j.Fam, j.Lo, j.Hi, done, culprit, c, key)
			}
			s.mu.Lock()
			s.deathN++
			s.evals++
			s.classes["worker-died:"+key]++
			s.shapes[fam+"|worker-died:"+key]++
			fs := s.perFam[fam]
			if fs == nil {
				fs = &famStat{}
				s.perFam[fam] = fs
			}
			fs.Evals++
			s.deaths[key] = append(s.deaths[key], deathCase{Hex: hex.EncodeToString(c), Tail: hex.EncodeToString(cont), Kind: kind, DoHash: dohash, What: what, Fam: fam})
			if d.hung {
				// a hang costs a watchdog period each: after three in one family the rest of
				// that family is dropped (the run is then reported as not exhaustive)
				s.hangs[fam]++
				if s.hangs[fam] >= 3 {
					s.stopFam[fam] = true
				}
			}
			s.mu.Unlock()
			var nj []*jobSpec
			if culprit > done {
				nj = append(nj, &jobSpec{Kind: j.Kind, Base: j.Base, Fam: j.Fam, Lo: done, Hi: culprit, Alpha: j.Alpha, Thor: j.Thor})
			}
			if culprit+1 < j.Hi {
				nj = append(nj, &jobSpec{Kind: j.Kind, Base: j.Base, Fam: j.Fam, Lo: culprit + 1, Hi: j.Hi, Alpha: j.Alpha, Thor: j.Thor})
			}
			s.push(true, nj...)
		}
		s.finished()
	}
}

// ---------------------------------------------------------------- reference validation

func validateReference() (n int) {
	type entry = []interface{}
	for _, f := range []string{"tx_valid.json", "tx_invalid.json", "sighash.json"} {
		bs, err := os.ReadFile(ev.Repo() + "/lib/test/" + f)
		if err != nil {
			ev.HarnessError("vectors: %v", err)
		}
		var l []entry
		if err := json.Unmarshal(bs, &l); err != nil {
			ev.HarnessError("vectors %s: %v", f, err)
		}
		for _, e := range l {
			var hx string
			var prevs []interface{}
			if f == "sighash.json" {
				if len(e) != 5 {
					continue
				}
				hx, _ = e[0].(string)
			} else {
				if len(e) != 3 {
					continue
				}
				prevs, _ = e[0].([]interface{})
				hx, _ = e[1].(string)
			}
			raw, err := hex.DecodeString(hx)
			if err != nil {
				ev.HarnessError("vectors %s: bad hex", f)
			}
			t, k, err := reftx.DecodeTx(raw)
			if err != nil || k != len(raw) {
				ev.HarnessError("reference decoder refuses vector from %s: %v (%s)", f, err, hx)
			}
			if string(t.Serialize(true)) != string(raw) {
				ev.HarnessError("reference re-encoding differs for vector from %s (%s)", f, hx)
			}
			if prevs != nil { // every input's prevout must be listed by the vector
				listed := map[string]bool{}
				for _, p := range prevs {
					pl, _ := p.([]interface{})
					if len(pl) < 3 {
						continue
					}
					h, _ := pl[0].(string)
					idx, _ := pl[1].(float64)
					listed[fmt.Sprintf("%s:%d", h, uint32(int64(idx)))] = true
				}
				for _, in := range t.In {
					var rev [32]byte
					for i := range rev {
						rev[i] = in.Prev[31-i]
					}
					if !listed[fmt.Sprintf("%x:%d", rev, in.Vout)] {
						ev.HarnessError("reference decoder: input %x:%d not among the prevouts listed by the vector (%s)", rev, in.Vout, f)
					}
				}
			}
			n++
		}
	}
	// definitions on a hand-computed example: 1-in 1-out segwit tx
	t := &reftx.Tx{Version: 2, In: []reftx.In{{Witness: [][]byte{{1, 2, 3}}}}, Out: []reftx.Out{{Value: 1}}}
	if t.BaseSize() != 4+1+41+1+9+4 || t.Size() != t.BaseSize()+2+1+1+3 || t.Weight() != 3*60+67 || t.VSize() != 62 {
		ev.HarnessError("reference size definitions are off: base %d size %d weight %d vsize %d", t.BaseSize(), t.Size(), t.Weight(), t.VSize())
	}
	return n
}

// ---------------------------------------------------------------- main

func replay(file string) {
	bs, err := os.ReadFile(file)
	if err != nil {
		ev.HarnessError("%v", err)
	}
	var rec struct {
		Replay struct {
			Kind   string `json:"kind"`
			Hex    string `json:"hex"`
			Tail   string `json:"tail"`
			DoHash bool   `json:"dohash"`
		} `json:"replay"`
	}
	if err := json.Unmarshal(bs, &rec); err != nil {
		ev.HarnessError("%v", err)
	}
	c, err := hex.DecodeString(rec.Replay.Hex)
	if err != nil {
		ev.HarnessError("%v", err)
	}
	w := spawnWd(watchdogConfirm)
	var res *batchResult
	d, _, _ := w.run(rawJob(rec.Replay.Kind, c, rec.Replay.DoHash, rec.Replay.Tail), func(lo, hi int, r *batchResult) { res = r })
	if d != nil {
		k, what := deathKey(d, rec.Replay.Kind)
		fmt.Fprintf(ev.Out, "replay: worker died: %s: %s\n", k, what)
		os.Exit(1)
	}
	w.stop()
	for cl := range res.Classes {
		fmt.Fprintf(ev.Out, "replay: %s case of %d bytes: %s\n", rec.Replay.Kind, len(c), cl)
	}
	if len(res.Viol) == 0 {
		fmt.Fprintln(ev.Out, "replay: case passes")
		os.Exit(0)
	}
	var ks []string
	for k := range res.Viol {
		ks = append(ks, k)
	}
	sort.Strings(ks)
	for _, k := range ks {
		fmt.Fprintf(ev.Out, "replay: %s: %s\n", k, res.Viol[k].What)
	}
	os.Exit(1)
}

func main() {
	for _, a := range os.Args[1:] {
		if a == "--worker" {
			workerMain()
			return
		}
	}
	r := ev.Start("C09", "exploration")
	if *replayFile != "" {
		replay(*replayFile)
		return
	}
	if r.Thorough() {
		r.Budget = 17 * time.Minute
	} else {
		r.Budget = 110 * time.Second
	}
	nvec := validateReference()

	thor := r.Thorough()
	var bases []base
	for _, sp := range buildBases(thor) {
		bases = append(bases, *sp.build(thor))
	}
	blocks := buildBlocks(thor)
	s := &state{perFam: map[string]*famStat{}, classes: map[string]int{}, shapes: map[string]int{}, viol: map[string]*violAgg{},
		deaths: map[string][]deathCase{}, samples: &ev.Samples{N: 12}, hangs: map[string]int{}, stopFam: map[string]bool{}, txsizePos: map[string]int{}}
	s.cond = sync.NewCond(&s.mu)

	only := os.Getenv("C09_ONLY")
	want := func(f string) bool { return only == "" || strings.Contains(f, only) }
	var jobs []*jobSpec
	chunk := func(j jobSpec, n, size int) {
		for lo := 0; lo < n; lo += size {
			hi := lo + size
			if hi > n {
				hi = n
			}
			c := j
			c.Lo, c.Hi, c.Thor = lo, hi, thor
			jobs = append(jobs, &c)
		}
	}
	// simplest first: short strings, then per base the families in a fixed order
	shortMax := 5
	if thor {
		shortMax = 7
	}
	if want("vlen") {
		chunk(jobSpec{Kind: "vlen"}, vlenCount(), 1500)
	}
	if want("short") {
		chunk(jobSpec{Kind: "short"}, shortCount(shortMax), 1500)
	}
	for _, fam := range txFams {
		if !want("tx/" + fam) {
			continue
		}
		for bi := range bases {
			b := &bases[bi]
			al, alpha := 8, alpha8
			if fam == "subst" && thor && len(b.enc) <= 600 {
				al = 256
				alpha = make([]byte, 256)
			}
			size := 4000
			if len(b.enc) > 600 {
				size = 1000
			}
			chunk(jobSpec{Kind: "tx", Base: bi, Fam: fam, Alpha: al}, txFamCount(b, fam, alpha), size)
		}
	}
	for _, fam := range blockFams {
		if !want("block/" + fam) {
			continue
		}
		for bi := range blocks {
			chunk(jobSpec{Kind: "block", Base: bi, Fam: fam}, blockFamCount(&blocks[bi], fam), 4000)
		}
	}
	totalJobs := len(jobs)
	s.queue = jobs

	// budget watcher
	stopW := make(chan struct{})
	go func() {
		for {
			select {
			case <-stopW:
				return
			case <-time.After(time.Second):
				if r.OverBudget() {
					s.mu.Lock()
					s.stop = true
					s.mu.Unlock()
					s.cond.Broadcast()
					return
				}
			}
		}
	}()
	var wg sync.WaitGroup
	nw := runtime.NumCPU()
	if v := os.Getenv("C09_WORKERS"); v != "" {
		fmt.Sscan(v, &nw)
	}
	for i := 0; i < nw; i++ {
		wg.Add(1)
		go s.workerLoop(bases, blocks, &wg)
	}
	wg.Wait()
	close(stopW)

	// report violations: in-process ones are pure functions of the bytes (single-threaded
	// worker); deaths were confirmed in a fresh worker each.
	for k, v := range s.viol {
		r.Report(k, fmt.Sprintf("%s [%d cases; smallest: %d bytes]", v.What, v.Count, len(v.Hex)/2),
			map[string]interface{}{"kind": v.Kind, "hex": v.Hex, "tail": v.Tail, "dohash": v.DoHash})
	}
	deathCounts := map[string]int{}
	for k, l := range s.deaths {
		sort.Slice(l, func(i, j int) bool {
			if len(l[i].Hex) != len(l[j].Hex) {
				return len(l[i].Hex) < len(l[j].Hex)
			}
			if l[i].Hex != l[j].Hex {
				return l[i].Hex < l[j].Hex
			}
			return !l[i].DoHash && l[j].DoHash
		})
		deathCounts[k] = len(l)
		// the reported example is the smallest case that kills a fresh worker twice in a row
		// when run alone (a death that depends on what the worker had allocated before is
		// not used as the example)
		reported := false
		for i := 0; i < len(l) && i < 8 && !reported; i++ {
			c, _ := hex.DecodeString(l[i].Hex)
			ok := true
			reps := 2
			if strings.HasPrefix(k, "hang/") {
				reps = 1 // each repetition of a hang costs the whole confirmation watchdog
			}
			for rep := 0; rep < reps && ok; rep++ {
				w := spawnWd(watchdogConfirm)
				d, _, _ := w.run(rawJob(l[i].Kind, c, l[i].DoHash, l[i].Tail), func(lo, hi int, r *batchResult) {})
				if d == nil {
					w.stop()
					ok = false
				} else if k2, _ := deathKey(d, l[i].Kind); k2 != k {
					ok = false
				}
			}
			if ok {
				reported = true
				r.Report(k, fmt.Sprintf("%s [%d cases; smallest: %d bytes: %s]", l[i].What, len(l), len(l[i].Hex)/2, l[i].Hex),
					map[string]interface{}{"kind": l[i].Kind, "hex": l[i].Hex, "tail": l[i].Tail, "dohash": l[i].DoHash})
			}
		}
		if !reported {
			r.Unrepro = append(r.Unrepro, fmt.Sprintf("%s: %d worker deaths, none of the 8 smallest repeats in a fresh worker", k, len(l)))
		}
	}
	vc := map[string]int{}
	for k, v := range s.viol {
		vc[k] = v.Count
	}
	pf := map[string]interface{}{}
	for k, v := range s.perFam {
		pf[k] = map[string]int{"evaluated": v.Evals, "skipped_identical_to_base": v.Skipped}
	}
	// concurrent part: BuildTxListExt's hashing goroutines under the controlled scheduler
	concurrent := r.RunSub("c09s", "concurrent")
	var stopped []string
	for f := range s.stopFam {
		stopped = append(stopped, f)
	}
	sort.Strings(stopped)
	r.Finish(map[string]interface{}{
		"exhaustive": len(stopped) == 0,
		"txsize_positive_although_reference_refuses_not_judged": s.txsizePos,
		"capacity_presentations":                                []string{"cap == len", "b[:len] of a longer array continuing with the rest of the valid encoding / the next transaction", "... continuing with 16 x ff", "... continuing with 16 x 00"},
		"watchdog_seconds":                                      []int{int(watchdog.Seconds()), int(watchdogConfirm.Seconds())},
		"families_cut_short_after_three_hangs":                  stopped,
		"jobs_dropped_after_hangs":                              s.dropped,
		"concurrent_part":                                       concurrent,
		"evaluations":                                           s.evals,
		"distinct_nontrivial":                                   len(s.shapes),
		"rule":                                                  "a case is non-trivial when at least one of reference / gocoin decoded a complete object from it; distinct = number of distinct (family, reference outcome, gocoin outcome, decoded shape = inputs/outputs/witness or txs/witness/hash-mode) tuples observed; worker deaths count as their own outcome",
		"samples":                                               s.samples.L,
		"per_family":                                            pf,
		"outcome_classes":                                       s.classes,
		"distinct_outcomes":                                     len(s.classes),
		"violation_case_count":                                  vc,
		"worker_deaths":                                         deathCounts,
		"worker_deaths_total":                                   s.deathN,
		"worker_processes_started":                              s.spawns,
		"workers_retired_after_large_allocation":                s.retired,
		"tx_bases":                                              len(bases),
		"block_bases":                                           len(blocks),
		"jobs":                                                  totalJobs,
		"short_string_max_len":                                  shortMax,
		"max_inputs_outputs_per_base":                           map[bool]int{false: 2, true: 3}[thor],
		"max_txs_per_block_base":                                map[bool]int{false: 2, true: 3}[thor],
		"reference_vectors_validated":                           nvec,
		"alloc_bound":                                           "TotalAlloc delta of the decode <= 64*len + 64 KiB",
		"max_alloc_fraction_of_bound_on_accepted_decodes": s.maxFrac,
		"max_alloc_fraction_case":                         s.maxFracHx,
		"ulimit_v_kb":                                     vlimitKB,
	}, []string{
		"reference reftx.DecodeTx/DecodeBlock transcribes Bitcoin Core's UnserializeTransaction (witness allowed), ReadCompactSize(range_check) and vector reading; it is validated on every transaction of the repository's tx_valid.json, tx_invalid.json and sighash.json (decode, full consumption, identical re-encoding, prevouts as listed)",
		"allocation bound: a legitimately decoded element costs gocoin at most 24 B (slice header of an empty witness item) to 72 B (TxIn struct + pointer per >= 41 wire bytes) per wire byte it occupies, i.e. < 32 B per input byte including size-class rounding; 64*len + 64 KiB therefore holds for every proportional decoder, measured margin is in max_alloc_fraction_of_bound_on_accepted_decodes",
		"route agreement: for every transaction accepted by both sides the numbers are also taken through NewTx + SetHash(nil) and through a two-transaction block (BuildTxListExt with and without hashes) and compared with the reference (keys route-sethash-nil/*, route-block/*); TxSize is compared on every case",
		"bases count/*: number of inputs, of outputs and of witness items of an input at 252, 253, 254 (thorough also 65535, 65536) with the smallest possible elements; for these bases byte-level mutations cover the first and last 48 bytes and field-level ones the count fields and the first / last two length fields",
		"every case is decoded four times: as a slice with cap == len and as b[:len] of three longer backing arrays; verdict, consumed size, re-serialisation, hashes and TxSize must not depend on the bytes between len and cap (keys cap/*)",
		"families wrap / wrap2 put into every count and length field the values for which offs+n+value wraps around in int64 (-(n), -(n+1), -(offs+n), bytes left +-1, 2^63 +-1, ...), wrap2 combines a never-ending count (2^63-1, 2^64-1, 2^62+1, bytes left) in a count field with such a value in the length field of its first element; btc.TxSize is called on every case; a call that makes no progress for 60 s is killed, re-run alone with 120 s and reported as hang/<API>-does-not-return; after three hangs in a family the rest of the family is dropped and the run is not exhaustive",
		"a zero-transaction block deserialises in Core and is refused by CheckBlock; gocoin refuses it in BuildTxListExt (same RPC result bad-blk-length): not judged",
		"Txs[0].WTxID() of a block parsed with hashes is allowed to be all-zero (BIP141 defines the coinbase wtxid as zero for the commitment); trailing bytes after the last counted transaction of a block are left unread by both decoders",
		"bases longer than 600 bytes get single-byte substitutions at structural positions only in the quick tier (all field bytes except the interior of scripts / witness items beyond their first and last 4 bytes); thorough substitutes every position",
	})
}
