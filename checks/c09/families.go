package main

// Input families of C09. Everything here is deterministic and indexable: a case is
// (kind, base, family, index); parent and workers regenerate the same bytes from it.
//
// Mutants this check must kill (patches in /verif/mutants, each verified in a scratch
// worktree against the quick tier; the new key(s) each one produces):
//   C09-writevlen-fd-boundary      WriteVlen writes 253 in one byte      -> reencode/*-mismatch, block/reencode-mismatch
//   C09-wtxid-without-witness      SetHash stores the txid as wtxid      -> id/wtxid-mismatch
//   C09-vsize-floor                VSize rounds down                     -> size/vsize-mismatch
//   C09-blockweight-without-count  BuildTxListExt(true) omits the count  -> block/weight-mismatch
//   C09-segwit-nowitsize-marker    NoWitSize counts marker+flag          -> size/nowitsize-mismatch, size/weight-mismatch, size/vsize-mismatch
//   C09-vlen-fe-reads-16bit        VLen masks the 5-byte form to 24 bits -> cs/over-max-size-accepted, trunc/accepted
// Seeded changes (/verif/seeded): C09-a -> flag/unknown-optional-data-accepted, C09-c -> id/wtxid-mismatch,
//   C09-d (TxSize witness loop without the negative-length test) -> hang/TxSize-does-not-return, size/txsize-beyond-buffer

import (
	"fmt"

	"verif/ref/reftx"
)

type base struct {
	name   string
	enc    []byte
	spans  []reftx.Span
	cs     []reftx.Span // the CompactSize spans
	segwit bool
	nin    int
	pos8   []int // substitution positions
	cuts   []int // truncation points (nil = every prefix)
}

var hugeCounts = []uint64{1 << 16, 1 << 30, 1 << 32, 1 << 40, 1<<62 + 1, 1 << 63, 1<<64 - 1}
var alpha8 = []byte{0x00, 0x01, 0x7f, 0x80, 0xfc, 0xfd, 0xfe, 0xff}
var alpha6 = []byte{0x00, 0x01, 0x02, 0xfd, 0xfe, 0xff}
var markers = [][2]byte{{0, 0}, {0, 1}, {0, 2}, {0, 3}, {0, 0xff}}

func fill(n int, v byte) []byte {
	b := make([]byte, n)
	for i := range b {
		b[i] = v
	}
	return b
}

func mkIn(i int, slen int, null bool) reftx.In {
	var in reftx.In
	if null {
		in.Vout = 0xffffffff
	} else {
		for k := range in.Prev {
			in.Prev[k] = byte(0xa0 + 16*i + k%16)
		}
		in.Vout = uint32(i)
	}
	in.Script = fill(slen, byte(0x51+i))
	in.Sequence = 0xfffffffe - uint32(i)
	return in
}

func mkOut(i int, slen int) reftx.Out {
	// value bytes 03+i 00 00 00 01 00 00 00: read as a 2/4-byte count they are tiny, as an
	// 8-byte count they are refused at once (keeps count-driven loops short)
	return reftx.Out{Value: 0x0000000100000003 + uint64(i), Script: fill(slen, byte(0x61+i))}
}

func mkBase(name string, t *reftx.Tx, force bool) base {
	enc, sp := t.Layout(true, force)
	b := base{name: name, enc: enc, spans: sp, nin: len(t.In)}
	b.segwit = force || t.HasWitness()
	for _, s := range sp {
		if len(s.Kind) > 3 && s.Kind[:3] == "cs:" {
			b.cs = append(b.cs, s)
		}
	}
	return b
}

// structural positions: everything except the interior (beyond the first / before the
// last 4 bytes) of data fields longer than 16 bytes.
func structural(b *base) []int {
	var p []int
	for _, s := range b.spans {
		for k := 0; k < s.Len; k++ {
			if s.Len > 16 && (s.Kind == "scriptsig" || s.Kind == "pkscript" || s.Kind == "witem") && k >= 4 && k < s.Len-4 {
				continue
			}
			p = append(p, s.Off+k)
		}
	}
	return p
}

func allPos(n int) []int {
	p := make([]int, n)
	for i := range p {
		p[i] = i
	}
	return p
}

// baseSpec is a lazily built base: workers that are restarted often must not pay for
// building every base.
type baseSpec struct {
	name  string
	t     *reftx.Tx
	force bool
	big   bool // many tiny elements: mutations only around the ends and the count fields
}

func (s *baseSpec) build(thorough bool) *base {
	b := mkBase(s.name, s.t, s.force)
	if s.big {
		// the point of these bases is the width of a COUNT field; byte-level mutations are
		// applied to the first and last 48 bytes, field-level ones to the count fields and
		// the first / last two element-length fields
		n := len(b.enc)
		for p := 0; p < n; p++ {
			if p < 48 || p >= n-48 {
				b.pos8 = append(b.pos8, p)
				b.cuts = append(b.cuts, p)
			}
		}
		var cs []reftx.Span
		lens := 0
		for _, c := range b.cs {
			if c.Kind != "cs:nin" && c.Kind != "cs:nout" && c.Kind != "cs:nwit" {
				lens++
			}
		}
		k := 0
		for _, c := range b.cs {
			if c.Kind == "cs:nin" || c.Kind == "cs:nout" || c.Kind == "cs:nwit" {
				cs = append(cs, c)
				continue
			}
			if k < 2 || k >= lens-2 {
				cs = append(cs, c)
			}
			k++
		}
		b.cs = cs
		if n > 100000 {
			// the 65535 / 65536-element bases of the thorough tier weigh up to 2.7 MB each:
			// count fields only, 16 cut points at each end, no byte substitutions
			b.pos8 = nil
			var cuts []int
			for _, p := range b.cuts {
				if p < 16 || p >= n-16 {
					cuts = append(cuts, p)
				}
			}
			b.cuts = cuts
			cs = nil
			for _, c := range b.cs {
				if c.Kind == "cs:nin" || c.Kind == "cs:nout" || c.Kind == "cs:nwit" {
					cs = append(cs, c)
				}
			}
			b.cs = cs
		}
		return &b
	}
	if len(b.enc) <= 600 || thorough {
		b.pos8 = allPos(len(b.enc))
	} else {
		b.pos8 = structural(&b)
	}
	return &b
}

func mkBase2(name string, t *reftx.Tx, force bool) baseSpec { return baseSpec{name, t, force, false} }

// cutAt: the prefix length of truncation case i.
func cutAt(b *base, i int) int {
	if b.cuts != nil {
		return b.cuts[i]
	}
	return i
}

func buildBases(thorough bool) []baseSpec {
	var l []baseSpec
	add := func(b baseSpec) { l = append(l, b) }
	longs := []int{252, 253, 10000}
	maxN := 2 // quick: 0..2 inputs / outputs; thorough: 0..3
	if thorough {
		maxN = 3
	}
	// A. legacy shapes
	for nin := 0; nin <= maxN; nin++ {
		for nout := 0; nout <= maxN; nout++ {
			slots := nin + nout
			mk := func(lens []int) *reftx.Tx {
				t := &reftx.Tx{Version: 2, LockTime: 0x65}
				for i := 0; i < nin; i++ {
					t.In = append(t.In, mkIn(i, lens[i], false))
				}
				for i := 0; i < nout; i++ {
					t.Out = append(t.Out, mkOut(i, lens[nin+i]))
				}
				return t
			}
			for m := 0; m < 1<<uint(slots); m++ {
				lens := make([]int, slots)
				for k := range lens {
					lens[k] = (m >> uint(k)) & 1
				}
				add(mkBase2(fmt.Sprintf("legacy/%din%dout/len-mask-%d", nin, nout, m), mk(lens), false))
			}
			for s := 0; s < slots; s++ {
				for _, L := range longs {
					if L == 10000 && !thorough && slots > 2 {
						continue
					}
					lens := make([]int, slots)
					for k := range lens {
						lens[k] = 1
					}
					lens[s] = L
					add(mkBase2(fmt.Sprintf("legacy/%din%dout/slot%d-len%d", nin, nout, s, L), mk(lens), false))
				}
			}
		}
	}
	// B. coinbase-like (null prevout: 32 zero bytes + ffffffff)
	for nout := 0; nout <= 2; nout++ {
		t := &reftx.Tx{Version: 1}
		t.In = append(t.In, mkIn(0, 2, true))
		for i := 0; i < nout; i++ {
			t.Out = append(t.Out, mkOut(i, 1))
		}
		add(mkBase2(fmt.Sprintf("coinbase/%dout", nout), t, false))
	}
	{
		t := &reftx.Tx{Version: 1}
		in := mkIn(0, 2, true)
		in.Witness = [][]byte{make([]byte, 32)}
		t.In = append(t.In, in)
		t.Out = append(t.Out, mkOut(0, 1), reftx.Out{Value: 0, Script: fill(38, 0x6a)})
		add(mkBase2("coinbase/segwit", t, false))
	}
	// C. segwit shapes: every witness item-count vector in {0..3}^nin
	for nin := 0; nin <= maxN; nin++ {
		for nout := 0; nout <= maxN; nout++ {
			nv := 1
			for i := 0; i < nin; i++ {
				nv *= 4
			}
			for v := 0; v < nv; v++ {
				t := &reftx.Tx{Version: 2, LockTime: 0x65}
				x := v
				for i := 0; i < nin; i++ {
					in := mkIn(i, i&1, false)
					in.Witness = [][]byte{}
					for k := 0; k < x%4; k++ {
						in.Witness = append(in.Witness, []byte{byte(0x30 + k)})
					}
					x /= 4
					t.In = append(t.In, in)
				}
				for i := 0; i < nout; i++ {
					t.Out = append(t.Out, mkOut(i, 1))
				}
				add(mkBase2(fmt.Sprintf("segwit/%din%dout/stack-vector-%d", nin, nout, v), t, true))
			}
		}
	}
	// witness item length variations
	mkw := func(stacks ...[][]byte) *reftx.Tx {
		t := &reftx.Tx{Version: 2, LockTime: 0x65}
		for i, s := range stacks {
			in := mkIn(i, 0, false)
			in.Witness = s
			t.In = append(t.In, in)
		}
		t.Out = append(t.Out, mkOut(0, 1))
		return t
	}
	for k := 1; k <= 3; k++ {
		for m := 0; m < 1<<uint(k); m++ {
			var st [][]byte
			for j := 0; j < k; j++ {
				st = append(st, fill((m>>uint(j))&1, byte(0x40+j)))
			}
			add(mkBase2(fmt.Sprintf("segwit/1in1out/items%d-len-mask-%d", k, m), mkw(st), true))
			if k <= 2 {
				add(mkBase2(fmt.Sprintf("segwit/2in1out/empty+items%d-len-mask-%d", k, m), mkw([][]byte{}, st), true))
			}
		}
	}
	for k := 1; k <= 2; k++ {
		for j := 0; j < k; j++ {
			for _, L := range longs {
				if L == 10000 && !thorough && k > 1 {
					continue
				}
				var st [][]byte
				for q := 0; q < k; q++ {
					n := 1
					if q == j {
						n = L
					}
					st = append(st, fill(n, byte(0x40+q)))
				}
				add(mkBase2(fmt.Sprintf("segwit/1in1out/items%d-item%d-len%d", k, j, L), mkw(st), true))
			}
		}
	}
	// D. every COUNT field at the CompactSize width boundaries, with the smallest elements:
	// number of inputs, of outputs, of witness items of an input
	bounds := []int{252, 253, 254}
	if thorough {
		bounds = append(bounds, 65535, 65536)
	}
	for _, n := range bounds {
		n := n
		big := func(name string, t *reftx.Tx) { add(baseSpec{name, t, t.HasWitness(), true}) }
		{
			t := &reftx.Tx{Version: 2, LockTime: 0x65}
			for i := 0; i < n; i++ {
				t.In = append(t.In, mkIn(i, 0, false))
			}
			t.Out = append(t.Out, mkOut(0, 1))
			big(fmt.Sprintf("count/%d-inputs", n), t)
		}
		{
			t := &reftx.Tx{Version: 2, LockTime: 0x65}
			t.In = append(t.In, mkIn(0, 1, false))
			for i := 0; i < n; i++ {
				t.Out = append(t.Out, mkOut(i, 0))
			}
			big(fmt.Sprintf("count/%d-outputs", n), t)
		}
		for _, il := range []int{0, 1} {
			items := make([][]byte, n)
			for i := range items {
				items[i] = fill(il, byte(i))
			}
			t := mkw(items)
			big(fmt.Sprintf("count/%d-witness-items-of-%d-bytes", n, il), t)
			t2 := mkw([][]byte{{0x30}}, items)
			big(fmt.Sprintf("count/2in-second-with-%d-witness-items-of-%d-bytes", n, il), t2)
		}
		{ // every count wide at once
			t := &reftx.Tx{Version: 2, LockTime: 0x65}
			items := make([][]byte, n)
			for i := range items {
				items[i] = []byte{}
			}
			if n <= 254 {
				for i := 0; i < n; i++ {
					in := mkIn(i, 0, false)
					in.Witness = [][]byte{}
					if i == 0 || i == n-1 {
						in.Witness = items
					}
					t.In = append(t.In, in)
				}
				for i := 0; i < n; i++ {
					t.Out = append(t.Out, mkOut(i, 0))
				}
				big(fmt.Sprintf("count/%d-inputs-outputs-witness-items", n), t)
			}
		}
	}
	return l
}

// ---- transaction mutation families ----

var txFams = []string{"id", "trunc", "subst", "nonmin", "huge", "wrap", "wrap2", "marker", "emptywit", "trail"}

func txFamCount(b *base, fam string, alpha []byte) int {
	switch fam {
	case "id":
		return 1
	case "trunc":
		if b.cuts != nil {
			return len(b.cuts)
		}
		return len(b.enc)
	case "subst":
		return len(b.pos8) * len(alpha)
	case "nonmin":
		return len(b.cs) * 3
	case "huge":
		return len(b.cs) * len(hugeCounts)
	case "wrap":
		n := 0
		for _, c := range b.cs {
			n += len(wrapValues(c.Off, len(b.enc)-c.Off-c.Len))
		}
		return n
	case "wrap2":
		return len(csPairs(b)) * len(wrapParents) * wrapChildN
	case "marker":
		return len(markers)
	case "emptywit":
		if b.segwit {
			return 0
		}
		return 1
	case "trail":
		return 4
	}
	return 0
}

func replaceSpan(enc []byte, s reftx.Span, with []byte) []byte {
	r := make([]byte, 0, len(enc)-s.Len+len(with))
	r = append(r, enc[:s.Off]...)
	r = append(r, with...)
	return append(r, enc[s.Off+s.Len:]...)
}

func txGen(b *base, fam string, alpha []byte, i int) []byte {
	switch fam {
	case "id":
		return append([]byte{}, b.enc...)
	case "trunc":
		return append([]byte{}, b.enc[:cutAt(b, i)]...)
	case "subst":
		p, v := b.pos8[i/len(alpha)], alpha[i%len(alpha)]
		if b.enc[p] == v {
			return nil
		}
		r := append([]byte{}, b.enc...)
		r[p] = v
		return r
	case "nonmin":
		s := b.cs[i/3]
		w := []int{3, 5, 9}[i%3]
		if w <= s.Len {
			return nil
		}
		f, _ := reftx.PutCSForm(s.Val, w)
		return replaceSpan(b.enc, s, f)
	case "huge":
		s := b.cs[i/len(hugeCounts)]
		return replaceSpan(b.enc, s, reftx.PutCS(nil, hugeCounts[i%len(hugeCounts)]))
	case "wrap":
		for _, c := range b.cs {
			v := wrapValues(c.Off, len(b.enc)-c.Off-c.Len)
			if i < len(v) {
				return replaceSpan(b.enc, c, reftx.PutCS(nil, v[i]))
			}
			i -= len(v)
		}
		return nil
	case "wrap2":
		pr := csPairs(b)[i/(len(wrapParents)*wrapChildN)]
		i %= len(wrapParents) * wrapChildN
		par, ch := b.cs[pr[0]], b.cs[pr[1]]
		pv := wrapParents[i/wrapChildN]
		if pv == 0 { // the largest count a "not more elements than bytes left" test lets through
			pv = uint64(len(b.enc) - par.Off - par.Len)
		}
		pe := reftx.PutCS(nil, pv)
		cv := wrapChildValues(ch.Off + len(pe) - par.Len)[i%wrapChildN]
		r := replaceSpan(b.enc, ch, reftx.PutCS(nil, cv)) // the later field first: offsets before it stay
		return replaceSpan(r, par, pe)
	case "marker":
		m := markers[i]
		if b.segwit {
			r := append([]byte{}, b.enc...)
			r[4], r[5] = m[0], m[1]
			return r
		}
		r := append([]byte{}, b.enc[:4]...)
		r = append(r, m[0], m[1])
		return append(r, b.enc[4:]...)
	case "emptywit":
		// legacy transaction re-encoded with marker/flag and one empty stack per input
		r := append([]byte{}, b.enc[:4]...)
		r = append(r, 0, 1)
		r = append(r, b.enc[4:len(b.enc)-4]...)
		r = append(r, make([]byte, b.nin)...)
		return append(r, b.enc[len(b.enc)-4:]...)
	case "trail":
		r := append([]byte{}, b.enc...)
		switch i {
		case 0:
			return append(r, 0)
		case 1:
			return append(r, 0xff)
		case 2:
			return append(r, b.enc...)
		}
		return append(r, 1, 0, 0, 0)
	}
	return nil
}

// txTail gives plausible bytes that may follow a case in a larger buffer (the case is
// then presented as backing[:len] with these bytes within the capacity): the rest of the
// valid encoding for a truncation, the next transaction's first bytes otherwise.
func txTail(b *base, fam string, i int) []byte {
	if fam == "trunc" {
		t := b.enc[cutAt(b, i):]
		if len(t) > 4096 {
			t = t[:4096]
		}
		return t
	}
	if len(b.enc) > 64 {
		return b.enc[:64]
	}
	return b.enc
}

// wrapValues: count / length values chosen so that position arithmetic on them wraps
// around in a signed 64-bit int. off = offset of the field, rem = bytes after the field.
// For a prefix of n bytes read at off, off+n+value lands on off, off-1, 0, 1 (value =
// -n, -(n+1), -(off+n), -(off+n)+1 as two's complement) or on len(b) and its neighbours
// (value = rem, rem +-1, and the same minus the 4 lock-time bytes).
func wrapValues(off, rem int) []uint64 {
	var v []uint64
	seen := map[uint64]bool{}
	add := func(x uint64) {
		if !seen[x] {
			seen[x] = true
			v = append(v, x)
		}
	}
	for k := 1; k <= 11; k++ {
		add(-uint64(k))
	}
	for _, n := range []int{1, 3, 5, 9} {
		for d := -1; d <= 1; d++ {
			add(uint64(-(off + n) + d))
		}
	}
	for _, x := range []uint64{1<<63 - 1, 1 << 63, 1<<63 + 1, 1<<32 - 1, 1 << 32, 1<<31 - 1, 1 << 31} {
		add(x)
	}
	for _, d := range []int{-5, -4, -3, -1, 0, 1} {
		if rem+d >= 0 {
			add(uint64(rem + d))
		}
	}
	return v
}

// wrap2: a count field together with the length field of its first element.
// (largest first: a loop that never ends is met before one that is merely long)
// No counts near 2^32: a loop of that many cheap iterations lasts about as long as the
// watchdog, the verdict would depend on the machine; 2^62+1 iterations end nowhere.
var wrapParents = []uint64{1<<63 - 1, 1<<64 - 1, 1<<62 + 1, 0 /* = bytes left */}

const wrapChildN = 24

func wrapChildValues(off int) []uint64 {
	var v []uint64
	for k := 1; k <= 10; k++ {
		v = append(v, -uint64(k))
	}
	for _, n := range []int{1, 3, 5, 9} {
		for d := 0; d <= 2; d++ {
			v = append(v, uint64(-(off+n)+d))
		}
	}
	v = append(v, 1<<63-1, 1<<63)
	if len(v) != wrapChildN {
		panic("wrapChildN")
	}
	return v
}

// csPairs: (index of a count field, index of the length field of its first element).
func csPairs(b *base) [][2]int {
	child := map[string]string{"cs:nin": "cs:scriptsig", "cs:nout": "cs:pkscript", "cs:nwit": "cs:witem"}
	var l [][2]int
	for i := 0; i+1 < len(b.cs); i++ {
		if c, ok := child[b.cs[i].Kind]; ok && b.cs[i+1].Kind == c {
			l = append(l, [2]int{i, i + 1})
		}
	}
	return l
}

// ---- direct CompactSize family: btc.VLen / btc.VULe on every truncation of every form
// of boundary values ----

var vlenValues = []uint64{0, 1, 0xfc, 0xfd, 0xfe, 0xff, 0x100, 0xffff, 0x10000, 0x10001, 0xffffffff, 0x100000000, 0x100000001,
	1<<63 - 1, 1 << 63, 1<<64 - 9, 1<<64 - 1}

func vlenCount() int { return len(vlenValues) * 4 * 10 }

// case i: value, form width (1,3,5,9: all forms incl. non-minimal ones), cut to 0..9 bytes
func vlenGen(i int) []byte {
	v := vlenValues[i/40]
	w := []int{1, 3, 5, 9}[(i/10)%4]
	cut := i % 10
	f, ok := reftx.PutCSForm(v, w)
	if !ok || cut > len(f) {
		return nil
	}
	if cut == len(f) && cut < 9 {
		return append(append([]byte{}, f...), 0x7f) // complete, followed by another byte
	}
	return append([]byte{}, f[:cut]...)
}

// ---- family (ii): all short strings over alpha6 after a 4-byte version ----

func shortCount(maxLen int) int {
	n, p := 0, 1
	for l := 0; l <= maxLen; l++ {
		n += p
		p *= len(alpha6)
	}
	return n
}

func shortGen(i int) []byte {
	l, p := 0, 1
	for i >= p {
		i -= p
		p *= len(alpha6)
		l++
	}
	r := []byte{1, 0, 0, 0}
	t := make([]byte, l)
	for k := l - 1; k >= 0; k-- {
		t[k] = alpha6[i%len(alpha6)]
		i /= len(alpha6)
	}
	return append(r, t...)
}

// ---- family (iii): blocks ----

type bbase struct {
	name  string
	enc   []byte
	count int
	csLen int
	pos   []int
	cuts  []int // truncation points (nil = every prefix)
}

func blockTxPool() (good [][]byte, bad [][]byte, names []string, badNames []string) {
	cb := &reftx.Tx{Version: 1}
	cb.In = append(cb.In, mkIn(0, 2, true))
	cb.Out = append(cb.Out, mkOut(0, 1))
	leg := &reftx.Tx{Version: 2, LockTime: 0x65}
	leg.In = append(leg.In, mkIn(1, 1, false))
	leg.Out = append(leg.Out, mkOut(1, 1))
	sw := &reftx.Tx{Version: 2}
	in := mkIn(2, 0, false)
	in.Witness = [][]byte{{0x30}, {}}
	sw.In = append(sw.In, in)
	sw.Out = append(sw.Out, mkOut(2, 1))
	cbw := &reftx.Tx{Version: 1}
	in = mkIn(0, 2, true)
	in.Witness = [][]byte{make([]byte, 32)}
	cbw.In = append(cbw.In, in)
	cbw.Out = append(cbw.Out, mkOut(0, 1))
	big := &reftx.Tx{Version: 2}
	big.In = append(big.In, mkIn(0, 253, false), mkIn(1, 0, false))
	big.Out = append(big.Out, mkOut(0, 0), mkOut(1, 1))
	empty := &reftx.Tx{Version: 2, LockTime: 1}
	for _, t := range []*reftx.Tx{cb, leg, sw, cbw, big, empty} {
		good = append(good, t.Serialize(true))
	}
	names = []string{"cb", "leg", "sw", "cbw", "big", "empty"}
	// transactions Core refuses
	lb := mkBase("leg", leg, false)
	f, _ := reftx.PutCSForm(1, 3)
	bad = append(bad, replaceSpan(lb.enc, lb.cs[0], f))
	bad = append(bad, txGen(&lb, "emptywit", nil, 0))
	bad = append(bad, lb.enc[:len(lb.enc)-1])
	badNames = []string{"nonmin", "superfluous", "short"}
	return
}

func buildBlocks(thorough bool) []bbase {
	good, bad, names, badNames := blockTxPool()
	var hdr []byte
	for i := 0; i < 80; i++ {
		hdr = append(hdr, byte(0xc0+i%32))
	}
	var l []bbase
	maxTx := 2
	if thorough {
		maxTx = 3
	}
	mk := func(name string, txs [][]byte) {
		b := bbase{name: name, count: len(txs), csLen: 1}
		b.enc = append(append([]byte{}, hdr...), byte(len(txs)))
		for _, t := range txs {
			b.enc = append(b.enc, t...)
		}
		if len(txs) <= 2 || thorough {
			for p := 80; p < len(b.enc); p++ {
				b.pos = append(b.pos, p)
			}
		}
		l = append(l, b)
	}
	var rec func(prefix []int)
	rec = func(prefix []int) {
		var txs [][]byte
		name := "blk"
		for _, x := range prefix {
			txs = append(txs, good[x])
			name += "/" + names[x]
		}
		mk(name, txs)
		if len(prefix) < maxTx {
			for x := range good {
				rec(append(append([]int{}, prefix...), x))
			}
		}
	}
	rec(nil)
	for bi, bt := range bad {
		mk("blk/bad-"+badNames[bi], [][]byte{bt})
		for x := range good {
			mk("blk/"+names[x]+"/bad-"+badNames[bi], [][]byte{good[x], bt})
			mk("blk/bad-"+badNames[bi]+"/"+names[x], [][]byte{bt, good[x]})
		}
	}
	// many minimal transactions: the transaction COUNT at the CompactSize width boundaries
	// (a coinbase-like transaction, then 10-byte transactions without inputs and outputs,
	// which Core's deserialiser accepts). Byte-level mutations around both ends only.
	many := []int{252, 253, 254}
	if thorough {
		many = append(many, 65536)
	}
	for _, n := range many {
		b := bbase{name: fmt.Sprintf("blk/%d-minimal-txs", n), count: n}
		cs := reftx.PutCS(nil, uint64(n))
		b.csLen = len(cs)
		b.enc = append(append([]byte{}, hdr...), cs...)
		b.enc = append(b.enc, good[0]...)
		for i := 1; i < n; i++ {
			b.enc = append(b.enc, good[5]...)
		}
		L := len(b.enc)
		for p := 0; p < L; p++ {
			if (p < 160 || p >= L-48) && (n <= 254 || p < 100 || p >= L-16) {
				b.cuts = append(b.cuts, p)
				if p >= 80 && n <= 254 {
					b.pos = append(b.pos, p)
				}
			}
		}
		l = append(l, b)
	}
	return l
}

// blockCutAt: the prefix length of truncation case i of a block base.
func blockCutAt(b *bbase, i int) int {
	if b.cuts != nil {
		return b.cuts[i]
	}
	return i
}

// blockTail: bytes that may follow a block case inside a larger buffer.
func blockTail(b *bbase, fam string, i int) []byte {
	i >>= 1
	if fam == "trunc" {
		t := b.enc[blockCutAt(b, i):]
		if len(t) > 4096 {
			t = t[:4096]
		}
		return t
	}
	t := b.enc[80:]
	if len(t) > 96 {
		t = t[:96]
	}
	return t
}

var blockFams = []string{"id", "trunc", "count", "trail", "subst"}

func blockCounts(b *bbase) [][]byte {
	var l [][]byte
	for v := 0; v <= 5; v++ {
		l = append(l, []byte{byte(v)})
	}
	for _, w := range []int{3, 5, 9} {
		f, _ := reftx.PutCSForm(uint64(b.count), w)
		l = append(l, f)
	}
	for _, h := range hugeCounts {
		l = append(l, reftx.PutCS(nil, h))
	}
	l = append(l, []byte{0xfc}, []byte{0xfd, 0xfd, 0x00})
	for _, v := range wrapValues(80, len(b.enc)-80-b.csLen) {
		l = append(l, reftx.PutCS(nil, v))
	}
	return l
}

// every block case is evaluated with dohash = index&1.
func blockFamCount(b *bbase, fam string) int {
	n := 0
	switch fam {
	case "id":
		n = 1
	case "trunc":
		n = len(b.enc)
		if b.cuts != nil {
			n = len(b.cuts)
		}
	case "count":
		n = len(blockCounts(b))
	case "trail":
		n = 3
	case "subst":
		n = len(b.pos) * len(alpha8)
	}
	return 2 * n
}

func blockGen(b *bbase, fam string, i int) (enc []byte, dohash bool) {
	dohash = i&1 == 1
	i >>= 1
	switch fam {
	case "id":
		enc = append([]byte{}, b.enc...)
	case "trunc":
		enc = append([]byte{}, b.enc[:blockCutAt(b, i)]...)
	case "count":
		c := blockCounts(b)[i]
		enc = append(append(append([]byte{}, b.enc[:80]...), c...), b.enc[80+b.csLen:]...)
	case "trail":
		enc = append([]byte{}, b.enc...)
		switch i {
		case 0:
			enc = append(enc, 0)
		case 1:
			enc = append(enc, 0xff)
		default:
			t := b.enc[80+b.csLen:]
			if len(t) > 4096 {
				t = t[:4096]
			}
			enc = append(enc, t...)
		}
	case "subst":
		p, v := b.pos[i/len(alpha8)], alpha8[i%len(alpha8)]
		if b.enc[p] == v {
			return nil, dohash
		}
		enc = append([]byte{}, b.enc...)
		enc[p] = v
	}
	return
}
