package main

// Worker side of C09: evaluates byte strings on gocoin's decoder (btc.NewTx, the Tx
// methods, btc.NewBlock + BuildTxListExt) and on the reference (reftx), single-threaded,
// with the allocation of every decode measured through runtime.MemStats.TotalAlloc.
// The worker is a child process of the check's own binary, started under `ulimit -v`,
// because a fatal out-of-memory error cannot be recovered in-process.

import (
	"bufio"
	"bytes"
	"encoding/hex"
	"encoding/json"
	"errors"
	"fmt"
	"os"
	"runtime"
	"strings"
	"syscall"

	"github.com/piotrnar/gocoin/lib/btc"

	"verif/ref/reftx"
)

type jobSpec struct {
	Kind   string `json:"kind"` // "tx" (base+family), "short", "block", "rawtx", "rawblock"
	Base   int    `json:"base"`
	Fam    string `json:"fam"`
	Lo     int    `json:"lo"`
	Hi     int    `json:"hi"`
	Alpha  int    `json:"alpha"` // 8 or 256 (subst alphabet for tx bases)
	Hex    string `json:"hex,omitempty"`
	Tail   string `json:"tail,omitempty"` // raw jobs: bytes that follow the case within the slice's capacity
	DoHash bool   `json:"dohash,omitempty"`
	Thor   bool   `json:"thor"`
}

type viol struct {
	Key  string `json:"key"`
	What string `json:"what"`
}

type caseResult struct {
	TxSizeOnRefused string // reference error class when TxSize > 0 although the reference refuses
	Tail            []byte // the capacity tail that exposed a cap/ finding
	Class           string // outcome class
	Shape           string // shape signature of the decoded object
	Viol            []viol
	Alloc           uint64
	Len             int
	Acc             bool // implementation accepted
}

type violAgg struct {
	Count  int    `json:"count"`
	Hex    string `json:"hex"`
	Tail   string `json:"tail,omitempty"`
	DoHash bool   `json:"dohash"`
	Kind   string `json:"kind"`
	What   string `json:"what"`
}

type batchResult struct {
	Evals     int                 `json:"evals"`
	Skipped   int                 `json:"skipped"`
	Classes   map[string]int      `json:"classes"`
	Shapes    map[string]int      `json:"shapes"`
	Viol      map[string]*violAgg `json:"viol"`
	MaxFrac   float64             `json:"max_frac"`     // max alloc/bound over accepted decodes
	MaxFracHx string              `json:"max_frac_hex"` // its case
	TxSizePos map[string]int      `json:"txsize_pos,omitempty"`
	Sample    string              `json:"sample,omitempty"`
	SampleCl  string              `json:"sample_class,omitempty"`
}

func allocBound(n int) uint64 { return 64*uint64(n) + 64<<10 }

func normPanic(v interface{}) string {
	s := fmt.Sprint(v)
	var b strings.Builder
	prev := false
	for _, c := range s {
		if c >= '0' && c <= '9' {
			if !prev {
				b.WriteByte('#')
			}
			prev = true
			continue
		}
		prev = false
		b.WriteRune(c)
	}
	s = b.String()
	if len(s) > 90 {
		s = s[:90]
	}
	return s
}

func try(name string, f func()) (p string) {
	defer func() {
		if r := recover(); r != nil {
			p = name + ":" + normPanic(r)
		}
	}()
	f()
	return ""
}

func errClass(err error) string {
	switch {
	case err == nil:
		return "ok"
	case errors.Is(err, reftx.ErrTrunc):
		return "trunc"
	case errors.Is(err, reftx.ErrNonCanonical):
		return "noncanonical"
	case errors.Is(err, reftx.ErrTooLarge):
		return "toolarge"
	case errors.Is(err, reftx.ErrSuperfluousWitness):
		return "superfluous-witness"
	case errors.Is(err, reftx.ErrUnknownOptional):
		return "unknown-optional"
	}
	return "other"
}

// classifyAccepted names the reason gocoin accepted an encoding the reference refuses.
const nilKey = "trunc/nil-element-accepted"

func hasNilElement(tx *btc.Tx) bool {
	for _, ti := range tx.TxIn {
		if ti == nil {
			return true
		}
	}
	for _, to := range tx.TxOut {
		if to == nil {
			return true
		}
	}
	return false
}

func classifyAccepted(rerr error, tx *btc.Tx, b []byte) viol {
	for _, ti := range tx.TxIn {
		if ti == nil {
			return viol{nilKey, "NewTx returns a transaction holding a nil *TxIn: NewTxIn hit the end of the buffer inside its length prefix, returned (nil,0), and NewTx ignored that and went on decoding at the same offset (reference: " + rerr.Error() + ")"}
		}
	}
	for _, to := range tx.TxOut {
		if to == nil {
			return viol{nilKey, "NewTx returns a transaction holding a nil *TxOut: NewTxOut hit the end of the buffer inside its length prefix, returned (nil,0), and NewTx ignored that and went on decoding at the same offset (reference: " + rerr.Error() + ")"}
		}
	}
	if len(tx.TxIn) == 0 && tx.SegWit == nil && len(b) > 5 && b[4] == 0 && b[5] != 0 {
		return viol{"marker/empty-vin-nonzero-flag-accepted", "after an empty input vector Core reads the next byte as the BIP144 flag byte (only 01 with a real witness is legal; anything else is refused); NewTx treats every value but 01 as the output count and accepts a 0-input transaction (reference: " + rerr.Error() + ")"}
	}
	switch {
	case errors.Is(rerr, reftx.ErrNonCanonical):
		return viol{"cs/non-minimal-accepted", "a CompactSize that is not in its shortest form is accepted (Core: non-canonical ReadCompactSize())"}
	case errors.Is(rerr, reftx.ErrSuperfluousWitness):
		return viol{"wit/superfluous-accepted", "marker/flag 00 01 with every witness stack empty is accepted (Core: Superfluous witness record)"}
	case errors.Is(rerr, reftx.ErrTooLarge):
		return viol{"cs/over-max-size-accepted", "a CompactSize above MAX_SIZE is accepted"}
	case errors.Is(rerr, reftx.ErrTrunc):
		return viol{"trunc/accepted", "a truncated encoding is accepted"}
	case errors.Is(rerr, reftx.ErrUnknownOptional):
		return viol{"flag/unknown-optional-data-accepted", "unknown flag bits are accepted"}
	}
	return viol{"accept/refused-by-reference", rerr.Error()}
}

func shapeOf(nin, nout int, wit bool) string {
	c := func(n int) string {
		if n > 3 {
			return ">3"
		}
		return fmt.Sprint(n)
	}
	return fmt.Sprintf("%sin/%sout/wit=%v", c(nin), c(nout), wit)
}

// compareTx checks the size/hash/serialisation reports of an accepted transaction whose
// fields have been set (SetHash or BuildTxListExt) against the reference transaction.
func compareTx(tx *btc.Tx, rt *reftx.Tx, raw []byte, hashes bool, wtxidMayBeZero bool, add func(k, w string)) {
	full := rt.Serialize(true)
	nowit := rt.Serialize(false)
	if p := try("SerializeNew", func() {
		if s := tx.SerializeNew(); !bytes.Equal(s, raw) {
			add("reencode/serialize-new-mismatch", fmt.Sprintf("SerializeNew gives %x", s))
		}
	}); p != "" {
		add("panic/"+p, "panic in SerializeNew")
	}
	if p := try("Serialize", func() {
		if s := tx.Serialize(); !bytes.Equal(s, nowit) {
			add("reencode/serialize-nowit-mismatch", fmt.Sprintf("Serialize gives %x, want %x", s, nowit))
		}
		var w bytes.Buffer
		tx.WriteSerialized(&w)
		if !bytes.Equal(w.Bytes(), nowit) {
			add("reencode/write-serialized-mismatch", fmt.Sprintf("WriteSerialized gives %x, want %x", w.Bytes(), nowit))
		}
	}); p != "" {
		add("panic/"+p, "panic in Serialize")
	}
	if hashes {
		if want := rt.TxID(); tx.Hash.Hash != want {
			add("id/txid-mismatch", fmt.Sprintf("Hash=%x want %x", tx.Hash.Hash, want))
		}
		if p := try("WTxID", func() {
			want := rt.WTxID()
			got := tx.WTxID().Hash
			if got != want && !(wtxidMayBeZero && got == [32]byte{}) {
				add("id/wtxid-mismatch", fmt.Sprintf("WTxID()=%x want %x", got, want))
			}
		}); p != "" {
			add("panic/"+p, "panic in WTxID")
		}
	}
	if int(tx.Size) != len(full) {
		add("size/size-mismatch", fmt.Sprintf("Size=%d want %d", tx.Size, len(full)))
	}
	if int(tx.NoWitSize) != len(nowit) {
		add("size/nowitsize-mismatch", fmt.Sprintf("NoWitSize=%d want %d", tx.NoWitSize, len(nowit)))
	}
	if tx.Weight() != rt.Weight() {
		add("size/weight-mismatch", fmt.Sprintf("Weight()=%d want %d", tx.Weight(), rt.Weight()))
	}
	if tx.VSize() != rt.VSize() {
		add("size/vsize-mismatch", fmt.Sprintf("VSize()=%d want %d (weight %d)", tx.VSize(), rt.VSize(), rt.Weight()))
	}
	// decoded fields
	ok := tx.Version == rt.Version && tx.Lock_time == rt.LockTime && len(tx.TxIn) == len(rt.In) && len(tx.TxOut) == len(rt.Out)
	if ok {
		for i, ti := range tx.TxIn {
			r := &rt.In[i]
			if ti == nil || ti.Input.Hash != r.Prev || ti.Input.Vout != r.Vout || ti.Sequence != r.Sequence || !bytes.Equal(ti.ScriptSig, r.Script) {
				ok = false
				break
			}
			if rt.HasWitness() {
				if len(tx.SegWit) != len(rt.In) || len(tx.SegWit[i]) != len(r.Witness) {
					ok = false
					break
				}
				for j := range r.Witness {
					if !bytes.Equal(tx.SegWit[i][j], r.Witness[j]) {
						ok = false
					}
				}
			}
		}
		for i, to := range tx.TxOut {
			if to == nil || to.Value != rt.Out[i].Value || !bytes.Equal(to.Pk_script, rt.Out[i].Script) {
				ok = false
			}
		}
		if !rt.HasWitness() && tx.SegWit != nil {
			ok = false
		}
	}
	if !ok {
		add("decode/field-mismatch", "decoded fields differ from the reference decode")
	}
}

var memA, memB runtime.MemStats

// routes: the other ways the library offers to obtain the numbers of the same accepted
// transaction must agree with the reference (hence with each other and with
// NewTx+SetHash(raw), which evalTx compares first):
//   - NewTx, Tx.Raw set by the caller, SetHash(nil)
//   - the transaction as second transaction of a block: NewBlock + BuildTxListExt(true)
//     and (false), which take NoWitSize from NewTx's offsets and Size from the raw range
//
// doRoutes is switched off for the thorough tier's substitutions by values outside the
// 8-value alphabet (256 values per position: the routes are compared for the 8 values
// that both tiers use).
var doRoutes = true

var routeCb = (&reftx.Tx{Version: 1, In: []reftx.In{{Vout: 0xffffffff, Script: []byte{0x51, 0x51}, Sequence: 0xffffffff}}, Out: []reftx.Out{{Value: 1, Script: []byte{0x51}}}})

func routes(raw []byte, rt *reftx.Tx, add func(k, w string)) {
	pre := func(p string) func(k, w string) { return func(k, w string) { add(p+k, w) } }
	if p := try("SetHash(nil)", func() {
		tx2, n2 := btc.NewTx(raw)
		if tx2 == nil || n2 != len(raw) {
			add("route-sethash-nil/refused", "NewTx refuses its own consumed bytes")
			return
		}
		tx2.Raw = raw
		tx2.SetHash(nil)
		compareTx(tx2, rt, raw, true, false, pre("route-sethash-nil/"))
	}); p != "" {
		add("panic/"+p, "panic in NewTx + SetHash(nil)")
	}
	cb := routeCb.Serialize(true)
	blk := make([]byte, 80, 81+len(cb)+len(raw))
	blk = append(append(append(blk, 2), cb...), raw...)
	wantW := 4*81 + routeCb.Weight() + rt.Weight()
	for _, dohash := range []bool{true, false} {
		stage('b')
		if p := try("BuildTxListExt", func() {
			bl, err := btc.NewBlock(blk)
			if err == nil {
				err = bl.BuildTxListExt(dohash)
			}
			if err != nil || len(bl.Txs) != 2 || bl.Txs[1] == nil {
				add("route-block/refused", fmt.Sprintf("a block holding the accepted transaction as its second transaction is refused (hashes=%v): %v", dohash, err))
				return
			}
			compareTx(bl.Txs[1], rt, raw, dohash, false, pre("route-block/"))
			if int(bl.BlockWeight) != wantW {
				add("route-block/block-weight-mismatch", fmt.Sprintf("BlockWeight=%d want %d (hashes=%v)", bl.BlockWeight, wantW, dohash))
			}
		}); p != "" {
			add("panic/"+p, "panic in NewBlock + BuildTxListExt on a block holding the accepted transaction")
		}
	}
}

// stage tells the parent which API is about to run (hang attribution): 'n' NewTx,
// 't' TxSize, 'b' NewBlock/BuildTxListExt, 'v' VLen/VULe.
var stage = func(c byte) {}

// spare returns the case as a slice whose capacity extends over tail: b[:len] of a longer
// backing array, the way a transaction sits inside a block or a network buffer.
func spare(c, tail []byte) []byte {
	back := make([]byte, len(c)+len(tail))
	copy(back, c)
	copy(back[len(c):], tail)
	return back[:len(c)]
}

func tails(cont []byte) (t [][]byte, names []string) {
	if len(cont) > 0 {
		t, names = append(t, cont), append(names, "continuation of the data")
	}
	ff := make([]byte, 16)
	for i := range ff {
		ff[i] = 0xff
	}
	return append(t, ff, make([]byte, 16)), append(names, "16 x ff", "16 x 00")
}

func evalTx(b []byte, cont []byte) (res caseResult) {
	res.Len = len(b)
	add := func(k, w string) {
		for _, v := range res.Viol {
			if v.Key == k {
				return
			}
		}
		res.Viol = append(res.Viol, viol{k, w})
	}
	rt, rn, rerr := reftx.DecodeTx(b)
	if rerr == nil {
		if !bytes.Equal(rt.Serialize(true), b[:rn]) {
			fmt.Fprintf(os.Stderr, "HARNESS: reference re-encoding differs for %x\n", b)
			os.Exit(3)
		}
	}
	in := make([]byte, len(b)) // cap == len: reads past the end must fault
	copy(in, b)
	var tx *btc.Tx
	var n int
	stage('n')
	runtime.ReadMemStats(&memA)
	p := try("NewTx", func() { tx, n = btc.NewTx(in) })
	runtime.ReadMemStats(&memB)
	res.Alloc = memB.TotalAlloc - memA.TotalAlloc
	if p != "" {
		add("panic/"+p, "panic out of btc.NewTx")
		tx = nil
	}
	if res.Alloc > allocBound(len(b)) {
		add("alloc/count-driven-disproportionate", fmt.Sprintf("btc.NewTx allocated %d bytes for a %d-byte input (bound 64*len+64KiB = %d): a count/length prefix drives make() before the data is known to be there", res.Alloc, len(b), allocBound(len(b))))
	}
	acc := tx != nil && n > 0
	if tx != nil && (n <= 0 || n > len(b)) {
		add("accept/consumed-out-of-range", fmt.Sprintf("NewTx returned a transaction with consumed=%d for %d bytes", n, len(b)))
		acc = false
	}
	res.Acc = acc
	implCl := "refuse"
	if acc {
		implCl = "accept"
		raw := in[:n]
		if rerr != nil {
			v := classifyAccepted(rerr, tx, b)
			// the remaining API must still not crash on what NewTx returned
			var pan []string
			for _, c := range []struct {
				n string
				f func()
			}{{"SetHash", func() { tx.SetHash(raw) }}, {"Serialize", func() { tx.Serialize() }}, {"SerializeNew", func() { tx.SerializeNew() }}, {"WTxID", func() { tx.WTxID() }}, {"Weight", func() { tx.Weight(); tx.VSize() }}} {
				if p := try(c.n, c.f); p != "" {
					pan = append(pan, p)
				}
			}
			if v.Key == nilKey {
				if len(pan) > 0 {
					v.What += "; using it panics: " + strings.Join(pan, ", ")
				}
				add(v.Key, v.What)
			} else {
				add(v.Key, v.What)
				for _, p := range pan {
					add("panic/"+p, "panic in a Tx method on a transaction returned by NewTx")
				}
			}
			res.Shape = shapeOf(len(tx.TxIn), len(tx.TxOut), tx.SegWit != nil)
		} else {
			if p := try("SetHash", func() { tx.SetHash(raw) }); p != "" {
				add("panic/"+p, "panic in Tx.SetHash on a transaction returned by NewTx")
			}
			if n != rn {
				add("accept/consumed-mismatch", fmt.Sprintf("NewTx consumed %d bytes, reference %d", n, rn))
			} else {
				compareTx(tx, rt, b[:rn], true, false, add)
				if doRoutes {
					routes(in[:rn], rt, add)
				}
			}
			res.Shape = shapeOf(len(rt.In), len(rt.Out), rt.HasWitness())
		}
	} else if rerr == nil {
		add("refuse/valid-encoding-refused", "NewTx refuses an encoding Core's deserialiser accepts")
		res.Shape = shapeOf(len(rt.In), len(rt.Out), rt.HasWitness())
	}
	res.Class = "ref=" + errClass(rerr) + "/impl=" + implCl
	// TxSize on every input: must return, stay inside the buffer, and give the consumed
	// size for what the reference accepts
	tsA := -1
	stage('t')
	if p := try("TxSize", func() { tsA = btc.TxSize(in) }); p != "" {
		add("panic/"+p, "panic out of btc.TxSize")
	} else if tsA < 0 || tsA > len(b) {
		add("size/txsize-beyond-buffer", fmt.Sprintf("TxSize()=%d for a %d-byte input", tsA, len(b)))
	} else if rerr == nil && tsA != rn {
		add("size/txsize-mismatch", fmt.Sprintf("TxSize()=%d want %d", tsA, rn))
	} else if rerr != nil && tsA > 0 {
		// counted, not judged: TxSize only measures, it builds no transaction; every caller
		// hands the bytes to NewTx, which is judged
		res.TxSizeOnRefused = errClass(rerr)
		if tx != nil {
			res.TxSizeOnRefused += "/NewTx-accepts"
		} else {
			res.TxSizeOnRefused += "/NewTx-refuses"
		}
	}
	// the same bytes as b[:len] of a longer backing array: nothing may depend on what lies
	// between len and cap
	var serA []byte
	if acc && !hasNilElement(tx) {
		try("SerializeNew", func() { serA = tx.SerializeNew() })
	}
	tl, tn := tails(cont)
	for ti, t := range tl {
		in2 := spare(b, t)
		var tx2 *btc.Tx
		var n2 int
		stage('n')
		if p := try("NewTx", func() { tx2, n2 = btc.NewTx(in2) }); p != "" {
			add("panic/"+p, "panic out of btc.NewTx")
			continue
		}
		acc2 := tx2 != nil && n2 > 0
		var ser2 []byte
		if acc2 && !hasNilElement(tx2) {
			try("SerializeNew", func() { ser2 = tx2.SerializeNew() })
		}
		if acc2 != acc || (acc && (n2 != n || !bytes.Equal(ser2, serA))) || n2 > len(b) {
			add("cap/NewTx-reads-beyond-len", fmt.Sprintf("btc.NewTx on a %d-byte slice with cap==len gives (tx!=nil: %v, consumed %d); the same slice taken from a longer array (cap-len = %d: %s) gives (tx!=nil: %v, consumed %d): the decoder reads bytes between len and cap (b[offs:offs+4] may extend to the capacity)", len(b), tx != nil, n, len(t), tn[ti], tx2 != nil, n2))
			if res.Tail == nil {
				res.Tail = t
			}
		}
		ts2 := -1
		stage('t')
		if p := try("TxSize", func() { ts2 = btc.TxSize(in2) }); p != "" {
			add("panic/"+p, "panic out of btc.TxSize")
		} else if ts2 != tsA {
			add("cap/TxSize-reads-beyond-len", fmt.Sprintf("btc.TxSize on a %d-byte slice with cap==len gives %d; the same slice taken from a longer array (%s) gives %d", len(b), tsA, tn[ti], ts2))
			res.Tail = t
		}
	}
	return
}

// evalVlen: btc.VLen / btc.VULe against the CompactSize definition (shortest form only,
// complete within len), with exact and spare capacity.
func evalVlen(b []byte) (res caseResult) {
	res.Len = len(b)
	add := func(k, w string) {
		for _, v := range res.Viol {
			if v.Key == k {
				return
			}
		}
		res.Viol = append(res.Viol, viol{k, w})
	}
	var want uint64
	wn := 0
	if len(b) > 0 {
		switch {
		case b[0] < 0xfd:
			want, wn = uint64(b[0]), 1
		case b[0] == 0xfd && len(b) >= 3:
			if v := uint64(b[1]) | uint64(b[2])<<8; v >= 0xfd {
				want, wn = v, 3
			}
		case b[0] == 0xfe && len(b) >= 5:
			if v := uint64(b[1]) | uint64(b[2])<<8 | uint64(b[3])<<16 | uint64(b[4])<<24; v >= 0x10000 {
				want, wn = v, 5
			}
		case b[0] == 0xff && len(b) >= 9:
			var v uint64
			for i := 0; i < 8; i++ {
				v |= uint64(b[1+i]) << uint(8*i)
			}
			if v >= 0x100000000 {
				want, wn = v, 9
			}
		}
	}
	res.Class = fmt.Sprintf("vlen/ref-width-%d", wn)
	tl, tn := tails(nil)
	ins := [][]byte{append(make([]byte, 0, len(b)), b...)}
	names := []string{"cap==len"}
	for i, t := range tl {
		ins, names = append(ins, spare(b, t)), append(names, tn[i])
	}
	stage('v')
	for i, in := range ins {
		var le, n, n2 int
		var ule uint64
		if p := try("VLen", func() { le, n = btc.VLen(in); ule, n2 = btc.VULe(in) }); p != "" {
			add("panic/"+p, "panic out of btc.VLen / btc.VULe")
			continue
		}
		if n != wn || (wn > 0 && le != int(want)) || (wn == 0 && le != 0) {
			add("cs/VLen-mismatch", fmt.Sprintf("btc.VLen(%x) (%s) = (%d, %d), want (%d, %d)", b, names[i], le, n, int(want), wn))
		}
		if n2 != wn || ule != want {
			add("cs/VULe-mismatch", fmt.Sprintf("btc.VULe(%x) (%s) = (%d, %d), want (%d, %d)", b, names[i], ule, n2, want, wn))
		}
	}
	if wn > 0 { // writers give back the shortest form
		res.Shape = fmt.Sprintf("width%d", wn)
		try("writers", func() {
			var w bytes.Buffer
			btc.WriteVlen(&w, want)
			buf := make([]byte, 9)
			k := btc.PutULe(buf, want)
			if !bytes.Equal(w.Bytes(), b[:wn]) || !bytes.Equal(buf[:k], b[:wn]) || btc.VLenSize(want) != wn {
				add("cs/writer-mismatch", fmt.Sprintf("WriteVlen/PutULe/VLenSize(%d) give %x / %x / %d, want %x", want, w.Bytes(), buf[:k], btc.VLenSize(want), b[:wn]))
			}
			if want <= 0xffffffff {
				k := btc.PutVlen(buf, int(want))
				if !bytes.Equal(buf[:k], b[:wn]) {
					add("cs/writer-mismatch", fmt.Sprintf("PutVlen(%d) gives %x, want %x", want, buf[:k], b[:wn]))
				}
			}
		})
	}
	res.Acc = wn > 0
	return
}

func evalBlockExact(b []byte, dohash bool) (res caseResult) {
	res.Len = len(b)
	add := func(k, w string) {
		for _, v := range res.Viol {
			if v.Key == k {
				return
			}
		}
		res.Viol = append(res.Viol, viol{k, w})
	}
	rb, rn, rerr := reftx.DecodeBlock(b)
	in := make([]byte, len(b))
	copy(in, b)
	var bl *btc.Block
	var err error
	stg := "NewBlock"
	stage('b')
	runtime.ReadMemStats(&memA)
	p := try("block", func() {
		bl, err = btc.NewBlock(in)
		if err == nil {
			stg = "BuildTxListExt"
			err = bl.BuildTxListExt(dohash)
		}
	})
	runtime.ReadMemStats(&memB)
	res.Alloc = memB.TotalAlloc - memA.TotalAlloc
	if p != "" {
		msg := strings.TrimPrefix(p, "block:")
		switch {
		case stg == "NewBlock" && len(b) < 80 && strings.Contains(msg, "slice bounds out of range"):
			add("block/short-input-panic", "btc.NewBlock panics on an input shorter than 80 bytes: it evaluates NewSha2Hash(data[:80]) before UpdateContent checks the length ("+msg+")")
		case stg == "BuildTxListExt" && strings.Contains(msg, "makeslice"):
			add("block/txcount-makeslice-panic", "Block.BuildTxListExt panics: make([]*Tx, TxCount) with a negative / out-of-range count taken from the wire ("+msg+")")
		case stg == "BuildTxListExt" && strings.Contains(msg, "nil pointer") && blockHasNilElement(in):
			add(nilKey, "a transaction inside the block decodes (btc.NewTx) to a Tx holding a nil *TxIn/*TxOut (element decoder hit the end of the buffer, failure ignored); Block.BuildTxListExt then panics out of the API: "+msg)
		default:
			add("panic/"+stg+":"+msg, "panic out of btc."+stg)
		}
		res.Class = "ref=" + blockErrClass(rerr) + "/impl=panic"
		return
	}
	if res.Alloc > allocBound(len(b)) {
		add("block/txcount-driven-disproportionate", fmt.Sprintf("NewBlock+BuildTxListExt allocated %d bytes for a %d-byte input (bound 64*len+64KiB = %d): make([]*Tx, TxCount) with the count from the wire", res.Alloc, len(b), allocBound(len(b))))
	}
	acc := err == nil
	res.Acc = acc
	implCl := "refuse"
	if acc {
		implCl = "accept"
	}
	res.Class = "ref=" + blockErrClass(rerr) + "/impl=" + implCl
	switch {
	case acc && rerr != nil:
		be := rerr.(*reftx.BlockErr)
		switch be.Stage {
		case "count":
			if errors.Is(be.Err, reftx.ErrNonCanonical) {
				add("block/cs-non-minimal-txcount-accepted", "a transaction count that is not in its shortest CompactSize form is accepted")
			} else {
				add("block/bad-txcount-accepted", "transaction count refused by the reference ("+be.Err.Error()+") is accepted")
			}
		case "tx":
			if be.Index < len(bl.Txs) && bl.Txs[be.Index] != nil {
				v := classifyAccepted(be.Err, bl.Txs[be.Index], bl.Txs[be.Index].Raw)
				add(v.Key, v.What)
			} else {
				add("block/refused-by-reference-accepted", rerr.Error())
			}
		default:
			add("block/refused-by-reference-accepted", rerr.Error())
		}
	case !acc && rerr == nil:
		if len(rb.Txs) == 0 {
			res.Class += "(zero-tx block: refused by design, CheckBlock rule bad-blk-length)"
		} else {
			add("block/valid-encoding-refused", "block accepted by Core's deserialiser is refused: "+err.Error())
		}
	case acc && rerr == nil:
		if bl.TxCount != len(rb.Txs) || len(bl.Txs) != len(rb.Txs) {
			add("block/txcount-mismatch", fmt.Sprintf("TxCount=%d len(Txs)=%d want %d", bl.TxCount, len(bl.Txs), len(rb.Txs)))
			return
		}
		off := 80 + reftx.CSLen(uint64(len(rb.Txs)))
		if bl.TxOffset != off {
			add("block/txoffset-mismatch", fmt.Sprintf("TxOffset=%d want %d", bl.TxOffset, off))
		}
		re := append([]byte{}, bl.Raw[:80]...)
		re = reftx.PutCS(re, uint64(bl.TxCount))
		for i, tx := range bl.Txs {
			if tx == nil {
				add("block/nil-tx", "nil entry in Block.Txs")
				return
			}
			sz := rb.Txs[i].Size()
			want := b[off : off+sz]
			if !bytes.Equal(tx.Raw, want) {
				add("block/tx-raw-mismatch", fmt.Sprintf("Txs[%d].Raw is not the transaction's byte range", i))
			}
			compareTx(tx, rb.Txs[i], want, dohash, i == 0, add)
			off += sz
			if p := try("SerializeNew", func() { re = append(re, tx.SerializeNew()...) }); p != "" {
				add("panic/"+p, "panic in SerializeNew")
			}
		}
		if off != rn {
			fmt.Fprintf(os.Stderr, "HARNESS: reference block consumed %d, sum of parts %d\n", rn, off)
			os.Exit(3)
		}
		if !bytes.Equal(re, b[:rn]) {
			add("block/reencode-mismatch", "header + count + SerializeNew of every transaction differs from the bytes consumed")
		}
		if int(bl.BlockWeight) != rb.Weight() {
			add("block/weight-mismatch", fmt.Sprintf("BlockWeight=%d want %d (dohash=%v)", bl.BlockWeight, rb.Weight(), dohash))
		}
		wit := false
		for _, t := range rb.Txs {
			wit = wit || t.HasWitness()
		}
		res.Shape = fmt.Sprintf("%dtx/wit=%v/hash=%v", len(rb.Txs), wit, dohash)
	}
	return
}

// blockSummary decodes a block and condenses everything the API reports.
func blockSummary(in []byte, dohash bool) (sum string, pan string) {
	return blockSummaryVia(func(d []byte) (*btc.Block, error) { return btc.NewBlock(d) }, in, dohash, false)
}

// blockSummaryVia: the same through any block entry point; with accessors=true the header
// accessors are called between the entry point and BuildTxListExt and must give the header
// fields (every byte string the entry point accepts has a header to read).
func blockSummaryVia(entry func([]byte) (*btc.Block, error), in []byte, dohash bool, accessors bool) (sum string, pan string) {
	where := "entry point"
	pan = try("block", func() {
		bl, err := entry(in)
		if err == nil && accessors {
			where = "header accessors"
			le := func(b []byte) uint32 { return uint32(b[0]) | uint32(b[1])<<8 | uint32(b[2])<<16 | uint32(b[3])<<24 }
			if bl.Version() != le(in[0:4]) || !bytes.Equal(bl.ParentHash(), in[4:36]) || !bytes.Equal(bl.MerkleRoot(), in[36:68]) || bl.BlockTime() != le(in[68:72]) || bl.Bits() != le(in[72:76]) {
				sum = "accepted, header accessors give other values than the bytes"
				return
			}
		}
		if err == nil {
			where = "BuildTxListExt"
			err = bl.BuildTxListExt(dohash)
		}
		if err != nil {
			sum = "refused"
			return
		}
		var ser []byte
		for _, tx := range bl.Txs {
			if tx == nil || hasNilElement(tx) {
				ser = append(ser, "<nil>"...)
				continue
			}
			ser = append(ser, tx.SerializeNew()...)
			ser = append(ser, tx.Hash.Hash[:]...)
			ser = append(ser, byte(len(tx.Raw)), byte(len(tx.Raw)>>8))
		}
		sum = fmt.Sprintf("accepted: %d txs, weight %d, content %x", len(bl.Txs), bl.BlockWeight, reftx.DSha(ser))
	})
	if pan != "" {
		pan = "in " + where + ": " + strings.TrimPrefix(pan, "block:")
	}
	return
}

// a valid two-transaction block, to fill a Block before UpdateContent is called on it again
var filledBlock = func() []byte {
	b := make([]byte, 80, 200)
	b = append(b, 2)
	b = append(b, routeCb.Serialize(true)...)
	t := &reftx.Tx{Version: 2, In: []reftx.In{{Vout: 1, Script: []byte{0x51}, Sequence: 7}}, Out: []reftx.Out{{Value: 5, Script: []byte{0x52}}}}
	return append(b, t.Serialize(true)...)
}()

// blockEntries: every exported way to hand block bytes to the library.
var blockEntries = []struct {
	name string
	f    func([]byte) (*btc.Block, error)
}{
	{"NewBlockX", func(d []byte) (*btc.Block, error) {
		h := d
		if len(h) > 80 {
			h = h[:80]
		}
		return btc.NewBlockX(d, btc.NewSha2Hash(h))
	}},
	{"UpdateContent-on-new-Block", func(d []byte) (*btc.Block, error) {
		bl := new(btc.Block)
		return bl, bl.UpdateContent(d)
	}},
	{"header-first-then-Raw", func(d []byte) (*btc.Block, error) {
		// what the network code does: the Block is made from the 80 header bytes when the
		// header arrives, the whole block is attached to Raw when it has been downloaded
		if len(d) < 80 {
			return btc.NewBlock(d)
		}
		bl, err := btc.NewBlock(append(make([]byte, 0, 80), d[:80]...))
		if err == nil {
			bl.Raw = d
		}
		return bl, err
	}},
	{"parsed-then-TxCount-reset", func(d []byte) (*btc.Block, error) {
		// a second parse of the same Block (TxCount = 0 asks BuildTxListExt to read the count again)
		bl, err := btc.NewBlock(d)
		if err == nil {
			if err = bl.BuildTxListExt(false); err == nil {
				bl.TxCount = 0
			}
		}
		return bl, err
	}},
	{"UpdateContent-on-used-Block", func(d []byte) (*btc.Block, error) {
		bl, err := btc.NewBlock(append([]byte{}, filledBlock...))
		if err == nil {
			err = bl.BuildTxListExt(true)
		}
		if err != nil {
			panic("harness: the filler block is refused: " + err.Error())
		}
		return bl, bl.UpdateContent(d)
	}},
}

func evalBlock(b []byte, cont []byte, dohash bool) (res caseResult) {
	res = evalBlockExact(b, dohash)
	if len(res.Viol) > 0 && strings.HasSuffix(res.Class, "impl=panic") {
		return
	}
	exact := make([]byte, len(b))
	copy(exact, b)
	stage('b')
	sumA, _ := blockSummary(exact, dohash)
	// the other entry points: refused with an error, or the same result as through NewBlock
	// (which is compared with the reference); never a panic in the entry point, the header
	// accessors or BuildTxListExt
	for _, e := range blockEntries {
		stage('b')
		sumE, pan := blockSummaryVia(e.f, exact, dohash, true)
		if strings.Contains(pan, "harness:") {
			fmt.Fprintln(os.Stderr, "HARNESS:", pan)
			os.Exit(3)
		}
		if pan != "" {
			res.Viol = append(res.Viol, viol{"block-entry/" + e.name + "/panic", fmt.Sprintf("%d-byte input handed to %s, then header accessors and BuildTxListExt(%v): panic %s (through NewBlock: %s)", len(b), e.name, dohash, pan, sumA)})
		} else if sumE != sumA && !(e.name == "UpdateContent-on-used-Block" && len(b) == 80 && sumE == "refused") {
			res.Viol = append(res.Viol, viol{"block-entry/" + e.name + "/differs-from-NewBlock", fmt.Sprintf("%d-byte input through %s + BuildTxListExt(%v): %s; through NewBlock: %s", len(b), e.name, dohash, sumE, sumA)})
		}
	}
	tl, tn := tails(cont)
	for ti, t := range tl {
		stage('b')
		sum2, pan := blockSummary(spare(b, t), dohash)
		if pan != "" {
			sum2 = "panic out of the API: " + strings.TrimPrefix(pan, "block:")
		}
		if sum2 != sumA {
			res.Viol = append(res.Viol, viol{"cap/block-reads-beyond-len", fmt.Sprintf("NewBlock+BuildTxListExt(%v) on a %d-byte slice with cap==len: %s; the same slice taken from a longer array (cap-len = %d: %s): %s", dohash, len(b), sumA, len(t), tn[ti], sum2)})
			res.Tail = t
			break
		}
	}
	return
}

// blockHasNilElement walks the block's transactions with btc.NewTx alone.
func blockHasNilElement(in []byte) (found bool) {
	defer func() { recover() }()
	cnt, n := btc.VLen(in[80:])
	off := 80 + n
	for i := 0; i < cnt && n > 0; i++ {
		tx, k := btc.NewTx(in[off:])
		if tx == nil || k == 0 {
			return false
		}
		if hasNilElement(tx) {
			return true
		}
		off += k
	}
	return false
}

func blockErrClass(err error) string {
	if err == nil {
		return "ok"
	}
	if be, ok := err.(*reftx.BlockErr); ok {
		return be.Stage + "-" + errClass(be.Err)
	}
	return "other"
}

// ---- worker main loop ----

func workerMain() {
	if v := os.Getenv("C09_VLIMIT_KB"); v != "" {
		var kb uint64
		fmt.Sscan(v, &kb)
		lim := syscall.Rlimit{Cur: kb << 10, Max: kb << 10}
		if err := syscall.Setrlimit(syscall.RLIMIT_AS, &lim); err != nil {
			fmt.Fprintln(os.Stderr, "HARNESS: setrlimit:", err)
			os.Exit(3)
		}
	}
	out := os.Stdout
	if dn, err := os.OpenFile("/dev/null", os.O_WRONLY, 0); err == nil {
		os.Stdout = dn
	}
	var specs []baseSpec
	cache := map[int]*base{}
	getBase := func(i int, thor bool) *base {
		if b := cache[i]; b != nil {
			return b
		}
		b := specs[i].build(thor)
		if len(cache) > 64 {
			cache = map[int]*base{}
		}
		cache[i] = b
		return b
	}
	var blocks []bbase
	var basesThor bool
	loaded := false
	sc := bufio.NewScanner(os.Stdin)
	sc.Buffer(make([]byte, 1<<20), 64<<20)
	dot := []byte{'.'}
	stage = func(c byte) { out.Write([]byte{c}) }
	for sc.Scan() {
		var j jobSpec
		if err := json.Unmarshal(sc.Bytes(), &j); err != nil {
			fmt.Fprintln(os.Stderr, "HARNESS: bad job:", err)
			os.Exit(3)
		}
		if (j.Kind == "tx" || j.Kind == "block") && (!loaded || basesThor != j.Thor) {
			specs = buildBases(j.Thor)
			blocks = buildBlocks(j.Thor)
			cache = map[int]*base{}
			basesThor, loaded = j.Thor, true
		}
		alpha := alpha8
		if j.Alpha == 256 {
			alpha = make([]byte, 256)
			for i := range alpha {
				alpha[i] = byte(i)
			}
		}
		newAgg := func() *batchResult {
			return &batchResult{Classes: map[string]int{}, Shapes: map[string]int{}, Viol: map[string]*violAgg{}}
		}
		agg := newAgg()
		batchLo := j.Lo
		emit := func(hi int) {
			bs, _ := json.Marshal(agg)
			out.Write([]byte(fmt.Sprintf("R %d %d %s\n", batchLo, hi, bs)))
			agg = newAgg()
			batchLo = hi
		}
		for i := j.Lo; i < j.Hi; i++ {
			out.Write(dot)
			var c, cont []byte
			dohash := j.DoHash
			kind := "tx"
			switch j.Kind {
			case "tx":
				c = txGen(getBase(j.Base, j.Thor), j.Fam, alpha, i)
				cont = txTail(getBase(j.Base, j.Thor), j.Fam, i)
				doRoutes = true
				if j.Fam == "subst" && j.Alpha == 256 && bytes.IndexByte(alpha8, alpha[i%256]) < 0 {
					doRoutes = false
				}
			case "short":
				c = shortGen(i)
				cont = []byte{1, 0, 0, 0, 0, 0}
			case "vlen":
				c = vlenGen(i)
				kind = "vlen"
			case "block":
				c, dohash = blockGen(&blocks[j.Base], j.Fam, i)
				cont = blockTail(&blocks[j.Base], j.Fam, i)
				kind = "block"
			case "rawtx":
				c, _ = hex.DecodeString(j.Hex)
				cont, _ = hex.DecodeString(j.Tail)
			case "rawvlen":
				c, _ = hex.DecodeString(j.Hex)
				kind = "vlen"
			case "rawblock":
				c, _ = hex.DecodeString(j.Hex)
				cont, _ = hex.DecodeString(j.Tail)
				kind = "block"
			}
			bigAlloc := false
			if c == nil {
				agg.Skipped++
			} else {
				var r caseResult
				switch kind {
				case "tx":
					r = evalTx(c, cont)
				case "vlen":
					r = evalVlen(c)
				default:
					r = evalBlock(c, cont, dohash)
				}
				bigAlloc = r.Alloc > 32<<20
				agg.Evals++
				agg.Classes[r.Class]++
				if r.TxSizeOnRefused != "" {
					if agg.TxSizePos == nil {
						agg.TxSizePos = map[string]int{}
					}
					agg.TxSizePos[r.TxSizeOnRefused]++
				}
				if r.Shape != "" {
					agg.Shapes[r.Class+"|"+r.Shape]++
				}
				if r.Acc && strings.HasPrefix(r.Class, "ref=ok/") {
					if f := float64(r.Alloc) / float64(allocBound(r.Len)); f > agg.MaxFrac {
						agg.MaxFrac = f
						agg.MaxFracHx = hex.EncodeToString(c)
						if len(agg.MaxFracHx) > 400 {
							agg.MaxFracHx = agg.MaxFracHx[:400] + "..."
						}
					}
				}
				if agg.Sample == "" && len(c) < 200 {
					agg.Sample, agg.SampleCl = hex.EncodeToString(c), r.Class
				}
				for _, v := range r.Viol {
					a := agg.Viol[v.Key]
					hx := hex.EncodeToString(c)
					tl := ""
					if strings.HasPrefix(v.Key, "cap/") || r.Tail != nil {
						tl = hex.EncodeToString(r.Tail)
					}
					if a == nil {
						agg.Viol[v.Key] = &violAgg{Count: 1, Hex: hx, Tail: tl, DoHash: dohash, Kind: kind, What: v.What}
					} else {
						a.Count++
						if len(hx) < len(a.Hex) || (len(hx) == len(a.Hex) && hx < a.Hex) {
							a.Hex, a.Tail, a.DoHash, a.What = hx, tl, dohash, v.What
						}
					}
				}
			}
			if (i+1-batchLo) >= 256 || i+1 == j.Hi || bigAlloc {
				emit(i + 1)
			}
			if bigAlloc && !strings.HasPrefix(j.Kind, "raw") {
				// A decode that allocated hundreds of megabytes leaves a heap whose reuse costs
				// zeroing and GC scanning, and makes later out-of-memory deaths depend on
				// history: retire, the parent continues the job in a fresh worker.
				out.Write([]byte("Q\n"))
				os.Exit(0)
			}
		}
		out.Write([]byte("D\n"))
	}
}
