// C20: the UTXO memory allocator (lib/others/memory) never corrupts or aliases
// live data. Level: model_checking.
//
// Parent process = explorer/dispatcher and verdict; all executions of the code
// under test happen in child processes (`--worker`), one per unit, so that mapped
// memory is returned to the OS when the unit ends and a crash of the allocator
// (it manipulates raw mapped memory) is classified instead of killing the check.
//
//  1. probe    every size 0 … threshold+3 OS pages once (len/cap/Allocs), which
//     also OBSERVES the size-class structure the alphabets are built from
//     (class boundaries are never an oracle: only cap >= size is judged).
//  2. seq      explicit-state exploration of Malloc/Free histories: sliding
//     8-size subsets of {0,1} ∪ {boundary-1, boundary, boundary+1} ∪ private
//     sizes from the pristine allocator, and per class 3 sizes from three
//     non-initial configurations (page nearly exhausted + long free list; page
//     full with two free slots; page full), so that bump allocation, page
//     exhaustion, free-list reuse and linking of a second page are all within
//     the depth bound. Full oracle after every transition.
//  3. defrag   survivor-pattern families on the classes with 8, 12 and 16 slots
//     per page, relocation oracle, continuation after defragmentation.
//  4. integ    the client's wiring (common.Memory, utxo.Memory_Malloc/Free,
//     common.DefragUTXOMem -> UnspentDB.Relocate) against a map model.
//  5. stress   free-running threads (auxiliary, see stress.go).
package main

import (
	"bytes"
	"encoding/json"
	"flag"
	"fmt"
	"os"
	"os/exec"
	"path/filepath"
	"runtime"
	"sort"
	"strings"
	"sync"
	"syscall"
	"time"

	"verif/internal/ev"
)

// keyArgument is recorded in the evidence: why merged states have equal futures.
const keyArgument = "canonical key = per size class (identified by observed cap): high-water offset of every page (pages numbered by first appearance), position->size of every live allocation, and the exact order in which the currently free slots were freed (prelude part as a count, it is identical in every execution of the unit); live private mappings as sorted (size,cap); counters Allocs/SharedMmaps/PrivateMmaps. " +
	"By the code (malloc.go/free.go) the allocator's per-class state is a function of exactly this: header.brk = high-water mark, used/free = live count, a.pages[c] = last page iff not exhausted, the global and per-page free lists are LIFO pushes of Free and pops of Malloc (= retained free order), page list = order of appearance; classes interact only through write-only atomic counters and the page cache, which hands out interchangeable zero pages; page addresses and user bytes are never read by the allocator. " +
	"Two histories with equal keys therefore differ only by a renaming of page addresses. This is additionally tested: a fixed 1/N sample of merged histories is expanded as well and its successor keys must equal the representative's (diff_checked), and a validation unit is explored both on fresh NewAllocator() instances and on the reset allocator and must reach the same key set."

var (
	replayFile = flag.String("replay", "", "replay one recorded violation (no explorer)")
	onlyPart   = flag.String("only", os.Getenv("C20_ONLY"), "run only units whose kind or name contains this (debugging)")
)

type job struct {
	u    *Unit
	cost float64
}

type done struct {
	u      *Unit
	res    *UnitResult
	crash  string // classification of an abnormal worker death
	stderr string
	curRec string
	wall   time.Duration
	cpu    time.Duration
}

// runWorker runs one unit in a child process.
func runWorker(dir string, u *Unit, watchdog time.Duration, verbose bool) *done {
	d := &done{u: u}
	uf := filepath.Join(dir, fmt.Sprintf("u%d.json", u.ID))
	rf := filepath.Join(dir, fmt.Sprintf("r%d.json", u.ID))
	cf := filepath.Join(dir, fmt.Sprintf("c%d.txt", u.ID))
	b, _ := json.Marshal(u)
	if err := os.WriteFile(uf, b, 0o644); err != nil {
		ev.HarnessError("%v", err)
	}
	defer func() { os.Remove(uf); os.Remove(rf); os.Remove(cf) }()
	cmd := exec.Command(os.Args[0], "--worker", uf, rf, cf)
	var errb bytes.Buffer
	cmd.Stderr = &errb
	if verbose {
		cmd.Stderr = ev.Out
	}
	cmd.Stdout = nil
	// workers create their scratch data inside the parent's directory, so that it
	// disappears with it even when a worker dies
	cmd.Env = append(os.Environ(), "GOTRACEBACK=single", "VERIF_SCRATCH="+dir)
	t0 := time.Now()
	if err := cmd.Start(); err != nil {
		ev.HarnessError("cannot start worker: %v", err)
	}
	ch := make(chan error, 1)
	go func() { ch <- cmd.Wait() }()
	var werr error
	select {
	case werr = <-ch:
	case <-time.After(watchdog):
		cmd.Process.Signal(syscall.SIGQUIT) // goroutine dump into stderr
		select {
		case <-ch:
		case <-time.After(10 * time.Second):
			cmd.Process.Kill()
			<-ch
		}
		d.crash = "hang"
	}
	d.wall = time.Since(t0)
	if ps := cmd.ProcessState; ps != nil {
		d.cpu = ps.UserTime() + ps.SystemTime()
	}
	d.stderr = errb.String()
	if cb, err := os.ReadFile(cf); err == nil {
		d.curRec = strings.TrimSpace(string(cb))
	}
	if rb, err := os.ReadFile(rf); err == nil {
		var r UnitResult
		if json.Unmarshal(rb, &r) == nil && r.Done {
			d.res = &r
		}
	}
	if d.res == nil && d.crash == "" {
		d.crash = classifyDeath(werr, d.stderr)
	}
	return d
}

// classifyDeath turns an abnormal worker end into a short stable class.
func classifyDeath(err error, stderr string) string {
	for _, l := range strings.Split(stderr, "\n") {
		l = strings.TrimSpace(l)
		switch {
		case strings.HasPrefix(l, "fatal error: "):
			m := strings.TrimPrefix(l, "fatal error: ")
			if strings.Contains(stderr, "SIGSEGV") || strings.Contains(stderr, "SIGBUS") || strings.Contains(m, "fault") {
				return "memory-fault"
			}
			return "fatal:" + sanitize(m)
		case strings.HasPrefix(l, "unexpected fault address"), strings.Contains(l, "SIGSEGV"), strings.Contains(l, "SIGBUS"):
			return "memory-fault"
		case strings.HasPrefix(l, "panic: "):
			return "panic:" + sanitize(strings.TrimPrefix(l, "panic: "))
		}
	}
	if err != nil {
		return "exit:" + sanitize(err.Error())
	}
	return "no-result"
}

func sanitize(s string) string {
	var sb strings.Builder
	for _, r := range s {
		switch {
		case r >= 'a' && r <= 'z', r >= 'A' && r <= 'Z', r == '-', r == '_':
			sb.WriteRune(r)
		case r == ' ' || r == ':':
			sb.WriteByte('-')
		}
		if sb.Len() >= 40 {
			break
		}
	}
	return sb.String()
}

func tail(s string, n int) string {
	if len(s) > n {
		return "…" + s[len(s)-n:]
	}
	return s
}

// partOf maps a unit kind to the key prefix of its violations.
func partOf(u *Unit) string {
	switch u.Kind {
	case "seq":
		if u.Prelude != "" && u.Prelude != "fresh" {
			return "seq-" + u.Prelude
		}
		return "seq"
	}
	return u.Kind
}

type violation struct {
	key    string
	what   string
	replay map[string]interface{}
	len    int
	unit   int
	u      *Unit
	crash  bool
}

// confirm re-executes a recorded case in a fresh process on a fresh allocator
// (never the reset one) and reports whether it fails again with the same kind.
func confirm(dir string, v *violation, times int) (ok bool, note string) {
	ru := *v.u
	ru.ID = 900000 + v.unit
	ru.Fresh = true
	switch ru.Kind {
	case "seq":
		h, _ := v.replay["history"].([]int)
		if h == nil {
			return true, ""
		}
		ru.History, ru.ReplayOne = h, true
	case "defrag":
		a, _ := v.replay["assign"].([]int)
		if a == nil {
			return true, ""
		}
		ru.Assign, ru.ReplayOne = a, true
	default:
		// probe / integ / stress units are re-run as a whole
	}
	if v.crash && strings.HasSuffix(v.key, "/hang") {
		times = 1
	}
	for i := 0; i < times; i++ {
		d := runWorker(dir, &ru, 10*time.Minute, false)
		again := d.crash != "" || (d.res != nil && len(d.res.Fails) > 0)
		if !again {
			return false, fmt.Sprintf("re-execution %d of %d in a fresh process did not fail", i+1, times)
		}
	}
	return true, ""
}

func main() {
	if len(os.Args) > 1 && os.Args[1] == "--worker" {
		workerMain(os.Args[2:])
		return
	}
	r := ev.Start("C20", "model_checking")
	if *replayFile != "" {
		replay(*replayFile)
		return
	}
	dir := ev.Scratch("c20")
	defer os.RemoveAll(dir)
	thorough := r.Thorough()
	unitWatchdog := 10 * time.Minute
	if thorough {
		r.Budget = 17 * time.Minute
		unitWatchdog = 45 * time.Minute
	} else {
		r.Budget = 105 * time.Second
	}

	// ---- 1. probe ----------------------------------------------------------
	pd := runWorker(dir, &Unit{ID: 0, Kind: "probe", Name: "all-sizes-once"}, 10*time.Minute, false)
	var all []*done
	all = append(all, pd)
	if pd.res == nil || pd.res.Probe == nil || pd.res.Harness != "" || len(pd.res.Probe.Bounds) < 3 {
		if pd.crash != "" {
			// the allocator cannot even serve one Malloc/Free per size
			r.Report("probe/crash/"+pd.crash, "worker died during the all-sizes sweep (Malloc(s); Free for s = 0,1,2,…): "+pd.crash+" at "+pd.curRec+" | "+tail(pd.stderr, 600),
				map[string]interface{}{"part": "probe", "at": pd.curRec})
			r.Finish(map[string]interface{}{"states": 0, "transitions": 0, "traces_validated_against_impl": 0, "samples": []interface{}{}, "exhaustive": false}, nil)
		}
		if pd.res != nil && len(pd.res.Fails) > 0 {
			f := pd.res.Fails[0]
			r.Report("probe/"+f.Kind, f.What, f.Replay)
			r.Finish(map[string]interface{}{"states": 0, "transitions": pd.res.Transitions, "traces_validated_against_impl": pd.res.Executions, "samples": []interface{}{}, "exhaustive": false}, nil)
		}
		h := ""
		if pd.res != nil {
			h = pd.res.Harness
		}
		ev.HarnessError("probe failed: %s %s", h, tail(pd.stderr, 400))
	}
	pr := pd.res.Probe
	units := buildUnits(pr, thorough)
	if *onlyPart != "" {
		var l []*job
		for _, j := range units {
			if strings.Contains(j.u.Kind, *onlyPart) || strings.Contains(j.u.Name, *onlyPart) || strings.Contains(partOf(j.u), *onlyPart) {
				l = append(l, j)
			}
		}
		units = l
	}
	sort.SliceStable(units, func(i, j int) bool { return units[i].cost > units[j].cost })

	// ---- 2..5: run the units -------------------------------------------------
	var mu sync.Mutex
	var wg sync.WaitGroup
	skipped := 0
	workers := runtime.NumCPU()
	if s := os.Getenv("C20_WORKERS"); s != "" {
		fmt.Sscan(s, &workers)
	}
	// weighted pool: a unit occupies as many slots as it has executor goroutines
	free := workers
	cond := sync.NewCond(&mu)
	for _, j := range units {
		if r.OverBudget() {
			skipped++
			continue
		}
		w := j.u.Par
		if w < 1 {
			w = 1
		}
		if w > workers {
			w = workers
		}
		mu.Lock()
		for free < w {
			cond.Wait()
		}
		free -= w
		mu.Unlock()
		wg.Add(1)
		go func(j *job, w int) {
			defer wg.Done()
			d := runWorker(dir, j.u, unitWatchdog, false)
			mu.Lock()
			all = append(all, d)
			free += w
			cond.Broadcast()
			mu.Unlock()
		}(j, w)
	}
	wg.Wait()
	sort.Slice(all, func(i, j int) bool { return all[i].u.ID < all[j].u.ID })

	// ---- collect -------------------------------------------------------------
	var viols []*violation
	cov := map[string]int{}
	extra := map[string]int64{}
	perPart := map[string]map[string]int{}
	var samples []interface{}
	states, transitions, executions, merged, diffChecked := 0, 0, 0, 0, 0
	maxDepth := map[string]int{}
	var harness []string
	keySets := map[string][]string{} // validation: name -> key set hashes of the modes
	slowest := ""
	var slowestT, cpuTotal time.Duration
	for _, d := range all {
		part := partOf(d.u)
		if perPart[part] == nil {
			perPart[part] = map[string]int{}
		}
		pp := perPart[part]
		pp["units"]++
		if d.wall > slowestT {
			slowestT, slowest = d.wall, d.u.Name
		}
		cpuTotal += d.cpu
		if os.Getenv("C20_TIMES") != "" && d.res != nil {
			fmt.Fprintf(os.Stderr, "TIME %-40s %6.1fs cpu=%.1fs exec=%d states=%d\n", d.u.Name, d.wall.Seconds(), d.cpu.Seconds(), d.res.Executions, d.res.States)
		}
		if d.crash != "" {
			viols = append(viols, &violation{key: d.u.Kind + "/crash/" + d.crash, crash: true, unit: d.u.ID, u: d.u, len: 0,
				what:   fmt.Sprintf("worker process of unit %s died (%s) while executing %s | stderr: %s", d.u.Name, d.crash, d.curRec, tail(d.stderr, 700)),
				replay: crashReplay(d)})
			pp["crashed_units"]++
			continue
		}
		res := d.res
		if res.Harness != "" {
			harness = append(harness, d.u.Name+": "+res.Harness)
		}
		states += res.States
		transitions += res.Transitions
		executions += res.Executions
		merged += res.Merged
		diffChecked += res.DiffChecked
		pp["states"] += res.States
		pp["transitions"] += res.Transitions
		pp["executions"] += res.Executions
		if res.MaxDepth > maxDepth[part] {
			maxDepth[part] = res.MaxDepth
		}
		for k, v := range res.Cov {
			cov[part+":"+k] += v
		}
		for k, v := range res.Extra {
			if !strings.HasPrefix(k, "outcome:") {
				extra[k] += v
			}
		}
		if len(samples) < 8 {
			samples = append(samples, res.Samples...)
		}
		if strings.HasPrefix(d.u.Name, "validate/") {
			base := strings.TrimSuffix(strings.TrimSuffix(d.u.Name, "/fresh"), "/reset")
			keySets[base] = append(keySets[base], fmt.Sprintf("%s:%d:%s", res.Mode, res.States, res.KeySetHash))
		}
		for _, f := range res.Fails {
			if f.Kind == "merge-unsound" {
				harness = append(harness, f.What)
				continue
			}
			key := d.u.Kind + "/" + f.Kind // all seq units share the prefix seq/
			if d.u.Kind == "defrag" || d.u.Kind == "integ" || d.u.Kind == "stress" {
				key = f.Kind // already prefixed by the stage
			}
			v := &violation{key: key, what: f.What, replay: f.Replay, len: f.Len, unit: d.u.ID, u: d.u}
			// JSON round trip turned []int into []interface{}: restore
			if h, ok := f.Replay["history"].([]interface{}); ok {
				v.replay["history"] = toInts(h)
			}
			if h, ok := f.Replay["assign"].([]interface{}); ok {
				v.replay["assign"] = toInts(h)
			}
			viols = append(viols, v)
		}
	}
	// fresh-vs-reset equivalence
	validated := 0
	for name, l := range keySets {
		if len(l) == 2 {
			a := l[0][strings.Index(l[0], ":"):]
			b := l[1][strings.Index(l[1], ":"):]
			if a != b {
				harness = append(harness, fmt.Sprintf("%s: fresh and reset allocators reach different state sets: %v", name, l))
			} else {
				validated++
			}
		}
	}
	if len(harness) > 0 && len(viols) == 0 {
		ev.HarnessError("%s", strings.Join(harness, " || "))
	}

	// minimal case per key, deterministic order
	sort.SliceStable(viols, func(i, j int) bool {
		if viols[i].key != viols[j].key {
			return viols[i].key < viols[j].key
		}
		if viols[i].len != viols[j].len {
			return viols[i].len < viols[j].len
		}
		if viols[i].unit != viols[j].unit {
			return viols[i].unit < viols[j].unit
		}
		return fmt.Sprint(viols[i].replay["history"], viols[i].replay["assign"]) < fmt.Sprint(viols[j].replay["history"], viols[j].replay["assign"])
	})
	reported := map[string]bool{}
	confirmed, unrepro := 0, 0
	for _, v := range viols {
		if reported[v.key] {
			continue
		}
		reported[v.key] = true
		times := 2
		if strings.HasPrefix(v.key, "stress/") {
			times = 3
		}
		ok, note := confirm(dir, v, times)
		if !ok {
			unrepro++
			r.Unrepro = append(r.Unrepro, v.key+": "+v.what+" ["+note+"]")
			fmt.Fprintln(os.Stderr, "UNREPRODUCIBLE:", v.key, v.what, note)
			continue
		}
		confirmed++
		v.replay["confirmed_in_fresh_process"] = times
		r.Report(v.key, v.what, v.replay)
	}

	pm := map[string]interface{}{}
	for k, v := range perPart {
		pm[k] = v
	}
	coverage := map[string]interface{}{
		"states":                        states,
		"transitions":                   transitions,
		"traces_validated_against_impl": executions,
		"samples":                       samples,
		"merged_transitions":            merged,
		"diff_checked":                  diffChecked,
		"fresh_vs_reset_validated":      validated,
		"units":                         len(all),
		"units_skipped_over_budget":     skipped,
		"per_part":                      pm,
		"max_depth":                     maxDepth,
		"branch_hits":                   cov,
		"counters":                      extra,
		"observed_classes":              len(pr.Bounds),
		"observed_class_bounds":         pr.Bounds,
		"observed_threshold":            pr.Threshold,
		"observed_exact_private_sizes":  pr.ExactPriv,
		"alphabet_sizes":                len(alphabet(pr)),
		"violations_confirmed":          confirmed,
		"violations_unreproducible":     unrepro,
		"slowest_unit":                  fmt.Sprintf("%s %.1fs", slowest, slowestT.Seconds()),
		"worker_cpu_seconds":            int(cpuTotal.Seconds()),
		"state_key":                     keyArgument,
		"rule":                          "states = size of the per-unit seen-sets (summed over independent units; a unit = one alphabet subset x one initial configuration); transitions = executed Malloc/Free/defrag events whose outcome was checked; every transition is executed on the real allocator from a pristine allocator by replaying the shortest history",
	}
	if skipped > 0 {
		coverage["exhaustive"] = false
	}
	os.RemoveAll(dir)
	// concurrent Malloc/Free on one allocator: explored by the controlled scheduler in its
	// own (instrumented) binary, plus a free-running race-detector pass
	coverage["concurrent_part"] = r.RunSub("c20s", "concurrent")
	r.Finish(coverage, []string{
		"the oracle judges only the property: len == size, cap >= size (whole capacity addressable), footprints (stored slice header + data up to cap) of live allocations pairwise disjoint, contents and headers of live allocations unchanged, Allocs == live, relocation callback exactly once per moved allocation with the new slice holding the old bytes; placement policy, class choice, efficiency of defragmentation and DefragAllImproved's return value are not judged",
		"Allocator.Bytes is additionally compared with pages in use + cached pages + private mappings at quiescent points (awaited, since the refill goroutine is asynchronous); keys */bytes-counter",
		"sequential exploration runs on one allocator per worker that is restored field-by-field to the state NewAllocator() returns (empty page cache, refill not yet run); validated against fresh allocators (fresh_vs_reset_validated) and every violation is re-executed on a fresh allocator in a fresh process before it is reported",
		"DefragAllImproved is exclusive with Malloc/Free by its documentation: it is only run while no other allocator call is in flight",
		"interleavings of concurrent Malloc/Free are the controlled scheduler's part; the stress pass here is free-running and auxiliary",
		"class boundaries, the private-mapping threshold and slots per page are observed from the implementation (probe) and from GetInfo; they select test inputs and never act as an oracle",
	})
}

func toInts(l []interface{}) []int {
	r := make([]int, 0, len(l))
	for _, x := range l {
		if f, ok := x.(float64); ok {
			r = append(r, int(f))
		}
	}
	return r
}

func crashReplay(d *done) map[string]interface{} {
	m := map[string]interface{}{"part": d.u.Kind, "unit": replayUnit(d.u), "at": d.curRec}
	var rec struct {
		History []int `json:"history"`
		Assign  []int `json:"assign"`
	}
	if json.Unmarshal([]byte(d.curRec), &rec) == nil {
		if rec.History != nil {
			m["history"] = rec.History
		}
		if rec.Assign != nil {
			m["assign"] = rec.Assign
		}
	}
	return m
}

// alphabet: {0,1} ∪ {b-1,b,b+1 for every observed class bound b} ∪ private sizes.
func alphabet(pr *ProbeResult) []int {
	set := map[int]bool{0: true, 1: true, 204800: true}
	for _, b := range pr.Bounds {
		for _, d := range []int{-1, 0, 1} {
			if b+d >= 0 {
				set[b+d] = true
			}
		}
	}
	t := pr.Threshold
	for _, s := range []int{t - 1, t, t + 1, t + 2} {
		set[s] = true
	}
	for i, e := range pr.ExactPriv {
		if i < 2 {
			set[e] = true
			set[e+1] = true
		}
	}
	var l []int
	for s := range set {
		l = append(l, s)
	}
	sort.Ints(l)
	return l
}

func buildUnits(pr *ProbeResult, thorough bool) []*job {
	var out []*job
	id := 1
	add := func(u *Unit, cost float64) {
		if thorough && u.Kind == "seq" {
			cost *= 10 // depth 8 instead of 6
		}
		u.ID = id
		id++
		out = append(out, &job{u, cost})
	}
	al := alphabet(pr)
	nb := len(pr.Bounds)
	depth, pdepth, vdepth, diff := 6, 6, 3, 24
	if thorough {
		depth, pdepth, vdepth, diff = 8, 8, 4, 48
	}
	// One executor goroutine per worker process: measured, several executors in one
	// process are slower than one (mmap/munmap serialise on the process's address
	// space lock); parallelism comes from running units in separate processes.
	parFor := func(maxSize int) int { return 1 }
	// sliding windows of 8 sizes over the sorted alphabet (last window aligned to the end)
	for i := 0; i < len(al); i += 8 {
		j := i
		if j+8 > len(al) {
			j = len(al) - 8
		}
		add(&Unit{Kind: "seq", Name: fmt.Sprintf("window/%d-%d", al[j], al[j+7]), Sizes: al[j : j+8], Prelude: "fresh", Depth: depth, DiffMod: diff, Par: parFor(al[j+7])},
			2.5+9*float64(al[j+7])/131040)
	}
	// mixed subsets: tiny, mid, largest shared, private in one history
	ex := append([]int{}, pr.ExactPriv...)
	for len(ex) < 2 {
		ex = append(ex, pr.Threshold+5000+len(ex))
	}
	mixed := [][]int{
		{0, pr.Bounds[0], pr.Bounds[0] + 1, pr.Bounds[nb/2], pr.Threshold, pr.Threshold + 1, ex[0] + 1, 204800},
		{1, pr.Bounds[nb/5] - 1, pr.Bounds[2*nb/3] + 1, pr.Bounds[nb-3], pr.Bounds[nb-2], pr.Threshold - 1, pr.Threshold + 2, ex[1]},
	}
	for i, s := range mixed {
		s = uniq(s)
		add(&Unit{Kind: "seq", Name: fmt.Sprintf("mixed/%d", i), Sizes: s, Prelude: "fresh", Depth: depth, DiffMod: diff, Par: parFor(1 << 20)}, 6)
	}
	// fresh-vs-reset validation on the first mixed subset
	add(&Unit{Kind: "seq", Name: "validate/mixed0/fresh", Sizes: uniq(mixed[0]), Prelude: "fresh", Depth: vdepth, Fresh: true}, 5)
	add(&Unit{Kind: "seq", Name: "validate/mixed0/reset", Sizes: uniq(mixed[0]), Prelude: "fresh", Depth: vdepth}, 5)
	// per class, non-initial configurations
	for k, b := range pr.Bounds {
		lo := 0
		if k > 0 {
			lo = pr.Bounds[k-1] + 1
		}
		sizes := uniq([]int{lo, b - 1, b})
		for _, pre := range []string{"nearfull", "full2free", "fullbg"} {
			c := 2.5 + 3.5*float64(pr.PerPage[k])/10922
			add(&Unit{Kind: "seq", Name: fmt.Sprintf("class%02d-cap%d/%s", k, b, pre), Sizes: sizes, Prelude: pre, PreSizes: sizes, Depth: pdepth, DiffMod: diff}, c)
		}
	}
	// defragmentation families: classes with 8, 12 and 16 slots per page
	var dcls [][]int
	var dnames []string
	for k, b := range pr.Bounds {
		if pp := pr.PerPage[k]; pp == 8 || pp == 12 || pp == 16 {
			lo := pr.Bounds[k-1] + 1
			dcls = append(dcls, uniq([]int{b, lo, b - 1}))
			dnames = append(dnames, fmt.Sprintf("cap%d-%dperpage", b, pp))
		}
	}
	type dv struct {
		pages   int
		partial bool
		order   int
		rest    int
		dist    []int
	}
	// The allocator defragments a class only when more than 12 pages' worth of its
	// slots are free, and moves nothing when the least-used pages it selects are
	// all empty. v0 is the family as designed (15 pages, the others empty): mostly
	// the "nothing to move" branch, where the oracle demands no callback and no
	// damage. v1/v2 keep survivors on every page, so every member relocates.
	vars := []dv{
		{15, false, OrdAsc, PatNone, []int{0, 7, 14}},
		{18, true, OrdInterleaved, PatFirst, []int{1, 6, 17}},
		{30, false, OrdDesc, PatAlt, []int{2, 3, 29}},
	}
	if thorough {
		vars = append(vars,
			dv{14, true, OrdInterleaved, PatNone, []int{1, 6, 13}},
			dv{15, false, OrdInterleaved, PatNone, []int{0, 1, 2}},
			dv{14, false, OrdDesc, PatNone, []int{11, 12, 13}},
			dv{20, false, OrdAsc, PatFirst, []int{2, 3, 19}},
			dv{24, false, OrdInterleaved, PatLast, []int{0, 12, 23}},
			dv{40, true, OrdAsc, PatAlt, []int{5, 6, 40}},
			dv{18, false, OrdInterleaved, PatLast, []int{0, 9, 17}},
			dv{15, false, OrdAsc, PatNone, []int{0, 5, 9, 14}},
			dv{20, true, OrdDesc, PatFirst, []int{1, 7, 13, 20}},
		)
	}
	for vi, v := range vars {
		for ci := range dcls {
			add(&Unit{Kind: "defrag", Name: fmt.Sprintf("defrag/%s/v%d", dnames[ci], vi), Classes: [][]int{dcls[ci]}, Pages: v.pages, Partial: v.partial, Order: v.order, Rest: v.rest, Dist: v.dist, NPat: NumPatQuick},
				3.5*float64(len(v.dist)-2))
		}
		// the same family with 1 and 3 allocations between fragmenting and defragmenting (no
		// half-filled page, so they are served from the free list and defragmentation starts
		// from a state whose last operation was a Malloc)
		if !v.partial && (vi < 3 || len(v.dist) == 3) {
			for _, rm := range []int{1, 3} {
				for ci := range dcls {
					if !thorough && (ci+vi+rm)%2 == 1 {
						continue
					}
					add(&Unit{Kind: "defrag", Name: fmt.Sprintf("defrag/%s/v%d-remalloc%d", dnames[ci], vi, rm), Classes: [][]int{dcls[ci]}, Pages: v.pages, Partial: v.partial, Order: OrdDistLast, Rest: v.rest, Dist: v.dist, NPat: NumPatQuick, Remalloc: rm},
						3.5*float64(len(v.dist)-2))
				}
			}
		}
		if len(dcls) > 1 && (vi < 2 || (thorough && len(v.dist) == 3)) {
			add(&Unit{Kind: "defrag", Name: fmt.Sprintf("defrag/all-%d-classes/v%d", len(dcls), vi), Classes: dcls, Pages: v.pages, Partial: v.partial, Order: v.order, Rest: v.rest, Dist: v.dist, NPat: NumPatQuick}, 7.5*float64(len(v.dist)-2))
		}
	}
	// integration
	for i := range integVariants {
		if !thorough && i >= 4 {
			break
		}
		add(&Unit{Kind: "integ", Name: "integ/" + integVariants[i].name, Variant: i}, 1.5)
	}
	// free-running stress (auxiliary)
	big := []int{pr.Bounds[nb-1], pr.Bounds[nb-2], pr.Bounds[nb-3] - 1, pr.Threshold + 1, 100}
	small := []int{0, 1, pr.Bounds[0], pr.Bounds[0] + 1, pr.Bounds[nb/2], pr.Bounds[nb-1], pr.Threshold + 2}
	rounds, ops := 6, 400
	if thorough {
		rounds, ops = 30, 2000
	}
	add(&Unit{Kind: "stress", Name: "stress/big-8threads", Sizes: big, Threads: 8, Rounds: rounds, OpsPer: ops, MaxLive: 40}, 2)
	add(&Unit{Kind: "stress", Name: "stress/mixed-16threads", Sizes: small, Threads: 16, Rounds: rounds, OpsPer: ops * 2, MaxLive: 12}, 2)
	add(&Unit{Kind: "stress", Name: "stress/one-class-3threads", Sizes: []int{pr.Bounds[nb-1]}, Threads: 3, Rounds: rounds, OpsPer: ops, MaxLive: 48}, 2)
	return out
}

func uniq(l []int) []int {
	seen := map[int]bool{}
	var r []int
	for _, x := range l {
		if x >= 0 && !seen[x] {
			seen[x] = true
			r = append(r, x)
		}
	}
	return r
}

// replay re-executes one recorded violation in a child process, verbosely.
func replay(file string) {
	b, err := os.ReadFile(file)
	if err != nil {
		ev.HarnessError("%v", err)
	}
	var rec struct {
		Key    string `json:"key"`
		What   string `json:"what"`
		Replay struct {
			Part    string `json:"part"`
			Unit    *Unit  `json:"unit"`
			History []int  `json:"history"`
			Assign  []int  `json:"assign"`
		} `json:"replay"`
	}
	if err := json.Unmarshal(b, &rec); err != nil {
		ev.HarnessError("%v", err)
	}
	u := rec.Replay.Unit
	if u == nil {
		if rec.Replay.Part == "probe" {
			u = &Unit{Kind: "probe", Name: "all-sizes-once"}
		} else {
			ev.HarnessError("replay file has no unit")
		}
	}
	u.ID = 1
	u.Fresh = true
	u.Verbose = true
	if u.Kind == "seq" && (rec.Replay.History != nil || strings.Contains(string(b), `"history"`)) {
		u.History, u.ReplayOne = rec.Replay.History, true
	}
	if u.Kind == "defrag" && rec.Replay.Assign != nil {
		u.Assign, u.ReplayOne = rec.Replay.Assign, true
	}
	dir := ev.Scratch("c20-replay")
	defer os.RemoveAll(dir)
	fmt.Fprintf(ev.Out, "replay: %s\n  recorded: %s\n", rec.Key, rec.What)
	d := runWorker(dir, u, 10*time.Minute, true)
	if d.crash != "" {
		fmt.Fprintf(ev.Out, "replay: worker died: %s at %s\n", d.crash, d.curRec)
		os.RemoveAll(dir)
		os.Exit(1)
	}
	if len(d.res.Fails) > 0 {
		for _, f := range d.res.Fails {
			fmt.Fprintf(ev.Out, "replay: still fails: %s: %s\n", f.Kind, f.What)
		}
		os.RemoveAll(dir)
		os.Exit(1)
	}
	fmt.Fprintln(ev.Out, "replay: passes")
	os.RemoveAll(dir)
	os.Exit(0)
}
