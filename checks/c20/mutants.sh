#!/bin/bash
# usage: checks/c20/mutants.sh [tier] [patch-name-substring]
# Applies every /verif/mutants/C20-*.patch to a scratch worktree (never /repo),
# runs the check against it and prints the violation keys.
tier="${1:-quick}"; only="${2:-}"
wt=/tmp/wt-c20-mut; out=/dev/shm/c20-mut-out
git -C /repo worktree remove --force $wt 2>/dev/null
git -C /repo worktree add --detach $wt HEAD >/dev/null 2>&1 || exit 2
log=/dev/shm/c20-mutants.log; : > $log
for p in /verif/mutants/C20-*$only*.patch; do
  git -C $wt checkout -q -- . ; git -C $wt apply "$p" || { echo "$(basename $p): patch does not apply"; continue; }
  rm -rf $out; t0=$(date +%s)
  VERIF_REPO=$wt VERIF_OUT=$out timeout 1800 /verif/run.sh c20 --tier $tier > $out.stdout 2>&1; rc=$?
  { echo "== $(basename $p): exit=$rc  $(( $(date +%s) - t0 ))s  $(grep -c '^VIOLATION' $out.stdout) violation keys"
    grep '^  key=' $out.stdout | sort | sed 's/^/     /'; grep -h 'HARNESS' $out.stdout $out/logs/c20.stderr.log 2>/dev/null | cut -c1-300 | head -3; } | tee -a $log
done
git -C /repo worktree remove --force $wt; rm -rf $out $out.stdout
