// stress.go — free-running concurrent pass (worker side). NOT the deciding part
// for the "any interleaving" quantifier (that is the controlled scheduler's job):
// the Go scheduler picks the interleavings here. It is kept because the oracle is
// schedule-independent (whatever it reports is a real violation on that run) and
// because it exercises the per-class locks, the page cache channel and the refill
// goroutine with real parallelism. Rounds of concurrent Malloc/Free threads are
// separated by barriers at which global disjointness and Allocs are checked and
// DefragAllImproved runs exclusively (as its documentation requires).
package main

import (
	"fmt"
	"sync"
	"time"

	"github.com/piotrnar/gocoin/lib/others/memory"
)

func runStress(u *Unit, res *UnitResult, cur *curFile) {
	base := baseGoroutines
	a := memory.NewAllocator()
	lay, err := parseLayout(a)
	if err != nil {
		res.Harness = err.Error()
		return
	}
	cur.set(map[string]interface{}{"stress": u.Name})
	var mu sync.Mutex
	m := newMapped(lay, a.MaxSharedSize)
	ts := make([]*Tracker, u.Threads)
	for i := range ts {
		ts[i] = NewTracker(a, uint32(100+i))
		ts[i].Touched = func(h uintptr, c int) { mu.Lock(); m.touched(h, c); mu.Unlock() }
	}
	report := func(round int, where string, f *Fail) {
		res.Fails = append(res.Fails, FailRec{Kind: "stress/" + f.Kind, Len: round,
			What:   fmt.Sprintf("free-running stress %s (%d threads, sizes %v), round %d, %s: %s (schedule-dependent: chosen by the Go scheduler)", u.Name, u.Threads, u.Sizes, round, where, f.What),
			Replay: map[string]interface{}{"part": "stress", "unit": replayUnit(u)}})
	}
	for round := 0; round < u.Rounds; round++ {
		// A failing thread may leave a class mutex locked inside the allocator (a panic
		// in Malloc/Free is recovered by Protect, the lock is not released): the other
		// threads can then block forever. After the first failure the rest get 30 s.
		type tres struct {
			i int
			f *Fail
		}
		resc := make(chan tres, u.Threads)
		for i := range ts {
			go func(i int) {
				f := Protect(func() *Fail {
					// even rounds grow to MaxLive, odd rounds shrink to an eighth of it:
					// the shrink phases leave the pages fragmented for the defrag pass
					ml := u.MaxLive
					if round%2 == 1 {
						ml = u.MaxLive/8 + 1
					}
					return ts[i].StressBody(u.Sizes, u.OpsPer, ml, 16, uint64(round*1000+i+1))
				})
				resc <- tres{i, f}
			}(i)
		}
		var firstFail *Fail
		var deadline <-chan time.Time
		for got := 0; got < u.Threads; {
			select {
			case r := <-resc:
				got++
				if r.f != nil && firstFail == nil {
					firstFail = r.f
					deadline = time.After(30 * time.Second)
				}
			case <-deadline:
				got = u.Threads
			}
		}
		if firstFail != nil {
			report(round, "inside a thread", firstFail)
			return
		}
		total := 0
		for _, t := range ts {
			res.Transitions += t.Ops
			t.Ops = 0
			total += t.LiveCount()
		}
		f := Protect(func() *Fail {
			for _, t := range ts {
				for _, s := range t.Live {
					if f := t.CheckSlot(s); f != nil {
						return f
					}
				}
			}
			if f := CheckDisjointAcross(ts); f != nil {
				return f
			}
			return CheckAllocs(a, total)
		})
		if f != nil {
			report(round, "at the barrier", f)
			return
		}
		rep, f := ts[0].Defrag(ts[1:]...)
		if f == nil {
			f = Protect(func() *Fail {
				for _, t := range ts {
					for _, s := range t.Live {
						if f := t.CheckSlot(s); f != nil {
							return f
						}
					}
				}
				if f := CheckDisjointAcross(ts); f != nil {
					return f
				}
				return CheckAllocs(a, total)
			})
		}
		if f != nil {
			report(round, "defragmentation at the barrier", f)
			return
		}
		if len(rep.Relocs) > 0 {
			res.Cov["stress-defrag-moved-something"]++
		}
		res.Extra["relocations"] += int64(len(rep.Relocs))
		res.States++
	}
	res.Executions = 1
	waitQuiet(base)
	m.release()
}
