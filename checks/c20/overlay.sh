#!/bin/bash
# usage: overlay.sh <builddir> <overlay.json> <repo>
# Observation-only hook for harness clean-up: the allocator's package-level
# unmap() reports (addr,size) to memory.VerifUnmapHook before unmapping, so the
# harness knows exactly which mappings the allocator has already given back
# (unmapping such an address again could hit memory the Go runtime mapped there
# in the meantime). Generated from the working tree on every build; only one
# line is inserted into unmap(); a file declaring the hook variable is added.
set -eu
bd="$1"; ov="$2"; repo="$3"
src="$repo/lib/others/memory/mmap_unix.go"
[ -f "$src" ] || { echo "overlay.sh: $src not found" >&2; exit 1; }
cat > "$bd/c20_verif_hook.go" <<'EOG'
package memory

// VerifUnmapHook is set by the C20 verification harness (build overlay only).
var VerifUnmapHook func(addr uintptr, size int)
EOG
if grep -q '^func unmap(addr uintptr, size int) error {$' "$src"; then
  sed 's/^func unmap(addr uintptr, size int) error {$/func unmap(addr uintptr, size int) error {\n\tif VerifUnmapHook != nil {\n\t\tVerifUnmapHook(addr, size)\n\t}/' "$src" > "$bd/c20_mmap_unix.go"
else
  cp "$src" "$bd/c20_mmap_unix.go"
fi
python3 - "$ov" "$src" "$bd/c20_mmap_unix.go" "$repo/lib/others/memory/c20_verif_hook.go" "$bd/c20_verif_hook.go" <<'EOP'
import json, sys
ov, src, dst, hooksrc, hookdst = sys.argv[1:6]
try:
    d = json.load(open(ov))
except Exception:
    d = {"Replace": {}}
d.setdefault("Replace", {})
d["Replace"][src] = dst
d["Replace"][hooksrc] = hookdst
json.dump(d, open(ov, "w"))
EOP
