package main

import (
	"fmt"
	"time"
	"unsafe"

	"github.com/piotrnar/gocoin/lib/others/memory"
)

func main() {
	t0 := time.Now()
	var as []*memory.Allocator
	for i := 0; i < 100; i++ {
		as = append(as, memory.NewAllocator())
	}
	fmt.Println("NewAllocator avg", time.Since(t0)/100)
	a := as[0]
	time.Sleep(10 * time.Millisecond)
	fmt.Println(a.GetInfo(false))
	t0 = time.Now()
	var ps []*[]byte
	for i := 0; i < 1000; i++ {
		ps = append(ps, a.Malloc(100))
	}
	fmt.Println("Malloc avg", time.Since(t0)/1000)
	p := a.Malloc(131040)
	fmt.Printf("%x len %d cap %d  data %x\n", uintptr(unsafe.Pointer(p)), len(*p), cap(*p), uintptr(unsafe.Pointer(&(*p)[0])))
	p = a.Malloc(131041)
	fmt.Printf("%x len %d cap %d  data %x\n", uintptr(unsafe.Pointer(p)), len(*p), cap(*p), uintptr(unsafe.Pointer(&(*p)[0])))
	fmt.Println(a.GetInfo(false))
	a.Free(p)
	fmt.Println(a.GetInfo(false))
	fmt.Println(a.ClassCont, a.MaxSharedSize)
}
