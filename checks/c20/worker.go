// worker.go — the part of the check that runs in child processes
// (`c20 --worker unit.json result.json cur`). One process per unit: whatever the
// allocator does to the address space (or a crash of the code under test) is
// confined to that process and classified by the parent.
package main

import (
	"crypto/sha256"
	"encoding/hex"
	"encoding/json"
	"fmt"
	"os"
	"runtime"
	"sort"
	"strconv"
	"strings"
	"sync"
	"time"

	"github.com/piotrnar/gocoin/lib/others/memory"
)

// Unit is one independently explorable piece of work.
type Unit struct {
	ID   int    `json:"id"`
	Kind string `json:"kind"` // probe | seq | defrag | integ | stress
	Name string `json:"name"`

	// seq: explicit-state exploration of Malloc/Free histories
	Sizes    []int  `json:"sizes,omitempty"`     // the Malloc alphabet
	Prelude  string `json:"prelude,omitempty"`   // fresh | nearfull | full2free | fullbg (initial configuration)
	PreSizes []int  `json:"pre_sizes,omitempty"` // in-class sizes the prelude allocates (one class)
	Depth    int    `json:"depth,omitempty"`
	MaxLive  int    `json:"max_live,omitempty"`
	Fresh    bool   `json:"fresh,omitempty"`    // NewAllocator() per execution instead of reset
	DiffMod  int    `json:"diff_mod,omitempty"` // 1/DiffMod of the merged histories get the differential check
	History  []int  `json:"history,omitempty"`  // replay: execute exactly this history (op >= 0: Malloc(Sizes[op]); op < 0: Free(live[-op-1]))

	// defrag family
	Classes [][]int `json:"classes,omitempty"` // per class: in-class sizes to cycle through
	Pages   int     `json:"pages,omitempty"`   // pages filled per class
	Partial bool    `json:"partial,omitempty"` // plus half a page (current page not exhausted)
	Order   int     `json:"order,omitempty"`   // free order (OrdAsc…)
	Rest    int     `json:"rest,omitempty"`    // pattern of the non-distinguished pages
	Dist    []int   `json:"dist,omitempty"`    // indices of the distinguished pages
	NPat    int     `json:"npat,omitempty"`    // patterns per distinguished page (5)
	Assign  []int   `json:"assign,omitempty"`  // replay: exactly this assignment

	// integ / stress
	Variant int `json:"variant,omitempty"`
	Threads int `json:"threads,omitempty"`
	Rounds  int `json:"rounds,omitempty"`
	OpsPer  int `json:"ops_per,omitempty"`

	Verbose   bool `json:"verbose,omitempty"`    // replay: print every step
	ReplayOne bool `json:"replay_one,omitempty"` // execute only History / Assign
}

// FailRec is a violation as transported to the parent.
type FailRec struct {
	Kind   string                 `json:"kind"`
	What   string                 `json:"what"`
	Step   int                    `json:"step"`
	Replay map[string]interface{} `json:"replay"`
	Len    int                    `json:"len"` // size of the failing case (for choosing the minimal one)
}

// UnitResult is what a worker writes back.
type UnitResult struct {
	ID          int              `json:"id"`
	Done        bool             `json:"done"`
	States      int              `json:"states"`
	Transitions int              `json:"transitions"`
	Executions  int              `json:"executions"`
	Merged      int              `json:"merged"`
	DiffChecked int              `json:"diff_checked"`
	MaxDepth    int              `json:"max_depth"`
	PerDepth    []int            `json:"per_depth,omitempty"`
	KeySetHash  string           `json:"key_set_hash,omitempty"`
	Fails       []FailRec        `json:"fails,omitempty"`
	Cov         map[string]int   `json:"cov,omitempty"`
	Samples     []interface{}    `json:"samples,omitempty"`
	WallMs      int              `json:"wall_ms"`
	Mode        string           `json:"mode,omitempty"`
	Harness     string           `json:"harness,omitempty"` // harness problem (never a verdict)
	Probe       *ProbeResult     `json:"probe,omitempty"`
	Extra       map[string]int64 `json:"extra,omitempty"`
}

// ProbeResult is the size-class structure as OBSERVED on the real allocator.
type ProbeResult struct {
	Layout     Layout `json:"layout"`
	MaxShared  int    `json:"max_shared"` // Allocator.MaxSharedSize
	Bounds     []int  `json:"bounds"`     // largest size of every shared class (= observed cap), ascending
	PerPage    []int  `json:"per_page"`   // slots per page of every shared class (layout arithmetic)
	Threshold  int    `json:"threshold"`  // largest size served from a shared page
	ExactPriv  []int  `json:"exact_priv"` // first private sizes whose cap equals the size
	SizesTried int    `json:"sizes_tried"`
}

type curFile struct {
	f *os.File
}

// set records what is about to be executed, so that the parent knows the case
// that killed the process.
func (c *curFile) set(v interface{}) {
	if c == nil || c.f == nil {
		return
	}
	b, _ := json.Marshal(v)
	buf := make([]byte, 0, len(b)+1)
	buf = append(buf, b...)
	buf = append(buf, '\n')
	for len(buf) < 512 {
		buf = append(buf, ' ')
	}
	c.f.WriteAt(buf, 0)
}

func workerMain(args []string) {
	if len(args) < 2 {
		fmt.Fprintln(os.Stderr, "worker: need unit.json result.json [cur]")
		os.Exit(2)
	}
	b, err := os.ReadFile(args[0])
	if err != nil {
		fmt.Fprintln(os.Stderr, "worker:", err)
		os.Exit(2)
	}
	var u Unit
	if err := json.Unmarshal(b, &u); err != nil {
		fmt.Fprintln(os.Stderr, "worker:", err)
		os.Exit(2)
	}
	cur := &curFile{}
	if len(args) > 2 {
		cur.f, _ = os.OpenFile(args[2], os.O_CREATE|os.O_RDWR, 0o644)
	}
	// gocoin chatters on stdout
	if dn, err := os.OpenFile(os.DevNull, os.O_WRONLY, 0); err == nil && !u.Verbose {
		os.Stdout = dn
	}
	t0 := time.Now()
	res := &UnitResult{ID: u.ID, Cov: map[string]int{}, Extra: map[string]int64{}}
	baseGoroutines = runtime.NumGoroutine()
	installHook()
	if !hookWorks() {
		u.Kind = "nohook"
	}
	waitQuiet(baseGoroutines)
	switch u.Kind {
	case "nohook":
		res.Harness = "the unmap overlay hook is not active (checks/c20/overlay.sh pattern no longer matches lib/others/memory/mmap_unix.go?)"
	case "probe":
		runProbe(&u, res, cur)
	case "seq":
		runSeq(&u, res, cur)
	case "defrag":
		runDefrag(&u, res, cur)
	case "integ":
		runInteg(&u, res, cur)
	case "stress":
		runStress(&u, res, cur)
	default:
		res.Harness = "unknown unit kind " + u.Kind
	}
	res.Done = true
	res.WallMs = int(time.Since(t0).Milliseconds())
	ob, _ := json.Marshal(res)
	if err := os.WriteFile(args[1], ob, 0o644); err != nil {
		fmt.Fprintln(os.Stderr, "worker:", err)
		os.Exit(2)
	}
	os.Exit(0)
}

// ---------------------------------------------------------------------------
// clean-up bookkeeping: what the allocator has mapped on behalf of an execution

type mapped struct {
	mu        sync.Mutex
	lay       Layout
	maxShared int
	pages     map[uintptr]struct{}
	privs     map[uintptr]uintptr // hdr -> length
}

// baseGoroutines is the goroutine count of the idle worker, taken before any
// allocator exists (every NewAllocator starts a refill goroutine).
var baseGoroutines int

var (
	hookMu       sync.Mutex
	activeMapped *mapped
	hookCalls    int64 // unmap() calls of the allocator seen by the overlay hook
)

// installHook connects the overlay hook (see overlay.sh): every unmap() of the
// allocator removes the range from the active execution's candidates, so that
// release() only ever unmaps what the allocator still owns.
func installHook() {
	memory.VerifUnmapHook = func(addr uintptr, size int) {
		hookMu.Lock()
		hookCalls++
		m := activeMapped
		hookMu.Unlock()
		if m != nil {
			m.unmapped(addr, uintptr(size))
		}
	}
}

// hookWorks checks that the allocator's unmap() really reports to the hook (the
// overlay pattern may stop matching after a refactoring): a private allocation
// is freed, which must unmap.
func hookWorks() bool {
	a := memory.NewAllocator()
	hookMu.Lock()
	before := hookCalls
	hookMu.Unlock()
	p := a.Malloc(a.MaxSharedSize + 4096)
	if p == nil {
		return false
	}
	a.Free(p)
	hookMu.Lock()
	defer hookMu.Unlock()
	return hookCalls > before
}

func newMapped(l Layout, maxShared int) *mapped {
	m := &mapped{lay: l, maxShared: maxShared, pages: map[uintptr]struct{}{}, privs: map[uintptr]uintptr{}}
	hookMu.Lock()
	activeMapped = m
	hookMu.Unlock()
	return m
}

func (m *mapped) isPrivate(cap int) bool { return cap+hdrLen > m.maxShared }

func (m *mapped) touched(hdr uintptr, cap int) {
	m.mu.Lock()
	if m.isPrivate(cap) {
		m.privs[hdr] = uintptr(cap + hdrLen)
	} else {
		m.pages[hdr&^(m.lay.PageSize-1)] = struct{}{}
	}
	m.mu.Unlock()
}

// unmapped: the allocator has given [addr, addr+size) back to the OS.
func (m *mapped) unmapped(addr, size uintptr) {
	m.mu.Lock()
	if _, ok := m.privs[addr]; ok {
		delete(m.privs, addr)
	}
	for p := addr &^ (m.lay.PageSize - 1); p < addr+size; p += m.lay.PageSize {
		if p >= addr {
			delete(m.pages, p)
		}
	}
	if size > m.lay.PageSize {
		for p := range m.privs {
			if p >= addr && p < addr+size {
				delete(m.privs, p)
			}
		}
	}
	m.mu.Unlock()
}

func (m *mapped) freed(s *Slot) {}

// release unmaps every mapping the execution saw that the allocator has not
// unmapped itself. The allocator that owned them must not be used afterwards (or
// must be reset).
func (m *mapped) release() {
	hookMu.Lock()
	if activeMapped == m {
		activeMapped = nil
	}
	hookMu.Unlock()
	m.mu.Lock()
	defer m.mu.Unlock()
	for p := range m.pages {
		munmap(p, m.lay.PageSize)
		delete(m.pages, p)
	}
	for p, l := range m.privs {
		munmap(p, l)
		delete(m.privs, p)
	}
}

// ---------------------------------------------------------------------------
// probe: every size once; observes the class structure and applies the basic
// oracle (len, cap, addressable capacity, Allocs) to EVERY size 0..threshold+2 pages.

func runProbe(u *Unit, res *UnitResult, cur *curFile) {
	base := baseGoroutines
	a := memory.NewAllocator()
	lay, err := parseLayout(a)
	if err != nil {
		res.Harness = err.Error()
		return
	}
	waitQuiet(base)
	pr := &ProbeResult{Layout: lay, MaxShared: a.MaxSharedSize}
	m := newMapped(lay, a.MaxSharedSize)
	t := NewTracker(a, 7)
	t.Touched = m.touched
	limit := a.MaxSharedSize + 3*4096 + 64
	lastCap := -1
	var keep []*Slot // one live allocation per class stays, so Allocs is checked against > 0
	f := Protect(func() *Fail {
		for s := 0; s <= limit; s++ {
			cur.set(map[string]interface{}{"probe_size": s})
			p := a.Malloc(s)
			if p == nil {
				return failf("malloc-nil", "Malloc(%d) returned nil", s)
			}
			if len(*p) != s {
				return failf("len-mismatch", "Malloc(%d) returned len %d", s, len(*p))
			}
			c := cap(*p)
			if c < s {
				return failf("cap-too-small", "Malloc(%d) returned cap %d < size", s, c)
			}
			m.touched(uintptrOf(p), c)
			if c > 0 {
				full := (*p)[:c]
				full[0] = 1
				full[c-1] = 2
			}
			if got := a.Allocs.Load(); got != int64(len(keep)+1) {
				return failf("allocs-counter", "after Malloc(%d): Allocator.Allocs = %d, live allocations = %d", s, got, len(keep)+1)
			}
			private := c+hdrLen > a.MaxSharedSize
			if !private {
				pr.Threshold = s
				if c != lastCap {
					pr.Bounds = append(pr.Bounds, c)
					pr.PerPage = append(pr.PerPage, (int(lay.PageSize)-lay.PageHdr)/(c+lay.SlotHdr))
					lastCap = c
				}
			} else if c == s && len(pr.ExactPriv) < 3 {
				pr.ExactPriv = append(pr.ExactPriv, s)
			}
			a.Free(p)
			if got := a.Allocs.Load(); got != int64(len(keep)) {
				return failf("allocs-counter", "after Free of a %d-byte allocation: Allocator.Allocs = %d, live allocations = %d", s, got, len(keep))
			}
			pr.SizesTried++
		}
		return nil
	})
	if f != nil {
		res.Fails = append(res.Fails, FailRec{Kind: f.Kind, What: "single Malloc/Free sweep over all sizes: " + f.What,
			Replay: map[string]interface{}{"part": "probe", "note": "Malloc(s); check; Free for s = 0,1,2,… on one allocator", "fail": f.What}})
	}
	sort.Ints(pr.Bounds)
	res.Probe = pr
	res.Executions = pr.SizesTried
	res.Transitions = 2 * pr.SizesTried
	m.release()
}

// ---------------------------------------------------------------------------
// observed canonical state of a sequential execution

type pos struct{ ord, off int }

type clsObs struct {
	cap      int
	pages    []uintptr
	high     []int
	live     map[pos]int // dynamic live allocations: position -> size
	freed    []pos       // order in which currently-free slots were freed (top = last)
	base     int         // how many prelude entries at the bottom of freed are untouched
	irregular bool
}

type obsState struct {
	lay       Layout
	maxShared int
	cls       map[int]*clsObs
	priv      [][2]int // live private allocations (size, cap)
	inPrelude bool
	lastKind  string // classification of the last Malloc
}

func newObs(l Layout, maxShared int) *obsState {
	return &obsState{lay: l, maxShared: maxShared, cls: map[int]*clsObs{}}
}

func (o *obsState) where(s *Slot) (c *clsObs, p pos, private bool) {
	if s.Cap+hdrLen > o.maxShared {
		return nil, pos{}, true
	}
	c = o.cls[s.Cap]
	if c == nil {
		c = &clsObs{cap: s.Cap, live: map[pos]int{}}
		o.cls[s.Cap] = c
	}
	pg := s.Hdr &^ (o.lay.PageSize - 1)
	ord := -1
	for i, x := range c.pages {
		if x == pg {
			ord = i
		}
	}
	if ord < 0 {
		c.pages = append(c.pages, pg)
		c.high = append(c.high, 0)
		ord = len(c.pages) - 1
	}
	return c, pos{ord, int(s.Hdr - pg)}, false
}

func (o *obsState) onMalloc(s *Slot, bg bool) {
	c, p, private := o.where(s)
	if private {
		o.priv = append(o.priv, [2]int{s.Size, s.Cap})
		o.lastKind = "private"
		return
	}
	newPage := c.high[p.ord] == 0
	switch {
	case p.off >= c.high[p.ord]:
		c.high[p.ord] = p.off + s.Cap + hdrLen
		o.lastKind = "bump"
		if newPage {
			o.lastKind = "new-page"
		}
	case len(c.freed) > 0 && c.freed[len(c.freed)-1] == p:
		c.freed = c.freed[:len(c.freed)-1]
		if c.base > len(c.freed) {
			c.base = len(c.freed)
		}
		o.lastKind = "freelist-pop"
	default:
		o.lastKind = "freelist-other"
		for i := len(c.freed) - 1; i >= 0; i-- {
			if c.freed[i] == p {
				c.freed = append(c.freed[:i], c.freed[i+1:]...)
				c.irregular = true
				break
			}
		}
	}
	if !bg {
		c.live[p] = s.Size
	}
}

func (o *obsState) onFree(s *Slot) {
	c, p, private := o.where(s)
	if private {
		for i, x := range o.priv {
			if x == [2]int{s.Size, s.Cap} {
				o.priv = append(o.priv[:i], o.priv[i+1:]...)
				break
			}
		}
		return
	}
	delete(c.live, p)
	c.freed = append(c.freed, p)
	if o.inPrelude {
		c.base = len(c.freed)
	}
}

// rankKey orders live allocations canonically (for naming Free events).
func (o *obsState) rankKey(s *Slot) string {
	c, p, private := o.where(s)
	if private {
		return fmt.Sprintf("p%09d.%09d", s.Size, s.Cap)
	}
	return fmt.Sprintf("s%09d.%03d.%09d", c.cap, p.ord, p.off)
}

// key renders the complete observed abstract state. See main.go (keyArgument)
// for why equal keys imply equal futures.
func (o *obsState) key(a *memory.Allocator) string {
	var sb strings.Builder
	caps := make([]int, 0, len(o.cls))
	for c := range o.cls {
		caps = append(caps, c)
	}
	sort.Ints(caps)
	for _, cp := range caps {
		c := o.cls[cp]
		sb.WriteString("C")
		sb.WriteString(strconv.Itoa(cp))
		sb.WriteString("h")
		for _, h := range c.high {
			sb.WriteString(strconv.Itoa(h))
			sb.WriteByte(',')
		}
		sb.WriteString("L")
		ps := make([]pos, 0, len(c.live))
		for p := range c.live {
			ps = append(ps, p)
		}
		sort.Slice(ps, func(i, j int) bool {
			if ps[i].ord != ps[j].ord {
				return ps[i].ord < ps[j].ord
			}
			return ps[i].off < ps[j].off
		})
		for _, p := range ps {
			fmt.Fprintf(&sb, "%d.%d=%d,", p.ord, p.off, c.live[p])
		}
		sb.WriteString("F")
		from := 0
		if !c.irregular {
			sb.WriteString("b")
			sb.WriteString(strconv.Itoa(c.base))
			sb.WriteByte('+')
			from = c.base
		}
		for _, p := range c.freed[from:] {
			fmt.Fprintf(&sb, "%d.%d,", p.ord, p.off)
		}
		sb.WriteByte('|')
	}
	pv := append([][2]int{}, o.priv...)
	sort.Slice(pv, func(i, j int) bool {
		if pv[i][0] != pv[j][0] {
			return pv[i][0] < pv[j][0]
		}
		return pv[i][1] < pv[j][1]
	})
	sb.WriteString("P")
	for _, x := range pv {
		fmt.Fprintf(&sb, "%d/%d,", x[0], x[1])
	}
	fmt.Fprintf(&sb, "|A%dS%dP%d", a.Allocs.Load(), a.SharedMmaps.Load(), a.PrivateMmaps.Load())
	return sb.String()
}

// ---------------------------------------------------------------------------
// seq: explicit-state exploration

type seqExec struct {
	u      *Unit
	lay    Layout
	base   int
	rs     *resetter
	a      *memory.Allocator
	m      *mapped
	res    *UnitResult
	noByte bool // Bytes oracle switched off after its first report
}

type runOut struct {
	key      string
	fail     *Fail
	step     int    // index of the failing op (-1: prelude)
	evLabel  string // canonical name of the last event
	lastKind string
}

func (e *seqExec) newAlloc() *memory.Allocator {
	if e.u.Fresh || e.rs == nil {
		return memory.NewAllocator()
	}
	if e.a == nil {
		a, err := newPristine(e.base, e.lay)
		if err != nil {
			e.res.Harness = err.Error()
			return memory.NewAllocator()
		}
		e.a = a
	}
	return e.a
}

// bytesCheck: Allocator.Bytes ("asked from OS") must equal shared pages in use +
// cached pages + live private mappings. The refill goroutine adds to Bytes just
// before it puts the page into the cache, so in fresh mode the equation is
// awaited (generous bound), never sampled once.
func (e *seqExec) bytesCheck(a *memory.Allocator, t *Tracker) *Fail {
	if e.noByte {
		return nil
	}
	want := func() int64 {
		w := a.SharedMmaps.Load() * int64(e.lay.PageSize)
		if ch := cacheChan(a); ch != nil {
			w += int64(len(ch)) * int64(e.lay.PageSize)
		}
		for _, s := range t.Live {
			if s.Cap+hdrLen > a.MaxSharedSize {
				w += int64(s.Cap + hdrLen)
			}
		}
		return w
	}
	for i := 0; ; i++ {
		w, g := want(), a.Bytes.Load()
		if w == g {
			return nil
		}
		if !e.u.Fresh || i > 600000 {
			e.noByte = true
			return failf("bytes-counter", "Allocator.Bytes = %d, but shared pages in use (%d) + cached pages + live private mappings amount to %d", g, a.SharedMmaps.Load(), w)
		}
		if i < 1000 {
			runtime.Gosched()
		} else {
			time.Sleep(100 * time.Microsecond)
		}
	}
}

func (e *seqExec) prelude(t *Tracker, o *obsState) *Fail {
	u := e.u
	if u.Prelude == "" || u.Prelude == "fresh" {
		return nil
	}
	o.inPrelude = true
	defer func() { o.inPrelude = false }()
	first, f := t.Malloc(u.PreSizes[0])
	if f != nil {
		return f
	}
	o.onMalloc(first, true)
	perPage := (int(e.lay.PageSize) - e.lay.PageHdr) / (first.Cap + e.lay.SlotHdr)
	n := perPage
	if u.Prelude == "nearfull" {
		n = perPage - 2
	}
	for i := 1; i < n; i++ {
		s, f := t.Malloc(u.PreSizes[i%len(u.PreSizes)])
		if f != nil {
			return f
		}
		o.onMalloc(s, true)
	}
	switch u.Prelude {
	case "nearfull":
		for len(t.Live) > 0 {
			s := t.Live[0]
			o.onFree(s)
			e.m.freed(s)
			// Tracker.Free on Live[0] is O(n): free in bulk instead
			if f := t.CheckSlot(s); f != nil {
				return f
			}
			t.Live = t.Live[1:]
			t.Ops++
			t.A.Free(s.P)
		}
		t.Live = nil
	case "full2free":
		a, b := t.Live[0], t.Live[len(t.Live)-1]
		for _, s := range []*Slot{a, b} {
			o.onFree(s)
			if f := t.Free(s); f != nil {
				return f
			}
		}
		return t.SealBG()
	case "fullbg":
		return t.SealBG()
	}
	return nil
}

// run executes prelude + history on a pristine allocator. Full oracle after the
// last operation (and after every operation when every is set); the cheap checks
// (return value, Allocs) after every operation.
func (e *seqExec) run(hist []int8, every bool, verbose bool) (out runOut) {
	a := e.newAlloc()
	e.m = newMapped(e.lay, a.MaxSharedSize)
	t := NewTracker(a, 1)
	t.Touched = e.m.touched
	o := newObs(e.lay, a.MaxSharedSize)
	out.step = -1
	out.fail = Protect(func() *Fail {
		if f := e.prelude(t, o); f != nil {
			return f
		}
		if len(hist) == 0 || every {
			if f := t.CheckAll(); f != nil {
				return f
			}
		}
		for i, op := range hist {
			out.step = i
			last := i == len(hist)-1
			if op >= 0 {
				if last {
					out.evLabel = "M" + strconv.Itoa(int(op))
				}
				s, f := t.Malloc(e.u.Sizes[op])
				if f != nil {
					return f
				}
				o.onMalloc(s, false)
				if verbose {
					fmt.Fprintf(os.Stderr, "  step %d: Malloc(%d) -> hdr %#x len %d cap %d [%s]\n", i, s.Size, s.Hdr, s.Size, s.Cap, o.lastKind)
				}
			} else {
				idx := int(-op - 1)
				if idx >= len(t.Live) {
					return failf("harness", "history frees live[%d] but only %d live", idx, len(t.Live))
				}
				s := t.Live[idx]
				if last {
					out.evLabel = "F" + o.rankKey(s)
				}
				o.onFree(s)
				e.m.freed(s)
				if verbose {
					fmt.Fprintf(os.Stderr, "  step %d: Free(hdr %#x size %d)\n", i, s.Hdr, s.Size)
				}
				if f := t.Free(s); f != nil {
					return f
				}
			}
			if last || every {
				if f := t.CheckAll(); f != nil {
					return f
				}
			} else if f := CheckAllocs(a, t.LiveCount()); f != nil {
				return f
			}
		}
		if f := e.bytesCheck(a, t); f != nil {
			return f
		}
		return nil
	})
	if out.fail == nil {
		out.key = o.key(a)
		out.lastKind = o.lastKind
	}
	// give the memory back and make the allocator pristine again
	if out.fail != nil && (out.fail.Kind == "fault" || out.fail.Kind == "panic") {
		// the allocator may hold a class mutex or dangling lists: abandon it
		e.m.release()
		e.a = nil
		return
	}
	if e.u.Fresh || e.rs == nil {
		waitQuiet(e.base)
		drainCache(a, e.lay.PageSize, e.m)
		e.m.release()
	} else {
		e.rs.reset(a, e.m)
		e.m.release()
	}
	return
}

func histInts(h []int8) []int {
	r := make([]int, len(h))
	for i, x := range h {
		r[i] = int(x)
	}
	return r
}

func (e *seqExec) describe(h []int8) []string {
	var out []string
	live := []int{}
	for _, op := range h {
		if op >= 0 {
			out = append(out, fmt.Sprintf("Malloc(%d)", e.u.Sizes[op]))
			live = append(live, e.u.Sizes[op])
		} else {
			i := int(-op - 1)
			if i < len(live) {
				out = append(out, fmt.Sprintf("Free(live[%d] = the %d-byte one)", i, live[i]))
				live = append(live[:i], live[i+1:]...)
			} else {
				out = append(out, fmt.Sprintf("Free(live[%d])", i))
			}
		}
	}
	return out
}

func shortHash(s string) [16]byte {
	h := sha256.Sum256([]byte(s))
	var r [16]byte
	copy(r[:], h[:16])
	return r
}

func fnv(h []int8) uint32 {
	x := uint32(2166136261)
	for _, b := range h {
		x ^= uint32(uint8(b))
		x *= 16777619
	}
	return x
}

func runSeq(u *Unit, res *UnitResult, cur *curFile) {
	base := baseGoroutines
	probe := memory.NewAllocator()
	lay, err := parseLayout(probe)
	if err != nil {
		res.Harness = err.Error()
		return
	}
	waitQuiet(base)
	drainCache(probe, lay.PageSize, nil)
	e := &seqExec{u: u, lay: lay, base: base, res: res}
	res.Mode = "fresh"
	if !u.Fresh {
		rs := newResetter(base, lay)
		if rs.reason != "" {
			res.Extra["reset_refused"] = 1
			fmt.Fprintln(os.Stderr, "reset mode refused:", rs.reason)
		} else {
			e.rs = rs
			res.Mode = "reset"
		}
	}
	if u.MaxLive == 0 {
		u.MaxLive = 5
	}
	addFail := func(h []int8, o runOut) {
		res.Fails = append(res.Fails, FailRec{Kind: o.fail.Kind, Step: o.step, Len: len(h),
			What: fmt.Sprintf("unit %s, initial configuration %q, history %v: after operation %d: %s", u.Name, u.Prelude, e.describe(h), o.step+1, o.fail.What),
			Replay: map[string]interface{}{"part": "seq", "unit": replayUnit(u), "history": histInts(h), "ops": e.describe(h)}})
	}
	// replay of a single history
	if u.ReplayOne {
		h := make([]int8, len(u.History))
		for i, x := range u.History {
			h[i] = int8(x)
		}
		cur.set(map[string]interface{}{"history": u.History})
		o := e.run(h, true, u.Verbose)
		res.Executions, res.Transitions = 1, len(h)
		if o.fail != nil {
			addFail(h, o)
		}
		return
	}

	type ext struct {
		h   []int8
		key [16]byte
	}
	seen := map[[16]byte]struct{}{}
	succSig := map[[16]byte][16]byte{}
	var keyAcc [32]byte // order-independent accumulator of the key set
	addKey := func(k [16]byte) {
		h := sha256.Sum256(k[:])
		for i := range keyAcc {
			keyAcc[i] ^= h[i]
		}
	}
	liveOf := func(h []int8) int {
		n := 0
		for _, op := range h {
			if op >= 0 {
				n++
			} else {
				n--
			}
		}
		return n
	}
	root := e.run(nil, true, false)
	res.Executions++
	if root.fail != nil {
		addFail(nil, root)
		return
	}
	rk := shortHash(root.key)
	seen[rk] = struct{}{}
	addKey(rk)
	frontier := []ext{{nil, rk}}
	var extras []ext
	res.PerDepth = append(res.PerDepth, 1)
	samples := 0
	stop := false
	for d := 0; d < u.Depth && !stop; d++ {
		var next, nextExtras []ext
		expand := func(x ext, representative bool) {
			live := liveOf(x.h)
			var sig []string
			try := func(op int8) {
				h2 := make([]int8, len(x.h)+1)
				copy(h2, x.h)
				h2[len(x.h)] = op
				cur.set(map[string]interface{}{"history": histInts(h2)})
				o := e.run(h2, false, false)
				res.Executions++
				res.Transitions++
				if o.fail != nil {
					addFail(h2, o)
					if len(res.Fails) >= 12 {
						stop = true
					}
					return
				}
				if op >= 0 {
					res.Cov["malloc:"+o.lastKind]++
				} else {
					res.Cov["free"]++
				}
				k := shortHash(o.key)
				sig = append(sig, o.evLabel+">"+hex.EncodeToString(k[:]))
				if !representative {
					return
				}
				if _, ok := seen[k]; !ok {
					seen[k] = struct{}{}
					addKey(k)
					next = append(next, ext{h2, k})
					if samples < 2 && len(h2) >= 4 {
						samples++
						res.Samples = append(res.Samples, map[string]interface{}{"unit": u.Name, "prelude": u.Prelude, "history": e.describe(h2), "state_key": o.key})
					}
				} else {
					res.Merged++
					if u.DiffMod > 0 && len(h2) < u.Depth && fnv(h2)%uint32(u.DiffMod) == 0 {
						nextExtras = append(nextExtras, ext{h2, k})
					}
				}
			}
			if live < u.MaxLive {
				for s := range u.Sizes {
					if stop {
						return
					}
					try(int8(s))
				}
			}
			for i := 0; i < live; i++ {
				if stop {
					return
				}
				try(int8(-i - 1))
			}
			sort.Strings(sig)
			sg := shortHash(strings.Join(sig, ";"))
			if representative {
				succSig[x.key] = sg
			} else {
				res.DiffChecked++
				if want, ok := succSig[x.key]; ok && want != sg {
					res.Fails = append(res.Fails, FailRec{Kind: "merge-unsound", Len: len(x.h),
						What:   fmt.Sprintf("HARNESS: unit %s: history %v reaches a canonical state already seen, but its successor states differ from the representative's — the canonical key misses state", u.Name, e.describe(x.h)),
						Replay: map[string]interface{}{"part": "seq", "unit": replayUnit(u), "history": histInts(x.h)}})
				}
			}
		}
		for _, x := range frontier {
			if stop {
				break
			}
			expand(x, true)
		}
		for _, x := range extras {
			if stop {
				break
			}
			expand(x, false)
		}
		if len(next) > 0 {
			res.MaxDepth = d + 1
		}
		res.PerDepth = append(res.PerDepth, len(next))
		frontier, extras = next, nextExtras
		// successor signatures of the previous level are no longer needed once the
		// extras of that level have been compared
		if len(succSig) > 4_000_000 {
			succSig = map[[16]byte][16]byte{}
		}
	}
	res.States = len(seen)
	res.KeySetHash = hex.EncodeToString(keyAcc[:8])
}

func replayUnit(u *Unit) *Unit {
	c := *u
	c.History, c.Assign, c.ReplayOne = nil, nil, false
	return &c
}

