// worker.go — the part of the check that runs in child processes
// (`c20 --worker unit.json result.json cur`). One process per unit: whatever the
// allocator does to the address space (or a crash of the code under test) is
// confined to that process and classified by the parent.
package main

import (
	"encoding/json"
	"fmt"
	"os"
	"runtime"
	"runtime/debug"
	"runtime/pprof"
	"sort"
	"strconv"
	"sync"
	"sync/atomic"
	"time"

	"github.com/piotrnar/gocoin/lib/others/memory"
)

// Unit is one independently explorable piece of work.
type Unit struct {
	ID   int    `json:"id"`
	Kind string `json:"kind"` // probe | seq | defrag | integ | stress
	Name string `json:"name"`

	// seq: explicit-state exploration of Malloc/Free histories
	Sizes    []int  `json:"sizes,omitempty"`     // the Malloc alphabet
	Prelude  string `json:"prelude,omitempty"`   // fresh | nearfull | full2free | fullbg (initial configuration)
	PreSizes []int  `json:"pre_sizes,omitempty"` // in-class sizes the prelude allocates (one class)
	Depth    int    `json:"depth,omitempty"`
	MaxLive  int    `json:"max_live,omitempty"`
	Fresh    bool   `json:"fresh,omitempty"`    // NewAllocator() per execution instead of reset
	Par      int    `json:"par,omitempty"`      // executor goroutines inside the worker (each with its own allocator)
	DiffMod  int    `json:"diff_mod,omitempty"` // 1/DiffMod of the merged histories get the differential check
	History  []int  `json:"history,omitempty"`  // replay: execute exactly this history (op >= 0: Malloc(Sizes[op]); op < 0: Free(live[-op-1]))

	// defrag family
	Classes  [][]int `json:"classes,omitempty"`  // per class: in-class sizes to cycle through
	Pages    int     `json:"pages,omitempty"`    // pages filled per class
	Partial  bool    `json:"partial,omitempty"`  // plus half a page (current page not exhausted)
	Order    int     `json:"order,omitempty"`    // free order (OrdAsc…)
	Rest     int     `json:"rest,omitempty"`     // pattern of the non-distinguished pages
	Dist     []int   `json:"dist,omitempty"`     // indices of the distinguished pages
	NPat     int     `json:"npat,omitempty"`     // patterns per distinguished page (5)
	Assign   []int   `json:"assign,omitempty"`   // replay: exactly this assignment
	Remalloc int     `json:"remalloc,omitempty"` // allocations made per class between fragmenting and defragmenting (the last operation before defrag is then a Malloc served from the free list)

	// integ / stress
	Variant int `json:"variant,omitempty"`
	Threads int `json:"threads,omitempty"`
	Rounds  int `json:"rounds,omitempty"`
	OpsPer  int `json:"ops_per,omitempty"`

	Verbose   bool `json:"verbose,omitempty"`    // replay: print every step
	ReplayOne bool `json:"replay_one,omitempty"` // execute only History / Assign
}

// FailRec is a violation as transported to the parent.
type FailRec struct {
	Kind   string                 `json:"kind"`
	What   string                 `json:"what"`
	Step   int                    `json:"step"`
	Replay map[string]interface{} `json:"replay"`
	Len    int                    `json:"len"` // size of the failing case (for choosing the minimal one)
}

// UnitResult is what a worker writes back.
type UnitResult struct {
	ID          int              `json:"id"`
	Done        bool             `json:"done"`
	States      int              `json:"states"`
	Transitions int              `json:"transitions"`
	Executions  int              `json:"executions"`
	Merged      int              `json:"merged"`
	DiffChecked int              `json:"diff_checked"`
	MaxDepth    int              `json:"max_depth"`
	PerDepth    []int            `json:"per_depth,omitempty"`
	KeySetHash  string           `json:"key_set_hash,omitempty"`
	Fails       []FailRec        `json:"fails,omitempty"`
	Cov         map[string]int   `json:"cov,omitempty"`
	Samples     []interface{}    `json:"samples,omitempty"`
	WallMs      int              `json:"wall_ms"`
	Mode        string           `json:"mode,omitempty"`
	Harness     string           `json:"harness,omitempty"` // harness problem (never a verdict)
	Probe       *ProbeResult     `json:"probe,omitempty"`
	Extra       map[string]int64 `json:"extra,omitempty"`
}

// ProbeResult is the size-class structure as OBSERVED on the real allocator.
type ProbeResult struct {
	Layout     Layout `json:"layout"`
	MaxShared  int    `json:"max_shared"` // Allocator.MaxSharedSize
	Bounds     []int  `json:"bounds"`     // largest size of every shared class (= observed cap), ascending
	PerPage    []int  `json:"per_page"`   // slots per page of every shared class (layout arithmetic)
	Threshold  int    `json:"threshold"`  // largest size served from a shared page
	ExactPriv  []int  `json:"exact_priv"` // first private sizes whose cap equals the size
	SizesTried int    `json:"sizes_tried"`
}

type curFile struct {
	f *os.File
}

// set records what is about to be executed, so that the parent knows the case
// that killed the process.
func (c *curFile) set(v interface{}) {
	if c == nil || c.f == nil {
		return
	}
	b, _ := json.Marshal(v)
	c.setRaw(0, b)
}

// setRaw writes one JSON record into slot idx (one slot per executor goroutine).
func (c *curFile) setRaw(idx int, b []byte) {
	if c == nil || c.f == nil {
		return
	}
	var buf [256]byte
	n := copy(buf[:255], b)
	for i := n; i < 255; i++ {
		buf[i] = ' '
	}
	buf[255] = '\n'
	c.f.WriteAt(buf[:], int64(idx)*256)
}

func workerMain(args []string) {
	if len(args) < 2 {
		fmt.Fprintln(os.Stderr, "worker: need unit.json result.json [cur]")
		os.Exit(2)
	}
	b, err := os.ReadFile(args[0])
	if err != nil {
		fmt.Fprintln(os.Stderr, "worker:", err)
		os.Exit(2)
	}
	var u Unit
	if err := json.Unmarshal(b, &u); err != nil {
		fmt.Fprintln(os.Stderr, "worker:", err)
		os.Exit(2)
	}
	cur := &curFile{}
	if len(args) > 2 {
		cur.f, _ = os.OpenFile(args[2], os.O_CREATE|os.O_RDWR, 0o644)
	}
	// gocoin chatters on stdout
	if dn, err := os.OpenFile(os.DevNull, os.O_WRONLY, 0); err == nil && !u.Verbose {
		os.Stdout = dn
	}
	t0 := time.Now()
	if pf := os.Getenv("C20_PPROF"); pf != "" {
		if f, err := os.Create(pf); err == nil {
			pprof.StartCPUProfile(f)
			defer pprof.StopCPUProfile()
		}
	}
	res := &UnitResult{ID: u.ID, Cov: map[string]int{}, Extra: map[string]int64{}}
	debug.SetGCPercent(400)
	baseGoroutines = runtime.NumGoroutine()
	installHook()
	if !hookWorks() {
		u.Kind = "nohook"
	}
	waitQuiet(baseGoroutines)
	switch u.Kind {
	case "nohook":
		res.Harness = "the unmap overlay hook is not active (checks/c20/overlay.sh pattern no longer matches lib/others/memory/mmap_unix.go?)"
	case "probe":
		runProbe(&u, res, cur)
	case "seq":
		runSeq(&u, res, cur)
	case "defrag":
		runDefrag(&u, res, cur)
	case "integ":
		runInteg(&u, res, cur)
	case "stress":
		runStress(&u, res, cur)
	default:
		res.Harness = "unknown unit kind " + u.Kind
	}
	res.Done = true
	res.WallMs = int(time.Since(t0).Milliseconds())
	pprof.StopCPUProfile()
	ob, _ := json.Marshal(res)
	if err := os.WriteFile(args[1], ob, 0o644); err != nil {
		fmt.Fprintln(os.Stderr, "worker:", err)
		os.Exit(2)
	}
	os.Exit(0)
}

// ---------------------------------------------------------------------------
// clean-up bookkeeping: what the allocator has mapped on behalf of an execution

type mapped struct {
	mu        sync.Mutex
	lay       Layout
	maxShared int
	pages     map[uintptr]struct{}
	privs     map[uintptr]uintptr // hdr -> length
	lastPage  atomic.Uintptr
}

// baseGoroutines is the goroutine count of the idle worker, taken before any
// allocator exists (every NewAllocator starts a refill goroutine).
var baseGoroutines int

var (
	hookMu       sync.Mutex
	activeMapped = map[*mapped]struct{}{}
	hookCalls    int64 // unmap() calls of the allocator seen by the overlay hook
)

// installHook connects the overlay hook (see overlay.sh): every unmap() of the
// allocator removes the range from the candidates of the executions in progress
// (address ranges of different allocators are disjoint), so that release() only
// ever unmaps what the allocator still owns.
func installHook() {
	memory.VerifUnmapHook = func(addr uintptr, size int) {
		hookMu.Lock()
		hookCalls++
		for m := range activeMapped {
			m.unmapped(addr, uintptr(size))
		}
		hookMu.Unlock()
	}
}

// hookWorks checks that the allocator's unmap() really reports to the hook (the
// overlay pattern may stop matching after a refactoring): a private allocation
// is freed, which must unmap.
func hookWorks() bool {
	a := memory.NewAllocator()
	hookMu.Lock()
	before := hookCalls
	hookMu.Unlock()
	p := a.Malloc(a.MaxSharedSize + 4096)
	if p == nil {
		return false
	}
	a.Free(p)
	hookMu.Lock()
	defer hookMu.Unlock()
	return hookCalls > before
}

func newMapped(l Layout, maxShared int) *mapped {
	m := &mapped{lay: l, maxShared: maxShared, pages: map[uintptr]struct{}{}, privs: map[uintptr]uintptr{}}
	hookMu.Lock()
	activeMapped[m] = struct{}{}
	hookMu.Unlock()
	return m
}

func (m *mapped) isPrivate(cap int) bool { return cap+hdrLen > m.maxShared }

func (m *mapped) touched(hdr uintptr, cap int) {
	private := m.isPrivate(cap)
	pg := hdr &^ (m.lay.PageSize - 1)
	if !private && m.lastPage.Load() == pg {
		return // same page as the previous allocation: already a candidate
	}
	m.mu.Lock()
	if private {
		m.privs[hdr] = uintptr(cap + hdrLen)
	} else {
		m.pages[pg] = struct{}{}
		m.lastPage.Store(pg)
	}
	m.mu.Unlock()
}

// unmapped: the allocator has given [addr, addr+size) back to the OS.
func (m *mapped) unmapped(addr, size uintptr) {
	m.mu.Lock()
	if _, ok := m.privs[addr]; ok {
		delete(m.privs, addr)
	}
	for p := addr &^ (m.lay.PageSize - 1); p < addr+size; p += m.lay.PageSize {
		if p >= addr {
			delete(m.pages, p)
			m.lastPage.CompareAndSwap(p, 0)
		}
	}
	if size > m.lay.PageSize {
		for p := range m.privs {
			if p >= addr && p < addr+size {
				delete(m.privs, p)
			}
		}
	}
	m.mu.Unlock()
}

func (m *mapped) freed(s *Slot) {}

// release unmaps every mapping the execution saw that the allocator has not
// unmapped itself. The allocator that owned them must not be used afterwards (or
// must be reset).
func (m *mapped) release() {
	hookMu.Lock()
	delete(activeMapped, m)
	hookMu.Unlock()
	m.mu.Lock()
	defer m.mu.Unlock()
	for p := range m.pages {
		munmap(p, m.lay.PageSize)
		delete(m.pages, p)
	}
	for p, l := range m.privs {
		munmap(p, l)
		delete(m.privs, p)
	}
}

// ---------------------------------------------------------------------------
// probe: every size once; observes the class structure and applies the basic
// oracle (len, cap, addressable capacity, Allocs) to EVERY size 0..threshold+2 pages.

func runProbe(u *Unit, res *UnitResult, cur *curFile) {
	base := baseGoroutines
	a := memory.NewAllocator()
	lay, err := parseLayout(a)
	if err != nil {
		res.Harness = err.Error()
		return
	}
	waitQuiet(base)
	pr := &ProbeResult{Layout: lay, MaxShared: a.MaxSharedSize}
	m := newMapped(lay, a.MaxSharedSize)
	t := NewTracker(a, 7)
	t.Touched = m.touched
	limit := a.MaxSharedSize + 3*4096 + 64
	lastCap := -1
	var keep []*Slot
	// a wrong Allocs counter does not stop the sweep (the class structure is still
	// observed completely); only its first occurrence is reported
	var allocsFail *Fail
	f := Protect(func() *Fail {
		for s := 0; s <= limit; s++ {
			cur.set(map[string]interface{}{"probe_size": s})
			p := a.Malloc(s)
			if p == nil {
				return failf("malloc-nil", "Malloc(%d) returned nil", s)
			}
			l, c := rawLenCap(p)
			if l != s {
				return failf("len-mismatch", "Malloc(%d) returned len %d", s, l)
			}
			if c < s {
				return failf("cap-too-small", "Malloc(%d) returned cap %d < size", s, c)
			}
			m.touched(uintptrOf(p), c)
			if c > 0 {
				full := (*p)[:c]
				full[0] = 1
				full[c-1] = 2
			}
			if got := a.Allocs.Load(); got != int64(len(keep)+1) && allocsFail == nil {
				allocsFail = failf("allocs-counter", "after Malloc(%d): Allocator.Allocs = %d, live allocations = %d", s, got, len(keep)+1)
			}
			private := c+hdrLen > a.MaxSharedSize
			if !private {
				pr.Threshold = s
				if c != lastCap {
					pr.Bounds = append(pr.Bounds, c)
					pr.PerPage = append(pr.PerPage, (int(lay.PageSize)-lay.PageHdr)/(c+lay.SlotHdr))
					lastCap = c
				}
			} else if c == s && len(pr.ExactPriv) < 3 {
				pr.ExactPriv = append(pr.ExactPriv, s)
			}
			a.Free(p)
			if got := a.Allocs.Load(); got != int64(len(keep)) && allocsFail == nil {
				allocsFail = failf("allocs-counter", "after Free of a %d-byte allocation: Allocator.Allocs = %d, live allocations = %d", s, got, len(keep))
			}
			pr.SizesTried++
		}
		return nil
	})
	for _, f := range []*Fail{f, allocsFail} {
		if f != nil {
			res.Fails = append(res.Fails, FailRec{Kind: f.Kind, What: "single Malloc/Free sweep over all sizes: " + f.What,
				Replay: map[string]interface{}{"part": "probe", "note": "Malloc(s); check; Free for s = 0,1,2,… on one allocator", "fail": f.What}})
		}
	}
	sort.Ints(pr.Bounds)
	res.Probe = pr
	res.Executions = pr.SizesTried
	res.Transitions = 2 * pr.SizesTried
	m.release()
}

// ---------------------------------------------------------------------------
// observed canonical state of a sequential execution

type pos struct{ ord, off int }

type clsObs struct {
	cap       int
	pages     []uintptr
	high      []int
	live      map[pos]int // dynamic live allocations: position -> size
	freed     []pos       // order in which currently-free slots were freed (top = last)
	base      int         // how many prelude entries at the bottom of freed are untouched
	irregular bool
}

type obsState struct {
	lay       Layout
	maxShared int
	lastCls   *clsObs
	lastPg    uintptr
	lastOrd   int
	cls       map[int]*clsObs
	priv      [][2]int // live private allocations (size, cap)
	inPrelude bool
	lastKind  string // classification of the last Malloc
}

func newObs(l Layout, maxShared int) *obsState {
	return &obsState{lay: l, maxShared: maxShared, cls: map[int]*clsObs{}}
}

func (o *obsState) where(s *Slot) (c *clsObs, p pos, private bool) {
	if s.Cap+hdrLen > o.maxShared {
		return nil, pos{}, true
	}
	pg := s.Hdr &^ (o.lay.PageSize - 1)
	if c = o.lastCls; c != nil && c.cap == s.Cap && pg == o.lastPg {
		return c, pos{o.lastOrd, int(s.Hdr - pg)}, false
	}
	c = o.cls[s.Cap]
	if c == nil {
		c = &clsObs{cap: s.Cap, live: map[pos]int{}}
		o.cls[s.Cap] = c
	}
	ord := -1
	for i, x := range c.pages {
		if x == pg {
			ord = i
		}
	}
	if ord < 0 {
		c.pages = append(c.pages, pg)
		c.high = append(c.high, 0)
		ord = len(c.pages) - 1
	}
	o.lastCls, o.lastPg, o.lastOrd = c, pg, ord
	return c, pos{ord, int(s.Hdr - pg)}, false
}

func (o *obsState) onMalloc(s *Slot, bg bool) {
	c, p, private := o.where(s)
	if private {
		o.priv = append(o.priv, [2]int{s.Size, s.Cap})
		o.lastKind = "private"
		return
	}
	newPage := c.high[p.ord] == 0
	switch {
	case p.off >= c.high[p.ord]:
		c.high[p.ord] = p.off + s.Cap + hdrLen
		o.lastKind = "bump"
		if newPage {
			o.lastKind = "new-page"
		}
	case len(c.freed) > 0 && c.freed[len(c.freed)-1] == p:
		c.freed = c.freed[:len(c.freed)-1]
		if c.base > len(c.freed) {
			c.base = len(c.freed)
		}
		o.lastKind = "freelist-pop"
	default:
		o.lastKind = "freelist-other"
		for i := len(c.freed) - 1; i >= 0; i-- {
			if c.freed[i] == p {
				c.freed = append(c.freed[:i], c.freed[i+1:]...)
				c.irregular = true
				break
			}
		}
	}
	if !bg {
		c.live[p] = s.Size
	}
}

func (o *obsState) onFree(s *Slot) {
	c, p, private := o.where(s)
	if private {
		for i, x := range o.priv {
			if x == [2]int{s.Size, s.Cap} {
				o.priv = append(o.priv[:i], o.priv[i+1:]...)
				break
			}
		}
		return
	}
	delete(c.live, p)
	c.freed = append(c.freed, p)
	if o.inPrelude {
		c.base = len(c.freed)
	}
}

// rankKey orders live allocations canonically (for naming Free events).
func (o *obsState) rankKey(s *Slot) string {
	c, p, private := o.where(s)
	if private {
		return fmt.Sprintf("p%09d.%09d", s.Size, s.Cap)
	}
	return fmt.Sprintf("s%09d.%03d.%09d", c.cap, p.ord, p.off)
}

// key renders the complete observed abstract state. See main.go (keyArgument)
// for why equal keys imply equal futures.
func (o *obsState) key(a *memory.Allocator) string {
	b := make([]byte, 0, 256)
	num := func(v int) { b = strconv.AppendInt(b, int64(v), 10) }
	caps := make([]int, 0, len(o.cls))
	for c := range o.cls {
		caps = append(caps, c)
	}
	sort.Ints(caps)
	for _, cp := range caps {
		c := o.cls[cp]
		b = append(b, 'C')
		num(cp)
		b = append(b, 'h')
		for _, h := range c.high {
			num(h)
			b = append(b, ',')
		}
		b = append(b, 'L')
		ps := make([]pos, 0, len(c.live))
		for p := range c.live {
			ps = append(ps, p)
		}
		sort.Slice(ps, func(i, j int) bool {
			if ps[i].ord != ps[j].ord {
				return ps[i].ord < ps[j].ord
			}
			return ps[i].off < ps[j].off
		})
		for _, p := range ps {
			num(p.ord)
			b = append(b, '.')
			num(p.off)
			b = append(b, '=')
			num(c.live[p])
			b = append(b, ',')
		}
		b = append(b, 'F')
		from := 0
		if !c.irregular {
			b = append(b, 'b')
			num(c.base)
			b = append(b, '+')
			from = c.base
		}
		for _, p := range c.freed[from:] {
			num(p.ord)
			b = append(b, '.')
			num(p.off)
			b = append(b, ',')
		}
		b = append(b, '|')
	}
	pv := append([][2]int{}, o.priv...)
	sort.Slice(pv, func(i, j int) bool {
		if pv[i][0] != pv[j][0] {
			return pv[i][0] < pv[j][0]
		}
		return pv[i][1] < pv[j][1]
	})
	b = append(b, 'P')
	for _, x := range pv {
		num(x[0])
		b = append(b, '/')
		num(x[1])
		b = append(b, ',')
	}
	b = append(b, "|A"...)
	num(int(a.Allocs.Load()))
	b = append(b, 'S')
	num(int(a.SharedMmaps.Load()))
	b = append(b, 'P')
	num(int(a.PrivateMmaps.Load()))
	return string(b)
}

func replayUnit(u *Unit) *Unit {
	c := *u
	c.History, c.Assign, c.ReplayOne = nil, nil, false
	return &c
}
