// seq.go — explicit-state exploration of Malloc/Free histories (worker side).
//
//	frontier = [[]]; seen = {key(run([]))}
//	for depth d: for hist in frontier: for ev in enabled(hist):
//	    run(prelude + hist + [ev]) on a pristine allocator, oracle after ev
//	    k = observed canonical key; new -> push
//
// The executions of one level are spread over Par executor goroutines, each with
// its own allocator; representatives are chosen after each level in history
// order, so states, transitions and verdicts do not depend on goroutine timing.
package main

import (
	"crypto/sha256"
	"encoding/hex"
	"fmt"
	"os"
	"runtime"
	"sort"
	"strconv"
	"strings"
	"sync"
	"sync/atomic"
	"time"

	"github.com/piotrnar/gocoin/lib/others/memory"
)

type seqShared struct {
	u          *Unit
	lay        Layout
	base       int
	rs         *resetter
	noByte     atomic.Bool // Bytes oracle switched off after its first report
	preChecked atomic.Bool // the prelude has been executed once with full checks
	cur        *curFile
}

type seqExec struct {
	*seqShared
	idx int
	t   *Tracker
	a   *memory.Allocator
	m   *mapped
	bad string // harness problem
}

type runOut struct {
	key      string
	fail     *Fail
	step     int    // index of the failing op (-1: prelude)
	evLabel  string // canonical name of the last event
	lastKind string
}

func (e *seqExec) newAlloc() *memory.Allocator {
	if e.u.Fresh || e.rs == nil {
		return memory.NewAllocator()
	}
	if e.a == nil {
		a, err := newPristine(e.base, e.lay)
		if err != nil {
			e.bad = err.Error()
			return memory.NewAllocator()
		}
		e.a = a
	}
	return e.a
}

// bytesCheck: Allocator.Bytes ("asked from OS") must equal shared pages in use +
// cached pages + live private mappings. The refill goroutine adds to Bytes just
// before it puts the page into the cache, so in fresh mode the equation is
// awaited (generous bound), never sampled once.
func (e *seqExec) bytesCheck(a *memory.Allocator, t *Tracker) *Fail {
	if e.noByte.Load() {
		return nil
	}
	want := func() int64 {
		w := a.SharedMmaps.Load() * int64(e.lay.PageSize)
		if ch := cacheChan(a); ch != nil {
			w += int64(len(ch)) * int64(e.lay.PageSize)
		}
		for _, s := range t.Live {
			if s.Cap+hdrLen > a.MaxSharedSize {
				w += int64(s.Cap + hdrLen)
			}
		}
		return w
	}
	t0 := time.Now()
	for i := 0; ; i++ {
		w, g := want(), a.Bytes.Load()
		if w == g {
			return nil
		}
		if !e.u.Fresh || time.Since(t0) > awaitBound {
			e.noByte.Store(true)
			return failf("bytes-counter", "Allocator.Bytes = %d, but shared pages in use (%d) + cached pages + live private mappings amount to %d", g, a.SharedMmaps.Load(), w)
		}
		if i < 1000 {
			runtime.Gosched()
		} else {
			time.Sleep(100 * time.Microsecond)
		}
	}
}

// prelude builds the unit's initial configuration on the (pristine) allocator:
//
//	nearfull   perPage-2 allocations, all freed again in allocation order
//	           (2 bump slots left, long free list)
//	full2free  perPage allocations (page exhausted), the first and the last freed
//	fullbg     perPage allocations, all live in the background
//
// full: write and verify patterns also for allocations that are freed again
// inside the prelude (done in the first execution of a unit; the prelude is the
// same deterministic prefix of every execution).
func (e *seqExec) prelude(t *Tracker, o *obsState, full bool) *Fail {
	u := e.u
	if u.Prelude == "" || u.Prelude == "fresh" {
		return nil
	}
	o.inPrelude = true
	defer func() { o.inPrelude = false }()
	each := func(s *Slot) { o.onMalloc(s, true) }
	fill := full || u.Prelude != "nearfull"
	if f := t.MallocBG(u.PreSizes, 1, fill, each); f != nil {
		return f
	}
	perPage := (int(e.lay.PageSize) - e.lay.PageHdr) / (t.BG[0].Cap + e.lay.SlotHdr)
	n := perPage
	if u.Prelude == "nearfull" {
		n = perPage - 2
	}
	// continue the size cycle where MallocBG(…,1) left it
	rot := append(append([]int{}, u.PreSizes[1%len(u.PreSizes):]...), u.PreSizes[:1%len(u.PreSizes)]...)
	if f := t.MallocBG(rot, n-1, fill, each); f != nil {
		return f
	}
	if full {
		if f := t.SealBG(); f != nil {
			return f
		}
		if f := t.CheckAll(); f != nil {
			return f
		}
	}
	switch u.Prelude {
	case "nearfull":
		for i := range t.BG {
			s := &t.BG[i]
			if f := t.CheckSlot(s); f != nil {
				return f
			}
			o.onFree(s)
			t.Ops++
			t.A.Free(s.P())
		}
		t.BG = t.BG[:0]
		return t.SealBG()
	case "full2free":
		o.onFree(&t.BG[0])
		if f := t.FreeBG(0); f != nil {
			return f
		}
		o.onFree(&t.BG[len(t.BG)-1])
		if f := t.FreeBG(len(t.BG) - 1); f != nil {
			return f
		}
	}
	return t.SealBG()
}

// needFill tells, per operation index, whether the allocation made there must
// carry a verified pattern in THIS execution: it is live at the end or freed by
// the last operation. Allocations freed earlier were judged by the (shorter)
// execution that had that Free as its last operation.
func needFill(hist []int8) []bool {
	need := make([]bool, len(hist))
	var live []int
	for i, op := range hist {
		if op >= 0 {
			live = append(live, i)
			continue
		}
		j := int(-op - 1)
		if j < len(live) {
			if i == len(hist)-1 {
				need[live[j]] = true
			}
			live = append(live[:j], live[j+1:]...)
		}
	}
	for _, i := range live {
		need[i] = true
	}
	return need
}

// run executes prelude + history on a pristine allocator. Full oracle after the
// last operation (after every operation when every is set); return-value and
// Allocs checks after every operation.
func (e *seqExec) run(hist []int8, every bool, verbose bool) (out runOut) {
	a := e.newAlloc()
	e.m = newMapped(e.lay, a.MaxSharedSize)
	if e.t == nil {
		e.t = NewTracker(a, 1)
	}
	t := e.t
	t.Reset(a)
	t.Touched = e.m.touched
	o := newObs(e.lay, a.MaxSharedSize)
	out.step = -1
	need := needFill(hist)
	out.fail = Protect(func() *Fail {
		full := every || !e.preChecked.Load()
		if f := e.prelude(t, o, full); f != nil {
			return f
		}
		if len(hist) == 0 || every {
			if f := t.CheckAll(); f != nil {
				return f
			}
		}
		for i, op := range hist {
			out.step = i
			last := i == len(hist)-1
			if op >= 0 {
				if last {
					out.evLabel = "M" + strconv.Itoa(int(op))
				}
				var s *Slot
				var f *Fail
				if need[i] || every {
					s, f = t.Malloc(e.u.Sizes[op])
				} else {
					s, f = t.MallocLight(e.u.Sizes[op])
				}
				if f != nil {
					return f
				}
				o.onMalloc(s, false)
				if verbose {
					fmt.Fprintf(os.Stderr, "  step %d: Malloc(%d) -> header at %#x, len %d cap %d [%s]\n", i+1, s.Size, s.Hdr, s.Size, s.Cap, o.lastKind)
				}
			} else {
				idx := int(-op - 1)
				if idx >= len(t.Live) {
					return failf("harness", "history frees live[%d] but only %d live", idx, len(t.Live))
				}
				s := t.Live[idx]
				if last {
					out.evLabel = "F" + o.rankKey(s)
				}
				o.onFree(s)
				if verbose {
					fmt.Fprintf(os.Stderr, "  step %d: Free(the %d-byte allocation at %#x)\n", i+1, s.Size, s.Hdr)
				}
				if f := t.Free(s); f != nil {
					return f
				}
			}
			if last || every {
				if f := t.CheckAll(); f != nil {
					return f
				}
			} else if f := CheckAllocs(a, t.LiveCount()); f != nil {
				return f
			}
		}
		return e.bytesCheck(a, t)
	})
	if out.fail == nil {
		e.preChecked.Store(true)
		out.key = o.key(a)
		out.lastKind = o.lastKind
		if verbose {
			fmt.Fprintf(os.Stderr, "  all checks passed; state key %s\n", out.key)
		}
	}
	// give the memory back and make the allocator pristine again
	if out.fail != nil && (out.fail.Kind == "fault" || out.fail.Kind == "panic") {
		// the allocator may hold a class mutex or dangling lists: abandon it
		e.m.release()
		e.a = nil
		return
	}
	if e.u.Fresh || e.rs == nil {
		waitQuiet(e.base)
		drainCache(a, e.lay.PageSize, e.m)
		e.m.release()
	} else {
		e.rs.reset(a, e.m)
		e.m.release()
	}
	return
}

func histInts(h []int8) []int {
	r := make([]int, len(h))
	for i, x := range h {
		r[i] = int(x)
	}
	return r
}

func describe(u *Unit, h []int8) []string {
	var out []string
	live := []int{}
	for _, op := range h {
		if op >= 0 {
			out = append(out, fmt.Sprintf("Malloc(%d)", u.Sizes[op]))
			live = append(live, u.Sizes[op])
		} else {
			i := int(-op - 1)
			if i < len(live) {
				out = append(out, fmt.Sprintf("Free(live[%d] = the %d-byte one)", i, live[i]))
				live = append(live[:i], live[i+1:]...)
			} else {
				out = append(out, fmt.Sprintf("Free(live[%d])", i))
			}
		}
	}
	return out
}

func shortHash(s string) [16]byte {
	h := sha256.Sum256([]byte(s))
	var r [16]byte
	copy(r[:], h[:16])
	return r
}

func fnv(h []int8) uint32 {
	x := uint32(2166136261)
	for _, b := range h {
		x ^= uint32(uint8(b))
		x *= 16777619
	}
	return x
}

func (e *seqExec) setCur(h []int8) {
	b := make([]byte, 0, 64)
	b = append(b, `{"history":[`...)
	for i, x := range h {
		if i > 0 {
			b = append(b, ',')
		}
		b = strconv.AppendInt(b, int64(x), 10)
	}
	b = append(b, "]}"...)
	e.cur.setRaw(e.idx, b)
}

func runSeq(u *Unit, res *UnitResult, cur *curFile) {
	base := baseGoroutines
	probe := memory.NewAllocator()
	lay, err := parseLayout(probe)
	if err != nil {
		res.Harness = err.Error()
		return
	}
	waitQuiet(base)
	drainCache(probe, lay.PageSize, nil)
	sh := &seqShared{u: u, lay: lay, base: base, cur: cur}
	res.Mode = "fresh"
	if !u.Fresh {
		rs := newResetter(base, lay)
		if rs.reason != "" {
			res.Extra["reset_refused"] = 1
			fmt.Fprintln(os.Stderr, "reset mode refused:", rs.reason)
		} else {
			sh.rs = rs
			res.Mode = "reset"
		}
	}
	if u.MaxLive == 0 {
		u.MaxLive = 5
	}
	par := u.Par
	if par < 1 || res.Mode == "fresh" {
		par = 1 // fresh mode waits for goroutine quiescence: one executor only
	}
	execs := make([]*seqExec, par)
	for i := range execs {
		execs[i] = &seqExec{seqShared: sh, idx: i}
		if sh.rs != nil {
			// pristine allocators are made one after the other, before any executor
			// goroutine exists (quiescence is detected by the goroutine count)
			a, err := newPristine(base, lay)
			if err != nil {
				res.Harness = err.Error()
				return
			}
			execs[i].a = a
		}
	}
	var mu sync.Mutex
	addFail := func(h []int8, o runOut) {
		res.Fails = append(res.Fails, FailRec{Kind: o.fail.Kind, Step: o.step, Len: len(h),
			What:   fmt.Sprintf("unit %s, initial configuration %q, history %v: after operation %d: %s", u.Name, u.Prelude, describe(u, h), o.step+1, o.fail.What),
			Replay: map[string]interface{}{"part": "seq", "unit": replayUnit(u), "history": histInts(h), "ops": describe(u, h)}})
	}
	// replay of a single history
	if u.ReplayOne {
		h := make([]int8, len(u.History))
		for i, x := range u.History {
			h[i] = int8(x)
		}
		e := execs[0]
		e.setCur(h)
		if u.Verbose {
			fmt.Fprintf(os.Stderr, "  unit %s, initial configuration %q, history %v\n", u.Name, u.Prelude, describe(u, h))
		}
		o := e.run(h, true, u.Verbose)
		res.Executions, res.Transitions = 1, len(h)
		if o.fail != nil {
			addFail(h, o)
		}
		return
	}

	type ext struct {
		h   []int8
		key [16]byte
		rep bool
	}
	seen := map[[16]byte]struct{}{}
	succSig := map[[16]byte][16]byte{}
	var keyAcc [32]byte // order-independent accumulator of the key set
	addKey := func(k [16]byte) {
		h := sha256.Sum256(k[:])
		for i := range keyAcc {
			keyAcc[i] ^= h[i]
		}
	}
	liveOf := func(h []int8) int {
		n := 0
		for _, op := range h {
			if op >= 0 {
				n++
			} else {
				n--
			}
		}
		return n
	}
	root := execs[0].run(nil, true, false)
	res.Executions++
	if root.fail != nil {
		addFail(nil, root)
		return
	}
	rk := shortHash(root.key)
	seen[rk] = struct{}{}
	addKey(rk)
	frontier := []ext{{nil, rk, true}}
	res.PerDepth = append(res.PerDepth, 1)
	samples := 0
	var stop atomic.Bool
	// from here on executions run on the executor goroutines: they are part of the
	// quiescent goroutine count (fresh mode waits for the refill goroutine to end)
	sh.base = base + par
	for d := 0; d < u.Depth && !stop.Load(); d++ {
		var next, nextExtras []ext
		type sigRec struct {
			x   ext
			sig [16]byte
		}
		var extraSigs []sigRec
		// successors found in this level; reps/merges are decided after the level in
		// history order, so that nothing depends on goroutine timing
		type foundRec struct {
			h   []int8
			k   [16]byte
			key string
		}
		var found []foundRec
		expand := func(e *seqExec, x ext) {
			live := liveOf(x.h)
			var sig []string
			try := func(op int8) {
				h2 := make([]int8, len(x.h)+1)
				copy(h2, x.h)
				h2[len(x.h)] = op
				e.setCur(h2)
				o := e.run(h2, false, false)
				var k [16]byte
				if o.fail == nil {
					k = shortHash(o.key)
					sig = append(sig, o.evLabel+">"+hex.EncodeToString(k[:]))
				}
				mu.Lock()
				defer mu.Unlock()
				res.Executions++
				res.Transitions++
				if o.fail != nil {
					addFail(h2, o)
					if len(res.Fails) >= 12 || o.fail.Kind == "fault" || o.fail.Kind == "panic" {
						stop.Store(true) // after a fault the executor's allocator is gone
					}
					return
				}
				if op >= 0 {
					res.Cov["malloc:"+o.lastKind]++
				} else {
					res.Cov["free"]++
				}
				if x.rep {
					ks := ""
					if samples < 2 {
						ks = o.key
					}
					found = append(found, foundRec{h2, k, ks})
				}
			}
			if live < u.MaxLive {
				for s := range u.Sizes {
					if stop.Load() {
						return
					}
					try(int8(s))
				}
			}
			for i := 0; i < live; i++ {
				if stop.Load() {
					return
				}
				try(int8(-i - 1))
			}
			sort.Strings(sig)
			sg := shortHash(strings.Join(sig, ";"))
			mu.Lock()
			if x.rep {
				succSig[x.key] = sg
			} else {
				extraSigs = append(extraSigs, sigRec{x, sg})
			}
			mu.Unlock()
		}
		work := make(chan ext, 256)
		var wg sync.WaitGroup
		for _, e := range execs {
			wg.Add(1)
			go func(e *seqExec) {
				defer wg.Done()
				for x := range work {
					if !stop.Load() {
						expand(e, x)
					}
				}
			}(e)
		}
		for _, x := range frontier {
			work <- x
		}
		close(work)
		wg.Wait()
		if !stop.Load() {
			for _, r := range extraSigs {
				res.DiffChecked++
				if want, ok := succSig[r.x.key]; ok && want != r.sig {
					res.Fails = append(res.Fails, FailRec{Kind: "merge-unsound", Len: len(r.x.h),
						What:   fmt.Sprintf("HARNESS: unit %s: history %v reaches a canonical state already seen, but its successor states differ from the representative's — the canonical key misses state", u.Name, describe(u, r.x.h)),
						Replay: map[string]interface{}{"part": "seq", "unit": replayUnit(u), "history": histInts(r.x.h)}})
				}
			}
		}
		sort.Slice(found, func(i, j int) bool { return string(int8s(found[i].h)) < string(int8s(found[j].h)) })
		for _, f := range found {
			if _, ok := seen[f.k]; !ok {
				seen[f.k] = struct{}{}
				addKey(f.k)
				next = append(next, ext{f.h, f.k, true})
				if samples < 2 && len(f.h) >= 4 {
					samples++
					res.Samples = append(res.Samples, map[string]interface{}{"unit": u.Name, "prelude": u.Prelude, "history": describe(u, f.h), "state_key": f.key})
				}
			} else {
				res.Merged++
				if u.DiffMod > 0 && len(f.h) < u.Depth && fnv(f.h)%uint32(u.DiffMod) == 0 {
					nextExtras = append(nextExtras, ext{f.h, f.k, false})
				}
			}
		}
		if len(next) > 0 {
			res.MaxDepth = d + 1
		}
		res.PerDepth = append(res.PerDepth, len(next))
		frontier = append(next, nextExtras...)
		if len(succSig) > 3_000_000 {
			// only signatures of the level being expanded are compared; older ones are
			// needed for extras whose representative is shorter: keep them unless huge
			succSig = map[[16]byte][16]byte{}
		}
	}
	for _, e := range execs {
		if e.bad != "" {
			res.Harness = e.bad
		}
	}
	res.States = len(seen)
	res.KeySetHash = hex.EncodeToString(keyAcc[:8])
}

func int8s(h []int8) []byte {
	b := make([]byte, len(h))
	for i, x := range h {
		b[i] = byte(x)
	}
	return b
}
