// integ.go — the allocator as wired by the client (worker side, one process per
// variant because utxo.Memory_Malloc/Memory_Free and common.Memory are package
// globals): exactly what client/common InitConfig does —
//
//	common.Memory = memory.NewAllocator()
//	utxo.Memory_Malloc = common.Memory.Malloc
//	utxo.Memory_Free = common.Memory.Free
//
// — then large synthetic records are committed through UnspentDB.CommitBlockTxs,
// a survivor pattern is spent (CommitBlockTxs with DeledTxs), and the client's own
// entry common.DefragUTXOMem() is called (DefragAllImproved with
// BlockChain.Unspent.Relocate as callback). Oracle: an independent map model of
// the UTXO set; the decoded dump of UnspentDB.HashMap equals the model before and
// after defragmentation, every output is readable through UnspentGet, spent ones
// are gone, Allocs equals the number of records.
package main

import (
	"bytes"
	"crypto/sha256"
	"encoding/binary"
	"fmt"
	"os"
	"sort"
	"strings"

	"verif/internal/ev"

	"github.com/piotrnar/gocoin/client/common"
	"github.com/piotrnar/gocoin/lib/btc"
	"github.com/piotrnar/gocoin/lib/chain"
	"github.com/piotrnar/gocoin/lib/others/memory"
	"github.com/piotrnar/gocoin/lib/utxo"
)

type mOut struct {
	value  uint64
	script []byte
}

type mRec struct {
	height   uint32
	coinbase bool
	outs     []*mOut // nil = spent
}

type utxoModel map[[32]byte]*mRec

func (m utxoModel) dump() (string, int) {
	var lines []string
	for id, r := range m {
		var sb strings.Builder
		fmt.Fprintf(&sb, "%x h=%d cb=%v n=%d", id, r.height, r.coinbase, len(r.outs))
		for i, o := range r.outs {
			if o != nil {
				h := sha256.Sum256(o.script)
				fmt.Fprintf(&sb, " %d:%d:%d:%x", i, o.value, len(o.script), h[:8])
			}
		}
		lines = append(lines, sb.String())
	}
	sort.Strings(lines)
	h := sha256.Sum256([]byte(strings.Join(lines, "\n")))
	return fmt.Sprintf("%x", h[:12]), len(lines)
}

// dumpDB decodes every record of the real database.
func dumpDB(db *utxo.UnspentDB) (string, int) {
	var lines []string
	for i := range db.HashMap {
		db.MapMutex[i].RLock()
		for _, v := range db.HashMap[i] {
			rec := utxo.NewUtxoRec(*v)
			var sb strings.Builder
			fmt.Fprintf(&sb, "%x h=%d cb=%v n=%d", rec.TxID, rec.InBlock, rec.Coinbase, len(rec.Outs))
			for j, o := range rec.Outs {
				if o != nil {
					h := sha256.Sum256(o.PKScr)
					fmt.Fprintf(&sb, " %d:%d:%d:%x", j, o.Value, len(o.PKScr), h[:8])
				}
			}
			lines = append(lines, sb.String())
		}
		db.MapMutex[i].RUnlock()
	}
	sort.Strings(lines)
	h := sha256.Sum256([]byte(strings.Join(lines, "\n")))
	return fmt.Sprintf("%x", h[:12]), len(lines)
}

func script(tag uint32, n int) []byte {
	b := make([]byte, n)
	FillPattern(b, splitmix(uint64(tag)|1<<40))
	if n > 0 {
		b[0] = 0x51 // not OP_RETURN: never "unspendable"
	}
	return b
}

type integVariant struct {
	name    string
	groups  []integGroup
	partial bool // survivors additionally lose output 0 (record is re-serialised, smaller)
}

type integGroup struct {
	n       int // records
	outs    int // outputs per record
	scrLen  int // script length per output
	keepMod int // record i survives iff i % keepMod == 0
}

var integVariants = []integVariant{
	{name: "110x120KiB-keep-6", groups: []integGroup{{110, 1, 120 << 10, 19}}},
	{name: "160x120KiB-keep-every-4th", groups: []integGroup{{160, 1, 120 << 10, 4}}},
	{name: "110x120KiB+180x80KiB-two-classes", groups: []integGroup{{110, 1, 120 << 10, 19}, {180, 1, 80 << 10, 9}}},
	{name: "160x3x40KiB-partial-spends", groups: []integGroup{{160, 3, 40 << 10, 5}}, partial: true},
	{name: "400x30KiB+110x120KiB", groups: []integGroup{{700, 1, 30 << 10, 11}, {110, 2, 60 << 10, 19}}},
}

func runInteg(u *Unit, res *UnitResult, cur *curFile) {
	if u.Variant < 0 || u.Variant >= len(integVariants) {
		res.Harness = "bad variant"
		return
	}
	v := integVariants[u.Variant]
	cur.set(map[string]interface{}{"integ_variant": v.name})
	dir := ev.Scratch("c20-integ")
	defer os.RemoveAll(dir)
	base := baseGoroutines
	_ = base

	// --- the client's wiring (client/common/config.go, InitConfig) ---
	common.Memory = memory.NewAllocator()
	utxo.Memory_Malloc = common.Memory.Malloc
	utxo.Memory_Free = common.Memory.Free
	lay, err := parseLayout(common.Memory)
	if err != nil {
		res.Harness = err.Error()
		return
	}
	db := utxo.NewUnspentDb(&utxo.NewUnspentOpts{Dir: dir + string(os.PathSeparator), Rescan: true, VolatimeMode: true})
	common.BlockChain = &chain.Chain{Unspent: db}

	model := utxoModel{}
	stage := "commit"
	height := uint32(0)
	blhash := func() []byte { h := sha256.Sum256([]byte{byte(height), byte(height >> 8)}); return h[:] }
	fails := func(f *Fail) {
		res.Fails = append(res.Fails, FailRec{Kind: "integ/" + f.Kind, Len: u.Variant,
			What:   fmt.Sprintf("client wiring, variant %s, stage %q: %s", v.name, stage, f.What),
			Replay: map[string]interface{}{"part": "integ", "unit": replayUnit(u), "variant": v.name, "stage": stage}})
	}
	check := func() *Fail {
		return Protect(func() *Fail {
			wd, wn := model.dump()
			gd, gn := dumpDB(db)
			if wd != gd {
				return failf("utxo-dump-mismatch", "decoded UTXO dump differs from the model (%d records decoded, %d expected)", gn, wn)
			}
			for id, r := range model {
				for i, o := range r.outs {
					got := db.UnspentGet(&btc.TxPrevOut{Hash: id, Vout: uint32(i)})
					if o == nil {
						if got != nil {
							return failf("unspentget-mismatch", "UnspentGet returns a spent output %x:%d", id[:4], i)
						}
						continue
					}
					if got == nil || got.Value != o.value || !bytes.Equal(got.Pk_script, o.script) || got.BlockHeight != r.height || got.WasCoinbase != r.coinbase {
						return failf("unspentget-mismatch", "UnspentGet(%x…:%d) does not return the committed output", id[:4], i)
					}
				}
			}
			if got := common.Memory.Allocs.Load(); got != int64(len(model)) {
				return failf("allocs-counter", "Allocator.Allocs = %d, records in the UTXO set = %d", got, len(model))
			}
			return nil
		})
	}
	commit := func(adds []*utxo.UtxoRec, dels map[[32]byte][]bool) *Fail {
		height++
		return Protect(func() *Fail {
			db.CommitBlockTxs(&utxo.BlockChanges{Height: height, AddList: adds, DeledTxs: dels}, blhash())
			return nil
		})
	}

	type recRef struct {
		id   [32]byte
		keep bool
	}
	var refs []recRef
	tag := uint32(0)
	for gi, g := range v.groups {
		var adds []*utxo.UtxoRec
		for i := 0; i < g.n; i++ {
			var id [32]byte
			var seedb [12]byte
			binary.LittleEndian.PutUint32(seedb[:], uint32(gi))
			binary.LittleEndian.PutUint32(seedb[4:], uint32(i))
			copy(seedb[8:], "c20!")
			id = sha256.Sum256(seedb[:])
			rec := &utxo.UtxoRec{TxID: id, InBlock: height + 1, Coinbase: i%7 == 0}
			mr := &mRec{height: height + 1, coinbase: i%7 == 0}
			for o := 0; o < g.outs; o++ {
				tag++
				scr := script(tag, g.scrLen-o*8)
				val := uint64(tag) * 1000
				rec.Outs = append(rec.Outs, &utxo.UtxoTxOut{Value: val, PKScr: scr})
				mr.outs = append(mr.outs, &mOut{val, scr})
			}
			adds = append(adds, rec)
			model[id] = mr
			refs = append(refs, recRef{id, i%g.keepMod == 0})
			// a block of 40 records at a time, like consecutive blocks
			if len(adds) == 40 || i == g.n-1 {
				if f := commit(adds, nil); f != nil {
					fails(f)
					return
				}
				adds = nil
			}
		}
	}
	res.Transitions += int(height)
	if f := check(); f != nil {
		fails(f)
		return
	}
	stage = "spend"
	dels := map[[32]byte][]bool{}
	for _, r := range refs {
		mr := model[r.id]
		flags := make([]bool, len(mr.outs))
		if !r.keep {
			for i := range flags {
				flags[i] = true
			}
			delete(model, r.id)
		} else if v.partial {
			flags[0] = true
			mr.outs[0] = nil
		} else {
			continue
		}
		dels[r.id] = flags
	}
	if f := commit(nil, dels); f != nil {
		fails(f)
		return
	}
	res.Transitions++
	if f := check(); f != nil {
		fails(f)
		return
	}
	before, _ := dumpDB(db)
	pagesBefore := common.Memory.SharedMmaps.Load()
	defragsBefore := common.DefragCount
	stage = "DefragUTXOMem"
	if f := Protect(func() *Fail { common.DefragUTXOMem(); return nil }); f != nil {
		fails(f)
		return
	}
	res.Transitions++
	if common.DefragCount > defragsBefore {
		res.Cov["integ-defrag-relocated-records"]++
	} else {
		res.Cov["integ-defrag-relocated-nothing"]++
	}
	res.Extra["integ_pages_released"] += pagesBefore - common.Memory.SharedMmaps.Load()
	stage = "after-DefragUTXOMem"
	after, _ := Protect2(func() (string, int) { return dumpDB(db) })
	if after != before {
		fails(failf("utxo-dump-changed", "decoded UTXO dump changed across DefragUTXOMem"))
		return
	}
	if f := check(); f != nil {
		fails(f)
		return
	}
	if f := bytesEventually(common.Memory, lay); f != nil {
		fails(f)
		return
	}
	// keep using the set: one more block that adds and spends
	stage = "commit-after-defrag"
	var adds []*utxo.UtxoRec
	for i := 0; i < 24; i++ {
		tag++
		id := sha256.Sum256([]byte(fmt.Sprint("late", i)))
		scr := script(tag, v.groups[0].scrLen)
		adds = append(adds, &utxo.UtxoRec{TxID: id, InBlock: height + 1, Outs: []*utxo.UtxoTxOut{{Value: uint64(tag), PKScr: scr}}})
		model[id] = &mRec{height: height + 1, outs: []*mOut{{uint64(tag), scr}}}
	}
	dels = map[[32]byte][]bool{}
	n := 0
	for _, r := range refs {
		if mr, ok := model[r.id]; ok && n%2 == 0 {
			flags := make([]bool, len(mr.outs))
			for i := range flags {
				flags[i] = true
			}
			dels[r.id] = flags
			delete(model, r.id)
		}
		n++
	}
	if f := commit(adds, dels); f != nil {
		fails(f)
		return
	}
	res.Transitions++
	if f := check(); f != nil {
		fails(f)
		return
	}
	stage = "second-DefragUTXOMem"
	if f := Protect(func() *Fail { common.DefragUTXOMem(); return nil }); f != nil {
		fails(f)
		return
	}
	res.Transitions++
	if f := check(); f != nil {
		fails(f)
		return
	}
	res.Executions = 1
	res.States = int(height) + 2
	res.Samples = append(res.Samples, map[string]interface{}{"variant": v.name, "records_left": len(model), "blocks": height,
		"shared_pages_before_defrag": pagesBefore, "defrag_relocated": common.DefragCount > defragsBefore})
}

// Protect2 is Protect for a function returning a dump.
func Protect2(f func() (string, int)) (s string, n int) {
	fl := Protect(func() *Fail { s, n = f(); return nil })
	if fl != nil {
		return "fault:" + fl.What, -1
	}
	return
}
