// defrag.go — the defragmentation family (worker side).
//
// One execution = fresh allocator; per class fill P pages (+ optionally half a
// page); free slots page by page according to the survivor pattern assigned to
// the page; full check; DefragAllImproved with the relocation oracle; full
// check; then a fixed continuation (allocate until two new pages have been
// taken, free every second new allocation, defragment again, allocate again),
// with the full check after every stage.
package main

import (
	"fmt"
	"os"
	"runtime"
	"time"

	"github.com/piotrnar/gocoin/lib/others/memory"
)

type defragStats struct {
	relocs, relocs2 int
	returned        int
	pagesBefore     int64
	pagesAfter      int64
	survivors       int
	freeSlots       int
}

// bytesEventually: Bytes == shared pages in use + cached pages + private
// mappings (none here), awaited because the refill goroutine may be in flight.
func bytesEventually(a *memory.Allocator, lay Layout) *Fail {
	t0 := time.Now()
	for i := 0; ; i++ {
		w := a.SharedMmaps.Load() * int64(lay.PageSize)
		if ch := cacheChan(a); ch != nil {
			w += int64(len(ch)) * int64(lay.PageSize)
		}
		g := a.Bytes.Load()
		if w == g {
			return nil
		}
		if time.Since(t0) > awaitBound {
			return failf("bytes-counter", "Allocator.Bytes = %d, but shared pages in use (%d) + cached pages amount to %d", g, a.SharedMmaps.Load(), w)
		}
		if i < 1000 {
			runtime.Gosched()
		} else {
			time.Sleep(100 * time.Microsecond)
		}
	}
}

func patternFor(u *Unit, assign []int, page int) int {
	for k, d := range u.Dist {
		if d == page {
			return assign[k]
		}
	}
	return u.Rest
}

// runDefragOne executes one member of the family. stage names the step at which
// a failure happened.
func runDefragOne(u *Unit, lay Layout, base int, assign []int, verbose bool) (fail *Fail, stage string, st defragStats) {
	a := memory.NewAllocator()
	m := newMapped(lay, a.MaxSharedSize)
	t := NewTracker(a, 2)
	t.Touched = m.touched
	say := func(format string, x ...interface{}) {
		if verbose {
			fmt.Fprintf(os.Stderr, "  "+format+"\n", x...)
		}
	}
	fail = Protect(func() *Fail {
		stage = "fill"
		type clsInfo struct {
			sizes   []int
			perPage int
		}
		var infos []clsInfo
		var doomedAll [][]*Slot
		for _, sizes := range u.Classes {
			start := len(t.Live)
			probe, f := t.Malloc(sizes[0])
			if f != nil {
				return f
			}
			perPage := (int(lay.PageSize) - lay.PageHdr) / (probe.Cap + lay.SlotHdr)
			infos = append(infos, clsInfo{sizes, perPage})
			count := u.Pages * perPage
			if u.Partial {
				count += perPage / 2
			}
			for i := 1; i < count; i++ {
				if _, f := t.Malloc(sizes[i%len(sizes)]); f != nil {
					return f
				}
			}
			pages := GroupByPage(t.Live[start:], lay.PageSize)
			say("class cap %d: %d allocations in %d pages (%d per page)", probe.Cap, count, len(pages), perPage)
			var perPageDoomed [][]*Slot
			for j, pg := range pages {
				pat := patternFor(u, assign, j)
				d := Doomed(pg, pat)
				st.freeSlots += len(d)
				perPageDoomed = append(perPageDoomed, d)
			}
			if u.Order == OrdDistLast {
				var rest, dist [][]*Slot
				for j := range perPageDoomed {
					isDist := false
					for _, d := range u.Dist {
						isDist = isDist || d == j
					}
					if isDist {
						dist = append(dist, perPageDoomed[j])
					} else {
						rest = append(rest, perPageDoomed[j])
					}
				}
				perPageDoomed = append(rest, dist...)
			}
			doomedAll = append(doomedAll, OrderFrees(perPageDoomed, u.Order))
		}
		stage = "fill-check"
		if f := t.CheckAll(); f != nil {
			return f
		}
		stage = "fragment"
		for _, list := range doomedAll {
			for _, s := range list {
				if f := t.Free(s); f != nil {
					return f
				}
			}
		}
		if f := t.CheckAll(); f != nil {
			return f
		}
		if u.Remalloc > 0 {
			stage = "remalloc"
			for _, ci := range infos {
				for i := 0; i < u.Remalloc; i++ {
					if _, f := t.Malloc(ci.sizes[i%len(ci.sizes)]); f != nil {
						return f
					}
				}
			}
			if f := t.CheckAll(); f != nil {
				return f
			}
		}
		st.survivors = len(t.Live)
		st.pagesBefore = a.SharedMmaps.Load()
		stage = "defrag"
		rep, f := t.Defrag()
		if rep != nil {
			st.relocs, st.returned = len(rep.Relocs), rep.Returned
		}
		if f != nil {
			return f
		}
		say("defrag: %d relocation callbacks, returned %d, shared pages %d -> %d", st.relocs, st.returned, st.pagesBefore, a.SharedMmaps.Load())
		stage = "after-defrag"
		if f := t.CheckAll(); f != nil {
			return f
		}
		st.pagesAfter = a.SharedMmaps.Load()
		if f := bytesEventually(a, lay); f != nil {
			return f
		}
		// continuation from the defragmented (non-initial) state
		stage = "continue-malloc"
		seenPages := map[uintptr]bool{}
		for _, s := range t.Live {
			seenPages[s.Hdr&^(lay.PageSize-1)] = true
		}
		var fresh []*Slot
		for _, ci := range infos {
			newPages := 0
			for i := 0; i < 8*ci.perPage && newPages < 2; i++ {
				s, f := t.Malloc(ci.sizes[i%len(ci.sizes)])
				if f != nil {
					return f
				}
				fresh = append(fresh, s)
				pg := s.Hdr &^ (lay.PageSize - 1)
				if !seenPages[pg] {
					seenPages[pg] = true
					newPages++
				}
			}
		}
		if f := t.CheckAll(); f != nil {
			return f
		}
		stage = "continue-free"
		for i := len(fresh) - 1; i >= 0; i -= 2 {
			if f := t.Free(fresh[i]); f != nil {
				return f
			}
		}
		if f := t.CheckAll(); f != nil {
			return f
		}
		stage = "defrag-again"
		rep2, f := t.Defrag()
		if rep2 != nil {
			st.relocs2 = len(rep2.Relocs)
		}
		if f != nil {
			return f
		}
		if f := t.CheckAll(); f != nil {
			return f
		}
		stage = "continue-malloc-2"
		for _, ci := range infos {
			for i := 0; i < ci.perPage+1; i++ {
				if _, f := t.Malloc(ci.sizes[i%len(ci.sizes)]); f != nil {
					return f
				}
			}
		}
		if f := t.CheckAll(); f != nil {
			return f
		}
		stage = "drain"
		for len(t.Live) > 0 {
			if f := t.Free(t.Live[len(t.Live)-1]); f != nil {
				return f
			}
		}
		if f := CheckAllocs(a, 0); f != nil {
			return f
		}
		return bytesEventually(a, lay)
	})
	if fail != nil && (fail.Kind == "fault" || fail.Kind == "panic") {
		m.release()
		return
	}
	waitQuiet(base)
	drainCache(a, lay.PageSize, m)
	m.release()
	return
}

func assignNames(a []int) []string {
	var r []string
	for _, x := range a {
		r = append(r, PatNames[x])
	}
	return r
}

func runDefrag(u *Unit, res *UnitResult, cur *curFile) {
	base := baseGoroutines
	probe := memory.NewAllocator()
	lay, err := parseLayout(probe)
	if err != nil {
		res.Harness = err.Error()
		return
	}
	waitQuiet(base)
	drainCache(probe, lay.PageSize, nil)
	if u.NPat == 0 {
		u.NPat = NumPatQuick
	}
	one := func(assign []int, verbose bool) {
		cur.set(map[string]interface{}{"assign": assign})
		f, stage, st := runDefragOne(u, lay, base, assign, verbose)
		res.Executions++
		res.Transitions += 1
		res.Extra["relocations"] += int64(st.relocs + st.relocs2)
		if st.relocs > 0 {
			res.Cov["defrag-moved-something"]++
		} else if st.pagesAfter < st.pagesBefore {
			res.Cov["defrag-released-empty-pages-only"]++
		} else {
			res.Cov["defrag-did-nothing"]++
		}
		if st.relocs2 > 0 {
			res.Cov["second-defrag-moved-something"]++
		}
		if st.returned != st.relocs {
			res.Cov["return-value-differs-from-callbacks"]++
		}
		if f != nil {
			if len(res.Fails) < 12 {
				res.Fails = append(res.Fails, FailRec{Kind: stageKind(stage) + "/" + f.Kind, Len: sum(assign),
					What: fmt.Sprintf("unit %s: %d pages per class, distinguished pages %v with survivor patterns %v, other pages %q, frees in %s order: at stage %q: %s",
						u.Name, u.Pages, u.Dist, assignNames(assign), PatNames[u.Rest], OrdNames[u.Order], stage, f.What),
					Replay: map[string]interface{}{"part": "defrag", "unit": replayUnit(u), "assign": assign, "patterns": assignNames(assign), "stage": stage}})
			}
			return
		}
		if len(res.Samples) < 2 && st.relocs > 0 {
			res.Samples = append(res.Samples, map[string]interface{}{"unit": u.Name, "patterns": assignNames(assign), "survivors": st.survivors,
				"relocation_callbacks": st.relocs, "shared_pages_before": st.pagesBefore, "shared_pages_after": st.pagesAfter})
		}
		// canonical state of the family member = what it did
		res.Extra[fmt.Sprintf("outcome:%d-relocs", st.relocs)]++
	}
	if u.ReplayOne {
		one(u.Assign, u.Verbose)
		return
	}
	k := len(u.Dist)
	assign := make([]int, k)
	for {
		one(append([]int{}, assign...), false)
		i := k - 1
		for ; i >= 0; i-- {
			assign[i]++
			if assign[i] < u.NPat {
				break
			}
			assign[i] = 0
		}
		if i < 0 {
			break
		}
	}
	n := 0
	for key := range res.Extra {
		if len(key) > 8 && key[:8] == "outcome:" {
			n++
		}
	}
	res.States = n
}

func stageKind(stage string) string {
	switch stage {
	case "fill", "fill-check", "fragment":
		return "defrag-setup"
	case "defrag", "after-defrag":
		return "defrag"
	}
	return "post-defrag"
}

func sum(a []int) int {
	s := 0
	for _, x := range a {
		s += x
	}
	return s
}
