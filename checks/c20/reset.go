// reset.go — harness infrastructure (NOT oracle): obtaining a pristine allocator
// cheaply, and giving the allocator's memory back to the OS after an execution.
//
// memory.NewAllocator() costs ~4.6 ms (it builds a 131 065-entry size->class
// table), which would limit a 2-minute tier to ~10^5 executions. A state-mode
// exploration replays every history from the initial state, so the executor keeps
// ONE allocator per worker process and, after each execution, restores every
// field of the struct to the value it has in a never-used allocator (field by
// field, generically via reflection: numeric fields, pointer-free structs such as
// atomic.Int64, slices of pointer-free elements with unchanged length, and the
// page-cache channel, which is drained). The state restored is exactly the state
// NewAllocator() returns before its background refill goroutine has run (empty
// page cache, all counters zero) — a state every real allocator passes through.
// If the struct has a field this generic code cannot restore, reset mode is
// refused and the caller falls back to a fresh NewAllocator() per execution.
// Equivalence of the two modes is additionally checked by the explorer (same set
// of canonical states reached in both modes on a validation unit), and every
// violation found in reset mode is re-executed on a fresh allocator in a fresh
// process before it is reported.
package main

import (
	"fmt"
	"reflect"
	"runtime"
	"strconv"
	"strings"
	"syscall"
	"time"
	"unsafe"

	"github.com/piotrnar/gocoin/lib/others/memory"
)

// Layout holds the three layout constants the allocator publishes through
// GetInfo (public API); they are used for canonical state keys and clean-up only.
type Layout struct {
	PageHdr  int
	SlotHdr  int
	PageSize uintptr
}

func parseLayout(a *memory.Allocator) (l Layout, err error) {
	info := a.GetInfo(false)
	get := func(label string) (int, bool) {
		i := strings.Index(info, label)
		if i < 0 {
			return 0, false
		}
		rest := strings.TrimLeft(info[i+len(label):], " ")
		j := 0
		for j < len(rest) && rest[j] >= '0' && rest[j] <= '9' {
			j++
		}
		v, e := strconv.Atoi(rest[:j])
		return v, e == nil
	}
	var ok1, ok2, ok3 bool
	var ps int
	l.PageHdr, ok1 = get("Page Header Size:")
	l.SlotHdr, ok2 = get("Slot Extra Size:")
	ps, ok3 = get("Page Size:")
	l.PageSize = uintptr(ps)
	if !ok1 || !ok2 || !ok3 || ps <= 0 || ps&(ps-1) != 0 {
		return l, fmt.Errorf("cannot parse layout from GetInfo: %q", info)
	}
	return l, nil
}

func hasPointers(t reflect.Type) bool {
	switch t.Kind() {
	case reflect.Bool, reflect.Int, reflect.Int8, reflect.Int16, reflect.Int32, reflect.Int64,
		reflect.Uint, reflect.Uint8, reflect.Uint16, reflect.Uint32, reflect.Uint64, reflect.Uintptr,
		reflect.Float32, reflect.Float64, reflect.Complex64, reflect.Complex128:
		return false
	case reflect.Array:
		return hasPointers(t.Elem())
	case reflect.Struct:
		for i := 0; i < t.NumField(); i++ {
			if hasPointers(t.Field(i).Type) {
				return true
			}
		}
		return false
	}
	return true
}

type sliceHdr struct {
	Data unsafe.Pointer
	Len  int
	Cap  int
}

// cacheChan returns the allocator's page-cache channel (chan uintptr), or nil.
func cacheChan(a *memory.Allocator) chan uintptr {
	v := reflect.ValueOf(a).Elem()
	for i := 0; i < v.NumField(); i++ {
		f := v.Field(i)
		if f.Kind() == reflect.Chan && f.Type().Elem().Kind() == reflect.Uintptr && f.Type().ChanDir() == reflect.BothDir {
			return *(*chan uintptr)(unsafe.Pointer(f.UnsafeAddr()))
		}
	}
	return nil
}

func munmap(addr, size uintptr) error {
	_, _, e := syscall.Syscall(syscall.SYS_MUNMAP, addr, size, 0)
	if e != 0 {
		return e
	}
	return nil
}

// isMapped reports whether the OS page at addr is mapped in this process.
func isMapped(addr uintptr) bool {
	var vec [1]byte
	_, _, e := syscall.Syscall(syscall.SYS_MINCORE, addr&^4095, 4096, uintptr(unsafe.Pointer(&vec[0])))
	return e == 0
}

// drainCache empties the page cache and unmaps the pages; returns how many.
func drainCache(a *memory.Allocator, pageSize uintptr, m *mapped) int {
	ch := cacheChan(a)
	if ch == nil {
		return 0
	}
	n := 0
	for {
		select {
		case p := <-ch:
			if p != 0 {
				munmap(p, pageSize)
				if m != nil {
					m.unmapped(p, pageSize)
				}
			}
			n++
		default:
			return n
		}
	}
}

// awaitBound bounds every "eventually" wait of the harness (things that take
// microseconds on an idle machine).
const awaitBound = 60 * time.Second

// waitQuiet waits until no goroutine other than the baseline ones is alive (the
// allocator's refill goroutine has finished). Generous bound, never a verdict.
func waitQuiet(base int) bool {
	t0 := time.Now()
	for i := 0; time.Since(t0) < awaitBound; i++ {
		if runtime.NumGoroutine() <= base {
			return true
		}
		if i < 1000 {
			runtime.Gosched()
		} else {
			time.Sleep(100 * time.Microsecond)
		}
	}
	return false
}

// resetter restores an allocator to the pristine state.
type resetter struct {
	tmpl   *memory.Allocator
	layout Layout
	plan   []func(dst, src reflect.Value)
	reason string // non-empty: reset mode refused
}

// newPristine creates an allocator, lets its initial refill goroutine finish,
// drains the page cache and takes the drained pages out of Bytes, so that the
// result equals NewAllocator()'s return state.
func newPristine(base int, l Layout) (*memory.Allocator, error) {
	a := memory.NewAllocator()
	if !waitQuiet(base) {
		return nil, fmt.Errorf("refill goroutine did not finish")
	}
	n := drainCache(a, l.PageSize, nil)
	a.Bytes.Add(-int64(n) * int64(l.PageSize))
	if a.Bytes.Load() != 0 || a.Allocs.Load() != 0 || a.SharedMmaps.Load() != 0 || a.PrivateMmaps.Load() != 0 {
		return nil, fmt.Errorf("pristine allocator has non-zero counters: Bytes=%d after draining %d cached pages", a.Bytes.Load(), n)
	}
	return a, nil
}

func newResetter(base int, l Layout) *resetter {
	r := &resetter{layout: l}
	t, err := newPristine(base, l)
	if err != nil {
		r.reason = err.Error()
		return r
	}
	r.tmpl = t
	tv := reflect.ValueOf(t).Elem()
	for i := 0; i < tv.NumField(); i++ {
		i := i
		ft := tv.Type().Field(i)
		switch {
		case !hasPointers(ft.Type):
			size := ft.Type.Size()
			r.plan = append(r.plan, func(dst, src reflect.Value) {
				d := unsafe.Slice((*byte)(unsafe.Pointer(dst.Field(i).UnsafeAddr())), size)
				s := unsafe.Slice((*byte)(unsafe.Pointer(src.Field(i).UnsafeAddr())), size)
				copy(d, s)
			})
		case ft.Type.Kind() == reflect.Slice && !hasPointers(ft.Type.Elem()):
			es := ft.Type.Elem().Size()
			name := ft.Name
			r.plan = append(r.plan, func(dst, src reflect.Value) {
				dh := (*sliceHdr)(unsafe.Pointer(dst.Field(i).UnsafeAddr()))
				sh := (*sliceHdr)(unsafe.Pointer(src.Field(i).UnsafeAddr()))
				if dh.Len != sh.Len {
					panic("c20 reset: slice field " + name + " changed length")
				}
				if sh.Len == 0 {
					return
				}
				copy(unsafe.Slice((*byte)(dh.Data), uintptr(dh.Len)*es), unsafe.Slice((*byte)(sh.Data), uintptr(sh.Len)*es))
			})
		case ft.Type.Kind() == reflect.Chan && ft.Type.Elem().Kind() == reflect.Uintptr:
			// drained separately
		default:
			r.reason = "field " + ft.Name + " of type " + ft.Type.String() + " cannot be restored generically"
			return r
		}
	}
	if cacheChan(t) == nil {
		r.reason = "no page-cache channel field found"
	}
	return r
}

// reset restores a to the pristine state; the caller unmaps the execution's
// remaining pages (m.release) right after.
func (r *resetter) reset(a *memory.Allocator, m *mapped) {
	drainCache(a, r.layout.PageSize, m)
	dv, sv := reflect.ValueOf(a).Elem(), reflect.ValueOf(r.tmpl).Elem()
	for _, f := range r.plan {
		f(dv, sv)
	}
}
