package main

import (
	"bytes"
	"fmt"
	"math/big"
	"runtime"
	"sort"
	"sync"

	"github.com/piotrnar/gocoin/lib/secp256k1"

	"verif/ref/refsecp"
)

// ---------------------------------------------------------------------------
// exploration families that are not histories: scalar multiplication entry
// points over a boundary scalar set, decompression, scalar decomposition
// helpers, curve constants, and the exhaustive table checks
// ---------------------------------------------------------------------------

type caseCollector struct {
	mu      sync.Mutex
	evals   map[string]int
	classes map[string]int
	found   map[string]finding
	order   map[string]int
}

func newCaseCollector() *caseCollector {
	return &caseCollector{evals: map[string]int{}, classes: map[string]int{}, found: map[string]finding{}, order: map[string]int{}}
}

func (c *caseCollector) ok(fam, class string) {
	c.mu.Lock()
	c.evals[fam]++
	c.classes[fam+"|"+class]++
	c.mu.Unlock()
}

func (c *caseCollector) fail(fam, key, what string, idx int, replay map[string]interface{}) {
	c.mu.Lock()
	c.evals[fam]++
	c.classes[fam+"|MISMATCH "+key]++
	replay["backend"] = backend
	replay["family"] = fam
	if o, ok := c.order[key]; !ok || idx < o {
		c.order[key] = idx
		c.found[key] = finding{Key: key, What: what, Replay: replay}
	}
	c.mu.Unlock()
}

func num(v *big.Int) *secp256k1.Number {
	var n secp256k1.Number
	n.Set(v)
	return &n
}

func scalarSet(thorough bool) (names []string, vals map[string]*big.Int) {
	n := refsecp.N
	one := big.NewInt(1)
	p2 := func(k uint) *big.Int { return new(big.Int).Lsh(one, k) }
	sub := func(a, b *big.Int) *big.Int { return new(big.Int).Sub(a, b) }
	add := func(a, b *big.Int) *big.Int { return new(big.Int).Add(a, b) }
	a1b2 := hexBig("3086D221A7D46BCDE86C90E49284EB15")
	b1 := hexBig("E4437ED6010E88286F547FA90ABFE4C3")
	// rounding boundaries of the lambda decomposition: k*a1b2/n and k*b1/n cross .5
	bnd := func(c *big.Int, j int64) *big.Int {
		t := new(big.Int).Mul(n, big.NewInt(2*j+1))
		t.Div(t, new(big.Int).Mul(c, big.NewInt(2)))
		return t
	}
	vals = map[string]*big.Int{
		"0": big.NewInt(0), "1": one, "2": big.NewInt(2), "3": big.NewInt(3),
		"n-1": sub(n, one), "n": n, "n+1": add(n, one),
		"2^128-1": sub(p2(128), one), "2^128": p2(128), "2^128+1": add(p2(128), one),
		"2^256-1": sub(p2(256), one), "lambda": lambdaN, "(n-1)/2": new(big.Int).Rsh(n, 1),
		"0x5555..":              hexBig("5555555555555555555555555555555555555555555555555555555555555555"),
		"split-boundary-a1b2":   bnd(a1b2, 0),
		"split-boundary-a1b2+1": add(bnd(a1b2, 0), one),
		"random1":               hashScalar("verif C08 scalar 1"),
	}
	if thorough {
		more := map[string]*big.Int{
			"n-2": sub(n, big.NewInt(2)), "n+2": add(n, big.NewInt(2)),
			"2^127": p2(127), "2^129-1": sub(p2(129), one), "2^255": p2(255), "2^64": p2(64), "2^64-1": sub(p2(64), one),
			"lambda-1": sub(lambdaN, one), "lambda+1": add(lambdaN, one), "n-lambda": sub(n, lambdaN), "(n+1)/2": add(new(big.Int).Rsh(n, 1), one),
			"0xaaaa..":                 hexBig("AAAAAAAAAAAAAAAAAAAAAAAAAAAAAAAAAAAAAAAAAAAAAAAAAAAAAAAAAAAAAAAA"),
			"0xffff0000..":             hexBig("FFFF0000FFFF0000FFFF0000FFFF0000FFFF0000FFFF0000FFFF0000FFFF0000"),
			"ones-run-140":             sub(p2(140), one),
			"ones-run-high":            sub(p2(256), p2(116)),
			"split-boundary-b1":        bnd(b1, 0),
			"split-boundary-b1+1":      add(bnd(b1, 0), one),
			"split-boundary-a1b2(j=1)": bnd(a1b2, 1),
			"2^13":                     p2(13),
			"2^14-1":                   sub(p2(14), one),
			"random2":                  hashScalar("verif C08 scalar 2"),
		}
		for k, v := range more {
			vals[k] = v
		}
	}
	for k, v := range vals {
		if v.BitLen() > 256 {
			panic("scalar set member above 2^256-1: " + k)
		}
		names = append(names, k)
	}
	sort.Strings(names)
	return
}

func pubBytes(p refsecp.Point, compressed bool) []byte {
	if compressed {
		out := make([]byte, 33)
		out[0] = 2 + byte(p.Y.Bit(0))
		copy(out[1:], refsecp.B32(p.X))
		return out
	}
	return append(append([]byte{4}, refsecp.B32(p.X)...), refsecp.B32(p.Y)...)
}

func parallel(n int, f func(i int)) {
	var wg sync.WaitGroup
	ch := make(chan int, 64)
	for w := 0; w < runtime.NumCPU(); w++ {
		wg.Add(1)
		go func() {
			defer wg.Done()
			for i := range ch {
				f(i)
			}
		}()
	}
	for i := 0; i < n; i++ {
		ch <- i
	}
	close(ch)
	wg.Wait()
}

func catchPanic(f func()) (pan string) {
	defer func() {
		if e := recover(); e != nil {
			pan = fmt.Sprint(e)
		}
	}()
	f()
	return ""
}

func groupCases(thorough bool, cc *caseCollector) {
	names, vals := scalarSet(thorough)
	g := refsecp.G()
	P := refsecp.MulG(hashScalar("verif C08 point P"))
	// operand points for ECmult: affine-loaded and as results of preceding Jacobian operations
	type opnd struct {
		name string
		j    secp256k1.XYZ
		m    refsecp.Point
	}
	mk := func(name string, p refsecp.Point) opnd {
		var j secp256k1.XYZ
		xy := xyFrom(p)
		j.SetXY(&xy)
		return opnd{name, j, p}
	}
	opnds := []opnd{mk("G", g), mk("P", P), mk("inf", refsecp.Infinity())}
	{
		// P as Add(Double(P), -P): Z != 1, un-normalised coordinates
		a := mk("P", P)
		var d, r secp256k1.XYZ
		a.j.Double(&d)
		np := xyFrom(refsecp.Neg(P))
		d.AddXY(&r, &np)
		opnds = append(opnds, opnd{"P (as 2P + (-P), Z != 1)", r, P})
		if thorough {
			opnds = append(opnds, mk("-G", refsecp.Neg(g)), mk("lambda*P", mulLambdaModel(P)))
		}
	}
	// model multiples, computed once
	type key struct{ s, p string }
	mulCache := map[key]refsecp.Point{}
	var mcMu sync.Mutex
	mul := func(sn string, pn string, p refsecp.Point) refsecp.Point {
		mcMu.Lock()
		r, ok := mulCache[key{sn, pn}]
		mcMu.Unlock()
		if ok {
			return r
		}
		r = refsecp.Mul(vals[sn], p)
		mcMu.Lock()
		mulCache[key{sn, pn}] = r
		mcMu.Unlock()
		return r
	}
	// warm the cache in parallel
	type job struct {
		sn, pn string
		p      refsecp.Point
	}
	var jobs []job
	for _, sn := range names {
		jobs = append(jobs, job{sn, "G", g}, job{sn, "P", P})
		if thorough {
			jobs = append(jobs, job{sn, "-G", refsecp.Neg(g)}, job{sn, "lambda*P", mulLambdaModel(P)})
		}
	}
	parallel(len(jobs), func(i int) { mul(jobs[i].sn, jobs[i].pn, jobs[i].p) })
	base := func(n string) string {
		if len(n) > 2 && n[:2] == "P " {
			return "P"
		}
		return n
	}

	// ---- ECmult(na, ng) for all pairs ----
	type em struct {
		o      int
		na, ng string
	}
	var ems []em
	for oi := range opnds {
		for _, na := range names {
			for _, ng := range names {
				ems = append(ems, em{oi, na, ng})
			}
		}
	}
	parallel(len(ems), func(i int) {
		e := ems[i]
		o := opnds[e.o]
		var want refsecp.Point
		if o.m.Inf {
			want = mul(e.ng, "G", g)
		} else {
			want = refsecp.Add(mul(e.na, base(o.name), o.m), mul(e.ng, "G", g))
		}
		// ECmult is built on Number.split(ng, 128); where that helper is already wrong
		// (reported by the split family) the consequence is not reported a second time
		{
			var rl, rh secp256k1.Number
			num(vals[e.ng]).VerifSplit(&rl, &rh, 128)
			rec := new(big.Int).Lsh(&rh.Int, 128)
			if rec.Add(rec, &rl.Int).Cmp(vals[e.ng]) != 0 {
				cc.ok("ecmult", "not judged: split(ng,128) is wrong for this ng (reported as num/split-wrong)")
				return
			}
		}
		var r secp256k1.XYZ
		a := o.j
		pan := catchPanic(func() { a.ECmult(&r, num(vals[e.na]), num(vals[e.ng])) })
		desc := fmt.Sprintf("XYZ.ECmult(a=%s, na=%s, ng=%s)", o.name, e.na, e.ng)
		rp := map[string]interface{}{"call": "ECmult", "point": o.name, "na": vals[e.na].Text(16), "ng": vals[e.ng].Text(16)}
		if pan != "" {
			cc.fail("ecmult", "group/ECmult-panic", desc+" panics: "+pan, i, rp)
			return
		}
		got, bad := affineOf(&r)
		if bad != "" || !refsecp.Equal(got, want) {
			cc.fail("ecmult", "group/ECmult-wrong-result", fmt.Sprintf("%s = %s%s, the group law gives %s", desc, ptStr(got), bad, ptStr(want)), i, rp)
			return
		}
		cl := "finite"
		if want.Inf {
			cl = "infinity"
		}
		cc.ok("ecmult", cl)
	})

	// ---- ECmultGen, BaseMultiply, BaseMultiplyAdd, Multiply ----
	parallel(len(names), func(i int) {
		sn := names[i]
		k := vals[sn]
		want := mul(sn, "G", g)
		var r secp256k1.XYZ
		desc := fmt.Sprintf("ECmultGen(%s)", sn)
		rp := map[string]interface{}{"call": "ECmultGen", "k": k.Text(16)}
		if k.BitLen() <= 256 {
			pan := catchPanic(func() { secp256k1.ECmultGen(&r, num(k)) })
			got, bad := refsecp.Point{}, ""
			if pan == "" {
				got, bad = affineOf(&r)
			}
			if pan != "" || bad != "" || !refsecp.Equal(got, want) {
				cc.fail("ecmultgen", "group/ECmultGen-wrong-result", fmt.Sprintf("%s = %s%s%s, expected %s", desc, ptStr(got), bad, pan, ptStr(want)), i, rp)
			} else if want.Inf {
				cc.ok("ecmultgen", "infinity")
			} else {
				cc.ok("ecmultgen", "finite")
			}
		}
		kb := refsecp.B32(k)
		if want.Inf {
			cc.ok("basemultiply", "result is infinity: no byte encoding exists, output not judged")
		} else {
			for _, l := range []int{33, 65} {
				out := make([]byte, l)
				ok := secp256k1.BaseMultiply(kb, out)
				if !ok || !bytes.Equal(out, pubBytes(want, l == 33)) {
					cc.fail("basemultiply", "group/BaseMultiply-wrong-result", fmt.Sprintf("BaseMultiply(%s) = %x (ok=%v), expected %x", sn, out, ok, pubBytes(want, l == 33)), i, map[string]interface{}{"call": "BaseMultiply", "k": k.Text(16)})
				} else {
					cc.ok("basemultiply", "finite")
				}
			}
		}
		for _, q := range []struct {
			n string
			p refsecp.Point
		}{{"G", g}, {"P", P}} {
			for _, compressed := range []bool{true, false} {
				in := pubBytes(q.p, compressed)
				// k*Q
				wm := mul(sn, q.n, q.p)
				if wm.Inf {
					cc.ok("multiply", "result is infinity: output not judged")
				} else {
					out := make([]byte, 33)
					ok := secp256k1.Multiply(in, kb, out)
					if !ok || !bytes.Equal(out, pubBytes(wm, true)) {
						cc.fail("multiply", "group/Multiply-wrong-result", fmt.Sprintf("Multiply(%s, %s) = %x (ok=%v), expected %x", q.n, sn, out, ok, pubBytes(wm, true)), i, map[string]interface{}{"call": "Multiply", "k": k.Text(16), "point": fmt.Sprintf("%x", in)})
					} else {
						cc.ok("multiply", "finite")
					}
				}
				// k*G + Q
				wa := refsecp.Add(want, q.p)
				if wa.Inf {
					cc.ok("basemultiplyadd", "result is infinity: output not judged")
				} else {
					out := make([]byte, 33)
					ok := secp256k1.BaseMultiplyAdd(in, kb, out)
					if !ok || !bytes.Equal(out, pubBytes(wa, true)) {
						cc.fail("basemultiplyadd", "group/BaseMultiplyAdd-wrong-result", fmt.Sprintf("BaseMultiplyAdd(%s, %s) = %x (ok=%v), expected %x", q.n, sn, out, ok, pubBytes(wa, true)), i, map[string]interface{}{"call": "BaseMultiplyAdd", "k": k.Text(16), "point": fmt.Sprintf("%x", in)})
					} else {
						cc.ok("basemultiplyadd", "finite")
					}
				}
			}
		}
	})

	// ---- decompression / x-only lifting on 64 x values with and without a square root ----
	var xs []*big.Int
	for x := int64(0); len(xs) < 24; x++ {
		xs = append(xs, big.NewInt(x))
	}
	for i := 0; len(xs) < 56; i++ {
		xs = append(xs, refsecp.FMod(hashScalar(fmt.Sprint("verif C08 x ", i))))
	}
	xs = append(xs, new(big.Int).Sub(refsecp.P, big.NewInt(1)), new(big.Int).Sub(refsecp.P, big.NewInt(2)), new(big.Int).Sub(refsecp.P, big.NewInt(3)),
		refsecp.Gx, P.X, betaP, hexBig("1000003D1"), hexBig("1000003D0"))
	for i, x := range xs {
		for _, odd := range []bool{false, true} {
			want, liftable := refsecp.LiftXParity(x, odd)
			xb := refsecp.B32(x)
			rp := map[string]interface{}{"call": "DecompressPoint/SetXO", "x": x.Text(16), "odd": odd}
			var xy secp256k1.XY
			xf := fieldFrom(x)
			xy.SetXO(&xf, odd)
			yb := make([]byte, 32)
			secp256k1.DecompressPoint(xb, odd, yb)
			if liftable {
				if xy.Infinity || fieldBig(&xy.X).Cmp(want.X) != 0 || fieldBig(&xy.Y).Cmp(want.Y) != 0 {
					cc.fail("decompress", "group/SetXO-wrong-result", fmt.Sprintf("SetXO(%x, odd=%v) gives y=%x, expected %x", xb, odd, refsecp.B32(fieldBig(&xy.Y)), refsecp.B32(want.Y)), i, rp)
				} else if !bytes.Equal(yb, refsecp.B32(want.Y)) {
					cc.fail("decompress", "group/DecompressPoint-wrong-result", fmt.Sprintf("DecompressPoint(%x, %v) gives y=%x, expected %x", xb, odd, yb, refsecp.B32(want.Y)), i, rp)
				} else if !xy.IsValid() {
					cc.fail("decompress", "group/IsValid-wrong", fmt.Sprintf("XY.IsValid() = false for the curve point with x=%x", xb), i, rp)
				} else {
					cc.ok("decompress", "liftable")
				}
			} else {
				// no point with this x exists: the only defined observable is that the
				// result is not reported as a valid curve point
				if xy.IsValid() {
					cc.fail("decompress", "group/IsValid-wrong", fmt.Sprintf("XY.IsValid() = true after SetXO on x=%x which has no square root", xb), i, rp)
				} else {
					cc.ok("decompress", "unliftable (IsValid=false; y undefined, not judged)")
				}
			}
		}
	}

	// ---- scalar decomposition helpers and wNAF ----
	lam := lambdaN
	for i, sn := range names {
		k := vals[sn]
		rp := map[string]interface{}{"call": "split_exp/split/wnaf", "k": k.Text(16)}
		var r1, r2, rl, rh secp256k1.Number
		num(k).VerifSplitExp(&r1, &r2)
		rec := new(big.Int).Mul(&r2.Int, lam)
		rec.Add(rec, &r1.Int)
		rec.Sub(rec, k)
		rec.Mod(rec, refsecp.N)
		if rec.Sign() != 0 {
			cc.fail("split_exp", "num/split_exp-wrong", fmt.Sprintf("split_exp(%s): r1 + r2*lambda != k (mod n); r1=%s r2=%s", sn, r1.Text(16), r2.Text(16)), i, rp)
		} else {
			cc.ok("split_exp", "recombines")
		}
		num(k).VerifSplit(&rl, &rh, 128)
		rec = new(big.Int).Lsh(&rh.Int, 128)
		rec.Add(rec, &rl.Int)
		if rec.Cmp(k) != 0 || rl.BitLen() > 128 || rl.Sign() < 0 {
			cc.fail("split", "num/split-wrong", fmt.Sprintf("split(%s, 128): low=%s high=%s do not recombine to k", sn, rl.Text(16), rh.Text(16)), i, rp)
		} else {
			cc.ok("split", "recombines")
		}
		for _, part := range []struct {
			n string
			v *big.Int
			w uint
		}{{"na_1", &r1.Int, 5}, {"na_lam", &r2.Int, 5}, {"ng_1", &rl.Int, 14}, {"ng_128", &rh.Int, 14}, {"k itself (w=5)", k, 5}} {
			digits := secp256k1.VerifWnaf(num(part.v), part.w)
			sum := new(big.Int)
			okd := true
			for j := len(digits) - 1; j >= 0; j-- {
				sum.Lsh(sum, 1)
				sum.Add(sum, big.NewInt(int64(digits[j])))
				dg := digits[j]
				if dg != 0 && (dg%2 == 0 || dg >= 1<<(part.w-1) || dg <= -(1<<(part.w-1))) {
					okd = false
				}
			}
			if sum.Cmp(part.v) != 0 || !okd {
				cc.fail("wnaf", "num/wnaf-wrong", fmt.Sprintf("ecmult_wnaf(%s of %s = %s, w=%d) = %v does not represent the number with odd digits below 2^(w-1)", part.n, sn, part.v.Text(16), part.w, digits), i, rp)
			} else if part.n != "k itself (w=5)" && len(digits) > 129 && k.BitLen() <= 256 {
				cc.fail("wnaf", "num/wnaf-too-long", fmt.Sprintf("ecmult_wnaf(%s of %s) has %d digits; ECmult's buffers hold 129", part.n, sn, len(digits)), i, rp)
			} else {
				cc.ok("wnaf", "represents")
			}
		}
	}

	// ---- curve constants ----
	{
		p, lambda, a1b2, b1, a2 := secp256k1.VerifConsts()
		beta := secp256k1.VerifBeta()
		n := refsecp.N
		chk := func(name string, ok bool) {
			if ok {
				cc.ok("constants", name)
			} else {
				cc.fail("constants", "const/"+name+"-wrong", "curve constant check failed: "+name, 0, map[string]interface{}{"call": "constants", "name": name})
			}
		}
		chk("p", p.Cmp(refsecp.P) == 0)
		chk("order", secp256k1.TheCurve.Order.Cmp(n) == 0)
		chk("half-order", secp256k1.TheCurve.HalfOrder.Cmp(refsecp.HalfN) == 0)
		chk("G", fieldBig(&secp256k1.TheCurve.G.X).Cmp(refsecp.Gx) == 0 && fieldBig(&secp256k1.TheCurve.G.Y).Cmp(refsecp.Gy) == 0)
		l3 := new(big.Int).Exp(&lambda.Int, big.NewInt(3), n)
		chk("lambda^3=1", l3.Cmp(big.NewInt(1)) == 0 && lambda.Cmp(big.NewInt(1)) != 0 && lambda.Cmp(lambdaN) == 0)
		bv := fieldBig(&beta)
		chk("beta^3=1", refsecp.FMul(refsecp.FSqr(bv), bv).Cmp(big.NewInt(1)) == 0 && bv.Cmp(big.NewInt(1)) != 0)
		lg := refsecp.Mul(&lambda.Int, g)
		chk("lambda*G=(beta*Gx,Gy)", lg.X.Cmp(refsecp.FMul(bv, g.X)) == 0 && lg.Y.Cmp(g.Y) == 0)
		// lattice basis: a1 + b1*lambda = 0 and a2 + b2*lambda = 0 (mod n) with a1 = b2 = a1b2, b1 negative
		t := new(big.Int).Mul(&b1.Int, &lambda.Int)
		t.Sub(&a1b2.Int, t)
		chk("a1-b1*lambda=0", new(big.Int).Mod(t, n).Sign() == 0)
		t = new(big.Int).Mul(&a1b2.Int, &lambda.Int)
		t.Add(t, &a2.Int)
		chk("a2+b2*lambda=0", new(big.Int).Mod(t, n).Sign() == 0)
	}
}

// ---------------------------------------------------------------------------
// tables, exhaustively
// ---------------------------------------------------------------------------

func tableChecks(cc *caseCollector) {
	g := refsecp.G()
	// reference multiples by repeated addition: k*B for k = 0..2^14 for B = G and B = 2^128*G
	g128 := g
	for i := 0; i < 128; i++ {
		g128 = refsecp.Double(g128)
	}
	mults := func(b refsecp.Point) []refsecp.Point {
		out := make([]refsecp.Point, 1<<14+1)
		out[0] = refsecp.Infinity()
		for k := 1; k < len(out); k++ {
			out[k] = refsecp.Add(out[k-1], b)
		}
		return out
	}
	var mg, mg128 []refsecp.Point
	var wg sync.WaitGroup
	wg.Add(2)
	go func() { defer wg.Done(); mg = mults(g) }()
	go func() { defer wg.Done(); mg128 = mults(g128) }()
	wg.Wait()
	if !refsecp.Equal(mg128[1], refsecp.MulG(new(big.Int).Lsh(big.NewInt(1), 128))) || !refsecp.Equal(mg[12345], refsecp.MulG(big.NewInt(12345))) {
		panic("reference multiples inconsistent")
	}
	entryIs := func(e *secp256k1.XY, want refsecp.Point) bool {
		if e.Infinity {
			return false
		}
		return fieldBig(&e.X).Cmp(want.X) == 0 && fieldBig(&e.Y).Cmp(want.Y) == 0
	}
	two128 := new(big.Int).Lsh(big.NewInt(1), 128)
	zero := big.NewInt(0)
	var gj secp256k1.XYZ
	gxy := xyFrom(g)
	gj.SetXY(&gxy)
	ecm := func(ng *big.Int) refsecp.Point {
		var r secp256k1.XYZ
		a := gj
		a.ECmult(&r, num(zero), num(ng))
		p, bad := affineOf(&r)
		if bad != "" {
			return refsecp.Point{X: big.NewInt(0), Y: big.NewInt(0)}
		}
		return p
	}
	for ti, tb := range []struct {
		name  string
		tab   []secp256k1.XY
		ref   []refsecp.Point
		shift *big.Int
	}{{"pre_g", secp256k1.VerifPreG(), mg, big.NewInt(1)}, {"pre_g_128", secp256k1.VerifPreG128(), mg128, two128}} {
		if len(tb.tab) != 4096 {
			cc.fail("table-"+tb.name, "table/"+tb.name+"-size", fmt.Sprintf("%s has %d entries, WINDOW_G=14 needs 4096", tb.name, len(tb.tab)), 0, map[string]interface{}{"table": tb.name})
			continue
		}
		tab, ref, shift, name := tb.tab, tb.ref, tb.shift, tb.name
		parallel(4096, func(i int) {
			odd := 2*i + 1
			rp := map[string]interface{}{"table": name, "index": i}
			if !entryIs(&tab[i], ref[odd]) {
				cc.fail("table-"+name, "table/"+name+"-entry-wrong", fmt.Sprintf("%s[%d] = (%x, %x), expected %d*%s = %s", name, i, refsecp.B32(fieldBig(&tab[i].X)), refsecp.B32(fieldBig(&tab[i].Y)), odd, map[bool]string{true: "G", false: "2^128*G"}[ti == 0], ptStr(ref[odd])), i, rp)
			} else {
				cc.ok("table-"+name, "raw entry equals its multiple")
			}
			// functional: the entry is the only table entry used (positive digit), then as negative digit
			ng := new(big.Int).Mul(big.NewInt(int64(odd)), shift)
			if got := ecm(ng); !refsecp.Equal(got, ref[odd]) {
				cc.fail("table-"+name+"-use", "table/"+name+"-lookup-wrong", fmt.Sprintf("ECmult(0, %d*%s) = %s, expected %s", odd, shift.Text(16), ptStr(got), ptStr(ref[odd])), i, rp)
			} else {
				cc.ok("table-"+name+"-use", "ECmult(0, odd*shift) positive digit")
			}
			neg := 1<<14 - odd
			ng = new(big.Int).Mul(big.NewInt(int64(neg)), shift)
			if got := ecm(ng); !refsecp.Equal(got, ref[neg]) {
				cc.fail("table-"+name+"-use", "table/"+name+"-lookup-wrong", fmt.Sprintf("ECmult(0, (2^14-%d)*%s) = %s, expected %s", odd, shift.Text(16), ptStr(got), ptStr(ref[neg])), i, rp)
			} else {
				cc.ok("table-"+name+"-use", "ECmult(0, (2^14-odd)*shift) negative digit")
			}
		})
	}
	// prec[j][i] = (i+1) * 16^j * G ; fin = -(sum_j 16^j) * G
	prec := secp256k1.VerifPrec()
	base := g
	sum := refsecp.Infinity()
	for j := 0; j < 64; j++ {
		cur := base
		sum = refsecp.Add(sum, base)
		for i := 0; i < 16; i++ {
			rp := map[string]interface{}{"table": "prec", "j": j, "i": i}
			if !entryIs(&prec[j][i], cur) {
				cc.fail("table-prec", "table/prec-entry-wrong", fmt.Sprintf("prec[%d][%d] = (%x, %x), expected %d*16^%d*G = %s", j, i, refsecp.B32(fieldBig(&prec[j][i].X)), refsecp.B32(fieldBig(&prec[j][i].Y)), i+1, j, ptStr(cur)), j*16+i, rp)
			} else {
				cc.ok("table-prec", "raw entry equals its multiple")
			}
			// functional: digit i at position j, every other digit 0
			k := new(big.Int).Lsh(big.NewInt(int64(i)), uint(4*j))
			var r secp256k1.XYZ
			secp256k1.ECmultGen(&r, num(k))
			got, bad := affineOf(&r)
			want := refsecp.Infinity()
			if i > 0 {
				want = refsecp.Add(cur, refsecp.Neg(base)) // i * 16^j * G
			}
			if bad != "" || !refsecp.Equal(got, want) {
				cc.fail("table-prec-use", "table/prec-lookup-wrong", fmt.Sprintf("ECmultGen(%d*16^%d) = %s, expected %s", i, j, ptStr(got), ptStr(want)), j*16+i, rp)
			} else {
				cc.ok("table-prec-use", "ECmultGen(i*16^j)")
			}
			cur = refsecp.Add(cur, base)
		}
		// 16^(j+1) * G
		for d := 0; d < 4; d++ {
			base = refsecp.Double(base)
		}
	}
	fin := secp256k1.VerifFin()
	if !entryIs(fin, refsecp.Neg(sum)) {
		cc.fail("table-fin", "table/fin-wrong", fmt.Sprintf("fin = (%x, %x), expected -(sum 16^j)*G = %s", refsecp.B32(fieldBig(&fin.X)), refsecp.B32(fieldBig(&fin.Y)), ptStr(refsecp.Neg(sum))), 0, map[string]interface{}{"table": "fin"})
	} else {
		cc.ok("table-fin", "raw entry equals its multiple")
	}
}
