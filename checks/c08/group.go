package main

import (
	"bytes"
	"crypto/sha256"
	"encoding/binary"
	"fmt"
	"math/big"
	"sort"
	"sync"

	"github.com/piotrnar/gocoin/lib/secp256k1"

	"verif/ref/refsecp"
)

// ---------------------------------------------------------------------------
// Group register machine: two Jacobian registers (real secp256k1.XYZ) next to
// the affine model point. Operands with Z != 1 and un-normalised coordinates
// arise by themselves as results of preceding operations.
// ---------------------------------------------------------------------------

type greg struct {
	j secp256k1.XYZ
	m refsecp.Point
}
type gstate struct {
	r  [2]greg
	xy secp256k1.XY  // one affine register: destination of SetXYZ, receiver of XY.AddXY / XY.Neg
	xm refsecp.Point // the point it denotes
}

type poolPoint struct {
	name string
	xy   secp256k1.XY
	m    refsecp.Point
}

const (
	gLoad = iota
	gDouble
	gAdd
	gAddXY
	gNeg
	gSetXYZ
	gMulLambda
	gXLoad   // xy = pool point
	gXSetXYZ // xy.SetXYZ(&j): the affine register is OVERWRITTEN, whatever it held
	gXAddXY  // xy.AddXY(pool point): xy = xy + point
	gXNeg    // xy.Neg(&xy)
	gJSetX   // j.SetXY(&xy)
	gJAddX   // j.AddXY(&jd, &xy)
)

var gkindName = []string{"SetXY", "Double", "Add", "AddXY", "Neg", "SetXYZ", "mul_lambda", "XY.load", "XY.SetXYZ", "XY.AddXY", "XY.Neg", "SetXY(xy)", "AddXY(xy)"}

type gop struct {
	kind      int
	dst, a, b int
	pp        *poolPoint
}

var lambdaN = hexBig("5363AD4CC05C30E0A5261C028812645A122E22EA20816678DF02967C1B23BD72")
var betaP = hexBig("7AE96A2B657C07106E64479EAC3434E99CF0497512F58995C1396C28719501EE")

func fieldFrom(v *big.Int) secp256k1.Field {
	var f secp256k1.Field
	f.SetB32(refsecp.B32(v))
	return f
}

func xyFrom(p refsecp.Point) secp256k1.XY {
	var xy secp256k1.XY
	if p.Inf {
		xy.Infinity = true
		return xy
	}
	xy.X = fieldFrom(p.X)
	xy.Y = fieldFrom(p.Y)
	return xy
}

func hashScalar(s string) *big.Int {
	h := sha256.Sum256([]byte(s))
	return new(big.Int).Mod(new(big.Int).SetBytes(h[:]), refsecp.N)
}

func groupPool() []*poolPoint {
	g := refsecp.G()
	p := refsecp.MulG(hashScalar("verif C08 point P"))
	pts := []struct {
		n string
		p refsecp.Point
	}{
		{"inf", refsecp.Infinity()}, {"G", g}, {"2G", refsecp.Double(g)}, {"-G", refsecp.Neg(g)}, {"3G", refsecp.Add(refsecp.Double(g), g)},
		{"P", p}, {"-P", refsecp.Neg(p)}, {"lambda*P", refsecp.Point{X: refsecp.FMul(betaP, p.X), Y: p.Y}},
	}
	var out []*poolPoint
	for _, t := range pts {
		out = append(out, &poolPoint{name: t.n, xy: xyFrom(t.p), m: t.p})
	}
	// the same point as the library itself produces it: affine coordinates straight
	// out of SetXYZ (magnitude 1, not normalised)
	var j secp256k1.XYZ
	twoG := xyFrom(refsecp.Double(g))
	j.SetXY(&twoG)
	var d secp256k1.XYZ
	j.Double(&d) // 4G with Z != 1
	var viaSetXYZ secp256k1.XY
	viaSetXYZ.SetXYZ(&d)
	out = append(out, &poolPoint{name: "4G(raw SetXYZ output)", xy: viaSetXYZ, m: refsecp.Double(refsecp.Double(g))})
	return out
}

type groupMachine struct {
	ops   []gop
	names []string
	pool  []*poolPoint
}

func newGroupMachine() *groupMachine {
	m := &groupMachine{pool: groupPool()}
	add := func(o gop, name string) {
		m.ops = append(m.ops, o)
		m.names = append(m.names, name)
	}
	for d := 0; d < 2; d++ {
		for _, pp := range m.pool {
			add(gop{kind: gLoad, dst: d, pp: pp}, fmt.Sprintf("j%d.SetXY(%s)", d, pp.name))
		}
	}
	for d := 0; d < 2; d++ {
		for a := 0; a < 2; a++ {
			add(gop{kind: gDouble, dst: d, a: a}, fmt.Sprintf("j%d.Double(&j%d)", a, d))
			add(gop{kind: gNeg, dst: d, a: a}, fmt.Sprintf("j%d.Neg(&j%d)", a, d))
			add(gop{kind: gMulLambda, dst: d, a: a}, fmt.Sprintf("j%d.mul_lambda(&j%d)", a, d))
			for _, pp := range m.pool {
				add(gop{kind: gAddXY, dst: d, a: a, pp: pp}, fmt.Sprintf("j%d.AddXY(&j%d, %s)", a, d, pp.name))
			}
			for b := 0; b < 2; b++ {
				if d == b && a != b {
					continue // result aliasing only the second operand: a pattern the library never uses
				}
				add(gop{kind: gAdd, dst: d, a: a, b: b}, fmt.Sprintf("j%d.Add(&j%d, &j%d)", a, d, b))
			}
		}
		add(gop{kind: gSetXYZ, dst: d, a: d}, fmt.Sprintf("xy.SetXYZ(&j%d)", d))
	}
	// the affine register
	for _, pp := range m.pool {
		add(gop{kind: gXLoad, pp: pp}, fmt.Sprintf("xy = %s", pp.name))
		add(gop{kind: gXAddXY, pp: pp}, fmt.Sprintf("xy.AddXY(%s)", pp.name))
	}
	add(gop{kind: gXNeg}, "xy.Neg(&xy)")
	for d := 0; d < 2; d++ {
		add(gop{kind: gXSetXYZ, a: d, dst: d}, fmt.Sprintf("xy.SetXYZ(&j%d) [xy kept]", d))
		add(gop{kind: gJSetX, dst: d}, fmt.Sprintf("j%d.SetXY(&xy)", d))
		for a := 0; a < 2; a++ {
			add(gop{kind: gJAddX, dst: d, a: a}, fmt.Sprintf("j%d.AddXY(&j%d, &xy)", a, d))
		}
	}
	if len(m.ops) > 255 {
		panic("group alphabet does not fit a byte")
	}
	return m
}

func (m *groupMachine) init() gstate {
	var s gstate
	for i := range s.r {
		s.r[i].j.Infinity = true
		s.r[i].m = refsecp.Infinity()
	}
	s.xy.Infinity = true
	s.xm = refsecp.Infinity()
	return s
}

func (m *groupMachine) enabled(s *gstate, oi int) bool { return true }

// fieldBig: the value a field element denotes = the integer its limbs represent,
// mod p (Normalize/GetB32 are judged by the field machine, not relied upon here)
func fieldBig(f *secp256k1.Field) *big.Int {
	return refsecp.FMod(limbsValue(f.VerifLimbs()))
}

// affineOf converts a Jacobian register to the affine point it denotes, with
// model arithmetic only (the limbs are read through Normalize+GetB32, which the
// field machine validates separately)
func affineOf(j *secp256k1.XYZ) (refsecp.Point, string) {
	if j.Infinity {
		return refsecp.Infinity(), ""
	}
	x, y, z := fieldBig(&j.X), fieldBig(&j.Y), fieldBig(&j.Z)
	if z.Sign() == 0 {
		return refsecp.Point{}, "Z = 0 on a point not flagged infinite"
	}
	zi := new(big.Int).ModInverse(z, refsecp.P)
	if zi == nil || refsecp.FMul(zi, z).Cmp(big.NewInt(1)) != 0 {
		panic("model inverse self-check failed")
	}
	zi2 := refsecp.FSqr(zi)
	return refsecp.Point{X: refsecp.FMul(x, zi2), Y: refsecp.FMul(y, refsecp.FMul(zi2, zi))}, ""
}

func ptStr(p refsecp.Point) string {
	if p.Inf {
		return "infinity"
	}
	if p.X == nil || p.Y == nil {
		return "(no point)"
	}
	return fmt.Sprintf("(%x, %x)", refsecp.B32(p.X), refsecp.B32(p.Y))
}

var lambdaMemo struct {
	mu sync.Mutex
	m  map[string]refsecp.Point
}

func mulLambdaModel(p refsecp.Point) refsecp.Point {
	if p.Inf {
		return p
	}
	k := string(p.X.Bytes()) + "|" + string(p.Y.Bytes())
	lambdaMemo.mu.Lock()
	r, ok := lambdaMemo.m[k]
	lambdaMemo.mu.Unlock()
	if ok {
		return r
	}
	r = refsecp.Mul(lambdaN, p) // the definition: scalar multiplication by lambda
	lambdaMemo.mu.Lock()
	if lambdaMemo.m == nil {
		lambdaMemo.m = map[string]refsecp.Point{}
	}
	lambdaMemo.m[k] = r
	lambdaMemo.mu.Unlock()
	return r
}

func (m *groupMachine) apply(s *gstate, oi int) (ns gstate, key, what string) {
	o := &m.ops[oi]
	ns = *s
	if o.kind >= gXLoad && o.kind <= gXNeg {
		return m.applyAffine(s, ns, o, oi)
	}
	d := &ns.r[o.dst]
	var want refsecp.Point
	switch o.kind {
	case gJSetX:
		want = ns.xm
		xy := ns.xy
		d.j.SetXY(&xy)
	case gJAddX:
		want = refsecp.Add(ns.r[o.a].m, ns.xm)
		ns.r[o.a].j.AddXY(&ns.r[o.dst].j, &ns.xy)
		if why := m.checkAffine(&ns, "its affine operand"); why != "" {
			return ns, "group/AddXY-clobbers-operand", m.names[oi] + ": " + why
		}
	case gLoad:
		want = o.pp.m
		xy := o.pp.xy
		d.j.SetXY(&xy)
	case gDouble:
		want = refsecp.Double(ns.r[o.a].m)
		ns.r[o.a].j.Double(&ns.r[o.dst].j)
	case gNeg:
		want = refsecp.Neg(ns.r[o.a].m)
		ns.r[o.a].j.Neg(&ns.r[o.dst].j)
	case gMulLambda:
		want = mulLambdaModel(ns.r[o.a].m)
		ns.r[o.a].j.VerifMulLambda(&ns.r[o.dst].j)
	case gAdd:
		want = refsecp.Add(ns.r[o.a].m, ns.r[o.b].m)
		ns.r[o.a].j.Add(&ns.r[o.dst].j, &ns.r[o.b].j)
	case gAddXY:
		want = refsecp.Add(ns.r[o.a].m, o.pp.m)
		xy := o.pp.xy
		ns.r[o.a].j.AddXY(&ns.r[o.dst].j, &xy)
		if !xy.X.Equals(&o.pp.xy.X) || !xy.Y.Equals(&o.pp.xy.Y) || xy.Infinity != o.pp.xy.Infinity {
			return ns, "group/AddXY-clobbers-operand", m.names[oi] + " modified its affine operand"
		}
	case gSetXYZ:
		want = ns.r[o.a].m
		var xy secp256k1.XY
		xy.SetXYZ(&ns.r[o.a].j) // rewrites its argument to Z = 1
		if xy.Infinity != want.Inf {
			return ns, "group/SetXYZ-wrong-result", fmt.Sprintf("%s: Infinity=%v, expected %s", m.names[oi], xy.Infinity, ptStr(want))
		}
		if !want.Inf {
			got := refsecp.Point{X: fieldBig(&xy.X), Y: fieldBig(&xy.Y)}
			if !refsecp.Equal(got, want) {
				return ns, "group/SetXYZ-wrong-result", fmt.Sprintf("%s: gives %s, the register denotes %s", m.names[oi], ptStr(got), ptStr(want))
			}
		}
	}
	d.m = want
	got, bad := affineOf(&d.j)
	if bad != "" {
		return ns, "group/" + gkindName[o.kind] + "-wrong-result", m.names[oi] + ": " + bad
	}
	if !refsecp.Equal(got, want) {
		return ns, "group/" + gkindName[o.kind] + "-wrong-result", fmt.Sprintf("%s: result denotes %s, the group law gives %s (operands %s)", m.names[oi], ptStr(got), ptStr(want), operandsStr(s, o))
	}
	// operands other than the destination still denote the same point (they may be
	// re-normalised in place, so the denoted point is compared when the limbs changed)
	for j := range ns.r {
		if j == o.dst {
			continue
		}
		if ns.r[j].j.Infinity != s.r[j].j.Infinity || !ns.r[j].j.X.Equals(&s.r[j].j.X) || !ns.r[j].j.Y.Equals(&s.r[j].j.Y) || !ns.r[j].j.Z.Equals(&s.r[j].j.Z) {
			if p, bad := affineOf(&ns.r[j].j); bad != "" || !refsecp.Equal(p, ns.r[j].m) {
				return ns, "group/" + gkindName[o.kind] + "-clobbers-operand", fmt.Sprintf("%s changed register j%d, which now denotes %s instead of %s", m.names[oi], j, ptStr(p), ptStr(ns.r[j].m))
			}
		}
	}
	if !want.Inf && !refsecp.OnCurve(want) {
		panic("model point left the curve")
	}
	if !want.Inf && !d.j.IsValid() {
		return ns, "group/IsValid-wrong", fmt.Sprintf("after %s: XYZ.IsValid() = false for a curve point", m.names[oi])
	}
	return ns, "", ""
}

// checkAffine: the affine register denotes its model point, flag included
func (m *groupMachine) checkAffine(ns *gstate, what string) string {
	if ns.xy.Infinity != ns.xm.Inf {
		return fmt.Sprintf("%s has Infinity=%v, it should denote %s", what, ns.xy.Infinity, ptStr(ns.xm))
	}
	if !ns.xm.Inf {
		got := refsecp.Point{X: fieldBig(&ns.xy.X), Y: fieldBig(&ns.xy.Y)}
		if !refsecp.Equal(got, ns.xm) {
			return fmt.Sprintf("%s denotes %s, it should denote %s", what, ptStr(got), ptStr(ns.xm))
		}
	}
	return ""
}

func (m *groupMachine) applyAffine(s *gstate, ns gstate, o *gop, oi int) (gstate, string, string) {
	before := ptStr(ns.xm)
	switch o.kind {
	case gXLoad:
		ns.xy = o.pp.xy
		ns.xm = o.pp.m
	case gXSetXYZ:
		ns.xm = ns.r[o.a].m
		ns.xy.SetXYZ(&ns.r[o.a].j) // rewrites its argument to Z = 1 (same point)
		if p, bad := affineOf(&ns.r[o.a].j); !ns.xm.Inf && (bad != "" || !refsecp.Equal(p, ns.r[o.a].m)) {
			return ns, "group/XY.SetXYZ-clobbers-operand", fmt.Sprintf("%s: the Jacobian argument now denotes %s%s instead of %s", m.names[oi], ptStr(p), bad, ptStr(ns.r[o.a].m))
		}
	case gXAddXY:
		ns.xm = refsecp.Add(ns.xm, o.pp.m)
		b := o.pp.xy
		ns.xy.AddXY(&b)
	case gXNeg:
		ns.xm = refsecp.Neg(ns.xm)
		ns.xy.Neg(&ns.xy)
	}
	if why := m.checkAffine(&ns, "the affine register"); why != "" {
		return ns, "group/" + gkindName[o.kind] + "-wrong-result", fmt.Sprintf("%s (xy held %s before): %s", m.names[oi], before, why)
	}
	if ns.xy.IsValid() != !ns.xm.Inf {
		return ns, "group/XY.IsValid-wrong", fmt.Sprintf("after %s: XY.IsValid() = %v for %s", m.names[oi], ns.xy.IsValid(), ptStr(ns.xm))
	}
	for j := range ns.r {
		if o.kind == gXSetXYZ && j == o.a {
			continue
		}
		if p, bad := affineOf(&ns.r[j].j); bad != "" || !refsecp.Equal(p, ns.r[j].m) {
			return ns, "group/" + gkindName[o.kind] + "-clobbers-operand", fmt.Sprintf("%s changed register j%d", m.names[oi], j)
		}
	}
	return ns, "", ""
}

func operandsStr(s *gstate, o *gop) string {
	switch o.kind {
	case gAdd:
		return ptStr(s.r[o.a].m) + " + " + ptStr(s.r[o.b].m)
	case gAddXY:
		return ptStr(s.r[o.a].m) + " + " + ptStr(o.pp.m)
	case gLoad:
		return o.pp.name
	}
	return ptStr(s.r[o.a].m)
}

func (m *groupMachine) digest(s *gstate) [16]byte {
	var parts [2][]byte
	for i := range s.r {
		var b []byte
		for _, f := range []*secp256k1.Field{&s.r[i].j.X, &s.r[i].j.Y, &s.r[i].j.Z} {
			for _, l := range f.VerifLimbs() {
				b = binary.BigEndian.AppendUint64(b, l)
			}
		}
		if s.r[i].j.Infinity {
			b = append(b, 1)
		} else {
			b = append(b, 0)
		}
		parts[i] = b
	}
	sort.Slice(parts[:], func(i, j int) bool { return bytes.Compare(parts[i], parts[j]) < 0 })
	h := sha256.New()
	h.Write(parts[0])
	h.Write(parts[1])
	for _, f := range []*secp256k1.Field{&s.xy.X, &s.xy.Y} {
		for _, l := range f.VerifLimbs() {
			h.Write(binary.BigEndian.AppendUint64(nil, l))
		}
	}
	if s.xy.Infinity {
		h.Write([]byte{1})
	} else {
		h.Write([]byte{0})
	}
	var out [16]byte
	copy(out[:], h.Sum(nil))
	return out
}

func (m *groupMachine) explorer() *explorer[gstate] {
	return &explorer[gstate]{name: "group-registers", init: m.init, ops: m.names,
		kind:    func(op int) string { return gkindName[m.ops[op].kind] },
		enabled: m.enabled, apply: m.apply, digest: m.digest}
}
