package main

import (
	"bytes"
	"crypto/sha256"
	"encoding/binary"
	"fmt"
	"math/big"
	"sort"
	"sync"

	"github.com/piotrnar/gocoin/lib/secp256k1"

	"verif/ref/refsecp"
)

// ---------------------------------------------------------------------------
// Group register machine: two Jacobian registers (real secp256k1.XYZ) next to
// the affine model point. Operands with Z != 1 and un-normalised coordinates
// arise by themselves as results of preceding operations.
// ---------------------------------------------------------------------------

type greg struct {
	j secp256k1.XYZ
	m refsecp.Point
}
type gstate [2]greg

type poolPoint struct {
	name string
	xy   secp256k1.XY
	m    refsecp.Point
}

const (
	gLoad = iota
	gDouble
	gAdd
	gAddXY
	gNeg
	gSetXYZ
	gMulLambda
)

var gkindName = []string{"SetXY", "Double", "Add", "AddXY", "Neg", "SetXYZ", "mul_lambda"}

type gop struct {
	kind      int
	dst, a, b int
	pp        *poolPoint
}

var lambdaN = hexBig("5363AD4CC05C30E0A5261C028812645A122E22EA20816678DF02967C1B23BD72")
var betaP = hexBig("7AE96A2B657C07106E64479EAC3434E99CF0497512F58995C1396C28719501EE")

func fieldFrom(v *big.Int) secp256k1.Field {
	var f secp256k1.Field
	f.SetB32(refsecp.B32(v))
	return f
}

func xyFrom(p refsecp.Point) secp256k1.XY {
	var xy secp256k1.XY
	if p.Inf {
		xy.Infinity = true
		return xy
	}
	xy.X = fieldFrom(p.X)
	xy.Y = fieldFrom(p.Y)
	return xy
}

func hashScalar(s string) *big.Int {
	h := sha256.Sum256([]byte(s))
	return new(big.Int).Mod(new(big.Int).SetBytes(h[:]), refsecp.N)
}

func groupPool() []*poolPoint {
	g := refsecp.G()
	p := refsecp.MulG(hashScalar("verif C08 point P"))
	pts := []struct {
		n string
		p refsecp.Point
	}{
		{"inf", refsecp.Infinity()}, {"G", g}, {"2G", refsecp.Double(g)}, {"-G", refsecp.Neg(g)}, {"3G", refsecp.Add(refsecp.Double(g), g)},
		{"P", p}, {"-P", refsecp.Neg(p)}, {"lambda*P", refsecp.Point{X: refsecp.FMul(betaP, p.X), Y: p.Y}},
	}
	var out []*poolPoint
	for _, t := range pts {
		out = append(out, &poolPoint{name: t.n, xy: xyFrom(t.p), m: t.p})
	}
	// the same point as the library itself produces it: affine coordinates straight
	// out of SetXYZ (magnitude 1, not normalised)
	var j secp256k1.XYZ
	twoG := xyFrom(refsecp.Double(g))
	j.SetXY(&twoG)
	var d secp256k1.XYZ
	j.Double(&d) // 4G with Z != 1
	var viaSetXYZ secp256k1.XY
	viaSetXYZ.SetXYZ(&d)
	out = append(out, &poolPoint{name: "4G(raw SetXYZ output)", xy: viaSetXYZ, m: refsecp.Double(refsecp.Double(g))})
	return out
}

type groupMachine struct {
	ops   []gop
	names []string
	pool  []*poolPoint
}

func newGroupMachine() *groupMachine {
	m := &groupMachine{pool: groupPool()}
	add := func(o gop, name string) {
		m.ops = append(m.ops, o)
		m.names = append(m.names, name)
	}
	for d := 0; d < 2; d++ {
		for _, pp := range m.pool {
			add(gop{kind: gLoad, dst: d, pp: pp}, fmt.Sprintf("j%d.SetXY(%s)", d, pp.name))
		}
	}
	for d := 0; d < 2; d++ {
		for a := 0; a < 2; a++ {
			add(gop{kind: gDouble, dst: d, a: a}, fmt.Sprintf("j%d.Double(&j%d)", a, d))
			add(gop{kind: gNeg, dst: d, a: a}, fmt.Sprintf("j%d.Neg(&j%d)", a, d))
			add(gop{kind: gMulLambda, dst: d, a: a}, fmt.Sprintf("j%d.mul_lambda(&j%d)", a, d))
			for _, pp := range m.pool {
				add(gop{kind: gAddXY, dst: d, a: a, pp: pp}, fmt.Sprintf("j%d.AddXY(&j%d, %s)", a, d, pp.name))
			}
			for b := 0; b < 2; b++ {
				if d == b && a != b {
					continue // result aliasing only the second operand: a pattern the library never uses
				}
				add(gop{kind: gAdd, dst: d, a: a, b: b}, fmt.Sprintf("j%d.Add(&j%d, &j%d)", a, d, b))
			}
		}
		add(gop{kind: gSetXYZ, dst: d, a: d}, fmt.Sprintf("xy.SetXYZ(&j%d)", d))
	}
	if len(m.ops) > 255 {
		panic("group alphabet does not fit a byte")
	}
	return m
}

func (m *groupMachine) init() gstate {
	var s gstate
	for i := range s {
		s[i].j.Infinity = true
		s[i].m = refsecp.Infinity()
	}
	return s
}

func (m *groupMachine) enabled(s *gstate, oi int) bool { return true }

// fieldBig: the value a field element denotes = the integer its limbs represent,
// mod p (Normalize/GetB32 are judged by the field machine, not relied upon here)
func fieldBig(f *secp256k1.Field) *big.Int {
	return refsecp.FMod(limbsValue(f.VerifLimbs()))
}

// affineOf converts a Jacobian register to the affine point it denotes, with
// model arithmetic only (the limbs are read through Normalize+GetB32, which the
// field machine validates separately)
func affineOf(j *secp256k1.XYZ) (refsecp.Point, string) {
	if j.Infinity {
		return refsecp.Infinity(), ""
	}
	x, y, z := fieldBig(&j.X), fieldBig(&j.Y), fieldBig(&j.Z)
	if z.Sign() == 0 {
		return refsecp.Point{}, "Z = 0 on a point not flagged infinite"
	}
	zi := new(big.Int).ModInverse(z, refsecp.P)
	if zi == nil || refsecp.FMul(zi, z).Cmp(big.NewInt(1)) != 0 {
		panic("model inverse self-check failed")
	}
	zi2 := refsecp.FSqr(zi)
	return refsecp.Point{X: refsecp.FMul(x, zi2), Y: refsecp.FMul(y, refsecp.FMul(zi2, zi))}, ""
}

func ptStr(p refsecp.Point) string {
	if p.Inf {
		return "infinity"
	}
	if p.X == nil || p.Y == nil {
		return "(no point)"
	}
	return fmt.Sprintf("(%x, %x)", refsecp.B32(p.X), refsecp.B32(p.Y))
}

var lambdaMemo struct {
	mu sync.Mutex
	m  map[string]refsecp.Point
}

func mulLambdaModel(p refsecp.Point) refsecp.Point {
	if p.Inf {
		return p
	}
	k := string(p.X.Bytes()) + "|" + string(p.Y.Bytes())
	lambdaMemo.mu.Lock()
	r, ok := lambdaMemo.m[k]
	lambdaMemo.mu.Unlock()
	if ok {
		return r
	}
	r = refsecp.Mul(lambdaN, p) // the definition: scalar multiplication by lambda
	lambdaMemo.mu.Lock()
	if lambdaMemo.m == nil {
		lambdaMemo.m = map[string]refsecp.Point{}
	}
	lambdaMemo.m[k] = r
	lambdaMemo.mu.Unlock()
	return r
}

func (m *groupMachine) apply(s *gstate, oi int) (ns gstate, key, what string) {
	o := &m.ops[oi]
	ns = *s
	d := &ns[o.dst]
	var want refsecp.Point
	switch o.kind {
	case gLoad:
		want = o.pp.m
		xy := o.pp.xy
		d.j.SetXY(&xy)
	case gDouble:
		want = refsecp.Double(ns[o.a].m)
		ns[o.a].j.Double(&ns[o.dst].j)
	case gNeg:
		want = refsecp.Neg(ns[o.a].m)
		ns[o.a].j.Neg(&ns[o.dst].j)
	case gMulLambda:
		want = mulLambdaModel(ns[o.a].m)
		ns[o.a].j.VerifMulLambda(&ns[o.dst].j)
	case gAdd:
		want = refsecp.Add(ns[o.a].m, ns[o.b].m)
		ns[o.a].j.Add(&ns[o.dst].j, &ns[o.b].j)
	case gAddXY:
		want = refsecp.Add(ns[o.a].m, o.pp.m)
		xy := o.pp.xy
		ns[o.a].j.AddXY(&ns[o.dst].j, &xy)
		if !xy.X.Equals(&o.pp.xy.X) || !xy.Y.Equals(&o.pp.xy.Y) || xy.Infinity != o.pp.xy.Infinity {
			return ns, "group/AddXY-clobbers-operand", m.names[oi] + " modified its affine operand"
		}
	case gSetXYZ:
		want = ns[o.a].m
		var xy secp256k1.XY
		xy.SetXYZ(&ns[o.a].j) // rewrites its argument to Z = 1
		if xy.Infinity != want.Inf {
			return ns, "group/SetXYZ-wrong-result", fmt.Sprintf("%s: Infinity=%v, expected %s", m.names[oi], xy.Infinity, ptStr(want))
		}
		if !want.Inf {
			got := refsecp.Point{X: fieldBig(&xy.X), Y: fieldBig(&xy.Y)}
			if !refsecp.Equal(got, want) {
				return ns, "group/SetXYZ-wrong-result", fmt.Sprintf("%s: gives %s, the register denotes %s", m.names[oi], ptStr(got), ptStr(want))
			}
		}
	}
	d.m = want
	got, bad := affineOf(&d.j)
	if bad != "" {
		return ns, "group/" + gkindName[o.kind] + "-wrong-result", m.names[oi] + ": " + bad
	}
	if !refsecp.Equal(got, want) {
		return ns, "group/" + gkindName[o.kind] + "-wrong-result", fmt.Sprintf("%s: result denotes %s, the group law gives %s (operands %s)", m.names[oi], ptStr(got), ptStr(want), operandsStr(s, o))
	}
	// operands other than the destination still denote the same point (they may be
	// re-normalised in place, so the denoted point is compared when the limbs changed)
	for j := range ns {
		if j == o.dst {
			continue
		}
		if ns[j].j.Infinity != s[j].j.Infinity || !ns[j].j.X.Equals(&s[j].j.X) || !ns[j].j.Y.Equals(&s[j].j.Y) || !ns[j].j.Z.Equals(&s[j].j.Z) {
			if p, bad := affineOf(&ns[j].j); bad != "" || !refsecp.Equal(p, ns[j].m) {
				return ns, "group/" + gkindName[o.kind] + "-clobbers-operand", fmt.Sprintf("%s changed register j%d, which now denotes %s instead of %s", m.names[oi], j, ptStr(p), ptStr(ns[j].m))
			}
		}
	}
	if !want.Inf && !refsecp.OnCurve(want) {
		panic("model point left the curve")
	}
	if !want.Inf && !d.j.IsValid() {
		return ns, "group/IsValid-wrong", fmt.Sprintf("after %s: XYZ.IsValid() = false for a curve point", m.names[oi])
	}
	return ns, "", ""
}

func operandsStr(s *gstate, o *gop) string {
	switch o.kind {
	case gAdd:
		return ptStr(s[o.a].m) + " + " + ptStr(s[o.b].m)
	case gAddXY:
		return ptStr(s[o.a].m) + " + " + ptStr(o.pp.m)
	case gLoad:
		return o.pp.name
	}
	return ptStr(s[o.a].m)
}

func (m *groupMachine) digest(s *gstate) [16]byte {
	var parts [2][]byte
	for i := range s {
		var b []byte
		for _, f := range []*secp256k1.Field{&s[i].j.X, &s[i].j.Y, &s[i].j.Z} {
			for _, l := range f.VerifLimbs() {
				b = binary.BigEndian.AppendUint64(b, l)
			}
		}
		if s[i].j.Infinity {
			b = append(b, 1)
		} else {
			b = append(b, 0)
		}
		parts[i] = b
	}
	sort.Slice(parts[:], func(i, j int) bool { return bytes.Compare(parts[i], parts[j]) < 0 })
	h := sha256.New()
	h.Write(parts[0])
	h.Write(parts[1])
	var out [16]byte
	copy(out[:], h.Sum(nil))
	return out
}

func (m *groupMachine) explorer() *explorer[gstate] {
	return &explorer[gstate]{name: "group-registers", init: m.init, ops: m.names,
		kind:    func(op int) string { return gkindName[m.ops[op].kind] },
		enabled: m.enabled, apply: m.apply, digest: m.digest}
}
