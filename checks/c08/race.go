package main

// "Concurrent calls share no state" sub-check for the arithmetic entry points (see
// checks/c03/race.go for the rationale): ECmult / ECmultGen read the precomputed
// tables, the byte-level multiplications, parsing, the group and field operations and
// the scalar helpers must be callable from several goroutines at once. run.sh builds
// this program a second time with the race detector (checks/c08/RACE -> bin/c08-race);
// `c08-race --racepass=N` runs 8 goroutines on their OWN deterministic operands, one
// round per entry point plus mixed rounds; every result must equal the reference result
// computed single-threaded beforehand, and the detector must not report a race with a
// gocoin/lib/secp256k1 frame. Native (5x52) back end only: the detector needs amd64.

import (
	"bytes"
	"fmt"
	"math/big"
	"os"
	"os/exec"
	"regexp"
	"strings"
	"sync"
	"sync/atomic"

	"github.com/piotrnar/gocoin/lib/secp256k1"

	"verif/internal/ev"
	"verif/ref/refsecp"
)

const raceG = 8

type raceOp struct {
	k1, k2           *big.Int
	P                refsecp.Point
	ecm, k1G, k1P    refsecp.Point
	k1GplusP, dbl    refsecp.Point
	sum              refsecp.Point // k1*G + k2*G
	fx, fy           *big.Int      // field operands
	fmul, finv, fsqr *big.Int
	fsqrt            *big.Int
}

func raceOperands() []raceOp {
	out := make([]raceOp, raceG)
	for g := range out {
		o := &out[g]
		o.k1 = hashScalar(fmt.Sprint("c08-race-k1 ", g))
		o.k2 = hashScalar(fmt.Sprint("c08-race-k2 ", g))
		o.P = refsecp.MulG(hashScalar(fmt.Sprint("c08-race-p ", g)))
		o.k1G, o.k1P = refsecp.MulG(o.k1), refsecp.Mul(o.k1, o.P)
		k2G := refsecp.MulG(o.k2)
		o.ecm = refsecp.Add(o.k1P, k2G)
		o.k1GplusP = refsecp.Add(o.k1G, o.P)
		o.dbl = refsecp.Double(o.k1G)
		o.sum = refsecp.Add(o.k1G, k2G)
		o.fx, o.fy = refsecp.FMod(o.k1), refsecp.FMod(o.k2)
		o.fmul, o.finv, o.fsqr = refsecp.FMul(o.fx, o.fy), refsecp.FInv(o.fx), refsecp.FSqr(o.fx)
		o.fsqrt = refsecp.FSqrtCandidate(o.fx)
	}
	return out
}

type raceEnt struct {
	name string
	run  func(o *raceOp, i int) string
}

func raceEnts() []raceEnt {
	jIs := func(j *secp256k1.XYZ, want refsecp.Point) bool {
		got, bad := affineOf(j)
		return bad == "" && refsecp.Equal(got, want)
	}
	return []raceEnt{
		{"ECmult", func(o *raceOp, i int) string {
			var a, r secp256k1.XYZ
			xy := xyFrom(o.P)
			a.SetXY(&xy)
			a.ECmult(&r, num(o.k1), num(o.k2))
			if !jIs(&r, o.ecm) {
				return "ECmult(P, k1, k2) wrong"
			}
			return ""
		}},
		{"ECmultGen", func(o *raceOp, i int) string {
			var r secp256k1.XYZ
			secp256k1.ECmultGen(&r, num(o.k1))
			if !jIs(&r, o.k1G) {
				return "ECmultGen(k1) wrong"
			}
			return ""
		}},
		{"BaseMultiply/Multiply/BaseMultiplyAdd", func(o *raceOp, i int) string {
			kb := refsecp.B32(o.k1)
			o1, o2, o3 := make([]byte, 33), make([]byte, 33), make([]byte, 33)
			in := pubBytes(o.P, i%2 == 0)
			secp256k1.BaseMultiply(kb, o1)
			secp256k1.Multiply(in, kb, o2)
			secp256k1.BaseMultiplyAdd(in, kb, o3)
			if !bytes.Equal(o1, pubBytes(o.k1G, true)) || !bytes.Equal(o2, pubBytes(o.k1P, true)) || !bytes.Equal(o3, pubBytes(o.k1GplusP, true)) {
				return fmt.Sprintf("byte-level multiplication wrong: %x %x %x", o1, o2, o3)
			}
			return ""
		}},
		{"ParsePubkey/DecompressPoint/SetXO", func(o *raceOp, i int) string {
			var xy secp256k1.XY
			y := make([]byte, 32)
			secp256k1.DecompressPoint(refsecp.B32(o.P.X), o.P.Y.Bit(0) == 1, y)
			if !xy.ParsePubkey(pubBytes(o.P, true)) || fieldBig(&xy.Y).Cmp(o.P.Y) != 0 || !bytes.Equal(y, refsecp.B32(o.P.Y)) || !xy.IsValid() {
				return "ParsePubkey/DecompressPoint wrong"
			}
			return ""
		}},
		{"group operations", func(o *raceOp, i int) string {
			var j1, j2, r1, r2, r3 secp256k1.XYZ
			secp256k1.ECmultGen(&j1, num(o.k1))
			secp256k1.ECmultGen(&j2, num(o.k2))
			j1.Double(&r1)
			j1.Add(&r2, &j2)
			pxy := xyFrom(o.P)
			j1.AddXY(&r3, &pxy)
			var xy secp256k1.XY
			xy.SetXYZ(&r3)
			if !jIs(&r1, o.dbl) || !jIs(&r2, o.sum) || xy.Infinity || fieldBig(&xy.X).Cmp(o.k1GplusP.X) != 0 || fieldBig(&xy.Y).Cmp(o.k1GplusP.Y) != 0 {
				return "Double/Add/AddXY/SetXYZ wrong"
			}
			return ""
		}},
		{"field operations", func(o *raceOp, i int) string {
			a, b := fieldFrom(o.fx), fieldFrom(o.fy)
			var m, s, iv, ivv, sq secp256k1.Field
			a.Mul(&m, &b)
			a.Sqr(&s)
			a.Inv(&iv)
			a.InvVar(&ivv)
			a.Sqrt(&sq)
			m.Normalize()
			if fieldBig(&m).Cmp(o.fmul) != 0 || fieldBig(&s).Cmp(o.fsqr) != 0 || fieldBig(&iv).Cmp(o.finv) != 0 || fieldBig(&ivv).Cmp(o.finv) != 0 || fieldBig(&sq).Cmp(o.fsqrt) != 0 {
				return "Mul/Sqr/Inv/InvVar/Sqrt wrong"
			}
			return ""
		}},
		{"split/split_exp/wnaf", func(o *raceOp, i int) string {
			var rl, rh, r1, r2 secp256k1.Number
			k := num(o.k1)
			k.VerifSplit(&rl, &rh, 128)
			k.VerifSplitExp(&r1, &r2)
			rec := new(big.Int).Lsh(&rh.Int, 128)
			rec.Add(rec, &rl.Int)
			e := new(big.Int).Mul(&r2.Int, lambdaN)
			e.Add(e, &r1.Int).Sub(e, o.k1).Mod(e, refsecp.N)
			sum := new(big.Int)
			d := secp256k1.VerifWnaf(k, 5)
			for j := len(d) - 1; j >= 0; j-- {
				sum.Lsh(sum, 1).Add(sum, big.NewInt(int64(d[j])))
			}
			if rec.Cmp(o.k1) != 0 || e.Sign() != 0 || sum.Cmp(o.k1) != 0 {
				return "split/split_exp/wnaf do not recombine"
			}
			return ""
		}},
		{"ECPublicTweakAdd", func(o *raceOp, i int) string {
			xy := xyFrom(o.P)
			if !xy.ECPublicTweakAdd(num(o.k1)) || fieldBig(&xy.X).Cmp(o.k1GplusP.X) != 0 || fieldBig(&xy.Y).Cmp(o.k1GplusP.Y) != 0 {
				return "ECPublicTweakAdd wrong"
			}
			return ""
		}},
	}
}

func racePassMain(n int) {
	data := raceOperands()
	ents := raceEnts()
	var ops int64
	var mu sync.Mutex
	seen := map[string]bool{}
	round := func(name string, assign func(g int) *raceEnt) {
		var wg sync.WaitGroup
		for g := 0; g < raceG; g++ {
			e := assign(g)
			wg.Add(1)
			go func(g int) {
				defer wg.Done()
				for i := 0; i < n; i++ {
					if why := e.run(&data[g], i); why != "" {
						mu.Lock()
						if !seen[name+e.name] {
							seen[name+e.name] = true
							fmt.Printf("racepass-fail [%s] %s: %s (goroutine %d)\n", name, e.name, why, g)
						}
						mu.Unlock()
					}
					atomic.AddInt64(&ops, 1)
				}
			}(g)
		}
		wg.Wait()
	}
	for i := range ents {
		e := &ents[i]
		round("8 x "+e.name, func(int) *raceEnt { return e })
	}
	for i := range ents {
		a, b := &ents[i], &ents[(i+1)%len(ents)]
		round("4 x "+a.name+" with 4 x "+b.name, func(g int) *raceEnt {
			if g < raceG/2 {
				return a
			}
			return b
		})
	}
	fmt.Printf("racepass-done %d\n", ops)
}

var gocoinFrame = regexp.MustCompile(`gocoin/lib/(secp256k1)\.([A-Za-z0-9_().*]+)`)

func shortStr(s string, n int) string {
	s = strings.ReplaceAll(s, "\n", " | ")
	if len(s) > n {
		return s[:n] + "…"
	}
	return s
}

func runRacePass(r *ev.Run) map[string]interface{} {
	info := map[string]interface{}{}
	bin := ev.OutDir() + "/bin/c08-race"
	if _, err := os.Stat(bin); err != nil {
		if os.Getenv("C08_SKIP_RACE") != "" {
			info["skipped"] = "C08_SKIP_RACE set"
			return info
		}
		ev.HarnessError("race-detector build %s missing (checks/c08/RACE makes run.sh build it)", bin)
	}
	n := 60
	if r.Thorough() {
		n = 600
	}
	ops, reports := 0, 0
	for _, procs := range []string{"4", "16"} {
		cmd := exec.Command(bin, fmt.Sprint("--racepass=", n))
		cmd.Env = append(os.Environ(), "GOMAXPROCS="+procs, "GORACE=halt_on_error=0 exitcode=0")
		var werr strings.Builder
		cmd.Stderr = &werr
		out, err := cmd.Output()
		if err != nil || !strings.Contains(string(out), "racepass-done") {
			if gocoinFrame.MatchString(werr.String()) && (strings.Contains(werr.String(), "fatal error") || strings.Contains(werr.String(), "panic:")) {
				r.Report(backend+":concurrent/free-running-crash", "concurrent calls crashed inside lib/secp256k1: "+shortStr(werr.String(), 1500), map[string]interface{}{"family": "racepass", "backend": backend})
				continue
			}
			ev.HarnessError("race pass failed: %v %s", err, shortStr(werr.String(), 800))
		}
		var done int
		fmt.Sscanf(string(out)[strings.Index(string(out), "racepass-done"):], "racepass-done %d", &done)
		ops += done
		for _, line := range strings.Split(string(out), "\n") {
			if strings.HasPrefix(line, "racepass-fail") {
				ent := "?"
				if i := strings.Index(line, "] "); i > 0 {
					ent = strings.SplitN(line[i+2:], ":", 2)[0]
				}
				r.Report(backend+":concurrent/wrong-result-under-concurrency/"+ent, "8 goroutines on disjoint operands, GOMAXPROCS="+procs+": "+shortStr(line, 900), map[string]interface{}{"family": "racepass", "backend": backend})
			}
		}
		for _, rep := range strings.Split(werr.String(), "WARNING: DATA RACE")[1:] {
			reports++
			if m := gocoinFrame.FindStringSubmatch(rep); m != nil {
				r.Report(backend+":concurrent/data-race/"+m[1]+"."+strings.TrimSuffix(m[2], "()"), "Go race detector, concurrent calls on disjoint operands (GOMAXPROCS="+procs+"): "+shortStr(rep, 1500), map[string]interface{}{"family": "racepass", "backend": backend})
			}
		}
	}
	info["operations"] = ops
	info["race_reports"] = reports
	info["goroutines"] = raceG
	info["entry_points"] = len(raceEnts())
	info["iterations_per_goroutine"] = n
	return info
}
