//go:build !(amd64 || arm64 || arm64be || ppc64 || ppc64le || mips64 || mips64le || s390x || sparc64)

package main

// 10x26 backend (older libsecp256k1 convention, see Field.Negate there):
// a magnitude-m element has limbs <= m*(2^26-1), top limb <= m*(2^22-1)
type limbT = uint32

const (
	backend   = "10x26"
	nLimbs    = 10
	limbBits  = 26
	topBits   = 22
	magFactor = 1
)
