package main

// "Results do not depend on what the destination held before" family, added after
// the independently seeded change C08-e was missed. Every operation that OVERWRITES an
// output parameter / receiver is executed with that destination pre-loaded with each
// of a set of "dirty" contents - zero value, the identity (Infinity = true, with and
// without stale coordinates), a different finite point, the state a previous FAILED
// call left behind, un-normalised field values of magnitude > 1, saturated limbs,
// 0xff-filled byte buffers, large / negative Numbers - and the result must denote what
// the reference says, exactly as with a fresh destination.
// (Sequences on one destination inside the group law are explored by the group state
// machine, which has an affine register for XY.SetXYZ / XY.AddXY / XY.Neg.)

import (
	"bytes"
	"fmt"
	"math/big"
	"strings"

	"github.com/piotrnar/gocoin/lib/secp256k1"

	"verif/ref/refsecp"
)

func dirtyFields() (names []string, fs []secp256k1.Field) {
	add := func(n string, f secp256k1.Field) { names = append(names, n); fs = append(fs, f) }
	var z secp256k1.Field
	add("zero value", z)
	for _, rp := range rawPatterns() {
		if rp.mag == 1 || rp.mag == 32 {
			var f secp256k1.Field
			f.VerifSetLimbs(rp.limbs)
			add("limbs "+rp.name, f)
		}
	}
	b := fieldFrom(betaP)
	add("beta", b)
	b.Negate(&b, 1)
	b.MulInt(3)
	add("-3*beta (magnitude 6)", b)
	return
}

func dirtyXYs(other refsecp.Point) (names []string, xs []secp256k1.XY) {
	add := func(n string, x secp256k1.XY) { names = append(names, n); xs = append(xs, x) }
	_, fs := dirtyFields()
	add("zero value", secp256k1.XY{})
	add("identity", secp256k1.XY{Infinity: true})
	o := xyFrom(other)
	add("a different finite point", o)
	o.Infinity = true
	add("identity with stale coordinates", o)
	add("saturated limbs", secp256k1.XY{X: fs[1], Y: fs[2]})
	add("magnitude-6 coordinates, flagged identity", secp256k1.XY{X: fs[len(fs)-1], Y: fs[len(fs)-1], Infinity: true})
	// what a refused parse leaves behind
	var failed secp256k1.XY
	failed.Infinity = true
	failed.ParsePubkey(append([]byte{2}, make([]byte, 32)...)) // x = 0 is not on the curve
	add("left by a refused ParsePubkey", failed)
	return
}

func dirtyXYZs(other refsecp.Point) (names []string, js []secp256k1.XYZ) {
	xn, xs := dirtyXYs(other)
	for i := range xs {
		var j secp256k1.XYZ
		j.X, j.Y, j.Infinity = xs[i].X, xs[i].Y, xs[i].Infinity
		if i%2 == 1 {
			j.Z = fieldFrom(betaP)
		}
		names = append(names, xn[i])
		js = append(js, j)
	}
	var o secp256k1.XYZ
	oxy := xyFrom(other)
	o.SetXY(&oxy)
	var d secp256k1.XYZ
	o.Double(&d)
	names = append(names, "a different finite point with Z != 1")
	js = append(js, d)
	return
}

func destCases(cc *caseCollector) {
	g := refsecp.G()
	P := refsecp.MulG(hashScalar("verif C08 point P"))
	Q := refsecp.MulG(hashScalar("verif C08 dest Q"))
	idx := 0
	fail := func(op, what string) {
		idx++
		// one key per entry point: the variant (operands, Z form, preceding refused call) is in the text
		base := op
		if i := strings.IndexAny(base, "( "); i > 0 {
			base = base[:i]
		}
		cc.fail("dest", "dest/"+base+"-result-depends-on-destination", what, idx, map[string]interface{}{"call": op})
	}
	xyIs := func(x *secp256k1.XY, want refsecp.Point) bool {
		if x.Infinity != want.Inf {
			return false
		}
		return want.Inf || (fieldBig(&x.X).Cmp(want.X) == 0 && fieldBig(&x.Y).Cmp(want.Y) == 0)
	}
	jIs := func(j *secp256k1.XYZ, want refsecp.Point) bool {
		got, bad := affineOf(j)
		return bad == "" && refsecp.Equal(got, want)
	}
	jOf := func(p refsecp.Point, scaled bool) secp256k1.XYZ {
		var j secp256k1.XYZ
		xy := xyFrom(p)
		j.SetXY(&xy)
		if scaled && !p.Inf {
			var r secp256k1.XYZ
			np := xyFrom(refsecp.Neg(p))
			var d secp256k1.XYZ
			j.Double(&d)
			d.AddXY(&r, &np) // 2P + (-P): Z != 1
			return r
		}
		return j
	}
	lam := refsecp.Mul(lambdaN, P)

	// ---------------- Field destinations ----------------
	fnames, dfs := dirtyFields()
	fvals := []*big.Int{big.NewInt(0), big.NewInt(1), new(big.Int).Sub(refsecp.P, big.NewInt(1)), betaP, refsecp.FMod(hashScalar("verif C08 dest f"))}
	type fop struct {
		name string
		run  func(r *secp256k1.Field, a, b *secp256k1.Field, av, bv *big.Int) *big.Int
	}
	fops := []fop{
		{"Field.SetB32", func(r, a, b *secp256k1.Field, av, bv *big.Int) *big.Int { r.SetB32(refsecp.B32(av)); return av }},
		{"Field.SetBytes", func(r, a, b *secp256k1.Field, av, bv *big.Int) *big.Int { r.SetBytes(av.Bytes()); return av }},
		{"Field.SetHex", func(r, a, b *secp256k1.Field, av, bv *big.Int) *big.Int {
			r.SetHex(fmt.Sprintf("%064x", av))
			return av
		}},
		{"Field.SetInt", func(r, a, b *secp256k1.Field, av, bv *big.Int) *big.Int { r.SetInt(7); return big.NewInt(7) }},
		{"Field.Mul", func(r, a, b *secp256k1.Field, av, bv *big.Int) *big.Int { a.Mul(r, b); return refsecp.FMul(av, bv) }},
		{"Field.Sqr", func(r, a, b *secp256k1.Field, av, bv *big.Int) *big.Int { a.Sqr(r); return refsecp.FSqr(av) }},
		{"Field.Inv", func(r, a, b *secp256k1.Field, av, bv *big.Int) *big.Int { a.Inv(r); return refsecp.FInv(av) }},
		{"Field.InvVar", func(r, a, b *secp256k1.Field, av, bv *big.Int) *big.Int { a.InvVar(r); return refsecp.FInv(av) }},
		{"Field.Sqrt", func(r, a, b *secp256k1.Field, av, bv *big.Int) *big.Int { a.Sqrt(r); return refsecp.FSqrtCandidate(av) }},
		{"Field.Negate", func(r, a, b *secp256k1.Field, av, bv *big.Int) *big.Int { a.Negate(r, 1); return refsecp.FNeg(av) }},
	}
	for _, op := range fops {
		for ai, av := range fvals {
			bv := fvals[(ai+3)%len(fvals)]
			okAll := true
			for di := range dfs {
				r := dfs[di]
				a, b := fieldFrom(av), fieldFrom(bv)
				want := op.run(&r, &a, &b, av, bv)
				if fieldBig(&r).Cmp(refsecp.FMod(want)) != 0 {
					fail(op.name, fmt.Sprintf("%s with operand %x into a destination holding [%s] gives %x, expected %x", op.name, refsecp.B32(av), fnames[di], refsecp.B32(fieldBig(&r)), refsecp.B32(refsecp.FMod(want))))
					okAll = false
					break
				}
			}
			if okAll {
				cc.ok("dest", "Field destination")
			}
		}
	}

	// ---------------- XY destinations ----------------
	xnames, _ := dirtyXYs(Q)
	type xop struct {
		name string
		run  func(r *secp256k1.XY) refsecp.Point
	}
	rsig := func() (r, s *big.Int, h []byte, recid int, pub refsecp.Point) {
		// a valid recoverable signature made with the reference arithmetic: R = k*G
		d, k := hashScalar("verif C08 dest key"), hashScalar("verif C08 dest nonce")
		R := refsecp.MulG(k)
		r = new(big.Int).Mod(R.X, refsecp.N)
		hm := hashScalar("verif C08 dest msg")
		s = new(big.Int).Mul(r, d)
		s.Add(s, hm)
		s.Mul(s, new(big.Int).ModInverse(k, refsecp.N))
		s.Mod(s, refsecp.N)
		recid = int(R.Y.Bit(0))
		if R.X.Cmp(refsecp.N) >= 0 {
			recid |= 2
		}
		return r, s, refsecp.B32(hm), recid, refsecp.MulG(d)
	}
	sr, ss, sh, srec, spub := rsig()
	var xops []xop
	for _, pt := range []struct {
		n string
		p refsecp.Point
	}{{"P", P}, {"G", g}, {"infinity", refsecp.Infinity()}} {
		pt := pt
		for _, scaled := range []bool{false, true} {
			scaled := scaled
			xops = append(xops, xop{fmt.Sprintf("XY.SetXYZ(%s, Z!=1: %v)", pt.n, scaled), func(r *secp256k1.XY) refsecp.Point {
				j := jOf(pt.p, scaled)
				r.SetXYZ(&j)
				return pt.p
			}})
		}
	}
	xops = append(xops,
		xop{"XY.SetXY", func(r *secp256k1.XY) refsecp.Point { x, y := fieldFrom(P.X), fieldFrom(P.Y); r.SetXY(&x, &y); return P }},
		xop{"XY.SetXO", func(r *secp256k1.XY) refsecp.Point { x := fieldFrom(P.X); r.SetXO(&x, P.Y.Bit(0) == 1); return P }},
		xop{"XY.Neg", func(r *secp256k1.XY) refsecp.Point { a := xyFrom(P); a.Neg(r); return refsecp.Neg(P) }},
		xop{"XY.Neg(infinity)", func(r *secp256k1.XY) refsecp.Point {
			a := xyFrom(refsecp.Infinity())
			a.Neg(r)
			return refsecp.Infinity()
		}},
		xop{"XY.ParsePubkey(compressed)", func(r *secp256k1.XY) refsecp.Point {
			if !r.ParsePubkey(pubBytes(P, true)) {
				return refsecp.Point{X: big.NewInt(0), Y: big.NewInt(0)}
			}
			return P
		}},
		xop{"XY.ParsePubkey(uncompressed)", func(r *secp256k1.XY) refsecp.Point {
			if !r.ParsePubkey(pubBytes(P, false)) {
				return refsecp.Point{X: big.NewInt(0), Y: big.NewInt(0)}
			}
			return P
		}},
		xop{"XY.ParsePubkey(refused) then ParsePubkey(valid)", func(r *secp256k1.XY) refsecp.Point {
			bad := pubBytes(P, false)
			bad[64] ^= 1
			r.ParsePubkey(bad)
			if !r.ParsePubkey(pubBytes(g, true)) {
				return refsecp.Point{X: big.NewInt(0), Y: big.NewInt(0)}
			}
			return g
		}},
		xop{"XY.ParseXOnlyPubkey", func(r *secp256k1.XY) refsecp.Point {
			e, _ := refsecp.LiftX(P.X)
			if !r.ParseXOnlyPubkey(refsecp.B32(P.X)) {
				return refsecp.Point{X: big.NewInt(0), Y: big.NewInt(0)}
			}
			return e
		}},
		xop{"RecoverPublicKey", func(r *secp256k1.XY) refsecp.Point {
			if !secp256k1.RecoverPublicKey(sr.Bytes(), ss.Bytes(), sh, srec, r) {
				return refsecp.Point{X: big.NewInt(0), Y: big.NewInt(0)}
			}
			return spub
		}},
		xop{"RecoverPublicKey(refused) then RecoverPublicKey(valid)", func(r *secp256k1.XY) refsecp.Point {
			secp256k1.RecoverPublicKey(sr.Bytes(), ss.Bytes(), sh, srec|2, r)      // r+n >= p: refused
			secp256k1.RecoverPublicKey(refsecp.N.Bytes(), ss.Bytes(), sh, srec, r) // r out of range: refused
			if !secp256k1.RecoverPublicKey(sr.Bytes(), ss.Bytes(), sh, srec, r) {
				return refsecp.Point{X: big.NewInt(0), Y: big.NewInt(0)}
			}
			return spub
		}},
	)
	for _, op := range xops {
		okAll := true
		for di := range xnames {
			_, ds := dirtyXYs(Q)
			r := ds[di]
			want := op.run(&r)
			if !xyIs(&r, want) {
				got := "infinity"
				if !r.Infinity {
					got = ptStr(refsecp.Point{X: fieldBig(&r.X), Y: fieldBig(&r.Y)})
				}
				fail(op.name, fmt.Sprintf("%s into an XY holding [%s] leaves %s (Infinity=%v), expected %s", op.name, xnames[di], got, r.Infinity, ptStr(want)))
				okAll = false
				break
			}
		}
		if okAll {
			cc.ok("dest", "XY destination")
		}
	}

	// ---------------- XYZ destinations ----------------
	jnames, _ := dirtyXYZs(Q)
	type jop struct {
		name string
		run  func(r *secp256k1.XYZ) refsecp.Point
	}
	n := refsecp.N
	k1 := hashScalar("verif C08 dest k1")
	var jops []jop
	for _, scaled := range []bool{false, true} {
		scaled := scaled
		sfx := fmt.Sprintf(" (operands Z!=1: %v)", scaled)
		jops = append(jops,
			jop{"XYZ.Double" + sfx, func(r *secp256k1.XYZ) refsecp.Point { a := jOf(P, scaled); a.Double(r); return refsecp.Double(P) }},
			jop{"XYZ.Neg" + sfx, func(r *secp256k1.XYZ) refsecp.Point { a := jOf(P, scaled); a.Neg(r); return refsecp.Neg(P) }},
			jop{"XYZ.mul_lambda" + sfx, func(r *secp256k1.XYZ) refsecp.Point { a := jOf(P, scaled); a.VerifMulLambda(r); return lam }},
			jop{"XYZ.Add" + sfx, func(r *secp256k1.XYZ) refsecp.Point {
				a, b := jOf(P, scaled), jOf(g, scaled)
				a.Add(r, &b)
				return refsecp.Add(P, g)
			}},
			jop{"XYZ.Add(P,P)" + sfx, func(r *secp256k1.XYZ) refsecp.Point {
				a, b := jOf(P, scaled), jOf(P, false)
				a.Add(r, &b)
				return refsecp.Double(P)
			}},
			jop{"XYZ.Add(P,-P)" + sfx, func(r *secp256k1.XYZ) refsecp.Point {
				a, b := jOf(P, scaled), jOf(refsecp.Neg(P), false)
				a.Add(r, &b)
				return refsecp.Infinity()
			}},
			jop{"XYZ.Add(inf,P)" + sfx, func(r *secp256k1.XYZ) refsecp.Point {
				a, b := jOf(refsecp.Infinity(), false), jOf(P, scaled)
				a.Add(r, &b)
				return P
			}},
			jop{"XYZ.AddXY" + sfx, func(r *secp256k1.XYZ) refsecp.Point {
				a, b := jOf(P, scaled), xyFrom(g)
				a.AddXY(r, &b)
				return refsecp.Add(P, g)
			}},
			jop{"XYZ.AddXY(P,P)" + sfx, func(r *secp256k1.XYZ) refsecp.Point {
				a, b := jOf(P, scaled), xyFrom(P)
				a.AddXY(r, &b)
				return refsecp.Double(P)
			}},
			jop{"XYZ.AddXY(P,-P)" + sfx, func(r *secp256k1.XYZ) refsecp.Point {
				a, b := jOf(P, scaled), xyFrom(refsecp.Neg(P))
				a.AddXY(r, &b)
				return refsecp.Infinity()
			}},
			jop{"XYZ.AddXY(inf,P)" + sfx, func(r *secp256k1.XYZ) refsecp.Point {
				a, b := jOf(refsecp.Infinity(), false), xyFrom(P)
				a.AddXY(r, &b)
				return P
			}},
			jop{"XYZ.AddXY(P,inf)" + sfx, func(r *secp256k1.XYZ) refsecp.Point {
				a, b := jOf(P, scaled), xyFrom(refsecp.Infinity())
				a.AddXY(r, &b)
				return P
			}},
			jop{"XYZ.ECmult" + sfx, func(r *secp256k1.XYZ) refsecp.Point {
				a := jOf(P, scaled)
				a.ECmult(r, num(big.NewInt(3)), num(k1))
				return refsecp.Add(refsecp.Mul(big.NewInt(3), P), refsecp.MulG(k1))
			}},
			jop{"XYZ.ECmult(0,0)" + sfx, func(r *secp256k1.XYZ) refsecp.Point {
				a := jOf(P, scaled)
				a.ECmult(r, num(big.NewInt(0)), num(big.NewInt(0)))
				return refsecp.Infinity()
			}},
			jop{"XYZ.ECmult(n,n)" + sfx, func(r *secp256k1.XYZ) refsecp.Point {
				a := jOf(P, scaled)
				a.ECmult(r, num(n), num(n))
				return refsecp.Infinity()
			}},
		)
	}
	jops = append(jops,
		jop{"XYZ.SetXY", func(r *secp256k1.XYZ) refsecp.Point { a := xyFrom(P); r.SetXY(&a); return P }},
		jop{"XYZ.SetXY(infinity)", func(r *secp256k1.XYZ) refsecp.Point {
			a := xyFrom(refsecp.Infinity())
			r.SetXY(&a)
			return refsecp.Infinity()
		}},
		jop{"XYZ.Double(infinity)", func(r *secp256k1.XYZ) refsecp.Point {
			a := jOf(refsecp.Infinity(), false)
			a.Double(r)
			return refsecp.Infinity()
		}},
		jop{"ECmultGen", func(r *secp256k1.XYZ) refsecp.Point { secp256k1.ECmultGen(r, num(k1)); return refsecp.MulG(k1) }},
		jop{"ECmultGen(0)", func(r *secp256k1.XYZ) refsecp.Point {
			secp256k1.ECmultGen(r, num(big.NewInt(0)))
			return refsecp.Infinity()
		}},
		jop{"ECmultGen(n)", func(r *secp256k1.XYZ) refsecp.Point { secp256k1.ECmultGen(r, num(n)); return refsecp.Infinity() }},
	)
	for _, op := range jops {
		okAll := true
		for di := range jnames {
			_, ds := dirtyXYZs(Q)
			r := ds[di]
			want := op.run(&r)
			if !jIs(&r, want) {
				got, bad := affineOf(&r)
				fail(op.name, fmt.Sprintf("%s into an XYZ holding [%s] leaves %s%s, expected %s", op.name, jnames[di], ptStr(got), bad, ptStr(want)))
				okAll = false
				break
			}
		}
		if okAll {
			cc.ok("dest", "XYZ destination")
		}
	}

	// ---------------- Number destinations ----------------
	dirtyNums := func() []*secp256k1.Number {
		return []*secp256k1.Number{num(big.NewInt(0)), num(new(big.Int).Lsh(big.NewInt(1), 300)), num(big.NewInt(-5)), num(refsecp.N)}
	}
	for _, kv := range []*big.Int{big.NewInt(0), big.NewInt(1), new(big.Int).Lsh(big.NewInt(1), 128), k1, new(big.Int).Sub(refsecp.N, big.NewInt(1))} {
		var f1, f2, f3, f4 secp256k1.Number
		num(kv).VerifSplit(&f1, &f2, 128)
		num(kv).VerifSplitExp(&f3, &f4)
		okAll := true
		for di := range dirtyNums() {
			d1, d2, d3, d4 := dirtyNums()[di], dirtyNums()[(di+1)%4], dirtyNums()[(di+2)%4], dirtyNums()[(di+3)%4]
			num(kv).VerifSplit(d1, d2, 128)
			num(kv).VerifSplitExp(d3, d4)
			rec := new(big.Int).Lsh(&d2.Int, 128)
			rec.Add(rec, &d1.Int)
			if d1.Cmp(&f1.Int) != 0 || d2.Cmp(&f2.Int) != 0 || d3.Cmp(&f3.Int) != 0 || d4.Cmp(&f4.Int) != 0 || rec.Cmp(kv) != 0 {
				fail("Number.split/split_exp", fmt.Sprintf("split/split_exp(%s) into used Numbers gives %s,%s / %s,%s; into fresh ones %s,%s / %s,%s", kv.Text(16), d1.Text(16), d2.Text(16), d3.Text(16), d4.Text(16), f1.Text(16), f2.Text(16), f3.Text(16), f4.Text(16)))
				okAll = false
				break
			}
		}
		if okAll {
			cc.ok("dest", "Number destination")
		}
	}

	// ---------------- byte-slice outputs and Signature objects ----------------
	for _, kv := range []*big.Int{big.NewInt(1), k1, new(big.Int).Sub(refsecp.N, big.NewInt(1))} {
		kb := refsecp.B32(kv)
		for _, l := range []int{33, 65} {
			var outs [][]byte
			for _, fill := range []byte{0x00, 0xff, 0x02} {
				o1, o2, o3 := bytes.Repeat([]byte{fill}, l), bytes.Repeat([]byte{fill}, 33), bytes.Repeat([]byte{fill}, 33)
				y := bytes.Repeat([]byte{fill}, 32)
				secp256k1.BaseMultiply(kb, o1)
				secp256k1.Multiply(pubBytes(P, true), kb, o2)
				secp256k1.BaseMultiplyAdd(pubBytes(P, false), kb, o3)
				secp256k1.DecompressPoint(refsecp.B32(P.X), P.Y.Bit(0) == 1, y)
				g1 := bytes.Repeat([]byte{fill}, l)
				pxy := xyFrom(refsecp.Mul(kv, P))
				pxy.GetPublicKey(g1)
				outs = append(outs, bytes.Join([][]byte{o1, o2, o3, y, g1}, nil))
			}
			want := bytes.Join([][]byte{pubBytes(refsecp.MulG(kv), l == 33), pubBytes(refsecp.Mul(kv, P), true), pubBytes(refsecp.Add(refsecp.MulG(kv), P), true), refsecp.B32(P.Y), pubBytes(refsecp.Mul(kv, P), l == 33)}, nil)
			if !bytes.Equal(outs[0], want) || !bytes.Equal(outs[1], want) || !bytes.Equal(outs[2], want) {
				fail("byte-output(BaseMultiply/Multiply/BaseMultiplyAdd/DecompressPoint/GetPublicKey)", fmt.Sprintf("output depends on what the buffer held before (k=%s, len %d): %x / %x / %x, expected %x", kv.Text(16), l, outs[0], outs[1], outs[2], want))
			} else {
				cc.ok("dest", "byte output buffers")
			}
		}
	}
	{
		der := []byte{0x30, 0x06, 0x02, 0x01, 0x05, 0x02, 0x01, 0x07}
		for _, pre := range []*big.Int{big.NewInt(0), new(big.Int).Lsh(big.NewInt(1), 300), big.NewInt(-9)} {
			var sg secp256k1.Signature
			sg.R.Set(pre)
			sg.S.Set(pre)
			if sg.ParseBytes(der) != 8 || sg.R.Cmp(big.NewInt(5)) != 0 || sg.S.Cmp(big.NewInt(7)) != 0 {
				fail("Signature.ParseBytes", fmt.Sprintf("ParseBytes into a Signature holding %s gives r=%s s=%s", pre.Text(16), sg.R.Text(16), sg.S.Text(16)))
			} else {
				cc.ok("dest", "Signature destination")
			}
			// Sign into a used Signature object
			var s2, fresh secp256k1.Signature
			s2.R.Set(pre)
			s2.S.Set(pre)
			r1, r2 := -7, 99
			ok1 := fresh.Sign(num(k1), num(hashScalar("verif C08 dest msg")), num(hashScalar("verif C08 dest nonce")), &r1)
			ok2 := s2.Sign(num(k1), num(hashScalar("verif C08 dest msg")), num(hashScalar("verif C08 dest nonce")), &r2)
			if ok1 != ok2 || r1 != r2 || fresh.R.Cmp(&s2.R.Int) != 0 || fresh.S.Cmp(&s2.S.Int) != 0 {
				fail("Signature.Sign", fmt.Sprintf("Sign into a Signature holding %s gives another result than into a fresh one", pre.Text(16)))
			} else {
				cc.ok("dest", "Signature destination")
			}
		}
	}
}
