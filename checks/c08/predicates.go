package main

// "Predicates on single-bit neighbours" family, added after the independently seeded
// change C08-f was missed: every comparison / predicate the package exposes is
// evaluated on a base value and on EACH of its 256 single-bit neighbours (and with
// each single limb of the internal representation zeroed / saturated), where a
// predicate that looks at only part of the representation gives the wrong answer:
//   Field.Equals / IsZero / IsOdd, Number.is_below / is_zero / is_odd,
//   XY.IsValid and XYZ.IsValid on (x xor 2^k, y) and (x, y xor 2^k),
//   XYZ.Equals on representations differing in one bit of one coordinate,
//   and the group law on pairs of CURVE points whose x coordinates differ in exactly
//   one bit (found by scanning candidates with the reference), through XYZ.Add and
//   XYZ.AddXY in both orders: the sum must be the finite point the reference gives.

import (
	"fmt"
	"math/big"

	"github.com/piotrnar/gocoin/lib/secp256k1"

	"verif/ref/refsecp"
)

func predicateCases(cc *caseCollector) {
	p := refsecp.P
	one := big.NewInt(1)
	bit := func(k int) *big.Int { return new(big.Int).Lsh(one, uint(k)) }
	two256 := bit(256)
	idx := 0
	fail := func(key, what string, rp map[string]interface{}) {
		idx++
		cc.fail("predicates", "pred/"+key, what, idx, rp)
	}
	normField := func(v *big.Int) secp256k1.Field {
		f := fieldFrom(v) // v < 2^256
		f.Normalize()
		return f
	}
	bases := map[string]*big.Int{"0": big.NewInt(0), "1": one, "p-1": new(big.Int).Sub(p, one), "2^255": bit(255),
		"h1": refsecp.FMod(hashScalar("verif C08 pred 1")), "h2": refsecp.FMod(hashScalar("verif C08 pred 2")), "h3": refsecp.FMod(hashScalar("verif C08 pred 3"))}
	for _, bn := range []string{"0", "1", "2^255", "h1", "h2", "h3", "p-1"} {
		v := bases[bn]
		a := normField(v)
		// the element equals itself
		a2 := normField(v)
		if !a.Equals(&a2) {
			fail("Field.Equals-wrong", fmt.Sprintf("Field.Equals is false for two copies of %s", bn), map[string]interface{}{"base": v.Text(16)})
		}
		for k := 0; k < 256; k++ {
			w := new(big.Int).Xor(v, bit(k))
			wm := refsecp.FMod(w)
			b := normField(w)
			rp := map[string]interface{}{"base": v.Text(16), "bit": k}
			want := wm.Cmp(v) == 0
			if a.Equals(&b) != want || b.Equals(&a) != want {
				fail("Field.Equals-wrong", fmt.Sprintf("Field.Equals(%x, %x) = %v/%v (values differ in bit %d only), expected %v", refsecp.B32(v), refsecp.B32(wm), a.Equals(&b), b.Equals(&a), k, want), rp)
			} else if b.IsZero() != (wm.Sign() == 0) {
				fail("Field.IsZero-wrong", fmt.Sprintf("Field.IsZero(%x) = %v", refsecp.B32(wm), b.IsZero()), rp)
			} else if b.IsOdd() != (wm.Bit(0) == 1) {
				fail("Field.IsOdd-wrong", fmt.Sprintf("Field.IsOdd(%x) = %v", refsecp.B32(wm), b.IsOdd()), rp)
			} else {
				cc.ok("predicates", "Field.Equals/IsZero/IsOdd on a single-bit neighbour")
			}
		}
		// one limb of the canonical representation zeroed / saturated
		la := a.VerifLimbs()
		for i := range la {
			for _, full := range []bool{false, true} {
				lb := append([]uint64(nil), la...)
				lb[i] = 0
				if full {
					lb[i] = limbMax(i, 1) / magFactor
				}
				w := limbsValue(lb)
				if w.Cmp(p) >= 0 {
					continue
				}
				var b secp256k1.Field
				b.VerifSetLimbs(lb)
				want := w.Cmp(v) == 0
				if a.Equals(&b) != want || b.Equals(&a) != want {
					fail("Field.Equals-wrong", fmt.Sprintf("Field.Equals(%x, %x) = %v (canonical limbs differ in limb %d only), expected %v", refsecp.B32(v), refsecp.B32(w), a.Equals(&b), i, want), map[string]interface{}{"base": v.Text(16), "limb": i})
				} else if b.IsZero() != (w.Sign() == 0) {
					fail("Field.IsZero-wrong", fmt.Sprintf("Field.IsZero = %v for limbs %x", b.IsZero(), lb), map[string]interface{}{"base": v.Text(16), "limb": i})
				} else {
					cc.ok("predicates", "Field.Equals/IsZero with one limb zeroed/saturated")
				}
			}
		}
	}
	// ---- Number predicates around n and small values ----
	n := refsecp.N
	for k := 0; k < 256; k++ {
		w := new(big.Int).Xor(n, bit(k))
		for _, pr := range [][2]*big.Int{{w, n}, {n, w}, {w, w}} {
			if got, want := num(pr[0]).VerifIsBelow(num(pr[1])), pr[0].Cmp(pr[1]) < 0; got != want {
				fail("Number.is_below-wrong", fmt.Sprintf("is_below(%s, %s) = %v", pr[0].Text(16), pr[1].Text(16), got), map[string]interface{}{"bit": k})
			} else {
				cc.ok("predicates", "Number.is_below around n")
			}
		}
		b := bit(k)
		if num(b).VerifIsZero() || num(b).VerifIsOdd() != (k == 0) {
			fail("Number.is_zero/is_odd-wrong", fmt.Sprintf("is_zero/is_odd wrong for 2^%d", k), map[string]interface{}{"bit": k})
		} else {
			cc.ok("predicates", "Number.is_zero/is_odd on 2^k")
		}
	}
	if !num(big.NewInt(0)).VerifIsZero() {
		fail("Number.is_zero/is_odd-wrong", "is_zero(0) = false", map[string]interface{}{})
	}

	// ---- IsValid on single-bit neighbours of curve points; XYZ.Equals ----
	g := refsecp.G()
	P := refsecp.MulG(hashScalar("verif C08 point P"))
	zs := fieldFrom(refsecp.FMod(hashScalar("verif C08 pred z")))
	jac := func(x, y *big.Int, scaled bool) secp256k1.XYZ {
		var j secp256k1.XYZ
		xy := secp256k1.XY{X: normField(x), Y: normField(y)}
		j.SetXY(&xy)
		if scaled {
			var z2, z3 secp256k1.Field
			zs.Sqr(&z2)
			z2.Mul(&z3, &zs)
			j.X.Mul(&j.X, &z2)
			j.Y.Mul(&j.Y, &z3)
			j.Z = zs
			j.X.Normalize()
			j.Y.Normalize()
			j.Z.Normalize()
		}
		return j
	}
	for pi, pt := range []refsecp.Point{g, P} {
		base := jac(pt.X, pt.Y, true)
		for k := 0; k < 256; k++ {
			for c := 0; c < 2; c++ {
				x, y := new(big.Int).Set(pt.X), new(big.Int).Set(pt.Y)
				if c == 0 {
					x.Xor(x, bit(k))
				} else {
					y.Xor(y, bit(k))
				}
				if x.Cmp(two256) >= 0 || y.Cmp(two256) >= 0 {
					continue
				}
				want := refsecp.OnCurve(refsecp.Point{X: refsecp.FMod(x), Y: refsecp.FMod(y)})
				xy := secp256k1.XY{X: normField(x), Y: normField(y)}
				rp := map[string]interface{}{"point": pi, "bit": k, "coord": c}
				j1, j2 := jac(x, y, false), jac(x, y, true)
				if xy.IsValid() != want {
					fail("XY.IsValid-wrong", fmt.Sprintf("XY.IsValid() = %v for (%x, %x): a curve point with bit %d of %s flipped", xy.IsValid(), refsecp.B32(refsecp.FMod(x)), refsecp.B32(refsecp.FMod(y)), k, []string{"x", "y"}[c]), rp)
				} else if j1.IsValid() != want || j2.IsValid() != want {
					fail("XYZ.IsValid-wrong", fmt.Sprintf("XYZ.IsValid() = %v/%v (Z=1 / Z!=1) for the off-curve (%x, %x)", j1.IsValid(), j2.IsValid(), refsecp.B32(refsecp.FMod(x)), refsecp.B32(refsecp.FMod(y))), rp)
				} else {
					cc.ok("predicates", "IsValid on a single-bit neighbour of a curve point")
				}
				// representation equality: one coordinate of the Jacobian triple differs in one bit
				b1, b2 := base, base
				f := []*secp256k1.Field{&b2.X, &b2.Y, &b2.Z}[(k+c)%3]
				v := new(big.Int).Xor(fieldBig(f), bit(k))
				if v.Cmp(p) >= 0 {
					continue
				}
				*f = normField(v)
				if b1.Equals(&b2) || b2.Equals(&b1) {
					fail("XYZ.Equals-wrong", fmt.Sprintf("XYZ.Equals is true for representations that differ in bit %d of one coordinate", k), rp)
				} else if c1, c2 := base, base; !c1.Equals(&c2) {
					fail("XYZ.Equals-wrong", "XYZ.Equals is false for two copies of the same representation", rp)
				} else {
					cc.ok("predicates", "XYZ.Equals on a single-bit neighbour")
				}
			}
		}
	}

	// ---- two curve points whose x differ in exactly one bit ----
	for k := 0; k < 256; k++ {
		var p1, p2 refsecp.Point
		found := false
		for c := 0; c < 200 && !found; c++ {
			x := refsecp.FMod(hashScalar(fmt.Sprint("verif C08 pred pair ", k, " ", c)))
			x2 := new(big.Int).Xor(x, bit(k))
			if x2.Cmp(p) >= 0 {
				continue
			}
			a, ok1 := refsecp.LiftXParity(x, c%2 == 1)
			b, ok2 := refsecp.LiftXParity(x2, c%4 >= 2)
			if ok1 && ok2 {
				p1, p2, found = a, b, true
			}
		}
		if !found {
			panic("no pair of curve points with x differing in one bit found")
		}
		want := refsecp.Add(p1, p2)
		rp := map[string]interface{}{"bit": k, "x1": p1.X.Text(16), "x2": p2.X.Text(16)}
		bad := ""
		for _, sc := range [][2]bool{{false, false}, {true, true}, {true, false}} {
			for _, ord := range []bool{false, true} {
				a, b := p1, p2
				if ord {
					a, b = p2, p1
				}
				ja, jb := jac(a.X, a.Y, sc[0]), jac(b.X, b.Y, sc[1])
				var r1, r2 secp256k1.XYZ
				ja.Add(&r1, &jb)
				bxy := xyFrom(b)
				ja.AddXY(&r2, &bxy)
				for oi, r := range []*secp256k1.XYZ{&r1, &r2} {
					got, bs := affineOf(r)
					if bs != "" || !refsecp.Equal(got, want) {
						bad = fmt.Sprintf("XYZ.%s of two curve points whose x differ only in bit %d (x1=%x, x2=%x; Z scaled: %v) = %s%s, the group law gives %s", []string{"Add", "AddXY"}[oi], k, refsecp.B32(a.X), refsecp.B32(b.X), sc, ptStr(got), bs, ptStr(want))
					}
				}
			}
		}
		// affine receiver
		axy, bxy := xyFrom(p1), xyFrom(p2)
		axy.AddXY(&bxy)
		if axy.Infinity || fieldBig(&axy.X).Cmp(want.X) != 0 || fieldBig(&axy.Y).Cmp(want.Y) != 0 {
			bad = fmt.Sprintf("XY.AddXY of two curve points whose x differ only in bit %d (x1=%x, x2=%x) is wrong (Infinity=%v)", k, refsecp.B32(p1.X), refsecp.B32(p2.X), axy.Infinity)
		}
		if bad != "" {
			fail("add-of-single-bit-x-neighbours-wrong", bad, rp)
		} else {
			cc.ok("predicates", "Add/AddXY of curve points with x differing in one bit")
		}
	}
}
