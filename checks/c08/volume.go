package main

// Volume family added after the independently seeded change C08-b was missed: the
// group law on the SAME point in two different Jacobian representations.
//
// For base points B (G, P, 3G) and every lambda in 2..N the point Q = (X*l^2, Y*l^3,
// Z*l) equals B; B.Add(Q) must be 2B (not infinity), B.Add(-Q) must be infinity, and
// Q.Add(B) likewise. The intermediate products u1,u2,s1,s2 of XYZ.Add come out of
// Field.Mul weakly reduced; roughly one product in 10^5 is not in canonical form, so a
// comparison that forgets to normalise misjudges P+P / P+(-P) only for such values -
// hence the volume. The expected result follows from the construction (checked once per
// base point against the reference); every deviation is confirmed with the reference
// model before it is reported.

import (
	"bytes"
	"crypto/sha256"
	"encoding/binary"
	"fmt"
	"math/big"

	"github.com/piotrnar/gocoin/lib/secp256k1"

	"verif/ref/refsecp"
)

func volumeCases(thorough bool, cc *caseCollector) {
	n := 700000
	if thorough {
		n = 5000000
	}
	if backend != "5x52" {
		n /= 20 // the 10x26 Mul leaves canonical limbs; the 32-bit worker shares the cores
	}
	type baseT struct {
		name string
		k    *big.Int
	}
	bases := []baseT{{"ECmultGen(k1)", hashScalar("verif C08 volume k1")}, {"ECmultGen(k2)", hashScalar("verif C08 volume k2")}, {"ECmultGen(3)", big.NewInt(3)}}
	for _, b := range bases {
		b := b
		bp := refsecp.MulG(b.k)
		want2 := refsecp.Add(bp, bp)
		// the base point as the generator multiplication leaves it: Jacobian, Z != 1
		var bj secp256k1.XYZ
		secp256k1.ECmultGen(&bj, num(b.k))
		if got, _ := affineOf(&bj); got.Inf || got.X.Cmp(bp.X) != 0 || got.Y.Cmp(bp.Y) != 0 {
			cc.fail("group-volume", "group/ECmultGen-wrong", "ECmultGen disagrees with the reference for "+b.name, 0, map[string]interface{}{"base": b.name})
			continue
		}
		var dbl secp256k1.XYZ
		bj.Double(&dbl)
		chunk := 50000
		parallel((n+chunk-1)/chunk, func(ci int) {
			for l := ci*chunk + 2; l < (ci+1)*chunk+2 && l < n+2; l++ {
				var l2, l3 secp256k1.Field
				lam := fieldFrom(big.NewInt(int64(l)))
				lam.Sqr(&l2)
				l2.Mul(&l3, &lam)
				var q, nq, r1, r2, r3 secp256k1.XYZ
				q = bj
				q.X.Mul(&q.X, &l2)
				q.Y.Mul(&q.Y, &l3)
				q.Z.Mul(&q.Z, &lam)
				q.Neg(&nq)
				bj2 := bj
				bj2.Add(&r1, &q)  // B + Q  = 2B
				q.Add(&r2, &bj2)  // Q + B  = 2B
				bj2.Add(&r3, &nq) // B + (-Q) = infinity
				// cheap screen with the implementation's own comparison; the reference model
				// (math/big) is consulted on a sample and on every anomaly
				bad := ""
				suspicious := r1.Infinity || r2.Infinity || !r3.Infinity || !r1.Equals(&dbl) || !r2.Equals(&dbl) || l%4096 == 2
				if suspicious {
					for i, r := range []*secp256k1.XYZ{&r1, &r2} {
						got, _ := affineOf(r)
						if got.Inf != want2.Inf || (!got.Inf && (got.X.Cmp(want2.X) != 0 || got.Y.Cmp(want2.Y) != 0)) {
							bad = fmt.Sprintf("Add #%d of %s and the same point rescaled by lambda=%d gives %s, the group law gives 2*%s = %s", i, b.name, l, ptStr(got), b.name, ptStr(want2))
						}
					}
					if !r3.Infinity {
						got, _ := affineOf(&r3)
						bad = fmt.Sprintf("%s + (-(%s rescaled by lambda=%d)) gives %s, the group law gives the point at infinity", b.name, b.name, l, ptStr(got))
					}
				}
				if bad != "" {
					cc.fail("group-volume", "group/Add-same-point-different-Z-wrong", bad, l, map[string]interface{}{"base": b.name, "lambda": l})
				} else {
					cc.ok("group-volume", "same-point-different-Z")
				}
			}
		})
	}
}

// ---------------------------------------------------------------------------
// Mixed addition volume (added after the seeded change C08-c was missed): a point in
// Jacobian form with a pseudo-random Z plus the SAME point / its negation in affine
// form. (X*z^2, Y*z^3, z).AddXY(B) must be 2B, .AddXY(-B) the identity. The operands
// compared inside AddXY are Field.Mul outputs; about one in 4*10^4..10^5 is not in
// canonical form, so only volume reaches a comparison that forgets to normalise.
// Z = SHA256(tag, base, counter) reduced mod p, a fixed deterministic sequence.
// ---------------------------------------------------------------------------

func volumeZ(base string, c int) *big.Int {
	var b [8]byte
	binary.BigEndian.PutUint64(b[:], uint64(c))
	h := sha256.Sum256(append([]byte("verif C08 addxy z "+base), b[:]...))
	z := refsecp.FMod(new(big.Int).SetBytes(h[:]))
	if z.Sign() == 0 {
		z.SetInt64(1)
	}
	return z
}

func volumeAddXY(thorough bool, cc *caseCollector) {
	n := 1100000
	if thorough {
		n = 8000000
	}
	if backend != "5x52" {
		n /= 20
	}
	for _, b := range []struct {
		name string
		k    *big.Int
	}{{"G", big.NewInt(1)}, {"k1*G", hashScalar("verif C08 volume k1")}} {
		b := b
		bp := refsecp.MulG(b.k)
		want2 := refsecp.Add(bp, bp)
		bxy := xyFrom(bp)
		nxy := xyFrom(refsecp.Neg(bp))
		chunk := 20000
		parallel((n+chunk-1)/chunk, func(ci int) {
			for c := ci * chunk; c < (ci+1)*chunk && c < n; c++ {
				z := fieldFrom(volumeZ(b.name, c))
				var z2, z3 secp256k1.Field
				z.Sqr(&z2)
				z2.Mul(&z3, &z)
				var j, r1, r2, dbl secp256k1.XYZ
				bxy.X.Mul(&j.X, &z2)
				bxy.Y.Mul(&j.Y, &z3)
				j.Z = z
				j2 := j
				j2.Double(&dbl)
				p1, p2 := bxy, nxy
				j.AddXY(&r1, &p1) // J + B  = 2B (through the doubling branch)
				j.AddXY(&r2, &p2) // J + (-B) = identity
				bad := ""
				// cheap screen: the doubling branch must reproduce Double() exactly; the
				// reference decides on every anomaly and on a sample
				if r1.Infinity || !r2.Infinity || !r1.Equals(&dbl) || c%8192 == 0 {
					got, bs := affineOf(&r1)
					if bs != "" || !refsecp.Equal(got, want2) {
						bad = fmt.Sprintf("(%s with Z=%x).AddXY(%s) = %s%s, the group law gives 2*%s = %s", b.name, refsecp.B32(volumeZ(b.name, c)), b.name, ptStr(got), bs, b.name, ptStr(want2))
					} else if !r2.Infinity {
						got, _ := affineOf(&r2)
						bad = fmt.Sprintf("(%s with Z=%x).AddXY(-%s) = %s, the group law gives the identity", b.name, refsecp.B32(volumeZ(b.name, c)), b.name, ptStr(got))
					}
				}
				if bad != "" {
					cc.fail("addxy-volume", "group/AddXY-same-point-different-Z-wrong", bad, c, map[string]interface{}{"base": b.name, "counter": c})
				} else {
					cc.ok("addxy-volume", "J+B=2B, J+(-B)=identity")
				}
			}
		})
	}
}

// volumeBaseMultiplyAdd: k*G + k*G through the byte-level entry points for every
// k below the bound: BaseMultiply(k) must be k*G and BaseMultiplyAdd(k*G, k) must be
// (2k)*G. Reference multiples are built by repeated addition inside each chunk.
func volumeBaseMultiplyAdd(thorough bool, cc *caseCollector) {
	n := 200000
	if thorough {
		n = 1500000
	}
	if backend != "5x52" {
		n /= 20
	}
	g := refsecp.G()
	g2 := refsecp.Double(g)
	chunk := 2000
	parallel((n+chunk-1)/chunk, func(ci int) {
		k0 := ci*chunk + 1
		pk := refsecp.MulG(big.NewInt(int64(k0)))
		p2k := refsecp.MulG(big.NewInt(int64(2 * k0)))
		for k := k0; k < k0+chunk && k <= n; k++ {
			kb := refsecp.B32(big.NewInt(int64(k)))
			pub := make([]byte, 33)
			out := make([]byte, 33)
			secp256k1.BaseMultiply(kb, pub)
			rp := map[string]interface{}{"k": k}
			if !bytes.Equal(pub, pubBytes(pk, true)) {
				cc.fail("bma-volume", "group/BaseMultiply-wrong-result", fmt.Sprintf("BaseMultiply(%d) = %x, expected %x", k, pub, pubBytes(pk, true)), k, rp)
			} else if ok := secp256k1.BaseMultiplyAdd(pub, kb, out); !ok || !bytes.Equal(out, pubBytes(p2k, true)) {
				cc.fail("bma-volume", "group/BaseMultiplyAdd-wrong-result", fmt.Sprintf("BaseMultiplyAdd(%d*G, %d) = %x (ok=%v), expected (2*%d)*G = %x", k, k, out, ok, k, pubBytes(p2k, true)), k, rp)
			} else {
				cc.ok("bma-volume", "k*G + k*G = 2k*G")
			}
			pk = refsecp.Add(pk, g)
			p2k = refsecp.Add(p2k, g2)
		}
	})
}
