package main

// Volume family added after the independently seeded change C08-b was missed: the
// group law on the SAME point in two different Jacobian representations.
//
// For base points B (G, P, 3G) and every lambda in 2..N the point Q = (X*l^2, Y*l^3,
// Z*l) equals B; B.Add(Q) must be 2B (not infinity), B.Add(-Q) must be infinity, and
// Q.Add(B) likewise. The intermediate products u1,u2,s1,s2 of XYZ.Add come out of
// Field.Mul weakly reduced; roughly one product in 10^5 is not in canonical form, so a
// comparison that forgets to normalise misjudges P+P / P+(-P) only for such values -
// hence the volume. The expected result follows from the construction (checked once per
// base point against the reference); every deviation is confirmed with the reference
// model before it is reported.

import (
	"fmt"
	"math/big"

	"github.com/piotrnar/gocoin/lib/secp256k1"

	"verif/ref/refsecp"
)

func volumeCases(thorough bool, cc *caseCollector) {
	n := 2000000
	if thorough {
		n = 20000000
	}
	type baseT struct {
		name string
		k    *big.Int
	}
	bases := []baseT{{"ECmultGen(k1)", hashScalar("verif C08 volume k1")}, {"ECmultGen(k2)", hashScalar("verif C08 volume k2")}, {"ECmultGen(3)", big.NewInt(3)}}
	for _, b := range bases {
		b := b
		bp := refsecp.MulG(b.k)
		want2 := refsecp.Add(bp, bp)
		// the base point as the generator multiplication leaves it: Jacobian, Z != 1
		var bj secp256k1.XYZ
		secp256k1.ECmultGen(&bj, num(b.k))
		if got, _ := affineOf(&bj); got.Inf || got.X.Cmp(bp.X) != 0 || got.Y.Cmp(bp.Y) != 0 {
			cc.fail("group-volume", "group/ECmultGen-wrong", "ECmultGen disagrees with the reference for "+b.name, 0, map[string]interface{}{"base": b.name})
			continue
		}
		var dbl secp256k1.XYZ
		bj.Double(&dbl)
		chunk := 50000
		parallel((n+chunk-1)/chunk, func(ci int) {
			for l := ci*chunk + 2; l < (ci+1)*chunk+2 && l < n+2; l++ {
				var l2, l3 secp256k1.Field
				lam := fieldFrom(big.NewInt(int64(l)))
				lam.Sqr(&l2)
				l2.Mul(&l3, &lam)
				var q, nq, r1, r2, r3 secp256k1.XYZ
				q = bj
				q.X.Mul(&q.X, &l2)
				q.Y.Mul(&q.Y, &l3)
				q.Z.Mul(&q.Z, &lam)
				q.Neg(&nq)
				bj2 := bj
				bj2.Add(&r1, &q)  // B + Q  = 2B
				q.Add(&r2, &bj2)  // Q + B  = 2B
				bj2.Add(&r3, &nq) // B + (-Q) = infinity
				// cheap screen with the implementation's own comparison; the reference model
				// (math/big) is consulted on a sample and on every anomaly
				bad := ""
				suspicious := r1.Infinity || r2.Infinity || !r3.Infinity || !r1.Equals(&dbl) || !r2.Equals(&dbl) || l%4096 == 2
				if suspicious {
					for i, r := range []*secp256k1.XYZ{&r1, &r2} {
						got, _ := affineOf(r)
						if got.Inf != want2.Inf || (!got.Inf && (got.X.Cmp(want2.X) != 0 || got.Y.Cmp(want2.Y) != 0)) {
							bad = fmt.Sprintf("Add #%d of %s and the same point rescaled by lambda=%d gives %s, the group law gives 2*%s = %s", i, b.name, l, ptStr(got), b.name, ptStr(want2))
						}
					}
					if !r3.Infinity {
						got, _ := affineOf(&r3)
						bad = fmt.Sprintf("%s + (-(%s rescaled by lambda=%d)) gives %s, the group law gives the point at infinity", b.name, b.name, l, ptStr(got))
					}
				}
				if bad != "" {
					cc.fail("group-volume", "group/Add-same-point-different-Z-wrong", bad, l, map[string]interface{}{"base": b.name, "lambda": l})
				} else {
					cc.ok("group-volume", "same-point-different-Z")
				}
			}
		})
	}
}
