package main

import (
	"bytes"
	"crypto/sha256"
	"encoding/binary"
	"fmt"
	"math/big"
	"sort"

	"github.com/piotrnar/gocoin/lib/secp256k1"

	"verif/ref/refsecp"
)

// ---------------------------------------------------------------------------
// Field register machine: three registers of the real secp256k1.Field next to a
// model (value mod p as big.Int, magnitude bound, "known canonical" flag).
//
// Magnitude contract (the one the library's own group code relies on, taken from
// the libsecp256k1 sources this package was ported from):
//   SetB32            -> magnitude 1, canonical iff the 32 bytes are < p
//   Normalize         any magnitude <= 32 -> magnitude 1, canonical
//   Negate(m)         operand magnitude <= m (m <= 31) -> magnitude m+1
//   MulInt(k)         magnitude*k <= 32
//   SetAdd            magnitudes add, sum <= 32
//   Mul, Sqr, Inv, Sqrt   operands magnitude <= 8 -> magnitude 1 (not canonical)
//   InvVar            any magnitude -> magnitude 1, canonical
//   IsZero, IsOdd, Equals, GetB32   canonical operands only
// ---------------------------------------------------------------------------

const (
	maxMag    = 32
	maxMulMag = 8
)

type freg struct {
	f    secp256k1.Field
	v    *big.Int // value mod p (never mutated once stored)
	mag  int
	norm bool
}

type fstate [3]freg

const (
	kLoadB32 = iota
	kLoadRaw
	kNormalize
	kNegate
	kMulInt
	kSetAdd
	kMul
	kSqr
	kInv
	kInvVar
	kSqrt
)

var fkindName = []string{"SetB32", "SetLimbs", "Normalize", "Negate", "MulInt", "SetAdd", "Mul", "Sqr", "Inv", "InvVar", "Sqrt"}

type loadVal struct {
	name  string
	b32   []byte   // kLoadB32
	limbs []uint64 // kLoadRaw
	mag   int
	v     *big.Int
	norm  bool
}

type fop struct {
	kind      int
	dst, a, b int
	k         int
	ld        *loadVal
}

func limbMax(i, mag int) uint64 {
	bits := uint(limbBits)
	if i == nLimbs-1 {
		bits = topBits
	}
	return uint64(magFactor*mag) * ((uint64(1) << bits) - 1)
}

func limbsValue(l []uint64) *big.Int {
	v := new(big.Int)
	for i := len(l) - 1; i >= 0; i-- {
		v.Lsh(v, limbBits)
		v.Add(v, new(big.Int).SetUint64(l[i]))
	}
	return v
}

func hexBig(s string) *big.Int {
	v, ok := new(big.Int).SetString(s, 16)
	if !ok {
		panic(s)
	}
	return v
}

// altLimbs: full limbs at even positions of a bits-wide limb layout, cut to 256 bits
func altLimbs(bits uint) *big.Int {
	v := new(big.Int)
	full := new(big.Int).Sub(new(big.Int).Lsh(big.NewInt(1), bits), big.NewInt(1))
	for i := uint(0); i*bits < 256; i += 2 {
		v.Or(v, new(big.Int).Lsh(full, i*bits))
	}
	return v.And(v, new(big.Int).Sub(new(big.Int).Lsh(big.NewInt(1), 256), big.NewInt(1)))
}

// fieldConstants: the SetB32 alphabet
func fieldConstants() []*loadVal {
	p := refsecp.P
	two256 := new(big.Int).Lsh(big.NewInt(1), 256)
	c := map[string]*big.Int{
		"0": big.NewInt(0), "1": big.NewInt(1), "2": big.NewInt(2),
		"p-1": new(big.Int).Sub(p, big.NewInt(1)), "p": p, "p+1": new(big.Int).Add(p, big.NewInt(1)),
		"2^256-1": new(big.Int).Sub(two256, big.NewInt(1)), "2^255": new(big.Int).Lsh(big.NewInt(1), 255),
		"p-2":             new(big.Int).Sub(p, big.NewInt(2)),
		"2^32+977":        hexBig("1000003D1"), // 2^256 mod p
		"2^32+976":        hexBig("1000003D0"),
		"alt-52bit-limbs": altLimbs(52), // alternating full/empty 52-bit limbs
		"alt-26bit-limbs": altLimbs(26), // alternating full/empty 26-bit limbs
		"Gx":              refsecp.Gx,
		"beta":            hexBig("7AE96A2B657C07106E64479EAC3434E99CF0497512F58995C1396C28719501EE"),
	}
	var names []string
	for k := range c {
		names = append(names, k)
	}
	sort.Strings(names)
	var out []*loadVal
	for _, k := range names {
		v := c[k]
		out = append(out, &loadVal{name: k, b32: refsecp.B32(v), mag: 1, v: refsecp.FMod(v), norm: v.Cmp(p) < 0})
	}
	return out
}

// rawPatterns: limb patterns fed through the overlay-added setter
func rawPatterns() []*loadVal {
	var out []*loadVal
	add := func(name string, mag int, l []uint64) {
		for i := range l {
			if l[i] > limbMax(i, mag) {
				panic("raw pattern exceeds its magnitude: " + name)
			}
		}
		out = append(out, &loadVal{name: name, limbs: l, mag: mag, v: refsecp.FMod(limbsValue(l))})
	}
	for _, m := range []int{1, 2, 8, 16, 32} {
		l := make([]uint64, nLimbs)
		for i := range l {
			l[i] = limbMax(i, m)
		}
		add(fmt.Sprintf("all-limbs-max(mag %d)", m), m, l)
	}
	for _, m := range []int{1, 8, 32} {
		l := make([]uint64, nLimbs)
		l[nLimbs-1] = limbMax(nLimbs-1, m)
		add(fmt.Sprintf("top-limb-max(mag %d)", m), m, l)
		l = make([]uint64, nLimbs)
		l[0] = limbMax(0, m)
		add(fmt.Sprintf("low-limb-max(mag %d)", m), m, l)
	}
	{
		l := make([]uint64, nLimbs)
		for i := range l {
			if i%2 == 0 {
				l[i] = limbMax(i, 8)
			}
		}
		add("alternating-max(mag 8)", 8, l)
	}
	{
		// the limbs of p with a pending carry of one limb unit in limb 0 and limb 1
		l := make([]uint64, nLimbs)
		pv := new(big.Int).Set(refsecp.P)
		mask := new(big.Int).SetUint64((1 << limbBits) - 1)
		for i := range l {
			l[i] = new(big.Int).And(pv, mask).Uint64()
			pv.Rsh(pv, limbBits)
		}
		l[0] += 1 << limbBits
		l[1] += 1 << limbBits
		add("p-limbs-with-pending-carries(mag 3)", 3, l)
	}
	return out
}

type fieldMachine struct {
	ops   []fop
	names []string
	index map[string]int
}

func newFieldMachine() *fieldMachine {
	m := &fieldMachine{index: map[string]int{}}
	add := func(o fop, name string) {
		m.index[name] = len(m.ops)
		m.ops = append(m.ops, o)
		m.names = append(m.names, name)
	}
	for _, c := range fieldConstants() {
		for d := 0; d < 3; d++ {
			add(fop{kind: kLoadB32, dst: d, ld: c}, fmt.Sprintf("r%d.SetB32(%s)", d, c.name))
		}
	}
	for _, c := range rawPatterns() {
		for d := 0; d < 3; d++ {
			add(fop{kind: kLoadRaw, dst: d, ld: c}, fmt.Sprintf("r%d.SetLimbs(%s)", d, c.name))
		}
	}
	for d := 0; d < 3; d++ {
		add(fop{kind: kNormalize, dst: d}, fmt.Sprintf("r%d.Normalize()", d))
	}
	for d := 0; d < 3; d++ {
		for a := 0; a < 3; a++ {
			add(fop{kind: kNegate, dst: d, a: a}, fmt.Sprintf("r%d.Negate(&r%d, mag(r%d))", a, d, a))
		}
	}
	for d := 0; d < 3; d++ {
		for _, k := range []int{2, 3, 7, 8} {
			add(fop{kind: kMulInt, dst: d, k: k}, fmt.Sprintf("r%d.MulInt(%d)", d, k))
		}
	}
	for d := 0; d < 3; d++ {
		for a := 0; a < 3; a++ {
			add(fop{kind: kSetAdd, dst: d, a: a}, fmt.Sprintf("r%d.SetAdd(&r%d)", d, a))
		}
	}
	for d := 0; d < 3; d++ {
		for a := 0; a < 3; a++ {
			for b := 0; b < 3; b++ {
				add(fop{kind: kMul, dst: d, a: a, b: b}, fmt.Sprintf("r%d.Mul(&r%d, &r%d)", a, d, b))
			}
		}
	}
	for _, k := range []int{kSqr, kInv, kInvVar, kSqrt} {
		for d := 0; d < 3; d++ {
			for a := 0; a < 3; a++ {
				add(fop{kind: k, dst: d, a: a}, fmt.Sprintf("r%d.%s(&r%d)", a, fkindName[k], d))
			}
		}
	}
	if len(m.ops) > 255 {
		panic("field alphabet does not fit a byte")
	}
	return m
}

func (m *fieldMachine) init() fstate {
	var s fstate
	z := big.NewInt(0)
	for i := range s {
		s[i].f.SetInt(0)
		s[i].v = z
		s[i].mag = 0
		s[i].norm = true
	}
	return s
}

func (m *fieldMachine) enabled(s *fstate, oi int) bool {
	o := &m.ops[oi]
	switch o.kind {
	case kLoadB32, kLoadRaw, kNormalize, kInvVar:
		return true
	case kNegate:
		return s[o.a].mag <= maxMag-1
	case kMulInt:
		return s[o.dst].mag*o.k <= maxMag
	case kSetAdd:
		return s[o.dst].mag+s[o.a].mag <= maxMag
	case kMul:
		return s[o.a].mag <= maxMulMag && s[o.b].mag <= maxMulMag
	case kSqr, kInv, kSqrt:
		return s[o.a].mag <= maxMulMag
	}
	return false
}

var invMemo, sqrtMemo memo

func b32of(f *secp256k1.Field) []byte {
	var b [32]byte
	f.GetB32(b[:])
	return b[:]
}

func (m *fieldMachine) apply(s *fstate, oi int) (ns fstate, key, what string) {
	o := &m.ops[oi]
	ns = *s
	d := &ns[o.dst]
	switch o.kind {
	case kLoadB32:
		d.f.SetB32(o.ld.b32)
		d.v, d.mag, d.norm = o.ld.v, 1, o.ld.norm
	case kLoadRaw:
		d.f.VerifSetLimbs(o.ld.limbs)
		d.v, d.mag, d.norm = o.ld.v, o.ld.mag, false
	case kNormalize:
		d.f.Normalize()
		d.mag, d.norm = 1, true
	case kNegate:
		mg := ns[o.a].mag
		nv := refsecp.FNeg(ns[o.a].v)
		ns[o.a].f.Negate(&ns[o.dst].f, limbT(mg)) // pointers alias exactly as the op says
		d.v, d.mag, d.norm = nv, mg+1, false
	case kMulInt:
		d.f.MulInt(limbT(o.k))
		d.v, d.mag, d.norm = refsecp.FMul(d.v, big.NewInt(int64(o.k))), d.mag*o.k, false
	case kSetAdd:
		nv := refsecp.FAdd(d.v, ns[o.a].v)
		mg := d.mag + ns[o.a].mag
		ns[o.dst].f.SetAdd(&ns[o.a].f)
		d.v, d.mag, d.norm = nv, mg, false
	case kMul:
		nv := refsecp.FMul(ns[o.a].v, ns[o.b].v)
		ns[o.a].f.Mul(&ns[o.dst].f, &ns[o.b].f) // pointers alias exactly as the op says
		d.v, d.mag, d.norm = nv, 1, false
	case kSqr:
		nv := refsecp.FSqr(ns[o.a].v)
		ns[o.a].f.Sqr(&ns[o.dst].f)
		d.v, d.mag, d.norm = nv, 1, false
	case kInv:
		nv := invMemo.get(ns[o.a].v, refsecp.FInv)
		ns[o.a].f.Inv(&ns[o.dst].f)
		d.v, d.mag, d.norm = nv, 1, false
	case kInvVar:
		nv := invMemo.get(ns[o.a].v, refsecp.FInv)
		ns[o.a].f.InvVar(&ns[o.dst].f)
		d.v, d.mag, d.norm = nv, 1, true
	case kSqrt:
		nv := sqrtMemo.get(ns[o.a].v, refsecp.FSqrtCandidate)
		ns[o.a].f.Sqrt(&ns[o.dst].f)
		d.v, d.mag, d.norm = nv, 1, false
	}
	kn := fkindName[o.kind]
	want := refsecp.B32(d.v)
	// (1) the value: the integer the result limbs represent, reduced mod p, = model value
	if raw := refsecp.FMod(limbsValue(d.f.VerifLimbs())); raw.Cmp(d.v) != 0 {
		return ns, "field/" + kn + "-wrong-value", fmt.Sprintf("%s: result limbs %x represent %x mod p, arithmetic mod p gives %x (operands: %s)", m.names[oi], d.f.VerifLimbs(), refsecp.B32(raw), want, limbsOf(s, o))
	}
	// (1b) Normalize as the observer every caller uses: normalised big-endian bytes = model value
	c := d.f
	c.Normalize()
	if got := b32of(&c); !bytes.Equal(got, want) {
		return ns, "field/Normalize-wrong-value", fmt.Sprintf("after %s: limbs %x (magnitude <= %d, value %x mod p) normalise to %x", m.names[oi], d.f.VerifLimbs(), d.mag, want, got)
	}
	// (2) where the contract promises a canonical representation, the raw limbs are canonical
	if d.norm {
		l := d.f.VerifLimbs()
		canon := true
		for i := range l {
			if l[i] > limbMax(i, 1)/magFactor {
				canon = false
			}
		}
		if got := b32of(&d.f); !canon || !bytes.Equal(got, want) {
			return ns, "field/" + kn + "-not-canonical", fmt.Sprintf("%s: result should be canonical; limbs %v read as %x, value is %x", m.names[oi], l, got, want)
		}
		// observers on canonical registers
		if d.f.IsZero() != (d.v.Sign() == 0) {
			return ns, "field/IsZero-wrong", fmt.Sprintf("after %s: IsZero=%v for value %x", m.names[oi], d.f.IsZero(), want)
		}
		if d.f.IsOdd() != (d.v.Bit(0) == 1) {
			return ns, "field/IsOdd-wrong", fmt.Sprintf("after %s: IsOdd=%v for value %x", m.names[oi], d.f.IsOdd(), want)
		}
		for j := range ns {
			if j != o.dst && ns[j].norm {
				if d.f.Equals(&ns[j].f) != (d.v.Cmp(ns[j].v) == 0) {
					return ns, "field/Equals-wrong", fmt.Sprintf("after %s: Equals(r%d, r%d)=%v, values %x and %x", m.names[oi], o.dst, j, d.f.Equals(&ns[j].f), want, refsecp.B32(ns[j].v))
				}
			}
		}
	}
	// (3) operands that are not the destination are left alone
	for j := range ns {
		if j != o.dst && !ns[j].f.Equals(&s[j].f) {
			return ns, "field/" + kn + "-clobbers-operand", fmt.Sprintf("%s changed register r%d", m.names[oi], j)
		}
	}
	return ns, "", ""
}

func limbsOf(s *fstate, o *fop) string {
	switch o.kind {
	case kMul:
		return fmt.Sprintf("a=%x b=%x", s[o.a].f.VerifLimbs(), s[o.b].f.VerifLimbs())
	case kLoadB32, kLoadRaw:
		return "-"
	case kNormalize, kMulInt:
		return fmt.Sprintf("%x", s[o.dst].f.VerifLimbs())
	case kSetAdd:
		return fmt.Sprintf("dst=%x a=%x", s[o.dst].f.VerifLimbs(), s[o.a].f.VerifLimbs())
	}
	return fmt.Sprintf("%x", s[o.a].f.VerifLimbs())
}

// digest: registers are interchangeable (the alphabet is closed under renaming),
// so the state key is the sorted multiset of per-register digests
func (m *fieldMachine) digest(s *fstate) [16]byte {
	var parts [3][]byte
	for i := range s {
		b := make([]byte, 0, nLimbs*8+3)
		for _, l := range s[i].f.VerifLimbs() {
			b = binary.BigEndian.AppendUint64(b, l)
		}
		b = append(b, byte(s[i].mag))
		if s[i].norm {
			b = append(b, 1)
		} else {
			b = append(b, 0)
		}
		parts[i] = b
	}
	sort.Slice(parts[:], func(i, j int) bool { return bytes.Compare(parts[i], parts[j]) < 0 })
	h := sha256.New()
	for _, p := range parts {
		h.Write(p)
	}
	var out [16]byte
	copy(out[:], h.Sum(nil))
	return out
}

func (m *fieldMachine) explorer() *explorer[fstate] {
	return &explorer[fstate]{name: "field-registers", init: m.init, ops: m.names,
		kind:    func(op int) string { return fkindName[m.ops[op].kind] },
		enabled: m.enabled, apply: m.apply, digest: m.digest}
}

// ---------------------------------------------------------------------------
// operand-pattern family: every binary/unary field op on every (pair of)
// value(s) of a larger pool, including all raw limb patterns - one step, no history
// ---------------------------------------------------------------------------

func fieldPatternFamily(report func(finding)) (evals int, classes map[string]int) {
	m := newFieldMachine()
	classes = map[string]int{}
	var pool []*loadVal
	pool = append(pool, fieldConstants()...)
	pool = append(pool, rawPatterns()...)
	// derived operands: negations and small multiples of every constant (higher magnitudes, real limb shapes)
	load := func(lv *loadVal) freg {
		var r freg
		if lv.b32 != nil {
			r.f.SetB32(lv.b32)
		} else {
			r.f.VerifSetLimbs(lv.limbs)
		}
		r.v, r.mag, r.norm = lv.v, lv.mag, lv.norm
		return r
	}
	type operand struct {
		name string
		r    freg
	}
	var opnds []operand
	for _, lv := range pool {
		r := load(lv)
		opnds = append(opnds, operand{lv.name, r})
		if r.mag <= 7 {
			n := r
			r.f.Negate(&n.f, limbT(r.mag))
			n.v, n.mag, n.norm = refsecp.FNeg(r.v), r.mag+1, false
			opnds = append(opnds, operand{"-(" + lv.name + ")", n})
		}
		if r.mag*4 <= 8 {
			n := r
			n.f.MulInt(4)
			n.v, n.mag, n.norm = refsecp.FMul(r.v, big.NewInt(4)), r.mag*4, false
			opnds = append(opnds, operand{"4*(" + lv.name + ")", n})
		}
	}
	seen := map[string]bool{}
	fail := func(kind, what string, names ...string) {
		k := "field/" + kind + "-wrong-value"
		if !seen[k] {
			seen[k] = true
			report(finding{Key: k, What: "operand-pattern family: " + what, Replay: map[string]interface{}{"backend": backend, "machine": "field-patterns", "op": kind, "operands": names}})
		}
	}
	chk := func(kind string, f *secp256k1.Field, want *big.Int, names ...string) bool {
		evals++
		if raw := refsecp.FMod(limbsValue(f.VerifLimbs())); raw.Cmp(want) != 0 {
			classes[kind+"|mismatch"]++
			fail(kind, fmt.Sprintf("%s(%v): result limbs %x represent %x mod p, arithmetic mod p gives %x", kind, names, f.VerifLimbs(), refsecp.B32(raw), refsecp.B32(want)), names...)
			return false
		}
		c := *f
		c.Normalize()
		if got := b32of(&c); !bytes.Equal(got, refsecp.B32(want)) {
			classes[kind+"|result does not normalise"]++
			fail("Normalize", fmt.Sprintf("result of %s(%v): limbs %x (value %x mod p) normalise to %x", kind, names, f.VerifLimbs(), refsecp.B32(want), got), names...)
			return false
		}
		classes[kind+"|ok"]++
		return true
	}
	// operands the observer cannot read correctly are reported once and not used further
	{
		var good []operand
		for _, a := range opnds {
			f := a.r.f
			if chk("operand", &f, a.r.v, a.name) {
				good = append(good, a)
			}
		}
		opnds = good
	}
	_ = m
	for i := range opnds {
		a := opnds[i]
		{
			c := a.r.f
			c.Normalize()
			chk("Normalize", &c, a.r.v, a.name)
			var iv secp256k1.Field
			a.r.f.InvVar(&iv)
			chk("InvVar", &iv, invMemo.get(a.r.v, refsecp.FInv), a.name)
		}
		if a.r.mag > maxMulMag {
			continue
		}
		var r secp256k1.Field
		a.r.f.Sqr(&r)
		chk("Sqr", &r, refsecp.FSqr(a.r.v), a.name)
		a.r.f.Inv(&r)
		chk("Inv", &r, invMemo.get(a.r.v, refsecp.FInv), a.name)
		a.r.f.Sqrt(&r)
		chk("Sqrt", &r, sqrtMemo.get(a.r.v, refsecp.FSqrtCandidate), a.name)
		for j := range opnds {
			b := opnds[j]
			if b.r.mag > maxMulMag {
				continue
			}
			a.r.f.Mul(&r, &b.r.f)
			chk("Mul", &r, refsecp.FMul(a.r.v, b.r.v), a.name, b.name)
			if a.r.mag+b.r.mag <= maxMag {
				s := a.r.f
				s.SetAdd(&b.r.f)
				chk("SetAdd", &s, refsecp.FAdd(a.r.v, b.r.v), a.name, b.name)
				if a.r.mag+b.r.mag <= maxMulMag {
					// sum of two operands squared: lazily reduced input to Sqr
					s.Sqr(&r)
					chk("Sqr", &r, refsecp.FSqr(refsecp.FAdd(a.r.v, b.r.v)), "("+a.name+")+("+b.name+")")
				}
			}
		}
	}
	return
}
