package main

import (
	"math/big"
	"sync"
)

// memo caches an expensive pure model function by argument value
type memo struct {
	mu sync.Mutex
	m  map[string]*big.Int
}

func (c *memo) get(v *big.Int, f func(*big.Int) *big.Int) *big.Int {
	k := string(v.Bytes())
	c.mu.Lock()
	if r, ok := c.m[k]; ok {
		c.mu.Unlock()
		return r
	}
	c.mu.Unlock()
	r := f(v)
	c.mu.Lock()
	if c.m == nil {
		c.m = map[string]*big.Int{}
	}
	if len(c.m) < 1<<20 {
		c.m[k] = r
	}
	c.mu.Unlock()
	return r
}
