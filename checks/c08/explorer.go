package main

import (
	"bytes"
	"runtime"
	"sort"
	"sync"
	"time"
)

// Explicit-state breadth-first exploration of a small machine whose states are
// plain values (they can be copied, unlike the chain-backed objects of other
// checks). A state is remembered by a 128-bit digest of the implementation's raw
// representation plus the model's bookkeeping, and by the lexicographically
// smallest shortest history (op indices) that reaches it; states are rebuilt by
// replaying that history. Every enabled operation is executed from every
// distinct state up to the depth bound, and the result is compared with the
// model after every operation.

type finding struct {
	Key    string      `json:"key"`
	What   string      `json:"what"`
	Replay interface{} `json:"replay"`
}

type machineStats struct {
	Machine     string         `json:"machine"`
	Depth       int            `json:"depth"`
	States      int            `json:"states"`           // distinct states expanded (depth < bound) incl. the initial one
	Transitions int            `json:"transitions"`      // operations executed and compared with the model
	LevelStates []int          `json:"states_per_level"` // new distinct states per depth
	PerOp       map[string]int `json:"transitions_per_op_kind"`
	Alphabet    int            `json:"alphabet"`
	Disabled    int            `json:"disabled_by_contract"` // (state, op) pairs not executed because the magnitude contract forbids them
	Capped      bool           `json:"capped"`
	Samples     [][]string     `json:"samples"`
}

type explorer[S any] struct {
	name    string
	init    func() S
	ops     []string // names
	kind    func(op int) string
	enabled func(s *S, op int) bool
	apply   func(s *S, op int) (ns S, key, what string) // executes on a copy, compares with the model
	digest  func(s *S) [16]byte
}

type cand struct {
	h    [16]byte
	hist []byte
}

func (e *explorer[S]) names(hist []byte) []string {
	var l []string
	for _, o := range hist {
		l = append(l, e.ops[o])
	}
	return l
}

// rebuild replays a history from the initial state (results were already
// compared with the model when the history was first executed).
func (e *explorer[S]) rebuild(hist []byte) S {
	s := e.init()
	for _, o := range hist {
		s, _, _ = e.apply(&s, int(o))
	}
	return s
}

func (e *explorer[S]) run(depth int, deadline time.Time, report func(finding)) machineStats {
	st := machineStats{Machine: e.name, Depth: depth, PerOp: map[string]int{}, Alphabet: len(e.ops)}
	s0 := e.init()
	seen := map[[16]byte]struct{}{e.digest(&s0): {}}
	level := [][]byte{{}}
	st.States = 1
	st.LevelStates = []int{1}
	type viol struct {
		key, what string
		hist      []byte
	}
	var mu sync.Mutex
	viols := map[string]viol{}
	for d := 0; d < depth && len(level) > 0; d++ {
		last := d+1 == depth
		nw := runtime.NumCPU()
		var wg sync.WaitGroup
		candsPer := make([][]cand, nw)
		transPer := make([]map[string]int, nw)
		disPer := make([]int, nw)
		var next int64
		var nmu sync.Mutex
		capped := false
		for w := 0; w < nw; w++ {
			wg.Add(1)
			go func(w int) {
				defer wg.Done()
				tp := map[string]int{}
				transPer[w] = tp
				for {
					nmu.Lock()
					i := int(next)
					next++
					nmu.Unlock()
					if i >= len(level) {
						return
					}
					if i%64 == 0 && time.Now().After(deadline) {
						nmu.Lock()
						capped = true
						next = int64(len(level))
						nmu.Unlock()
						return
					}
					hist := level[i]
					s := e.rebuild(hist)
					for op := range e.ops {
						if !e.enabled(&s, op) {
							disPer[w]++
							continue
						}
						ns, key, what := e.apply(&s, op)
						tp[e.kind(op)]++
						if key != "" {
							h2 := append(append([]byte(nil), hist...), byte(op))
							mu.Lock()
							if v, ok := viols[key]; !ok || len(h2) < len(v.hist) || (len(h2) == len(v.hist) && bytes.Compare(h2, v.hist) < 0) {
								viols[key] = viol{key, what, h2}
							}
							mu.Unlock()
							continue // a state reached through a wrong result is not expanded
						}
						if !last {
							h2 := append(append(make([]byte, 0, len(hist)+1), hist...), byte(op))
							candsPer[w] = append(candsPer[w], cand{e.digest(&ns), h2})
						}
					}
				}
			}(w)
		}
		wg.Wait()
		for w := 0; w < nw; w++ {
			for k, v := range transPer[w] {
				st.PerOp[k] += v
				st.Transitions += v
			}
			st.Disabled += disPer[w]
		}
		if capped {
			st.Capped = true
			break
		}
		if last {
			break
		}
		var all []cand
		for _, c := range candsPer {
			all = append(all, c...)
		}
		sort.Slice(all, func(i, j int) bool {
			if c := bytes.Compare(all[i].h[:], all[j].h[:]); c != 0 {
				return c < 0
			}
			return bytes.Compare(all[i].hist, all[j].hist) < 0
		})
		var nextLevel [][]byte
		for i, c := range all {
			if i > 0 && all[i-1].h == c.h {
				continue
			}
			if _, ok := seen[c.h]; ok {
				continue
			}
			seen[c.h] = struct{}{}
			nextLevel = append(nextLevel, c.hist)
		}
		sort.Slice(nextLevel, func(i, j int) bool { return bytes.Compare(nextLevel[i], nextLevel[j]) < 0 })
		st.States += len(nextLevel)
		st.LevelStates = append(st.LevelStates, len(nextLevel))
		if len(st.Samples) < 3 && len(nextLevel) > 0 {
			st.Samples = append(st.Samples, e.names(nextLevel[len(nextLevel)/2]))
		}
		level = nextLevel
	}
	var keys []string
	for k := range viols {
		keys = append(keys, k)
	}
	sort.Strings(keys)
	for _, k := range keys {
		v := viols[k]
		// re-execute the recorded history once more before it is believed
		s := e.init()
		again := ""
		for i, o := range v.hist {
			var key string
			s, key, _ = e.apply(&s, int(o))
			if i == len(v.hist)-1 {
				again = key
			}
		}
		what := v.what
		if again != k {
			what = "NOT REPRODUCED on re-execution: " + what
			k = "unreproducible:" + k
		}
		report(finding{Key: k, What: what, Replay: map[string]interface{}{"backend": backend, "machine": e.name, "history": e.names(v.hist)}})
	}
	return st
}
