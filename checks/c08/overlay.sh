#!/bin/bash
# usage: overlay.sh <builddir> <overlay.json> <repo>
# Adds virtual, `verif`-tagged files to <repo>/lib/secp256k1 (nothing is written
# under <repo>): accessors for the unexported tables / constants / helpers and raw
# limb get/set for Field. Entries are MERGED into the existing "Replace" map.
set -eu
bd="$1"; ov="$2"; repo="$3"
cat > "$bd/verif_export.go" <<'GO'
//go:build verif

package secp256k1

// Accessors used only by /verif/checks/c08 (injected with go build -overlay).

func VerifPreG() []XY         { return pre_g }
func VerifPreG128() []XY      { return pre_g_128 }
func VerifPrec() *[64][16]XY  { return &prec }
func VerifFin() *XY           { return &fin }
func VerifBeta() Field        { return TheCurve.beta }
func VerifConsts() (p, lambda, a1b2, b1, a2 *Number) {
	return &TheCurve.p, &TheCurve.lambda, &TheCurve.a1b2, &TheCurve.b1, &TheCurve.a2
}
func (a *XYZ) VerifGetX(r *Field)       { a.get_x(r) }
func (a *XYZ) VerifMulLambda(r *XYZ)    { a.mul_lambda(r) }
func (a *Number) VerifSplitExp(r1, r2 *Number)        { a.split_exp(r1, r2) }
func (a *Number) VerifSplit(rl, rh *Number, bits uint) { a.split(rl, rh, bits) }
func (a *Number) VerifIsBelow(b *Number) bool { return a.is_below(b) }
func (a *Number) VerifIsZero() bool            { return a.is_zero() }
func (a *Number) VerifIsOdd() bool             { return a.is_odd() }
func VerifWnaf(a *Number, w uint) []int {
	var buf [300]int
	n := ecmult_wnaf(buf[:], a, w)
	return append([]int(nil), buf[:n]...)
}
func (f *Field) VerifLimbs() []uint64 {
	out := make([]uint64, len(f.n))
	for i := range f.n {
		out[i] = uint64(f.n[i])
	}
	return out
}
GO
cat > "$bd/verif_export_64.go" <<'GO'
//go:build verif && (amd64 || arm64 || arm64be || ppc64 || ppc64le || mips64 || mips64le || s390x || sparc64)

package secp256k1

func (f *Field) VerifSetLimbs(l []uint64) {
	for i := range f.n {
		f.n[i] = l[i]
	}
}
GO
cat > "$bd/verif_export_32.go" <<'GO'
//go:build verif && !(amd64 || arm64 || arm64be || ppc64 || ppc64le || mips64 || mips64le || s390x || sparc64)

package secp256k1

func (f *Field) VerifSetLimbs(l []uint64) {
	for i := range f.n {
		f.n[i] = uint32(l[i])
	}
}
GO
python3 - "$bd" "$ov" "$repo" <<'PY'
import json, sys
bd, ov, repo = sys.argv[1:4]
try:
    d = json.load(open(ov))
except Exception:
    d = {}
d.setdefault("Replace", {})
for f in ("verif_export.go", "verif_export_64.go", "verif_export_32.go"):
    d["Replace"]["%s/lib/secp256k1/%s" % (repo, f)] = "%s/%s" % (bd, f)
json.dump(d, open(ov, "w"), indent=1)
PY
