// C08: secp256k1 field and group arithmetic equals the mathematical definition;
// the embedded precomputed tables contain exactly the multiples of G they stand for.
//
// Level model_checking: the core of the check is explicit-state exploration of two
// small machines built from the REAL types - three secp256k1.Field registers and
// two secp256k1.XYZ registers - where every operation sequence up to a depth
// bound that respects the magnitude contract is executed (states deduplicated by
// the raw limb representation) and compared with a math/big model after every
// step. Around it: exhaustive operand-pattern products, boundary-scalar products
// for the multiplication entry points, and an exhaustive comparison of all 9217
// table entries. Both field back ends are run: the native one in-process, the
// 10x26 one by building this same program with GOARCH=386 and executing it.
package main

import (
	"bytes"
	"encoding/json"
	"flag"
	"fmt"
	"math/big"
	"os"
	"os/exec"
	"path/filepath"
	"sort"
	"strconv"
	"strings"
	"time"

	"github.com/piotrnar/gocoin/lib/secp256k1"

	"verif/internal/ev"
	"verif/ref/refsecp"
)

type backendResult struct {
	Backend    string             `json:"backend"`
	FieldArch  string             `json:"field_arch_reported_by_library"`
	Machines   []machineStats     `json:"machines"`
	Evals      map[string]int     `json:"evaluations_per_family"`
	Classes    map[string]int     `json:"outcome_classes"`
	Findings   []finding          `json:"findings"`
	RefAsserts int                `json:"reference_selfcheck_assertions"`
	Capped     bool               `json:"capped"`
	WallS      float64            `json:"wall_s"`
	PhaseS     map[string]float64 `json:"phase_wall_s"`
}

func runBackend(thorough bool, budget time.Duration, only string) *backendResult {
	t0 := time.Now()
	deadline := t0.Add(budget)
	res := &backendResult{Backend: backend, FieldArch: secp256k1.FieldArch, Evals: map[string]int{}, Classes: map[string]int{}, PhaseS: map[string]float64{}}
	if secp256k1.FieldArch != backend {
		ev.HarnessError("build selected field backend %s, harness constants are for %s", secp256k1.FieldArch, backend)
	}
	n, err := refsecp.SelfCheck()
	if err != nil {
		ev.HarnessError("reference model fails its self-check: %v", err)
	}
	res.RefAsserts = n
	report := func(f finding) { res.Findings = append(res.Findings, f) }
	phase := func(name string, f func()) {
		if only != "" && !strings.Contains(name, only) {
			return
		}
		t := time.Now()
		f()
		res.PhaseS[name] = float64(int(time.Since(t).Seconds()*100)) / 100
		fmt.Fprintf(os.Stderr, "[%s] %s done in %.1fs\n", backend, name, time.Since(t).Seconds())
	}
	cc := newCaseCollector()
	var patternFindings []finding
	fd, gd := fieldDepthQuick, 4
	if thorough {
		fd, gd = fieldDepthThorough, 5
	}
	// the state machines first: they are the only budgeted phases
	phase("field-machine", func() {
		st := newFieldMachine().explorer().run(fd, deadline, report)
		res.Machines = append(res.Machines, st)
		res.Capped = res.Capped || st.Capped
	})
	phase("group-machine", func() {
		st := newGroupMachine().explorer().run(gd, deadline, report)
		res.Machines = append(res.Machines, st)
		res.Capped = res.Capped || st.Capped
	})
	phase("tables", func() { tableChecks(cc) })
	phase("group-cases", func() { groupCases(thorough, cc) })
	phase("repeat", func() { repeatCases(cc) })
	phase("dest", func() { destCases(cc) })
	phase("predicates", func() { predicateCases(cc) })
	phase("ladder", func() { ladderCases(thorough, cc) })
	phase("field-patterns", func() {
		ev, cl := fieldPatternFamily(func(f finding) { patternFindings = append(patternFindings, f) })
		res.Evals["field-patterns"] = ev
		for k, v := range cl {
			res.Classes["field-patterns|"+k] = v
		}
	})
	// fixed-size volume families (deterministic sizes per tier and back end, no wall-clock cap)
	phase("bma-volume", func() { volumeBaseMultiplyAdd(thorough, cc) })
	phase("addxy-volume", func() { volumeAddXY(thorough, cc) })
	phase("group-volume", func() { volumeCases(thorough, cc) })
	// a machine history (exactly replayable) is preferred over the one-step family for the same key
	res.Findings = append(res.Findings, patternFindings...)
	for k, v := range cc.evals {
		res.Evals[k] = v
	}
	for k, v := range cc.classes {
		res.Classes[k] = v
	}
	var keys []string
	for k := range cc.found {
		keys = append(keys, k)
	}
	sort.Strings(keys)
	for _, k := range keys {
		res.Findings = append(res.Findings, cc.found[k])
	}
	res.WallS = float64(int(time.Since(t0).Seconds()*100)) / 100
	return res
}

var (
	workerFlag = flag.Bool("backend-worker", false, "internal: run this build's backend and print the result as JSON")
	budgetFlag = flag.Float64("budget-s", 0, "internal: wall budget of the backend worker")
	replayFile = flag.String("replay", "", "replay one recorded violation")
	onlyFlag   = flag.String("only", os.Getenv("C08_ONLY"), "debug: run only phases whose name contains this")
	replayJSON = flag.String("replay-json", "", "internal: replay record passed to a backend worker")
)

// build386 builds this same program for GOARCH=386 with the module file and the
// overlay that run.sh generated for the native build.
func build386() (string, error) {
	bd := filepath.Join(ev.OutDir(), ".build", "c08")
	out := filepath.Join(ev.OutDir(), "bin", "c08_386")
	for _, f := range []string{"go.mod", "overlay.json"} {
		if _, err := os.Stat(filepath.Join(bd, f)); err != nil {
			return "", fmt.Errorf("%s missing in %s (not started through run.sh?)", f, bd)
		}
	}
	cmd := exec.Command("go", "build", "-modfile="+filepath.Join(bd, "go.mod"), "-tags", "verif", "-overlay", filepath.Join(bd, "overlay.json"), "-o", out, "./checks/c08")
	cmd.Dir = ev.Root
	cmd.Env = append(os.Environ(), "GOARCH=386", "GOOS=linux", "CGO_ENABLED=0", "GOFLAGS=-mod=mod", "GOPROXY=off", "GOSUMDB=off", "GOTOOLCHAIN=local")
	var eb bytes.Buffer
	cmd.Stderr = &eb
	cmd.Stdout = &eb
	if err := cmd.Run(); err != nil {
		return "", fmt.Errorf("go build GOARCH=386: %v: %s", err, eb.String())
	}
	return out, nil
}

func runWorker386(bin string, tier string, budget time.Duration, only string) (*backendResult, error) {
	args := []string{"--backend-worker", "--tier", tier, "--budget-s", fmt.Sprint(budget.Seconds())}
	if only != "" {
		args = append(args, "--only", only)
	}
	cmd := exec.Command(bin, args...)
	var ob bytes.Buffer
	cmd.Stdout = &ob
	cmd.Stderr = os.Stderr
	if err := cmd.Run(); err != nil {
		return nil, fmt.Errorf("386 worker: %v", err)
	}
	var r backendResult
	if err := json.Unmarshal(ob.Bytes(), &r); err != nil {
		return nil, fmt.Errorf("386 worker output: %v", err)
	}
	return &r, nil
}

func main() {
	for _, a := range os.Args[1:] {
		if strings.HasPrefix(a, "--racepass=") {
			n, _ := strconv.Atoi(strings.TrimPrefix(a, "--racepass="))
			racePassMain(n) // binary built with -race: free-running concurrent pass
			return
		}
	}
	r := ev.Start("C08", "model_checking")
	if dn, err := os.OpenFile("/dev/null", os.O_WRONLY, 0); err == nil {
		os.Stdout = dn
	}
	if *replayFile != "" || *replayJSON != "" {
		replay()
		return
	}
	budget := 100 * time.Second
	if r.Thorough() {
		budget = 16 * time.Minute
	}
	if *workerFlag {
		if *budgetFlag > 0 {
			budget = time.Duration(*budgetFlag * float64(time.Second))
		}
		res := runBackend(r.Thorough(), budget, *onlyFlag)
		b, _ := json.Marshal(res)
		ev.Out.Write(b)
		os.Exit(0)
	}

	// the 10x26 backend runs concurrently in a child process built for GOARCH=386
	type w386 struct {
		res *backendResult
		err error
	}
	ch := make(chan w386, 1)
	skip386 := os.Getenv("C08_SKIP_386") != ""
	go func() {
		if skip386 {
			ch <- w386{nil, fmt.Errorf("skipped by C08_SKIP_386")}
			return
		}
		bin, err := build386()
		if err != nil {
			ch <- w386{nil, err}
			return
		}
		res, err := runWorker386(bin, r.Tier, budget, *onlyFlag)
		ch <- w386{res, err}
	}()
	native := runBackend(r.Thorough(), budget, *onlyFlag)
	other := <-ch
	results := []*backendResult{native}
	var assumptions []string
	backends := []string{native.Backend}
	if other.err != nil {
		fmt.Fprintf(os.Stderr, "10x26 backend not run: %v\n", other.err)
		if os.Getenv("C08_REQUIRE_386") != "" {
			ev.HarnessError("10x26 backend required but not run: %v", other.err)
		}
		assumptions = append(assumptions, "the 10x26 (32-bit) field backend was NOT exercised in this run: "+other.err.Error())
	} else {
		results = append(results, other.res)
		backends = append(backends, other.res.Backend)
	}

	states, trans := 0, 0
	evals := 0
	classes := 0
	perBackend := map[string]interface{}{}
	var samples []interface{}
	capped := false
	for _, br := range results {
		for _, m := range br.Machines {
			states += m.States
			trans += m.Transitions
			for _, s := range m.Samples {
				samples = append(samples, map[string]interface{}{"backend": br.Backend, "machine": m.Machine, "history": s})
			}
		}
		for _, v := range br.Evals {
			evals += v
		}
		classes += len(br.Classes)
		capped = capped || br.Capped
		fs := br.Findings
		br.Findings = nil
		perBackend[br.Backend] = br
		for _, f := range fs {
			key := br.Backend + ":" + f.Key
			if strings.HasPrefix(f.Key, "unreproducible:") {
				r.Unrepro = append(r.Unrepro, key+" :: "+f.What)
				continue
			}
			r.Report(key, "["+br.Backend+" backend] "+f.What, f.Replay)
		}
	}
	tr := time.Now()
	raceInfo := runRacePass(r)
	raceInfo["wall_s"] = float64(int(time.Since(tr).Seconds()*10)) / 10
	fmt.Fprintf(os.Stderr, "race pass done: %v\n", raceInfo)
	if capped {
		r.Budget = time.Nanosecond
		r.OverBudget()
	}
	r.Finish(map[string]interface{}{
		"states":                        states,
		"transitions":                   trans,
		"traces_validated_against_impl": trans,
		"samples":                       samples,
		"evaluations":                   evals,
		"distinct_nontrivial":           classes,
		"rule":                          "machines: every operation enabled by the magnitude contract is executed from every distinct state (raw limbs + magnitude bookkeeping, registers unordered) up to the depth bound and compared with the math/big model; a trace is one executed operation appended to the shortest history of its source state. families: a class is (family, outcome); table families cover every entry of pre_g, pre_g_128, prec and fin, raw and through the multiplication that uses exactly that entry",
		"backends":                      backends,
		"concurrent_race_pass":          raceInfo,
		"per_backend":                   perBackend,
	}, append([]string{
		"oracle: refsecp (math/big, affine chord-and-tangent, double-and-add); its constants and group law are self-checked in every run (assertion count in per_backend.*.reference_selfcheck_assertions)",
		"magnitude contract as documented in checks/c08/field.go (libsecp256k1's: Mul/Sqr/Inv/Sqrt operands <= 8, everything <= 32, Negate(m) needs magnitude <= m); the 10x26 back end uses the older limb bound m*(2^26-1), the 5x52 one 2*m*(2^52-1)",
		"Sqrt of a non-residue and Inv of 0 are compared with a^((p+1)/4) and a^(p-2) (the values the formulas define); decompression of an x without square root is only required not to yield a point that IsValid() accepts",
		"byte-returning entry points (BaseMultiply, Multiply, BaseMultiplyAdd) are not judged when the mathematical result is the identity: the API has no encoding for it",
		"unexported tables/helpers are reached through a verif-tagged overlay file (checks/c08/overlay.sh); no file under the repository is modified",
		"bounded: depth bound per machine and finite alphabets; not a proof over all operation sequences or all field elements",
	}, assumptions...))
}

// ---------------------------------------------------------------------------

func replay() {
	var raw []byte
	if *replayJSON != "" {
		raw = []byte(*replayJSON)
	} else {
		b, err := os.ReadFile(*replayFile)
		if err != nil {
			ev.HarnessError("%v", err)
		}
		var rec struct {
			Replay json.RawMessage `json:"replay"`
		}
		if err := json.Unmarshal(b, &rec); err != nil {
			ev.HarnessError("%v", err)
		}
		raw = rec.Replay
	}
	var rp struct {
		Backend string   `json:"backend"`
		Machine string   `json:"machine"`
		History []string `json:"history"`
		Family  string   `json:"family"`
		Table   string   `json:"table"`
		Op      string   `json:"op"`
	}
	if err := json.Unmarshal(raw, &rp); err != nil {
		ev.HarnessError("%v", err)
	}
	if rp.Backend != backend {
		// hand over to the other build
		bin, err := build386()
		if err != nil || backend != "5x52" {
			ev.HarnessError("replay needs the %s backend: %v", rp.Backend, err)
		}
		cmd := exec.Command(bin, "--replay-json", string(raw))
		cmd.Stdout = ev.Out
		cmd.Stderr = os.Stderr
		if err := cmd.Run(); err != nil {
			if ee, ok := err.(*exec.ExitError); ok {
				os.Exit(ee.ExitCode())
			}
			ev.HarnessError("%v", err)
		}
		os.Exit(0)
	}
	var found []finding
	report := func(f finding) { found = append(found, f) }
	runHist := func(names []string, apply func(i int) string, index map[string]int) {
		for i, n := range rp.History {
			oi, ok := index[n]
			if !ok {
				ev.HarnessError("unknown operation %q in history", n)
			}
			res := apply(oi)
			fmt.Fprintf(ev.Out, "  step %d: %s -> %s\n", i+1, n, res)
		}
	}
	if rp.Family == "racepass" {
		r := ev.Start("C08", "model_checking")
		info := runRacePass(r)
		fmt.Fprintf(ev.Out, "replay: free-running race-detector pass: %v, findings: %d\n", info, r.Violations())
		if r.Violations() > 0 {
			os.Exit(1)
		}
		os.Exit(0)
	}
	switch rp.Machine {
	case "field-registers":
		m := newFieldMachine()
		s := m.init()
		failed := false
		runHist(m.names, func(oi int) string {
			if !m.enabled(&s, oi) {
				return "NOT ENABLED under the magnitude contract"
			}
			ns, key, what := m.apply(&s, oi)
			s = ns
			if key != "" {
				failed = true
				return key + ": " + what
			}
			d := s[m.ops[oi].dst]
			return fmt.Sprintf("ok, value %x magnitude<=%d limbs %x", refsecp.B32(d.v), d.mag, d.f.VerifLimbs())
		}, m.index)
		if failed {
			os.Exit(1)
		}
		fmt.Fprintln(ev.Out, "replay: history passes")
		os.Exit(0)
	case "group-registers":
		m := newGroupMachine()
		idx := map[string]int{}
		for i, n := range m.names {
			idx[n] = i
		}
		s := m.init()
		failed := false
		runHist(m.names, func(oi int) string {
			ns, key, what := m.apply(&s, oi)
			s = ns
			if key != "" {
				failed = true
				return key + ": " + what
			}
			if k := m.ops[oi].kind; k >= gXLoad && k <= gXNeg {
				return "ok, xy = " + ptStr(s.xm)
			}
			return "ok, " + ptStr(s.r[m.ops[oi].dst].m)
		}, idx)
		if failed {
			os.Exit(1)
		}
		fmt.Fprintln(ev.Out, "replay: history passes")
		os.Exit(0)
	case "field-patterns":
		fieldPatternFamily(report)
	default:
		// families: re-run the (small, deterministic) family the case belongs to
		cc := newCaseCollector()
		switch {
		case rp.Table != "" || strings.HasPrefix(rp.Family, "table"):
			tableChecks(cc)
		case rp.Family == "ladder":
			ladderCases(false, cc)
		case rp.Family == "repeat":
			repeatCases(cc)
		case rp.Family == "dest":
			destCases(cc)
		case rp.Family == "predicates":
			predicateCases(cc)
		case rp.Family == "addxy-volume":
			volumeAddXY(false, cc)
		case rp.Family == "bma-volume":
			volumeBaseMultiplyAdd(false, cc)
		case rp.Family == "group-volume":
			volumeCases(false, cc)
		default:
			groupCases(true, cc)
		}
		for _, f := range cc.found {
			found = append(found, f)
		}
	}
	sort.Slice(found, func(i, j int) bool { return found[i].Key < found[j].Key })
	for _, f := range found {
		fmt.Fprintf(ev.Out, "replay: %s: %s\n", f.Key, f.What)
	}
	if len(found) > 0 {
		os.Exit(1)
	}
	fmt.Fprintln(ev.Out, "replay: family passes")
	os.Exit(0)
}

var _ = big.NewInt

const (
	fieldDepthQuick    = 4
	fieldDepthThorough = 5
)
