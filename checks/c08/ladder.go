package main

// "Ladder collision" family, added after the independently seeded change C03-c was
// missed: k*P + l*G for SMALL scalars and points P = d*G with small d, so that the
// interleaved wNAF accumulator of ECmult meets its own table entries: the running sum
// equals the entry about to be added (doubling inside Add/AddXY), is its negative
// (cancellation to the identity), or the two halves (na*P and ng*G) land on the same
// multiples of G. Every (d, na, ng) of the ranges below is executed; the expected
// result is (na*d + ng)*G, read from a table of small multiples built by repeated
// reference additions. Shifted variants put the same collisions at the window and
// 128-bit split boundaries (scalars k*2^j), and scalars n-k make the partial sums
// cancel exactly.

import (
	"fmt"
	"math/big"

	"github.com/piotrnar/gocoin/lib/secp256k1"

	"verif/ref/refsecp"
)

// smallMultiples returns T[k] = k*B for k = 0..max by repeated addition
func smallMultiples(b refsecp.Point, max int) []refsecp.Point {
	t := make([]refsecp.Point, max+1)
	t[0] = refsecp.Infinity()
	for k := 1; k <= max; k++ {
		t[k] = refsecp.Add(t[k-1], b)
	}
	return t
}

type ladderCase struct {
	d      int      // P = d*G
	jac    bool     // P handed over in Jacobian form with Z != 1
	na, ng *big.Int // scalars
	want   refsecp.Point
	note   string
}

func ladderCases(thorough bool, cc *caseCollector) {
	small := backend != "5x52" // the 32-bit worker shares the cores: smaller ranges there
	dMax, naMax, ngMax := 16, 31, 255
	if thorough {
		dMax, naMax = 32, 63
	}
	if small {
		dMax = 4
		if thorough {
			dMax = 8
		}
	}
	g := refsecp.G()
	t0 := smallMultiples(g, dMax*naMax+ngMax+64)
	n := refsecp.N
	var cases []ladderCase
	bi := func(v int) *big.Int { return big.NewInt(int64(v)) }
	// Set A: all small (d, na, ng)
	for d := 1; d <= dMax; d++ {
		for na := 0; na <= naMax; na++ {
			for ng := 0; ng <= ngMax; ng++ {
				cases = append(cases, ladderCase{d: d, na: bi(na), ng: bi(ng), want: t0[na*d+ng]})
				if d <= 4 && na <= 15 && ng <= 63 {
					cases = append(cases, ladderCase{d: d, jac: true, na: bi(na), ng: bi(ng), want: t0[na*d+ng]})
				}
			}
		}
	}
	// Set B: the same collisions shifted to window / split boundaries
	sd, sna, sng := 8, 15, 31
	if small {
		sd = 2
	}
	for _, j := range []uint{1, 4, 5, 13, 14, 127, 128, 129} {
		bj := refsecp.Mul(new(big.Int).Lsh(big.NewInt(1), j), g)
		tj := smallMultiples(bj, sd*sna+sng+1)
		for d := 1; d <= sd; d++ {
			for na := 0; na <= sna; na++ {
				for ng := 0; ng <= sng; ng++ {
					cases = append(cases, ladderCase{d: d, na: new(big.Int).Lsh(bi(na), j), ng: new(big.Int).Lsh(bi(ng), j), want: tj[na*d+ng],
						note: fmt.Sprintf("both scalars shifted by 2^%d", j)})
				}
			}
		}
		// ng = 2^j +- k next to a small na
		for d := 1; d <= 4; d++ {
			for na := 0; na <= 7; na++ {
				for k := 0; k <= 15; k++ {
					p2 := new(big.Int).Lsh(big.NewInt(1), j)
					cases = append(cases, ladderCase{d: d, na: bi(na), ng: new(big.Int).Add(p2, bi(k)), want: refsecp.Add(tj[1], t0[na*d+k]), note: fmt.Sprintf("ng = 2^%d + %d", j, k)})
					if p2.Cmp(bi(k)) > 0 {
						cases = append(cases, ladderCase{d: d, na: bi(na), ng: new(big.Int).Sub(p2, bi(k)), want: refsecp.Add(refsecp.Add(tj[1], refsecp.Neg(t0[k])), t0[na*d]), note: fmt.Sprintf("ng = 2^%d - %d", j, k)})
					}
				}
			}
		}
	}
	// Sets C, D: scalars n-k (= -k): partial sums cancel, exactly to the identity when a*d = k
	cd := 8
	if small {
		cd = 2
	}
	for d := 1; d <= cd; d++ {
		for a := 0; a <= 31; a++ {
			for k := 0; k <= 63; k++ {
				cases = append(cases, ladderCase{d: d, na: bi(a), ng: new(big.Int).Sub(n, bi(k)), want: refsecp.Add(t0[a*d], refsecp.Neg(t0[k])), note: fmt.Sprintf("ng = n - %d", k)})
				cases = append(cases, ladderCase{d: d, na: new(big.Int).Sub(n, bi(a)), ng: bi(k), want: refsecp.Add(refsecp.Neg(t0[a*d]), t0[k]), note: fmt.Sprintf("na = n - %d", a)})
			}
		}
	}
	// operand points
	type pnt struct{ aff, jac secp256k1.XYZ }
	pts := make([]pnt, dMax+1)
	for d := 1; d <= dMax; d++ {
		xy := xyFrom(t0[d])
		pts[d].aff.SetXY(&xy)
		secp256k1.ECmultGen(&pts[d].jac, num(bi(d)))
	}
	parallel(len(cases), func(i int) {
		c := &cases[i]
		a := pts[c.d].aff
		form := "Z=1"
		if c.jac {
			a = pts[c.d].jac
			form = "Jacobian as ECmultGen leaves it"
		}
		var r secp256k1.XYZ
		pan := catchPanic(func() { a.ECmult(&r, num(c.na), num(c.ng)) })
		desc := fmt.Sprintf("XYZ.ECmult(a=%d*G (%s), na=%s, ng=%s) %s", c.d, form, c.na.Text(16), c.ng.Text(16), c.note)
		rp := map[string]interface{}{"call": "ECmult", "d": c.d, "jacobian": c.jac, "na": c.na.Text(16), "ng": c.ng.Text(16)}
		if pan != "" {
			cc.fail("ladder", "group/ECmult-panic", desc+" panics: "+pan, i, rp)
			return
		}
		got, bad := affineOf(&r)
		if bad != "" || !refsecp.Equal(got, c.want) {
			cc.fail("ladder", "group/ECmult-small-scalar-wrong", fmt.Sprintf("%s = %s%s, the group law gives %s", desc, ptStr(got), bad, ptStr(c.want)), i, rp)
			return
		}
		if c.want.Inf {
			cc.ok("ladder", "identity (exact cancellation)")
		} else {
			cc.ok("ladder", "finite")
		}
	})
}
