package main

// "Arguments are not modified / calls are repeatable" family, added after the
// independently seeded change C08-d was missed. Every exported arithmetic entry
// point that takes pointer or slice arguments is called TWICE with the very same
// argument objects; all inputs are snapshotted deeply before the first call (big.Int
// words, field limbs, bytes) and compared after each call, and both results are
// compared with the reference. A callee that keeps a reference into a caller's
// object, or trims / normalises it destructively, shows up either as a changed
// argument or as a second result that differs from the first.
//
// Points handed over in Jacobian form may legitimately be re-scaled or normalised
// in place, so for XY / XYZ arguments the DENOTED point is compared, not the limbs;
// scalars (Number) and byte slices must be bit-identical.

import (
	"bytes"
	"fmt"
	"math/big"

	"github.com/piotrnar/gocoin/lib/secp256k1"

	"verif/ref/refsecp"
)

type numSnap struct {
	words []big.Word
	sign  int
	val   *big.Int
}

func snapNum(n *secp256k1.Number) numSnap {
	return numSnap{words: append([]big.Word(nil), n.Int.Bits()...), sign: n.Int.Sign(), val: new(big.Int).Set(&n.Int)}
}

func (s numSnap) same(n *secp256k1.Number) bool {
	if n.Int.Sign() != s.sign || n.Int.Cmp(s.val) != 0 {
		return false
	}
	w := n.Int.Bits()
	if len(w) != len(s.words) {
		return false
	}
	for i := range w {
		if w[i] != s.words[i] {
			return false
		}
	}
	return true
}

func repeatScalars() (names []string, vals []*big.Int) {
	one := big.NewInt(1)
	p2 := func(k uint) *big.Int { return new(big.Int).Lsh(one, k) }
	add := func(name string, v *big.Int) { names = append(names, name); vals = append(vals, v) }
	add("0", big.NewInt(0))
	add("1", one)
	add("2^127", p2(127))
	add("2^128-1", new(big.Int).Sub(p2(128), one))
	add("2^128", p2(128))
	add("2^128+1", new(big.Int).Add(p2(128), one))
	add("n-1", new(big.Int).Sub(refsecp.N, one))
	add("n", refsecp.N)
	add("2^256-1", new(big.Int).Sub(p2(256), one))
	add("h1", hashScalar("verif C08 repeat 1"))
	add("h2", new(big.Int).Or(hashScalar("verif C08 repeat 2"), p2(255)))
	add("2^64+1", new(big.Int).Add(p2(64), one))
	return
}

func repeatCases(cc *caseCollector) {
	names, vals := repeatScalars()
	g := refsecp.G()
	P := refsecp.MulG(hashScalar("verif C08 point P"))
	idx := 0
	fail := func(op, kind, what string, rp map[string]interface{}) {
		idx++
		rp["call"] = op
		cc.fail("repeat", "repeat/"+op+"-"+kind, what, idx, rp)
	}
	ptEq := func(j *secp256k1.XYZ, want refsecp.Point) bool {
		got, bad := affineOf(j)
		return bad == "" && refsecp.Equal(got, want)
	}
	mulG := map[string]refsecp.Point{}
	mulP := map[string]refsecp.Point{}
	for i, nm := range names {
		mulG[nm] = refsecp.MulG(vals[i])
		mulP[nm] = refsecp.Mul(vals[i], P)
	}

	// ---- ECmult: the scalars and the point survive, the second call gives the same point ----
	for pi, pt := range []refsecp.Point{g, P} {
		pname := []string{"G", "P"}[pi]
		for ai, an := range names {
			for bi, bn := range names {
				na, ng := num(vals[ai]), num(vals[bi])
				sa, sb := snapNum(na), snapNum(ng)
				var a secp256k1.XYZ
				xy := xyFrom(pt)
				a.SetXY(&xy)
				want := refsecp.Add(map[bool]refsecp.Point{true: mulG[an], false: mulP[an]}[pi == 0], mulG[bn])
				rp := map[string]interface{}{"point": pname, "na": vals[ai].Text(16), "ng": vals[bi].Text(16)}
				desc := fmt.Sprintf("%s.ECmult(&r, na=%s, ng=%s)", pname, an, bn)
				okAll := true
				for call := 1; call <= 2; call++ {
					var r secp256k1.XYZ
					if pan := catchPanic(func() { a.ECmult(&r, na, ng) }); pan != "" {
						fail("ECmult", "panic", fmt.Sprintf("%s call #%d panics: %s", desc, call, pan), rp)
						okAll = false
						break
					}
					if !sa.same(na) || !sb.same(ng) {
						fail("ECmult", "modifies-argument", fmt.Sprintf("%s changed a scalar argument: na now %s (was %s), ng now %s (was %s)", desc, na.Text(16), sa.val.Text(16), ng.Text(16), sb.val.Text(16)), rp)
						okAll = false
						break
					}
					if !ptEq(&a, pt) {
						fail("ECmult", "modifies-argument", desc+" changed the point it was called on", rp)
						okAll = false
						break
					}
					if !ptEq(&r, want) {
						got, _ := affineOf(&r)
						kind := "wrong-result"
						if call == 2 {
							kind = "second-call-differs"
						}
						fail("ECmult", kind, fmt.Sprintf("%s call #%d with the same argument objects = %s, the group law gives %s", desc, call, ptStr(got), ptStr(want)), rp)
						okAll = false
						break
					}
				}
				if okAll {
					cc.ok("repeat", "ECmult twice, arguments intact")
				}
			}
		}
	}

	// ---- ECmultGen, split, split_exp, wnaf ----
	for i, nm := range names {
		k := num(vals[i])
		sk := snapNum(k)
		rp := map[string]interface{}{"k": vals[i].Text(16)}
		ok := true
		for call := 1; call <= 2 && ok; call++ {
			var r secp256k1.XYZ
			secp256k1.ECmultGen(&r, k)
			if !sk.same(k) {
				fail("ECmultGen", "modifies-argument", fmt.Sprintf("ECmultGen(&r, %s) changed its scalar to %s", nm, k.Text(16)), rp)
				ok = false
			} else if !ptEq(&r, mulG[nm]) {
				fail("ECmultGen", map[int]string{1: "wrong-result", 2: "second-call-differs"}[call], fmt.Sprintf("ECmultGen(%s) call #%d wrong", nm, call), rp)
				ok = false
			}
		}
		var first [4]*big.Int
		for call := 1; call <= 2 && ok; call++ {
			var rl, rh, r1, r2 secp256k1.Number
			k.VerifSplit(&rl, &rh, 128)
			if !sk.same(k) {
				fail("split", "modifies-argument", fmt.Sprintf("Number.split(%s, 128) changed its receiver to %s", nm, k.Text(16)), rp)
				ok = false
				break
			}
			k.VerifSplitExp(&r1, &r2)
			if !sk.same(k) {
				fail("split_exp", "modifies-argument", fmt.Sprintf("Number.split_exp(%s) changed its receiver to %s", nm, k.Text(16)), rp)
				ok = false
				break
			}
			// results must be independent objects: overwriting them must not reach the argument
			res := [4]*big.Int{new(big.Int).Set(&rl.Int), new(big.Int).Set(&rh.Int), new(big.Int).Set(&r1.Int), new(big.Int).Set(&r2.Int)}
			for _, o := range []*secp256k1.Number{&rl, &rh, &r1, &r2} {
				w := o.Int.Bits()
				for j := range w {
					w[j] = ^w[j]
				}
			}
			if !sk.same(k) {
				fail("split", "result-aliases-argument", fmt.Sprintf("a result of Number.split/split_exp(%s) shares its words with the argument (overwriting the result changed the argument)", nm), rp)
				ok = false
				break
			}
			secp256k1.VerifWnaf(k, 5)
			if !sk.same(k) {
				fail("ecmult_wnaf", "modifies-argument", fmt.Sprintf("ecmult_wnaf(%s) changed its argument", nm), rp)
				ok = false
				break
			}
			if call == 1 {
				first = res
			} else {
				for j := range res {
					if res[j].Cmp(first[j]) != 0 {
						fail("split", "second-call-differs", fmt.Sprintf("split/split_exp(%s): second call with the same object gives a different decomposition", nm), rp)
						ok = false
					}
				}
			}
		}
		if ok {
			cc.ok("repeat", "ECmultGen/split/split_exp/wnaf twice, argument intact")
		}
	}

	// ---- one tweak Number applied to several keys (XY.ECPublicTweakAdd) ----
	keys := []refsecp.Point{g, P, refsecp.Double(P)}
	for i, nm := range names {
		if vals[i].Cmp(refsecp.N) >= 0 {
			continue
		}
		t := num(vals[i])
		st := snapNum(t)
		ok := true
		for ki, kp := range keys {
			xy := xyFrom(kp)
			want := refsecp.Add(kp, mulG[nm])
			res := xy.ECPublicTweakAdd(t)
			rp := map[string]interface{}{"tweak": vals[i].Text(16), "key": ki}
			if !st.same(t) {
				fail("ECPublicTweakAdd", "modifies-argument", fmt.Sprintf("XY.ECPublicTweakAdd(tweak=%s) changed the tweak to %s (key #%d)", nm, t.Text(16), ki), rp)
				ok = false
				break
			}
			if res == want.Inf {
				fail("ECPublicTweakAdd", "wrong-result", fmt.Sprintf("ECPublicTweakAdd(%s) on key #%d returned %v", nm, ki, res), rp)
				ok = false
				break
			}
			if res {
				got := refsecp.Point{X: fieldBig(&xy.X), Y: fieldBig(&xy.Y)}
				if !refsecp.Equal(got, want) {
					kind := "wrong-result"
					if ki > 0 {
						kind = "second-call-differs"
					}
					fail("ECPublicTweakAdd", kind, fmt.Sprintf("the same tweak object %s applied to key #%d gives %s, expected key + tweak*G = %s", nm, ki, ptStr(got), ptStr(want)), rp)
					ok = false
					break
				}
			}
		}
		if ok {
			cc.ok("repeat", "one tweak object on three keys")
		}
	}

	// ---- byte-slice entry points: inputs intact, second call equal ----
	for i, nm := range names {
		if vals[i].BitLen() > 256 {
			continue
		}
		kb := refsecp.B32(vals[i])
		k0 := append([]byte(nil), kb...)
		for _, q := range []refsecp.Point{g, P} {
			for _, compressed := range []bool{true, false} {
				in := pubBytes(q, compressed)
				in0 := append([]byte(nil), in...)
				var outs [2][3][]byte
				for call := 0; call < 2; call++ {
					o1, o2, o3 := make([]byte, 33), make([]byte, 33), make([]byte, 33)
					secp256k1.BaseMultiply(kb, o1)
					secp256k1.Multiply(in, kb, o2)
					secp256k1.BaseMultiplyAdd(in, kb, o3)
					outs[call] = [3][]byte{o1, o2, o3}
				}
				rp := map[string]interface{}{"k": vals[i].Text(16), "point": fmt.Sprintf("%x", in0)}
				if !bytes.Equal(kb, k0) || !bytes.Equal(in, in0) {
					fail("BaseMultiply/Multiply/BaseMultiplyAdd", "modifies-argument", fmt.Sprintf("an input slice was changed (k=%s)", nm), rp)
				} else if !bytes.Equal(outs[0][0], outs[1][0]) || !bytes.Equal(outs[0][1], outs[1][1]) || !bytes.Equal(outs[0][2], outs[1][2]) {
					fail("BaseMultiply/Multiply/BaseMultiplyAdd", "second-call-differs", fmt.Sprintf("second call with the same slices gives other bytes (k=%s)", nm), rp)
				} else {
					cc.ok("repeat", "byte-slice multiplication entry points twice")
				}
				// parsing and decompression leave their input alone
				var xy secp256k1.XY
				okp := xy.ParsePubkey(in)
				y := make([]byte, 32)
				secp256k1.DecompressPoint(in[1:33], q.Y.Bit(0) == 1, y)
				if !okp || !bytes.Equal(in, in0) || !bytes.Equal(y, refsecp.B32(q.Y)) {
					fail("ParsePubkey/DecompressPoint", "modifies-argument", "ParsePubkey/DecompressPoint changed its input or failed on a valid key", rp)
				} else {
					cc.ok("repeat", "ParsePubkey/DecompressPoint input intact")
				}
			}
		}
	}
}
