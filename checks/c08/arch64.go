//go:build amd64 || arm64 || arm64be || ppc64 || ppc64le || mips64 || mips64le || s390x || sparc64

package main

// 5x52 backend: a magnitude-m element has limbs <= 2*m*(2^52-1), top limb <= 2*m*(2^48-1)
type limbT = uint64

const (
	backend   = "5x52"
	nLimbs    = 5
	limbBits  = 52
	topBits   = 48
	magFactor = 2
)
