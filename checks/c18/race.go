package main

// Free-running pass under the Go race detector (run.sh builds this same program a
// second time with -race because of the RACE marker file: bin/c18-race).
//
// The exploration delivers messages one at a time while nothing else runs, so it cannot
// see state that a handler shares with the node's OTHER threads. Here each scenario
// runs the real Run() loop on well-formed messages (goroutine of the connection, plus
// its writing thread) while a second goroutine plays the node's main thread / UI and
// calls, a fixed number of times, the routines that touch the same per-connection or
// package state: NetRouteInvExt (every accepted tx / block is announced to all open
// connections), txpool.HandleNetTx + txPoolCB, GetStats, GetSortedConnections,
// GetMoreHeaders, BlocksToGetCnt. Oracle: the race detector prints no report with a
// gocoin frame and the process does not die of a fatal runtime error. Fixed iteration
// counts per tier, no wall-clock oracle.

import (
	"fmt"
	"os"
	"os/exec"
	"regexp"
	"runtime"
	"sort"
	"strings"
	"sync/atomic"

	"github.com/piotrnar/gocoin/client/network"
	"github.com/piotrnar/gocoin/client/txpool"
	"github.com/piotrnar/gocoin/lib/btc"

	"verif/internal/ev"
	"verif/ref/reftx"
)

type sideRun struct {
	stop atomic.Bool
	done chan int
}

// startSide launches the "other thread" of a scenario. spec = name:iterations.
func (r *connRun) startSide(spec string) {
	name, iters := spec, 0
	if i := strings.Index(spec, ":"); i > 0 {
		name = spec[:i]
		fmt.Sscan(spec[i+1:], &iters)
	}
	s := &sideRun{done: make(chan int, 1)}
	r.side = s
	c := r.c
	hash := func(j int) *btc.Uint256 {
		var h [32]byte
		h[0], h[5], h[6], h[7], h[31] = 0x5d, byte(j), byte(j>>8), byte(j>>16), 0xe1
		return btc.NewUint256(h[:])
	}
	go func() {
		n := 0
		defer func() { s.done <- n }()
		switch name {
		case "route": // main thread announcing what other peers delivered
			// at least iters calls, and on until the connection's goroutine has handled
			// all its messages (the denser the calls, the more of the handler's
			// unlocked windows are hit)
			for j := 0; j < iters || !s.stop.Load(); j++ {
				typ := network.MSG_TX
				if j%8 == 7 {
					typ = network.MSG_BLOCK
				}
				network.NetRouteInvExt(typ, hash(j), nil, 100000)
				if j%16 == 0 {
					var ci network.ConnInfo
					c.GetStats(&ci)
				}
				n++
			}
		case "mainthread-tx": // the only reader of NetTxs
			for !s.stop.Load() || len(network.NetTxs) > 0 {
				select {
				case ntx := <-network.NetTxs:
					txpool.HandleNetTx(ntx)
					n++
				default:
					runtime.Gosched()
				}
			}
		case "mainthread-blk":
			for j := 0; j < iters || !s.stop.Load(); j++ {
				select {
				case <-network.NetBlocks:
				default:
				}
				network.BlocksToGetCnt()
				network.GetMoreHeaders()
				network.Mutex_net.Lock()
				network.GetSortedConnections()
				network.Mutex_net.Unlock()
				var ci network.ConnInfo
				c.GetStats(&ci)
				n++
			}
			for len(network.NetBlocks) > 0 {
				<-network.NetBlocks
			}
		default:
			ev.HarnessError("unknown side routine %q", name)
		}
	}()
}

func (r *connRun) joinSide() int {
	if r.side == nil {
		return 0
	}
	r.side.stop.Store(true)
	n := <-r.side.done
	r.side = nil
	return n
}

// ---------------------------------------------------------------------------
// scenarios (child side)

func (g *caseGen) raceScenarios(scale int) []*Case {
	ready := g.ctx["ready"]
	var out []*Case
	add := func(name, side string, msgs []Event) {
		c := &Case{ID: len(out), Kind: "net", Family: "race/" + name, Tmpl: "race", Ctx: ready.name}
		c.Events = append(append([]Event{}, ready.prefix...), Event{T: "side", Cmd: side})
		c.Target = len(c.Events)
		c.Events = append(c.Events, msgs...)
		c.Events = append(c.Events, Event{T: "join"})
		out = append(out, c)
	}
	nmsg := 40 * scale
	// 1. inv (tx and block entries) against route announcements
	var evs []Event
	for m := 0; m < nmsg; m++ {
		var ents [][]byte
		for k := 0; k < 300; k++ {
			h := [32]byte{0xa1, byte(m), byte(m >> 8), byte(k), byte(k >> 8), 0x77}
			typ := uint32(1)
			if k%50 == 49 {
				typ = 2
			}
			ents = append(ents, invEntry(typ, h))
		}
		evs = append(evs, mev("inv", inv(ents...)))
	}
	add("inv-vs-NetRouteInv", fmt.Sprint("route:", 3000*scale), evs)
	// 2. tx messages against the main thread's HandleNetTx / txPoolCB
	evs = nil
	for m := 0; m < nmsg*4; m++ {
		t := &reftx.Tx{Version: 2, In: []reftx.In{{Prev: [32]byte{0xc7, byte(m), byte(m >> 8), 0x5e}, Vout: uint32(m % 3), Sequence: 0xffffffff}},
			Out: []reftx.Out{{Value: 1000 + uint64(m), Script: []byte{0x51}}}}
		evs = append(evs, mev("tx", t.Serialize(true)))
		if m%8 == 0 {
			evs = append(evs, msg(g.t("inv")), msg(g.t("getdata")))
		}
	}
	fund := g.w.fund.TxID()
	for k := 0; k+1 < coinsPerKind*nKinds; k += 2 {
		s := newSpend(fund, []coin{g.w.coins[k], g.w.coins[k+1]})
		evs = append(evs, mev("tx", s.build([]string{"valid", "valid"})), msg(g.t("ping")))
	}
	add("tx-vs-HandleNetTx", "mainthread-tx", evs)
	// 3. requests that make the node send, against announcements (SendInvs, send buffer)
	evs = nil
	for m := 0; m < nmsg; m++ {
		for _, n := range []string{"getdata", "getheaders", "getblocks", "getblocktxn", "ping", "feefilter", "sendcmpct-v1", "sendcmpct", "sendheaders", "addr", "getaddr", "notfound"} {
			if (n == "addr" && m > 8) || (n == "getaddr" && m > 0) {
				continue // each costs misbehaviour points: stay below the ban
			}
			evs = append(evs, msg(g.t(n)))
		}
	}
	add("requests-vs-NetRouteInv", fmt.Sprint("route:", 3000*scale), evs)
	// 4. headers / blocks / compact blocks against the main thread's bookkeeping walks
	evs = nil
	for m := 0; m < nmsg; m++ {
		for _, n := range []string{"headers", "headers-0", "inv-1", "cmpctblock-missing", "blocktxn", "block", "cmpctblock-full", "block-known", "cmpctblock-wit", "getheaders", "pong"} {
			if n == "blocktxn" && m > 0 {
				continue // only the first one answers a request; later ones cost misbehaviour points
			}
			evs = append(evs, msg(g.t(n)))
		}
	}
	add("blocks-vs-mainthread", fmt.Sprint("mainthread-blk:", 1500*scale), evs)
	return out
}

func racePassMain(tier string) {
	scale := 1
	if tier == "thorough" {
		scale = 6
	}
	top := os.Getenv("C18_RACE_DIR") // owned and removed by the parent (also when this process dies)
	if top == "" {
		top = ev.Scratch("c18race")
	}
	defer os.RemoveAll(top)
	os.MkdirAll(top+"/cwd", 0o755)
	os.Chdir(top + "/cwd")
	w := buildWorld(top+"/prefix", true)
	otherKey := make([]byte, 32)
	for i := range otherKey {
		otherKey[i] = byte(0x33 + 3*i)
	}
	g := &caseGen{w: w, byN: map[string]*tmpl{}, subst: subst8}
	g.ts = w.templates(xauthPayload(w, friendKey), xauthPayload(w, otherKey))
	for _, t := range g.ts {
		g.byN[t.name] = t
	}
	g.contexts()
	n := setupEnv(top+"/prefix", top+"/w")
	raceMode = true
	fullWatchdog = 0
	watchdog = 10 * 60 * 1e9 // the detector slows everything down; hangs are not this pass's business
	ops := 0
	for _, cs := range g.raceScenarios(scale) {
		res := runNet(n, cs)
		if res.Viol != nil {
			fmt.Fprintf(ev.Out, "racepass-viol %s\t%s\t%s\n", cs.Family, res.Viol.Key, strings.ReplaceAll(res.Viol.What, "\n", " | "))
			if res.Fatal {
				break
			}
			continue
		}
		fmt.Fprintf(ev.Out, "racepass-scenario %s messages=%d side-calls=%d outcome=%s\n", cs.Family, res.Handled, res.SideCalls, strings.SplitN(res.Outcome, "[", 2)[0])
		ops += res.Handled + res.SideCalls
	}
	fmt.Fprintf(ev.Out, "racepass-done %d\n", ops)
	os.RemoveAll(top)
	os.Exit(0)
}

// ---------------------------------------------------------------------------
// parent side

var (
	reRaceFrame = regexp.MustCompile(`(?m)^  (github\.com/piotrnar/gocoin/\S+?)\(\)\n\s+(\S+):(\d+)`)
)

func runRacePass(r *ev.Run) map[string]interface{} {
	info := map[string]interface{}{}
	bin := ev.OutDir() + "/bin/c18-race"
	if _, err := os.Stat(bin); err != nil {
		ev.HarnessError("race-detector build %s missing (checks/c18/RACE makes run.sh build it)", bin)
	}
	rdir := ev.Scratch("c18race")
	defer os.RemoveAll(rdir)
	cmd := exec.Command(bin, "--racepass="+r.Tier)
	cmd.Env = append(os.Environ(), "GOMAXPROCS=4", "GORACE=halt_on_error=0 exitcode=0", "C18_RACE_DIR="+rdir)
	var werr strings.Builder
	cmd.Stderr = &werr
	out, err := cmd.Output()
	se := werr.String()
	reports := strings.Split(se, "WARNING: DATA RACE")[1:]
	nrep, keys := 0, map[string]bool{}
	outside := map[string]bool{}
	for _, rep := range reports {
		if i := strings.Index(rep, "=================="); i > 0 {
			rep = rep[:i]
		}
		nrep++
		// keyed by the WRITING access (a report pairs one write with any of its
		// readers/writers; the same unprotected write shows up with different partners):
		// first gocoin frame of that access that is not one of the check's accessor files
		acc := rep
		if i := strings.Index(rep, "Goroutine "); i > 0 {
			acc = rep[:i]
		}
		if j := strings.Index(acc, "Previous "); j > 0 {
			first, second := acc[:j], acc[j:]
			if !strings.Contains(strings.SplitN(strings.TrimSpace(first), "\n", 2)[0], "rite at") && strings.HasPrefix(second, "Previous write") {
				acc = second
			} else {
				acc = first
			}
		}
		fn, loc := "", ""
		for _, m := range reRaceFrame.FindAllStringSubmatch(acc, -1) {
			if strings.Contains(m[2], "zz_verif_c18") || strings.Contains(m[2], "c18ov") {
				continue
			}
			fn, loc = short(m[1]), baseFile(m[2])+":"+m[3]
			if sl := lineSlug(loc, m[2]); sl != "" {
				fn += "{" + sl + "}"
			}
			break
		}
		if fn == "" {
			ev.HarnessError("race report without a gocoin frame (harness race): %s", shortStr(rep, 1200))
		}
		k := "data-race/" + fn
		// C18 speaks about handlers that panic, keep a lock or spin - not about data-race freedom as such.
		// A race is a verdict only where it can take the node down by itself: both sides inside a Go map
		// (the runtime aborts with "concurrent map read and map write" / "concurrent map writes") or one
		// side growing a slice that the other side indexes. A race on a plain word (e.g. the feefilter
		// handler's c.X.MinFeeSPKB, unchanged tree) is recorded in the evidence and not reported.
		crashCapable := strings.Contains(rep, "runtime.mapa") || strings.Contains(rep, "runtime.mapdelete") || strings.Contains(rep, "runtime.mapiter") || strings.Contains(rep, "runtime.growslice")
		if !crashCapable {
			if !outside[k] {
				outside[k] = true
				fmt.Fprintln(os.Stderr, "NOTE data race outside C18's statement (no crash by itself):", k, loc)
			}
			continue
		}
		if !keys[k] {
			keys[k] = true
			r.Report(k, "Go race detector, free-running pass (a message handler on the connection's goroutine against the node's main-thread routines): unsynchronised access at "+fn+" ("+loc+"): "+shortStr(rep, 1800),
				map[string]interface{}{"api": "racepass", "report": shortStr(rep, 6000)})
		}
	}
	so := string(out)
	for _, line := range strings.Split(so, "\n") {
		if strings.HasPrefix(line, "racepass-viol ") {
			f := strings.SplitN(strings.TrimPrefix(line, "racepass-viol "), "\t", 3)
			if len(f) == 3 {
				r.Report("free-running/"+f[1], f[2]+" [scenario "+f[0]+"]", map[string]interface{}{"api": "racepass", "scenario": f[0]})
				keys["free-running/"+f[1]] = true
			}
		}
	}
	if err != nil || !strings.Contains(so, "racepass-done") {
		if strings.Contains(se, gocoinPfx) && (strings.Contains(se, "fatal error") || strings.Contains(se, "panic:")) {
			if len(keys) == 0 {
				m := reFatal.FindStringIndex(se)
				st := se
				if m != nil {
					st = se[m[0]:]
				}
				fn, loc, _ := site(st, false)
				r.Report("free-running-crash/"+fn, "the free-running pass died inside gocoin at "+fn+" ("+loc+"): "+shortStr(st, 1500), map[string]interface{}{"api": "racepass"})
			}
			info["child_died"] = true
		} else if len(keys) == 0 {
			ev.HarnessError("race pass failed: %v stdout=%s stderr=%s", err, shortStr(so, 400), shortStr(se, 1200))
		}
	}
	var sc []string
	for _, line := range strings.Split(so, "\n") {
		if strings.HasPrefix(line, "racepass-scenario ") {
			sc = append(sc, strings.TrimPrefix(line, "racepass-scenario "))
		}
	}
	var ops int
	if i := strings.Index(so, "racepass-done"); i >= 0 {
		fmt.Sscanf(so[i:], "racepass-done %d", &ops)
	}
	info["scenarios"] = sc
	info["operations"] = ops
	info["race_reports"] = nrep
	var ol []string
	for k := range outside {
		ol = append(ol, k)
	}
	sort.Strings(ol)
	info["data_races_outside_the_statement"] = ol
	return info
}

func shortStr(s string, n int) string {
	s = strings.ReplaceAll(s, "\n", " | ")
	if len(s) > n {
		return s[:n] + "…"
	}
	return s
}
