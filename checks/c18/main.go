// C18: bytes from untrusted peers never crash or wedge the node.
//
// Exhaustive enumeration of constructed message families (per command: a valid
// template, every truncation, every length 0..24, every count field replaced by
// boundary / wrap-around values, every single-byte substitution from an 8-value
// alphabet; before and after the handshake and in richer connection states; in the
// thorough tier all ordered pairs of a reduced message alphabet), each member
// delivered to the REAL network.OneConnection.Run() loop through an in-memory
// net.Conn, plus the same families on the library parsers. The oracle runs after
// every message: no panic reached Run's catch-all recover() (log hook on the report
// it prints) and none escaped, Run is back in Conn.Read (or ended with its tear-down
// done), every mutex of network/common/txpool/peersdb/chain can be taken, the
// worker process is alive (ulimit -v), nothing exceeded the 60 s watchdog.
//
// Everything runs in child processes of this binary (--worker) because a leaked
// mutex, a fatal out-of-memory or a stray goroutine poisons the whole process; the
// parent classifies worker deaths and attributes them to the in-flight case.
package main

import (
	"bufio"
	"bytes"
	"encoding/hex"
	"encoding/json"
	"flag"
	"fmt"
	"math/big"
	"os"
	"os/exec"
	"regexp"
	"runtime"
	"sort"
	"strings"
	"sync"
	"sync/atomic"
	"syscall"
	"time"

	"github.com/piotrnar/gocoin/lib/btc"

	"verif/internal/ev"
)

// suspect watchdogs of the exploration pass (see fullWatchdog)
const (
	suspectNetMs = 4000
	suspectLibMs = 1500
)

var replayFile = flag.String("replay", "", "replay one recorded case (no explorer)")

// ---------------------------------------------------------------------------
// worker process handle (parent side)

type proc struct {
	id      int
	cmd     *exec.Cmd
	toW     *os.File
	fromW   *bufio.Reader
	fromWf  *os.File
	errPath string
	errOff  int64
	scratch string
	prefix  string
	starts  int
}

func (p *proc) start() {
	cr, cw, _ := os.Pipe()
	rr, rw, _ := os.Pipe()
	p.starts++
	os.RemoveAll(p.scratch)
	os.MkdirAll(p.scratch, 0o755)
	ef, err := os.OpenFile(p.errPath, os.O_CREATE|os.O_WRONLY|os.O_TRUNC, 0o644)
	if err != nil {
		ev.HarnessError("worker stderr file: %v", err)
	}
	p.errOff = 0
	cmd := exec.Command("sh", "-c", `ulimit -v 6000000; exec "$0" --worker "$1" "$2"`, os.Args[0], p.prefix, p.scratch)
	cmd.ExtraFiles = []*os.File{cr, rw}
	cmd.Stderr = ef
	cmd.Stdout = nil
	cmd.Env = append(os.Environ(), "GOTRACEBACK=all", "GOMAXPROCS=4")
	if err := cmd.Start(); err != nil {
		ev.HarnessError("starting worker: %v", err)
	}
	cr.Close()
	rw.Close()
	ef.Close()
	p.cmd, p.toW, p.fromWf, p.fromW = cmd, cw, rr, bufio.NewReaderSize(rr, 1<<20)
}

func (p *proc) stop(kill bool) (exit string) {
	if p.cmd == nil {
		return ""
	}
	p.toW.Close()
	if kill {
		p.cmd.Process.Kill()
	}
	err := p.cmd.Wait()
	if os.Getenv("C18_TRACE") != "" {
		b, _ := os.ReadFile(p.errPath)
		os.Stderr.Write(b)
	}
	p.fromWf.Close()
	p.cmd = nil
	if err != nil {
		return err.Error()
	}
	return ""
}

func (p *proc) stderrTail() string {
	b, _ := os.ReadFile(p.errPath)
	if int64(len(b)) > p.errOff {
		b = b[p.errOff:]
	} else {
		b = nil
	}
	return string(b)
}

func (p *proc) markErr() {
	if st, err := os.Stat(p.errPath); err == nil {
		p.errOff = st.Size()
	}
}

var (
	reFP    = regexp.MustCompile(` fp=0x[0-9a-f]+ sp=0x[0-9a-f]+ pc=0x[0-9a-f]+`)
	reFatal = regexp.MustCompile(`(?m)^(fatal error: .*|runtime: out of memory.*|panic: .*)$`)
)

// classifyDeath turns the stderr of a dead worker into a violation.
func classifyDeath(cs *Case, tail, exit string, timedOut bool) *Violation {
	where := "net"
	if cs.Kind == "lib" {
		where = "lib/" + cs.Lib.Fn
	}
	m := reFatal.FindStringIndex(tail)
	stack := tail
	if m != nil {
		stack = tail[m[0]:]
	}
	if len(stack) > 60000 {
		stack = stack[:60000]
	}
	// the first goroutine block after the message is the faulting one; when the
	// runtime died on its system stack take the first block that shows gocoin code
	first := ""
	for _, blk := range strings.Split(stack, "\n\n") {
		if !strings.HasPrefix(blk, "goroutine ") {
			if i := strings.Index(blk, "\ngoroutine "); i >= 0 {
				blk = blk[i+1:]
			} else {
				continue
			}
		}
		if first == "" {
			first = blk
		}
		if strings.Contains(blk, gocoinPfx) {
			first = blk
			break
		}
	}
	stack = reFP.ReplaceAllString(first, "")
	fn, loc, h := site(first, false)
	if cs.Kind == "lib" {
		h = ""
	} else {
		if h == "Run" {
			h = targetCmd(cs)
		}
		h = "/" + h
	}
	switch {
	case strings.Contains(tail, "out of memory") || strings.Contains(tail, "cannot allocate memory"):
		return &Violation{Key: where + h + "/oom@" + fn, Stack: stack,
			What: fmt.Sprintf("process killed by the Go runtime: fatal out of memory (not recoverable) allocating at %s (%s) under ulimit -v 6 GB", fn, loc)}
	case timedOut:
		return &Violation{Key: where + h + "/unresponsive@" + fn, Stack: stack,
			What: fmt.Sprintf("worker did not answer within the watchdog; stacks on SIGQUIT show %s (%s)", fn, loc)}
	case m != nil:
		line := tail[m[0]:m[1]]
		return &Violation{Key: where + h + "/crash@" + fn + ":" + normMsg(strings.TrimPrefix(strings.TrimPrefix(line, "fatal error: "), "panic: ")), Stack: stack,
			What: fmt.Sprintf("process died: %s at %s (%s)", line, fn, loc)}
	}
	t := tail
	if len(t) > 600 {
		t = t[len(t)-600:]
	}
	return &Violation{Key: where + "/process-exit", Stack: t, What: "worker process exited unexpectedly (" + exit + ")"}
}

// run executes one case; a dead worker becomes a violation of that case.
func (p *proc) run(cs *Case) Result {
	if p.cmd == nil {
		p.start()
	}
	p.markErr()
	b, _ := json.Marshal(cs)
	b = append(b, '\n')
	if _, err := p.toW.Write(b); err != nil {
		tail := p.stderrTail()
		ex := p.stop(true)
		return Result{ID: cs.ID, Viol: classifyDeath(cs, tail, ex, false), Fatal: true, Died: true}
	}
	type rd struct {
		line []byte
		err  error
	}
	ch := make(chan rd, 1)
	var lastP int64 = -1
	go func() {
		for {
			l, e := p.fromW.ReadBytes('\n')
			if e == nil && bytes.HasPrefix(l, []byte(`{"p":`)) {
				var pr struct{ P int64 }
				json.Unmarshal(l, &pr)
				atomic.StoreInt64(&lastP, pr.P)
				continue
			}
			ch <- rd{l, e}
			return
		}
	}()
	died := func(v *Violation) Result {
		v.Event = int(atomic.LoadInt64(&lastP))
		return Result{ID: cs.ID, Viol: v, Fatal: true, Died: true}
	}
	limit := fullWatchdog + 45*time.Second
	if cs.WdMs > 0 {
		limit = time.Duration(cs.WdMs)*time.Millisecond + 45*time.Second
	}
	select {
	case r := <-ch:
		if r.err != nil || len(r.line) == 0 {
			ex := p.stop(false)
			tail := p.stderrTail()
			return died(classifyDeath(cs, tail, ex, false))
		}
		var res Result
		if err := json.Unmarshal(r.line, &res); err != nil {
			ev.HarnessError("bad result line from worker: %v", err)
		}
		if res.Fatal {
			p.stop(false)
		}
		return res
	case <-time.After(limit):
		p.cmd.Process.Signal(syscall.SIGQUIT)
		time.Sleep(2 * time.Second)
		tail := p.stderrTail()
		ex := p.stop(true)
		<-ch
		return died(classifyDeath(cs, tail, ex, true))
	}
}

// ---------------------------------------------------------------------------

// xauthPayload builds an "xauth" message: pubkey, DER signature of the node's (fixed)
// nonce, tip hash, tip height. The signature is computed here with a fixed k so that
// the template - and with it the size of every family - is the same on every run.
func xauthPayload(w *world, priv []byte) []byte {
	n, _ := new(big.Int).SetString("fffffffffffffffffffffffffffffffebaaedce6af48a03bbfd25e8cd0364141", 16)
	k := make([]byte, 32)
	for i := range k {
		k[i] = byte(0x5a ^ i ^ int(priv[0]))
	}
	var z32 [32]byte
	copy(z32[:], fixedNonce)
	rr := new(big.Int).SetBytes(btc.PublicFromPrivate(k, true)[1:33])
	rr.Mod(rr, n)
	ss := new(big.Int).Mul(rr, new(big.Int).SetBytes(priv))
	ss.Add(ss, new(big.Int).SetBytes(z32[:]))
	ss.Mul(ss, new(big.Int).ModInverse(new(big.Int).SetBytes(k), n))
	ss.Mod(ss, n)
	if ss.Cmp(new(big.Int).Rsh(n, 1)) > 0 {
		ss.Sub(n, ss)
	}
	derInt := func(v *big.Int) []byte {
		b := v.Bytes()
		if len(b) == 0 || b[0]&0x80 != 0 {
			b = append([]byte{0}, b...)
		}
		return append([]byte{0x02, byte(len(b))}, b...)
	}
	body := append(derInt(rr), derInt(ss)...)
	sig := append([]byte{0x30, byte(len(body))}, body...)
	b := append([]byte{}, btc.PublicFromPrivate(priv, true)...)
	b = append(b, sig...)
	b = append(b, w.tipH[:]...)
	return append(b, le32(prefixLen)...)
}

func generate(w *world, thorough bool) []*Case {
	otherKey := make([]byte, 32)
	for i := range otherKey {
		otherKey[i] = byte(0x33 + 3*i)
	}
	g := &caseGen{w: w, byN: map[string]*tmpl{}, subst: subst8}
	if thorough {
		g.subst = subst16
	}
	g.ts = w.templates(xauthPayload(w, friendKey), xauthPayload(w, otherKey))
	for _, t := range g.ts {
		g.byN[t.name] = t
	}
	g.contexts()
	pre, post, ibd, ready, cmpct, xa, friend := g.ctx["pre"], g.ctx["post"], g.ctx["ibd"], g.ctx["ready"], g.ctx["cmpct"], g.ctx["xa"], g.ctx["friend"]

	// self tests of the oracle first
	g.cases = append(g.cases, &Case{ID: 0, Kind: "self", Family: "selftest", Tmpl: "banner", Self: "banner"})
	g.cases = append(g.cases, &Case{ID: 1, Kind: "self", Family: "selftest", Tmpl: "lock", Self: "lock"})

	// library entry points (hang / OOM prone: scheduled first)
	lc := libCases(w, func() int { return len(g.cases) + 100000000 }, thorough)
	for _, c := range lc {
		c.ID = len(g.cases)
		g.cases = append(g.cases, c)
	}

	isVer := func(t *tmpl) bool { return t.cmd == "version" }
	deep := map[string]bool{"inv": true, "inv-1": true, "headers": true, "block": true, "cmpctblock-full": true, "cmpctblock-missing": true,
		"cmpctblock-2pre": true, "getblocktxn": true, "tx": true, "tx-wit": true, "getdata": true, "getheaders": true, "getblocks": true, "blocktxn": true}
	for _, t := range g.ts {
		if isVer(t) {
			g.families(t, pre, "vtlcs", true)
			g.families(t, post, "v", false)
			g.families(t, ibd, "v", false)
			if thorough {
				g.families(t, &ctxt{name: "ibd-pre", ibd: true}, "vtlcs", true)
				g.families(t, &ctxt{name: "friend-pre", friend: true}, "vtcs", true)
			}
			continue
		}
		g.families(t, pre, "v", false)
		g.families(t, post, "vtlcs", true)
		switch {
		case thorough:
			g.families(t, pre, "tlc", false)
			g.families(t, ready, "vtlcs", true)
			g.families(t, ibd, "vtcs", true)
			g.families(t, xa, "vtc", false)
			g.families(t, friend, "vtlcs", true)
			continue
		case deep[t.name]:
			g.families(t, ready, "vtcs", false)
		default:
			g.families(t, ready, "v", false)
		}
		g.families(t, ibd, "vc", false)
		g.families(t, xa, "v", false)
		g.families(t, friend, "vc", false)
	}
	// messages that only make sense while a compact block is being reconstructed
	for _, n := range []string{"blocktxn", "block", "cmpctblock-missing", "tx"} {
		g.families(g.t(n), cmpct, "vtcs", true)
	}
	// huge count x "negative" first-element length on every transaction that reaches
	// btc.TxSize over the wire (prefilled transactions of cmpctblock, blocktxn) and NewTx
	for _, n := range []string{"cmpctblock-wit", "cmpctblock-2pre", "cmpctblock-full", "cmpctblock-missing", "tx", "tx-wit", "block"} {
		g.families(g.t(n), post, "p", false)
		g.families(g.t(n), ready, "p", false)
	}
	for _, n := range []string{"blocktxn-wit", "blocktxn"} {
		g.families(g.t(n), cmpct, "vp", false)
	}
	// transactions spending real P2PKH / P2WPKH / P2WSH / P2TR coins with every
	// combination of good and bad signatures (verified by the node's main thread in
	// parallel goroutines under txpool.TxMutex)
	g.sigFamily(ready, thorough)
	if thorough {
		g.sigFamily(post, thorough)
		g.sigFamily(cmpct, thorough)
	}
	// stateful request / response sequences around the node's own ping and getheaders
	if thorough {
		g.seqFamily(g.ctx["pinged"], 4)
		g.seqFamily(g.ctx["gh"], 4)
	} else {
		g.seqFamily(g.ctx["pinged"], 4)
		g.seqFamily(g.ctx["gh"], 3)
	}
	for _, t := range g.ts {
		g.families(t, g.ctx["pinged"], "v", false)
	}
	g.families(g.t("pong"), g.ctx["pinged"], "tlcs", false)
	// bursts against the bounded queues while the main thread is not reading them
	g.burstFamily(ready, true)
	if thorough {
		g.burstFamily(post, true)
		g.burstFamily(g.ctx["dl"], false)
	}
	// block-related commands while a full-block download from this peer is in flight
	dl := g.ctx["dl"]
	for _, n := range []string{"blocktxn", "block", "cmpctblock-missing"} {
		g.families(g.t(n), dl, "vtcs", thorough)
	}
	for _, n := range []string{"cmpctblock-full", "cmpctblock-2pre", "getblocktxn", "notfound-blk", "notfound", "headers", "headers-0", "inv-1", "inv", "getdata", "block-known", "tx"} {
		if thorough {
			g.families(g.t(n), dl, "vtcs", true)
		} else {
			g.families(g.t(n), dl, "vc", false)
		}
	}
	for _, t := range g.ts {
		if thorough || t.cmd == "ping" || t.cmd == "pong" || t.cmd == "getheaders" {
			g.families(t, dl, "v", false)
		}
	}
	// version handshake of the IBD node (drops peers without NODE_NETWORK, "Knots")
	g.add("valid", "version-nonetwork", ibd0(ibd), mev("version", versionPl("/Satoshi:25.0.0/", 0x408, true)))
	g.add("valid", "version-knots", ibd0(ibd), mev("version", versionPl("/Satoshi:25.0.0/Knots:20230101/", 0x409, true)))
	for _, svc := range []uint64{0, 1, 8, 0x400, 0x401} {
		g.add(fmt.Sprintf("valid/services=%x", svc), "version-services", pre, mev("version", versionPl("/x/", svc, true)))
	}
	g.add("valid", "version-own-nonce", pre, mev("version", ownNonceVersion()))
	g.add("valid", "version-null-nonce", pre, mev("version", nullNonceVersion()))
	// wire framing
	g.framing(pre)
	g.framing(post)
	g.framing(xa)

	if thorough {
		g.pairs(post)
		g.pairs(ready)
	} else {
		g.pairsReduced(ready)
	}
	for i, c := range g.cases {
		c.ID = i
	}
	return g.cases
}

func ibd0(c *ctxt) *ctxt { return &ctxt{name: "ibd-pre", ibd: true} }

func ownNonceVersion() []byte {
	b := versionPl("/x/", 0x409, true)
	copy(b[72:80], fixedNonce)
	return b
}

func nullNonceVersion() []byte {
	b := versionPl("/x/", 0x409, true)
	copy(b[72:80], make([]byte, 8))
	return b
}

// reduced message alphabet for the depth-2 sequences
func (g *caseGen) alphabet() (al []Event, names []string) {
	add := func(name string, e Event) { al = append(al, e); names = append(names, name) }
	for _, t := range g.ts {
		if t.name == "version-ua2" || t.name == "version-min" || t.name == "auth" || t.name == "reject" || t.name == "filterclear" || t.name == "merkleblock" || t.name == "mempool" {
			continue
		}
		add(t.name, msg(t))
		if len(t.pl) > 0 {
			add(t.name+"/empty", mev(t.cmd, nil))
		}
		if len(t.pl) > 1 {
			add(t.name+"/trunc-1", mev(t.cmd, t.pl[:len(t.pl)-1]))
		}
		if len(t.fields) > 0 {
			f := t.fields[0]
			add(t.name+"/count+1", mev(t.cmd, replaceField(t.pl, f, []byte{t.pl[f.off] + 1})))
			add(t.name+"/count=2^62+1", mev(t.cmd, replaceField(t.pl, f, csForm(1<<62+1, 9))))
		}
	}
	add("idle", Event{T: "idle"})
	add("tick", Event{T: "tick"})
	return
}

func (g *caseGen) pairs(cx *ctxt) {
	al, names := g.alphabet()
	for i := range al {
		for j := range al {
			g.add("pair/"+names[i]+","+names[j], "pair", cx, al[i], al[j])
		}
	}
}

// quick tier: pairs whose first message changes connection / node state
func (g *caseGen) pairsReduced(cx *ctxt) {
	al, names := g.alphabet()
	first := map[string]bool{"tx": true, "headers": true, "cmpctblock-missing": true, "cmpctblock-full": true, "block": true, "getdata": true,
		"inv": true, "xauth": true, "sendcmpct-v1": true, "idle": true, "tick": true, "inv-1": true, "blocktxn": true}
	for i := range al {
		if !first[names[i]] {
			continue
		}
		for j := range al {
			g.add("pair/"+names[i]+","+names[j], "pair", cx, al[i], al[j])
		}
	}
}

// ---------------------------------------------------------------------------

type tally struct {
	mu        sync.Mutex
	perFamily map[string]int
	perCmd    map[string]int
	perCtx    map[string]int
	outcomes  map[string]int // "<cmd> -> outcome"
	nontriv   map[string]bool
	violCases map[string]int
	firstCase map[string]*Case
	firstViol map[string]*Violation
	cands     map[string][]*Case // up to 3 lowest-numbered cases per key
	deaths    int
	disturbed int
	msgs      int64
	libInputs int64
	conns     int64
	selfOK    int
	dlOK      int
	burstOK   int
	pongOK    int
	sigOK     map[string]int
	usNet     int64
	usNetMax  int64
	usLib     int64
	starts    int64
}

func famClass(f string) string {
	if i := strings.Index(f, "/"); i >= 0 {
		return f[:i]
	}
	return f
}

func targetCmd(cs *Case) string {
	if cs.Kind == "lib" {
		return "lib:" + cs.Lib.Fn
	}
	if cs.Target < len(cs.Events) {
		e := cs.Events[cs.Target]
		if e.T == "msg" {
			return e.Cmd
		}
		return e.T
	}
	return cs.Kind
}

func main() {
	if len(os.Args) >= 4 && os.Args[1] == "--worker" {
		workerMain(os.Args[2], os.Args[3])
		return
	}
	for _, a := range os.Args[1:] {
		if strings.HasPrefix(a, "--racepass=") {
			racePassMain(strings.TrimPrefix(a, "--racepass="))
			return
		}
	}
	r := ev.Start("C18", "exploration")
	if wd := os.Getenv("C18_WATCHDOG"); wd != "" {
		fullWatchdog, _ = time.ParseDuration(wd)
	}
	if r.Thorough() {
		r.Budget = 40 * time.Minute
	} else {
		r.Budget = 10 * time.Minute
	}
	top := ev.Scratch("c18")
	defer os.RemoveAll(top)
	cleanup := func() { os.RemoveAll(top) }
	w := buildWorld(top+"/prefix", true)

	newProc := func(id int) *proc {
		return &proc{id: id, scratch: fmt.Sprintf("%s/w%d", top, id), errPath: fmt.Sprintf("%s/w%d.stderr", top, id), prefix: top + "/prefix"}
	}

	if *replayFile != "" {
		b, err := os.ReadFile(*replayFile)
		if err != nil {
			ev.HarnessError("%v", err)
		}
		var rec struct {
			Key    string `json:"key"`
			Replay struct {
				Case Case   `json:"case"`
				API  string `json:"api"`
			} `json:"replay"`
		}
		if err := json.Unmarshal(b, &rec); err != nil {
			ev.HarnessError("%v", err)
		}
		if rec.Replay.API == "racepass" {
			info := runRacePass(r)
			cleanup()
			fmt.Fprintf(ev.Out, "replay: free-running race-detector pass: %v, findings: %d\n", info["scenarios"], r.Violations())
			if r.Violations() > 0 {
				os.Exit(1)
			}
			os.Exit(0)
		}
		p := newProc(0)
		res := p.run(&rec.Replay.Case)
		p.stop(true)
		if res.Viol == nil && len(res.More) > 0 {
			res.Viol = res.More[0]
		}
		cleanup()
		if res.Viol != nil {
			fmt.Fprintf(ev.Out, "replay: VIOLATION key=%s\n  %s\n", res.Viol.Key, res.Viol.What)
			if res.Viol.Stack != "" {
				fmt.Fprintf(ev.Out, "%s\n", indent(res.Viol.Stack, 30))
			}
			os.Exit(1)
		}
		fmt.Fprintf(ev.Out, "replay: case passes (outcome: %s)\n", res.Outcome)
		os.Exit(0)
	}

	cases := generate(w, r.Thorough())
	if only := os.Getenv("C18_ONLY"); only != "" {
		var l []*Case
		for _, c := range cases {
			if strings.Contains(c.Kind+"/"+c.Tmpl+"/"+c.Ctx+"/"+c.Family, only) || c.Kind == "self" {
				l = append(l, c)
			}
		}
		cases = l
	}
	if os.Getenv("C18_COUNT") != "" {
		cnt := map[string]int{}
		for _, c := range cases {
			n := 1
			if c.Kind == "lib" {
				n = len(c.Lib.Ins)
			}
			cnt[c.Kind+"/"+c.Ctx+"/"+famClass(c.Family)] += n
		}
		var ks []string
		for k := range cnt {
			ks = append(ks, k)
		}
		sort.Strings(ks)
		for _, k := range ks {
			fmt.Fprintln(ev.Out, k, cnt[k])
		}
		fmt.Fprintln(ev.Out, "cases", len(cases))
		cleanup()
		return
	}

	t := &tally{perFamily: map[string]int{}, perCmd: map[string]int{}, perCtx: map[string]int{}, outcomes: map[string]int{}, nontriv: map[string]bool{},
		violCases: map[string]int{}, firstCase: map[string]*Case{}, firstViol: map[string]*Violation{}, cands: map[string][]*Case{}, sigOK: map[string]int{}}
	samples := &ev.Samples{N: 6}

	nw := runtime.NumCPU()
	if s := os.Getenv("C18_WORKERS"); s != "" {
		fmt.Sscan(s, &nw)
	}
	jobs := make(chan *Case, 256)
	var wg sync.WaitGroup
	var done int64
	var selfFail atomic.Value
	record := func(cs *Case, res Result) {
		t.mu.Lock()
		defer t.mu.Unlock()
		cmd := targetCmd(cs)
		t.perFamily[cs.Kind+":"+famClass(cs.Family)]++
		t.perCmd[cmd]++
		if cs.Kind == "net" {
			t.usNet += res.Micros
			if res.Micros > t.usNetMax {
				t.usNetMax = res.Micros
			}
			t.perCtx[cs.Ctx]++
			t.conns++
			t.msgs += int64(res.Handled)
		} else if cs.Kind == "lib" {
			t.libInputs += int64(res.Handled)
			t.usLib += res.Micros
		}
		if res.Viol != nil {
			k := res.Viol.Key
			if t.violCases[k] == 0 && os.Getenv("C18_DEBUG") != "" {
				fmt.Fprintf(os.Stderr, "FIRST %s\n%s\n%s\n", k, res.Viol.What, res.Viol.Stack)
			}
			t.violCases[k]++
			if t.firstCase[k] == nil || cs.ID < t.firstCase[k].ID {
				t.firstCase[k], t.firstViol[k] = cs, res.Viol
			}
			cl := append(t.cands[k], cs)
			sort.Slice(cl, func(i, j int) bool { return cl[i].ID < cl[j].ID })
			if len(cl) > 3 {
				cl = cl[:3]
			}
			t.cands[k] = cl
			t.outcomes[cmd+" -> VIOLATION "+k]++
			return
		}
		if cs.Kind == "self" {
			if res.Outcome == "selftest-ok" {
				t.selfOK++
			} else {
				selfFail.Store(cs.Self + ": " + res.Outcome)
			}
			return
		}
		if cs.Kind == "net" && cs.Tmpl == "tx-signed" && strings.Contains(res.Outcome, " mp=1/") {
			// an all-valid spend was accepted into the mempool: the reference-made
			// signatures of these kinds really verify on the node
			for _, k := range kindName {
				if strings.Contains(cs.Family, k+":valid") && !strings.Contains(cs.Family, ":wrong") && !strings.Contains(cs.Family, ":empty") {
					t.sigOK[k]++
				}
			}
		}
		if cs.Kind == "net" && cs.Ctx == "pinged" && cs.Family == "seq/pong-match" {
			if !strings.Contains(res.Outcome, "pings=1 pongok=1") {
				selfFail.Store("the matching pong was not recognised by the node: " + res.Outcome)
			} else {
				t.pongOK++
			}
		}
		if cs.Kind == "net" && cs.Tmpl == "burst-tx" {
			// 2048 queued, 2 dropped by the non-blocking send, the signed spend after the burst accepted
			if !strings.Contains(res.Outcome, "txq-full-drops=2") || !strings.Contains(res.Outcome, " mp=1/") {
				selfFail.Store("burst against NetTxs did not fill the queue / was not followed by normal processing: " + res.Outcome)
			} else {
				t.burstOK++
			}
		}
		if cs.Kind == "net" && cs.Tmpl == "burst-block" {
			if !strings.Contains(res.Outcome, "backpressure=1") {
				selfFail.Store("burst against NetBlocks did not fill the queue: " + res.Outcome)
			} else {
				t.burstOK++
			}
		}
		if cs.Kind == "net" && cs.Ctx == "dl" && cs.Family == "valid" && cs.Tmpl == "ping" {
			if !strings.Contains(res.Outcome, "sent_getdata") || !strings.Contains(res.Outcome, "bip=2") {
				selfFail.Store("context dl was not established (no full-block download in flight): " + res.Outcome)
			} else {
				t.dlOK++
			}
		}
		oc := cmd + " -> " + res.Outcome
		if cs.Kind == "lib" {
			for _, part := range strings.Split(res.Outcome, ",") {
				if i := strings.Index(part, "="); i > 0 {
					t.outcomes[cmd+" -> "+part[:i]]++
					t.nontriv[cmd+" -> "+part[:i]] = true
				}
			}
			return
		}
		t.outcomes[oc]++
		if res.Reached {
			t.nontriv[oc] = true
		}
	}
	for i := 0; i < nw; i++ {
		wg.Add(1)
		go func(i int) {
			defer wg.Done()
			p := newProc(i)
			defer func() { atomic.AddInt64(&t.starts, int64(p.starts)); p.stop(true) }()
			for cs := range jobs {
				if r.OverBudget() {
					continue
				}
				tq := time.Now()
				res := p.run(cs)
				if d := time.Since(tq); d > 5*time.Second {
					fmt.Fprintf(os.Stderr, "SLOW case %d %s/%s/%s/%s: %v viol=%v\n", cs.ID, cs.Kind, cs.Tmpl, cs.Ctx, cs.Family, d, res.Viol != nil)
				}
				for try := 0; res.Viol == nil && res.Disturbed && try < 3; try++ {
					t.mu.Lock()
					t.disturbed++
					t.mu.Unlock()
					res = p.run(cs)
				}
				if cs.Kind == "lib" {
					runLibBatch(p, cs, res, record, t)
					atomic.AddInt64(&done, 1)
					continue
				}
				record(cs, res)
				if res.Viol == nil && cs.Kind == "net" && res.Reached {
					samples.Add(map[string]interface{}{"ctx": cs.Ctx, "family": cs.Family, "template": cs.Tmpl, "outcome": res.Outcome})
				}
				atomic.AddInt64(&done, 1)
			}
		}(i)
	}
	// slow members (loops driven by wire-supplied counts hit the 60 s watchdog) first,
	// so that they overlap with the rest of the run
	prio := func(c *Case) int {
		switch {
		case c.Kind == "self":
			return 0
		case c.Kind == "net" && (strings.HasPrefix(c.Family, "count/") || strings.HasPrefix(c.Family, "count-child/")) && (strings.HasPrefix(c.Tmpl, "cmpctblock") || strings.HasPrefix(c.Tmpl, "blocktxn")):
			return 1
		case c.Kind == "lib" && c.Lib.Fn == "TxSize":
			return 2
		case c.Kind == "lib":
			return 4
		}
		return 3
	}
	sort.SliceStable(cases, func(i, j int) bool { return prio(cases[i]) < prio(cases[j]) })
	for _, c := range cases {
		switch c.Kind {
		case "net":
			c.WdMs = suspectNetMs
		case "lib":
			c.WdMs = suspectLibMs
		}
		jobs <- c
	}
	close(jobs)
	wg.Wait()
	if s := selfFail.Load(); s != nil {
		cleanup()
		ev.HarnessError("oracle self-test failed: %v", s)
	}
	if os.Getenv("C18_ONLY") == "" && !r.Capped && len(t.violCases) == 0 {
		for _, k := range kindName {
			if t.sigOK[k] == 0 {
				cleanup()
				ev.HarnessError("signature family is vacuous: no transaction with a valid %s input was accepted by the node", k)
			}
		}
	}
	if t.selfOK < 2 && os.Getenv("C18_ONLY") == "" && !r.Capped {
		cleanup()
		ev.HarnessError("oracle self-tests did not run (%d)", t.selfOK)
	}

	// confirmation: every distinct violation key is re-run in fresh workers with the
	// full watchdog before it is reported (up to three candidate cases per key: a loop
	// of ~2^32 cheap iterations may or may not exceed the watchdog, 2^62 always does)
	var keys []string
	for k := range t.firstCase {
		keys = append(keys, k)
	}
	sort.Strings(keys)
	type conf struct {
		key  string
		ok   bool
		cs   *Case
		v    *Violation
		got  []string
		runs int
	}
	confs := make([]conf, len(keys))
	var cw sync.WaitGroup
	sem := make(chan struct{}, nw)
	for i, k := range keys {
		confs[i].key = k
		n := 2
		if strings.Contains(k, "/hang") || strings.Contains(k, "unresponsive") {
			n = 1
		}
		cw.Add(1)
		go func(i int, k string, n int) {
			defer cw.Done()
			sem <- struct{}{}
			defer func() { <-sem }()
			p := newProc(1000 + i)
			for _, cand := range t.cands[k] {
				c2 := *cand
				c2.WdMs = 0
				same := 0
				var last *Violation
				for j := 0; j < n; j++ {
					res := p.run(&c2)
					p.stop(true)
					if res.Viol == nil && len(res.More) > 0 {
						res.Viol = res.More[0]
					}
					confs[i].runs++
					if res.Viol != nil && res.Viol.Key == k {
						same++
						last = res.Viol
					} else if res.Viol != nil {
						confs[i].got = append(confs[i].got, res.Viol.Key)
					} else {
						confs[i].got = append(confs[i].got, "pass")
					}
				}
				if same == n {
					confs[i].ok, confs[i].cs, confs[i].v = true, cand, last
					return
				}
			}
		}(i, k, n)
	}
	cw.Wait()
	perKey := map[string]int{}
	confRuns := 0
	for _, c := range confs {
		perKey[c.key] = t.violCases[c.key]
		confRuns += c.runs
		if !c.ok {
			cs := t.firstCase[c.key]
			r.Unrepro = append(r.Unrepro, fmt.Sprintf("%s (first case %s/%s/%s, %d cases): re-runs with the full watchdog gave %v", c.key, cs.Ctx, cs.Tmpl, cs.Family, t.violCases[c.key], c.got))
			fmt.Fprintf(os.Stderr, "UNREPRODUCIBLE %s: %v\n", c.key, c.got)
			continue
		}
		cs, v := c.cs, c.v
		rep := map[string]interface{}{"case": cs, "context": cs.Ctx, "family": cs.Family, "template": cs.Tmpl, "stack": v.Stack,
			"cases_with_this_key": t.violCases[c.key]}
		if cs.Kind == "net" && v.Event >= 0 && v.Event < len(cs.Events) {
			rep["failing_event"] = cs.Events[v.Event]
		} else if cs.Kind == "net" && cs.Target < len(cs.Events) {
			rep["failing_event"] = cs.Events[cs.Target] // worker died: the event under test
		} else if cs.Kind == "lib" && len(cs.Lib.Ins) > 0 {
			rep["failing_input"] = cs.Lib.Ins[0]
		}
		note := ""
		if cs.Friend {
			note = " (this case needs a peer that authenticated with a key listed in friends.txt)"
		}
		r.Report(c.key, v.What+note+fmt.Sprintf(" [case: ctx=%s template=%s family=%s; %d cases share this key]", cs.Ctx, cs.Tmpl, cs.Family, t.violCases[c.key]), rep)
	}

	// free-running pass under the race detector (second binary)
	raceInfo := map[string]interface{}{"skipped": "C18_ONLY set"}
	if only := os.Getenv("C18_ONLY"); (only == "" || strings.Contains(only, "race")) && !r.Capped {
		tr := time.Now()
		raceInfo = runRacePass(r)
		raceInfo["wall_s"] = float64(int(time.Since(tr).Seconds()*10)) / 10
	}

	oc := map[string]int{}
	for k, v := range t.outcomes {
		oc[k] = v
	}
	cleanup()
	r.Finish(map[string]interface{}{
		"evaluations":              int(t.conns + t.libInputs),
		"connections":              int(t.conns),
		"messages_delivered":       int(t.msgs),
		"library_inputs":           int(t.libInputs),
		"distinct_nontrivial":      len(t.nontriv),
		"distinct_outcomes":        len(t.outcomes),
		"rule":                     "a case is non-trivial when the message under test passed wire framing and was dispatched by Run (or the library call returned); distinct_nontrivial counts distinct (command or function, outcome class) pairs, the outcome class being ban reason / disconnect reason / misbehaviour score / headers accepted / set of per-connection counters (replies sent) for connections and the result class for library calls",
		"per_family":               t.perFamily,
		"per_command":              t.perCmd,
		"per_context":              t.perCtx,
		"violating_cases_per_key":  perKey,
		"worker_deaths_in_batches": t.deaths,
		"timing_disturbed_reruns":  t.disturbed,
		"context_dl_established":   t.dlOK,
		"queue_bursts_filled":      t.burstOK,
		"matching_pong_recognised": t.pongOK,
		"signed_spends_accepted":   t.sigOK,
		"oracle_selftests_passed":  t.selfOK,
		"samples":                  samples.L,
		"confirmation_runs":        confRuns,
		"race_pass":                raceInfo,
		"watchdog_s":               fullWatchdog.Seconds(),
		"suspect_watchdog_s":       map[string]float64{"net": float64(suspectNetMs) / 1e3, "lib": float64(suspectLibMs) / 1e3},
		"worker_cpu_net_s":         float64(t.usNet) / 1e6,
		"worker_net_case_max_ms":   float64(t.usNetMax) / 1e3,
		"worker_cpu_lib_s":         float64(t.usLib) / 1e6,
		"worker_starts":            int(t.starts),
	}, []string{
		"the node is a real chain.Chain on the mini-chain (110 blocks, PoW limit 0x207fffff) with initialised txpool, peers qdb, common.CFG defaults of InitConfig; package state is reset to start-up state before every connection, every violating case ends its worker process",
		"OneConnection.Run() is the real loop (FetchMessage framing, dispatch switch, Tick, tear-down) reading from an in-memory net.Conn; NetTxs are consumed through the real txpool.HandleNetTx (and network.txPoolCB), NetBlocks are dropped (block acceptance lives in package main)",
		"Tick runs once on connect as in the real loop and additionally only as a scripted event; connections during which the wall clock triggered an extra Tick are re-run",
		"a recovered panic is detected from the report Run's recover() prints (hook verified by a self-test on every run); fatal errors / out of memory by the death of the worker under ulimit -v 6 GB",
		"lock probes: TryLock on every mutex of network, common, txpool, peersdb, chain, utxo, qdb while Run is parked in Conn.Read or gone; c.Mutex / bw_mutex are shared with the writing thread and are reported only when that thread itself is blocked on a mutex",
		"not covered: outgoing-connection specifics (SendVersion first), bandwidth-limited reads, payloads above a few hundred bytes, pong matching a real ping nonce, NetworkTick / drop_worst_peer walking the connection list",
	})
}

// runLibBatch records the result of a library batch. Recovered panics are listed per
// input by the worker; when the worker dies (fatal error, out of memory) or reports a
// hang, the failing input is the one announced last on the progress channel: it is
// recorded, the inputs before it are re-run for their outcomes, the rest continues.
func runLibBatch(p *proc, cs *Case, res Result, record func(*Case, Result), t *tally) {
	sub := func(ins []string) *Case {
		one := *cs
		l := *cs.Lib
		l.Ins = ins
		one.Lib = &l
		return &one
	}
	for {
		for _, v := range res.More {
			record(sub([]string{cs.Lib.Ins[v.Event]}), Result{ID: cs.ID, Viol: v})
		}
		res.More = nil
		if res.Viol == nil {
			record(cs, res)
			return
		}
		idx := res.Viol.Event
		if idx < 0 || idx >= len(cs.Lib.Ins) {
			record(cs, res) // death outside any input: charge the batch
			return
		}
		t.mu.Lock()
		t.deaths++
		t.mu.Unlock()
		record(sub([]string{cs.Lib.Ins[idx]}), Result{ID: cs.ID, Viol: res.Viol})
		if res.Died && idx > 0 {
			pre := sub(cs.Lib.Ins[:idx])
			r0 := p.run(pre)
			if r0.Viol == nil {
				for _, v := range r0.More {
					record(sub([]string{pre.Lib.Ins[v.Event]}), Result{ID: cs.ID, Viol: v})
				}
				r0.More = nil
				record(pre, r0)
			}
		} else if idx > 0 {
			part := res
			part.Viol = nil
			record(sub(cs.Lib.Ins[:idx]), part)
		}
		if idx+1 >= len(cs.Lib.Ins) {
			return
		}
		cs = sub(cs.Lib.Ins[idx+1:])
		res = p.run(cs)
	}
}

func indent(s string, maxLines int) string {
	ls := strings.Split(s, "\n")
	if len(ls) > maxLines {
		ls = ls[:maxLines]
	}
	return "    " + strings.Join(ls, "\n    ")
}

var _ = hex.EncodeToString
