package main

import (
	"bufio"
	"encoding/hex"
	"encoding/json"
	"fmt"
	"os"
	"regexp"
	"runtime"
	"runtime/debug"
	"runtime/metrics"
	"sort"
	"strings"
	"sync"
	"time"

	"github.com/piotrnar/gocoin/client/common"
	"github.com/piotrnar/gocoin/client/network"
	"github.com/piotrnar/gocoin/client/peersdb"
	"github.com/piotrnar/gocoin/client/txpool"
	"github.com/piotrnar/gocoin/client/wallet"
	"github.com/piotrnar/gocoin/lib/btc"
	"github.com/piotrnar/gocoin/lib/chain"
	"github.com/piotrnar/gocoin/lib/others/qdb"

	"verif/internal/ev"
	"verif/internal/minichain"
)

// ---------------------------------------------------------------------------
// protocol between parent and worker (JSON lines on fd 3 / fd 4)

type Event struct {
	T   string `json:"t"`             // msg | raw | idle | tick
	Cmd string `json:"cmd,omitempty"` // msg: command name
	Pl  string `json:"pl,omitempty"`  // msg: payload hex; raw: wire bytes hex
}

type LibCall struct {
	Fn    string   `json:"fn"`
	Ins   []string `json:"ins"` // hex (bytes) or plain text (addresses)
	Text  bool     `json:"text,omitempty"`
	Flags uint32   `json:"flags,omitempty"`
}

type Case struct {
	ID     int      `json:"id"`
	Kind   string   `json:"kind"` // net | lib | self
	Family string   `json:"family"`
	Tmpl   string   `json:"tmpl"`
	Ctx    string   `json:"ctx,omitempty"`
	IBD    bool     `json:"ibd,omitempty"`    // node still syncing its chain
	Friend bool     `json:"friend,omitempty"` // the peer's auth key is listed in friends.txt
	Events []Event  `json:"events,omitempty"`
	Target int      `json:"target"` // index of the first event under test
	Lib    *LibCall `json:"lib,omitempty"`
	Self   string   `json:"self,omitempty"`
	WdMs   int      `json:"wd_ms,omitempty"` // watchdog for this run (0: the full one)
}

type Violation struct {
	Key   string `json:"key"`
	What  string `json:"what"`
	Stack string `json:"stack,omitempty"`
	Event int    `json:"event"` // index of the event being processed
}

type Result struct {
	ID        int          `json:"id"`
	Viol      *Violation   `json:"viol,omitempty"`
	Outcome   string       `json:"outcome"`        // outcome class of the connection / call
	Handled   int          `json:"handled"`        // events fully processed
	Reached   bool         `json:"reached"`        // the event under test reached its handler (framing accepted)
	Disturbed bool         `json:"disturbed"`      // an unscripted Tick ran (timing); parent re-runs
	Fatal     bool         `json:"fatal"`          // worker must be restarted after this case
	More      []*Violation `json:"more,omitempty"` // lib batches: one entry per panicking input
	Died      bool         `json:"-"`              // parent side: the worker process died on this case
	Micros    int64        `json:"us"`
	SideCalls int          `json:"side_calls,omitempty"`
}

// fullWatchdog is the bound a violation is judged by. The exploration pass runs with
// a much shorter "suspect" watchdog (cases that normally take microseconds); every
// suspected hang is then confirmed with the full one before it is reported.
var fullWatchdog = 60 * time.Second
var watchdog = fullWatchdog

// ---------------------------------------------------------------------------
// environment (one per worker process)

type nodeEnv struct {
	dir       string
	e         *minichain.Env
	ch        *chain.Chain
	baseIdx   map[[btc.Uint256IdxLen]byte]*chain.BlockTreeNode
	baseChild map[*chain.BlockTreeNode][]*chain.BlockTreeNode
	tip       *chain.BlockTreeNode
	outF      *os.File // gocoin's stdout goes here (panic banner hook)
	outOff    int64
	locks     map[string]*sync.Mutex
	lockNames []string
	feeKB     uint64
	spare     *network.OneConnection
}

var (
	secretKey = func() []byte {
		k := make([]byte, 32)
		for i := range k {
			k[i] = byte(0x11 + i)
		}
		return k
	}()
	friendKey = func() []byte {
		k := make([]byte, 32)
		for i := range k {
			k[i] = byte(0x71 + i)
		}
		return k
	}()
)

func setupEnv(prefixDir, scratch string) *nodeEnv {
	n := &nodeEnv{dir: scratch}
	ev.CopyDir(prefixDir, scratch+"/d")
	var err error
	network.VerifSetNonce([8]byte{'c', '1', '8', 'n', 'o', 'n', 'c', 'e'})
	n.outF, err = os.OpenFile(scratch+"/stdout.log", os.O_CREATE|os.O_RDWR|os.O_TRUNC, 0o644)
	if err != nil {
		ev.HarnessError("stdout capture: %v", err)
	}
	os.Stdout = n.outF

	n.e = minichain.Open(scratch+"/d", &minichain.Opts{Params: params})
	n.ch = n.e.Ch
	common.BlockChain = n.ch
	common.GenesisBlock = btc.NewUint256(minichain.GenesisHash[:])
	common.Magic = [4]byte{0xfa, 0xbf, 0xb5, 0xda}
	common.GocoinHomeDir = scratch + "/home/"
	os.MkdirAll(common.GocoinHomeDir, 0o755)
	common.DefaultTcpPort = 18444
	common.StartTime = time.Now()
	common.SecretKey = secretKey
	common.PublicKeyBin = btc.PublicFromPrivate(secretKey, true)
	common.PublicKey = btc.Encodeb58(common.PublicKeyBin)

	// the defaults of common.InitConfig (which is not called: it parses os.Args,
	// reads/writes gocoin.conf and allocates the UTXO allocator)
	c := &common.CFG
	c.Datadir = scratch + "/home"
	c.Net.ListenTCP = true
	c.Net.MaxOutCons = 20
	c.Net.MaxInCons = 20
	c.Net.MaxBlockAtOnce = 3
	c.Net.BindToIF = "0.0.0.0"
	c.WebUI.AllowedIP = "127.0.0.1"
	c.TXPool.Enabled = true
	c.TXPool.AllowMemInputs = true
	c.TXPool.FeePerByte = 0.001
	c.TXPool.MaxTxWeight = 400e3
	c.TXPool.MaxSizeMB = 500
	c.TXPool.ExpireInDays = 14
	c.TXPool.MaxRejectMB = 25.0
	c.TXPool.MaxNoUtxoMB = 5.0
	c.TXPool.RejectRecCnt = 20000
	c.TXRoute.Enabled = true
	c.TXRoute.FeePerByte = 0.1
	c.TXRoute.MaxTxWeight = 400e3
	c.Memory.GCPercTrshold = 30
	c.Memory.MaxCachedBlks = 200
	c.Memory.CacheOnDisk = true
	c.Memory.SyncCacheSize = 500
	c.Memory.MaxDataFileMB = 1000
	c.Stat.HashrateHrs = 12
	c.Stat.MiningHrs = 24
	c.Stat.FeesBlks = 24
	c.Stat.BSizeBlks = 1008
	c.AllBalances.MinValue = 1e5
	c.AllBalances.UseMapCnt = 5000
	c.DropPeers.DropEachMinutes = 5
	c.DropPeers.BlckExpireHours = 24
	c.DropPeers.PingPeriodSec = 15
	c.DropPeers.ImmunityMinutes = 15
	c.UTXOSave.SecondsToTake = 300
	c.UTXOSave.BlocksToHold = 6
	common.LockCfg()
	common.Reset()
	common.UnlockCfg()
	debug.SetGCPercent(100)
	n.feeKB = common.MinFeePerKB()

	n.tip = n.ch.LastBlock()
	common.Last.Mutex.Lock()
	common.Last.Block = n.tip
	common.Last.Time = time.Now()
	common.Last.Mutex.Unlock()
	common.UpdateScriptFlags(0)
	common.RecalcAverageBlockSize()

	txpool.InitMempool()
	wallet.InitMaps(true)
	peersdb.Services = common.Services
	peersdb.PeerDB, err = qdb.NewDB(scratch+"/home/peers3", true)
	if err != nil || peersdb.PeerDB == nil {
		ev.HarnessError("peers qdb: %v", err)
	}

	n.baseIdx = map[[btc.Uint256IdxLen]byte]*chain.BlockTreeNode{}
	n.baseChild = map[*chain.BlockTreeNode][]*chain.BlockTreeNode{}
	for k, v := range n.ch.BlockIndex {
		n.baseIdx[k] = v
		n.baseChild[v] = append([]*chain.BlockTreeNode{}, v.Childs...)
	}

	n.locks = map[string]*sync.Mutex{"txpool.TxMutex": &txpool.TxMutex, "peersdb.PeerDB.Mutex": &peersdb.PeerDB.Mutex,
		"chain.Unspent.Mutex": &n.ch.Unspent.Mutex}
	for _, m := range []map[string]*sync.Mutex{network.VerifGlobalLocks(), peersdb.VerifLocks(), common.VerifLocks(), n.ch.VerifLocks()} {
		for k, v := range m {
			n.locks[k] = v
		}
	}
	for k := range n.locks {
		n.lockNames = append(n.lockNames, k)
	}
	sort.Strings(n.lockNames)
	return n
}

// reset brings every piece of process-wide state a connection can touch back to
// the state right after start-up.
func (n *nodeEnv) reset(cs *Case) {
	// block index: drop headers accepted from the wire
	n.ch.BlockIndexAccess.Lock()
	if len(n.ch.BlockIndex) != len(n.baseIdx) {
		for k := range n.ch.BlockIndex {
			if _, ok := n.baseIdx[k]; !ok {
				delete(n.ch.BlockIndex, k)
			}
		}
	}
	for k, v := range n.baseIdx {
		n.ch.BlockIndex[k] = v
		if len(v.Childs) != len(n.baseChild[v]) {
			v.Childs = append([]*chain.BlockTreeNode{}, n.baseChild[v]...)
		}
		v.Trusted.Clr()
	}
	n.ch.BlockIndexAccess.Unlock()

	network.VerifReset(n.ch.BlockIndex, n.tip)
	if cs.Friend {
		network.VerifSetFriends([][]byte{btc.PublicFromPrivate(friendKey, true)})
	} else {
		network.VerifSetFriends(nil)
	}

	if len(txpool.TransactionsToSend)+len(txpool.TransactionsRejected)+len(txpool.TransactionsPending)+len(txpool.WaitingForInputs) > 0 {
		txpool.InitMempool()
		txpool.TransactionsPending = make(map[btc.BIDX]bool)
	}
	for len(txpool.GetMPInProgressTicket) > 0 {
		<-txpool.GetMPInProgressTicket
	}
	txpool.CurrentFeeAdjustedSPKB = 0
	common.SetMinFeePerKB(n.feeKB)

	if peersdb.PeerDB.Count() > 0 {
		var ks []qdb.KeyType
		peersdb.PeerDB.Browse(func(k qdb.KeyType, v []byte) uint32 { ks = append(ks, k); return 0 })
		for _, k := range ks {
			peersdb.PeerDB.Del(k)
		}
	}

	common.CounterMutex.Lock()
	common.Counter = make(map[string]uint64)
	common.CounterMutex.Unlock()
	common.LockCfg()
	common.ApplyLTB(nil, 0)
	common.UnlockCfg()
	common.BlockChainSynchronized.Store(!cs.IBD)
	common.Last.Mutex.Lock()
	common.Last.Block = n.tip
	common.Last.Mutex.Unlock()

	// stdout capture: start of this case
	off, _ := n.outF.Seek(0, 2)
	if off > 8<<20 {
		n.outF.Truncate(0)
		n.outF.Seek(0, 0)
		off = 0
	}
	n.outOff = off
}

func (n *nodeEnv) stdoutSince() string {
	st, err := n.outF.Stat()
	if err != nil || st.Size() <= n.outOff {
		return ""
	}
	b := make([]byte, st.Size()-n.outOff)
	n.outF.ReadAt(b, n.outOff)
	return string(b)
}

// ---------------------------------------------------------------------------
// goroutine dump analysis

type gor struct {
	id    string
	state string
	text  string
}

var gorHdr = regexp.MustCompile(`^goroutine (\d+) \[([^\],]+)[^\]]*\]:`)

func dumpGoroutines() []gor {
	buf := make([]byte, 1<<20)
	buf = buf[:runtime.Stack(buf, true)]
	var out []gor
	for _, blk := range strings.Split(string(buf), "\n\n") {
		m := gorHdr.FindStringSubmatch(blk)
		if m == nil {
			continue
		}
		out = append(out, gor{id: m[1], state: m[2], text: blk})
	}
	return out
}

func findGor(gs []gor, fn string) *gor {
	for i := range gs {
		if strings.Contains(gs[i].text, fn) {
			return &gs[i]
		}
	}
	return nil
}

// mutexBlocked: the goroutine waits for a sync.Mutex / RWMutex (a WaitGroup or a
// semaphore wait shows the same "semacquire" state and is NOT taken for a lock).
func mutexBlocked(g *gor) bool {
	return lockBlocked(g.state) && (strings.Contains(g.text, "sync.(*Mutex).Lock") || strings.Contains(g.text, "sync.(*RWMutex).Lock") || strings.Contains(g.text, "sync.(*RWMutex).RLock"))
}

func lockBlocked(state string) bool {
	switch state {
	case "sync.Mutex.Lock", "sync.RWMutex.Lock", "sync.RWMutex.RLock", "semacquire":
		return true
	}
	return false
}

var (
	reAddr  = regexp.MustCompile(`0x[0-9a-f]+`)
	reFrame = regexp.MustCompile(`(?m)^(\S[^\n]*)\n\t(\S+):(\d+)`)
	reNum   = regexp.MustCompile(`(^|[^A-Za-z0-9_])\d+`)
)

type frame struct {
	fn   string
	file string
	line string
}

func frames(stack string) []frame {
	var out []frame
	for _, m := range reFrame.FindAllStringSubmatch(stack, -1) {
		fn := m[1]
		if i := strings.LastIndex(fn, "("); i > 0 {
			// strip the argument list but keep receiver parentheses
			if j := strings.LastIndex(fn, ")"); j == len(fn)-1 {
				fn = fn[:i]
			}
		}
		fn = strings.TrimPrefix(fn, "created by ")
		out = append(out, frame{fn: fn, file: m[2], line: m[3]})
	}
	return out
}

const gocoinPfx = "github.com/piotrnar/gocoin/"

func short(fn string) string {
	fn = strings.TrimPrefix(fn, gocoinPfx)
	fn = strings.Replace(fn, "client/network.(*OneConnection).", "conn.", 1)
	fn = strings.TrimPrefix(fn, "client/")
	fn = strings.TrimPrefix(fn, "lib/")
	return fn
}

func baseFile(f string) string {
	if i := strings.LastIndex(f, "/"); i >= 0 {
		return f[i+1:]
	}
	return f
}

// site returns the innermost gocoin frame of a stack text (optionally only the
// part after the runtime's "panic(" frame) and the handler frame right above
// OneConnection.Run.
func site(stack string, afterPanic bool) (siteFn, siteLoc, handler string) {
	siteFn, siteLoc, handler, _ = site4(stack, afterPanic)
	return
}

// site4 additionally returns the function the handler was in when it called down
// (stable for a busy loop whose innermost frame varies between samples).
func site4(stack string, afterPanic bool) (siteFn, siteLoc, handler, callee string) {
	fs := frames(stack)
	start := 0
	if afterPanic {
		for i, f := range fs {
			if f.fn == "panic" {
				start = i + 1
			}
		}
	}
	for i := start; i < len(fs); i++ {
		if strings.HasPrefix(fs[i].fn, gocoinPfx) && !strings.Contains(fs[i].fn, ".Run.func") {
			siteFn, siteLoc = short(fs[i].fn), baseFile(fs[i].file)+":"+fs[i].line
			if sl := lineSlug(siteLoc, fs[i].file); sl != "" {
				siteFn += "{" + sl + "}"
			}
			break
		}
	}
	for i := start; i < len(fs); i++ {
		if strings.HasSuffix(fs[i].fn, "network.(*OneConnection).Run") && i > start {
			if strings.HasPrefix(fs[i-1].fn, gocoinPfx) {
				handler = short(fs[i-1].fn)
				callee = handler
				if i-2 >= start && strings.HasPrefix(fs[i-2].fn, gocoinPfx) {
					callee = short(fs[i-2].fn)
				}
			}
			break
		}
	}
	if handler == "" {
		handler = "Run"
	}
	if callee == "" {
		callee = strings.SplitN(siteFn, "{", 2)[0]
	}
	return
}

func normMsg(m string) string {
	m = strings.TrimSpace(m)
	if i := strings.Index(m, "\n"); i >= 0 {
		m = m[:i]
	}
	m = strings.TrimPrefix(m, "pkg: ")
	m = strings.TrimPrefix(m, "runtime error: ")
	m = reAddr.ReplaceAllString(m, "")
	if i := strings.Index(m, " ["); i > 0 && (strings.HasPrefix(m, "slice bounds") || strings.HasPrefix(m, "index out of range")) {
		m = m[:i] // the offending numbers / shape are in the description, not in the key
	}
	m = reNum.ReplaceAllString(m, "${1}N")
	m = strings.Join(strings.Fields(m), "-")
	if len(m) > 70 {
		m = m[:70]
	}
	return m
}

// lineSlug identifies a source line by its text (stable when lines above it move,
// changes when the line itself is edited - which is what a fix does).
func lineSlug(loc string, full string) string {
	b, err := os.ReadFile(full)
	if err != nil {
		return ""
	}
	var ln int
	fmt.Sscan(loc[strings.LastIndex(loc, ":")+1:], &ln)
	lines := strings.Split(string(b), "\n")
	if ln < 1 || ln > len(lines) {
		return ""
	}
	var sb strings.Builder
	for _, r := range strings.TrimSpace(lines[ln-1]) {
		if r >= 'a' && r <= 'z' || r >= 'A' && r <= 'Z' || r >= '0' && r <= '9' || r == '_' {
			sb.WriteRune(r)
		} else if sb.Len() > 0 && !strings.HasSuffix(sb.String(), "-") {
			sb.WriteByte('-')
		}
		if sb.Len() >= 48 {
			break
		}
	}
	return strings.Trim(sb.String(), "-")
}

// ---------------------------------------------------------------------------
// running one connection through the real Run()

type connRun struct {
	side         *sideRun // free-running pass: the "other thread" is active, no oracle in between
	sideCalls    int
	tickOff      time.Duration
	noDrain      bool // scripted: the node's main thread is busy, queues are not read
	backpressure int
	n            *nodeEnv
	c            *network.OneConnection
	pc           *pconn
	done         chan string
	res          *Result
}

const banner = "THIS SHOULD NOT HAPPEN"

// parseBanner extracts the panic value and the stack printed by Run's recover().
func parseBanner(out string) (msg, stack string, ok bool) {
	i := strings.Index(out, banner)
	if i < 0 {
		return
	}
	rest := out[i:]
	j := strings.Index(rest, "Make sure to include the data below:")
	if j < 0 {
		return "?", rest, true
	}
	rest = strings.TrimLeft(rest[j+len("Make sure to include the data below:"):], "\n")
	k := strings.Index(rest, "\n")
	if k < 0 {
		return rest, "", true
	}
	msg = rest[:k]
	stack = rest[k+1:]
	if e := strings.Index(stack, "The node will likely malfunction"); e >= 0 {
		stack = stack[:e]
	}
	return msg, stack, true
}

// wait blocks until Run parked in Conn.Read, returned, or is provably/persistently stuck.
func (r *connRun) wait() (state, info string) {
	t0 := time.Now()
	tm := time.NewTimer(50 * time.Millisecond)
	select {
	case <-r.pc.parked:
		tm.Stop()
		return "parked", ""
	case s := <-r.done:
		tm.Stop()
		return "done", s
	case <-tm.C:
	}
	last, same := "", 0
	for {
		tm.Reset(20 * time.Millisecond)
		select {
		case <-r.pc.parked:
			tm.Stop()
			return "parked", ""
		case s := <-r.done:
			tm.Stop()
			return "done", s
		case <-tm.C:
		}
		gs := dumpGoroutines()
		g := findGor(gs, "network.(*OneConnection).Run(")
		if g == nil {
			continue // returning right now
		}
		if raceMode {
			// free-running pass: other goroutines legitimately hold locks, and the
			// detector slows everything down; only the (long) watchdog applies
		} else if mutexBlocked(g) && !strings.Contains(g.text, "main.(*pconn)") {
			// Run's goroutine waits for a mutex. Every other goroutine that can
			// touch these mutexes (the writing thread) holds them for nanoseconds and
			// never blocks while holding one, so an identical blocked stack on
			// consecutive dumps means the holder is gone: a leaked lock.
			if g.text == last {
				same++
			} else {
				last, same = g.text, 0
			}
			if same >= 3 {
				return "deadlock", g.text
			}
		} else if g.state == "chan send" {
			// Run's goroutine waits for room in a bounded queue. The harness is the
			// only consumer of the handlers' queues and it is not reading while it
			// waits here: this does not end by itself.
			if g.text == last {
				same++
			} else {
				last, same = g.text, 0
			}
			if same >= 3 {
				return "qfull", g.text
			}
		} else {
			last, same = "", 0
		}
		if time.Since(t0) > watchdog {
			return "hang", g.text
		}
	}
}

// waitQ is wait() plus the rule for full queues: a handler that waits for room in a
// queue while holding NO mutex is back-pressure by design (the main thread will make
// room; the harness does and goes on); one that waits while holding a mutex the rest
// of the node needs is reported.
func (r *connRun) waitQ() (state, info string, held []string) {
	for {
		state, info = r.wait()
		if state != "qfull" {
			return
		}
		if held = r.heldLocks(); len(held) > 0 {
			return
		}
		r.backpressure++
		if v := r.drainQueues(); v != nil {
			return "drainviol", v.Key + "\n" + v.What, nil
		}
	}
}

// heldLocks probes every known mutex. Run's goroutine is parked in Conn.Read or gone;
// the harness holds nothing. Only the connection's writing thread may still run: it
// uses c.Mutex and common.bw_mutex for nanoseconds at a time, so for these two a failed
// TryLock is retried until either it succeeds or the writing thread itself is seen
// blocked on a mutex (then nobody is left who could release it).
func (r *connRun) heldLocks() (held []string) {
	for _, name := range r.n.lockNames {
		m := r.n.locks[name]
		if name == "common.bw_mutex" {
			if r.contended(m) {
				held = append(held, name)
			}
			continue
		}
		if m.TryLock() {
			m.Unlock()
		} else {
			held = append(held, name)
		}
	}
	for i := 0; i < 256; i++ {
		m := &r.n.ch.Unspent.MapMutex[i]
		if m.TryLock() {
			m.Unlock()
		} else {
			held = append(held, fmt.Sprintf("utxo.MapMutex[%d]", i))
		}
	}
	if r.c != nil && r.contended(network.VerifConnMutex(r.c)) {
		held = append(held, "conn.Mutex")
	}
	return
}

func (r *connRun) contended(m *sync.Mutex) bool {
	t0 := time.Now()
	blockedSeen := 0
	for i := 0; ; i++ {
		if m.TryLock() {
			m.Unlock()
			return false
		}
		if i < 20 {
			runtime.Gosched()
			continue
		}
		gs := dumpGoroutines()
		w := findGor(gs, "network.(*OneConnection).writing_thread")
		if w == nil || mutexBlocked(w) {
			blockedSeen++
			if blockedSeen >= 2 {
				return true
			}
		} else {
			blockedSeen = 0
		}
		time.Sleep(time.Millisecond)
		if time.Since(t0) > watchdog {
			return true
		}
	}
}

func wire(cmd string, pl []byte) []byte {
	b := make([]byte, 24+len(pl))
	copy(b[0:4], common.Magic[:])
	copy(b[4:16], cmd)
	b[16], b[17], b[18], b[19] = byte(len(pl)), byte(len(pl)>>8), byte(len(pl)>>16), byte(len(pl)>>24)
	sh := btc.Sha2Sum(pl)
	copy(b[20:24], sh[:4])
	copy(b[24:], pl)
	return b
}

// drainQueues plays the node's main thread for what handlers queued: transactions go
// through the real txpool.HandleNetTx (which calls back into network.txPoolCB), blocks
// are dropped (block acceptance is package main code).
func (r *connRun) drainQueues() (v *Violation) {
	for len(network.NetBlocks) > 0 {
		<-network.NetBlocks
	}
	for len(network.NetTxs) > 0 {
		ntx := <-network.NetTxs
		if v = r.handleNetTx(ntx); v != nil {
			return
		}
	}
	return nil
}

// handleNetTx runs txpool.HandleNetTx the way the node's main thread does and watches
// it: it verifies all inputs in parallel goroutines while holding txpool.TxMutex.
func (r *connRun) handleNetTx(ntx *txpool.TxRcvd) *Violation {
	type hret struct{ pan, st string }
	ch := make(chan hret, 1)
	go func() {
		defer func() {
			if p := recover(); p != nil {
				ch <- hret{pan: fmt.Sprint(p), st: string(debug.Stack())}
			}
		}()
		txpool.HandleNetTx(ntx)
		ch <- hret{}
	}()
	fin := func(h hret) *Violation {
		if h.pan == "" {
			return nil
		}
		fn, loc, _ := site(h.st, true)
		return &Violation{Key: "mainthread/HandleNetTx/panic@" + fn + ":" + normMsg(h.pan),
			What: fmt.Sprintf("txpool.HandleNetTx panicked on a transaction queued by ParseTxNet: %v at %s (%s)", h.pan, fn, loc), Stack: h.st}
	}
	t0 := time.Now()
	tm := time.NewTimer(50 * time.Millisecond)
	select {
	case h := <-ch:
		tm.Stop()
		return fin(h)
	case <-tm.C:
	}
	last, same := "", 0
	for {
		tm.Reset(20 * time.Millisecond)
		select {
		case h := <-ch:
			tm.Stop()
			return fin(h)
		case <-tm.C:
		}
		gs := dumpGoroutines()
		main := findGor(gs, "txpool.HandleNetTx(")
		if main == nil {
			continue
		}
		// the main thread either waits for a mutex itself or for its script-check
		// goroutines (WaitGroup); it is stuck for good when every one of those waits
		// for a mutex: nobody else is running (Run is parked in Conn.Read, the
		// writing thread touches only the connection's own mutex)
		var blocked []string
		stuck := mutexBlocked(main)
		if !stuck {
			workers, all := 0, true
			for i := range gs {
				if strings.Contains(gs[i].text, "txpool.processTx.func") && gs[i].id != main.id {
					workers++
					if mutexBlocked(&gs[i]) {
						blocked = append(blocked, gs[i].text)
					} else {
						all = false
					}
				}
			}
			stuck = workers > 0 && all && strings.Contains(main.text, "sync.(*WaitGroup).Wait")
		} else {
			blocked = []string{main.text}
		}
		if stuck {
			sort.Strings(blocked)
			sig := main.text + strings.Join(blocked, "\n")
			if sig == last {
				same++
			} else {
				last, same = sig, 0
			}
			if same >= 3 {
				fn, loc, _ := site(blocked[0], false)
				held := ""
				if !txpool.TxMutex.TryLock() {
					held = "; txpool.TxMutex stays locked, so every tx / inv / cmpctblock / getdata handler of every peer blocks next"
				} else {
					txpool.TxMutex.Unlock()
				}
				return &Violation{Key: "mainthread/HandleNetTx/deadlock@" + fn, Stack: blocked[0] + "\n\n" + main.text,
					What: fmt.Sprintf("txpool.HandleNetTx (the node's main thread) blocks forever on a transaction queued by ParseTxNet: %d input check(s) wait for a mutex at %s (%s) that nobody will release%s", len(blocked), fn, loc, held)}
			}
		} else {
			last, same = "", 0
		}
		if time.Since(t0) > watchdog {
			fn, loc, _ := site(main.text, false)
			return &Violation{Key: "mainthread/HandleNetTx/hang", Stack: main.text,
				What: fmt.Sprintf("txpool.HandleNetTx did not return within %v on a transaction queued by ParseTxNet (at %s, %s)", watchdog, fn, loc)}
		}
	}
}

func heldSuffix(h []string) string {
	if len(h) == 0 {
		return ""
	}
	return "/held=" + strings.Join(h, "+")
}

func (r *connRun) evName(cs *Case, i int) string {
	if i < 0 || i >= len(cs.Events) {
		return "connect"
	}
	e := cs.Events[i]
	switch e.T {
	case "msg":
		return e.Cmd
	case "raw":
		return "raw-frame"
	case "pong":
		return "pong"
	}
	return e.T
}

// flushOutput waits until the writing thread has handed everything the node queued so
// far to the connection (so that a ping the node just sent is visible to the "peer").
func (r *connRun) flushOutput() {
	for i := 0; i < 10000; i++ {
		var ci network.ConnInfo
		r.c.GetStats(&ci)
		if ci.BytesToSend == 0 || network.VerifOutcome(r.c).Broken {
			return // (a broken connection's writing thread has stopped: nothing more will come)
		}
		network.VerifKick(r.c)
		time.Sleep(200 * time.Microsecond)
	}
}

var trace = os.Getenv("C18_TRACE") != ""

func runNet(n *nodeEnv, cs *Case) (res Result) {
	res.ID = cs.ID
	tr0 := time.Now()
	tr := func(what string) {
		if trace {
			fmt.Fprintf(os.Stderr, "TRACE %d %s %v\n", cs.ID, what, time.Since(tr0))
		}
	}
	n.reset(cs)
	tr("reset")
	ad, err := peersdb.NewIncommingConnection("93.184.216.34:50001", true)
	if err != nil || ad == nil {
		ev.HarnessError("peer address: %v", err)
	}
	pc := newPconn()
	c := network.VerifNewConnection(n.spare, ad)
	n.spare = nil
	c.X.Incomming = true
	c.X.ConnectedAt = time.Now()
	c.Conn = pc
	pc.onWDL = func() { network.VerifKick(c) }
	network.VerifAddConn(c)
	r := &connRun{n: n, c: c, pc: pc, done: make(chan string, 1), res: &res}
	go func() {
		defer func() {
			if p := recover(); p != nil {
				r.done <- fmt.Sprintf("escaped: %v\n%s", p, debug.Stack())
				return
			}
			r.done <- ""
		}()
		c.Run()
	}()

	fail := func(i int, v *Violation) Result {
		v.Event = i
		res.Viol = v
		res.Fatal = true
		res.Outcome = "violation"
		return res
	}
	// classification of "Run returned"
	runEnded := func(i int, info string) *Violation {
		out := n.stdoutSince()
		cmd := r.evName(cs, i)
		if strings.HasPrefix(info, "escaped:") {
			fn, loc, h := site(info, true)
			held := r.heldLocks()
			return &Violation{Key: "net/" + h + "/escaped-panic@" + fn + heldSuffix(held),
				What: fmt.Sprintf("a panic escaped OneConnection.Run while processing %q at %s (%s): %s", cmd, fn, loc, strings.SplitN(info, "\n", 2)[0]), Stack: info}
		}
		if msg, st, ok := parseBanner(out); ok {
			fn, loc, h := site(st, true)
			held := r.heldLocks()
			what := fmt.Sprintf("handler panicked while processing %q: %s at %s (%s); caught only by Run's catch-all recover(), which returns without closing the connection or stopping its writing thread", cmd, msg, fn, loc)
			if len(held) > 0 {
				what += "; mutexes left locked: " + strings.Join(held, ", ")
			}
			return &Violation{Key: "net/" + h + "/panic@" + fn + ":" + normMsg(msg) + heldSuffix(held), What: what, Stack: st}
		}
		held := r.heldLocks()
		if pc.closeCalls() == 0 {
			return &Violation{Key: "net/" + cmd + "/run-returned-without-cleanup" + heldSuffix(held),
				What: fmt.Sprintf("OneConnection.Run returned while processing %q without its tear-down: connection not closed, writing thread left running (16 MiB connection object, goroutine and socket leak per occurrence)", cmd)}
		}
		if len(held) > 0 {
			return &Violation{Key: "net/" + cmd + "/lock-held" + heldSuffix(held),
				What: fmt.Sprintf("after the connection ended (last event %q) these mutexes stay locked: %s", cmd, strings.Join(held, ", "))}
		}
		return nil
	}
	var qheld []string
	stuck := func(i int, state, info string) *Violation {
		fn, loc, h := site(info, false)
		cmd := r.evName(cs, i)
		if state == "qfull" {
			return &Violation{Key: "net/" + h + "/blocked-on-full-queue@" + fn + heldSuffix(qheld), Stack: info,
				What: fmt.Sprintf("the handler for %q waits for room in a full queue at %s (%s) while holding %s: everything that needs these mutexes - other peers' handlers and the main thread that is supposed to empty the queue - stops behind it", cmd, fn, loc, strings.Join(qheld, ", "))}
		}
		if state == "drainviol" {
			kv := strings.SplitN(info, "\n", 2)
			return &Violation{Key: kv[0], What: kv[len(kv)-1]}
		}
		if state == "deadlock" {
			return &Violation{Key: "net/" + h + "/deadlock@" + fn, Stack: info,
				What: fmt.Sprintf("processing %q blocks forever on a mutex at %s (%s): the lock was left held earlier on this connection", cmd, fn, loc)}
		}
		_, _, _, callee := site4(info, false)
		return &Violation{Key: "net/" + h + "/hang@" + callee, Stack: info,
			What: fmt.Sprintf("processing %q did not finish within %v; the handler is inside %s, Run's goroutine currently at %s (%s)", cmd, watchdog, callee, fn, loc)}
	}

	tr("started")
	st, info := r.wait()
	tr("first-park")
	if st != "parked" {
		if st == "done" {
			if v := runEnded(-1, info); v != nil {
				return fail(-1, v)
			}
			ev.HarnessError("Run returned before any input")
		}
		return fail(-1, stuck(-1, st, info))
	}
	scriptedTicks := uint64(0)
	ended := false
	for i, e := range cs.Events {
		switch e.T {
		case "msg":
			pl, err := hex.DecodeString(e.Pl)
			if err != nil {
				ev.HarnessError("bad payload hex in case %d", cs.ID)
			}
			pc.feed(wire(e.Cmd, pl), false, false, false)
		case "raw":
			b, err := hex.DecodeString(e.Pl)
			if err != nil {
				ev.HarnessError("bad raw hex in case %d", cs.ID)
			}
			pc.feed(b, false, false, false)
		case "idle":
			pc.feed(nil, true, false, false)
		case "boom":
			pc.feed(nil, false, false, true)
		case "side":
			r.startSide(e.Cmd)
			res.Handled++
			continue
		case "join":
			r.sideCalls += r.joinSide()
			if v := r.after(cs, i); v != nil {
				return fail(i, v)
			}
			res.Handled++
			continue
		case "nodrain":
			r.noDrain = true
			res.Handled++
			continue
		case "drain":
			r.noDrain = false
			if v := r.after(cs, i); v != nil {
				return fail(i, v)
			}
			res.Handled++
			continue
		case "pong":
			// answer to the node's own ping: the nonce is whatever the node wrote
			r.flushOutput()
			pgs := pc.sentPings()
			var pl []byte
			if len(pgs) > 0 {
				pl = append(pl, pgs[len(pgs)-1]...)
			} else {
				pl = []byte{0x70, 0x6f, 0x6e, 0x67, 0x2d, 0x6e, 0x6f, 0x6e} // no ping was sent: any 8 bytes
			}
			switch e.Cmd {
			case "match":
			case "stale":
				if len(pgs) > 1 {
					pl = append(pl[:0], pgs[len(pgs)-2]...)
				} else {
					pl[0] ^= 1
				}
			case "short":
				pl = pl[:4]
			case "long":
				pl = append(pl, 0)
			default:
				ev.HarnessError("unknown pong kind %q", e.Cmd)
			}
			pc.feed(wire("pong", pl), false, false, false)
		case "tick":
			// Cmd "+16s": the node's clock is that much further each time (peer ping
			// period 15 s, no-data time-out 60 s)
			if e.Cmd != "" {
				d, err := time.ParseDuration(strings.TrimPrefix(e.Cmd, "+"))
				if err != nil {
					ev.HarnessError("bad tick offset %q", e.Cmd)
				}
				r.tickOff += d
			}
			if v := func() (v *Violation) {
				defer func() {
					if p := recover(); p != nil {
						st := string(debug.Stack())
						fn, loc, _ := site(st, true)
						held := r.heldLocks()
						v = &Violation{Key: "net/Tick/panic@" + fn + ":" + normMsg(fmt.Sprint(p)) + heldSuffix(held), Stack: st,
							What: fmt.Sprintf("OneConnection.Tick panicked: %v at %s (%s)", p, fn, loc)}
					}
				}()
				c.Tick(time.Now().Add(r.tickOff))
				return nil
			}(); v != nil {
				return fail(i, v)
			}
			scriptedTicks++
			if v := r.after(cs, i); v != nil {
				return fail(i, v)
			}
			res.Handled++
			continue
		default:
			ev.HarnessError("unknown event type %q", e.T)
		}
		st, info, qheld = r.waitQ()
		tr("event-" + e.T + "-" + e.Cmd + " " + st)
		if st == "done" {
			if v := runEnded(i, info); v != nil {
				return fail(i, v)
			}
			ended = true
			res.Handled++
			if i >= cs.Target {
				res.Reached = true
			}
			break
		}
		if st != "parked" {
			return fail(i, stuck(i, st, info))
		}
		if v := r.after(cs, i); v != nil {
			return fail(i, v)
		}
		res.Handled++
	}
	if r.side != nil {
		r.sideCalls += r.joinSide()
	}
	if !ended {
		if r.noDrain {
			r.noDrain = false
			if v := r.drainQueues(); v != nil {
				return fail(len(cs.Events), v)
			}
		}
		pc.feed(nil, false, true, false)
		st, info = r.wait()
		if st != "done" {
			return fail(len(cs.Events), stuck(len(cs.Events)-1, st, info))
		}
		if v := runEnded(len(cs.Events)-1, info); v != nil {
			return fail(len(cs.Events), v)
		}
	}
	tr("teardown")
	res.SideCalls = r.sideCalls
	network.VerifDelConn(c)
	n.spare = c // Run has returned through its tear-down and the writing thread is gone: the object can be reused
	// outcome class of the connection
	o := network.VerifOutcome(c)
	var ci network.ConnInfo
	c.GetStats(&ci)
	var cn []string
	for k := range ci.Counters {
		if strings.HasPrefix(k, "rbts_") || strings.HasPrefix(k, "sbts_") {
			continue
		}
		cn = append(cn, k)
	}
	sort.Strings(cn)
	res.Outcome = fmt.Sprintf("ban=%s why=%s mis=%d ver=%v b2g=%d bip=%d mp=%d/%d [%s]", o.BanReason, strings.SplitN(o.WhyDisc, ":", 2)[0], o.Misbehave, o.VersionReceived, network.VerifB2GCount(), o.BlocksInProgress,
		len(txpool.TransactionsToSend), len(txpool.TransactionsRejected), strings.Join(cn, " "))
	if n := ci.PingSentCnt; n > 0 || common.CounterGet("PongOK")+common.CounterGet("PongMismatch") > 0 {
		res.Outcome += fmt.Sprintf(" pings=%d pongok=%d pongbad=%d pongtmo=%d ghpong=%d", n, common.CounterGet("PongOK"), common.CounterGet("PongMismatch"), common.CounterGet("PongTimeout"), common.CounterGet("GetHeadersPong"))
	}
	if r.backpressure > 0 || common.CounterGet("TxChannelFULL") > 0 {
		res.Outcome += fmt.Sprintf(" backpressure=%d txq-full-drops=%d", r.backpressure, common.CounterGet("TxChannelFULL"))
	}
	if o.Ticks > 1+scriptedTicks {
		res.Disturbed = true
	}
	if cs.Target < len(cs.Events) && res.Handled > cs.Target {
		// the event under test was delivered; it reached a handler unless the
		// connection had already been closed by the prefix
		res.Reached = true
	}
	return res
}

// after runs the per-message oracle once Run is parked again.
func (r *connRun) after(cs *Case, i int) *Violation {
	if r.side != nil {
		return nil // free-running: the other thread takes and releases locks right now
	}
	cmd := r.evName(cs, i)
	if held := r.heldLocks(); len(held) > 0 {
		return &Violation{Key: "net/" + cmd + "/lock-held" + heldSuffix(held),
			What: fmt.Sprintf("handler for %q returned with mutexes still locked: %s", cmd, strings.Join(held, ", "))}
	}
	if r.noDrain {
		return nil
	}
	if v := r.drainQueues(); v != nil {
		return v
	}
	if held := r.heldLocks(); len(held) > 0 {
		return &Violation{Key: "mainthread/" + cmd + "/lock-held" + heldSuffix(held),
			What: fmt.Sprintf("after the main thread processed what %q queued, mutexes stay locked: %s", cmd, strings.Join(held, ", "))}
	}
	if out := r.n.stdoutSince(); strings.Contains(out, banner) {
		// cannot happen while Run is alive; kept as a consistency check of the hook
		return &Violation{Key: "net/" + cmd + "/panic-banner-while-running", What: "panic report printed although Run keeps running"}
	}
	return nil
}

// ---------------------------------------------------------------------------
// self tests of the oracle (run at the start of every tier)

func runSelf(n *nodeEnv, cs *Case) (res Result) {
	switch cs.Self {
	case "banner":
		// a panic raised inside Conn.Read travels through SockRead/FetchMessage into
		// Run's recover(): the log hook must see it and the missing tear-down too.
		c2 := *cs
		c2.Events = []Event{{T: "boom"}}
		res = runNet(n, &c2)
		if res.Viol != nil && strings.Contains(res.Viol.Key, "/panic@") && strings.Contains(res.Viol.What, "c18 self-test panic") {
			return Result{ID: cs.ID, Outcome: "selftest-ok", Fatal: true}
		}
		return Result{ID: cs.ID, Outcome: "selftest-FAILED: " + fmt.Sprint(res.Viol), Fatal: true}
	case "lock":
		// the harness leaks MutexRcv and the connection mutex on purpose
		n.reset(cs)
		network.MutexRcv.Lock()
		c2 := *cs
		c2.Events = []Event{{T: "msg", Cmd: "ping", Pl: "0102030405060708"}}
		res = runNet(n, &c2)
		if res.Viol != nil && strings.Contains(res.Viol.Key, "network.MutexRcv") {
			return Result{ID: cs.ID, Outcome: "selftest-ok", Fatal: true}
		}
		return Result{ID: cs.ID, Outcome: "selftest-FAILED: " + fmt.Sprint(res.Viol), Fatal: true}
	}
	return Result{ID: cs.ID, Outcome: "selftest-unknown", Fatal: true}
}

// ---------------------------------------------------------------------------

var raceMode bool // set in the -race child: no structural stuck-detection, no lock probes in between

var memBase uint64

func memTotal() uint64 {
	sm := []metrics.Sample{{Name: "/memory/classes/total:bytes"}}
	metrics.Read(sm)
	if sm[0].Value.Kind() == metrics.KindUint64 {
		return sm[0].Value.Uint64()
	}
	return 0
}

func workerMain(prefixDir, scratch string) {
	in := bufio.NewReaderSize(os.NewFile(3, "cases"), 1<<20)
	out := os.NewFile(4, "results")
	progressOut = out
	if wd := os.Getenv("C18_WATCHDOG"); wd != "" {
		fullWatchdog, _ = time.ParseDuration(wd)
	}
	// gocoin writes files into the current directory (cblk.go dumps "<hash>.bin" of
	// corrupt compact blocks): every worker lives in its own scratch directory
	os.MkdirAll(scratch+"/cwd", 0o755)
	if err := os.Chdir(scratch + "/cwd"); err != nil {
		ev.HarnessError("worker chdir: %v", err)
	}
	var n *nodeEnv
	enc := json.NewEncoder(out)
	for {
		line, err := in.ReadBytes('\n')
		if len(line) == 0 && err != nil {
			os.Exit(0)
		}
		var cs Case
		if e := json.Unmarshal(line, &cs); e != nil {
			ev.HarnessError("worker: bad case: %v", e)
		}
		t0 := time.Now()
		var res Result
		watchdog = fullWatchdog
		if cs.WdMs > 0 {
			watchdog = time.Duration(cs.WdMs) * time.Millisecond
		}
		switch cs.Kind {
		case "net":
			if n == nil {
				n = setupEnv(prefixDir, scratch)
			}
			res = runNet(n, &cs)
		case "self":
			if n == nil {
				n = setupEnv(prefixDir, scratch)
			}
			res = runSelf(n, &cs)
		case "lib":
			res = runLib(&cs)
		default:
			ev.HarnessError("worker: unknown kind %q", cs.Kind)
		}
		res.Micros = time.Since(t0).Microseconds()
		// a case that made the runtime map gigabytes (huge but successful make())
		// changes what fits under ulimit -v for the next one: start afresh
		if mt := memTotal(); memBase == 0 {
			memBase = mt
		} else if mt > memBase+(400<<20) {
			res.Fatal = true
		}
		if e := enc.Encode(&res); e != nil {
			os.Exit(3)
		}
		if res.Fatal {
			os.Exit(0)
		}
	}
}
